import XrlCrystals.Hand.Crystals
/-!
# Operation histories: the caller of the crystal API (core Lean only, executable)

A history is a list of `Op`s issued by a caller that keeps two tables, exactly like `harness/c14drv.c`:
`arrs` — every pointer returned by `Crystal_ArrayInit` (NULL when it failed), `objs` — every pointer returned by
`Crystal_GetCrystal` / `Crystal_MakeCopy`.  Ops name arrays and objects by their index in these tables.
A NULL array argument means the built-in collection, as the API documents.

`cstep` is one operation on the concrete memory; literal crystals are built by the caller on the heap
(`mkObj`) and released with `Crystal_Free` after the call, `list` releases the listing with `xrlFree` as
documented, `scrib` overwrites in place everything reachable through a handed-out pointer.
-/
namespace XrlCrystals
variable {α : Type}

inductive ARef where
  | builtin
  | user (i : Nat)
  deriving Repr, DecidableEq, Inhabited

inductive Src (α : Type) where
  | null
  | obj (j : Nat)
  | lit (c : Crystal α)
  deriving Inhabited

inductive Op (α : Type) where
  | init (n : Int)
  | add (arr : ARef) (src : Src α)
  | read (arr : ARef) (f : FileArg α)
  | get (arr : ARef) (name : Option String)
  | list (arr : ARef)
  | copy (src : Src α)
  | free (j : Nat)
  | afree (i : Nat)
  | scrib (j : Nat) (w : α)
  deriving Inhabited

inductive Ret where
  | ptr (nonnull : Bool)
  | int (v : Int)
  | names (n : Nat) (l : List String)
  | unit
  deriving Repr, DecidableEq, Inhabited

/-- what a concrete step hands back: the return value and the error object stored through `&error` -/
structure Out where
  ret : Ret
  err : Option Err
  deriving Repr, DecidableEq, Inhabited

structure CState (α : Type) where
  mem : Mem α
  arrs : List (Option Nat)
  objs : List (Option Nat)
  deriving Inhabited

namespace CState

def arr (σ : CState α) : ARef → M (Option Nat)
  | .builtin => pure none
  | .user i =>
    match σ.arrs[i]? with
    | some p => pure p
    | none => .error .badHandle

def obj (σ : CState α) (j : Nat) : M (Option Nat) :=
  match σ.objs[j]? with
  | some p => pure p
  | none => .error .badHandle

/-- the `Crystal_Struct*` argument: memory after building a literal, the pointer, the literal to release -/
def src (σ : CState α) : Src α → M (Mem α × Option CPtr × Option Nat)
  | .null => pure (σ.mem, none, none)
  | .obj j => do
      let p ← σ.obj j
      pure (σ.mem, p.map CPtr.obj, none)
  | .lit c =>
      let (m, o) := mkObj σ.mem c
      pure (m, some (.obj o), some o)

end CState

/-- what `scrib` writes -/
def scribName (s : String) : String := String.ofList (List.replicate s.length '#')
def scribAtom (w : α) : Atom α := ⟨0, w, w, w, w⟩
def scribCell (w : α) : Cell α := ⟨w, w, w, w, w, w⟩

/-- the caller overwrites, in place, every byte it can reach through a handed-out `Crystal_Struct*` -/
def scribble (m : Mem α) (o : Nat) (w : α) : M (Mem α) := do
  let c ← m.css.get o
  let s ← m.strs.get c.name
  let strs ← m.strs.set c.name (scribName s)
  let av ← m.atms.get c.atom
  if c.n_atom ≤ av.length then
    let atms ← m.atms.set c.atom ((av.take c.n_atom).map (fun _ => scribAtom w) ++ av.drop c.n_atom)
    let css ← m.css.set o { c with cell := scribCell w, volume := w }
    pure { m with strs := strs, atms := atms, css := css }
  else .error .outOfBounds

def cstep [Inhabited α] (vol : Cell α → α) (σ : CState α) : Op α → M (CState α × Out)
  | .init n => do
      let (m, p, e) ← Crystal_ArrayInit σ.mem n
      pure ({ σ with mem := m, arrs := σ.arrs ++ [p] }, ⟨.ptr p.isSome, e⟩)
  | .add arr s => do
      let a ← σ.arr arr
      let (m, p, lit) ← σ.src s
      let (m, r, e) ← Crystal_AddCrystal vol m p a
      let m ← Crystal_Free m lit
      pure ({ σ with mem := m }, ⟨.int r, e⟩)
  | .read arr f => do
      let a ← σ.arr arr
      let (m, r, e) ← Crystal_ReadFile vol σ.mem f a
      pure ({ σ with mem := m }, ⟨.int r, e⟩)
  | .get arr name => do
      let a ← σ.arr arr
      let (m, p, e) ← Crystal_GetCrystal σ.mem name a
      pure ({ σ with mem := m, objs := σ.objs ++ [p] }, ⟨.ptr p.isSome, e⟩)
  | .list arr => do
      let a ← σ.arr arr
      let (m, v, n, e) ← Crystal_GetCrystalsList σ.mem a
      match v with
      | none => pure ({ σ with mem := m }, ⟨.names n [], e⟩)
      | some v =>
        let (m, names) ← releaseList m v
        pure ({ σ with mem := m }, ⟨.names n names, e⟩)
  | .copy s => do
      let (m, p, lit) ← σ.src s
      let (m, q, e) ← Crystal_MakeCopy m p
      let m ← Crystal_Free m lit
      pure ({ σ with mem := m, objs := σ.objs ++ [q] }, ⟨.ptr q.isSome, e⟩)
  | .free j => do
      let p ← σ.obj j
      let m ← Crystal_Free σ.mem p
      pure ({ σ with mem := m }, ⟨.unit, none⟩)
  | .afree i => do
      let p ← σ.arr (.user i)
      let m ← Crystal_ArrayFree σ.mem p
      pure ({ σ with mem := m }, ⟨.unit, none⟩)
  | .scrib j w => do
      let p ← σ.obj j
      match p with
      | none => pure (σ, ⟨.unit, none⟩)
      | some o =>
        let m ← scribble σ.mem o w
        pure ({ σ with mem := m }, ⟨.unit, none⟩)

/-- a whole history; the outputs of all steps -/
def crun [Inhabited α] (vol : Cell α → α) (σ : CState α) : List (Op α) → M (CState α × List Out)
  | [] => pure (σ, [])
  | op :: ops => do
      let (σ, o) ← cstep vol σ op
      let (σ, os) ← crun vol σ ops
      pure (σ, o :: os)

/-! ### the initial memory: the static objects of the library -/

/-- lay out a list of crystals as static data: names and atom vectors at consecutive addresses -/
def staticCells : List (Crystal α) → Nat → List (CStruct α)
  | [], _ => []
  | c :: cs, k => ⟨k, c.cell, c.volume, c.atoms.length, k⟩ :: staticCells cs (k + 1)

/-- the process image before the first call: `Crystal_arr = {n, CRYSTALARRAY_MAX, __Crystal_arr}` at header
address 0 and vector address 0; the shipped names and atom vectors at addresses `0 .. n-1` of their stores -/
def initMem (bcap : Nat) (builtin : List (Crystal α)) : Mem α :=
  { hdrs := ⟨[some ⟨builtin.length, bcap, some 0⟩]⟩
    bufs := ⟨[some ⟨bcap, staticCells builtin 0⟩]⟩
    strs := ⟨builtin.map (fun c => some c.name)⟩
    atms := ⟨builtin.map (fun c => some c.atoms)⟩
    css := ⟨[]⟩
    vecs := ⟨[]⟩
    files := 0 }

def initState (bcap : Nat) (builtin : List (Crystal α)) : CState α :=
  ⟨initMem bcap builtin, [], []⟩

end XrlCrystals
