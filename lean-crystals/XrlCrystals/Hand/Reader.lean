import XrlCrystals.Hand.Crystals
/-!
# Character-level model of the reading loop of `Crystal_ReadFile` (core Lean only, executable)

`Hand/Crystals.lean` takes the *parsed* content of a crystal file (`Parsed`).  This file computes it from the
characters of the file, mirroring `src/crystal_diffraction.c:587-700` of the repaired tree (commits c7c36f9: the
result of `fgets` is looked at, 4d513ac: `%*[^\n]` after the five atom conversions) statement by statement:

* the stream: the unread suffix of the file, the end-of-file indicator (`feof`), and `buffer` as a C string
  (`fgets(buffer, 100, fp)`: at most 99 characters, through the first newline; `NULL` and an untouched buffer at
  end of file; a NUL byte in the file ends the C string that `sscanf` and the `buffer[i]` tests see);
* `sscanf(buffer, "%20s %d %20s", …)`, `sscanf(buffer, "%20s %lf %lf %lf %lf %lf %lf", …)` on that string,
  `fscanf(fp, "%i %lf %lf %lf %lf%*[^\n]", …)` on the stream after `fseek(fp, floc, SEEK_SET)`: glibc's conversions
  (white space = C-locale `isspace`; `%d`; `%i` with its octal/hexadecimal prefixes; `%lf` on decimal syntax with
  optional sign, fraction and exponent; `%20s`), written as in `lean-loader/Loader/Scan.lean`, which was probed
  against glibc 2.36;
* numbers are kept as the exact decimals their tokens denote (`Dec`); the driver rounds them to `double`
  (correctly rounded, as `strtod` does) before they enter the container model.

Outside the model (`ReadR.unsupported`; such files are skipped by the correspondence run and counted):
`inf`/`nan`/hexadecimal floating-point tokens.  Reading `buffer` before anything was stored in it would be
`ReadR.ub .uninit`; in the repaired loop this cannot happen (theorem `reader_never_reads_uninitialised`).
-/
namespace XrlCrystals

/-- the exact decimal `± m · 10^e` (the sign is kept apart: `-0.0` is not `0.0` as a `double`) -/
structure Dec where
  neg : Bool
  m : Nat
  e : Int
  deriving DecidableEq, Repr, Inhabited

namespace Reader

/-- `fgets(buffer, 100, fp)`: the length handed to `fgets` (proved equal to the extracted one: `C14.model_constants_are_extracted`) -/
def FGETS_N : Nat := 100
/-- the field width of `%20s` -/
def NAME_W : Nat := 20
/-- the three scanf formats the reader implements, in source order and C source spelling -/
def FORMATS : List String :=
  ["\"%20s %d %20s\"", "\"%20s %lf %lf %lf %lf %lf %lf\"", "\"%i %lf %lf %lf %lf%*[^\\n]\""]

/-- C `isspace` in the "C" locale -/
def isSpace (c : Char) : Bool :=
  c == ' ' || c == '\t' || c == '\n' || c == '\x0b' || c == '\x0c' || c == '\r'

def isDigit (c : Char) : Bool := '0' ≤ c && c ≤ '9'
def isOct (c : Char) : Bool := '0' ≤ c && c ≤ '7'
def hexVal (c : Char) : Option Nat :=
  if '0' ≤ c && c ≤ '9' then some (c.toNat - 48)
  else if 'a' ≤ c && c ≤ 'f' then some (c.toNat - 87)
  else if 'A' ≤ c && c ≤ 'F' then some (c.toNat - 55) else none

def skipWs : List Char → List Char
  | [] => []
  | c :: cs => if isSpace c then skipWs cs else c :: cs

/-- decimal digits: accumulated value, how many, rest -/
def spanDigits : List Char → Nat → Nat → Nat × Nat × List Char
  | [], acc, n => (acc, n, [])
  | c :: cs, acc, n => if isDigit c then spanDigits cs (acc * 10 + (c.toNat - 48)) (n + 1) else (acc, n, c :: cs)

def spanOct : List Char → Nat → Nat × List Char
  | [], acc => (acc, [])
  | c :: cs, acc => if isOct c then spanOct cs (acc * 8 + (c.toNat - 48)) else (acc, c :: cs)

def spanHex : List Char → Nat → Nat × List Char
  | [], acc => (acc, [])
  | c :: cs, acc =>
    match hexVal c with
    | some v => spanHex cs (acc * 16 + v)
    | none => (acc, c :: cs)

inductive ScanR (β : Type) where
  | ok (v : β) (rest : List Char)
  | fail           -- matching failure or end of input: the scanf call stops and returns the count so far
  | unsupported    -- input class not modelled
  deriving Repr, DecidableEq

/-- `(int) strtol(...)`: clamp to `long`, keep the low 32 bits (two's complement) -/
def toInt32 (v : Int) : Int :=
  let c := if v > 9223372036854775807 then 9223372036854775807 else if v < -9223372036854775808 then -9223372036854775808 else v
  let w := c % 4294967296
  if w ≥ 2147483648 then w - 4294967296 else w

def signOf : List Char → Bool × List Char
  | '-' :: t => (true, t)
  | '+' :: t => (false, t)
  | s => (false, s)

def withSign (neg : Bool) (v : Nat) : Int := if neg then -(v : Int) else (v : Int)

/-- `%d` -/
def scanD (s : List Char) : ScanR Int :=
  let (neg, s1) := signOf (skipWs s)
  let (v, n, rest) := spanDigits s1 0 0
  if n = 0 then .fail else .ok (toInt32 (withSign neg v)) rest

/-- `%i` (glibc `vfscanf`, base 0): after the sign a leading `0` selects octal, `0x`/`0X` hexadecimal (the `x` is
consumed; no hexadecimal digit after it leaves the value 0), anything else decimal.  `08` is therefore the number 0
followed by the unread character `8`. -/
def scanI (s : List Char) : ScanR Int :=
  let (neg, s1) := signOf (skipWs s)
  match s1 with
  | '0' :: c :: t =>
    if c == 'x' || c == 'X' then
      let (v, rest) := spanHex t 0
      .ok (toInt32 (withSign neg v)) rest
    else
      let (v, rest) := spanOct (c :: t) 0
      .ok (toInt32 (withSign neg v)) rest
  | _ =>
    let (v, n, rest) := spanDigits s1 0 0
    if n = 0 then .fail else .ok (toInt32 (withSign neg v)) rest

/-- up to `w` non-white-space characters -/
def spanNonSpace : Nat → List Char → List Char → List Char × List Char
  | 0, cs, acc => (acc.reverse, cs)
  | _, [], acc => (acc.reverse, [])
  | w + 1, c :: cs, acc => if isSpace c then (acc.reverse, c :: cs) else spanNonSpace w cs (c :: acc)

/-- `%<w>s` -/
def scanS (w : Nat) (s : List Char) : ScanR String :=
  let (tok, rest) := spanNonSpace w (skipWs s) []
  if tok.isEmpty then .fail else .ok (String.ofList tok) rest

/-- `%lf`: `[sign] digits [. digits] [(e|E) [sign] digits]` with at least one mantissa digit; an exponent marker
without digits is consumed and means exponent 0 (glibc).  The value is the exact decimal. -/
def scanF (s : List Char) : ScanR Dec :=
  let (neg, s1) := signOf (skipWs s)
  match s1 with
  | 'i' :: _ => .unsupported
  | 'I' :: _ => .unsupported
  | 'n' :: _ => .unsupported
  | 'N' :: _ => .unsupported
  | '0' :: 'x' :: _ => .unsupported
  | '0' :: 'X' :: _ => .unsupported
  | _ =>
    let (ip, ni, s2) := spanDigits s1 0 0
    let (m, nf, s3) := match s2 with
      | '.' :: t => spanDigits t ip 0
      | _ => (ip, 0, s2)
    if ni + nf = 0 then .fail
    else
      let (ex, s4) := match s3 with
        | c :: t =>
          if c == 'e' || c == 'E' then
            let (eneg, t1) := signOf t
            let (ev, _, t2) := spanDigits t1 0 0
            (withSign eneg ev, t2)
          else ((0 : Int), s3)
        | [] => ((0 : Int), s3)
      .ok ⟨neg, m, ex - (nf : Int)⟩ s4

/-! ### the stream -/

structure Stream where
  rest : List Char
  eof : Bool
  /-- `buffer` as a C string; `none`: nothing was ever stored in it -/
  buf : Option (List Char)
  deriving Inhabited

/-- the characters `fgets(buffer, 100, fp)` stores: at most `n`, through the first newline; `true` when the end of
the file was hit while reading -/
def fgetsLine : Nat → List Char → List Char → List Char × List Char × Bool
  | 0, cs, acc => (acc.reverse, cs, false)
  | _ + 1, [], acc => (acc.reverse, [], true)
  | n + 1, c :: cs, acc => if c == '\n' then ((c :: acc).reverse, cs, false) else fgetsLine n cs (c :: acc)

def cstr (l : List Char) : List Char := l.takeWhile (· ≠ '\x00')

/-- `fgets(buffer, 100, fp)`; `false` = it returned `NULL` (end of file, buffer untouched) -/
def fgets (s : Stream) : Stream × Bool :=
  match s.rest with
  | [] => ({ s with eof := true }, false)
  | _ =>
    let (line, rest, hit) := fgetsLine (FGETS_N - 1) s.rest []
    ({ rest := rest, eof := s.eof || hit, buf := some (cstr line) }, true)

/-- `buffer[i]` for `i` not beyond the terminating NUL -/
def bufAt (b : List Char) (i : Nat) : Char := b.getD i '\x00'

def startsWith (b : List Char) (p : List Char) : Bool := p.isPrefixOf b

/-- `sscanf(buffer, "%20s %d %20s", tag, &i, compound) == 3`: the name -/
def scanSLine (b : List Char) : Option String :=
  match scanS NAME_W b with
  | .ok _ r1 =>
    match scanD r1 with
    | .ok _ r2 =>
      match scanS NAME_W r2 with
      | .ok name _ => some name
      | _ => none
    | _ => none
  | _ => none

def scanFs : Nat → List Char → List Dec → ScanR (List Dec)
  | 0, r, acc => .ok acc.reverse r
  | k + 1, r, acc =>
    match scanF r with
    | .ok d r' => scanFs k r' (d :: acc)
    | .fail => .fail
    | .unsupported => .unsupported

/-- `sscanf(buffer, "%20s %lf %lf %lf %lf %lf %lf", …) == 7`: the cell -/
def scanUcell (b : List Char) : ScanR (Cell Dec) :=
  match scanS NAME_W b with
  | .ok _ r1 =>
    match scanFs 6 r1 [] with
    | .ok [a, b', c, al, be, ga] r => .ok ⟨a, b', c, al, be, ga⟩ r
    | .ok _ _ => .fail
    | .fail => .fail
    | .unsupported => .unsupported
  | _ => .fail

/-- `fscanf(fp, "%i %lf %lf %lf %lf%*[^\n]", …) == 5`: the atom and the stream after it -/
def scanAtom (r : List Char) : ScanR (Atom Dec) :=
  match scanI r with
  | .ok z r1 =>
    match scanFs 4 r1 [] with
    | .ok [f, x, y, zz] r2 => .ok ⟨z, f, x, y, zz⟩ (r2.dropWhile (· ≠ '\n'))
    | .ok _ _ => .fail
    | .fail => .fail
    | .unsupported => .unsupported
  | .fail => .fail
  | .unsupported => .unsupported

inductive ReadR where
  | parsed (p : Parsed Dec)
  | ub (u : UB)
  | unsupported
  deriving Inhabited, DecidableEq

/-- the header loop (`:619-642`): up to the `#L` line; the cell of the `#UCELL` line seen so far -/
inductive HdrR where
  | ok (s : Stream) (cell : Option (Cell Dec))
  | multi
  | bad
  | uninit
  | unsupported

def hdrLoop : Nat → Stream → Option (Cell Dec) → HdrR
  | 0, _, _ => .unsupported
  | f + 1, s, found =>
    if s.eof then .ok s found
    else
      let (s, got) := fgets s
      if !got then .ok s found
      else match s.buf with
        | none => .uninit
        | some b =>
          if startsWith b ['#', 'L'] then .ok s found
          else if startsWith b ['#', 'U', 'C', 'E', 'L', 'L'] then
            if found.isSome then .multi
            else match scanUcell b with
              | .ok c _ => hdrLoop f s (some c)
              | .fail => .bad
              | .unsupported => .unsupported
          else hdrLoop f s found

inductive CntR where
  | ok (s : Stream) (n : Nat)
  | uninit
  | fuel

/-- the counting loop (`:657-664`) -/
def cntLoop : Nat → Stream → Nat → CntR
  | 0, _, _ => .fuel
  | f + 1, s, n =>
    if s.eof then .ok s n
    else
      let (s, got) := fgets s
      if !got then .ok s n
      else match s.buf with
        | none => .uninit
        | some b => if bufAt b 0 == '#' then .ok s n else cntLoop f s (n + 1)

inductive AtomsR where
  | ok (as : List (Atom Dec)) (rest : List Char)
  | failAt (i : Nat)
  | unsupported

/-- the filling loop (`:681-690`) -/
def atomsLoop : Nat → Nat → List Char → List (Atom Dec) → AtomsR
  | 0, _, r, acc => .ok acc.reverse r
  | k + 1, i, r, acc =>
    match scanAtom r with
    | .ok a r' => atomsLoop k (i + 1) r' (a :: acc)
    | .fail => .failAt i
    | .unsupported => .unsupported

/-- the loop over the lines of the file (`:587-700`).  `acc`: the completed definitions, in file order. -/
def outerLoop : Nat → Stream → List (Crystal Dec) → ReadR
  | 0, _, _ => .unsupported
  | f + 1, s, acc =>
    if s.eof then .parsed ⟨acc, none⟩
    else
      let (s, got) := fgets s
      if !got then .parsed ⟨acc, none⟩
      else match s.buf with
        | none => .ub .uninit
        | some b =>
          if !(bufAt b 0 == '#' && bufAt b 1 == 'S') then outerLoop f s acc
          else match scanSLine b with
            | none => .parsed ⟨acc, some .sLine⟩
            | some name =>
              match hdrLoop (s.rest.length + 2) s none with
              | .unsupported => .unsupported
              | .uninit => .ub .uninit
              | .multi => .parsed ⟨acc, some (.multiUcell name)⟩
              | .bad => .parsed ⟨acc, some (.badUcell name)⟩
              | .ok _ none => .parsed ⟨acc, some (.noUcell name)⟩
              | .ok s (some cell) =>
                let floc := s.rest
                match cntLoop (s.rest.length + 2) s 0 with
                | .fuel => .unsupported
                | .uninit => .ub .uninit
                | .ok s1 n =>
                  if n = 0 && s1.eof then .parsed ⟨acc, some (.eof name)⟩
                  else match atomsLoop n 0 floc [] with
                    | .unsupported => .unsupported
                    | .failAt i => .parsed ⟨acc, some (.atomLine name i n)⟩
                    | .ok as r =>
                      outerLoop f { rest := r, eof := r.isEmpty, buf := s1.buf } (acc ++ [⟨name, cell, ⟨false, 0, 0⟩, as⟩])

/-- what `Crystal_ReadFile` makes of the characters of a file it could open -/
def readText (text : List Char) : ReadR :=
  outerLoop (text.length + 2) ⟨text, false, none⟩ []

end Reader
end XrlCrystals
