/-!
# Hand model of the crystal containers of xraylib (core Lean only, executable)

Mirrors `src/crystal_diffraction.c` of the **repaired** tree (notes/proposed_fixes/C14-1..4.diff = commits
3e86fb4, f997fc4, b5bc6d9, ff2720a of /repo; line numbers are those of that file):
`Crystal_Find` (static helper), `Crystal_ExtendArray`, `Crystal_ArrayInit`, `Crystal_ArrayFree`,
`Crystal_MakeCopy`, `Crystal_Free`, `Crystal_GetCrystalsList`, `Crystal_GetCrystal`, `Crystal_AddCrystal`,
`Crystal_ReadFile`, the comparators `compareCrystalStructs` / `matchCrystalStruct` (`src/xrayvars.c:232-251`)
and the built-in `Crystal_arr` (`{n, CRYSTALARRAY_MAX, __Crystal_arr}` in the generated `xrayglob_inline.c`).

## The heap

Memory is explicit.  Every `malloc`-family call of the C code is an `alloc` in one of six *stores*, one per C
type of block (so that type confusion, which the C type system excludes, needs no case analysis):

* `hdrs` : `Crystal_Array` structs `{n_crystal, n_alloc, crystal}`          (`malloc(sizeof(Crystal_Array))`)
* `bufs` : vectors `Crystal_Struct[cap]` with their initialised prefix        (`malloc/realloc(cap * sizeof(Crystal_Struct))`)
* `strs` : NUL-terminated strings                                               (`strdup`)
* `atms` : vectors of `Crystal_Atom`                                            (`malloc(n * sizeof(Crystal_Atom))`)
* `css`  : single `Crystal_Struct`s                                             (`malloc(sizeof(Crystal_Struct))`)
* `vecs` : `char*[]` of `Crystal_GetCrystalsList`

An address is an index into its store; `free` leaves a tombstone and addresses are never reused, so any access
through a stale pointer is `ub useAfterFree`, a second `free` is `ub doubleFree`, a slot index `≥ cap` is
`ub outOfBounds` and reading a slot that was never written is `ub uninit`.  The static objects (`Crystal_arr`
and its table, the names and atom vectors of the shipped crystals) sit at the low addresses of the initial
stores and are never freed.  `realloc` is allocate–copy–free (the old vector is always dead afterwards).
Allocation failure (`malloc` returning NULL) is not modelled.

The numeric carrier `α` is opaque here: the containers only copy doubles.  The unit-cell volume formula is the
parameter `vol` (`Crystal_UnitCellVolume`, the subject of property C13).
-/
namespace XrlCrystals

/-- why a model run stops: the C program would have undefined behaviour -/
inductive UB where
  | useAfterFree | doubleFree | outOfBounds | uninit | nullDeref | badHandle
  deriving Repr, DecidableEq, Inhabited

abbrev M := Except UB

/-! ### error objects (include/xraylib-error.h) -/
structure Err where
  code : Nat
  msg : String
  deriving Repr, DecidableEq, Inhabited

def XRL_ERROR_INVALID_ARGUMENT : Nat := 1
def XRL_ERROR_IO : Nat := 2
def XRL_ERROR_RUNTIME : Nat := 5
/-- include/xraylib-defs.h:32 -/
def N_NEW_CRYSTAL : Nat := 10

/-! ### stores -/
structure Store (β : Type) where
  cells : List (Option β)
  deriving Inhabited

namespace Store
variable {β : Type}

def get? (s : Store β) (a : Nat) : Option β := (s.cells[a]?).join

/-- `malloc`: a fresh address -/
def alloc (s : Store β) (v : β) : Store β × Nat := (⟨s.cells ++ [some v]⟩, s.cells.length)

def get (s : Store β) (a : Nat) : M β :=
  match s.get? a with
  | some v => .ok v
  | none => .error .useAfterFree

def set (s : Store β) (a : Nat) (v : β) : M (Store β) :=
  match s.get? a with
  | some _ => .ok ⟨s.cells.set a (some v)⟩
  | none => .error .useAfterFree

def free (s : Store β) (a : Nat) : M (Store β) :=
  match s.get? a with
  | some _ => .ok ⟨s.cells.set a none⟩
  | none => .error .doubleFree

/-- live addresses -/
def dom (s : Store β) : List Nat := (List.range s.cells.length).filter (fun a => (s.get? a).isSome)
/-- live blocks -/
def vals (s : Store β) : List β := s.cells.filterMap id
def live (s : Store β) : Nat := s.vals.length

end Store

/-! ### data -/
structure Atom (α : Type) where
  Z : Int
  fraction : α
  x : α
  y : α
  z : α
  deriving Repr, Inhabited, DecidableEq

structure Cell (α : Type) where
  a : α
  b : α
  c : α
  alpha : α
  beta : α
  gamma : α
  deriving Repr, Inhabited, DecidableEq

/-- a crystal as a value (what the caller means by "the crystal I added") -/
structure Crystal (α : Type) where
  name : String
  cell : Cell α
  volume : α
  atoms : List (Atom α)
  deriving Repr, Inhabited, DecidableEq

/-- `Crystal_Struct` as it lies in memory (include/xraylib-defs.h:58-67): two owned pointers -/
structure CStruct (α : Type) where
  name : Nat
  cell : Cell α
  volume : α
  n_atom : Nat
  atom : Nat
  deriving Repr, Inhabited

/-- `Crystal_Array` (include/xraylib-defs.h:71-75) -/
structure Hdr where
  n_crystal : Nat
  n_alloc : Nat
  crystal : Option Nat
  deriving Repr, DecidableEq, Inhabited

/-- a vector `Crystal_Struct[cap]`; `slots` is its initialised prefix -/
structure Buf (α : Type) where
  cap : Nat
  slots : List (CStruct α)
  deriving Repr, Inhabited

structure Mem (α : Type) where
  hdrs : Store Hdr
  bufs : Store (Buf α)
  strs : Store String
  atms : Store (List (Atom α))
  css : Store (CStruct α)
  vecs : Store (List Nat)
  /-- number of open `FILE*` -/
  files : Nat
  deriving Inhabited

/-- a `Crystal_Struct*`: a single struct or an element of a vector -/
inductive CPtr where
  | obj (a : Nat)
  | slot (b : Nat) (i : Nat)
  deriving Repr, DecidableEq, Inhabited

variable {α : Type}

namespace Mem

/-- number of live heap blocks (the static objects included; the driver subtracts the initial count) -/
def live (m : Mem α) : Nat :=
  m.hdrs.live + m.bufs.live + m.strs.live + m.atms.live + m.css.live + m.vecs.live

/-- `v[i]` for a vector -/
def slotAt (bf : Buf α) (i : Nat) : M (CStruct α) :=
  if i < bf.cap then
    match bf.slots[i]? with
    | some c => .ok c
    | none => .error .uninit
  else .error .outOfBounds

/-- `*p` -/
def rdC (m : Mem α) : CPtr → M (CStruct α)
  | .obj a => m.css.get a
  | .slot b i => do
      let bf ← m.bufs.get b
      slotAt bf i

/-- the first `n` elements of a vector -/
def firstN (bf : Buf α) (n : Nat) : M (List (CStruct α)) :=
  if n ≤ bf.slots.length then .ok (bf.slots.take n)
  else if n ≤ bf.cap then .error .uninit
  else .error .outOfBounds

/-- `c_array->crystal[0 .. n_crystal)` -/
def slotsOf (m : Mem α) (h : Hdr) : M (List (CStruct α)) :=
  match h.crystal with
  | none => if h.n_crystal = 0 then .ok [] else .error .nullDeref
  | some b => do
      let bf ← m.bufs.get b
      firstN bf h.n_crystal

/-- the names the comparators read: `crystal[i].name` dereferenced -/
def namesOf (m : Mem α) (cs : List (CStruct α)) : M (List String) :=
  cs.mapM (fun c => m.strs.get c.name)

/-- `namesOf` for the COMPILED driver only: the string store is turned into an array once, so that the names of an `n`-element vector cost
`O(store + n)` instead of `O(store · n)` list steps (bulk histories grow arrays beyond 1000 crystals).  Proved equal to `namesOf` below and
substituted by the compiler (`csimp`); every theorem is about `namesOf`. -/
def namesOfFast (m : Mem α) (cs : List (CStruct α)) : M (List String) :=
  let arr := m.strs.cells.toArray
  cs.mapM (fun c => match (arr[c.name]?).join with
    | some v => .ok v
    | none => .error .useAfterFree)

@[csimp] theorem namesOf_eq_namesOfFast : @namesOf = @namesOfFast := by
  funext α m cs
  simp only [namesOf, namesOfFast, Store.get, Store.get?, List.getElem?_toArray]
  congr 1
  funext c
  cases m.strs.cells[c.name]?.join <;> rfl

/-- `v[i] = c` for `i ≤` initialised length (appending initialises the next slot) -/
def wrSlot (m : Mem α) (b : Nat) (i : Nat) (c : CStruct α) : M (Mem α) := do
  let bf ← m.bufs.get b
  if i < bf.cap then
    if i < bf.slots.length then
      let bufs ← m.bufs.set b { bf with slots := bf.slots.set i c }
      pure { m with bufs := bufs }
    else if i = bf.slots.length then
      let bufs ← m.bufs.set b { bf with slots := bf.slots ++ [c] }
      pure { m with bufs := bufs }
    else .error .uninit      -- would leave an uninitialised gap; not representable, never reached
  else .error .outOfBounds

end Mem

/-! ### src/crystal_diffraction.c (repaired tree) -/

/-- `Crystal_Find` (crystal_diffraction.c:56-60; static, added by fix b5bc6d9): `NULL` for an empty array, else `bsearch` with
`matchCrystalStruct` — by contract of `bsearch`: an element comparing equal, if there is one (the first, when the
vector is not sorted-unique and libc's choice would be unspecified).  Returns the index. -/
def Crystal_Find (m : Mem α) (material : String) (arr : Nat) : M (Option Nat) := do
  let h ← m.hdrs.get arr
  if h.n_crystal = 0 then pure none
  else
    let cs ← m.slotsOf h
    let names ← m.namesOf cs
    pure (names.findIdx? (· == material))

/-- `Crystal_ExtendArray` (:65-88; static, as repaired by fix f997fc4): refuse for `&Crystal_arr` (address 0), else
`realloc(c_array->crystal, (n_alloc + n_new) * sizeof(Crystal_Struct))` and update the struct in place. -/
def Crystal_ExtendArray (m : Mem α) (arr : Nat) (n_new : Nat) : M (Mem α × Bool × Option Err) := do
  if arr = 0 then
    pure (m, false, some ⟨XRL_ERROR_RUNTIME, "Extending internal is crystal array is not allowed"⟩)
  else
    let h ← m.hdrs.get arr
    match h.crystal with
    | none =>
      let (bufs, b) := m.bufs.alloc ⟨h.n_alloc + n_new, []⟩
      let hdrs ← m.hdrs.set arr { h with n_alloc := h.n_alloc + n_new, crystal := some b }
      pure ({ m with bufs := bufs, hdrs := hdrs }, true, none)
    | some b0 =>
      let bf ← m.bufs.get b0
      let bufs ← m.bufs.free b0
      let (bufs, b) := bufs.alloc ⟨h.n_alloc + n_new, bf.slots⟩
      let hdrs ← m.hdrs.set arr { h with n_alloc := h.n_alloc + n_new, crystal := some b }
      pure ({ m with bufs := bufs, hdrs := hdrs }, true, none)

/-- `Crystal_ArrayInit` (:92-118) -/
def Crystal_ArrayInit (m : Mem α) (n_crystal_alloc : Int) : M (Mem α × Option Nat × Option Err) := do
  let (hdrs, a) := m.hdrs.alloc ⟨0, n_crystal_alloc.toNat, none⟩
  if n_crystal_alloc = 0 then
    pure ({ m with hdrs := hdrs }, some a, none)
  else if n_crystal_alloc < 0 then
    let hdrs ← hdrs.free a
    pure ({ m with hdrs := hdrs }, none, some ⟨XRL_ERROR_INVALID_ARGUMENT, "Negative n_crystal_alloc is not allowed"⟩)
  else
    let (bufs, b) := m.bufs.alloc ⟨n_crystal_alloc.toNat, []⟩
    let hdrs ← hdrs.set a ⟨0, n_crystal_alloc.toNat, some b⟩
    pure ({ m with hdrs := hdrs, bufs := bufs }, some a, none)

/-- the loop of `Crystal_ArrayFree`: `free(crystal[i].name); free(crystal[i].atom)` -/
def freeCells (m : Mem α) : List (CStruct α) → M (Mem α)
  | [] => pure m
  | c :: cs => do
      let strs ← m.strs.free c.name
      let atms ← m.atms.free c.atom
      freeCells { m with strs := strs, atms := atms } cs

/-- `Crystal_ArrayFree` (:122-136) -/
def Crystal_ArrayFree (m : Mem α) (arr : Option Nat) : M (Mem α) :=
  match arr with
  | none => pure m
  | some a => do
      let h ← m.hdrs.get a
      let cs ← m.slotsOf h
      let m ← freeCells m cs
      let bufs ← (match h.crystal with
        | none => pure m.bufs
        | some b => m.bufs.free b)
      let hdrs ← m.hdrs.free a
      pure { m with bufs := bufs, hdrs := hdrs }

/-- `Crystal_MakeCopy` (:140-168): a new struct with a `strdup`ed name and a `memcpy`ed atom vector.
(The struct is allocated first in C; the stores are separate, so allocating it last with its final content
gives the same memory.) -/
def Crystal_MakeCopy (m : Mem α) (crystal : Option CPtr) : M (Mem α × Option Nat × Option Err) :=
  match crystal with
  | none => pure (m, none, some ⟨XRL_ERROR_INVALID_ARGUMENT, "Crystal cannot be NULL"⟩)
  | some p => do
      let c ← m.rdC p
      let s ← m.strs.get c.name
      let (strs, nm) := m.strs.alloc s
      let av ← m.atms.get c.atom
      if c.n_atom ≤ av.length then
        let (atms, ap) := m.atms.alloc (av.take c.n_atom)
        let (css, out) := m.css.alloc { c with name := nm, atom := ap }
        pure ({ m with strs := strs, atms := atms, css := css }, some out, none)
      else .error .outOfBounds

/-- `Crystal_Free` (:172-178) -/
def Crystal_Free (m : Mem α) (crystal : Option Nat) : M (Mem α) :=
  match crystal with
  | none => pure m
  | some a => do
      let c ← m.css.get a
      let strs ← m.strs.free c.name
      let atms ← m.atms.free c.atom
      let css ← m.css.free a
      pure { m with strs := strs, atms := atms, css := css }

/-- `strdup` of each name -/
def dupAll (strs : Store String) : List String → Store String × List Nat
  | [] => (strs, [])
  | s :: ss =>
      let (strs, p) := strs.alloc s
      let (strs, ps) := dupAll strs ss
      (strs, p :: ps)

/-- `Crystal_GetCrystalsList` (:182-203): returns the vector, `*nCrystals` -/
def Crystal_GetCrystalsList (m : Mem α) (arr : Option Nat) : M (Mem α × Option Nat × Nat × Option Err) := do
  let a := arr.getD 0
  let h ← m.hdrs.get a
  let cs ← m.slotsOf h
  let names ← m.namesOf cs
  let (strs, ps) := dupAll m.strs names
  let (vecs, v) := m.vecs.alloc ps
  pure ({ m with strs := strs, vecs := vecs }, some v, h.n_crystal, none)

/-- the caller releases the list as documented: `xrlFree` on every string, then on the vector -/
def freeAll (strs : Store String) : List Nat → M (Store String)
  | [] => pure strs
  | p :: ps => do
      let strs ← strs.free p
      freeAll strs ps

def releaseList (m : Mem α) (v : Nat) : M (Mem α × List String) := do
  let ps ← m.vecs.get v
  let names ← ps.mapM (fun p => m.strs.get p)
  let strs ← freeAll m.strs ps
  let vecs ← m.vecs.free v
  pure ({ m with strs := strs, vecs := vecs }, names)

/-- `Crystal_GetCrystal` (:207-227) -/
def Crystal_GetCrystal (m : Mem α) (material : Option String) (arr : Option Nat) : M (Mem α × Option Nat × Option Err) :=
  match material with
  | none => pure (m, none, some ⟨XRL_ERROR_INVALID_ARGUMENT, "Crystal cannot be NULL"⟩)
  | some material => do
      let a := arr.getD 0
      match ← Crystal_Find m material a with
      | none => pure (m, none, some ⟨XRL_ERROR_INVALID_ARGUMENT, "Crystal " ++ material ++ " is not present in array"⟩)
      | some i =>
        let h ← m.hdrs.get a
        match h.crystal with
        | none => .error .nullDeref
        | some b => Crystal_MakeCopy m (some (.slot b i))

/-- `qsort(c_array->crystal, c_array->n_crystal, sizeof(Crystal_Struct), compareCrystalStructs)` — by contract of
`qsort`: the first `n_crystal` elements are permuted into non-decreasing `strcmp` order of their names
(a stable merge sort here; with pairwise different names the result does not depend on the algorithm). -/
def sortArray (m : Mem α) (arr : Nat) : M (Mem α) := do
  let h ← m.hdrs.get arr
  match h.crystal with
  | none => if h.n_crystal = 0 then pure m else .error .nullDeref
  | some b =>
    let bf ← m.bufs.get b
    let cs ← Mem.firstN bf h.n_crystal
    let names ← m.namesOf cs
    let sorted := ((names.zip cs).mergeSort (fun x y => decide (x.1 ≤ y.1))).map (·.2)
    let bufs ← m.bufs.set b { bf with slots := sorted ++ bf.slots.drop h.n_crystal }
    pure { m with bufs := bufs }

/-- the tail of `Crystal_AddCrystal` once `tmp = Crystal_MakeCopy(crystal)` succeeded:
`a_cryst = &c_array->crystal[c_array->n_crystal++]; *a_cryst = *tmp; free(tmp);`
`a_cryst->volume = Crystal_UnitCellVolume(a_cryst, NULL); qsort(…)`
(the two writes to the one slot are done as one: the copy with its volume recomputed). -/
def storeCopy (vol : Cell α → α) (m : Mem α) (a : Nat) (tmp : Nat) : M (Mem α) := do
  let h ← m.hdrs.get a
  let tc ← m.css.get tmp
  match h.crystal with
  | none => .error .nullDeref
  | some b =>
    let m ← m.wrSlot b h.n_crystal { tc with volume := vol tc.cell }
    let hdrs ← m.hdrs.set a { h with n_crystal := h.n_crystal + 1 }
    let css ← m.css.free tmp
    sortArray { m with hdrs := hdrs, css := css } a

/-- `Crystal_AddCrystal` (:483-525, as repaired by fixes 3e86fb4, f997fc4, b5bc6d9). -/
def Crystal_AddCrystal (vol : Cell α → α) (m : Mem α) (crystal : Option CPtr) (arr : Option Nat) :
    M (Mem α × Int × Option Err) := do
  let a := arr.getD 0
  match crystal with
  | none => pure (m, 0, some ⟨XRL_ERROR_INVALID_ARGUMENT, "Crystal cannot be NULL"⟩)
  | some p =>
    let c ← m.rdC p
    let name ← m.strs.get c.name
    match ← Crystal_Find m name a with
    | some _ => pure (m, 0, some ⟨XRL_ERROR_INVALID_ARGUMENT, "Crystal already present in array"⟩)
    | none =>
      let h ← m.hdrs.get a
      let (m, ok, e) ← (if h.n_crystal = h.n_alloc then Crystal_ExtendArray m a N_NEW_CRYSTAL else pure (m, true, none))
      if !ok then pure (m, 0, e)
      else
        let (m, tmp, _) ← Crystal_MakeCopy m (some p)
        match tmp with
        | none => .error .nullDeref       -- allocation failure is not modelled
        | some tmp =>
          let m ← storeCopy vol m a tmp
          pure (m, 1, none)

/-! ### `Crystal_ReadFile` (:532-712, as repaired by fix ff2720a)

The tokenisation done by `fgets/sscanf/fscanf` is libc's and is trusted by contract (DESIGN §6): the model takes
the *parsed* content — the well-formed entries in file order, up to the first malformed one. -/

/-- what is wrong with the first malformed entry, and how far the C code got with it -/
inductive ParseErr where
  | sLine                                   -- `#S` line without `<num> <name>`: nothing allocated yet
  | noUcell (name : String)                 -- struct and name allocated
  | multiUcell (name : String)
  | badUcell (name : String)
  | eof (name : String)                     -- end of file before the atom list
  | atomLine (name : String) (line : Nat) (n : Nat)   -- struct, name and an `n`-atom vector allocated
  deriving Repr, DecidableEq, Inhabited

def ParseErr.toErr : ParseErr → Err
  | .sLine => ⟨XRL_ERROR_IO, "Malformed '#S <num> <crystal_name>' construct"⟩
  | .noUcell n => ⟨XRL_ERROR_IO, "No #UCELL line found for crystal " ++ n⟩
  | .multiUcell n => ⟨XRL_ERROR_IO, "Multiple #UCELL lines found for crystal " ++ n⟩
  | .badUcell n => ⟨XRL_ERROR_IO, "Malformed #UCELL line found for crystal " ++ n⟩
  | .eof _ => ⟨XRL_ERROR_IO, "End of file encountered before definition was complete"⟩
  | .atomLine n l _ => ⟨XRL_ERROR_IO, "Could not parse atom position on line " ++ toString l ++ " for crystal " ++ n⟩

structure Parsed (α : Type) where
  good : List (Crystal α)
  bad : Option ParseErr
  deriving Inhabited, DecidableEq

inductive FileArg (α : Type) where
  | nullName
  | cannotOpen
  | content (p : Parsed α)
  deriving Inhabited

/-- the caller (or the reader) builds a crystal on the heap: struct, `strdup`ed name, atom vector -/
def mkObj (m : Mem α) (c : Crystal α) : Mem α × Nat :=
  let (strs, nm) := m.strs.alloc c.name
  let (atms, ap) := m.atms.alloc c.atoms
  let (css, o) := m.css.alloc ⟨nm, c.cell, c.volume, c.atoms.length, ap⟩
  ({ m with strs := strs, atms := atms, css := css }, o)

/-- the reading loop: every completed definition goes through `Crystal_AddCrystal(crystal, new_array)` and
`Crystal_Free(crystal)`.  Returns the error of the first entry that fails (a name occurring twice). -/
def readEntries (vol : Cell α → α) (m : Mem α) (na : Nat) : List (Crystal α) → M (Mem α × Option Err)
  | [] => pure (m, none)
  | c :: cs => do
      let (m, o) := mkObj m c
      let (m, r, e) ← Crystal_AddCrystal vol m (some (.obj o)) (some na)
      let m ← Crystal_Free m (some o)        -- on success in the loop, on failure at `fail:`
      if r = 0 then pure (m, e) else readEntries vol m na cs

/-- the partially read crystal at `fail:` — allocated, then released by `Crystal_Free(crystal)` -/
def partialEntry [Inhabited α] (m : Mem α) : ParseErr → M (Mem α)
  | .sLine => pure m
  | .noUcell n | .multiUcell n | .badUcell n | .eof n => do
      let (strs, nm) := m.strs.alloc n
      let strs ← strs.free nm
      let (css, o) := m.css.alloc ⟨nm, default, default, 0, 0⟩
      let css ← css.free o
      pure { m with strs := strs, css := css }
  | .atomLine n _ k => do
      let (strs, nm) := m.strs.alloc n
      let strs ← strs.free nm
      let (atms, ap) := m.atms.alloc (List.replicate k default)
      let atms ← atms.free ap
      let (css, o) := m.css.alloc ⟨nm, default, default, k, ap⟩
      let css ← css.free o
      pure { m with strs := strs, atms := atms, css := css }

/-- first loop after the file is closed: is a name of the file already in the target? -/
def anyPresent (m : Mem α) (a : Nat) : List String → M Bool
  | [] => pure false
  | n :: ns => do
      match ← Crystal_Find m n a with
      | some _ => pure true
      | none => anyPresent m a ns

/-- second loop: `Crystal_AddCrystal(&new_array->crystal[i], c_array)` -/
def mergeAll (vol : Cell α → α) (m : Mem α) (nb : Nat) (a : Nat) : List Nat → M (Mem α × Option Err)
  | [] => pure (m, none)
  | i :: is => do
      let (m, r, e) ← Crystal_AddCrystal vol m (some (.slot nb i)) (some a)
      if r = 0 then pure (m, e) else mergeAll vol m nb a is

/-- the label `fail:` — `fclose` if still open, `Crystal_Free(crystal)` (done by the callers above),
`Crystal_ArrayFree(new_array)`, `return 0` -/
def readFail (m : Mem α) (na : Nat) (fp : Bool) (e : Option Err) : M (Mem α × Int × Option Err) := do
  let m := if fp then { m with files := m.files - 1 } else m
  let m ← Crystal_ArrayFree m (some na)
  pure (m, 0, e)

/-- `c_array == &Crystal_arr && new_array->n_crystal > c_array->n_alloc - c_array->n_crystal` -/
def overBuiltin (m : Mem α) (a : Nat) (n : Nat) : M Bool :=
  if a = 0 then do
    let h ← m.hdrs.get a
    pure (decide ((n : Int) > (h.n_alloc : Int) - (h.n_crystal : Int)))
  else pure false

/-- the second loop as a whole: nothing to do when the temporary array never got a vector (empty file) -/
def mergeStage (vol : Cell α → α) (m : Mem α) (hn : Hdr) (a : Nat) : M (Mem α × Option Err) :=
  match hn.crystal with
  | none => pure (m, none)
  | some nb => mergeAll vol m nb a (List.range hn.n_crystal)

/-- everything after `fclose(fp)` -/
def readCommit (vol : Cell α → α) (m : Mem α) (na : Nat) (a : Nat) : M (Mem α × Int × Option Err) := do
  let hn ← m.hdrs.get na
  let cs ← m.slotsOf hn
  let names ← m.namesOf cs
  if ← anyPresent m a names then
    readFail m na false (some ⟨XRL_ERROR_INVALID_ARGUMENT, "Crystal already present in array"⟩)
  else if ← overBuiltin m a hn.n_crystal then
    readFail m na false (some ⟨XRL_ERROR_RUNTIME, "Extending internal is crystal array is not allowed"⟩)
  else
    let (m, e) ← mergeStage vol m hn a
    match e with
    | some e => readFail m na false (some e)
    | none =>
      let m ← Crystal_ArrayFree m (some na)
      pure (m, 1, none)

def Crystal_ReadFile [Inhabited α] (vol : Cell α → α) (m : Mem α) (file : FileArg α) (arr : Option Nat) :
    M (Mem α × Int × Option Err) :=
  match file with
  | .nullName => pure (m, 0, some ⟨XRL_ERROR_IO, "NULL filenames are not allowed"⟩)
  | .cannotOpen => pure (m, 0, some ⟨XRL_ERROR_IO, "Could not open"⟩)
  | .content p => do
      let a := arr.getD 0
      let m := { m with files := m.files + 1 }                      -- fopen
      let (m, na, _) ← Crystal_ArrayInit m 0                        -- new_array
      match na with
      | none => .error .nullDeref
      | some na =>
        let (m, e) ← readEntries vol m na p.good
        match e with
        | some e => readFail m na true (some e)
        | none =>
          match p.bad with
          | some pe => do
              let m ← partialEntry m pe
              readFail m na true (some pe.toErr)
          | none => readCommit vol { m with files := m.files - 1 } na a       -- fclose

end XrlCrystals
