import XrlCrystals.Lemmas.Objects
/-!
# The functions on `Crystal_Array`s: `Crystal_ArrayInit`, `Crystal_ExtendArray`, `Crystal_Find`, `Crystal_ArrayFree`
-/
namespace XrlCrystals
variable {α : Type} {bcap : Nat} {m : Mem α}

namespace Mem

/-- an array whose header, vector, strings and atom vectors were not touched denotes what it denoted -/
theorem arrOf_congr_at {m' : Mem α} {a : Nat} (hh : m'.hdrs.get? a = m.hdrs.get? a)
    (hb : ∀ h b, m.hdrs.get? a = some h → h.crystal = some b → m'.bufs.get? b = m.bufs.get? b)
    (hc : ∀ h b bf c, m.hdrs.get? a = some h → h.crystal = some b → m.bufs.get? b = some bf → c ∈ bf.slots →
      m'.strs.get? c.name = m.strs.get? c.name ∧ m'.atms.get? c.atom = m.atms.get? c.atom) :
    m'.arrOf a = m.arrOf a := by
  cases hg : m.hdrs.get? a with
  | none => rw [arrOf_none hg, arrOf_none (by rw [hh]; exact hg)]
  | some hd =>
    cases hcr : hd.crystal with
    | none => rw [arrOf_eq_nil hg hcr, arrOf_eq_nil (by rw [hh]; exact hg) hcr]
    | some b =>
      cases hbf : m.bufs.get? b with
      | none => rw [arrOf_eq_none' hg hcr hbf, arrOf_eq_none' (by rw [hh]; exact hg) hcr (by rw [hb hd b hg hcr]; exact hbf)]
      | some bf =>
        rw [arrOf_eq hg hcr hbf, arrOf_eq (by rw [hh]; exact hg) hcr (by rw [hb hd b hg hcr]; exact hbf)]
        exact cellsOf_congr (fun c hc' => hc hd b bf c hg hcr hbf hc')

theorem objOf_congr3 {m' : Mem α} (h1 : m'.css = m.css) (h2 : m'.strs = m.strs) (h3 : m'.atms = m.atms) (o : Nat) :
    m'.objOf o = m.objOf o := by
  unfold objOf crystalOf; rw [h1, h2, h3]

theorem HdrOK_of_bufs {m' : Mem α} {h : Hdr} (hk : m.HdrOK h) (hb : ∀ b bf, m.bufs.get? b = some bf → m'.bufs.get? b = some bf) :
    m'.HdrOK h := by
  unfold HdrOK at *
  cases hc : h.crystal with
  | none => rw [hc] at hk; exact hk
  | some b =>
    rw [hc] at hk
    obtain ⟨bf, h1, h2⟩ := hk
    exact ⟨bf, hb b bf h1, h2⟩

end Mem

theorem WF.buf_live (w : WF bcap m) {a b : Nat} {h : Hdr} (hh : m.hdrs.get? a = some h) (hc : h.crystal = some b) :
    ∃ bf, m.bufs.get? b = some bf ∧ bf.cap = h.n_alloc ∧ bf.slots.length = h.n_crystal ∧ h.n_crystal ≤ h.n_alloc := by
  have hk := w.hdr_ok a h hh
  unfold Mem.HdrOK at hk
  rw [hc] at hk
  exact hk

theorem WF.hdr_none (w : WF bcap m) {a : Nat} {h : Hdr} (hh : m.hdrs.get? a = some h) (hc : h.crystal = none) :
    h.n_crystal = 0 ∧ h.n_alloc = 0 := by
  have hk := w.hdr_ok a h hh
  unfold Mem.HdrOK at hk
  rw [hc] at hk
  exact hk

/-! ### `Crystal_ArrayInit` -/

structure InitPost (bcap : Nat) (m m' : Mem α) (r : Option Nat) : Prop where
  wf : WF bcap m'
  arr_new : ∀ a, r = some a → a = m.hdrs.cells.length ∧ m'.arrOf a = some []
  arr_old : ∀ x, x ≠ m.hdrs.cells.length → m'.arrOf x = m.arrOf x
  arr_fail : r = none → ∀ x, m'.arrOf x = m.arrOf x
  obj : ∀ o, m'.objOf o = m.objOf o
  css : m'.css = m.css
  hlen : m'.hdrs.cells.length = m.hdrs.cells.length + 1
  files : m'.files = m.files

/-- the memory after `Crystal_ArrayInit(n)`, `n > 0` -/
def Mem.initPos (m : Mem α) (n : Nat) : Mem α :=
  { m with hdrs := (m.hdrs.alloc ⟨0, n, none⟩).1.upd m.hdrs.cells.length (some ⟨0, n, some m.bufs.cells.length⟩),
           bufs := (m.bufs.alloc ⟨n, []⟩).1 }

theorem arrayInit_spec (w : WF bcap m) (n : Int) :
    ∃ m' r e, Crystal_ArrayInit m n = .ok (m', r, e) ∧ InitPost bcap m m' r ∧
      (r.isSome = decide (0 ≤ n)) ∧ (e.isSome = decide (n < 0)) := by
  have hold : ∀ x, x ≠ m.hdrs.cells.length → ∀ v, (m.hdrs.alloc v).1.get? x = m.hdrs.get? x := by
    intro x hx v; rw [Store.get?_alloc]; simp [hx]
  obtain ⟨n0, hn0⟩ := w.h0
  have h0lt := Store.get?_lt hn0
  by_cases hz : n = 0
  · -- capacity 0: header only
    subst hz
    refine ⟨{ m with hdrs := (m.hdrs.alloc ⟨0, 0, none⟩).1 }, some m.hdrs.cells.length, none, rfl, ?_, by simp, by simp⟩
    have hnew : ({ m with hdrs := (m.hdrs.alloc ⟨0, 0, none⟩).1 } : Mem α).hdrs.get? m.hdrs.cells.length = some ⟨0, 0, none⟩ :=
      Store.get?_alloc_new _ _
    have harr : ∀ x, x ≠ m.hdrs.cells.length → ({ m with hdrs := (m.hdrs.alloc ⟨0, 0, none⟩).1 } : Mem α).arrOf x = m.arrOf x :=
      fun x hx => Mem.arrOf_congr_at (hold x hx _) (fun _ _ _ _ => rfl) (fun _ _ _ _ _ _ _ _ => ⟨rfl, rfl⟩)
    refine ⟨⟨⟨n0, ?_⟩, ?_, ?_, ?_, w.names, w.atoms, w.natom, ?_, w.vecs⟩, ?_, harr, (fun h => by cases h), (fun _ => rfl), rfl,
      Store.length_alloc _ _, rfl⟩
    · show (m.hdrs.alloc _).1.get? 0 = _
      rw [Store.get?_alloc_of_lt _ _ h0lt]; exact hn0
    · intro a h hh
      change (m.hdrs.alloc _).1.get? a = some h at hh
      rw [Store.get?_alloc] at hh
      split at hh
      · cases hh; exact ⟨rfl, rfl⟩
      · exact w.hdr_ok a h hh
    · intro a a' h h' b hh hh' hc hc'
      change (m.hdrs.alloc _).1.get? a = some h at hh
      change (m.hdrs.alloc _).1.get? a' = some h' at hh'
      rw [Store.get?_alloc] at hh hh'
      split at hh
      · cases hh; cases hc
      · split at hh'
        · cases hh'; cases hc'
        · exact w.buf_inj a a' h h' b hh hh' hc hc'
    · intro b bf hb
      obtain ⟨a, h, hh, hc⟩ := w.buf_owned b bf hb
      exact ⟨a, h, Store.get?_alloc_of_some _ _ hh, hc⟩
    · intro a vs hv
      by_cases ha : a = m.hdrs.cells.length
      · subst ha
        rw [Mem.arrOf_eq_nil hnew rfl] at hv
        cases hv; exact List.Pairwise.nil
      · rw [harr a ha] at hv; exact w.sorted a vs hv
    · intro a ha; cases ha
      exact ⟨rfl, Mem.arrOf_eq_nil hnew rfl⟩
  · by_cases hneg : n < 0
    · -- negative: the header is released again
      refine ⟨{ m with hdrs := (m.hdrs.alloc ⟨0, n.toNat, none⟩).1.upd m.hdrs.cells.length none }, none,
        some ⟨XRL_ERROR_INVALID_ARGUMENT, "Negative n_crystal_alloc is not allowed"⟩, ?_, ?_, (by simp; omega), (by simp [hneg])⟩
      · unfold Crystal_ArrayInit
        simp only [hz, if_false, hneg, if_true, Store.alloc_snd, Store.free_ok' (Store.get?_alloc_new _ _), bind, Except.bind, pure, Except.pure]
      have hget : ∀ x, ((m.hdrs.alloc ⟨0, n.toNat, none⟩).1.upd m.hdrs.cells.length none).get? x = m.hdrs.get? x := by
        intro x
        rw [Store.get?_upd_none]
        by_cases hx : x = m.hdrs.cells.length
        · subst hx; simp [Store.get?_ge (Nat.le_refl _)]
        · simp [hx, hold x hx]
      have harr : ∀ x, ({ m with hdrs := (m.hdrs.alloc ⟨0, n.toNat, none⟩).1.upd m.hdrs.cells.length none } : Mem α).arrOf x = m.arrOf x :=
        fun x => Mem.arrOf_congr_at (hget x) (fun _ _ _ _ => rfl) (fun _ _ _ _ _ _ _ _ => ⟨rfl, rfl⟩)
      refine ⟨⟨⟨n0, (hget 0).trans hn0⟩, ?_, ?_, ?_, w.names, w.atoms, w.natom, ?_, w.vecs⟩, (fun a h => by cases h),
        (fun x _ => harr x), (fun _ => harr), (fun _ => rfl), rfl, ?_, rfl⟩
      · intro a h hh; exact w.hdr_ok a h ((hget a).symm.trans hh)
      · intro a a' h h' b hh hh' hc hc'
        exact w.buf_inj a a' h h' b ((hget a).symm.trans hh) ((hget a').symm.trans hh') hc hc'
      · intro b bf hb
        obtain ⟨a, h, hh, hc⟩ := w.buf_owned b bf hb
        exact ⟨a, h, (hget a).trans hh, hc⟩
      · intro a vs hv; rw [harr a] at hv; exact w.sorted a vs hv
      · show ((m.hdrs.alloc _).1.upd _ _).cells.length = _
        rw [Store.length_upd, Store.length_alloc]
    · -- positive capacity: header and vector
      have hpos : 0 < n := by omega
      refine ⟨m.initPos n.toNat, some m.hdrs.cells.length, none, ?_, ?_, (by simp; omega), (by simp; omega)⟩
      · unfold Crystal_ArrayInit
        simp only [hz, if_false, hneg, Store.alloc_snd, Store.set_ok' _ (Store.get?_alloc_new _ _), bind, Except.bind, pure, Except.pure]
        rfl
      have hget : ∀ x, x ≠ m.hdrs.cells.length →
          ((m.hdrs.alloc ⟨0, n.toNat, none⟩).1.upd m.hdrs.cells.length (some ⟨0, n.toNat, some m.bufs.cells.length⟩)).get? x = m.hdrs.get? x := by
        intro x hx
        rw [Store.get?_upd_ne _ _ hx, hold x hx]
      have hnew : ((m.hdrs.alloc ⟨0, n.toNat, none⟩).1.upd m.hdrs.cells.length (some ⟨0, n.toNat, some m.bufs.cells.length⟩)).get?
          m.hdrs.cells.length = some ⟨0, n.toNat, some m.bufs.cells.length⟩ := Store.get?_upd_same (Store.get?_alloc_new _ _) _
      have hbold : ∀ b bf, m.bufs.get? b = some bf → (m.bufs.alloc ⟨n.toNat, []⟩).1.get? b = some bf :=
        fun b bf h => Store.get?_alloc_of_some _ _ h
      have harr : ∀ x, x ≠ m.hdrs.cells.length →
          (m.initPos n.toNat).arrOf x = m.arrOf x := by
        intro x hx
        apply Mem.arrOf_congr_at (hget x hx)
        · intro h b hh hc
          obtain ⟨bf, hb, _⟩ := w.buf_live hh hc
          show (m.bufs.alloc _).1.get? b = _
          rw [hbold b bf hb, hb]
        · intro _ _ _ _ _ _ _ _; exact ⟨rfl, rfl⟩
      have hnewarr : (m.initPos n.toNat).arrOf m.hdrs.cells.length = some [] := by
        rw [Mem.arrOf_eq hnew rfl (Store.get?_alloc_new _ _)]; rfl
      have hcells : cellsMS (m.bufs.alloc ⟨n.toNat, []⟩).1 m.css = m.cellsM := by
        rw [cellsMS_allocBuf]; simp [Mem.cellsM]
      refine ⟨⟨⟨n0, ?_⟩, ?_, ?_, ?_, ?_, ?_, ?_, ?_, w.vecs⟩, ?_, harr, (fun h => by cases h), (fun _ => rfl), rfl, ?_, rfl⟩
      · exact (hget 0 (Nat.ne_of_lt h0lt)).trans hn0
      · intro a h hh
        by_cases ha : a = m.hdrs.cells.length
        · subst ha
          have : h = ⟨0, n.toNat, some m.bufs.cells.length⟩ := by
            have := hnew.symm.trans hh; cases this; rfl
          subst this
          exact ⟨⟨n.toNat, []⟩, Store.get?_alloc_new _ _, rfl, rfl, Nat.zero_le _⟩
        · exact Mem.HdrOK_of_bufs (w.hdr_ok a h ((hget a ha).symm.trans hh)) hbold
      · intro a a' h h' b hh hh' hc hc'
        by_cases ha : a = m.hdrs.cells.length <;> by_cases ha' : a' = m.hdrs.cells.length
        · rw [ha, ha']
        · exfalso
          subst ha
          have : h = ⟨0, n.toNat, some m.bufs.cells.length⟩ := by
            have := hnew.symm.trans hh; cases this; rfl
          subst this
          cases hc
          obtain ⟨bf, hb, _⟩ := w.buf_live ((hget a' ha').symm.trans hh') hc'
          exact Nat.lt_irrefl _ (Store.get?_lt hb)
        · exfalso
          subst ha'
          have : h' = ⟨0, n.toNat, some m.bufs.cells.length⟩ := by
            have := hnew.symm.trans hh'; cases this; rfl
          subst this
          cases hc'
          obtain ⟨bf, hb, _⟩ := w.buf_live ((hget a ha).symm.trans hh) hc
          exact Nat.lt_irrefl _ (Store.get?_lt hb)
        · exact w.buf_inj a a' h h' b ((hget a ha).symm.trans hh) ((hget a' ha').symm.trans hh') hc hc'
      · intro b bf hb
        change (m.bufs.alloc _).1.get? b = some bf at hb
        rw [Store.get?_alloc] at hb
        split at hb
        · next hbl => exact ⟨m.hdrs.cells.length, _, hnew, by rw [hbl]⟩
        · obtain ⟨a, h, hh, hc⟩ := w.buf_owned b bf hb
          exact ⟨a, h, (hget a (Nat.ne_of_lt (Store.get?_lt hh))).trans hh, hc⟩
      · show Multiset.map _ (cellsMS (m.bufs.alloc _).1 m.css) = _
        rw [hcells]; exact w.names
      · show Multiset.map _ (cellsMS (m.bufs.alloc _).1 m.css) = _
        rw [hcells]; exact w.atoms
      · intro c hc
        change c ∈ cellsMS (m.bufs.alloc _).1 m.css at hc
        rw [hcells] at hc
        exact w.natom c hc
      · intro a vs hv
        by_cases ha : a = m.hdrs.cells.length
        · subst ha; rw [hnewarr] at hv; cases hv; exact List.Pairwise.nil
        · rw [harr a ha] at hv; exact w.sorted a vs hv
      · intro a ha; cases ha; exact ⟨rfl, hnewarr⟩
      · show ((m.hdrs.alloc _).1.upd _ _).cells.length = _
        rw [Store.length_upd, Store.length_alloc]


/-! ### `Crystal_ExtendArray` -/

structure ExtPost (bcap : Nat) (m m' : Mem α) (a : Nat) (h : Hdr) (n_new : Nat) : Prop where
  wf : WF bcap m'
  arr : ∀ x, m'.arrOf x = m.arrOf x
  css : m'.css = m.css
  strs : m'.strs = m.strs
  atms : m'.atms = m.atms
  hlen : m'.hdrs.cells.length = m.hdrs.cells.length
  hdr_a : ∃ h', m'.hdrs.get? a = some h' ∧ h'.n_crystal = h.n_crystal ∧ h'.n_alloc = h.n_alloc + n_new ∧ h'.crystal.isSome
  hdr_other : ∀ x, x ≠ a → m'.hdrs.get? x = m.hdrs.get? x
  files : m'.files = m.files
  buf_other : ∀ x hx b, x ≠ a → m.hdrs.get? x = some hx → hx.crystal = some b → m'.bufs.get? b = m.bufs.get? b

theorem extendArray_builtin (m : Mem α) (n : Nat) :
    Crystal_ExtendArray m 0 n = .ok (m, false, some ⟨XRL_ERROR_RUNTIME, "Extending internal is crystal array is not allowed"⟩) := rfl

/-- the memory after the vector of `a` was moved into a fresh block of `n_new` more elements -/
def Mem.extendedTo (m : Mem α) (a : Nat) (h : Hdr) (n_new : Nat) (B : Store (Buf α)) (slots : List (CStruct α)) : Mem α :=
  { m with bufs := (B.alloc ⟨h.n_alloc + n_new, slots⟩).1,
           hdrs := m.hdrs.upd a (some { h with n_alloc := h.n_alloc + n_new, crystal := some m.bufs.cells.length }) }

/-- the state after the vector of the live array `a` was moved to a fresh, larger block: `B` is the store of
vectors without the old block, `slots` the content that was copied -/
theorem extend_post (w : WF bcap m) {a : Nat} {h : Hdr} (ha : a ≠ 0) (hh : m.hdrs.get? a = some h) (n_new : Nat)
    (B : Store (Buf α)) (slots : List (CStruct α)) (hBl : B.cells.length = m.bufs.cells.length)
    (hBg : ∀ x, B.get? x = if h.crystal = some x then none else m.bufs.get? x)
    (hBc : m.cellsM = (slots : Multiset (CStruct α)) + cellsMS B m.css)
    (hsl : slots.length = h.n_crystal) (harr_a : m.arrOf a = m.cellsOf slots) :
    ExtPost bcap m (m.extendedTo a h n_new B slots) a h n_new := by
  obtain ⟨n0, hn0⟩ := w.h0
  have hH : ∀ x, x ≠ a → (m.hdrs.upd a (some { h with n_alloc := h.n_alloc + n_new, crystal := some m.bufs.cells.length })).get? x
      = m.hdrs.get? x := fun x hx => Store.get?_upd_ne _ _ hx
  have hHa : (m.hdrs.upd a (some { h with n_alloc := h.n_alloc + n_new, crystal := some m.bufs.cells.length })).get? a
      = some { h with n_alloc := h.n_alloc + n_new, crystal := some m.bufs.cells.length } := Store.get?_upd_same hh _
  have hBnew : (B.alloc ⟨h.n_alloc + n_new, slots⟩).1.get? m.bufs.cells.length = some ⟨h.n_alloc + n_new, slots⟩ := by
    rw [← hBl]; exact Store.get?_alloc_new _ _
  -- vectors of the other arrays are where they were
  have hBother : ∀ x hx b, x ≠ a → m.hdrs.get? x = some hx → hx.crystal = some b →
      (B.alloc ⟨h.n_alloc + n_new, slots⟩).1.get? b = m.bufs.get? b := by
    intro x hx b hxa hgx hcx
    obtain ⟨bf, hb, _⟩ := w.buf_live hgx hcx
    have : h.crystal ≠ some b := fun hc => hxa (w.buf_inj x a hx h b hgx hh hcx hc)
    rw [Store.get?_alloc_of_lt _ _ (by rw [hBl]; exact Store.get?_lt hb), hBg]
    simp [this]
  have hcells : cellsMS (B.alloc ⟨h.n_alloc + n_new, slots⟩).1 m.css = m.cellsM := by
    rw [cellsMS_allocBuf, hBc]
  have harr : ∀ x, (m.extendedTo a h n_new B slots).arrOf x = m.arrOf x := by
    intro x
    by_cases hx : x = a
    · subst hx
      rw [Mem.arrOf_eq hHa rfl hBnew, harr_a]
      exact Mem.cellsOf_congr (fun _ _ => ⟨rfl, rfl⟩)
    · exact Mem.arrOf_congr_at (hH x hx) (fun hx' b hg hc => hBother x hx' b hx hg hc) (fun _ _ _ _ _ _ _ _ => ⟨rfl, rfl⟩)
  refine ⟨⟨⟨n0, (hH 0 (Ne.symm ha)).trans hn0⟩, ?_, ?_, ?_, ?_, ?_, ?_, ?_, w.vecs⟩, harr, rfl, rfl, rfl, Store.length_upd _ _ _,
    ⟨_, hHa, rfl, rfl, rfl⟩, hH, rfl, hBother⟩
  · intro x hx hgx
    by_cases hxa : x = a
    · subst hxa
      have : hx = { h with n_alloc := h.n_alloc + n_new, crystal := some m.bufs.cells.length } := by
        have := hHa.symm.trans hgx; cases this; rfl
      subst this
      have hle : h.n_crystal ≤ h.n_alloc := by
        cases hc : h.crystal with
        | none => rw [(w.hdr_none hh hc).1]; exact Nat.zero_le _
        | some b => obtain ⟨_, _, _, _, hle⟩ := w.buf_live hh hc; exact hle
      exact ⟨⟨h.n_alloc + n_new, slots⟩, hBnew, rfl, hsl, Nat.le_trans hle (Nat.le_add_right _ _)⟩
    · have hgx' := (hH x hxa).symm.trans hgx
      have hk := w.hdr_ok x hx hgx'
      unfold Mem.HdrOK at hk ⊢
      cases hc : hx.crystal with
      | none => rw [hc] at hk; exact hk
      | some b =>
        rw [hc] at hk
        obtain ⟨bf, h1, h2⟩ := hk
        exact ⟨bf, (hBother x hx b hxa hgx' hc).trans h1, h2⟩
  · intro x x' hx hx' b hgx hgx' hc hc'
    have hfresh : ∀ y hy, y ≠ a → m.hdrs.get? y = some hy → hy.crystal ≠ some m.bufs.cells.length := by
      intro y hy _ hgy hcy
      obtain ⟨bf, hb, _⟩ := w.buf_live hgy hcy
      exact Nat.lt_irrefl _ (Store.get?_lt hb)
    by_cases hxa : x = a <;> by_cases hxa' : x' = a
    · rw [hxa, hxa']
    · exfalso
      subst hxa
      have : hx = { h with n_alloc := h.n_alloc + n_new, crystal := some m.bufs.cells.length } := by
        have := hHa.symm.trans hgx; cases this; rfl
      subst this
      cases hc
      exact hfresh x' hx' hxa' ((hH x' hxa').symm.trans hgx') hc'
    · exfalso
      subst hxa'
      have : hx' = { h with n_alloc := h.n_alloc + n_new, crystal := some m.bufs.cells.length } := by
        have := hHa.symm.trans hgx'; cases this; rfl
      subst this
      cases hc'
      exact hfresh x hx hxa ((hH x hxa).symm.trans hgx) hc
    · exact w.buf_inj x x' hx hx' b ((hH x hxa).symm.trans hgx) ((hH x' hxa').symm.trans hgx') hc hc'
  · intro b bf hb
    change (B.alloc _).1.get? b = some bf at hb
    rw [Store.get?_alloc, hBl] at hb
    split at hb
    · next hbl => exact ⟨a, _, hHa, by rw [hbl]⟩
    · rw [hBg] at hb
      split at hb
      · cases hb
      · next hne =>
        obtain ⟨x, hx, hgx, hcx⟩ := w.buf_owned b bf hb
        have hxa : x ≠ a := by
          intro hxa; subst hxa
          have : hx = h := by have := hgx.symm.trans hh; cases this; rfl
          subst this
          exact hne hcx
        exact ⟨x, hx, (hH x hxa).trans hgx, hcx⟩
  · show Multiset.map _ (cellsMS (B.alloc _).1 m.css) = _
    rw [hcells]; exact w.names
  · show Multiset.map _ (cellsMS (B.alloc _).1 m.css) = _
    rw [hcells]; exact w.atoms
  · intro c hc
    change c ∈ cellsMS (B.alloc _).1 m.css at hc
    rw [hcells] at hc
    exact w.natom c hc
  · intro x vs hv; rw [harr x] at hv; exact w.sorted x vs hv

theorem extendArray_spec (w : WF bcap m) {a : Nat} {h : Hdr} (ha : a ≠ 0) (hh : m.hdrs.get? a = some h) (n_new : Nat) :
    ∃ m', Crystal_ExtendArray m a n_new = .ok (m', true, none) ∧ ExtPost bcap m m' a h n_new := by
  cases hc : h.crystal with
  | none =>
    refine ⟨_, ?_, extend_post w ha hh n_new m.bufs [] rfl ?_ ?_ ?_ ?_⟩
    · unfold Crystal_ExtendArray
      simp only [ha, if_false, Store.get_ok hh, hc, Store.alloc_snd, Store.set_ok' _ hh, bind, Except.bind, pure, Except.pure]
      rfl
    · intro x; simp [hc]
    · simp [Mem.cellsM]
    · exact (w.hdr_none hh hc).1.symm
    · rw [Mem.arrOf_eq_nil hh hc]; rfl
  | some b0 =>
    obtain ⟨bf, hb, _, hsl, _⟩ := w.buf_live hh hc
    refine ⟨_, ?_, extend_post w ha hh n_new (m.bufs.upd b0 none) bf.slots (Store.length_upd _ _ _) ?_ ?_ hsl ?_⟩
    · unfold Crystal_ExtendArray
      simp only [ha, if_false, Store.get_ok hh, hc, Store.get_ok hb, Store.free_ok' hb, Store.alloc_snd, Store.length_upd,
        Store.set_ok' _ hh, bind, Except.bind, pure, Except.pure]
      rfl
    · intro x
      rw [Store.get?_upd_none, hc]
      by_cases hx : x = b0
      · subst hx; simp
      · have : ¬ b0 = x := fun h => hx h.symm
        simp [hx, this]
    · exact (cellsMS_updBuf m.css hb).1
    · exact Mem.arrOf_eq hh hc hb

end XrlCrystals
