import XrlCrystals.Lemmas.InsAll
import XrlCrystals.Hand.Reader
/-!
# Lemmas for the file clauses: lookups after inserting several crystals; the character-level reader
-/
namespace XrlCrystals
variable {α : Type}

/-! ### lookups after `insAll` -/

theorem find_insAll_other (vol : Cell α → α) {n : String} :
    ∀ (cs acc : List (Crystal α)), n ∉ cs.map (·.name) →
      (insAll vol acc cs).find? (fun x => x.name == n) = acc.find? (fun x => x.name == n)
  | [], _, _ => rfl
  | c :: cs, acc, hn => by
      rw [List.map_cons, List.mem_cons, not_or] at hn
      rw [insAll_cons, find_insAll_other vol cs _ hn.2]
      exact Dict.find_ins_other (c := recomp vol c) (by simpa using hn.1)

theorem find_insAll_mem (vol : Cell α → α) {c : Crystal α} :
    ∀ (cs acc : List (Crystal α)), freshAll acc cs → c ∈ cs →
      (insAll vol acc cs).find? (fun x => x.name == c.name) = some (recomp vol c)
  | [], _, _, hc => by cases hc
  | c0 :: cs, acc, hf, hc => by
      obtain ⟨h1, h2⟩ := (freshAll_cons vol acc c0 cs).mp hf
      rw [insAll_cons]
      rcases List.mem_cons.mp hc with rfl | hc'
      · have hnot : c.name ∉ cs.map (·.name) := by
          have := hf.1
          rw [List.map_cons, List.nodup_cons] at this
          exact this.1
        rw [find_insAll_other vol cs _ hnot]
        exact Dict.find_ins_same (c := recomp vol c) (by simpa using h1)
      · exact find_insAll_mem vol cs _ h2 hc'

/-! ### the reader -/

namespace Reader

theorem fgets_buf (s : Stream) (h : (fgets s).2 = true) : ∃ b, (fgets s).1.buf = some b := by
  unfold fgets at h ⊢
  cases hr : s.rest with
  | nil => rw [hr] at h; simp at h
  | cons c cs => simp

theorem hdrLoop_ne_uninit : ∀ (f : Nat) (s : Stream) (found : Option (Cell Dec)), hdrLoop f s found ≠ .uninit
  | 0, _, _ => by simp [hdrLoop]
  | f + 1, s, found => by
      unfold hdrLoop
      split
      · simp
      · rcases hfg : fgets s with ⟨s', got⟩
        cases got with
        | false => simp
        | true =>
          obtain ⟨b, hb⟩ := fgets_buf s (by rw [hfg])
          rw [hfg] at hb
          simp only at hb
          simp only [Bool.not_true, Bool.false_eq_true, ↓reduceIte, hb]
          repeat' split
          all_goals first | exact hdrLoop_ne_uninit f _ _ | simp

theorem cntLoop_ne_uninit : ∀ (f : Nat) (s : Stream) (n : Nat), cntLoop f s n ≠ .uninit
  | 0, _, _ => by simp [cntLoop]
  | f + 1, s, n => by
      unfold cntLoop
      split
      · simp
      · rcases hfg : fgets s with ⟨s', got⟩
        cases got with
        | false => simp
        | true =>
          obtain ⟨b, hb⟩ := fgets_buf s (by rw [hfg])
          rw [hfg] at hb
          simp only at hb
          simp only [Bool.not_true, Bool.false_eq_true, ↓reduceIte, hb]
          repeat' split
          all_goals first | exact cntLoop_ne_uninit f _ _ | simp

theorem outerLoop_ne_ub : ∀ (f : Nat) (s : Stream) (acc : List (Crystal Dec)) (u : UB), outerLoop f s acc ≠ .ub u
  | 0, _, _, _ => by simp [outerLoop]
  | f + 1, s, acc, u => by
      unfold outerLoop
      split
      · simp
      · rcases hfg : fgets s with ⟨s', got⟩
        cases got with
        | false => simp
        | true =>
          obtain ⟨b, hb⟩ := fgets_buf s (by rw [hfg])
          rw [hfg] at hb
          simp only at hb
          simp only [Bool.not_true, Bool.false_eq_true, ↓reduceIte, hb]
          repeat' split
          all_goals first
            | exact outerLoop_ne_ub f _ _ u
            | (rename_i h; exact absurd h (hdrLoop_ne_uninit _ _ _))
            | (rename_i h; exact absurd h (cntLoop_ne_uninit _ _ _))
            | simp

/-! ### `%20s`: a stored name has between 1 and 20 characters -/

theorem spanNonSpace_length : ∀ (w : Nat) (cs acc : List Char), (spanNonSpace w cs acc).1.length ≤ acc.length + w
  | 0, cs, acc => by simp [spanNonSpace]
  | w + 1, [], acc => by simp [spanNonSpace]
  | w + 1, c :: cs, acc => by
      unfold spanNonSpace
      split
      · simp
      · have := spanNonSpace_length w cs (c :: acc)
        simp only [List.length_cons] at this
        omega

theorem scanS_length {w : Nat} {s : List Char} {v : String} {r : List Char} (h : scanS w s = .ok v r) :
    1 ≤ v.length ∧ v.length ≤ w := by
  unfold scanS at h
  rcases hsp : spanNonSpace w (skipWs s) [] with ⟨tok, rest⟩
  rw [hsp] at h
  simp only at h
  split at h
  · cases h
  · next hne =>
    injection h with hv _
    subst hv
    have hl := spanNonSpace_length w (skipWs s) []
    rw [hsp] at hl
    simp only [List.length_nil, Nat.zero_add] at hl
    refine ⟨?_, by simpa using hl⟩
    rw [String.length_ofList]
    cases tok with
    | nil => simp at hne
    | cons c cs => simp

theorem scanSLine_length {b : List Char} {name : String} (h : scanSLine b = some name) :
    1 ≤ name.length ∧ name.length ≤ 20 := by
  unfold scanSLine at h
  split at h
  · split at h
    · split at h
      · next hs =>
        injection h with h
        subst h
        exact scanS_length hs
      · cases h
    · cases h
  · cases h

/-- names of the completed definitions and of the accumulator -/
def NamesFit (l : List (Crystal Dec)) : Prop := ∀ c ∈ l, 1 ≤ c.name.length ∧ c.name.length ≤ 20

theorem outerLoop_names : ∀ (f : Nat) (s : Stream) (acc : List (Crystal Dec)) (p : Parsed Dec),
    NamesFit acc → outerLoop f s acc = .parsed p → NamesFit p.good
  | 0, _, _, _, _, h => by simp [outerLoop] at h
  | f + 1, s, acc, p, hacc, h => by
      unfold outerLoop at h
      split at h
      · injection h with h; subst h; exact hacc
      · rcases hfg : fgets s with ⟨s', got⟩
        rw [hfg] at h
        cases got with
        | false => simp only [Bool.not_false, ↓reduceIte] at h; injection h with h; subst h; exact hacc
        | true =>
          simp only [Bool.not_true, Bool.false_eq_true, ↓reduceIte] at h
          split at h
          · cases h
          · split at h
            · exact outerLoop_names f _ _ p hacc h
            · split at h
              · injection h with h; subst h; exact hacc
              · next name hname =>
                split at h
                · cases h
                · cases h
                · injection h with h; subst h; exact hacc
                · injection h with h; subst h; exact hacc
                · injection h with h; subst h; exact hacc
                · split at h
                  · cases h
                  · cases h
                  · split at h
                    · injection h with h; subst h; exact hacc
                    · split at h
                      · cases h
                      · injection h with h; subst h; exact hacc
                      · refine outerLoop_names f _ _ p ?_ h
                        intro c hc
                        rcases List.mem_append.mp hc with hc | hc
                        · exact hacc c hc
                        · rw [List.mem_singleton] at hc
                          subst hc
                          exact scanSLine_length hname

end Reader
end XrlCrystals
