import XrlCrystals.Lemmas.Inv
/-!
# Consequences of the heap invariant; the functions on single `Crystal_Struct`s
(`Crystal_MakeCopy`, the caller's literals, `Crystal_Free`, the caller's scribbling)
-/
namespace XrlCrystals
variable {α : Type} {bcap : Nat} {m : Mem α}

namespace Mem

@[simp] theorem loc_obj (o : Nat) : m.loc (.obj o) = m.css.get? o := rfl
@[simp] theorem loc_slot (b i : Nat) :
    m.loc (.slot b i) = (m.bufs.get? b).bind (fun bf => if i < bf.cap then bf.slots[i]? else none) := rfl

theorem arrOf_eq {a b : Nat} {h : Hdr} {bf : Buf α} (hh : m.hdrs.get? a = some h) (hc : h.crystal = some b)
    (hb : m.bufs.get? b = some bf) : m.arrOf a = m.cellsOf bf.slots := by
  simp [arrOf, hh, hc, hb]

theorem arrOf_eq_none' {a b : Nat} {h : Hdr} (hh : m.hdrs.get? a = some h) (hc : h.crystal = some b)
    (hb : m.bufs.get? b = none) : m.arrOf a = none := by
  simp [arrOf, hh, hc, hb]

theorem arrOf_eq_nil {a : Nat} {h : Hdr} (hh : m.hdrs.get? a = some h) (hc : h.crystal = none) : m.arrOf a = some [] := by
  simp [arrOf, hh, hc]

theorem arrOf_none {a : Nat} (hh : m.hdrs.get? a = none) : m.arrOf a = none := by
  simp [arrOf, hh]

end Mem

namespace WF

theorem names_nodup (w : WF bcap m) : (m.cellsM.map (·.name)).Nodup := w.names ▸ Store.nodup_domM _
theorem atoms_nodup (w : WF bcap m) : (m.cellsM.map (·.atom)).Nodup := w.atoms ▸ Store.nodup_domM _

theorem name_live (w : WF bcap m) {c : CStruct α} (hc : c ∈ m.cellsM) : ∃ s, m.strs.get? c.name = some s :=
  Store.mem_domM.mp (w.names ▸ Multiset.mem_map_of_mem _ hc)

theorem crystalOf_some (w : WF bcap m) {c : CStruct α} (hc : c ∈ m.cellsM) : ∃ v, m.crystalOf c = some v := by
  obtain ⟨s, hs⟩ := w.name_live hc
  obtain ⟨av, ha, hn⟩ := w.natom c hc
  exact ⟨⟨s, c.cell, c.volume, av⟩, Mem.crystalOf_eq_some.mpr ⟨hs, ha, hn, rfl, rfl⟩⟩

theorem cellsOf_some (w : WF bcap m) {cs : List (CStruct α)} (h : ∀ c ∈ cs, c ∈ m.cellsM) :
    ∃ vs, m.cellsOf cs = some vs := by
  induction cs with
  | nil => exact ⟨[], rfl⟩
  | cons c cs ih =>
    obtain ⟨v, hv⟩ := w.crystalOf_some (h c List.mem_cons_self)
    obtain ⟨vs, hvs⟩ := ih (fun c' hc' => h c' (List.mem_cons_of_mem _ hc'))
    exact ⟨v :: vs, Mem.cellsOf_cons_eq_some.mpr ⟨v, vs, rfl, hv, hvs⟩⟩

theorem slot_mem (_w : WF bcap m) {b : Nat} {bf : Buf α} (hb : m.bufs.get? b = some bf) {c : CStruct α}
    (hc : c ∈ bf.slots) : c ∈ m.cellsM := Mem.mem_cellsM.mpr (Or.inl ⟨b, bf, hb, hc⟩)

theorem obj_mem (_w : WF bcap m) {o : Nat} {c : CStruct α} (ho : m.css.get? o = some c) : c ∈ m.cellsM :=
  Mem.mem_cellsM.mpr (Or.inr ⟨o, ho⟩)

theorem arrOf_some (w : WF bcap m) {a : Nat} {h : Hdr} (hh : m.hdrs.get? a = some h) : ∃ vs, m.arrOf a = some vs := by
  have hk := w.hdr_ok a h hh
  unfold Mem.HdrOK at hk
  cases hc : h.crystal with
  | none => exact ⟨[], Mem.arrOf_eq_nil hh hc⟩
  | some b =>
    rw [hc] at hk
    obtain ⟨bf, hb, _⟩ := hk
    rw [Mem.arrOf_eq hh hc hb]
    exact w.cellsOf_some (fun c hcm => w.slot_mem hb hcm)

theorem objOf_some (w : WF bcap m) {o : Nat} {c : CStruct α} (ho : m.css.get? o = some c) : ∃ v, m.objOf o = some v := by
  obtain ⟨v, hv⟩ := w.crystalOf_some (w.obj_mem ho)
  exact ⟨v, by unfold Mem.objOf; rw [ho]; exact hv⟩

theorem loc_mem (w : WF bcap m) {p : CPtr} {c : CStruct α} (h : m.loc p = some c) : c ∈ m.cellsM := by
  cases p with
  | obj o => exact w.obj_mem h
  | slot b i =>
    rw [Mem.loc_slot] at h
    cases hb : m.bufs.get? b with
    | none => rw [hb] at h; cases h
    | some bf =>
      rw [hb] at h
      simp only [Option.bind_some] at h
      split at h
      · exact w.slot_mem hb (List.mem_of_getElem? h)
      · cases h

end WF

namespace Mem

theorem arrOf_isSome_iff (w : WF bcap m) {a : Nat} : (m.arrOf a).isSome ↔ (m.hdrs.get? a).isSome := by
  cases hh : m.hdrs.get? a with
  | none => simp [arrOf_none hh]
  | some h => obtain ⟨vs, hv⟩ := w.arrOf_some hh; simp [hv]

/-- a memory that kept all headers and vectors and every live string / atom vector denotes the same arrays -/
theorem arrOf_of_grow {m' : Mem α} (w : WF bcap m) (hh : m'.hdrs = m.hdrs) (hb : m'.bufs = m.bufs)
    (hs : ∀ p s, m.strs.get? p = some s → m'.strs.get? p = some s)
    (ha : ∀ p av, m.atms.get? p = some av → m'.atms.get? p = some av) (a : Nat) : m'.arrOf a = m.arrOf a := by
  cases hg : m.hdrs.get? a with
  | none => rw [arrOf_none hg, arrOf_none (by rw [hh]; exact hg)]
  | some h =>
    cases hc : h.crystal with
    | none => rw [arrOf_eq_nil hg hc, arrOf_eq_nil (by rw [hh]; exact hg) hc]
    | some b =>
      cases hbf : m.bufs.get? b with
      | none => rw [arrOf_eq_none' hg hc hbf, arrOf_eq_none' (by rw [hh]; exact hg) hc (by rw [hb]; exact hbf)]
      | some bf =>
        rw [arrOf_eq hg hc hbf, arrOf_eq (by rw [hh]; exact hg) hc (by rw [hb]; exact hbf)]
        apply cellsOf_congr
        intro c hc'
        have hm := w.slot_mem hbf hc'
        obtain ⟨s, hs'⟩ := w.name_live hm
        obtain ⟨av, ha', _⟩ := w.natom c hm
        exact ⟨by rw [hs _ _ hs', hs'], by rw [ha _ _ ha', ha']⟩

theorem objOf_of_grow {m' : Mem α} (w : WF bcap m) {o : Nat} (hc : m'.css.get? o = m.css.get? o)
    (hs : ∀ p s, m.strs.get? p = some s → m'.strs.get? p = some s)
    (ha : ∀ p av, m.atms.get? p = some av → m'.atms.get? p = some av) : m'.objOf o = m.objOf o := by
  unfold objOf
  rw [hc]
  cases hg : m.css.get? o with
  | none => rfl
  | some c =>
    simp only [Option.bind_some]
    have hm := w.obj_mem hg
    obtain ⟨s, hs'⟩ := w.name_live hm
    obtain ⟨av, ha', _⟩ := w.natom c hm
    exact crystalOf_congr (by rw [hs _ _ hs', hs']) (by rw [ha _ _ ha', ha'])

theorem rdC_ok {p : CPtr} {c : CStruct α} (h : m.loc p = some c) : m.rdC p = .ok c := by
  cases p with
  | obj o => exact Store.get_ok h
  | slot b i =>
    rw [loc_slot] at h
    cases hb : m.bufs.get? b with
    | none => rw [hb] at h; cases h
    | some bf =>
      rw [hb] at h
      simp only [Option.bind_some] at h
      unfold rdC
      simp only [Store.get_ok hb, bind, Except.bind, slotAt]
      split at h
      · next hi => simp [hi, h]
      · cases h

end Mem

/-! ### the memory after a copy was made -/

/-- the memory after `Crystal_MakeCopy` of a struct denoting `v` / after the caller built the literal `v` -/
def Mem.withCopy (m : Mem α) (c : CStruct α) (v : Crystal α) : Mem α :=
  { m with strs := (m.strs.alloc v.name).1, atms := (m.atms.alloc v.atoms).1,
           css := (m.css.alloc { c with name := m.strs.cells.length, atom := m.atms.cells.length }).1 }

structure CopyPost (bcap : Nat) (m m' : Mem α) (v : Crystal α) : Prop where
  wf : WF bcap m'
  obj_new : m'.objOf m.css.cells.length = some v
  obj_old : ∀ o, o ≠ m.css.cells.length → m'.objOf o = m.objOf o
  arr : ∀ a, m'.arrOf a = m.arrOf a
  hdrs : m'.hdrs = m.hdrs
  bufs : m'.bufs = m.bufs
  clen : m'.css.cells.length = m.css.cells.length + 1
  css_old : ∀ o, o ≠ m.css.cells.length → m'.css.get? o = m.css.get? o
  files : m'.files = m.files

theorem withCopy_post (w : WF bcap m) (c : CStruct α) (v : Crystal α) (hn : c.n_atom = v.atoms.length)
    (hcell : v.cell = c.cell) (hvol : v.volume = c.volume) : CopyPost bcap m (m.withCopy c v) v := by
  have hs : ∀ p s, m.strs.get? p = some s → (m.withCopy c v).strs.get? p = some s :=
    fun p s h => Store.get?_alloc_of_some _ _ h
  have ha : ∀ p av, m.atms.get? p = some av → (m.withCopy c v).atms.get? p = some av :=
    fun p av h => Store.get?_alloc_of_some _ _ h
  have harr : ∀ a, (m.withCopy c v).arrOf a = m.arrOf a := Mem.arrOf_of_grow w rfl rfl hs ha
  have hcss : ∀ o, o ≠ m.css.cells.length → (m.withCopy c v).css.get? o = m.css.get? o := by
    intro o ho
    show (m.css.alloc _).1.get? o = _
    rw [Store.get?_alloc]; simp [ho]
  have hcells : (m.withCopy c v).cellsM =
      ({ c with name := m.strs.cells.length, atom := m.atms.cells.length } : CStruct α) ::ₘ m.cellsM :=
    cellsMS_allocCs m.bufs m.css _
  have hnew : (m.withCopy c v).crystalOf { c with name := m.strs.cells.length, atom := m.atms.cells.length } = some v := by
    apply Mem.crystalOf_eq_some.mpr
    refine ⟨Store.get?_alloc_new _ _, Store.get?_alloc_new _ _, hn, hcell, hvol⟩
  refine ⟨⟨w.h0, ?_, w.buf_inj, w.buf_owned, ?_, ?_, ?_, ?_, w.vecs⟩, ?_, ?_, harr, rfl, rfl, ?_, hcss, rfl⟩
  · intro a h hh; exact w.hdr_ok a h hh
  · rw [hcells, Multiset.map_cons, w.names]; exact (Store.domM_alloc _ _).symm
  · rw [hcells, Multiset.map_cons, w.atoms]; exact (Store.domM_alloc _ _).symm
  · intro c' hc'
    rw [hcells, Multiset.mem_cons] at hc'
    rcases hc' with rfl | hc'
    · exact ⟨v.atoms, Store.get?_alloc_new _ _, hn⟩
    · obtain ⟨av, h1, h2⟩ := w.natom c' hc'
      exact ⟨av, ha _ _ h1, h2⟩
  · intro a vs h; rw [harr] at h; exact w.sorted a vs h
  · unfold Mem.objOf
    show ((m.css.alloc _).1.get? _).bind _ = _
    rw [Store.get?_alloc_new]
    exact hnew
  · intro o ho
    exact Mem.objOf_of_grow w (hcss o ho) hs ha
  · exact Store.length_alloc _ _

/-- `Crystal_MakeCopy` of a live struct -/
theorem makeCopy_spec (w : WF bcap m) {p : CPtr} {c : CStruct α} {v : Crystal α} (hl : m.loc p = some c)
    (hv : m.crystalOf c = some v) :
    Crystal_MakeCopy m (some p) = .ok (m.withCopy c v, some m.css.cells.length, none) ∧
      CopyPost bcap m (m.withCopy c v) v := by
  obtain ⟨h1, h2, h3, h4, h5⟩ := Mem.crystalOf_eq_some.mp hv
  refine ⟨?_, withCopy_post w c v h3 h4 h5⟩
  have hle : c.n_atom ≤ v.atoms.length := by omega
  have ht : v.atoms.take c.n_atom = v.atoms := by rw [h3]; exact List.take_length
  unfold Crystal_MakeCopy
  simp only [Mem.rdC_ok hl, Store.get_ok h1, Store.get_ok h2, bind, Except.bind, hle, if_true, ht, pure, Except.pure]
  rfl

/-- the caller builds a literal -/
theorem mkObj_spec (w : WF bcap m) (v : Crystal α) :
    mkObj m v = (m.withCopy ⟨0, v.cell, v.volume, v.atoms.length, 0⟩ v, m.css.cells.length) ∧
      CopyPost bcap m (m.withCopy ⟨0, v.cell, v.volume, v.atoms.length, 0⟩ v) v :=
  ⟨rfl, withCopy_post w _ v rfl rfl rfl⟩


/-! ### frames: arrays and objects whose strings and atom vectors were not touched denote what they denoted -/

theorem Mem.arrOf_frame {m' : Mem α} (hh : m'.hdrs = m.hdrs) (hb : m'.bufs = m.bufs)
    (h : ∀ b bf c, m.bufs.get? b = some bf → c ∈ bf.slots →
      m'.strs.get? c.name = m.strs.get? c.name ∧ m'.atms.get? c.atom = m.atms.get? c.atom) (a : Nat) :
    m'.arrOf a = m.arrOf a := by
  cases hg : m.hdrs.get? a with
  | none => rw [arrOf_none hg, arrOf_none (by rw [hh]; exact hg)]
  | some hd =>
    cases hc : hd.crystal with
    | none => rw [arrOf_eq_nil hg hc, arrOf_eq_nil (by rw [hh]; exact hg) hc]
    | some b =>
      cases hbf : m.bufs.get? b with
      | none => rw [arrOf_eq_none' hg hc hbf, arrOf_eq_none' (by rw [hh]; exact hg) hc (by rw [hb]; exact hbf)]
      | some bf =>
        rw [arrOf_eq hg hc hbf, arrOf_eq (by rw [hh]; exact hg) hc (by rw [hb]; exact hbf)]
        exact cellsOf_congr (fun c hc' => h b bf c hbf hc')

theorem Mem.objOf_frame {m' : Mem α} {o : Nat} (hc : m'.css.get? o = m.css.get? o)
    (h : ∀ c, m.css.get? o = some c →
      m'.strs.get? c.name = m.strs.get? c.name ∧ m'.atms.get? c.atom = m.atms.get? c.atom) :
    m'.objOf o = m.objOf o := by
  unfold objOf
  rw [hc]
  cases hg : m.css.get? o with
  | none => rfl
  | some c => exact crystalOf_congr (h c hg).1 (h c hg).2

/-! ### `Crystal_Free` -/

/-- the memory after `Crystal_Free` of the struct `c` at `o` -/
def Mem.withoutObj (m : Mem α) (o : Nat) (c : CStruct α) : Mem α :=
  { m with strs := m.strs.upd c.name none, atms := m.atms.upd c.atom none, css := m.css.upd o none }

structure FreePost (bcap : Nat) (m m' : Mem α) (o : Nat) : Prop where
  wf : WF bcap m'
  obj_o : m'.objOf o = none
  obj_other : ∀ o', o' ≠ o → m'.objOf o' = m.objOf o'
  arr : ∀ a, m'.arrOf a = m.arrOf a
  hdrs : m'.hdrs = m.hdrs
  bufs : m'.bufs = m.bufs
  clen : m'.css.cells.length = m.css.cells.length
  css_o : m'.css.get? o = none
  css_other : ∀ o', o' ≠ o → m'.css.get? o' = m.css.get? o'
  files : m'.files = m.files

theorem withoutObj_post (w : WF bcap m) {o : Nat} {c : CStruct α} (ho : m.css.get? o = some c) :
    FreePost bcap m (m.withoutObj o c) o := by
  have hsplit : m.cellsM = c ::ₘ (m.withoutObj o c).cellsM := (cellsMS_updCs m.bufs ho).1
  have hmem : c ∈ m.cellsM := w.obj_mem ho
  obtain ⟨s, hs⟩ := w.name_live hmem
  obtain ⟨av, hav, _⟩ := w.natom c hmem
  have hnn := w.names_nodup; rw [hsplit] at hnn
  have han := w.atoms_nodup; rw [hsplit] at han
  -- every other live struct keeps its string and its atoms
  have hkeep : ∀ c' ∈ (m.withoutObj o c).cellsM,
      (m.withoutObj o c).strs.get? c'.name = m.strs.get? c'.name ∧ (m.withoutObj o c).atms.get? c'.atom = m.atms.get? c'.atom := by
    intro c' hc'
    exact ⟨Store.get?_upd_ne _ _ (Ne.symm (nodup_map_cons_ne hnn hc')), Store.get?_upd_ne _ _ (Ne.symm (nodup_map_cons_ne han hc'))⟩
  have harr : ∀ a, (m.withoutObj o c).arrOf a = m.arrOf a :=
    Mem.arrOf_frame rfl rfl (fun b bf c' hb hc' => hkeep c' (mem_cellsMS.mpr (Or.inl ⟨b, bf, hb, hc'⟩)))
  have hcss : ∀ o', o' ≠ o → (m.withoutObj o c).css.get? o' = m.css.get? o' := fun o' h => Store.get?_upd_ne _ _ h
  refine ⟨⟨w.h0, ?_, w.buf_inj, w.buf_owned, ?_, ?_, ?_, ?_, w.vecs⟩, ?_, ?_, harr, rfl, rfl, Store.length_upd _ _ _,
    Store.get?_upd_same ho _, hcss, rfl⟩
  · intro a h hh; exact w.hdr_ok a h hh
  · have := w.names; rw [hsplit, Multiset.map_cons, Store.domM_upd_none hs] at this
    exact (Multiset.cons_inj_right _).mp this
  · have := w.atoms; rw [hsplit, Multiset.map_cons, Store.domM_upd_none hav] at this
    exact (Multiset.cons_inj_right _).mp this
  · intro c' hc'
    obtain ⟨av', h1, h2⟩ := w.natom c' (hsplit ▸ Multiset.mem_cons_of_mem hc')
    exact ⟨av', by rw [(hkeep c' hc').2]; exact h1, h2⟩
  · intro a vs h; rw [harr] at h; exact w.sorted a vs h
  · unfold Mem.objOf
    show ((m.css.upd o none).get? o).bind _ = none
    rw [Store.get?_upd_same ho]; rfl
  · intro o' ho'
    apply Mem.objOf_frame (hcss o' ho')
    intro c' hc'
    apply hkeep
    exact mem_cellsMS.mpr (Or.inr ⟨o', by rw [hcss o' ho']; exact hc'⟩)

theorem free_spec (w : WF bcap m) {o : Nat} {c : CStruct α} (ho : m.css.get? o = some c) :
    Crystal_Free m (some o) = .ok (m.withoutObj o c) ∧ FreePost bcap m (m.withoutObj o c) o := by
  refine ⟨?_, withoutObj_post w ho⟩
  have hmem : c ∈ m.cellsM := w.obj_mem ho
  obtain ⟨s, hs⟩ := w.name_live hmem
  obtain ⟨av, hav, _⟩ := w.natom c hmem
  unfold Crystal_Free
  simp only [Store.get_ok ho, Store.free_ok' hs, Store.free_ok' hav, Store.free_ok' ho, bind, Except.bind, pure, Except.pure]
  rfl

theorem free_null (m : Mem α) : Crystal_Free m none = .ok m := rfl

/-! ### the caller scribbles over a handed-out copy -/

def Mem.scribbled (m : Mem α) (o : Nat) (c : CStruct α) (v : Crystal α) (x : α) : Mem α :=
  { m with strs := m.strs.upd c.name (some (scribName v.name)),
           atms := m.atms.upd c.atom (some (v.atoms.map (fun _ => scribAtom x))),
           css := m.css.upd o (some { c with cell := scribCell x, volume := x }) }

structure ScribPost (bcap : Nat) (m m' : Mem α) (o : Nat) (v' : Crystal α) : Prop where
  wf : WF bcap m'
  obj_o : m'.objOf o = some v'
  obj_other : ∀ o', o' ≠ o → m'.objOf o' = m.objOf o'
  arr : ∀ a, m'.arrOf a = m.arrOf a
  hdrs : m'.hdrs = m.hdrs
  clen : m'.css.cells.length = m.css.cells.length
  css_live : ∀ o', (m'.css.get? o').isSome = (m.css.get? o').isSome
  files : m'.files = m.files

theorem scribble_spec (w : WF bcap m) {o : Nat} {c : CStruct α} {v : Crystal α} (ho : m.css.get? o = some c)
    (hv : m.crystalOf c = some v) (x : α) :
    scribble m o x = .ok (m.scribbled o c v x) ∧ ScribPost bcap m (m.scribbled o c v x) o (scribCrystal x v) := by
  obtain ⟨h1, h2, h3, h4, h5⟩ := Mem.crystalOf_eq_some.mp hv
  have hsplit := cellsMS_updCs m.bufs ho
  have hc1 : m.cellsM = c ::ₘ cellsMS m.bufs (m.css.upd o none) := hsplit.1
  have hc2 : (m.scribbled o c v x).cellsM =
      ({ c with cell := scribCell x, volume := x } : CStruct α) ::ₘ cellsMS m.bufs (m.css.upd o none) := hsplit.2 _
  have hnn := w.names_nodup; rw [hc1] at hnn
  have han := w.atoms_nodup; rw [hc1] at han
  have hkeep : ∀ c' ∈ cellsMS m.bufs (m.css.upd o none),
      (m.scribbled o c v x).strs.get? c'.name = m.strs.get? c'.name ∧ (m.scribbled o c v x).atms.get? c'.atom = m.atms.get? c'.atom := by
    intro c' hc'
    exact ⟨Store.get?_upd_ne _ _ (Ne.symm (nodup_map_cons_ne hnn hc')), Store.get?_upd_ne _ _ (Ne.symm (nodup_map_cons_ne han hc'))⟩
  have harr : ∀ a, (m.scribbled o c v x).arrOf a = m.arrOf a :=
    Mem.arrOf_frame rfl rfl (fun b bf c' hb hc' => hkeep c' (mem_cellsMS.mpr (Or.inl ⟨b, bf, hb, hc'⟩)))
  have hcss : ∀ o', o' ≠ o → (m.scribbled o c v x).css.get? o' = m.css.get? o' := fun o' h => Store.get?_upd_ne _ _ h
  constructor
  · have hle : c.n_atom ≤ v.atoms.length := by omega
    have ht : v.atoms.take c.n_atom = v.atoms := by rw [h3]; exact List.take_length
    have hd : v.atoms.drop c.n_atom = [] := by rw [h3]; exact List.drop_length
    unfold scribble
    simp only [Store.get_ok ho, Store.get_ok h1, Store.get_ok h2, Store.set_ok' _ h1, Store.set_ok' _ h2, Store.set_ok' _ ho,
      bind, Except.bind, hle, if_true, ht, hd, List.append_nil, pure, Except.pure]
    rfl
  · refine ⟨⟨w.h0, ?_, w.buf_inj, w.buf_owned, ?_, ?_, ?_, ?_, w.vecs⟩, ?_, ?_, harr, rfl, Store.length_upd _ _ _, ?_, rfl⟩
    · intro a h hh; exact w.hdr_ok a h hh
    · rw [hc2, Multiset.map_cons]
      have := w.names; rw [hc1, Multiset.map_cons] at this
      rw [this]; exact (Store.domM_upd_some h1 _).symm
    · rw [hc2, Multiset.map_cons]
      have := w.atoms; rw [hc1, Multiset.map_cons] at this
      rw [this]; exact (Store.domM_upd_some h2 _).symm
    · intro c' hc'
      rw [hc2, Multiset.mem_cons] at hc'
      rcases hc' with rfl | hc'
      · exact ⟨_, Store.get?_upd_same h2 _, by simp [h3]⟩
      · obtain ⟨av', ha1, ha2⟩ := w.natom c' (hc1 ▸ Multiset.mem_cons_of_mem hc')
        exact ⟨av', by rw [(hkeep c' hc').2]; exact ha1, ha2⟩
    · intro a vs h; rw [harr] at h; exact w.sorted a vs h
    · unfold Mem.objOf
      show ((m.css.upd o _).get? o).bind _ = _
      rw [Store.get?_upd_same ho]
      apply Mem.crystalOf_eq_some.mpr
      exact ⟨Store.get?_upd_same h1 _, Store.get?_upd_same h2 _, by simp [scribCrystal, h3], rfl, rfl⟩
    · intro o' ho'
      apply Mem.objOf_frame (hcss o' ho')
      intro c' hc'
      apply hkeep
      exact mem_cellsMS.mpr (Or.inr ⟨o', by rw [Store.get?_upd_ne _ _ ho']; exact hc'⟩)
    · intro o'
      by_cases h : o' = o
      · subst h; show ((m.css.upd o' _).get? o').isSome = _; rw [Store.get?_upd_same ho, ho]; rfl
      · rw [hcss o' h]

end XrlCrystals
