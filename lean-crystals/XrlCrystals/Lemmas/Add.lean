import XrlCrystals.Lemmas.Listing
import XrlCrystals.Lemmas.Sort
/-!
# `Crystal_AddCrystal`
-/
namespace XrlCrystals
variable {α : Type} {bcap : Nat} {m : Mem α}

structure MovePost (bcap : Nat) (m m' : Mem α) (a tmp : Nat) (vs' : List (Crystal α)) : Prop where
  wf : WF bcap m'
  arr_a : m'.arrOf a = some vs'
  arr_other : ∀ x, x ≠ a → m'.arrOf x = m.arrOf x
  obj_tmp : m'.objOf tmp = none
  obj_other : ∀ o, o ≠ tmp → m'.objOf o = m.objOf o
  hlen : m'.hdrs.cells.length = m.hdrs.cells.length
  clen : m'.css.cells.length = m.css.cells.length
  css_tmp : m'.css.get? tmp = none
  css_other : ∀ o, o ≠ tmp → m'.css.get? o = m.css.get? o
  hdr_live : ∀ x, (m'.hdrs.get? x).isSome = (m.hdrs.get? x).isSome
  files : m'.files = m.files
  hdr_other : ∀ x, x ≠ a → m'.hdrs.get? x = m.hdrs.get? x
  buf_other : ∀ x hx b, x ≠ a → m.hdrs.get? x = some hx → hx.crystal = some b → m'.bufs.get? b = m.bufs.get? b

/-- the memory after the copy at `tmp` was moved into the vector `b` of the array `a` and the vector re-sorted -/
def Mem.moved (m : Mem α) (a : Nat) (h : Hdr) (b : Nat) (cap : Nat) (S : List (CStruct α)) (tmp : Nat) : Mem α :=
  { m with bufs := m.bufs.upd b (some ⟨cap, S⟩), hdrs := m.hdrs.upd a (some { h with n_crystal := h.n_crystal + 1 }),
           css := m.css.upd tmp none }

theorem moved_post (w : WF bcap m) {a tmp b : Nat} {h : Hdr} {bf : Buf α} {tc tc' : CStruct α} {S : List (CStruct α)}
    {ws : List (Crystal α)} (hh : m.hdrs.get? a = some h) (hc : h.crystal = some b) (hb : m.bufs.get? b = some bf)
    (hlt : h.n_crystal < h.n_alloc) (ht : m.css.get? tmp = some tc)
    (hname : tc'.name = tc.name) (hatom : tc'.atom = tc.atom) (hnat : tc'.n_atom = tc.n_atom)
    (hperm : S.Perm (bf.slots ++ [tc'])) (hS : m.cellsOf S = some ws) (hsorted : SortedNames ws) :
    MovePost bcap m (m.moved a h b bf.cap S tmp) a tmp ws := by
  obtain ⟨n0, hn0⟩ := w.h0
  obtain ⟨bf', hb', hcap, hsl, _⟩ := w.buf_live hh hc
  have : bf' = bf := by rw [hb] at hb'; cases hb'; rfl
  subst this
  have hH : ∀ x, x ≠ a → (m.moved a h b bf'.cap S tmp).hdrs.get? x = m.hdrs.get? x := fun x hx => Store.get?_upd_ne _ _ hx
  have hHa : (m.moved a h b bf'.cap S tmp).hdrs.get? a = some { h with n_crystal := h.n_crystal + 1 } := Store.get?_upd_same hh _
  have hBb : (m.moved a h b bf'.cap S tmp).bufs.get? b = some ⟨bf'.cap, S⟩ := Store.get?_upd_same hb _
  have hBo : ∀ x, x ≠ b → (m.moved a h b bf'.cap S tmp).bufs.get? x = m.bufs.get? x := fun x hx => Store.get?_upd_ne _ _ hx
  have hCt : (m.moved a h b bf'.cap S tmp).css.get? tmp = none := Store.get?_upd_same ht _
  have hCo : ∀ o, o ≠ tmp → (m.moved a h b bf'.cap S tmp).css.get? o = m.css.get? o := fun o ho => Store.get?_upd_ne _ _ ho
  -- the live structs: the vector of `a` gained `tc'`, the single struct `tc` is gone
  have hc1 : m.cellsM = (bf'.slots : Multiset (CStruct α)) + (tc ::ₘ cellsMS (m.bufs.upd b none) (m.css.upd tmp none)) := by
    rw [← (cellsMS_updCs (m.bufs.upd b none) ht).1]; exact (cellsMS_updBuf m.css hb).1
  have hc2 : (m.moved a h b bf'.cap S tmp).cellsM =
      (bf'.slots : Multiset (CStruct α)) + (tc' ::ₘ cellsMS (m.bufs.upd b none) (m.css.upd tmp none)) := by
    have h1 : (m.moved a h b bf'.cap S tmp).cellsM = (S : Multiset (CStruct α)) + cellsMS (m.bufs.upd b none) (m.css.upd tmp none) :=
      (cellsMS_updBuf (m.css.upd tmp none) hb).2 ⟨bf'.cap, S⟩
    rw [h1, Multiset.coe_eq_coe.mpr hperm, ← Multiset.coe_add, add_assoc, Multiset.coe_singleton, Multiset.singleton_add]
  have hmem' : ∀ c ∈ (m.moved a h b bf'.cap S tmp).cellsM, c = tc' ∨ c ∈ m.cellsM := by
    intro c hcm
    rw [hc2, Multiset.mem_add, Multiset.mem_cons] at hcm
    rw [hc1, Multiset.mem_add, Multiset.mem_cons]
    rcases hcm with h | h | h
    · exact Or.inr (Or.inl h)
    · exact Or.inl h
    · exact Or.inr (Or.inr (Or.inr h))
  have htcm : tc ∈ m.cellsM := w.obj_mem ht
  -- other arrays
  have hBother : ∀ x hx bx, x ≠ a → m.hdrs.get? x = some hx → hx.crystal = some bx → bx ≠ b :=
    fun x hx bx hxa hgx hcx hbx => hxa (w.buf_inj x a hx h b hgx hh (hbx ▸ hcx) hc)
  have harr : ∀ x, x ≠ a → (m.moved a h b bf'.cap S tmp).arrOf x = m.arrOf x := by
    intro x hx
    exact Mem.arrOf_congr_at (hH x hx) (fun hx' bx hg hcx => hBo bx (hBother x hx' bx hx hg hcx)) (fun _ _ _ _ _ _ _ _ => ⟨rfl, rfl⟩)
  have harr_a : (m.moved a h b bf'.cap S tmp).arrOf a = some ws := by
    rw [Mem.arrOf_eq hHa hc hBb, ← hS]
    exact Mem.cellsOf_congr (fun _ _ => ⟨rfl, rfl⟩)
  refine ⟨⟨?_, ?_, ?_, ?_, ?_, ?_, ?_, ?_, w.vecs⟩, harr_a, harr, ?_, ?_, Store.length_upd _ _ _, Store.length_upd _ _ _,
    hCt, hCo, ?_, rfl, hH, (fun x hx bx hxa hgx hcx => hBo bx (hBother x hx bx hxa hgx hcx))⟩
  · -- the header of the built-in array keeps its shape `{n, bcap, &table}`
    by_cases ha0 : a = 0
    · subst ha0
      have : h = ⟨n0, bcap, some 0⟩ := by have := hn0.symm.trans hh; cases this; rfl
      subst this
      exact ⟨n0 + 1, hHa⟩
    · exact ⟨n0, (hH 0 (Ne.symm ha0)).trans hn0⟩
  · intro x hx hgx
    by_cases hxa : x = a
    · subst hxa
      have : hx = { h with n_crystal := h.n_crystal + 1 } := by have := hHa.symm.trans hgx; cases this; rfl
      subst this
      show Mem.HdrOK _ _
      unfold Mem.HdrOK
      simp only [hc]
      refine ⟨⟨bf'.cap, S⟩, hBb, hcap, ?_, hlt⟩
      rw [hperm.length_eq, List.length_append, hsl]; rfl
    · have hgx' := (hH x hxa).symm.trans hgx
      have hk := w.hdr_ok x hx hgx'
      unfold Mem.HdrOK at hk ⊢
      cases hcx : hx.crystal with
      | none => rw [hcx] at hk; exact hk
      | some bx =>
        rw [hcx] at hk
        obtain ⟨bfx, h1, h2⟩ := hk
        exact ⟨bfx, (hBo bx (hBother x hx bx hxa hgx' hcx)).trans h1, h2⟩
  · -- the `crystal` fields of all headers are what they were
    have hcr : ∀ x hx, (m.moved a h b bf'.cap S tmp).hdrs.get? x = some hx → ∃ hx0, m.hdrs.get? x = some hx0 ∧ hx0.crystal = hx.crystal := by
      intro x hx hgx
      by_cases hxa : x = a
      · subst hxa
        have : hx = { h with n_crystal := h.n_crystal + 1 } := by have := hHa.symm.trans hgx; cases this; rfl
        subst this
        exact ⟨h, hh, rfl⟩
      · exact ⟨hx, (hH x hxa).symm.trans hgx, rfl⟩
    intro x x' hx hx' bx hgx hgx' hcx hcx'
    obtain ⟨hx0, h1, h2⟩ := hcr x hx hgx
    obtain ⟨hx0', h1', h2'⟩ := hcr x' hx' hgx'
    exact w.buf_inj x x' hx0 hx0' bx h1 h1' (h2.trans hcx) (h2'.trans hcx')
  · intro bx bfx hbx
    have : ∃ bf0, m.bufs.get? bx = some bf0 := by
      by_cases hbb : bx = b
      · subst hbb; exact ⟨bf', hb⟩
      · exact ⟨bfx, (hBo bx hbb).symm.trans hbx⟩
    obtain ⟨bf0, hb0⟩ := this
    obtain ⟨x, hx, hgx, hcx⟩ := w.buf_owned bx bf0 hb0
    by_cases hxa : x = a
    · subst hxa
      have : hx = h := by have := hgx.symm.trans hh; cases this; rfl
      subst this
      exact ⟨x, _, hHa, hcx⟩
    · exact ⟨x, hx, (hH x hxa).trans hgx, hcx⟩
  · rw [hc2]
    have := w.names
    rw [hc1] at this
    simp only [Multiset.map_add, Multiset.map_cons, hname] at this ⊢
    exact this
  · rw [hc2]
    have := w.atoms
    rw [hc1] at this
    simp only [Multiset.map_add, Multiset.map_cons, hatom] at this ⊢
    exact this
  · intro c hcm
    rcases hmem' c hcm with rfl | hcm'
    · obtain ⟨av, h1, h2⟩ := w.natom tc htcm
      exact ⟨av, by rw [hatom]; exact h1, by rw [hnat]; exact h2⟩
    · exact w.natom c hcm'
  · intro x vs hv
    by_cases hxa : x = a
    · subst hxa; rw [harr_a] at hv; cases hv; exact hsorted
    · rw [harr x hxa] at hv; exact w.sorted x vs hv
  · unfold Mem.objOf; rw [hCt]; rfl
  · intro o ho
    exact Mem.objOf_frame (hCo o ho) (fun _ _ => ⟨rfl, rfl⟩)
  · intro x
    by_cases hxa : x = a
    · subst hxa; rw [hHa, hh]; rfl
    · rw [hH x hxa]


/-! ### the steps of the tail of `Crystal_AddCrystal` -/

theorem wrSlot_append {b : Nat} {bf : Buf α} (hb : m.bufs.get? b = some bf) (hlt : bf.slots.length < bf.cap) (c : CStruct α) :
    m.wrSlot b bf.slots.length c = .ok { m with bufs := m.bufs.upd b (some { bf with slots := bf.slots ++ [c] }) } := by
  unfold Mem.wrSlot
  simp only [Store.get_ok hb, bind, Except.bind, hlt, if_true, Nat.lt_irrefl, if_false, Store.set_ok' _ hb, pure, Except.pure]

/-- the vector after `qsort` -/
def sortedSlots (ws : List (Crystal α)) (cs : List (CStruct α)) : List (CStruct α) :=
  (((ws.map (·.name)).zip cs).mergeSort (fun x y => decide (x.1 ≤ y.1))).map (·.2)

theorem sortArray_ok {a b : Nat} {h : Hdr} {bf : Buf α} {ws : List (Crystal α)} (hh : m.hdrs.get? a = some h)
    (hc : h.crystal = some b) (hb : m.bufs.get? b = some bf) (hsl : bf.slots.length = h.n_crystal)
    (hws : m.cellsOf bf.slots = some ws) :
    sortArray m a = .ok { m with bufs := m.bufs.upd b (some { bf with slots := sortedSlots ws bf.slots }) } := by
  unfold sortArray
  have hfn : Mem.firstN bf h.n_crystal = .ok bf.slots := by
    unfold Mem.firstN; rw [← hsl]; simp
  simp only [Store.get_ok hh, hc, Store.get_ok hb, hfn, Mem.namesOf_of_cellsOf hws, bind, Except.bind, Store.set_ok' _ hb, pure,
    Except.pure]
  rw [← hsl, List.drop_length, List.append_nil]
  rfl

theorem storeCopy_spec (vol : Cell α → α) (w : WF bcap m) {a tmp : Nat} {h : Hdr} {tc : CStruct α} {v : Crystal α}
    {vs : List (Crystal α)} (hh : m.hdrs.get? a = some h) (hlt : h.n_crystal < h.n_alloc) (ht : m.css.get? tmp = some tc)
    (hv : m.crystalOf tc = some v) (hvs : m.arrOf a = some vs) (hfresh : v.name ∉ vs.map (·.name)) :
    ∃ m', storeCopy vol m a tmp = .ok m' ∧ MovePost bcap m m' a tmp (Dict.ins { v with volume := vol v.cell } vs) := by
  obtain ⟨hn, hal, hcr⟩ := h
  cases hcr with
  | none => have := (w.hdr_none hh rfl).2; simp only at this hlt; omega
  | some b =>
    have hc : (⟨hn, hal, some b⟩ : Hdr).crystal = some b := rfl
    obtain ⟨bf, hb, hcap, hsl, _⟩ := w.buf_live hh hc
    simp only at hcap hsl hlt
    have hcs : m.cellsOf bf.slots = some vs := by rw [← Mem.arrOf_eq hh hc hb]; exact hvs
    obtain ⟨h1, h2, h3, h4, h5⟩ := Mem.crystalOf_eq_some.mp hv
    have hv' : m.crystalOf { tc with volume := vol tc.cell } = some { v with volume := vol v.cell } :=
      Mem.crystalOf_eq_some.mpr ⟨h1, h2, h3, h4, by rw [h4]⟩
    have hcs' : m.cellsOf (bf.slots ++ [{ tc with volume := vol tc.cell }]) = some (vs ++ [{ v with volume := vol v.cell }]) :=
      Mem.cellsOf_append hcs (Mem.cellsOf_cons_eq_some.mpr ⟨_, [], rfl, hv', rfl⟩)
    obtain ⟨hS, hperm⟩ := Mem.cellsOf_sorted hcs'
    rw [mergeSort_append_eq_ins (c := { v with volume := vol v.cell }) (w.sorted a vs hvs) hfresh] at hS
    have hsorted : SortedNames (Dict.ins { v with volume := vol v.cell } vs) :=
      Dict.ins_sorted (c := { v with volume := vol v.cell }) (w.sorted a vs hvs) hfresh
    have hpost := moved_post w hh hc hb hlt ht (tc' := { tc with volume := vol tc.cell }) rfl rfl rfl hperm hS hsorted
    refine ⟨_, ?_, hpost⟩
    -- run the code
    have hlt' : bf.slots.length < bf.cap := by omega
    have hw := wrSlot_append hb hlt' { tc with volume := vol tc.cell }
    rw [hsl] at hw
    unfold storeCopy
    simp only [Store.get_ok hh, Store.get_ok ht, bind, Except.bind, hw, Store.set_ok' _ hh, Store.free_ok' ht]
    have hh2 : (m.hdrs.upd a (some ⟨hn + 1, hal, some b⟩)).get? a = some ⟨hn + 1, hal, some b⟩ := Store.get?_upd_same hh _
    have hb2 : (m.bufs.upd b (some { bf with slots := bf.slots ++ [{ tc with volume := vol tc.cell }] })).get? b =
        some { bf with slots := bf.slots ++ [{ tc with volume := vol tc.cell }] } := Store.get?_upd_same hb _
    rw [sortArray_ok (m := ⟨m.hdrs.upd a (some ⟨hn + 1, hal, some b⟩), m.bufs.upd b (some { bf with slots := bf.slots ++ [{ tc with volume := vol tc.cell }] }), m.strs, m.atms, m.css.upd tmp none, m.vecs, m.files⟩)
      (ws := vs ++ [{ v with volume := vol v.cell }]) hh2 rfl hb2 (by simp [hsl]) (by rw [← hcs']; exact Mem.cellsOf_congr (fun _ _ => ⟨rfl, rfl⟩))]
    simp only [Store.upd_upd]
    rfl


/-! ### `Crystal_AddCrystal` -/

structure AddPost (bcap : Nat) (m m' : Mem α) (a : Nat) (vs' : List (Crystal α)) : Prop where
  wf : WF bcap m'
  arr_a : m'.arrOf a = some vs'
  arr_other : ∀ x, x ≠ a → m'.arrOf x = m.arrOf x
  obj : ∀ o, o < m.css.cells.length → m'.objOf o = m.objOf o
  css_old : ∀ o, o < m.css.cells.length → m'.css.get? o = m.css.get? o
  css_new : ∀ o, m.css.cells.length ≤ o → m'.css.get? o = none
  hlen : m'.hdrs.cells.length = m.hdrs.cells.length
  clen : m.css.cells.length ≤ m'.css.cells.length
  hdr_live : ∀ x, (m'.hdrs.get? x).isSome = (m.hdrs.get? x).isSome
  files : m'.files = m.files
  hdr_other : ∀ x, x ≠ a → m'.hdrs.get? x = m.hdrs.get? x
  buf_other : ∀ x hx b, x ≠ a → m.hdrs.get? x = some hx → hx.crystal = some b → m'.bufs.get? b = m.bufs.get? b

theorem findIdx_none_iff (names : List String) (s : String) :
    names.findIdx? (· == s) = none ↔ s ∉ names := by
  rw [List.findIdx?_eq_none_iff]
  constructor
  · intro h hs; have := h s hs; simp at this
  · intro h x hx; simp only [beq_eq_false_iff_ne, ne_eq, beq_iff_eq]; rintro rfl; exact h hx

theorem addCrystal_null (vol : Cell α → α) (m : Mem α) (arr : Option Nat) :
    Crystal_AddCrystal vol m none arr = .ok (m, 0, some ⟨XRL_ERROR_INVALID_ARGUMENT, "Crystal cannot be NULL"⟩) := rfl

theorem addCrystal_spec (vol : Cell α → α) (w : WF bcap m) (arr : Option Nat) {h : Hdr}
    (hh : m.hdrs.get? (arr.getD 0) = some h) {vs : List (Crystal α)} (hvs : m.arrOf (arr.getD 0) = some vs)
    {p : CPtr} {c : CStruct α} {v : Crystal α} (hl : m.loc p = some c) (hv : m.crystalOf c = some v)
    (hp : ∀ b i, p = .slot b i → h.crystal ≠ some b) :
    if v.name ∈ vs.map (·.name) then ∃ e, Crystal_AddCrystal vol m (some p) arr = .ok (m, 0, some e)
    else if arr.getD 0 = 0 ∧ h.n_crystal = h.n_alloc then ∃ e, Crystal_AddCrystal vol m (some p) arr = .ok (m, 0, some e)
    else ∃ m', Crystal_AddCrystal vol m (some p) arr = .ok (m', 1, none) ∧
      AddPost bcap m m' (arr.getD 0) (Dict.ins { v with volume := vol v.cell } vs) := by
  have hname := (Mem.crystalOf_eq_some.mp hv).1
  have hf := find_spec w hh hvs v.name
  by_cases hin : v.name ∈ vs.map (·.name)
  · -- duplicate
    rw [if_pos hin]
    obtain ⟨i, hi⟩ : ∃ i, (vs.map (·.name)).findIdx? (· == v.name) = some i := by
      cases hfi : (vs.map (·.name)).findIdx? (· == v.name) with
      | none => exact absurd hin ((findIdx_none_iff _ _).mp hfi)
      | some i => exact ⟨i, rfl⟩
    rw [hi] at hf
    refine ⟨⟨XRL_ERROR_INVALID_ARGUMENT, "Crystal already present in array"⟩, ?_⟩
    unfold Crystal_AddCrystal
    simp only [Mem.rdC_ok hl, Store.get_ok hname, hf, bind, Except.bind, pure, Except.pure]
  · rw [if_neg hin]
    rw [(findIdx_none_iff _ _).mpr hin] at hf
    by_cases hfull : arr.getD 0 = 0 ∧ h.n_crystal = h.n_alloc
    · -- the built-in array is full
      rw [if_pos hfull]
      refine ⟨⟨XRL_ERROR_RUNTIME, "Extending internal is crystal array is not allowed"⟩, ?_⟩
      obtain ⟨ha0, heq⟩ := hfull
      rw [ha0] at hf hh
      unfold Crystal_AddCrystal
      simp only [Mem.rdC_ok hl, Store.get_ok hname, ha0, hf, Store.get_ok hh, heq, if_true, extendArray_builtin, bind, Except.bind,
        pure, Except.pure, Bool.not_false]
    · rw [if_neg hfull]
      -- after the growth step (if any) there is room
      have hgrow : ∃ m1 h1, (if h.n_crystal = h.n_alloc then Crystal_ExtendArray m (arr.getD 0) N_NEW_CRYSTAL else pure (m, true, none))
            = .ok (m1, true, none) ∧ WF bcap m1 ∧ (∀ x, m1.arrOf x = m.arrOf x) ∧ m1.css = m.css ∧ m1.strs = m.strs ∧ m1.atms = m.atms ∧
            m1.hdrs.cells.length = m.hdrs.cells.length ∧ m1.hdrs.get? (arr.getD 0) = some h1 ∧ h1.n_crystal < h1.n_alloc ∧
            (∀ x, (m1.hdrs.get? x).isSome = (m.hdrs.get? x).isSome) ∧ m1.loc p = some c ∧ m1.files = m.files ∧
            (∀ x, x ≠ arr.getD 0 → m1.hdrs.get? x = m.hdrs.get? x) ∧
            (∀ x hx b, x ≠ arr.getD 0 → m.hdrs.get? x = some hx → hx.crystal = some b → m1.bufs.get? b = m.bufs.get? b) := by
        by_cases heq : h.n_crystal = h.n_alloc
        · have ha0 : arr.getD 0 ≠ 0 := fun h0 => hfull ⟨h0, heq⟩
          obtain ⟨m1, hm1, hpost⟩ := extendArray_spec w ha0 hh N_NEW_CRYSTAL
          obtain ⟨h1, hg1, hn1, hal1, _⟩ := hpost.hdr_a
          refine ⟨m1, h1, by rw [if_pos heq]; exact hm1, hpost.wf, hpost.arr, hpost.css, hpost.strs, hpost.atms, hpost.hlen, hg1, ?_, ?_, ?_, hpost.files, hpost.hdr_other, hpost.buf_other⟩
          · rw [hn1, hal1, heq]; unfold N_NEW_CRYSTAL; omega
          · intro x
            by_cases hx : x = arr.getD 0
            · subst hx; rw [hg1, hh]; rfl
            · rw [hpost.hdr_other x hx]
          · -- the source is not in the vector that moved
            cases p with
            | obj o => show m1.css.get? o = _; rw [hpost.css]; exact hl
            | slot b i =>
              have hne := hp b i rfl
              rw [Mem.loc_slot] at hl ⊢
              cases hb : m.bufs.get? b with
              | none => rw [hb] at hl; cases hl
              | some bf =>
                -- the vector `b` belongs to another live array, whose content is unchanged
                obtain ⟨x, hx, hgx, hcx⟩ := w.buf_owned b bf hb
                have hxa : x ≠ arr.getD 0 := by
                  intro hxa; subst hxa
                  have : hx = h := by have := hgx.symm.trans hh; cases this; rfl
                  subst this; exact hne hcx
                have hgx1 : m1.hdrs.get? x = some hx := (hpost.hdr_other x hxa).trans hgx
                obtain ⟨bf1, hb1, _⟩ := hpost.wf.buf_live hgx1 hcx
                -- same vector content: compare through `arrOf` is not enough (we need the struct itself), so use the spec of the model directly
                have : m1.bufs.get? b = some bf := by
                  have hm1' := hm1
                  unfold Crystal_ExtendArray at hm1'
                  simp only [ha0, if_false, Store.get_ok hh, bind, Except.bind] at hm1'
                  cases hc0 : h.crystal with
                  | none =>
                    simp only [hc0, Store.set_ok' _ hh, pure, Except.pure] at hm1'
                    injection hm1' with hm1'
                    have := congrArg (fun t => t.1.bufs) hm1'
                    simp only at this
                    rw [← this]
                    exact Store.get?_alloc_of_some _ _ hb
                  | some b0 =>
                    obtain ⟨bf0, hb0, _⟩ := w.buf_live hh hc0
                    simp only [hc0, Store.get_ok hb0, Store.free_ok' hb0, Store.set_ok' _ hh, pure, Except.pure] at hm1'
                    injection hm1' with hm1'
                    have := congrArg (fun t => t.1.bufs) hm1'
                    simp only at this
                    rw [← this]
                    have hbb : b ≠ b0 := fun hbb => hne (hbb ▸ hc0)
                    rw [Store.get?_alloc_of_lt _ _ (by rw [Store.length_upd]; exact Store.get?_lt hb), Store.get?_upd_ne _ _ hbb]
                    exact hb
                rw [this]; rw [hb] at hl; exact hl
        · have hlt : h.n_crystal < h.n_alloc := by
            have : h.n_crystal ≤ h.n_alloc := by
              cases hc : h.crystal with
              | none => rw [(w.hdr_none hh hc).1]; exact Nat.zero_le _
              | some b => obtain ⟨_, _, _, _, hle⟩ := w.buf_live hh hc; exact hle
            omega
          exact ⟨m, h, by rw [if_neg heq]; rfl, w, fun _ => rfl, rfl, rfl, rfl, rfl, hh, hlt, fun _ => rfl, hl, rfl, fun _ _ => rfl, fun _ _ _ _ _ _ => rfl⟩
      obtain ⟨m1, h1, hrun1, w1, harr1, hcss1, hstrs1, hatms1, hlen1, hg1, hlt1, hlive1, hl1, hfiles1, hho1, hbo1⟩ := hgrow
      have hv1 : m1.crystalOf c = some v := by rw [← hv]; exact Mem.crystalOf_congr (by rw [hstrs1]) (by rw [hatms1])
      -- the copy
      obtain ⟨hrun2, cp⟩ := makeCopy_spec w1 hl1 hv1
      have htmp : ∃ tc, (m1.withCopy c v).css.get? m1.css.cells.length = some tc ∧ (m1.withCopy c v).crystalOf tc = some v := by
        have := cp.obj_new
        unfold Mem.objOf at this
        cases hg : (m1.withCopy c v).css.get? m1.css.cells.length with
        | none => rw [hg] at this; cases this
        | some tc => rw [hg] at this; exact ⟨tc, rfl, this⟩
      obtain ⟨tc, htc, htcv⟩ := htmp
      have hg2 : (m1.withCopy c v).hdrs.get? (arr.getD 0) = some h1 := by rw [cp.hdrs]; exact hg1
      have hvs2 : (m1.withCopy c v).arrOf (arr.getD 0) = some vs := by rw [cp.arr, harr1]; exact hvs
      obtain ⟨m3, hrun3, mp⟩ := storeCopy_spec vol cp.wf hg2 hlt1 htc htcv hvs2 hin
      refine ⟨m3, ?_, mp.wf, mp.arr_a, ?_, ?_, ?_, ?_, ?_, ?_, ?_, ?_, ?_, ?_⟩
      · unfold Crystal_AddCrystal
        simp only [Mem.rdC_ok hl, Store.get_ok hname, hf, Store.get_ok hh, bind, Except.bind]
        rw [hrun1]
        simp only [Bool.not_true, Bool.false_eq_true, if_false, hrun2, hrun3, pure, Except.pure]
      · intro x hx; rw [mp.arr_other x hx, cp.arr, harr1]
      · intro o ho
        have hne : o ≠ m1.css.cells.length := by rw [hcss1]; omega
        rw [mp.obj_other o hne, cp.obj_old o hne]
        exact Mem.objOf_congr3 hcss1 hstrs1 hatms1 o
      · intro o ho
        have hne : o ≠ m1.css.cells.length := by rw [hcss1]; omega
        rw [mp.css_other o hne, cp.css_old o hne, hcss1]
      · intro o ho
        by_cases hne : o = m1.css.cells.length
        · subst hne; exact mp.css_tmp
        · rw [mp.css_other o hne]
          apply Store.get?_ge
          rw [cp.clen, hcss1]
          have : o ≠ m.css.cells.length := by rw [← hcss1]; exact hne
          omega
      · rw [mp.hlen, cp.hdrs, hlen1]
      · rw [mp.clen, cp.clen, hcss1]; omega
      · intro x; rw [mp.hdr_live, cp.hdrs, hlive1]
      · rw [mp.files, cp.files, hfiles1]
      · intro x hx; rw [mp.hdr_other x hx, cp.hdrs, hho1 x hx]
      · intro x hx b hxa hgx hcx
        rw [mp.buf_other x hx b hxa (by rw [cp.hdrs, hho1 x hxa]; exact hgx) hcx, cp.bufs, hbo1 x hx b hxa hgx hcx]

end XrlCrystals
