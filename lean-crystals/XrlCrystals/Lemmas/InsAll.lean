import XrlCrystals.Lemmas.Sort
/-!
# Inserting several crystals: order does not matter
-/
namespace XrlCrystals
variable {α : Type}

/-- a crystal with its volume recomputed -/
def recomp (vol : Cell α → α) (c : Crystal α) : Crystal α := { c with volume := vol c.cell }

@[simp] theorem recomp_name (vol : Cell α → α) (c : Crystal α) : (recomp vol c).name = c.name := rfl
theorem recomp_idem (vol : Cell α → α) (c : Crystal α) : recomp vol (recomp vol c) = recomp vol c := rfl

/-- insert all, in the given order -/
def insAll (vol : Cell α → α) (acc : List (Crystal α)) (cs : List (Crystal α)) : List (Crystal α) :=
  cs.foldl (fun l c => Dict.ins (recomp vol c) l) acc

theorem insAll_cons (vol : Cell α → α) (acc : List (Crystal α)) (c : Crystal α) (cs : List (Crystal α)) :
    insAll vol acc (c :: cs) = insAll vol (Dict.ins (recomp vol c) acc) cs := rfl

theorem putAll_items (vol : Cell α → α) (d : Dict α) (cs : List (Crystal α)) :
    (d.putAll vol cs).items = insAll vol d.items cs := by
  induction cs generalizing d with
  | nil => rfl
  | cons c cs ih => exact ih (d.put vol c)

/-- all names new and pairwise different -/
def freshAll (acc cs : List (Crystal α)) : Prop :=
  (cs.map (·.name)).Nodup ∧ ∀ n ∈ cs.map (·.name), n ∉ acc.map (·.name)

theorem names_ins (c : Crystal α) (l : List (Crystal α)) (n : String) :
    n ∈ (Dict.ins c l).map (·.name) ↔ n = c.name ∨ n ∈ l.map (·.name) := by
  rw [((Dict.ins_perm c l).map _).mem_iff, List.map_cons, List.mem_cons]

theorem freshAll_cons (vol : Cell α → α) (acc : List (Crystal α)) (c : Crystal α) (cs : List (Crystal α)) :
    freshAll acc (c :: cs) ↔ c.name ∉ acc.map (·.name) ∧ freshAll (Dict.ins (recomp vol c) acc) cs := by
  unfold freshAll
  simp only [List.map_cons, List.nodup_cons, List.mem_cons, forall_eq_or_imp, names_ins, recomp_name, not_or]
  constructor
  · rintro ⟨⟨h1, h2⟩, h3, h4⟩
    exact ⟨h3, h2, fun n hn => ⟨fun h => h1 (h ▸ hn), h4 n hn⟩⟩
  · rintro ⟨h3, h2, h4⟩
    exact ⟨⟨fun h => (h4 _ h).1 rfl, h2⟩, h3, fun n hn => (h4 n hn).2⟩

theorem insAll_perm (vol : Cell α → α) (acc cs : List (Crystal α)) :
    (insAll vol acc cs).Perm (acc ++ cs.map (recomp vol)) := by
  induction cs generalizing acc with
  | nil => simp [insAll]
  | cons c cs ih =>
    rw [insAll_cons]
    refine (ih _).trans ?_
    rw [List.map_cons]
    exact ((Dict.ins_perm _ acc).append_right _).trans (List.perm_middle.symm)

theorem insAll_sorted (vol : Cell α → α) {acc cs : List (Crystal α)} (hs : SortedNames acc) (hf : freshAll acc cs) :
    SortedNames (insAll vol acc cs) := by
  induction cs generalizing acc with
  | nil => exact hs
  | cons c cs ih =>
    rw [insAll_cons]
    obtain ⟨h1, h2⟩ := (freshAll_cons vol acc c cs).mp hf
    exact ih (Dict.ins_sorted hs h1) h2

/-- two strictly sorted listings with the same crystals are the same listing -/
theorem sorted_perm_eq {l1 l2 : List (Crystal α)} (h1 : SortedNames l1) (h2 : SortedNames l2) (hp : l1.Perm l2) : l1 = l2 := by
  unfold SortedNames at h1 h2
  rw [List.pairwise_map] at h1 h2
  exact List.Perm.eq_of_pairwise (fun a b _ _ hab hba => absurd hba (lt_asymm hab)) h1 h2 hp

/-- the library adds the crystals of a file in sorted order, after having recomputed their volumes once already;
the specification adds them in file order: the same collection -/
theorem insAll_twice (vol : Cell α → α) {vs good : List (Crystal α)} (hs : SortedNames vs) (hf : freshAll vs good) :
    insAll vol vs (insAll vol [] good) = insAll vol vs good := by
  have hp0 : (insAll vol [] good).Perm (good.map (recomp vol)) := by simpa using insAll_perm vol [] good
  have hf' : freshAll vs (insAll vol [] good) := by
    unfold freshAll at hf ⊢
    have hn : ((insAll vol [] good).map (·.name)).Perm (good.map (·.name)) := by
      have := hp0.map (·.name)
      rwa [List.map_map, (by funext c; rfl : ((·.name) ∘ recomp vol) = fun c : Crystal α => c.name)] at this
    exact ⟨hn.nodup_iff.mpr hf.1, fun n h => hf.2 n (hn.mem_iff.mp h)⟩
  apply sorted_perm_eq (insAll_sorted vol hs hf') (insAll_sorted vol hs hf)
  refine (insAll_perm vol vs _).trans (((hp0.map (recomp vol)).append_left vs).trans ?_)
  rw [List.map_map, (by funext c; rfl : (recomp vol ∘ recomp vol) = recomp vol)]
  exact (insAll_perm vol vs good).symm

theorem freshAll_nil_iff (cs : List (Crystal α)) : freshAll [] cs ↔ (cs.map (·.name)).Nodup := by
  unfold freshAll; simp

end XrlCrystals
