import XrlCrystals.Lemmas.Steps3
/-!
# The process image before the first call satisfies the invariant
-/
namespace XrlCrystals
variable {α : Type} {bcap : Nat}

theorem staticCells_length (l : List (Crystal α)) (k : Nat) : (staticCells l k).length = l.length := by
  induction l generalizing k with
  | nil => rfl
  | cons c cs ih => simp [staticCells, ih]

theorem staticCells_names (l : List (Crystal α)) (k : Nat) : (staticCells l k).map (·.name) = List.range' k l.length := by
  induction l generalizing k with
  | nil => rfl
  | cons c cs ih => simp [staticCells, ih, List.range'_succ]

theorem staticCells_atoms (l : List (Crystal α)) (k : Nat) : (staticCells l k).map (·.atom) = List.range' k l.length := by
  induction l generalizing k with
  | nil => rfl
  | cons c cs ih => simp [staticCells, ih, List.range'_succ]

theorem staticCells_mem {l : List (Crystal α)} {k : Nat} {c : CStruct α} (h : c ∈ staticCells l k) :
    ∃ i v, l[i]? = some v ∧ c = ⟨k + i, v.cell, v.volume, v.atoms.length, k + i⟩ := by
  induction l generalizing k with
  | nil => simp [staticCells] at h
  | cons x xs ih =>
    simp only [staticCells, List.mem_cons] at h
    rcases h with rfl | h
    · exact ⟨0, x, rfl, rfl⟩
    · obtain ⟨i, v, hi, hc⟩ := ih h
      exact ⟨i + 1, v, by simpa using hi, by rw [hc]; congr 1 <;> omega⟩

theorem store_map_some_get? {β : Type} (l : List β) (i : Nat) : (⟨l.map some⟩ : Store β).get? i = l[i]? := by
  unfold Store.get?
  rw [List.getElem?_map]
  cases l[i]? <;> rfl

theorem store_map_some_domM {β : Type} (l : List β) : (⟨l.map some⟩ : Store β).domM = (List.range l.length : Multiset Nat) := by
  unfold Store.domM Store.dom
  congr 1
  rw [List.length_map]
  apply List.filter_eq_self.mpr
  intro a ha
  rw [store_map_some_get?, List.getElem?_eq_getElem (List.mem_range.mp ha)]
  rfl

theorem initMem_cellsOf (builtin : List (Crystal α)) (bcap : Nat) (pre : List (Crystal α)) (l : List (Crystal α))
    (h : builtin = pre ++ l) : (initMem bcap builtin).cellsOf (staticCells l pre.length) = some l := by
  induction l generalizing pre with
  | nil => rfl
  | cons c cs ih =>
    have hget : builtin[pre.length]? = some c := by rw [h]; simp
    rw [staticCells, Mem.cellsOf_cons_eq_some]
    refine ⟨c, cs, rfl, ?_, ?_⟩
    · apply Mem.crystalOf_eq_some.mpr
      refine ⟨?_, ?_, rfl, rfl, rfl⟩
      · show (⟨builtin.map (fun c => some c.name)⟩ : Store String).get? pre.length = some c.name
        have : builtin.map (fun c => some c.name) = (builtin.map (·.name)).map some := by rw [List.map_map]; rfl
        rw [this, store_map_some_get?, List.getElem?_map, hget]; rfl
      · show (⟨builtin.map (fun c => some c.atoms)⟩ : Store (List (Atom α))).get? pre.length = some c.atoms
        have : builtin.map (fun c => some c.atoms) = (builtin.map (·.atoms)).map some := by rw [List.map_map]; rfl
        rw [this, store_map_some_get?, List.getElem?_map, hget]; rfl
    · have := ih (pre ++ [c]) (by rw [h]; simp)
      simpa using this

theorem initMem_wf {builtin : List (Crystal α)} (hs : SortedNames builtin) (hl : builtin.length ≤ bcap) :
    WF bcap (initMem bcap builtin) ∧ (initMem bcap builtin).arrOf 0 = some builtin := by
  have hh0 : (initMem bcap builtin).hdrs.get? 0 = some ⟨builtin.length, bcap, some 0⟩ := rfl
  have hb0 : (initMem bcap builtin).bufs.get? 0 = some ⟨bcap, staticCells builtin 0⟩ := rfl
  have hhdr : ∀ a h, (initMem bcap builtin).hdrs.get? a = some h → a = 0 ∧ h = ⟨builtin.length, bcap, some 0⟩ := by
    intro a h hh
    have hlt := Store.get?_lt hh
    have : a = 0 := by simp [initMem] at hlt; exact hlt
    subst this
    have := hh0.symm.trans hh; cases this; exact ⟨rfl, rfl⟩
  have hbuf : ∀ b bf, (initMem bcap builtin).bufs.get? b = some bf → b = 0 ∧ bf = ⟨bcap, staticCells builtin 0⟩ := by
    intro b bf hb
    have hlt := Store.get?_lt hb
    have : b = 0 := by simp [initMem] at hlt; exact hlt
    subst this
    have := hb0.symm.trans hb; cases this; exact ⟨rfl, rfl⟩
  have harr0 : (initMem bcap builtin).arrOf 0 = some builtin := by
    rw [Mem.arrOf_eq hh0 rfl hb0]
    exact initMem_cellsOf builtin bcap [] builtin rfl
  have hcells : (initMem bcap builtin).cellsM = (staticCells builtin 0 : Multiset (CStruct α)) := by
    unfold Mem.cellsM cellsMS
    simp [initMem, Store.valsM, Store.vals]
  have hstrs : (initMem bcap builtin).strs.domM = (List.range builtin.length : Multiset Nat) := by
    have : (initMem bcap builtin).strs = ⟨(builtin.map (·.name)).map some⟩ := by simp [initMem, List.map_map]
    rw [this, store_map_some_domM, List.length_map]
  have hatms : (initMem bcap builtin).atms.domM = (List.range builtin.length : Multiset Nat) := by
    have : (initMem bcap builtin).atms = ⟨(builtin.map (·.atoms)).map some⟩ := by simp [initMem, List.map_map]
    rw [this, store_map_some_domM, List.length_map]
  refine ⟨⟨⟨builtin.length, hh0⟩, ?_, ?_, ?_, ?_, ?_, ?_, ?_, ?_⟩, harr0⟩
  · intro a h hh
    obtain ⟨rfl, rfl⟩ := hhdr a h hh
    exact ⟨_, hb0, rfl, staticCells_length _ _, hl⟩
  · intro a a' h h' b hh hh' _ _
    rw [(hhdr a h hh).1, (hhdr a' h' hh').1]
  · intro b bf hb
    obtain ⟨rfl, _⟩ := hbuf b bf hb
    exact ⟨0, _, hh0, rfl⟩
  · rw [hcells, hstrs, Multiset.map_coe, staticCells_names, List.range_eq_range']
  · rw [hcells, hatms, Multiset.map_coe, staticCells_atoms, List.range_eq_range']
  · intro c hc
    rw [hcells, Multiset.mem_coe] at hc
    obtain ⟨i, v, hi, rfl⟩ := staticCells_mem hc
    refine ⟨v.atoms, ?_, rfl⟩
    show (⟨builtin.map (fun c => some c.atoms)⟩ : Store (List (Atom α))).get? (0 + i) = some v.atoms
    have : builtin.map (fun c => some c.atoms) = (builtin.map (·.atoms)).map some := by rw [List.map_map]; rfl
    rw [this, store_map_some_get?, List.getElem?_map, Nat.zero_add, hi]; rfl
  · intro a vs hv
    obtain ⟨hd, hhd⟩ := arrOf_some_hdr hv
    obtain ⟨rfl, _⟩ := hhdr a hd hhd
    rw [harr0] at hv; cases hv; exact hs
  · intro v; rfl

/-- **base case**: the initial state satisfies the invariant and denotes the shipped collection -/
theorem inv_init {builtin : List (Crystal α)} (hs : SortedNames builtin) (hl : builtin.length ≤ bcap) :
    Inv bcap (initState bcap builtin) ∧ abs (initState bcap builtin) = initAbs builtin := by
  obtain ⟨w, harr0⟩ := initMem_wf hs hl
  constructor
  · refine ⟨w, rfl, (fun a h => by cases h), (fun i j a h => by simp [initState] at h), (fun o h => by cases h),
      (fun i j o h => by simp [initState] at h), ?_, ?_⟩
    · intro a h hh
      have hlt := Store.get?_lt hh
      left; simp [initState, initMem] at hlt; exact hlt
    · intro o c hc
      have hlt := Store.get?_lt hc
      simp [initState, initMem] at hlt
  · apply AState.ext'
    · show ((initMem bcap builtin).arrOf 0).getD [] = builtin
      rw [harr0]; rfl
    · rfl
    · rfl

end XrlCrystals
