import XrlCrystals.Lemmas.Store
import XrlCrystals.Hand.Caller
import XrlCrystals.Spec.Dict
import Mathlib.Data.String.Basic
/-!
# The abstraction map and the heap invariant

* `Mem.crystalOf`, `Mem.cellsOf`, `Mem.arrOf`, `Mem.objOf` : what a `Crystal_Struct`, a vector, a
  `Crystal_Array*`, a handed-out `Crystal_Struct*` *denote* (dereferencing every pointer);
* `Mem.cellsM` : the multiset of all `Crystal_Struct`s lying in live memory;
* `WF bcap m` : the heap invariant — every live string / atom vector is owned by exactly one live
  `Crystal_Struct` (multiset equalities, so: no dangling pointer, no sharing, no leak), every live vector by
  exactly one live `Crystal_Array`, counts and capacities are consistent, every vector is strictly sorted by
  name, no listing and no `FILE*` survives a call.
-/
namespace XrlCrystals
variable {α : Type}

namespace Mem

def crystalOf (m : Mem α) (c : CStruct α) : Option (Crystal α) :=
  match m.strs.get? c.name, m.atms.get? c.atom with
  | some s, some av => if c.n_atom = av.length then some ⟨s, c.cell, c.volume, av⟩ else none
  | _, _ => none

def cellsOf (m : Mem α) : List (CStruct α) → Option (List (Crystal α))
  | [] => some []
  | c :: cs =>
    match m.crystalOf c, cellsOf m cs with
    | some v, some vs => some (v :: vs)
    | _, _ => none

/-- the content of the collection behind a `Crystal_Array*` -/
def arrOf (m : Mem α) (a : Nat) : Option (List (Crystal α)) :=
  match m.hdrs.get? a with
  | none => none
  | some h =>
    match h.crystal with
    | none => some []
    | some b =>
      match m.bufs.get? b with
      | none => none
      | some bf => m.cellsOf bf.slots

/-- the crystal behind a handed-out `Crystal_Struct*` -/
def objOf (m : Mem α) (o : Nat) : Option (Crystal α) := (m.css.get? o).bind m.crystalOf

/-- `*p` as a partial function -/
def loc (m : Mem α) : CPtr → Option (CStruct α)
  | .obj o => m.css.get? o
  | .slot b i => (m.bufs.get? b).bind (fun bf => if i < bf.cap then bf.slots[i]? else none)

end Mem
/-- every `Crystal_Struct` lying in the live vectors `bufs` and the live single structs `css` -/
def cellsMS (bufs : Store (Buf α)) (css : Store (CStruct α)) : Multiset (CStruct α) :=
  bufs.valsM.bind (fun bf => (bf.slots : Multiset (CStruct α))) + css.valsM
namespace Mem
/-- every `Crystal_Struct` in live memory -/
def cellsM (m : Mem α) : Multiset (CStruct α) := cellsMS m.bufs m.css

def HdrOK (m : Mem α) (h : Hdr) : Prop :=
  match h.crystal with
  | none => h.n_crystal = 0 ∧ h.n_alloc = 0
  | some b => ∃ bf, m.bufs.get? b = some bf ∧ bf.cap = h.n_alloc ∧ bf.slots.length = h.n_crystal ∧ h.n_crystal ≤ h.n_alloc

end Mem

/-- strictly sorted by name -/
def SortedNames (vs : List (Crystal α)) : Prop := (vs.map (·.name)).Pairwise (· < ·)

structure WF (bcap : Nat) (m : Mem α) : Prop where
  h0 : ∃ n, m.hdrs.get? 0 = some ⟨n, bcap, some 0⟩
  hdr_ok : ∀ a h, m.hdrs.get? a = some h → m.HdrOK h
  buf_inj : ∀ a a' h h' b, m.hdrs.get? a = some h → m.hdrs.get? a' = some h' →
    h.crystal = some b → h'.crystal = some b → a = a'
  buf_owned : ∀ b bf, m.bufs.get? b = some bf → ∃ a h, m.hdrs.get? a = some h ∧ h.crystal = some b
  names : m.cellsM.map (·.name) = m.strs.domM
  atoms : m.cellsM.map (·.atom) = m.atms.domM
  natom : ∀ c ∈ m.cellsM, ∃ av, m.atms.get? c.atom = some av ∧ c.n_atom = av.length
  sorted : ∀ a vs, m.arrOf a = some vs → SortedNames vs
  vecs : ∀ v, m.vecs.get? v = none

/-! ### dereferencing: monotonicity and congruence -/
namespace Mem

theorem crystalOf_eq_some {m : Mem α} {c : CStruct α} {v : Crystal α} :
    m.crystalOf c = some v ↔
      m.strs.get? c.name = some v.name ∧ m.atms.get? c.atom = some v.atoms ∧ c.n_atom = v.atoms.length ∧
      v.cell = c.cell ∧ v.volume = c.volume := by
  unfold crystalOf
  cases hs : m.strs.get? c.name with
  | none => simp
  | some s =>
    cases ha : m.atms.get? c.atom with
    | none => simp
    | some av =>
      by_cases hn : c.n_atom = av.length
      · simp only [hn, if_true, Option.some.injEq]
        constructor
        · rintro rfl; exact ⟨rfl, rfl, rfl, rfl, rfl⟩
        · rintro ⟨h1, h2, _, h4, h5⟩
          cases v; simp_all
      · simp only [hn, if_false, Option.some.injEq]
        constructor
        · intro h; cases h
        · rintro ⟨_, h2, h3, _⟩; exact absurd (h2 ▸ h3) hn

theorem crystalOf_congr {m m' : Mem α} {c : CStruct α}
    (hs : m'.strs.get? c.name = m.strs.get? c.name) (ha : m'.atms.get? c.atom = m.atms.get? c.atom) :
    m'.crystalOf c = m.crystalOf c := by
  unfold crystalOf; rw [hs, ha]

theorem cellsOf_congr {m m' : Mem α} {cs : List (CStruct α)}
    (h : ∀ c ∈ cs, m'.strs.get? c.name = m.strs.get? c.name ∧ m'.atms.get? c.atom = m.atms.get? c.atom) :
    m'.cellsOf cs = m.cellsOf cs := by
  induction cs with
  | nil => rfl
  | cons c cs ih =>
    unfold cellsOf
    rw [crystalOf_congr (h c (List.mem_cons_self)).1 (h c (List.mem_cons_self)).2,
      ih (fun c' hc' => h c' (List.mem_cons_of_mem _ hc'))]

theorem cellsOf_cons_eq_some {m : Mem α} {c : CStruct α} {cs : List (CStruct α)} {ws : List (Crystal α)} :
    m.cellsOf (c :: cs) = some ws ↔ ∃ v vs, ws = v :: vs ∧ m.crystalOf c = some v ∧ m.cellsOf cs = some vs := by
  conv_lhs => unfold cellsOf
  cases h1 : m.crystalOf c with
  | none => simp
  | some v =>
    cases h2 : m.cellsOf cs with
    | none => simp
    | some vs =>
      simp only [Option.some.injEq]
      constructor
      · rintro rfl; exact ⟨_, _, rfl, rfl, rfl⟩
      · rintro ⟨v', vs', rfl, h, h'⟩; cases h; cases h'; rfl

theorem cellsOf_length {m : Mem α} {cs : List (CStruct α)} {ws : List (Crystal α)} (h : m.cellsOf cs = some ws) :
    ws.length = cs.length := by
  induction cs generalizing ws with
  | nil => simp [cellsOf] at h; subst h; rfl
  | cons c cs ih =>
    obtain ⟨v, vs, rfl, _, h2⟩ := cellsOf_cons_eq_some.mp h
    simp [ih h2]

theorem cellsOf_append {m : Mem α} {cs ds : List (CStruct α)} {vs ws : List (Crystal α)}
    (h1 : m.cellsOf cs = some vs) (h2 : m.cellsOf ds = some ws) : m.cellsOf (cs ++ ds) = some (vs ++ ws) := by
  induction cs generalizing vs with
  | nil => simp [cellsOf] at h1; subst h1; simpa using h2
  | cons c cs ih =>
    obtain ⟨v, vs', rfl, hc, hcs⟩ := cellsOf_cons_eq_some.mp h1
    rw [List.cons_append, cellsOf_cons_eq_some]
    exact ⟨v, vs' ++ ws, rfl, hc, ih hcs⟩

/-- `cellsOf` from a list of (struct, value) pairs -/
theorem cellsOf_of_pairs {m : Mem α} (L : List (CStruct α × Crystal α)) (h : ∀ p ∈ L, m.crystalOf p.1 = some p.2) :
    m.cellsOf (L.map (·.1)) = some (L.map (·.2)) := by
  induction L with
  | nil => rfl
  | cons p L ih =>
    rw [List.map_cons, cellsOf_cons_eq_some]
    exact ⟨p.2, L.map (·.2), rfl, h p List.mem_cons_self, ih (fun q hq => h q (List.mem_cons_of_mem _ hq))⟩

theorem cellsOf_zip {m : Mem α} {cs : List (CStruct α)} {vs : List (Crystal α)} (h : m.cellsOf cs = some vs) :
    ∀ p ∈ cs.zip vs, m.crystalOf p.1 = some p.2 := by
  induction cs generalizing vs with
  | nil => simp
  | cons c cs ih =>
    obtain ⟨v, vs', rfl, hc, hcs⟩ := cellsOf_cons_eq_some.mp h
    intro p hp
    rw [List.zip_cons_cons, List.mem_cons] at hp
    rcases hp with rfl | hp
    · exact hc
    · exact ih hcs p hp

theorem cellsOf_getElem {m : Mem α} {cs : List (CStruct α)} {vs : List (Crystal α)} (h : m.cellsOf cs = some vs)
    {i : Nat} {c : CStruct α} (hc : cs[i]? = some c) : ∃ v, vs[i]? = some v ∧ m.crystalOf c = some v := by
  induction cs generalizing vs i with
  | nil => simp at hc
  | cons c' cs ih =>
    obtain ⟨v, vs', rfl, hc', hcs⟩ := cellsOf_cons_eq_some.mp h
    cases i with
    | zero => simp at hc; subst hc; exact ⟨v, rfl, hc'⟩
    | succ i => simpa using ih hcs (by simpa using hc)

/-- the names the comparators read, as a partial function -/
theorem namesOf_of_cellsOf {m : Mem α} {cs : List (CStruct α)} {vs : List (Crystal α)} (h : m.cellsOf cs = some vs) :
    m.namesOf cs = .ok (vs.map (·.name)) := by
  unfold namesOf
  induction cs generalizing vs with
  | nil => simp [cellsOf] at h; subst h; rfl
  | cons c cs ih =>
    obtain ⟨v, vs', rfl, hc, hcs⟩ := cellsOf_cons_eq_some.mp h
    have hn := (crystalOf_eq_some.mp hc).1
    simp only [List.mapM_cons, Store.get_ok hn, ih hcs, List.map_cons]
    rfl

end Mem
end XrlCrystals

/-! ### the multiset of live `Crystal_Struct`s under the heap primitives -/
namespace XrlCrystals
variable {α : Type}

theorem mem_cellsMS {bufs : Store (Buf α)} {css : Store (CStruct α)} {c : CStruct α} :
    c ∈ cellsMS bufs css ↔ (∃ b bf, bufs.get? b = some bf ∧ c ∈ bf.slots) ∨ (∃ o, css.get? o = some c) := by
  unfold cellsMS
  rw [Multiset.mem_add, Multiset.mem_bind, Store.mem_valsM]
  apply or_congr _ Iff.rfl
  constructor
  · rintro ⟨bf, hbf, hc⟩
    obtain ⟨b, hb⟩ := Store.mem_valsM.mp hbf
    exact ⟨b, bf, hb, by simpa using hc⟩
  · rintro ⟨b, bf, hb, hc⟩
    exact ⟨bf, Store.mem_valsM.mpr ⟨b, hb⟩, by simpa using hc⟩

theorem Mem.mem_cellsM {m : Mem α} {c : CStruct α} :
    c ∈ m.cellsM ↔ (∃ b bf, m.bufs.get? b = some bf ∧ c ∈ bf.slots) ∨ (∃ o, m.css.get? o = some c) := mem_cellsMS

/-- replacing / freeing one vector -/
theorem cellsMS_updBuf {bufs : Store (Buf α)} (css : Store (CStruct α)) {b : Nat} {bf : Buf α} (h : bufs.get? b = some bf) :
    cellsMS bufs css = (bf.slots : Multiset (CStruct α)) + cellsMS (bufs.upd b none) css ∧
    ∀ bf' : Buf α, cellsMS (bufs.upd b (some bf')) css = (bf'.slots : Multiset (CStruct α)) + cellsMS (bufs.upd b none) css := by
  obtain ⟨r, h1, h2, h3⟩ := Store.valsM_upd h
  unfold cellsMS
  refine ⟨?_, fun bf' => ?_⟩
  · rw [h1, h3, Multiset.cons_bind, add_assoc]
  · rw [h2 bf', h3, Multiset.cons_bind, add_assoc]

/-- replacing / freeing one single struct -/
theorem cellsMS_updCs (bufs : Store (Buf α)) {css : Store (CStruct α)} {o : Nat} {c : CStruct α} (h : css.get? o = some c) :
    cellsMS bufs css = c ::ₘ cellsMS bufs (css.upd o none) ∧
    ∀ c' : CStruct α, cellsMS bufs (css.upd o (some c')) = c' ::ₘ cellsMS bufs (css.upd o none) := by
  obtain ⟨r, h1, h2, h3⟩ := Store.valsM_upd h
  unfold cellsMS
  refine ⟨?_, fun c' => ?_⟩
  · rw [h1, h3, Multiset.add_cons]
  · rw [h2 c', h3, Multiset.add_cons]

theorem cellsMS_allocCs (bufs : Store (Buf α)) (css : Store (CStruct α)) (c : CStruct α) :
    cellsMS bufs (css.alloc c).1 = c ::ₘ cellsMS bufs css := by
  unfold cellsMS
  rw [Store.valsM_alloc, Multiset.add_cons]

theorem cellsMS_allocBuf (bufs : Store (Buf α)) (css : Store (CStruct α)) (bf : Buf α) :
    cellsMS (bufs.alloc bf).1 css = (bf.slots : Multiset (CStruct α)) + cellsMS bufs css := by
  unfold cellsMS
  rw [Store.valsM_alloc, Multiset.cons_bind, add_assoc]

theorem nodup_map_add_ne {β γ : Type} {f : β → γ} {s t : Multiset β} (h : (Multiset.map f (s + t)).Nodup)
    {x y : β} (hx : x ∈ s) (hy : y ∈ t) : f x ≠ f y := by
  rw [Multiset.map_add, Multiset.nodup_add] at h
  intro he
  exact Multiset.disjoint_left.mp h.2.2 (Multiset.mem_map_of_mem f hx) (he ▸ Multiset.mem_map_of_mem f hy)

theorem nodup_map_cons_ne {β γ : Type} {f : β → γ} {x : β} {t : Multiset β} (h : (Multiset.map f (x ::ₘ t)).Nodup)
    {y : β} (hy : y ∈ t) : f x ≠ f y := by
  rw [Multiset.map_cons, Multiset.nodup_cons] at h
  intro he
  exact h.1 (he ▸ Multiset.mem_map_of_mem f hy)

end XrlCrystals
