import XrlCrystals.Lemmas.Frame
import XrlCrystals.Lemmas.InsAll
/-!
# `Crystal_ReadFile`: all crystals of the file or none
-/
namespace XrlCrystals
variable {α : Type} {bcap : Nat} {m : Mem α}

theorem Mem.arrOf_files (m : Mem α) (k a : Nat) : ({ m with files := k } : Mem α).arrOf a = m.arrOf a :=
  Mem.arrOf_frame (m := m) (m' := { m with files := k }) rfl rfl (fun _ _ _ _ _ => ⟨rfl, rfl⟩) a
theorem Mem.objOf_files (m : Mem α) (k o : Nat) : ({ m with files := k } : Mem α).objOf o = m.objOf o :=
  Mem.objOf_frame (m := m) (m' := { m with files := k }) rfl (fun _ _ => ⟨rfl, rfl⟩)

theorem WF.files_irrel (w : WF bcap m) (k : Nat) : WF bcap { m with files := k } :=
  ⟨w.h0, w.hdr_ok, w.buf_inj, w.buf_owned, w.names, w.atoms, w.natom,
    fun a vs h => w.sorted a vs (by rw [Mem.arrOf_files] at h; exact h), w.vecs⟩

/-! ### the reading loop -/

theorem readEntries_spec (vol : Cell α → α) (cs : List (Crystal α)) :
    ∀ {m : Mem α} {acc : List (Crystal α)} {na : Nat} {hn : Hdr}, WF bcap m → na ≠ 0 → m.hdrs.get? na = some hn →
      m.arrOf na = some acc →
      ∃ m' e acc', readEntries vol m na cs = .ok (m', e) ∧ Frame bcap m m' (· = na) ∧ m'.arrOf na = some acc' ∧
        (freshAll acc cs → e = none ∧ acc' = insAll vol acc cs) ∧ (¬ freshAll acc cs → e.isSome = true) := by
  induction cs with
  | nil =>
    intro m acc na hn w _ _ hacc
    exact ⟨m, none, acc, rfl, Frame.refl w _, hacc, fun _ => ⟨rfl, rfl⟩, fun h => absurd (by unfold freshAll; simp) h⟩
  | cons c cs ih =>
    intro m acc na hn w hna hh hacc
    obtain ⟨r, e, m2, m3, vs', hadd, hfree, fr, harr, hrefused, haccepted⟩ := addLit_spec vol w (some na) hh hacc c
    simp only [Option.getD_some] at hadd hfree fr harr hrefused haccepted
    have hrw : readEntries vol m na (c :: cs) =
        (do let (m', r, e) ← Crystal_AddCrystal vol (mkObj m c).1 (some (.obj (mkObj m c).2)) (some na)
            let m' ← Crystal_Free m' (some (mkObj m c).2)
            if r = 0 then pure (m', e) else readEntries vol m' na cs) := rfl
    rw [hrw]
    simp only [hadd, hfree, bind, Except.bind]
    have href : refuses na hn acc c.name ↔ c.name ∈ acc.map (·.name) := by
      unfold refuses; constructor
      · rintro (h | ⟨h, _⟩)
        · exact h
        · exact absurd h hna
      · exact Or.inl
    by_cases hdup : c.name ∈ acc.map (·.name)
    · obtain ⟨hr, he, hv⟩ := hrefused (href.mpr hdup)
      rw [hr]
      refine ⟨m3, e, vs', by simp [pure, Except.pure], fr, harr, ?_, fun _ => he⟩
      intro hf
      exact absurd hdup ((freshAll_cons vol acc c cs).mp hf).1
    · obtain ⟨hr, he, hv⟩ := haccepted (fun h => hdup (href.mp h))
      rw [hr]
      rw [hv] at harr
      have hh3 : ∃ h3, m3.hdrs.get? na = some h3 := by
        have := fr.hdr_live na; rw [hh] at this
        exact Option.isSome_iff_exists.mp this
      obtain ⟨h3, hh3⟩ := hh3
      obtain ⟨m', e', acc', hrun, fr', harr', hfresh, hnot⟩ := ih fr.wf hna hh3 harr
      refine ⟨m', e', acc', by simpa using hrun, fr.trans fr', harr', ?_, ?_⟩
      · intro hf
        obtain ⟨_, h2⟩ := (freshAll_cons vol acc c cs).mp hf
        exact hfresh h2
      · intro hf
        apply hnot
        intro h2
        exact hf ((freshAll_cons vol acc c cs).mpr ⟨hdup, h2⟩)


/-! ### memories that differ only by dead blocks -/

structure Quiet (m m' : Mem α) : Prop where
  hdrs : m'.hdrs = m.hdrs
  bufs : m'.bufs = m.bufs
  vecs : m'.vecs = m.vecs
  files : m'.files = m.files
  strs : ∀ x, m'.strs.get? x = m.strs.get? x
  atms : ∀ x, m'.atms.get? x = m.atms.get? x
  css : ∀ o, m'.css.get? o = m.css.get? o
  cvals : m'.css.valsM = m.css.valsM
  clen : m.css.cells.length ≤ m'.css.cells.length

theorem Quiet.frame {m' : Mem α} (q : Quiet m m') (w : WF bcap m) : Frame bcap m m' (fun _ => False) := by
  have harr : ∀ a, m'.arrOf a = m.arrOf a :=
    Mem.arrOf_frame q.hdrs q.bufs (fun _ _ c _ _ => ⟨q.strs c.name, q.atms c.atom⟩)
  have hcells : m'.cellsM = m.cellsM := by unfold Mem.cellsM cellsMS; rw [q.bufs, q.cvals]
  have hobj : ∀ o, m'.objOf o = m.objOf o := fun o => Mem.objOf_frame (q.css o) (fun c _ => ⟨q.strs c.name, q.atms c.atom⟩)
  refine ⟨⟨by rw [q.hdrs]; exact w.h0, ?_, by rw [q.hdrs]; exact w.buf_inj, ?_, ?_, ?_, ?_, ?_, by rw [q.vecs]; exact w.vecs⟩,
    fun x _ => harr x, fun o _ => hobj o, fun o _ => q.css o, fun o ho => by rw [q.css o]; exact Store.get?_ge ho,
    by rw [q.hdrs]; exact fun _ => rfl, by rw [q.hdrs]; exact fun _ _ => rfl, by rw [q.bufs]; exact fun _ _ _ _ _ _ => rfl,
    by rw [q.hdrs], q.clen, q.files⟩
  · intro a h hh
    rw [q.hdrs] at hh
    have := w.hdr_ok a h hh
    unfold Mem.HdrOK at this ⊢
    rw [q.bufs]; exact this
  · rw [q.hdrs, q.bufs]; exact w.buf_owned
  · rw [hcells, w.names]; exact (Store.domM_congr (fun a => by rw [q.strs a])).symm
  · rw [hcells, w.atoms]; exact (Store.domM_congr (fun a => by rw [q.atms a])).symm
  · intro c hc
    rw [hcells] at hc
    obtain ⟨av, h1, h2⟩ := w.natom c hc
    exact ⟨av, by rw [q.atms]; exact h1, h2⟩
  · intro a vs hv; rw [harr] at hv; exact w.sorted a vs hv

theorem partialEntry_spec [Inhabited α] (w : WF bcap m) (pe : ParseErr) :
    ∃ m', partialEntry m pe = .ok m' ∧ Frame bcap m m' (fun _ => False) := by
  cases pe with
  | sLine => exact ⟨m, rfl, Frame.refl w _⟩
  | atomLine n l k =>
    refine ⟨{ m with strs := (m.strs.alloc n).1.upd m.strs.cells.length none,
                     atms := (m.atms.alloc (List.replicate k default)).1.upd m.atms.cells.length none,
                     css := (m.css.alloc ⟨m.strs.cells.length, default, default, k, m.atms.cells.length⟩).1.upd m.css.cells.length none }, ?_, ?_⟩
    · unfold partialEntry
      simp only [Store.alloc_free_ok, Store.alloc_snd, bind, Except.bind, pure, Except.pure]
    · exact Quiet.frame ⟨rfl, rfl, rfl, rfl, Store.get?_alloc_free _ _, Store.get?_alloc_free _ _, Store.get?_alloc_free _ _,
        Store.valsM_alloc_free _ _, by rw [Store.length_alloc_free]; exact Nat.le_succ _⟩ w
  | noUcell n | multiUcell n | badUcell n | eof n =>
    refine ⟨{ m with strs := (m.strs.alloc n).1.upd m.strs.cells.length none,
                     css := (m.css.alloc ⟨m.strs.cells.length, default, default, 0, 0⟩).1.upd m.css.cells.length none }, ?_, ?_⟩
    · unfold partialEntry
      simp only [Store.alloc_free_ok, Store.alloc_snd, bind, Except.bind, pure, Except.pure]
    · exact Quiet.frame ⟨rfl, rfl, rfl, rfl, Store.get?_alloc_free _ _, fun _ => rfl, Store.get?_alloc_free _ _,
        Store.valsM_alloc_free _ _, by rw [Store.length_alloc_free]; exact Nat.le_succ _⟩ w


/-! ### the checks after the file is closed -/

theorem anyPresent_spec (w : WF bcap m) {a : Nat} {h : Hdr} (hh : m.hdrs.get? a = some h) {vs : List (Crystal α)}
    (hvs : m.arrOf a = some vs) (names : List String) :
    anyPresent m a names = .ok (names.any (fun n => decide (n ∈ vs.map (·.name)))) := by
  induction names with
  | nil => rfl
  | cons n ns ih =>
    unfold anyPresent
    rw [find_spec w hh hvs n]
    simp only [bind, Except.bind]
    by_cases hn : n ∈ vs.map (·.name)
    · cases hfi : (vs.map (·.name)).findIdx? (· == n) with
      | none => exact absurd hn ((findIdx_none_iff _ _).mp hfi)
      | some i =>
        simp only [pure, Except.pure, List.any_cons, hn, decide_true, Bool.true_or]
    · rw [(findIdx_none_iff _ _).mpr hn]
      simp only [ih, List.any_cons, hn, decide_false, Bool.false_or]

theorem anyPresent_nil (m : Mem α) (a : Nat) : anyPresent m a [] = .ok false := rfl

theorem overBuiltin_user (m : Mem α) {a : Nat} (ha : a ≠ 0) (n : Nat) : overBuiltin m a n = .ok false := by
  unfold overBuiltin; simp [ha, pure, Except.pure]

theorem overBuiltin_builtin {n0 : Nat} (h0 : m.hdrs.get? 0 = some ⟨n0, bcap, some 0⟩) (n : Nat) :
    overBuiltin m 0 n = .ok (decide (n0 + n > bcap)) := by
  unfold overBuiltin
  simp only [if_true, Store.get_ok h0, bind, Except.bind, pure, Except.pure]
  have : decide ((n : Int) > (bcap : Int) - (n0 : Int)) = decide (n0 + n > bcap) := by
    rw [decide_eq_decide]; constructor <;> intro h <;> omega
  rw [this]

/-! ### the merging loop -/

theorem mergeAll_spec (vol : Cell α → α) (na nb a : Nat) (bf : Buf α) (ws : List (Crystal α)) (hne : a ≠ na) (is : List Nat) :
    ∀ {m : Mem α} {vs : List (Crystal α)} {h hn : Hdr}, WF bcap m → m.hdrs.get? a = some h → m.arrOf a = some vs →
      m.hdrs.get? na = some hn → hn.crystal = some nb → m.bufs.get? nb = some bf → m.cellsOf bf.slots = some ws →
      (∀ i ∈ is, i < ws.length) → freshAll vs (is.filterMap (ws[·]?)) → (a = 0 → vs.length + is.length ≤ bcap) →
      ∃ m', mergeAll vol m nb a is = .ok (m', none) ∧ Frame bcap m m' (· = a) ∧
        m'.arrOf a = some (insAll vol vs (is.filterMap (ws[·]?))) := by
  induction is with
  | nil =>
    intro m vs h hn w _ hvs _ _ _ _ _ _ _
    exact ⟨m, rfl, Frame.refl w _, hvs⟩
  | cons i is ih =>
    intro m vs h hn w hh hvs hhn hcn hb hws hlt hfresh hroom
    have hi : i < ws.length := hlt i List.mem_cons_self
    have hlen := Mem.cellsOf_length hws
    have hi' : i < bf.slots.length := by omega
    obtain ⟨wi, hwi, hcw⟩ := Mem.cellsOf_getElem hws (List.getElem?_eq_getElem hi')
    have hfm : (i :: is).filterMap (ws[·]?) = wi :: is.filterMap (ws[·]?) := by
      rw [List.filterMap_cons, hwi]
    rw [hfm] at hfresh ⊢
    obtain ⟨hfr1, hfr2⟩ := (freshAll_cons vol vs wi _).mp hfresh
    -- the source slot
    obtain ⟨bf', hb', hcap, hsl, hle⟩ := w.buf_live hhn hcn
    have : bf' = bf := by rw [hb] at hb'; cases hb'; rfl
    subst this
    have hloc : m.loc (.slot nb i) = some bf'.slots[i] := by
      rw [Mem.loc_slot, hb]
      have : i < bf'.cap := by omega
      simp [this, List.getElem?_eq_getElem hi']
    have hp : ∀ b j, CPtr.slot nb i = .slot b j → h.crystal ≠ some b := by
      intro b j he hc
      cases he
      exact hne (w.buf_inj a na h hn nb hh hhn hc hcn)
    have hspec := addCrystal_spec vol w (some a) (by simpa using hh) (by simpa using hvs) hloc hcw hp
    simp only [Option.getD_some] at hspec
    rw [if_neg hfr1] at hspec
    have hroom' : ¬ (a = 0 ∧ h.n_crystal = h.n_alloc) := by
      rintro ⟨ha0, heq⟩
      subst ha0
      obtain ⟨n0, hn0⟩ := w.h0
      have : h = ⟨n0, bcap, some 0⟩ := by have := hn0.symm.trans hh; cases this; rfl
      subst this
      obtain ⟨bf0, hb0, _, hsl0, _⟩ := w.buf_live hh rfl
      have h1 : m.arrOf 0 = m.cellsOf bf0.slots := Mem.arrOf_eq hh rfl hb0
      rw [hvs] at h1
      have h2 := Mem.cellsOf_length h1.symm
      have := hroom rfl
      simp only [List.length_cons] at this
      simp only at heq hsl0
      omega
    rw [if_neg hroom'] at hspec
    obtain ⟨m1, hadd, ap⟩ := hspec
    -- the rest of the loop runs on `m1`
    have hh1 : ∃ h1, m1.hdrs.get? a = some h1 := by
      have := ap.hdr_live a; rw [hh] at this; exact Option.isSome_iff_exists.mp this
    obtain ⟨h1, hh1⟩ := hh1
    have hhn1 : m1.hdrs.get? na = some hn := (ap.hdr_other na (Ne.symm hne)).trans hhn
    have hb1 : m1.bufs.get? nb = some bf' := (ap.buf_other na hn nb (Ne.symm hne) hhn hcn).trans hb
    have hws1 : m1.cellsOf bf'.slots = some ws := by
      rw [← Mem.arrOf_eq hhn1 hcn hb1, ap.arr_other na (Ne.symm hne), Mem.arrOf_eq hhn hcn hb]; exact hws
    have hroom1 : a = 0 → (Dict.ins (recomp vol wi) vs).length + is.length ≤ bcap := by
      intro ha0
      have := hroom ha0
      rw [(Dict.ins_perm _ vs).length_eq]
      simp only [List.length_cons] at this ⊢
      omega
    obtain ⟨m', hrun, fr, harr⟩ := ih ap.wf hh1 ap.arr_a hhn1 hcn hb1 hws1
      (fun j hj => hlt j (List.mem_cons_of_mem _ hj)) hfr2 hroom1
    refine ⟨m', ?_, ap.frame.trans fr, by rw [insAll_cons]; exact harr⟩
    unfold mergeAll
    simp only [hadd, bind, Except.bind]
    simpa using hrun

theorem filterMap_range_getElem? {β : Type} (ws : List β) : (List.range ws.length).filterMap (ws[·]?) = ws := by
  induction ws with
  | nil => rfl
  | cons a l ih =>
    rw [List.length_cons, List.range_succ_eq_map, List.filterMap_cons]
    simp only [List.getElem?_cons_zero, List.filterMap_map]
    congr 1

end XrlCrystals
