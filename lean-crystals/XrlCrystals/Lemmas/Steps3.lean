import XrlCrystals.Lemmas.Steps2
/-!
# Step lemmas: `add`, `read`
-/
namespace XrlCrystals
variable {α : Type} {bcap : Nat} [Inhabited α] (vol : Cell α → α)

omit [Inhabited α] in
theorem builtin_len {m : Mem α} (w : WF bcap m) {hd : Hdr} (hh : m.hdrs.get? 0 = some hd) {vs : List (Crystal α)}
    (hvs : m.arrOf 0 = some vs) : hd.n_crystal = vs.length ∧ hd.n_alloc = bcap ∧ vs.length ≤ bcap := by
  obtain ⟨n0, hn0⟩ := w.h0
  have : hd = ⟨n0, bcap, some 0⟩ := by have := hn0.symm.trans hh; cases this; rfl
  subst this
  obtain ⟨bf0, hb0, _, hsl0, hle⟩ := w.buf_live hh rfl
  have h1 : m.arrOf 0 = m.cellsOf bf0.slots := Mem.arrOf_eq hh rfl hb0
  rw [hvs] at h1
  have h2 := Mem.cellsOf_length h1.symm
  dsimp only at hsl0 hle ⊢
  omega

omit [Inhabited α] in
/-- the abstract test "already present, or no room" is the concrete refusal condition -/
theorem refuses_iff {σ : CState α} (inv : Inv bcap σ) {t : Option Nat} {a : Nat} {hd : Hdr}
    (hhd : σ.mem.hdrs.get? a = some hd) (hvs : σ.mem.arrOf a = some ((abs σ).dict t).items)
    (ht : Denotes σ t a) (n : String) :
    refuses a hd ((abs σ).dict t).items n ↔ (((abs σ).dict t).has n || !((abs σ).room bcap t 1)) = true := by
  unfold refuses
  simp only [Bool.or_eq_true, Bool.not_eq_true', Dict.has, Dict.names, List.contains_iff_mem]
  apply or_congr Iff.rfl
  cases t with
  | none =>
    simp only [Denotes] at ht
    subst ht
    obtain ⟨h1, h2, h3⟩ := builtin_len inv.wf hhd hvs
    have hd' : ((abs σ).dict none).items = (abs σ).builtin.items := rfl
    rw [hd'] at h1 h3
    simp only [AState.room, true_and, Dict.size, h1, h2]
    constructor
    · intro h; exact decide_eq_false (by omega)
    · intro h; have := of_decide_eq_false h; omega
  | some i =>
    simp only [Denotes] at ht
    simp [AState.room, ht.1]

omit [Inhabited α] in
theorem abs_live_entry {σ : CState α} {i a : Nat} {vs : List (Crystal α)} (hai : σ.arrs[i]? = some (some a))
    (hvs : σ.mem.arrOf a = some vs) : (abs σ).arrs[i]? = some (.live ⟨vs⟩) := by
  simp [abs, List.getElem?_map, hai, absArr, hvs]

omit [Inhabited α] in
/-- a call that changed nothing that the abstraction sees -/
theorem frame_same {σ : CState α} (inv : Inv bcap σ) {a : Nat} {m' : Mem α} (f : Frame bcap σ.mem m' (· = a)) {t : Option Nat}
    (ht : Denotes σ t a)
    (hvs : σ.mem.arrOf a = some ((abs σ).dict t).items) (hvs' : m'.arrOf a = some ((abs σ).dict t).items) :
    Inv bcap ⟨m', σ.arrs, σ.objs⟩ ∧ abs ⟨m', σ.arrs, σ.objs⟩ = abs σ := by
  obtain ⟨hinv, habs⟩ := frame_step inv f ht hvs'
  refine ⟨hinv, habs.trans ?_⟩
  apply setDict_self
  cases t with
  | none => trivial
  | some i => exact ⟨_, abs_live_entry ht.2 hvs⟩

theorem step_add {σ : CState α} (inv : Inv bcap σ) (arr : ARef) (src : Src α) {a' : AState α} {o : AOut}
    (hs : astep vol bcap (abs σ) (.add arr src) = some (a', o)) : StepOk vol bcap σ (.add arr src) a' o := by
  simp only [astep, Option.bind_eq_bind] at hs
  cases ht : (abs σ).target arr with
  | none => rw [ht] at hs; simp at hs
  | some t =>
    rw [ht] at hs
    simp only [Option.bind_some] at hs
    obtain ⟨p, hd, harr, hhd, hvs, htm⟩ := target_corr inv ht
    cases hv : (abs σ).srcVal src with
    | none => rw [hv] at hs; simp at hs
    | some v =>
      rw [hv] at hs
      simp only [Option.bind_some] at hs
      -- the answer when the source pointer is NULL
      have hnull : ∀ (hsrc : σ.src src = .ok (σ.mem, none, none)), v = none → StepOk vol bcap σ (.add arr src) a' o := by
        intro hsrc hvn
        subst hvn
        simp only [Option.some.injEq, Prod.mk.injEq] at hs
        obtain ⟨rfl, rfl⟩ := hs
        exact ⟨σ, ⟨.int 0, _⟩, by simp only [cstep, harr, hsrc, addCrystal_null, free_null, bind, Except.bind, pure, Except.pure]; rfl,
          ⟨rfl, rfl⟩, inv, rfl⟩
      cases src with
      | null =>
        simp only [AState.srcVal, Option.some.injEq] at hv
        exact hnull rfl hv.symm
      | lit c =>
        simp only [AState.srcVal, Option.some.injEq] at hv
        subst hv
        simp only at hs
        obtain ⟨r, e, m2, m3, vs', hadd, hfree, fr, harr', hrefused, haccepted⟩ := addLit_spec vol inv.wf p hhd hvs c
        have hrun : cstep vol σ (.add arr (.lit c)) = .ok (⟨m3, σ.arrs, σ.objs⟩, ⟨.int r, e⟩) := by
          have hsrc : σ.src (.lit c) = .ok ((mkObj σ.mem c).1, some (.obj (mkObj σ.mem c).2), some (mkObj σ.mem c).2) := rfl
          simp only [cstep, harr, hsrc, hadd, hfree, bind, Except.bind, pure, Except.pure]
        by_cases href : refuses (p.getD 0) hd ((abs σ).dict t).items c.name
        · obtain ⟨hr, he, hvs'⟩ := hrefused href
          rw [(refuses_iff inv hhd hvs htm c.name).mp href] at hs
          simp only [if_true, Option.some.injEq, Prod.mk.injEq] at hs
          obtain ⟨rfl, rfl⟩ := hs
          subst hr; subst hvs'
          obtain ⟨hinv, habs⟩ := frame_same inv fr htm hvs harr'
          exact ⟨_, _, hrun, ⟨rfl, he⟩, hinv, habs⟩
        · obtain ⟨hr, he, hvs'⟩ := haccepted href
          have : (((abs σ).dict t).has c.name || !((abs σ).room bcap t 1)) = false := by
            have := (refuses_iff inv hhd hvs htm c.name).not.mp href
            simpa using this
          rw [this] at hs
          simp only [Bool.false_eq_true, if_false, Option.some.injEq, Prod.mk.injEq] at hs
          obtain ⟨rfl, rfl⟩ := hs
          subst hr; subst he; subst hvs'
          obtain ⟨hinv, habs⟩ := frame_step inv fr htm harr'
          exact ⟨_, _, hrun, ⟨rfl, rfl⟩, hinv, habs⟩
      | obj j =>
        obtain ⟨q, hobj, hq⟩ := srcVal_obj inv hv
        cases v with
        | none =>
          simp only at hq
          subst hq
          exact hnull (by simp only [CState.src, hobj, bind, Except.bind, Option.map_none, pure, Except.pure]) rfl
        | some c =>
          simp only at hq hs
          obtain ⟨ob, cs, rfl, hc, hcv⟩ := hq
          have hsrc : σ.src (.obj j) = .ok (σ.mem, some (.obj ob), none) := by
            simp only [CState.src, hobj, bind, Except.bind, Option.map_some, pure, Except.pure]
          have hspec := addCrystal_spec vol inv.wf p hhd hvs (p := .obj ob) hc hcv (fun _ _ h => by cases h)
          by_cases href : refuses (p.getD 0) hd ((abs σ).dict t).items c.name
          · rw [(refuses_iff inv hhd hvs htm c.name).mp href] at hs
            simp only [if_true, Option.some.injEq, Prod.mk.injEq] at hs
            obtain ⟨rfl, rfl⟩ := hs
            have : ∃ e, Crystal_AddCrystal vol σ.mem (some (.obj ob)) p = .ok (σ.mem, 0, some e) := by
              unfold refuses at href
              by_cases hin : c.name ∈ ((abs σ).dict t).items.map (·.name)
              · rw [if_pos hin] at hspec; exact hspec
              · rw [if_neg hin, if_pos (href.resolve_left hin)] at hspec; exact hspec
            obtain ⟨e, hrun⟩ := this
            exact ⟨σ, ⟨.int 0, some e⟩, by simp only [cstep, harr, hsrc, hrun, free_null, bind, Except.bind, pure, Except.pure],
              ⟨rfl, rfl⟩, inv, rfl⟩
          · have hb : (((abs σ).dict t).has c.name || !((abs σ).room bcap t 1)) = false := by
              have := (refuses_iff inv hhd hvs htm c.name).not.mp href
              simpa using this
            rw [hb] at hs
            simp only [Bool.false_eq_true, if_false, Option.some.injEq, Prod.mk.injEq] at hs
            obtain ⟨rfl, rfl⟩ := hs
            unfold refuses at href
            rw [not_or] at href
            rw [if_neg href.1, if_neg href.2] at hspec
            obtain ⟨m', hrun, ap⟩ := hspec
            obtain ⟨hinv, habs⟩ := frame_step inv ap.frame htm ap.arr_a
            exact ⟨⟨m', σ.arrs, σ.objs⟩, ⟨.int 1, none⟩,
              by simp only [cstep, harr, hsrc, hrun, free_null, bind, Except.bind, pure, Except.pure], ⟨rfl, rfl⟩, hinv, habs⟩


omit [Inhabited α] in
/-- the abstract acceptance test of a file is the concrete one -/
theorem fileOk_iff {σ : CState α} (inv : Inv bcap σ) {t : Option Nat} {a : Nat} {hd : Hdr}
    (hhd : σ.mem.hdrs.get? a = some hd) (hvs : σ.mem.arrOf a = some ((abs σ).dict t).items) (ht : Denotes σ t a) (p : Parsed α) :
    fileOk bcap a ((abs σ).dict t).items p ↔
      (p.bad.isSome || !(decide (p.good.map (·.name)).Nodup) || (p.good.map (·.name)).any ((abs σ).dict t).has ||
        !((abs σ).room bcap t (p.good.map (·.name)).length)) = false := by
  unfold fileOk freshAll
  simp only [Bool.or_eq_false_iff, Bool.not_eq_false', decide_eq_true_eq, List.any_eq_false, Dict.has, Dict.names,
    List.contains_iff_mem, List.length_map, Option.isSome_eq_false_iff, Option.isNone_iff_eq_none]
  have hroom : (a = 0 → ((abs σ).dict t).items.length + p.good.length ≤ bcap) ↔ (abs σ).room bcap t p.good.length = true := by
    cases t with
    | none =>
      simp only [Denotes] at ht
      subst ht
      simp only [AState.room, AState.dict, Dict.size, true_implies]
      exact (decide_eq_true_iff).symm
    | some i =>
      simp only [Denotes] at ht
      simp [AState.room, ht.1]
  rw [hroom]
  constructor
  · rintro ⟨h1, ⟨h2, h3⟩, h4⟩; exact ⟨⟨⟨h1, h2⟩, fun n hn => by simpa using h3 n hn⟩, h4⟩
  · rintro ⟨⟨⟨h1, h2⟩, h3⟩, h4⟩; exact ⟨h1, ⟨h2, fun n hn => by simpa using h3 n hn⟩, h4⟩

theorem step_read {σ : CState α} (inv : Inv bcap σ) (arr : ARef) (f : FileArg α) {a' : AState α} {o : AOut}
    (hs : astep vol bcap (abs σ) (.read arr f) = some (a', o)) : StepOk vol bcap σ (.read arr f) a' o := by
  simp only [astep, Option.bind_eq_bind] at hs
  cases ht : (abs σ).target arr with
  | none => rw [ht] at hs; simp at hs
  | some t =>
    rw [ht] at hs
    simp only [Option.bind_some] at hs
    obtain ⟨p, hd, harr, hhd, hvs, htm⟩ := target_corr inv ht
    cases f with
    | nullName =>
      simp only [Option.some.injEq, Prod.mk.injEq] at hs
      obtain ⟨rfl, rfl⟩ := hs
      exact ⟨σ, ⟨.int 0, some ⟨XRL_ERROR_IO, "NULL filenames are not allowed"⟩⟩,
        by simp only [cstep, harr, Crystal_ReadFile, bind, Except.bind, pure, Except.pure], ⟨rfl, rfl⟩, inv, rfl⟩
    | cannotOpen =>
      simp only [Option.some.injEq, Prod.mk.injEq] at hs
      obtain ⟨rfl, rfl⟩ := hs
      exact ⟨σ, ⟨.int 0, some ⟨XRL_ERROR_IO, "Could not open"⟩⟩,
        by simp only [cstep, harr, Crystal_ReadFile, bind, Except.bind, pure, Except.pure], ⟨rfl, rfl⟩, inv, rfl⟩
    | content pc =>
      simp only at hs
      obtain ⟨m', r, e, hrun, fr, hok, hnok⟩ := readFile_spec vol inv.wf p hhd hvs pc
      have hcs : cstep vol σ (.read arr (.content pc)) = .ok (⟨m', σ.arrs, σ.objs⟩, ⟨.int r, e⟩) := by
        simp only [cstep, harr, hrun, bind, Except.bind, pure, Except.pure]
      by_cases hfo : fileOk bcap (p.getD 0) ((abs σ).dict t).items pc
      · obtain ⟨hr, he, harr'⟩ := hok hfo
        rw [(fileOk_iff inv hhd hvs htm pc).mp hfo] at hs
        simp only [Bool.false_eq_true, if_false, Option.some.injEq, Prod.mk.injEq] at hs
        obtain ⟨rfl, rfl⟩ := hs
        subst hr; subst he
        obtain ⟨hinv, habs⟩ := frame_step inv fr htm harr'
        refine ⟨_, _, hcs, ⟨rfl, rfl⟩, hinv, ?_⟩
        rw [habs]
        congr 1
        have := putAll_items vol ((abs σ).dict t) pc.good
        cases hd' : ((abs σ).dict t).putAll vol pc.good with | mk items =>
        rw [hd'] at this
        simp only at this
        rw [this]
      · obtain ⟨hr, he, harr'⟩ := hnok hfo
        have hb : (pc.bad.isSome || !(decide (pc.good.map (·.name)).Nodup) || (pc.good.map (·.name)).any ((abs σ).dict t).has ||
            !((abs σ).room bcap t (pc.good.map (·.name)).length)) = true := by
          have := (fileOk_iff inv hhd hvs htm pc).not.mp hfo
          exact Bool.eq_true_of_not_eq_false this
        rw [hb] at hs
        simp only [if_true, Option.some.injEq, Prod.mk.injEq] at hs
        obtain ⟨rfl, rfl⟩ := hs
        subst hr
        obtain ⟨hinv, habs⟩ := frame_same inv fr htm hvs harr'
        exact ⟨_, _, hcs, ⟨rfl, he⟩, hinv, habs⟩

end XrlCrystals
