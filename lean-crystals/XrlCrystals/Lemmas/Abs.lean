import XrlCrystals.Lemmas.ReadFile2
/-!
# The abstraction map from concrete caller states to dictionary states, and the state invariant
-/
namespace XrlCrystals
variable {α : Type} {bcap : Nat}

/-- what the caller's `Crystal_Array*` variable denotes -/
def absArr (m : Mem α) : Option Nat → Held (Dict α)
  | none => .null
  | some a =>
    match m.arrOf a with
    | some vs => .live ⟨vs⟩
    | none => .released

/-- what the caller's `Crystal_Struct*` variable denotes -/
def absObj (m : Mem α) : Option Nat → Held (Crystal α)
  | none => .null
  | some o =>
    match m.objOf o with
    | some v => .live v
    | none => .released

/-- **the abstraction map** -/
def abs (σ : CState α) : AState α :=
  ⟨⟨(σ.mem.arrOf 0).getD []⟩, σ.arrs.map (absArr σ.mem), σ.objs.map (absObj σ.mem)⟩

/-- the invariant of reachable caller states -/
structure Inv (bcap : Nat) (σ : CState α) : Prop where
  wf : WF bcap σ.mem
  files : σ.mem.files = 0
  arrs_lt : ∀ a, some a ∈ σ.arrs → a < σ.mem.hdrs.cells.length ∧ a ≠ 0
  arrs_inj : ∀ (i j a : Nat), σ.arrs[i]? = some (some a) → σ.arrs[j]? = some (some a) → i = j
  objs_lt : ∀ o, some o ∈ σ.objs → o < σ.mem.css.cells.length
  objs_inj : ∀ (i j o : Nat), σ.objs[i]? = some (some o) → σ.objs[j]? = some (some o) → i = j
  hdr_known : ∀ a h, σ.mem.hdrs.get? a = some h → a = 0 ∨ some a ∈ σ.arrs
  css_known : ∀ o c, σ.mem.css.get? o = some c → some o ∈ σ.objs

theorem absArr_congr {m m' : Mem α} {p : Option Nat} (h : ∀ a, p = some a → m'.arrOf a = m.arrOf a) :
    absArr m' p = absArr m p := by
  cases p with
  | none => rfl
  | some a => simp only [absArr]; rw [h a rfl]

theorem absObj_congr {m m' : Mem α} {p : Option Nat} (h : ∀ o, p = some o → m'.objOf o = m.objOf o) :
    absObj m' p = absObj m p := by
  cases p with
  | none => rfl
  | some o => simp only [absObj]; rw [h o rfl]

theorem map_absArr_congr {m m' : Mem α} {l : List (Option Nat)} (h : ∀ a, some a ∈ l → m'.arrOf a = m.arrOf a) :
    l.map (absArr m') = l.map (absArr m) :=
  List.map_congr_left (fun p hp => absArr_congr (fun a ha => h a (ha ▸ hp)))

theorem map_absObj_congr {m m' : Mem α} {l : List (Option Nat)} (h : ∀ o, some o ∈ l → m'.objOf o = m.objOf o) :
    l.map (absObj m') = l.map (absObj m) :=
  List.map_congr_left (fun p hp => absObj_congr (fun o ho => h o (ho ▸ hp)))

/-- one entry changed its meaning -/
theorem map_set_of_congr {β γ : Type} {f f' : β → γ} {l : List β} {i : Nat} {x : β} (hi : l[i]? = some x)
    (h : ∀ j y, j ≠ i → l[j]? = some y → f' y = f y) : l.map f' = (l.map f).set i (f' x) := by
  apply List.ext_getElem?
  intro j
  rw [List.getElem?_set]
  by_cases hj : i = j
  · subst hj
    simp only [List.getElem?_map, hi, Option.map_some, List.length_map, if_true]
    have : i < l.length := (List.getElem?_eq_some_iff.mp hi).1
    simp [this]
  · simp only [hj, if_false, List.getElem?_map]
    cases hy : l[j]? with
    | none => rfl
    | some y => simp only [Option.map_some]; rw [h j y (fun h => hj h.symm) hy]

theorem absArr_live {m : Mem α} {p : Option Nat} {d : Dict α} (h : absArr m p = .live d) :
    ∃ a, p = some a ∧ m.arrOf a = some d.items := by
  cases p with
  | none => cases h
  | some a =>
    simp only [absArr] at h
    cases hv : m.arrOf a with
    | none => rw [hv] at h; cases h
    | some vs => rw [hv] at h; cases h; exact ⟨a, rfl, hv⟩

theorem absArr_null {m : Mem α} {p : Option Nat} (h : absArr m p = .null) : p = none := by
  cases p with
  | none => rfl
  | some a => simp only [absArr] at h; cases hv : m.arrOf a <;> rw [hv] at h <;> cases h

theorem absObj_live {m : Mem α} {p : Option Nat} {v : Crystal α} (h : absObj m p = .live v) :
    ∃ o, p = some o ∧ m.objOf o = some v := by
  cases p with
  | none => cases h
  | some o =>
    simp only [absObj] at h
    cases hv : m.objOf o with
    | none => rw [hv] at h; cases h
    | some v' => rw [hv] at h; cases h; exact ⟨o, rfl, hv⟩

theorem absObj_null {m : Mem α} {p : Option Nat} (h : absObj m p = .null) : p = none := by
  cases p with
  | none => rfl
  | some o => simp only [absObj] at h; cases hv : m.objOf o <;> rw [hv] at h <;> cases h

theorem objOf_some_iff {m : Mem α} {o : Nat} {v : Crystal α} (h : m.objOf o = some v) :
    ∃ c, m.css.get? o = some c ∧ m.crystalOf c = some v := by
  unfold Mem.objOf at h
  cases hc : m.css.get? o with
  | none => rw [hc] at h; cases h
  | some c => rw [hc] at h; exact ⟨c, rfl, h⟩

theorem arrOf_some_hdr {m : Mem α} {a : Nat} {vs : List (Crystal α)} (h : m.arrOf a = some vs) : ∃ hd, m.hdrs.get? a = some hd := by
  cases hg : m.hdrs.get? a with
  | none => rw [Mem.arrOf_none hg] at h; cases h
  | some hd => exact ⟨hd, rfl⟩

/-! ### which collection an `ARef` denotes, concretely -/

/-- the header address `a` is the collection `t` of the abstract state (`none`: the built-in one at address 0) -/
def Denotes (σ : CState α) (t : Option Nat) (a : Nat) : Prop :=
  match t with
  | none => a = 0
  | some i => a ≠ 0 ∧ σ.arrs[i]? = some (some a)

/-- the concrete side of `AState.target`: the pointer the caller passes, the live header behind it, its content -/
theorem target_corr {σ : CState α} (inv : Inv bcap σ) {arr : ARef} {t : Option Nat} (ht : (abs σ).target arr = some t) :
    ∃ p hd, σ.arr arr = .ok p ∧ σ.mem.hdrs.get? (p.getD 0) = some hd ∧
      σ.mem.arrOf (p.getD 0) = some ((abs σ).dict t).items ∧ Denotes σ t (p.getD 0) := by
  obtain ⟨n0, hn0⟩ := inv.wf.h0
  obtain ⟨vs0, hvs0⟩ := inv.wf.arrOf_some hn0
  have hb : ((abs σ).dict none).items = vs0 := by simp [AState.dict, abs, hvs0]
  cases arr with
  | builtin =>
    simp only [AState.target, Option.some.injEq] at ht
    subst ht
    exact ⟨none, _, rfl, hn0, by rw [hb]; exact hvs0, rfl⟩
  | user i =>
    simp only [AState.target, abs, List.getElem?_map] at ht
    cases hp : σ.arrs[i]? with
    | none => rw [hp] at ht; simp at ht
    | some p =>
      rw [hp] at ht
      simp only [Option.map_some] at ht
      have harr : σ.arr (.user i) = .ok p := by simp [CState.arr, hp, pure, Except.pure]
      cases hab : absArr σ.mem p with
      | null =>
        rw [hab] at ht
        simp only [Option.some.injEq] at ht
        subst ht
        have := absArr_null hab
        subst this
        exact ⟨none, _, harr, hn0, by rw [hb]; exact hvs0, rfl⟩
      | released => rw [hab] at ht; simp at ht
      | live d =>
        rw [hab] at ht
        simp only [Option.some.injEq] at ht
        subst ht
        obtain ⟨a, rfl, hv⟩ := absArr_live hab
        obtain ⟨hd, hhd⟩ := arrOf_some_hdr hv
        have hmem : some a ∈ σ.arrs := List.mem_of_getElem? hp
        refine ⟨some a, hd, harr, hhd, ?_, ⟨(inv.arrs_lt a hmem).2, hp⟩⟩
        simp only [Option.getD_some, AState.dict, abs, List.getElem?_map, hp, Option.map_some, hab]
        exact hv

end XrlCrystals
