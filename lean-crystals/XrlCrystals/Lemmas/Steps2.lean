import XrlCrystals.Lemmas.Steps
/-!
# Step lemmas: `get`, `copy`
-/
namespace XrlCrystals
variable {α : Type} {bcap : Nat} [Inhabited α] (vol : Cell α → α)

/-- a call that failed without touching memory and stored NULL in the caller's table of objects -/
theorem push_null_obj {σ : CState α} (inv : Inv bcap σ) :
    Inv bcap ⟨σ.mem, σ.arrs, σ.objs ++ [none]⟩ ∧
      abs ⟨σ.mem, σ.arrs, σ.objs ++ [none]⟩ = { abs σ with objs := (abs σ).objs ++ [.null] } := by
  refine ⟨inv.push_obj inv.wf inv.files (Nat.le_refl _) none (fun o h => by cases h) (Nat.le_refl _) (fun a h hh => ⟨h, hh⟩)
    (fun o c hc => Or.inr ⟨c, hc⟩), ?_⟩
  exact AState.ext' rfl rfl (by simp [abs, absObj])

/-- a call that handed out a new copy denoting `v` -/
theorem push_copy {σ : CState α} (inv : Inv bcap σ) {m' : Mem α} {v : Crystal α} (post : CopyPost bcap σ.mem m' v) :
    Inv bcap ⟨m', σ.arrs, σ.objs ++ [some σ.mem.css.cells.length]⟩ ∧
      abs ⟨m', σ.arrs, σ.objs ++ [some σ.mem.css.cells.length]⟩ = { abs σ with objs := (abs σ).objs ++ [.live v] } := by
  constructor
  · refine inv.push_obj post.wf (post.files.trans inv.files) (by rw [post.hdrs]) _ ?_ (by rw [post.clen]; exact Nat.le_succ _) ?_ ?_
    · intro o ho; cases ho; exact ⟨Nat.le_refl _, by rw [post.clen]; exact Nat.lt_succ_self _⟩
    · intro a h hh; rw [post.hdrs] at hh; exact ⟨h, hh⟩
    · intro o c hc
      by_cases ho : o = σ.mem.css.cells.length
      · exact Or.inl (by rw [ho])
      · exact Or.inr ⟨c, (post.css_old o ho).symm.trans hc⟩
  · apply AState.ext'
    · simp only [abs, post.arr]
    · simp only [abs]; exact map_absArr_congr (fun a _ => post.arr a)
    · simp only [abs, List.map_append, List.map_cons, List.map_nil, absObj, post.obj_new]
      congr 1
      exact map_absObj_congr (fun o ho => post.obj_old o (Nat.ne_of_lt (inv.objs_lt o ho)))

theorem step_get {σ : CState α} (inv : Inv bcap σ) (arr : ARef) (name : Option String) {a' : AState α} {o : AOut}
    (hs : astep vol bcap (abs σ) (.get arr name) = some (a', o)) : StepOk vol bcap σ (.get arr name) a' o := by
  simp only [astep, Option.bind_eq_bind] at hs
  cases ht : (abs σ).target arr with
  | none => rw [ht] at hs; simp at hs
  | some t =>
    rw [ht] at hs
    simp only [Option.bind_some] at hs
    obtain ⟨p, hd, harr, hhd, hvs, _⟩ := target_corr inv ht
    cases name with
    | none =>
      simp only [Option.bind_none, Option.some.injEq, Prod.mk.injEq] at hs
      obtain ⟨rfl, rfl⟩ := hs
      obtain ⟨hinv, habs⟩ := push_null_obj inv
      exact ⟨_, ⟨.ptr false, _⟩, by simp only [cstep, harr, getCrystal_null, bind, Except.bind, pure, Except.pure]; rfl,
        ⟨rfl, rfl⟩, hinv, habs⟩
    | some s =>
      simp only [Option.bind_some, Dict.find] at hs
      have hspec := getCrystal_spec inv.wf p hhd hvs s
      cases hf : ((abs σ).dict t).items.find? (fun c => c.name == s) with
      | none =>
        rw [hf] at hs hspec
        simp only [Option.some.injEq, Prod.mk.injEq] at hs
        obtain ⟨rfl, rfl⟩ := hs
        obtain ⟨e, hrun⟩ := hspec
        obtain ⟨hinv, habs⟩ := push_null_obj inv
        exact ⟨_, ⟨.ptr false, some e⟩, by simp only [cstep, harr, hrun, bind, Except.bind, pure, Except.pure]; rfl,
          ⟨rfl, rfl⟩, hinv, habs⟩
      | some v =>
        rw [hf] at hs hspec
        simp only [Option.some.injEq, Prod.mk.injEq] at hs
        obtain ⟨rfl, rfl⟩ := hs
        obtain ⟨m', hrun, post⟩ := hspec
        obtain ⟨hinv, habs⟩ := push_copy inv post
        exact ⟨_, ⟨.ptr true, none⟩, by simp only [cstep, harr, hrun, bind, Except.bind, pure, Except.pure]; rfl,
          ⟨rfl, rfl⟩, hinv, habs⟩

/-- the crystal a `Src` denotes, concretely: `σ.src` gives the pointer; for a live handle the struct is live -/
theorem srcVal_obj {σ : CState α} (inv : Inv bcap σ) {j : Nat} {v : Option (Crystal α)}
    (h : (abs σ).srcVal (.obj j) = some v) :
    ∃ p, σ.obj j = .ok p ∧
      (match v with
       | none => p = none
       | some c => ∃ ob cs, p = some ob ∧ σ.mem.css.get? ob = some cs ∧ σ.mem.crystalOf cs = some c) := by
  simp only [AState.srcVal, abs, List.getElem?_map] at h
  cases hp : σ.objs[j]? with
  | none => rw [hp] at h; simp at h
  | some p =>
    rw [hp] at h
    simp only [Option.map_some] at h
    refine ⟨p, by simp [CState.obj, hp, pure, Except.pure], ?_⟩
    cases hab : absObj σ.mem p with
    | released => rw [hab] at h; simp at h
    | null =>
      rw [hab] at h
      simp only [Option.some.injEq] at h
      subst h
      exact absObj_null hab
    | live c =>
      rw [hab] at h
      simp only [Option.some.injEq] at h
      subst h
      obtain ⟨ob, rfl, hv⟩ := absObj_live hab
      obtain ⟨cs, hc, hcv⟩ := objOf_some_iff hv
      exact ⟨ob, cs, rfl, hc, hcv⟩

theorem makeCopy_null (m : Mem α) :
    Crystal_MakeCopy m none = .ok (m, none, some ⟨XRL_ERROR_INVALID_ARGUMENT, "Crystal cannot be NULL"⟩) := rfl

theorem step_copy {σ : CState α} (inv : Inv bcap σ) (src : Src α) {a' : AState α} {o : AOut}
    (hs : astep vol bcap (abs σ) (.copy src) = some (a', o)) : StepOk vol bcap σ (.copy src) a' o := by
  simp only [astep, Option.bind_eq_bind] at hs
  cases hv : (abs σ).srcVal src with
  | none => rw [hv] at hs; simp at hs
  | some v =>
    rw [hv] at hs
    simp only [Option.bind_some] at hs
    cases src with
    | null =>
      simp only [AState.srcVal, Option.some.injEq] at hv
      subst hv
      simp only [Option.some.injEq, Prod.mk.injEq] at hs
      obtain ⟨rfl, rfl⟩ := hs
      obtain ⟨hinv, habs⟩ := push_null_obj inv
      exact ⟨_, ⟨.ptr false, _⟩, by simp only [cstep, CState.src, makeCopy_null, free_null, bind, Except.bind, pure, Except.pure]; rfl,
        ⟨rfl, rfl⟩, hinv, habs⟩
    | obj j =>
      obtain ⟨p, hobj, hp⟩ := srcVal_obj inv hv
      cases v with
      | none =>
        simp only at hp
        subst hp
        simp only [Option.some.injEq, Prod.mk.injEq] at hs
        obtain ⟨rfl, rfl⟩ := hs
        obtain ⟨hinv, habs⟩ := push_null_obj inv
        exact ⟨_, ⟨.ptr false, _⟩, by simp only [cstep, CState.src, hobj, Option.map_none, makeCopy_null, free_null, bind, Except.bind, pure, Except.pure]; rfl,
          ⟨rfl, rfl⟩, hinv, habs⟩
      | some c =>
        simp only at hp
        obtain ⟨ob, cs, rfl, hc, hcv⟩ := hp
        simp only [Option.some.injEq, Prod.mk.injEq] at hs
        obtain ⟨rfl, rfl⟩ := hs
        obtain ⟨hrun, post⟩ := makeCopy_spec inv.wf (p := .obj ob) hc hcv
        obtain ⟨hinv, habs⟩ := push_copy inv post
        exact ⟨_, ⟨.ptr true, none⟩, by simp only [cstep, CState.src, hobj, Option.map_some, hrun, free_null, bind, Except.bind, pure, Except.pure]; rfl,
          ⟨rfl, rfl⟩, hinv, habs⟩
    | lit c =>
      simp only [AState.srcVal, Option.some.injEq] at hv
      subst hv
      simp only [Option.some.injEq, Prod.mk.injEq] at hs
      obtain ⟨rfl, rfl⟩ := hs
      -- literal built, copied, released
      obtain ⟨hmk, cp1⟩ := mkObj_spec inv.wf c
      have htmp : ∃ tc, (σ.mem.withCopy ⟨0, c.cell, c.volume, c.atoms.length, 0⟩ c).css.get? σ.mem.css.cells.length = some tc ∧
          (σ.mem.withCopy ⟨0, c.cell, c.volume, c.atoms.length, 0⟩ c).crystalOf tc = some c := objOf_some_iff cp1.obj_new
      obtain ⟨tc, htc, htcv⟩ := htmp
      obtain ⟨hrun2, cp2⟩ := makeCopy_spec cp1.wf (p := .obj σ.mem.css.cells.length) htc htcv
      have hne : σ.mem.css.cells.length ≠ (σ.mem.withCopy ⟨0, c.cell, c.volume, c.atoms.length, 0⟩ c).css.cells.length := by
        rw [cp1.clen]; exact Nat.ne_of_lt (Nat.lt_succ_self _)
      have htc2 : ((σ.mem.withCopy ⟨0, c.cell, c.volume, c.atoms.length, 0⟩ c).withCopy tc c).css.get? σ.mem.css.cells.length = some tc := by
        rw [cp2.css_old _ hne]; exact htc
      obtain ⟨hrun3, fp⟩ := free_spec cp2.wf htc2
      refine ⟨⟨((σ.mem.withCopy ⟨0, c.cell, c.volume, c.atoms.length, 0⟩ c).withCopy tc c).withoutObj σ.mem.css.cells.length tc, σ.arrs, σ.objs ++ [some (σ.mem.css.cells.length + 1)]⟩, ⟨.ptr true, none⟩, ?_, ⟨rfl, rfl⟩, ?_, ?_⟩
      · simp only [cstep, CState.src, hmk, bind, Except.bind, pure, Except.pure, hrun2, hrun3, cp1.clen]
        rfl
      · refine inv.push_obj fp.wf (by rw [fp.files, cp2.files, cp1.files]; exact inv.files) (by rw [fp.hdrs, cp2.hdrs, cp1.hdrs]) _ ?_
          (by rw [fp.clen, cp2.clen, cp1.clen]; omega) ?_ ?_
        · intro o ho; cases ho; exact ⟨Nat.le_succ _, by rw [fp.clen, cp2.clen, cp1.clen]; omega⟩
        · intro a h hh; rw [fp.hdrs, cp2.hdrs, cp1.hdrs] at hh; exact ⟨h, hh⟩
        · intro o cc hcc
          by_cases ho : o = σ.mem.css.cells.length
          · subst ho; rw [fp.css_o] at hcc; cases hcc
          · rw [fp.css_other o ho] at hcc
            by_cases ho2 : o = σ.mem.css.cells.length + 1
            · exact Or.inl (by rw [ho2])
            · rw [cp2.css_old o (by rw [cp1.clen]; exact ho2), cp1.css_old o ho] at hcc
              exact Or.inr ⟨cc, hcc⟩
      · have hnew : (σ.mem.css.cells.length + 1) ≠ σ.mem.css.cells.length := Nat.succ_ne_self _
        apply AState.ext'
        · simp only [abs, fp.arr, cp2.arr, cp1.arr]
        · simp only [abs]; exact map_absArr_congr (fun a _ => by rw [fp.arr, cp2.arr, cp1.arr])
        · simp only [abs, List.map_append, List.map_cons, List.map_nil, absObj]
          have : (((σ.mem.withCopy ⟨0, c.cell, c.volume, c.atoms.length, 0⟩ c).withCopy tc c).withoutObj σ.mem.css.cells.length tc).objOf
              (σ.mem.css.cells.length + 1) = some c := by
            rw [fp.obj_other _ hnew]
            have := cp2.obj_new
            rw [cp1.clen] at this
            exact this
          rw [this]
          congr 1
          apply map_absObj_congr
          intro o ho
          have hlt := inv.objs_lt o ho
          rw [fp.obj_other o (Nat.ne_of_lt hlt), cp2.obj_old o (by rw [cp1.clen]; omega), cp1.obj_old o (Nat.ne_of_lt hlt)]

end XrlCrystals
