import XrlCrystals.Lemmas.Arrays2
/-!
# `Crystal_GetCrystalsList` and the documented release of its result; `Crystal_GetCrystal`
-/
namespace XrlCrystals
variable {α : Type} {bcap : Nat} {m : Mem α}

theorem dupAll_eq (s : Store String) (names : List String) :
    dupAll s names = (⟨s.cells ++ names.map some⟩, List.range' s.cells.length names.length) := by
  induction names generalizing s with
  | nil => simp [dupAll]
  | cons x xs ih =>
    unfold dupAll
    simp only [ih, Store.alloc_cells, Store.alloc_snd, List.length_append, List.length_cons, List.length_nil, List.map_cons,
      List.append_assoc, List.singleton_append, List.range'_succ]

theorem get?_appended (s : Store String) (names : List String) (x : Nat) :
    (⟨s.cells ++ names.map some⟩ : Store String).get? x =
      if x < s.cells.length then s.get? x else names[x - s.cells.length]? := by
  unfold Store.get?
  by_cases hx : x < s.cells.length
  · simp [hx, List.getElem?_append_left hx]
  · simp only [hx, if_false]
    rw [List.getElem?_append_right (Nat.le_of_not_lt hx), List.getElem?_map]
    cases names[x - s.cells.length]? <;> rfl

theorem mapM_get_appended (pre : List (Option String)) (names : List String) :
    (List.range' pre.length names.length).mapM (fun p => (⟨pre ++ names.map some⟩ : Store String).get p) = .ok names := by
  induction names generalizing pre with
  | nil => rfl
  | cons x xs ih =>
    have hx : (⟨pre ++ some x :: xs.map some⟩ : Store String).get? pre.length = some x := by
      simp [Store.get?]
    have := ih (pre ++ [some x])
    simp only [List.length_append, List.length_cons, List.length_nil, List.append_assoc, List.singleton_append] at this
    simp only [List.length_cons, List.range'_succ, List.mapM_cons, List.map_cons]
    rw [Store.get_ok hx, this]; rfl

theorem freeAll_ok {s : Store String} {L : List Nat} (hn : L.Nodup) (hl : ∀ p ∈ L, ∃ v, s.get? p = some v) :
    freeAll s L = .ok (s.freeMany L) := by
  induction L generalizing s with
  | nil => rfl
  | cons p L ih =>
    obtain ⟨v, hv⟩ := hl p List.mem_cons_self
    rw [List.nodup_cons] at hn
    unfold freeAll
    simp only [Store.free_ok' hv, bind, Except.bind]
    rw [ih hn.2]
    · rfl
    · intro q hq
      obtain ⟨w, hw⟩ := hl q (List.mem_cons_of_mem _ hq)
      exact ⟨w, by rw [Store.get?_upd_ne _ _ (fun h : q = p => hn.1 (by rw [← h]; exact hq))]; exact hw⟩

/-- a memory that differs only by dead strings and dead listings is as well-formed and denotes the same -/
theorem WF.of_strs_ext {m' : Mem α} (w : WF bcap m) (h1 : m'.hdrs = m.hdrs) (h2 : m'.bufs = m.bufs) (h3 : m'.atms = m.atms)
    (h4 : m'.css = m.css) (h5 : ∀ x, m'.strs.get? x = m.strs.get? x) (h6 : ∀ v, m'.vecs.get? v = none) :
    WF bcap m' ∧ (∀ a, m'.arrOf a = m.arrOf a) ∧ (∀ o, m'.objOf o = m.objOf o) := by
  have harr : ∀ a, m'.arrOf a = m.arrOf a :=
    Mem.arrOf_frame h1 h2 (fun _ _ c _ _ => ⟨h5 c.name, by rw [h3]⟩)
  have hcells : m'.cellsM = m.cellsM := by unfold Mem.cellsM; rw [h2, h4]
  refine ⟨⟨by rw [h1]; exact w.h0, ?_, by rw [h1]; exact w.buf_inj, ?_, ?_, ?_, ?_, ?_, h6⟩, harr, ?_⟩
  · intro a h hh
    rw [h1] at hh
    have := w.hdr_ok a h hh
    unfold Mem.HdrOK at this ⊢
    rw [h2]; exact this
  · rw [h1, h2]; exact w.buf_owned
  · rw [hcells, w.names]; exact (Store.domM_congr (fun a => by rw [h5 a])).symm
  · rw [hcells, w.atoms, h3]
  · intro c hc; rw [hcells] at hc; rw [h3]; exact w.natom c hc
  · intro a vs hv; rw [harr] at hv; exact w.sorted a vs hv
  · intro o
    exact Mem.objOf_frame (by rw [h4]) (fun c _ => ⟨h5 c.name, by rw [h3]⟩)

structure SamePost (bcap : Nat) (m m' : Mem α) : Prop where
  wf : WF bcap m'
  arr : ∀ a, m'.arrOf a = m.arrOf a
  obj : ∀ o, m'.objOf o = m.objOf o
  hdrs : m'.hdrs = m.hdrs
  css : m'.css = m.css
  files : m'.files = m.files

/-- listing a live collection and releasing the listing -/
theorem list_spec (w : WF bcap m) (arr : Option Nat) {h : Hdr} (hh : m.hdrs.get? (arr.getD 0) = some h)
    {vs : List (Crystal α)} (hv : m.arrOf (arr.getD 0) = some vs) :
    ∃ m1 v, Crystal_GetCrystalsList m arr = .ok (m1, some v, vs.length, none) ∧
      ∃ m2, releaseList m1 v = .ok (m2, vs.map (·.name)) ∧ SamePost bcap m m2 := by
  obtain ⟨cs, vs', h1, h2, h3, h4, _⟩ := slotsOf_spec w hh
  have : vs' = vs := by rw [hv] at h3; cases h3; rfl
  subst this
  have hlen : h.n_crystal = vs'.length := by rw [Mem.cellsOf_length h2, h4]
  let names := vs'.map (·.name)
  let S : Store String := ⟨m.strs.cells ++ names.map some⟩
  let ps := List.range' m.strs.cells.length names.length
  refine ⟨{ m with strs := S, vecs := (m.vecs.alloc ps).1 }, m.vecs.cells.length, ?_,
    { m with strs := S.freeMany ps, vecs := (m.vecs.alloc ps).1.upd m.vecs.cells.length none }, ?_, ?_⟩
  · unfold Crystal_GetCrystalsList
    simp only [Store.get_ok hh, h1, Mem.namesOf_of_cellsOf h2, dupAll_eq, bind, Except.bind, pure, Except.pure, hlen]
    rfl
  · have hlive : ∀ p ∈ ps, ∃ v, S.get? p = some v := by
      intro p hp
      obtain ⟨hp1, hp2⟩ := List.mem_range'_1.mp hp
      rw [get?_appended]
      simp only [Nat.not_lt.mpr hp1, if_false]
      have : p - m.strs.cells.length < names.length := by omega
      exact ⟨names[p - m.strs.cells.length], List.getElem?_eq_getElem this⟩
    unfold releaseList
    simp only [Store.get_ok (Store.get?_alloc_new m.vecs ps), bind, Except.bind]
    have hm : List.mapM (fun p => S.get p) ps = .ok names := mapM_get_appended m.strs.cells names
    have hfa : freeAll S ps = .ok (S.freeMany ps) := freeAll_ok List.nodup_range' hlive
    simp only [hm, hfa, Store.free_ok' (Store.get?_alloc_new m.vecs ps), pure, Except.pure]
    rfl
  · have hstr : ∀ x, (S.freeMany ps).get? x = m.strs.get? x := by
      intro x
      rw [Store.get?_freeMany, get?_appended]
      by_cases hx : x < m.strs.cells.length
      · have : x ∉ ps := fun hp => by have := (List.mem_range'_1.mp hp).1; omega
        simp [this, hx]
      · by_cases hp : x ∈ ps
        · simp [hp, Store.get?_ge (Nat.le_of_not_lt hx)]
        · have hge : ¬ x < m.strs.cells.length + names.length := fun hlt => hp (List.mem_range'_1.mpr ⟨Nat.le_of_not_lt hx, hlt⟩)
          simp only [hp, hx, if_false]
          rw [Store.get?_ge (Nat.le_of_not_lt hx), List.getElem?_eq_none (by omega)]
    have hvec : ∀ v, ((m.vecs.alloc ps).1.upd m.vecs.cells.length none).get? v = none := by
      intro v
      rw [Store.get?_upd_none]
      by_cases hv : v = m.vecs.cells.length
      · simp [hv]
      · simp only [hv, if_false]; rw [Store.get?_alloc]; simp [hv, w.vecs v]
    obtain ⟨w', ha, ho⟩ := w.of_strs_ext (m' := { m with strs := S.freeMany ps, vecs := (m.vecs.alloc ps).1.upd m.vecs.cells.length none })
      rfl rfl rfl rfl hstr hvec
    exact ⟨w', ha, ho, rfl, rfl, rfl⟩

/-! ### `Crystal_GetCrystal` -/

theorem getCrystal_null (m : Mem α) (arr : Option Nat) :
    Crystal_GetCrystal m none arr = .ok (m, none, some ⟨XRL_ERROR_INVALID_ARGUMENT, "Crystal cannot be NULL"⟩) := rfl

theorem getCrystal_spec (w : WF bcap m) (arr : Option Nat) {h : Hdr} (hh : m.hdrs.get? (arr.getD 0) = some h)
    {vs : List (Crystal α)} (hv : m.arrOf (arr.getD 0) = some vs) (s : String) :
    match vs.find? (fun c => c.name == s) with
    | none => ∃ e, Crystal_GetCrystal m (some s) arr = .ok (m, none, some e)
    | some v => ∃ m', Crystal_GetCrystal m (some s) arr = .ok (m', some m.css.cells.length, none) ∧ CopyPost bcap m m' v := by
  have hf := find_spec w hh hv s
  have hi := findIdx_names vs s
  obtain ⟨cs, vs', h1, h2, h3, h4, h5, h6⟩ := slotsOf_spec w hh
  have : vs' = vs := by rw [hv] at h3; cases h3; rfl
  subst this
  cases hidx : (vs'.map (·.name)).findIdx? (· == s) with
  | none =>
    rw [hidx] at hi hf
    rw [hi]
    refine ⟨⟨XRL_ERROR_INVALID_ARGUMENT, "Crystal " ++ s ++ " is not present in array"⟩, ?_⟩
    unfold Crystal_GetCrystal
    simp only [hf, bind, Except.bind, pure, Except.pure]
  | some i =>
    rw [hidx] at hi hf
    obtain ⟨v, hvi, hfind⟩ := hi
    rw [hfind]
    have hilt : i < vs'.length := (List.getElem?_eq_some_iff.mp hvi).1
    cases hc : h.crystal with
    | none =>
      rw [hc] at h6; subst h6
      have := Mem.cellsOf_length h2
      simp at this; rw [this] at hilt; simp at hilt
    | some b =>
      rw [hc] at h6
      obtain ⟨bf, hb, hbs⟩ := h6
      subst hbs
      obtain ⟨_, _, hcap, hsl, hle⟩ := w.buf_live hh hc
      have hlen := Mem.cellsOf_length h2
      have hi' : i < bf.slots.length := by omega
      obtain ⟨v', hv1, hv2⟩ := Mem.cellsOf_getElem h2 (List.getElem?_eq_getElem hi')
      have : v' = v := by rw [hvi] at hv1; cases hv1; rfl
      subst this
      have hloc : m.loc (.slot b i) = some bf.slots[i] := by
        rw [Mem.loc_slot, hb]
        have : bf = bf := rfl
        have hcap' : i < bf.cap := by
          have := w.buf_live hh hc
          obtain ⟨bf', hb', hc1, hc2, hc3⟩ := this
          have : bf' = bf := by rw [hb] at hb'; cases hb'; rfl
          subst this; omega
        simp [hcap', List.getElem?_eq_getElem hi']
      obtain ⟨hmc, hpost⟩ := makeCopy_spec w hloc hv2
      refine ⟨_, ?_, hpost⟩
      unfold Crystal_GetCrystal
      simp only [hf, bind, Except.bind, Store.get_ok hh, hc, hmc]

end XrlCrystals
