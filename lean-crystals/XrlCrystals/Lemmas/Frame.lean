import XrlCrystals.Lemmas.Add
/-!
# Frames: what a call leaves alone

`Frame bcap m m' t`: the memory `m'` after a call that may have changed at most the collection `t`
(`none`: no collection) — well-formed, every other collection, every handed-out copy, every other header and
vector as before; no new live header, no new live single struct; open files as before.
-/
namespace XrlCrystals
variable {α : Type} {bcap : Nat} {m m' m'' : Mem α}

structure Frame (bcap : Nat) (m m' : Mem α) (T : Nat → Prop) : Prop where
  wf : WF bcap m'
  arr : ∀ x, ¬ T x → m'.arrOf x = m.arrOf x
  obj : ∀ o, o < m.css.cells.length → m'.objOf o = m.objOf o
  css_old : ∀ o, o < m.css.cells.length → m'.css.get? o = m.css.get? o
  css_new : ∀ o, m.css.cells.length ≤ o → m'.css.get? o = none
  hdr_live : ∀ x, (m'.hdrs.get? x).isSome = (m.hdrs.get? x).isSome
  hdr_other : ∀ x, ¬ T x → m'.hdrs.get? x = m.hdrs.get? x
  buf_other : ∀ x hx b, ¬ T x → m.hdrs.get? x = some hx → hx.crystal = some b → m'.bufs.get? b = m.bufs.get? b
  hlen : m.hdrs.cells.length ≤ m'.hdrs.cells.length
  clen : m.css.cells.length ≤ m'.css.cells.length
  files : m'.files = m.files

theorem Frame.refl (w : WF bcap m) (T : Nat → Prop) : Frame bcap m m T :=
  ⟨w, fun _ _ => rfl, fun _ _ => rfl, fun _ _ => rfl, fun o ho => Store.get?_ge ho, fun _ => rfl, fun _ _ => rfl,
    fun _ _ _ _ _ _ => rfl, Nat.le_refl _, Nat.le_refl _, rfl⟩

theorem Frame.trans {T : Nat → Prop} (f : Frame bcap m m' T) (g : Frame bcap m' m'' T) : Frame bcap m m'' T := by
  refine ⟨g.wf, fun x hx => (g.arr x hx).trans (f.arr x hx), ?_, ?_, ?_, fun x => (g.hdr_live x).trans (f.hdr_live x),
    fun x hx => (g.hdr_other x hx).trans (f.hdr_other x hx), ?_, Nat.le_trans f.hlen g.hlen, Nat.le_trans f.clen g.clen,
    g.files.trans f.files⟩
  · intro o ho; exact (g.obj o (Nat.lt_of_lt_of_le ho f.clen)).trans (f.obj o ho)
  · intro o ho; exact (g.css_old o (Nat.lt_of_lt_of_le ho f.clen)).trans (f.css_old o ho)
  · intro o ho
    by_cases h : o < m'.css.cells.length
    · rw [g.css_old o h]; exact f.css_new o ho
    · exact g.css_new o (Nat.le_of_not_lt h)
  · intro x hx b hxt hgx hcx
    rw [g.buf_other x hx b hxt ((f.hdr_other x hxt).trans hgx) hcx]
    exact f.buf_other x hx b hxt hgx hcx

/-- a frame for fewer collections is a frame for more -/
theorem Frame.weaken {T T' : Nat → Prop} (f : Frame bcap m m' T) (h : ∀ x, T x → T' x) : Frame bcap m m' T' :=
  ⟨f.wf, fun x hx => f.arr x (fun ht => hx (h x ht)), f.obj, f.css_old, f.css_new, f.hdr_live,
    fun x hx => f.hdr_other x (fun ht => hx (h x ht)), fun x hx b hxt => f.buf_other x hx b (fun ht => hxt (h x ht)),
    f.hlen, f.clen, f.files⟩

theorem AddPost.frame {a : Nat} {vs' : List (Crystal α)} (p : AddPost bcap m m' a vs') : Frame bcap m m' (· = a) :=
  ⟨p.wf, p.arr_other, p.obj, p.css_old, p.css_new, p.hdr_live, p.hdr_other, p.buf_other,
    Nat.le_of_eq p.hlen.symm, p.clen, p.files⟩

/-- building a literal and releasing it again: nothing changed -/
theorem copy_free_frame (w : WF bcap m) {m1 m2 : Mem α} {v : Crystal α} (cp : CopyPost bcap m m1 v)
    (fp : FreePost bcap m1 m2 m.css.cells.length) : Frame bcap m m2 (fun _ => False) := by
  refine ⟨fp.wf, fun x _ => (fp.arr x).trans (cp.arr x), ?_, ?_, ?_, by rw [fp.hdrs, cp.hdrs]; exact fun _ => rfl,
    by rw [fp.hdrs, cp.hdrs]; exact fun _ _ => rfl, by rw [fp.bufs, cp.bufs]; exact fun _ _ _ _ _ _ => rfl,
    by rw [fp.hdrs, cp.hdrs], by rw [fp.clen, cp.clen]; exact Nat.le_succ _, fp.files.trans cp.files⟩
  · intro o ho
    have hne : o ≠ m.css.cells.length := Nat.ne_of_lt ho
    exact (fp.obj_other o hne).trans (cp.obj_old o hne)
  · intro o ho
    have hne : o ≠ m.css.cells.length := Nat.ne_of_lt ho
    exact (fp.css_other o hne).trans (cp.css_old o hne)
  · intro o ho
    by_cases hne : o = m.css.cells.length
    · subst hne; exact fp.css_o
    · rw [fp.css_other o hne]; apply Store.get?_ge; rw [cp.clen]; omega

/-- the condition under which `Crystal_AddCrystal` refuses a crystal named `n` for the collection behind header `h` -/
def refuses (a : Nat) (h : Hdr) (vs : List (Crystal α)) (n : String) : Prop :=
  n ∈ vs.map (·.name) ∨ (a = 0 ∧ h.n_crystal = h.n_alloc)

/-- the caller's literal crystal: built on the heap, added, released -/
theorem addLit_spec (vol : Cell α → α) (w : WF bcap m) (arr : Option Nat) {h : Hdr} (hh : m.hdrs.get? (arr.getD 0) = some h)
    {vs : List (Crystal α)} (hvs : m.arrOf (arr.getD 0) = some vs) (c : Crystal α) :
    ∃ r e m2 m3 vs', Crystal_AddCrystal vol (mkObj m c).1 (some (.obj (mkObj m c).2)) arr = .ok (m2, r, e) ∧
      Crystal_Free m2 (some (mkObj m c).2) = .ok m3 ∧ Frame bcap m m3 (· = arr.getD 0) ∧ m3.arrOf (arr.getD 0) = some vs' ∧
      (refuses (arr.getD 0) h vs c.name → r = 0 ∧ e.isSome = true ∧ vs' = vs) ∧
      (¬ refuses (arr.getD 0) h vs c.name → r = 1 ∧ e = none ∧ vs' = Dict.ins { c with volume := vol c.cell } vs) := by
  obtain ⟨hmk, cp⟩ := mkObj_spec w c
  rw [hmk]
  simp only
  have htmp : ∃ tc, (m.withCopy ⟨0, c.cell, c.volume, c.atoms.length, 0⟩ c).css.get? m.css.cells.length = some tc ∧
      (m.withCopy ⟨0, c.cell, c.volume, c.atoms.length, 0⟩ c).crystalOf tc = some c := by
    have := cp.obj_new
    unfold Mem.objOf at this
    cases hg : (m.withCopy ⟨0, c.cell, c.volume, c.atoms.length, 0⟩ c).css.get? m.css.cells.length with
    | none => rw [hg] at this; cases this
    | some tc => rw [hg] at this; exact ⟨tc, rfl, this⟩
  obtain ⟨tc, htc, htcv⟩ := htmp
  have hh1 : (m.withCopy ⟨0, c.cell, c.volume, c.atoms.length, 0⟩ c).hdrs.get? (arr.getD 0) = some h := by rw [cp.hdrs]; exact hh
  have hvs1 : (m.withCopy ⟨0, c.cell, c.volume, c.atoms.length, 0⟩ c).arrOf (arr.getD 0) = some vs := by rw [cp.arr]; exact hvs
  have hspec := addCrystal_spec vol cp.wf arr hh1 hvs1 (p := .obj m.css.cells.length) htc htcv (fun _ _ h => by cases h)
  by_cases hdup : c.name ∈ vs.map (·.name)
  · rw [if_pos hdup] at hspec
    obtain ⟨e, he⟩ := hspec
    obtain ⟨hfree, fp⟩ := free_spec cp.wf htc
    refine ⟨0, some e, _, _, vs, he, hfree, (copy_free_frame w cp fp).weaken (fun _ h => h.elim), by rw [fp.arr, cp.arr]; exact hvs,
      fun _ => ⟨rfl, rfl, rfl⟩, fun hn => absurd (Or.inl hdup) hn⟩
  · rw [if_neg hdup] at hspec
    by_cases hfull : arr.getD 0 = 0 ∧ h.n_crystal = h.n_alloc
    · rw [if_pos hfull] at hspec
      obtain ⟨e, he⟩ := hspec
      obtain ⟨hfree, fp⟩ := free_spec cp.wf htc
      refine ⟨0, some e, _, _, vs, he, hfree, (copy_free_frame w cp fp).weaken (fun _ h => h.elim), by rw [fp.arr, cp.arr]; exact hvs,
        fun _ => ⟨rfl, rfl, rfl⟩, fun hn => absurd (Or.inr hfull) hn⟩
    · rw [if_neg hfull] at hspec
      obtain ⟨m2, hadd, ap⟩ := hspec
      have htc2 : m2.css.get? m.css.cells.length = some tc := by
        rw [ap.css_old _ (by rw [cp.clen]; exact Nat.lt_succ_self _)]; exact htc
      obtain ⟨hfree, fp⟩ := free_spec ap.wf htc2
      refine ⟨1, none, m2, _, _, hadd, hfree, ?_, by rw [fp.arr]; exact ap.arr_a,
        fun hr => absurd hr (by unfold refuses; tauto), fun _ => ⟨rfl, rfl, rfl⟩⟩
      -- compose: literal built, crystal added, literal released
      refine ⟨fp.wf, ?_, ?_, ?_, ?_, ?_, ?_, ?_, ?_, ?_, ?_⟩
      · intro x hx; rw [fp.arr, ap.arr_other x hx, cp.arr]
      · intro o ho
        have hne : o ≠ m.css.cells.length := Nat.ne_of_lt ho
        rw [fp.obj_other o hne, ap.obj o (by rw [cp.clen]; omega), cp.obj_old o hne]
      · intro o ho
        have hne : o ≠ m.css.cells.length := Nat.ne_of_lt ho
        rw [fp.css_other o hne, ap.css_old o (by rw [cp.clen]; omega), cp.css_old o hne]
      · intro o ho
        by_cases hne : o = m.css.cells.length
        · subst hne; exact fp.css_o
        · rw [fp.css_other o hne]; exact ap.css_new o (by rw [cp.clen]; omega)
      · intro x; rw [fp.hdrs, ap.hdr_live, cp.hdrs]
      · intro x hx; rw [fp.hdrs, ap.hdr_other x hx, cp.hdrs]
      · intro x hx b hxt hgx hcx
        rw [fp.bufs, ap.buf_other x hx b hxt (by rw [cp.hdrs]; exact hgx) hcx, cp.bufs]
      · rw [fp.hdrs, ap.hlen, cp.hdrs]
      · rw [fp.clen]; exact Nat.le_trans (by rw [cp.clen]; exact Nat.le_succ _) ap.clen
      · rw [fp.files, ap.files, cp.files]

end XrlCrystals
