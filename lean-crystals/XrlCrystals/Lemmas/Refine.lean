import XrlCrystals.Lemmas.Abs
/-!
# Building blocks of the step refinement: the invariant and the abstraction map after a call
-/
namespace XrlCrystals
variable {α : Type} {bcap : Nat}

/-- the invariant after a call that created no new live header and no new live single struct -/
theorem Inv.same_tables {σ : CState α} (inv : Inv bcap σ) {m' : Mem α} (wf' : WF bcap m') (hf : m'.files = 0)
    (hl : σ.mem.hdrs.cells.length ≤ m'.hdrs.cells.length) (cl : σ.mem.css.cells.length ≤ m'.css.cells.length)
    (hk : ∀ a h, m'.hdrs.get? a = some h → ∃ h0, σ.mem.hdrs.get? a = some h0)
    (ck : ∀ o c, m'.css.get? o = some c → ∃ c0, σ.mem.css.get? o = some c0) :
    Inv bcap ⟨m', σ.arrs, σ.objs⟩ :=
  ⟨wf', hf, fun a ha => ⟨Nat.lt_of_lt_of_le (inv.arrs_lt a ha).1 hl, (inv.arrs_lt a ha).2⟩, inv.arrs_inj,
    fun o ho => Nat.lt_of_lt_of_le (inv.objs_lt o ho) cl, inv.objs_inj,
    fun a h hh => by obtain ⟨h0, hh0⟩ := hk a h hh; exact inv.hdr_known a h0 hh0,
    fun o c hc => by obtain ⟨c0, hc0⟩ := ck o c hc; exact inv.css_known o c0 hc0⟩

theorem Inv.of_frame {σ : CState α} (inv : Inv bcap σ) {m' : Mem α} {T : Nat → Prop} (f : Frame bcap σ.mem m' T) :
    Inv bcap ⟨m', σ.arrs, σ.objs⟩ := by
  refine inv.same_tables f.wf (f.files.trans inv.files) f.hlen f.clen ?_ ?_
  · intro a h hh
    have := f.hdr_live a; rw [hh] at this
    exact Option.isSome_iff_exists.mp this.symm
  · intro o c hc
    by_cases ho : o < σ.mem.css.cells.length
    · exact ⟨c, (f.css_old o ho).symm.trans hc⟩
    · rw [f.css_new o (Nat.le_of_not_lt ho)] at hc; cases hc

/-- pushing a new entry onto a table of distinct, bounded addresses -/
theorem push_inj {l : List (Option Nat)} {n : Nat} (hlt : ∀ a, some a ∈ l → a < n)
    (hinj : ∀ (i j a : Nat), l[i]? = some (some a) → l[j]? = some (some a) → i = j) (p : Option Nat)
    (hp : ∀ a, p = some a → n ≤ a) :
    ∀ (i j a : Nat), (l ++ [p])[i]? = some (some a) → (l ++ [p])[j]? = some (some a) → i = j := by
  have key : ∀ (i a : Nat), (l ++ [p])[i]? = some (some a) → (i < l.length ∧ l[i]? = some (some a)) ∨ (i = l.length ∧ n ≤ a) := by
    intro i a h
    by_cases hi : i < l.length
    · rw [List.getElem?_append_left hi] at h; exact Or.inl ⟨hi, h⟩
    · rw [List.getElem?_append_right (Nat.le_of_not_lt hi)] at h
      have : i - l.length = 0 := by
        by_contra hne
        rw [List.getElem?_eq_none (by simp; omega)] at h; cases h
      rw [this] at h
      simp only [List.getElem?_cons_zero, Option.some.injEq] at h
      exact Or.inr ⟨by omega, hp a h⟩
  intro i j a hi hj
  rcases key i a hi with ⟨_, h1⟩ | ⟨h1, h1'⟩ <;> rcases key j a hj with ⟨_, h2⟩ | ⟨h2, h2'⟩
  · exact hinj i j a h1 h2
  · exfalso; have := hlt a (List.mem_of_getElem? h1); omega
  · exfalso; have := hlt a (List.mem_of_getElem? h2); omega
  · omega

/-- the invariant after a call that handed out (at most) one new struct -/
theorem Inv.push_obj {σ : CState α} (inv : Inv bcap σ) {m' : Mem α} (wf' : WF bcap m') (hf : m'.files = 0)
    (hl : σ.mem.hdrs.cells.length ≤ m'.hdrs.cells.length) (p : Option Nat)
    (hp : ∀ o, p = some o → σ.mem.css.cells.length ≤ o ∧ o < m'.css.cells.length)
    (cl : σ.mem.css.cells.length ≤ m'.css.cells.length)
    (hk : ∀ a h, m'.hdrs.get? a = some h → ∃ h0, σ.mem.hdrs.get? a = some h0)
    (ck : ∀ o c, m'.css.get? o = some c → p = some o ∨ ∃ c0, σ.mem.css.get? o = some c0) :
    Inv bcap ⟨m', σ.arrs, σ.objs ++ [p]⟩ := by
  refine ⟨wf', hf, fun a ha => ⟨Nat.lt_of_lt_of_le (inv.arrs_lt a ha).1 hl, (inv.arrs_lt a ha).2⟩, inv.arrs_inj, ?_,
    push_inj inv.objs_lt inv.objs_inj p (fun o ho => (hp o ho).1),
    fun a h hh => by obtain ⟨h0, hh0⟩ := hk a h hh; exact inv.hdr_known a h0 hh0, ?_⟩
  · intro o ho
    rw [List.mem_append, List.mem_singleton] at ho
    rcases ho with ho | ho
    · exact Nat.lt_of_lt_of_le (inv.objs_lt o ho) cl
    · exact (hp o ho.symm).2
  · intro o c hc
    rw [List.mem_append, List.mem_singleton]
    rcases ck o c hc with h | ⟨c0, hc0⟩
    · exact Or.inr h.symm
    · exact Or.inl (inv.css_known o c0 hc0)

/-- the invariant after `Crystal_ArrayInit` -/
theorem Inv.push_arr {σ : CState α} (inv : Inv bcap σ) {m' : Mem α} (wf' : WF bcap m') (hf : m'.files = 0)
    (cl : σ.mem.css.cells.length ≤ m'.css.cells.length) (p : Option Nat)
    (hp : ∀ a, p = some a → σ.mem.hdrs.cells.length ≤ a ∧ a < m'.hdrs.cells.length)
    (hl : σ.mem.hdrs.cells.length ≤ m'.hdrs.cells.length)
    (hk : ∀ a h, m'.hdrs.get? a = some h → p = some a ∨ ∃ h0, σ.mem.hdrs.get? a = some h0)
    (ck : ∀ o c, m'.css.get? o = some c → ∃ c0, σ.mem.css.get? o = some c0) :
    Inv bcap ⟨m', σ.arrs ++ [p], σ.objs⟩ := by
  obtain ⟨n0, hn0⟩ := inv.wf.h0
  have h0lt := Store.get?_lt hn0
  refine ⟨wf', hf, ?_, push_inj (fun a ha => (inv.arrs_lt a ha).1) inv.arrs_inj p (fun a ha => (hp a ha).1),
    fun o ho => Nat.lt_of_lt_of_le (inv.objs_lt o ho) cl, inv.objs_inj, ?_,
    fun o c hc => by obtain ⟨c0, hc0⟩ := ck o c hc; exact inv.css_known o c0 hc0⟩
  · intro a ha
    rw [List.mem_append, List.mem_singleton] at ha
    rcases ha with ha | ha
    · exact ⟨Nat.lt_of_lt_of_le (inv.arrs_lt a ha).1 hl, (inv.arrs_lt a ha).2⟩
    · obtain ⟨h1, h2⟩ := hp a ha.symm
      exact ⟨h2, by omega⟩
  · intro a h hh
    rw [List.mem_append, List.mem_singleton]
    rcases hk a h hh with h' | ⟨h0, hh0⟩
    · exact Or.inr (Or.inr h'.symm)
    · rcases inv.hdr_known a h0 hh0 with h' | h'
      · exact Or.inl h'
      · exact Or.inr (Or.inl h')

/-! ### the abstraction map after a call -/

theorem AState.ext' {s t : AState α} (h1 : s.builtin.items = t.builtin.items) (h2 : s.arrs = t.arrs) (h3 : s.objs = t.objs) : s = t := by
  cases s with | mk b a o => cases t with | mk b' a' o' =>
  cases b; cases b'
  simp only at h1 h2 h3
  subst h1; subst h2; subst h3; rfl

theorem abs_builtin (σ : CState α) : (abs σ).builtin.items = (σ.mem.arrOf 0).getD [] := rfl
theorem abs_arrs (σ : CState α) : (abs σ).arrs = σ.arrs.map (absArr σ.mem) := rfl
theorem abs_objs (σ : CState α) : (abs σ).objs = σ.objs.map (absObj σ.mem) := rfl

/-- a call that changed (at most) the collection behind `t` to `vs'` -/
theorem frame_step {σ : CState α} (inv : Inv bcap σ) {a : Nat} {m' : Mem α} (f : Frame bcap σ.mem m' (· = a))
    {t : Option Nat} (ht : Denotes σ t a) {vs' : List (Crystal α)} (hvs' : m'.arrOf a = some vs') :
    Inv bcap ⟨m', σ.arrs, σ.objs⟩ ∧ abs ⟨m', σ.arrs, σ.objs⟩ = (abs σ).setDict t ⟨vs'⟩ := by
  refine ⟨inv.of_frame f, ?_⟩
  have hobjs : σ.objs.map (absObj m') = σ.objs.map (absObj σ.mem) :=
    map_absObj_congr (fun o ho => f.obj o (inv.objs_lt o ho))
  cases t with
  | none =>
    simp only [Denotes] at ht
    subst ht
    apply AState.ext'
    · simp [abs, AState.setDict, hvs']
    · simp only [abs, AState.setDict]
      exact map_absArr_congr (fun b hb => f.arr b (inv.arrs_lt b hb).2)
    · simp only [abs, AState.setDict]; exact hobjs
  | some i =>
    simp only [Denotes] at ht
    obtain ⟨ha0, hai⟩ := ht
    apply AState.ext'
    · simp only [abs, AState.setDict]
      rw [f.arr 0 (fun h => ha0 h.symm)]
    · simp only [abs, AState.setDict]
      rw [map_set_of_congr (f := absArr σ.mem) (f' := absArr m') hai]
      · simp only [absArr, hvs']
      · intro j y hj hy
        apply absArr_congr
        intro b hb
        subst hb
        exact f.arr b (fun hba => hj (inv.arrs_inj j i b hy (hba ▸ hai)))
    · simp only [abs, AState.setDict]; exact hobjs

theorem setDict_self (s : AState α) (t : Option Nat)
    (ht : match t with
      | none => True
      | some i => ∃ d, s.arrs[i]? = some (.live d)) : s.setDict t (s.dict t) = s := by
  cases t with
  | none => rfl
  | some i =>
    obtain ⟨d, hd⟩ := ht
    simp only [AState.setDict, AState.dict, hd]
    cases s with | mk b a o =>
    simp only at hd ⊢
    congr 1
    obtain ⟨hlt, hget⟩ := List.getElem?_eq_some_iff.mp hd
    rw [← hget]; exact List.set_getElem_self hlt

end XrlCrystals
