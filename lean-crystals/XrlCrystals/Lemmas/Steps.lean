import XrlCrystals.Lemmas.Refine
/-!
# One lemma per operation: the concrete step does what the abstract step says
-/
namespace XrlCrystals
variable {α : Type} {bcap : Nat}

/-- what every step lemma concludes -/
def StepOk [Inhabited α] (vol : Cell α → α) (bcap : Nat) (σ : CState α) (op : Op α) (a' : AState α) (o : AOut) : Prop :=
  ∃ σ' o', cstep vol σ op = .ok (σ', o') ∧ o'.agrees o ∧ Inv bcap σ' ∧ abs σ' = a'

variable [Inhabited α] (vol : Cell α → α)

theorem step_init {σ : CState α} (inv : Inv bcap σ) (n : Int) {a' : AState α} {o : AOut}
    (hs : astep vol bcap (abs σ) (.init n) = some (a', o)) : StepOk vol bcap σ (.init n) a' o := by
  obtain ⟨m', r, e, hrun, post, hr, he⟩ := arrayInit_spec inv.wf n
  have hinv : Inv bcap ⟨m', σ.arrs ++ [r], σ.objs⟩ := by
    refine inv.push_arr post.wf (post.files.trans inv.files) (by rw [post.css]) r ?_ (by rw [post.hlen]; exact Nat.le_succ _) ?_ ?_
    · intro a ha
      obtain ⟨h1, _⟩ := post.arr_new a ha
      exact ⟨Nat.le_of_eq h1.symm, by rw [post.hlen, h1]; exact Nat.lt_succ_self _⟩
    · intro a h hh
      by_cases hal : a = σ.mem.hdrs.cells.length
      · left
        subst hal
        cases r with
        | none =>
          have := post.arr_fail rfl σ.mem.hdrs.cells.length
          rw [Mem.arrOf_none (Store.get?_ge (Nat.le_refl _))] at this
          obtain ⟨vs, hv⟩ := post.wf.arrOf_some hh
          rw [hv] at this; cases this
        | some a' => rw [(post.arr_new a' rfl).1]
      · right
        have h1 := post.arr_old a hal
        obtain ⟨vs, hv⟩ := post.wf.arrOf_some hh
        rw [hv] at h1
        exact arrOf_some_hdr h1.symm
    · intro o c hc; rw [post.css] at hc; exact ⟨c, hc⟩
  have habs_objs : σ.objs.map (absObj m') = σ.objs.map (absObj σ.mem) := map_absObj_congr (fun o _ => post.obj o)
  have habs_arrs : σ.arrs.map (absArr m') = σ.arrs.map (absArr σ.mem) :=
    map_absArr_congr (fun a ha => post.arr_old a (Nat.ne_of_lt (inv.arrs_lt a ha).1))
  have hb : (m'.arrOf 0).getD [] = (σ.mem.arrOf 0).getD [] := by
    obtain ⟨n0, hn0⟩ := inv.wf.h0
    rw [post.arr_old 0 (Nat.ne_of_lt (Store.get?_lt hn0))]
  refine ⟨⟨m', σ.arrs ++ [r], σ.objs⟩, ⟨.ptr r.isSome, e⟩, ?_, ?_, hinv, ?_⟩
  · simp only [cstep, hrun, bind, Except.bind, pure, Except.pure]
  · simp only [astep] at hs
    by_cases hn : n < 0
    · simp only [hn, if_true, Option.some.injEq, Prod.mk.injEq] at hs
      obtain ⟨_, rfl⟩ := hs
      exact ⟨by simp [hr]; omega, by simp [he, hn]⟩
    · simp only [hn, if_false, Option.some.injEq, Prod.mk.injEq] at hs
      obtain ⟨_, rfl⟩ := hs
      exact ⟨by simp [hr]; omega, by simp [he, hn]⟩
  · simp only [astep] at hs
    by_cases hn : n < 0
    · simp only [hn, if_true, Option.some.injEq, Prod.mk.injEq] at hs
      obtain ⟨rfl, _⟩ := hs
      have : r = none := by cases r with | none => rfl | some _ => simp [hn] at hr; omega
      subst this
      apply AState.ext'
      · exact hb
      · simp only [abs, List.map_append, List.map_cons, List.map_nil, habs_arrs]; rfl
      · simp only [abs]; exact habs_objs
    · simp only [hn, if_false, Option.some.injEq, Prod.mk.injEq] at hs
      obtain ⟨rfl, _⟩ := hs
      obtain ⟨a, ha⟩ : ∃ a, r = some a := by cases r with | none => simp [hn] at hr | some a => exact ⟨a, rfl⟩
      subst ha
      apply AState.ext'
      · exact hb
      · simp only [abs, List.map_append, List.map_cons, List.map_nil, habs_arrs, absArr, (post.arr_new a rfl).2]; rfl
      · simp only [abs]; exact habs_objs


/-- the state is the same state when only its memory was replaced by itself -/
theorem CState.eta (σ : CState α) : ({ σ with mem := σ.mem } : CState α) = σ := rfl

theorem step_list {σ : CState α} (inv : Inv bcap σ) (arr : ARef) {a' : AState α} {o : AOut}
    (hs : astep vol bcap (abs σ) (.list arr) = some (a', o)) : StepOk vol bcap σ (.list arr) a' o := by
  simp only [astep, Option.bind_eq_bind] at hs
  cases ht : (abs σ).target arr with
  | none => rw [ht] at hs; simp at hs
  | some t =>
    rw [ht] at hs
    simp only [Option.bind_some, Option.some.injEq, Prod.mk.injEq] at hs
    obtain ⟨rfl, rfl⟩ := hs
    obtain ⟨p, hd, harr, hhd, hvs, _⟩ := target_corr inv ht
    obtain ⟨m1, v, hrun1, m2, hrun2, post⟩ := list_spec inv.wf p hhd hvs
    refine ⟨⟨m2, σ.arrs, σ.objs⟩, ⟨.names (((abs σ).dict t).items.length) (((abs σ).dict t).items.map (·.name)), none⟩, ?_, ⟨rfl, rfl⟩, ?_, ?_⟩
    · simp only [cstep, harr, hrun1, hrun2, bind, Except.bind, pure, Except.pure]
    · refine inv.same_tables post.wf (post.files.trans inv.files) (by rw [post.hdrs]) (by rw [post.css]) ?_ ?_
      · intro a h hh; rw [post.hdrs] at hh; exact ⟨h, hh⟩
      · intro o c hc; rw [post.css] at hc; exact ⟨c, hc⟩
    · apply AState.ext'
      · simp only [abs, post.arr]
      · simp only [abs]; exact map_absArr_congr (fun a _ => post.arr a)
      · simp only [abs]; exact map_absObj_congr (fun o _ => post.obj o)

theorem step_free {σ : CState α} (inv : Inv bcap σ) (j : Nat) {a' : AState α} {o : AOut}
    (hs : astep vol bcap (abs σ) (.free j) = some (a', o)) : StepOk vol bcap σ (.free j) a' o := by
  simp only [astep, abs, List.getElem?_map] at hs
  cases hp : σ.objs[j]? with
  | none => rw [hp] at hs; simp at hs
  | some p =>
    rw [hp] at hs
    simp only [Option.map_some] at hs
    have hobj : σ.obj j = .ok p := by simp [CState.obj, hp, pure, Except.pure]
    cases hab : absObj σ.mem p with
    | released => rw [hab] at hs; simp at hs
    | null =>
      rw [hab] at hs
      simp only [Option.some.injEq, Prod.mk.injEq] at hs
      obtain ⟨rfl, rfl⟩ := hs
      have := absObj_null hab; subst this
      exact ⟨σ, ⟨.unit, none⟩, by simp only [cstep, hobj, free_null, bind, Except.bind, pure, Except.pure], ⟨rfl, rfl⟩, inv, rfl⟩
    | live v =>
      rw [hab] at hs
      simp only [Option.some.injEq, Prod.mk.injEq] at hs
      obtain ⟨rfl, rfl⟩ := hs
      obtain ⟨ob, rfl, hv⟩ := absObj_live hab
      obtain ⟨c, hc, _⟩ := objOf_some_iff hv
      obtain ⟨hrun, post⟩ := free_spec inv.wf hc
      refine ⟨⟨σ.mem.withoutObj ob c, σ.arrs, σ.objs⟩, ⟨.unit, none⟩, ?_, ⟨rfl, rfl⟩, ?_, ?_⟩
      · simp only [cstep, hobj, hrun, bind, Except.bind, pure, Except.pure]
      · refine inv.same_tables post.wf (post.files.trans inv.files) (by rw [post.hdrs]) (by rw [post.clen]) ?_ ?_
        · intro a h hh; rw [post.hdrs] at hh; exact ⟨h, hh⟩
        · intro o' c' hc'
          by_cases ho : o' = ob
          · subst ho; rw [post.css_o] at hc'; cases hc'
          · exact ⟨c', (post.css_other o' ho).symm.trans hc'⟩
      · apply AState.ext'
        · simp only [abs, post.arr]
        · simp only [abs]; exact map_absArr_congr (fun a _ => post.arr a)
        · simp only [abs]
          rw [map_set_of_congr (f := absObj σ.mem) (f' := absObj (σ.mem.withoutObj ob c)) hp]
          · simp only [absObj, post.obj_o]
          · intro i y hi hy
            apply absObj_congr
            intro o' ho'
            subst ho'
            exact post.obj_other o' (fun h => hi (inv.objs_inj i j o' hy (h ▸ hp)))

theorem step_afree {σ : CState α} (inv : Inv bcap σ) (i : Nat) {a' : AState α} {o : AOut}
    (hs : astep vol bcap (abs σ) (.afree i) = some (a', o)) : StepOk vol bcap σ (.afree i) a' o := by
  simp only [astep, abs, List.getElem?_map] at hs
  cases hp : σ.arrs[i]? with
  | none => rw [hp] at hs; simp at hs
  | some p =>
    rw [hp] at hs
    simp only [Option.map_some] at hs
    have harr : σ.arr (.user i) = .ok p := by simp [CState.arr, hp, pure, Except.pure]
    cases hab : absArr σ.mem p with
    | released => rw [hab] at hs; simp at hs
    | null =>
      rw [hab] at hs
      simp only [Option.some.injEq, Prod.mk.injEq] at hs
      obtain ⟨rfl, rfl⟩ := hs
      have := absArr_null hab; subst this
      exact ⟨σ, ⟨.unit, none⟩, by simp only [cstep, harr, arrayFree_null, bind, Except.bind, pure, Except.pure], ⟨rfl, rfl⟩, inv, rfl⟩
    | live d =>
      rw [hab] at hs
      simp only [Option.some.injEq, Prod.mk.injEq] at hs
      obtain ⟨rfl, rfl⟩ := hs
      obtain ⟨a, rfl, hv⟩ := absArr_live hab
      obtain ⟨hd, hhd⟩ := arrOf_some_hdr hv
      have ha0 : a ≠ 0 := (inv.arrs_lt a (List.mem_of_getElem? hp)).2
      obtain ⟨m', hrun, post⟩ := arrayFree_spec inv.wf ha0 hhd
      obtain ⟨n0, hn0⟩ := inv.wf.h0
      refine ⟨⟨m', σ.arrs, σ.objs⟩, ⟨.unit, none⟩, ?_, ⟨rfl, rfl⟩, ?_, ?_⟩
      · simp only [cstep, harr, hrun, bind, Except.bind, pure, Except.pure]
      · refine inv.same_tables post.wf (post.files.trans inv.files) (by rw [post.hlen]) (by rw [post.css]) ?_ ?_
        · intro x h hh
          by_cases hx : x = a
          · subst hx; rw [post.hdr_a] at hh; cases hh
          · exact ⟨h, (post.hdr_other x hx).symm.trans hh⟩
        · intro o c hc; rw [post.css] at hc; exact ⟨c, hc⟩
      · apply AState.ext'
        · simp only [abs]; rw [post.arr_other 0 (Ne.symm ha0)]
        · simp only [abs]
          rw [map_set_of_congr (f := absArr σ.mem) (f' := absArr m') hp]
          · simp only [absArr, post.arr_a]
          · intro k y hk hy
            apply absArr_congr
            intro b hb
            subst hb
            exact post.arr_other b (fun h => hk (inv.arrs_inj k i b hy (h ▸ hp)))
        · simp only [abs]; exact map_absObj_congr (fun o _ => post.obj o)

theorem step_scrib {σ : CState α} (inv : Inv bcap σ) (j : Nat) (x : α) {a' : AState α} {o : AOut}
    (hs : astep vol bcap (abs σ) (.scrib j x) = some (a', o)) : StepOk vol bcap σ (.scrib j x) a' o := by
  simp only [astep, abs, List.getElem?_map] at hs
  cases hp : σ.objs[j]? with
  | none => rw [hp] at hs; simp at hs
  | some p =>
    rw [hp] at hs
    simp only [Option.map_some] at hs
    have hobj : σ.obj j = .ok p := by simp [CState.obj, hp, pure, Except.pure]
    cases hab : absObj σ.mem p with
    | released => rw [hab] at hs; simp at hs
    | null =>
      rw [hab] at hs
      simp only [Option.some.injEq, Prod.mk.injEq] at hs
      obtain ⟨rfl, rfl⟩ := hs
      have := absObj_null hab; subst this
      exact ⟨σ, ⟨.unit, none⟩, by simp only [cstep, hobj, bind, Except.bind, pure, Except.pure], ⟨rfl, rfl⟩, inv, rfl⟩
    | live v =>
      rw [hab] at hs
      simp only [Option.some.injEq, Prod.mk.injEq] at hs
      obtain ⟨rfl, rfl⟩ := hs
      obtain ⟨ob, rfl, hv⟩ := absObj_live hab
      obtain ⟨c, hc, hcv⟩ := objOf_some_iff hv
      obtain ⟨hrun, post⟩ := scribble_spec inv.wf hc hcv x
      refine ⟨⟨σ.mem.scribbled ob c v x, σ.arrs, σ.objs⟩, ⟨.unit, none⟩, ?_, ⟨rfl, rfl⟩, ?_, ?_⟩
      · simp only [cstep, hobj, hrun, bind, Except.bind, pure, Except.pure]
      · refine inv.same_tables post.wf (post.files.trans inv.files) (by rw [post.hdrs]) (by rw [post.clen]) ?_ ?_
        · intro a h hh; rw [post.hdrs] at hh; exact ⟨h, hh⟩
        · intro o' c' hc'
          have := post.css_live o'
          rw [hc'] at this
          exact Option.isSome_iff_exists.mp this.symm
      · apply AState.ext'
        · simp only [abs, post.arr]
        · simp only [abs]; exact map_absArr_congr (fun a _ => post.arr a)
        · simp only [abs]
          rw [map_set_of_congr (f := absObj σ.mem) (f' := absObj (σ.mem.scribbled ob c v x)) hp]
          · simp only [absObj, post.obj_o]
          · intro i y hi hy
            apply absObj_congr
            intro o' ho'
            subst ho'
            exact post.obj_other o' (fun h => hi (inv.objs_inj i j o' hy (h ▸ hp)))

end XrlCrystals
