import XrlCrystals.Lemmas.Inv
import Mathlib.Data.List.Sort
/-!
# `qsort` after appending one crystal = ordered insertion

* sorting the vector of structs by the dereferenced names sorts the denoted crystals (`cellsOf_sorted`);
* a strictly sorted list with one new name appended sorts to `Dict.ins` (`mergeSort_append_eq_ins`);
* `Dict.ins` keeps a listing strictly sorted and finds what was inserted.
-/
namespace XrlCrystals
variable {α : Type}

/-- the comparison of `compareCrystalStructs` on crystal values -/
def nameLe (a b : Crystal α) : Bool := decide (a.name ≤ b.name)

theorem nameLe_trans (a b c : Crystal α) : nameLe a b = true → nameLe b c = true → nameLe a c = true := by
  unfold nameLe; simp only [decide_eq_true_eq]; exact le_trans

theorem nameLe_total (a b : Crystal α) : (nameLe a b || nameLe b a) = true := by
  unfold nameLe; simp only [Bool.or_eq_true, decide_eq_true_eq]; exact le_total _ _

namespace Mem

theorem cellsOf_of_pairs' {m : Mem α} (L : List (Crystal α × CStruct α)) (h : ∀ p ∈ L, m.crystalOf p.2 = some p.1) :
    m.cellsOf (L.map (·.2)) = some (L.map (·.1)) := by
  induction L with
  | nil => rfl
  | cons p L ih =>
    rw [List.map_cons, cellsOf_cons_eq_some]
    exact ⟨p.1, L.map (·.1), rfl, h p List.mem_cons_self, ih (fun q hq => h q (List.mem_cons_of_mem _ hq))⟩

theorem cellsOf_zip' {m : Mem α} {cs : List (CStruct α)} {vs : List (Crystal α)} (h : m.cellsOf cs = some vs) :
    ∀ p ∈ vs.zip cs, m.crystalOf p.2 = some p.1 := by
  induction cs generalizing vs with
  | nil => simp
  | cons c cs ih =>
    obtain ⟨v, vs', rfl, hc, hcs⟩ := cellsOf_cons_eq_some.mp h
    intro p hp
    rw [List.zip_cons_cons, List.mem_cons] at hp
    rcases hp with rfl | hp
    · exact hc
    · exact ih hcs p hp

/-- sorting the structs by their dereferenced names sorts the crystals they denote -/
theorem cellsOf_sorted {m : Mem α} {cs : List (CStruct α)} {ws : List (Crystal α)} (h : m.cellsOf cs = some ws) :
    m.cellsOf ((((ws.map (·.name)).zip cs).mergeSort (fun x y => decide (x.1 ≤ y.1))).map (·.2)) =
      some (ws.mergeSort nameLe) ∧
    ((((ws.map (·.name)).zip cs).mergeSort (fun x y => decide (x.1 ≤ y.1))).map (·.2)).Perm cs := by
  have hlen : ws.length = cs.length := cellsOf_length h
  -- the list of (crystal, struct) pairs, sorted by the crystal's name
  let le' : Crystal α × CStruct α → Crystal α × CStruct α → Bool := fun a b => decide (a.1.name ≤ b.1.name)
  have hz : (ws.map (·.name)).zip cs = (ws.zip cs).map (Prod.map (·.name) id) := List.zip_map_left
  have hs : ((ws.zip cs).map (Prod.map (·.name) id)).mergeSort (fun x y => decide (x.1 ≤ y.1)) =
      ((ws.zip cs).mergeSort le').map (Prod.map (·.name) id) :=
    (List.map_mergeSort (r := le') (s := fun x y => decide (x.1 ≤ y.1)) (f := Prod.map (·.name) id)
      (fun a _ b _ => rfl)).symm
  have hsnd : ((((ws.map (·.name)).zip cs).mergeSort (fun x y => decide (x.1 ≤ y.1))).map (·.2)) =
      ((ws.zip cs).mergeSort le').map (·.2) := by
    rw [hz, hs, List.map_map]; rfl
  have hfst : ((ws.zip cs).mergeSort le').map (·.1) = ws.mergeSort nameLe := by
    rw [List.map_mergeSort (r := le') (s := nameLe) (f := (·.1)) (fun a _ b _ => rfl)]
    congr 1
    exact List.map_fst_zip (Nat.le_of_eq hlen)
  rw [hsnd]
  constructor
  · rw [← hfst]
    apply cellsOf_of_pairs'
    intro p hp
    exact cellsOf_zip' h p ((List.mergeSort_perm _ _).mem_iff.mp hp)
  · have : (((ws.zip cs).mergeSort le').map (·.2)).Perm ((ws.zip cs).map (·.2)) := (List.mergeSort_perm _ _).map _
    rw [List.map_snd_zip (Nat.le_of_eq hlen.symm)] at this
    exact this

end Mem

/-! ### ordered insertion -/

theorem Dict.ins_perm (c : Crystal α) (l : List (Crystal α)) : (Dict.ins c l).Perm (c :: l) := by
  induction l with
  | nil => exact List.Perm.refl _
  | cons x xs ih =>
    unfold Dict.ins
    split
    · exact List.Perm.refl _
    · exact (List.Perm.cons x ih).trans (List.Perm.swap c x xs)

theorem Dict.ins_sorted {c : Crystal α} {l : List (Crystal α)} (hl : SortedNames l) (hc : c.name ∉ l.map (·.name)) :
    SortedNames (Dict.ins c l) := by
  unfold SortedNames at *
  induction l with
  | nil => simp [Dict.ins]
  | cons x xs ih =>
    rw [List.map_cons, List.pairwise_cons] at hl
    rw [List.map_cons, List.mem_cons, not_or] at hc
    unfold Dict.ins
    split
    · next hlt =>
      rw [List.map_cons, List.pairwise_cons]
      refine ⟨?_, by rw [List.map_cons, List.pairwise_cons]; exact hl⟩
      intro y hy
      rw [List.map_cons, List.mem_cons] at hy
      rcases hy with rfl | hy
      · exact hlt
      · exact lt_trans hlt (hl.1 y hy)
    · next hnlt =>
      rw [List.map_cons, List.pairwise_cons]
      refine ⟨?_, ih hl.2 hc.2⟩
      intro y hy
      have : y ∈ (c :: xs).map (·.name) := ((Dict.ins_perm c xs).map _).mem_iff.mp hy
      rw [List.map_cons, List.mem_cons] at this
      rcases this with rfl | hy'
      · exact lt_of_le_of_ne (not_lt.mp hnlt) (Ne.symm hc.1)
      · exact hl.1 y hy'

theorem SortedNames.nodup {l : List (Crystal α)} (h : SortedNames l) : (l.map (·.name)).Nodup :=
  List.Pairwise.imp (fun h => ne_of_lt h) h

/-- a strictly sorted listing with one new name appended sorts (with the comparator of the library) to the ordered insertion -/
theorem mergeSort_append_eq_ins {c : Crystal α} {l : List (Crystal α)} (hl : SortedNames l) (hc : c.name ∉ l.map (·.name)) :
    (l ++ [c]).mergeSort nameLe = Dict.ins c l := by
  have hp : ((l ++ [c]).mergeSort nameLe).Perm (Dict.ins c l) :=
    (List.mergeSort_perm _ _).trans ((List.perm_append_singleton c l).trans (Dict.ins_perm c l).symm)
  have hins : (Dict.ins c l).Pairwise (fun a b => a.name < b.name) := by
    have := Dict.ins_sorted hl hc
    unfold SortedNames at this
    rwa [List.pairwise_map] at this
  have hnd : ((Dict.ins c l).map (·.name)).Nodup := (Dict.ins_sorted hl hc).nodup
  have hms : ((l ++ [c]).mergeSort nameLe).Pairwise (fun a b => a.name < b.name) := by
    have h1 : ((l ++ [c]).mergeSort nameLe).Pairwise (fun a b => nameLe a b = true) :=
      List.pairwise_mergeSort nameLe_trans nameLe_total _
    have h2 : (((l ++ [c]).mergeSort nameLe).map (·.name)).Nodup := (hp.map _).nodup_iff.mpr hnd
    rw [List.Nodup, List.pairwise_map] at h2
    exact (h1.and h2).imp (fun ⟨h, hne⟩ => lt_of_le_of_ne (by simpa [nameLe] using h) hne)
  exact List.Perm.eq_of_pairwise (fun a b _ _ h1 h2 => absurd h2 (lt_asymm h1)) hms hins hp

/-! ### lookups in a strictly sorted listing -/

theorem Dict.find_ins_same {c : Crystal α} {l : List (Crystal α)} (hc : c.name ∉ l.map (·.name)) :
    (Dict.ins c l).find? (fun x => x.name == c.name) = some c := by
  induction l with
  | nil => simp [Dict.ins]
  | cons x xs ih =>
    rw [List.map_cons, List.mem_cons, not_or] at hc
    unfold Dict.ins
    split
    · simp
    · have : (x.name == c.name) = false := by simpa using Ne.symm hc.1
      rw [List.find?_cons, this]; exact ih hc.2

theorem Dict.find_ins_other {c : Crystal α} {l : List (Crystal α)} {n : String} (hn : n ≠ c.name) :
    (Dict.ins c l).find? (fun x => x.name == n) = l.find? (fun x => x.name == n) := by
  induction l with
  | nil =>
    have : (c.name == n) = false := by simpa using Ne.symm hn
    simp [Dict.ins, this]
  | cons x xs ih =>
    unfold Dict.ins
    split
    · have : (c.name == n) = false := by simpa using Ne.symm hn
      rw [List.find?_cons, this]
    · rw [List.find?_cons, List.find?_cons, ih]

end XrlCrystals
