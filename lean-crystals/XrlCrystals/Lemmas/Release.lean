import XrlCrystals.Lemmas.Init
import Mathlib.Data.Multiset.Count
/-!
# After everything was released only the blocks of the built-in collection are live
-/
namespace XrlCrystals
variable {α : Type} {bcap : Nat}

namespace Store
variable {β : Type}

theorem card_valsM_eq_card_domM (s : Store β) : Multiset.card s.valsM = Multiset.card s.domM := by
  obtain ⟨cells⟩ := s
  induction cells using List.reverseRecOn with
  | nil => rfl
  | append_singleton l x ih =>
    cases x with
    | some v =>
      have h1 := valsM_alloc ⟨l⟩ v
      have h2 := domM_alloc ⟨l⟩ v
      simp only [alloc] at h1 h2
      rw [h1, h2, Multiset.card_cons, Multiset.card_cons, ih]
    | none =>
      have h1 : (⟨l ++ [none]⟩ : Store β).valsM = (⟨l⟩ : Store β).valsM := by
        simp [valsM, vals, List.filterMap_append]
      have h2 : (⟨l ++ [none]⟩ : Store β).domM = (⟨l⟩ : Store β).domM := by
        apply domM_congr
        intro a
        unfold get?
        by_cases ha : a < l.length
        · rw [List.getElem?_append_left ha]
        · rw [List.getElem?_append_right (Nat.le_of_not_lt ha), List.getElem?_eq_none (Nat.le_of_not_lt ha)]
          cases h : a - l.length with
          | zero => rfl
          | succ k => simp
      rw [h1, h2, ih]

theorem live_eq_card_domM (s : Store β) : s.live = Multiset.card s.domM := by
  rw [← card_valsM_eq_card_domM]; rfl

theorem domM_eq_zero {s : Store β} (h : ∀ a, s.get? a = none) : s.domM = 0 := by
  apply Multiset.eq_zero_of_forall_notMem
  intro a ha
  obtain ⟨v, hv⟩ := mem_domM.mp ha
  rw [h a] at hv; cases hv

theorem domM_eq_singleton {s : Store β} {a0 : Nat} {v0 : β} (h0 : s.get? a0 = some v0) (h : ∀ a v, s.get? a = some v → a = a0) :
    s.domM = {a0} := by
  apply Multiset.Nodup.ext (nodup_domM s) (Multiset.nodup_singleton a0) |>.mpr
  intro a
  rw [mem_domM, Multiset.mem_singleton]
  constructor
  · rintro ⟨v, hv⟩; exact h a v hv
  · rintro rfl; exact ⟨v0, h0⟩

theorem valsM_eq_singleton {s : Store β} {a0 : Nat} {v0 : β} (h0 : s.get? a0 = some v0) (h : ∀ a v, s.get? a = some v → a = a0) :
    s.valsM = {v0} := by
  have hc : Multiset.card s.valsM = 1 := by rw [card_valsM_eq_card_domM, domM_eq_singleton h0 h]; rfl
  obtain ⟨v, hv⟩ := Multiset.card_eq_one.mp hc
  have : v0 ∈ s.valsM := mem_valsM.mpr ⟨a0, h0⟩
  rw [hv, Multiset.mem_singleton] at this
  rw [hv, this]

theorem valsM_eq_zero {s : Store β} (h : ∀ a, s.get? a = none) : s.valsM = 0 := by
  apply Multiset.eq_zero_of_forall_notMem
  intro v hv
  obtain ⟨a, ha⟩ := mem_valsM.mp hv
  rw [h a] at ha; cases ha

end Store

/-- **releasing releases everything**: when no user array and no handed-out copy is held any more, the live
heap blocks are exactly those of the built-in collection — its header, its table, one string and one atom
vector per crystal — and no file is open -/
theorem all_released {σ : CState α} (inv : Inv bcap σ)
    (ha : ∀ p ∈ (abs σ).arrs, ∀ d, p ≠ .live d) (ho : ∀ p ∈ (abs σ).objs, ∀ v, p ≠ .live v) :
    σ.mem.live = 2 + 2 * (abs σ).builtin.size ∧ σ.mem.files = 0 ∧
      (∀ a h, σ.mem.hdrs.get? a = some h → a = 0) ∧ (∀ o, σ.mem.css.get? o = none) := by
  obtain ⟨n0, hn0⟩ := inv.wf.h0
  obtain ⟨bf0, hb0, _, hsl0, _⟩ := inv.wf.buf_live hn0 rfl
  have hhdr : ∀ a h, σ.mem.hdrs.get? a = some h → a = 0 := by
    intro a h hh
    rcases inv.hdr_known a h hh with h0 | hmem
    · exact h0
    · exfalso
      obtain ⟨vs, hvs⟩ := inv.wf.arrOf_some hh
      have : absArr σ.mem (some a) ∈ (abs σ).arrs := List.mem_map_of_mem hmem
      exact ha _ this ⟨vs⟩ (by simp [absArr, hvs])
  have hcss : ∀ o, σ.mem.css.get? o = none := by
    intro o
    cases hc : σ.mem.css.get? o with
    | none => rfl
    | some c =>
      exfalso
      obtain ⟨v, hv⟩ := inv.wf.objOf_some hc
      have : absObj σ.mem (some o) ∈ (abs σ).objs := List.mem_map_of_mem (inv.css_known o c hc)
      exact ho _ this v (by simp [absObj, hv])
  have hbuf : ∀ b bf, σ.mem.bufs.get? b = some bf → b = 0 := by
    intro b bf hb
    obtain ⟨a, h, hh, hc⟩ := inv.wf.buf_owned b bf hb
    have := hhdr a h hh; subst this
    have : h = ⟨n0, bcap, some 0⟩ := by have := hn0.symm.trans hh; cases this; rfl
    subst this; cases hc; rfl
  have hcells : σ.mem.cellsM = (bf0.slots : Multiset (CStruct α)) := by
    unfold Mem.cellsM cellsMS
    rw [Store.valsM_eq_singleton hb0 hbuf, Store.valsM_eq_zero hcss]
    simp
  have hvs : σ.mem.arrOf 0 = some (abs σ).builtin.items := by
    obtain ⟨vs, hvs⟩ := inv.wf.arrOf_some hn0
    simp [abs, hvs]
  have hn : bf0.slots.length = (abs σ).builtin.size := by
    have h1 : σ.mem.arrOf 0 = σ.mem.cellsOf bf0.slots := Mem.arrOf_eq hn0 rfl hb0
    rw [hvs] at h1
    exact (Mem.cellsOf_length h1.symm).symm
  have hstr : Multiset.card σ.mem.strs.domM = bf0.slots.length := by
    rw [← inv.wf.names, hcells]; simp
  have hatm : Multiset.card σ.mem.atms.domM = bf0.slots.length := by
    rw [← inv.wf.atoms, hcells]; simp
  refine ⟨?_, inv.files, hhdr, hcss⟩
  unfold Mem.live
  rw [Store.live_eq_card_domM, Store.live_eq_card_domM, Store.live_eq_card_domM, Store.live_eq_card_domM, Store.live_eq_card_domM,
    Store.live_eq_card_domM, Store.domM_eq_singleton hn0 hhdr, Store.domM_eq_singleton hb0 hbuf, Store.domM_eq_zero hcss,
    Store.domM_eq_zero inv.wf.vecs, hstr, hatm, hn]
  simp only [Multiset.card_singleton, Multiset.card_zero]
  omega

end XrlCrystals
