import XrlCrystals.Lemmas.ReadFile
/-!
# `Crystal_ReadFile`: putting the stages together
-/
namespace XrlCrystals
variable {α : Type} {bcap : Nat} {m : Mem α}

/-- the temporary array `na` is released; everything else as in `m`, `k` files open -/
structure TempFreed (bcap : Nat) (m m' : Mem α) (na : Nat) (k : Nat) : Prop where
  wf : WF bcap m'
  arr_a : m'.arrOf na = none
  arr_other : ∀ x, x ≠ na → m'.arrOf x = m.arrOf x
  obj : ∀ o, m'.objOf o = m.objOf o
  css : m'.css = m.css
  hlen : m'.hdrs.cells.length = m.hdrs.cells.length
  hdr_a : m'.hdrs.get? na = none
  hdr_other : ∀ x, x ≠ na → m'.hdrs.get? x = m.hdrs.get? x
  buf_other : ∀ x hx b, x ≠ na → m.hdrs.get? x = some hx → hx.crystal = some b → m'.bufs.get? b = m.bufs.get? b
  files : m'.files = k

theorem tempFreed_of_arrayFree (w : WF bcap m) {na : Nat} {hn : Hdr} (hna : na ≠ 0) (hh : m.hdrs.get? na = some hn) (k : Nat) :
    ∃ m', Crystal_ArrayFree { m with files := k } (some na) = .ok m' ∧ TempFreed bcap m m' na k := by
  obtain ⟨m', hrun, p⟩ := arrayFree_spec (w.files_irrel k) hna (h := hn) hh
  refine ⟨m', hrun, p.wf, p.arr_a, ?_, ?_, p.css, p.hlen, p.hdr_a, p.hdr_other, p.buf_other, p.files⟩
  · intro x hx; rw [p.arr_other x hx, Mem.arrOf_files]
  · intro o; rw [p.obj o, Mem.objOf_files]

theorem readFail_spec (w : WF bcap m) {na : Nat} {hn : Hdr} (hna : na ≠ 0) (hh : m.hdrs.get? na = some hn) (fp : Bool)
    (e : Option Err) :
    ∃ m', readFail m na fp e = .ok (m', 0, e) ∧ TempFreed bcap m m' na (if fp then m.files - 1 else m.files) := by
  cases fp with
  | true =>
    obtain ⟨m', hrun, p⟩ := tempFreed_of_arrayFree w hna hh (m.files - 1)
    refine ⟨m', ?_, by simpa using p⟩
    unfold readFail
    simp only [if_true, hrun, bind, Except.bind, pure, Except.pure]
  | false =>
    obtain ⟨m', hrun, p⟩ := tempFreed_of_arrayFree w hna hh m.files
    refine ⟨m', ?_, by simpa using p⟩
    unfold readFail
    simp only [Bool.false_eq_true, if_false, bind, Except.bind, pure, Except.pure]
    have : ({ m with files := m.files } : Mem α) = m := rfl
    rw [this] at hrun
    simp only [hrun]

/-- changing the open-file counter on both sides of a frame -/
theorem Frame.set_files {m' : Mem α} {T : Nat → Prop} (f : Frame bcap m m' T) (k : Nat) :
    Frame bcap { m with files := k } { m' with files := k } T :=
  ⟨f.wf.files_irrel k, fun x hx => (Mem.arrOf_files m' k x).trans ((f.arr x hx).trans (Mem.arrOf_files m k x).symm),
    fun o ho => (Mem.objOf_files m' k o).trans ((f.obj o ho).trans (Mem.objOf_files m k o).symm), f.css_old, f.css_new, f.hdr_live, f.hdr_other,
    f.buf_other, f.hlen, f.clen, rfl⟩

/-- the memory with the fresh, empty temporary array and `k` open files -/
def Mem.withTemp (m : Mem α) (k : Nat) : Mem α := { m with hdrs := (m.hdrs.alloc ⟨0, 0, none⟩).1, files := k }

theorem withTemp_wf (w : WF bcap m) (k : Nat) :
    WF bcap (m.withTemp k) ∧ (m.withTemp k).arrOf m.hdrs.cells.length = some [] ∧
      (m.withTemp k).hdrs.get? m.hdrs.cells.length = some ⟨0, 0, none⟩ := by
  obtain ⟨m', r, e, hrun, post, _, _⟩ := arrayInit_spec w 0
  have hcl : Crystal_ArrayInit m 0 = .ok ({ m with hdrs := (m.hdrs.alloc ⟨0, 0, none⟩).1 }, some m.hdrs.cells.length, none) := rfl
  rw [hcl] at hrun
  injection hrun with hrun
  injection hrun with h1 h2
  injection h2 with h2 h3
  subst h1; subst h2
  refine ⟨post.wf.files_irrel k, ?_, Store.get?_alloc_new _ _⟩
  show ({ ({ m with hdrs := (m.hdrs.alloc ⟨0, 0, none⟩).1 } : Mem α) with files := k } : Mem α).arrOf _ = _
  rw [Mem.arrOf_files]
  exact (post.arr_new _ rfl).2

/-- composing: fresh temporary array; calls that touch only it and the target; temporary released -/
theorem temp_compose (w : WF bcap m) {a : Nat} (ha : a < m.hdrs.cells.length) {k : Nat} {m2 m3 : Mem α} {T : Nat → Prop}
    (hT : ∀ x, T x → x = m.hdrs.cells.length ∨ x = a) (f : Frame bcap (m.withTemp k) m2 T)
    (t : TempFreed bcap m2 m3 m.hdrs.cells.length m.files) : Frame bcap m m3 (· = a) := by
  have hold : ∀ x, x ≠ m.hdrs.cells.length → (m.withTemp k).hdrs.get? x = m.hdrs.get? x := by
    intro x hx; show (m.hdrs.alloc _).1.get? x = _; rw [Store.get?_alloc]; simp [hx]
  have harr1 : ∀ x, x ≠ m.hdrs.cells.length → (m.withTemp k).arrOf x = m.arrOf x :=
    fun x hx => Mem.arrOf_congr_at (hold x hx) (fun _ _ _ _ => rfl) (fun _ _ _ _ _ _ _ _ => ⟨rfl, rfl⟩)
  have hobj1 : ∀ o, (m.withTemp k).objOf o = m.objOf o := fun o => Mem.objOf_congr3 rfl rfl rfl o
  have hdead : m.hdrs.get? m.hdrs.cells.length = none := Store.get?_ge (Nat.le_refl _)
  refine ⟨t.wf, ?_, ?_, ?_, ?_, ?_, ?_, ?_, ?_, ?_, t.files⟩
  · intro x hx
    by_cases hxn : x = m.hdrs.cells.length
    · subst hxn; rw [t.arr_a, Mem.arrOf_none hdead]
    · rw [t.arr_other x hxn, f.arr x (fun ht => (hT x ht).elim hxn hx), harr1 x hxn]
  · intro o ho; rw [t.obj o, f.obj o ho, hobj1 o]
  · intro o ho; rw [t.css]; exact f.css_old o ho
  · intro o ho; rw [t.css]; exact f.css_new o ho
  · intro x
    by_cases hxn : x = m.hdrs.cells.length
    · subst hxn; rw [t.hdr_a, hdead]
    · rw [t.hdr_other x hxn, f.hdr_live x, hold x hxn]
  · intro x hx
    by_cases hxn : x = m.hdrs.cells.length
    · subst hxn; rw [t.hdr_a, hdead]
    · rw [t.hdr_other x hxn, f.hdr_other x (fun ht => (hT x ht).elim hxn hx), hold x hxn]
  · intro x hx b hxa hgx hcx
    have hxn : x ≠ m.hdrs.cells.length := Nat.ne_of_lt (Store.get?_lt hgx)
    have hnT : ¬ T x := fun ht => (hT x ht).elim hxn hxa
    have hg1 : (m.withTemp k).hdrs.get? x = some hx := (hold x hxn).trans hgx
    have hg2 : m2.hdrs.get? x = some hx := (f.hdr_other x hnT).trans hg1
    rw [t.buf_other x hx b hxn hg2 hcx, f.buf_other x hx b hnT hg1 hcx]
    rfl
  · rw [t.hlen]
    exact Nat.le_trans (by show _ ≤ (m.hdrs.alloc _).1.cells.length; rw [Store.length_alloc]; exact Nat.le_succ _) f.hlen
  · rw [t.css]; exact f.clen

end XrlCrystals

namespace XrlCrystals
variable {α : Type} {bcap : Nat} {m : Mem α}

/-- the file can be loaded into the collection `vs` behind `a` -/
def fileOk (bcap : Nat) (a : Nat) (vs : List (Crystal α)) (p : Parsed α) : Prop :=
  p.bad = none ∧ freshAll vs p.good ∧ (a = 0 → vs.length + p.good.length ≤ bcap)

theorem withTemp_old (m : Mem α) (k : Nat) {x : Nat} (hx : x ≠ m.hdrs.cells.length) :
    (m.withTemp k).hdrs.get? x = m.hdrs.get? x ∧ (m.withTemp k).arrOf x = m.arrOf x := by
  have hold : (m.withTemp k).hdrs.get? x = m.hdrs.get? x := by
    show (m.hdrs.alloc _).1.get? x = _; rw [Store.get?_alloc]; simp [hx]
  exact ⟨hold, Mem.arrOf_congr_at hold (fun _ _ _ _ => rfl) (fun _ _ _ _ _ _ _ _ => ⟨rfl, rfl⟩)⟩

theorem freshAll_of_nil {vs good : List (Crystal α)} (h : freshAll vs good) : freshAll [] good := by
  unfold freshAll at *; exact ⟨h.1, by simp⟩

/-- a failing path: whatever was done on the temporary array, it is released and nothing else changed -/
theorem read_fail_path (w : WF bcap m) {a : Nat} {h : Hdr} (hh : m.hdrs.get? a = some h) {vs : List (Crystal α)}
    (hvs : m.arrOf a = some vs) {k : Nat} {m2 : Mem α} (f : Frame bcap (m.withTemp k) m2 (· = m.hdrs.cells.length))
    (fp : Bool) (hk : (if fp then m2.files - 1 else m2.files) = m.files) (e : Option Err) :
    ∃ m3, readFail m2 m.hdrs.cells.length fp e = .ok (m3, 0, e) ∧ Frame bcap m m3 (· = a) ∧ m3.arrOf a = some vs := by
  have ha : a < m.hdrs.cells.length := Store.get?_lt hh
  have hne : a ≠ m.hdrs.cells.length := Nat.ne_of_lt ha
  have hna : m.hdrs.cells.length ≠ 0 := by omega
  obtain ⟨_, _, hnew⟩ := withTemp_wf w k
  have hh2 : ∃ hn2, m2.hdrs.get? m.hdrs.cells.length = some hn2 := by
    have := f.hdr_live m.hdrs.cells.length; rw [hnew] at this; exact Option.isSome_iff_exists.mp this
  obtain ⟨hn2, hh2⟩ := hh2
  obtain ⟨m3, hrun, t⟩ := readFail_spec f.wf hna hh2 fp e
  rw [hk] at t
  refine ⟨m3, hrun, temp_compose w ha (fun x hx => Or.inl hx) f t, ?_⟩
  rw [t.arr_other a hne, f.arr a hne, (withTemp_old m k hne).2]; exact hvs

theorem readFile_spec [Inhabited α] (vol : Cell α → α) (w : WF bcap m) (arr : Option Nat) {h : Hdr}
    (hh : m.hdrs.get? (arr.getD 0) = some h) {vs : List (Crystal α)} (hvs : m.arrOf (arr.getD 0) = some vs) (p : Parsed α) :
    ∃ m' r e, Crystal_ReadFile vol m (.content p) arr = .ok (m', r, e) ∧ Frame bcap m m' (· = arr.getD 0) ∧
      (fileOk bcap (arr.getD 0) vs p → r = 1 ∧ e = none ∧ m'.arrOf (arr.getD 0) = some (insAll vol vs p.good)) ∧
      (¬ fileOk bcap (arr.getD 0) vs p → r = 0 ∧ e.isSome = true ∧ m'.arrOf (arr.getD 0) = some vs) := by
  have ha : arr.getD 0 < m.hdrs.cells.length := Store.get?_lt hh
  have hne : arr.getD 0 ≠ m.hdrs.cells.length := Nat.ne_of_lt ha
  have hna : m.hdrs.cells.length ≠ 0 := by omega
  obtain ⟨w1, harr1, hnew1⟩ := withTemp_wf w (m.files + 1)
  obtain ⟨m2, e2, acc', hrun2, fr2, harr2, hfresh2, hnot2⟩ := readEntries_spec vol p.good w1 hna hnew1 harr1
  have hfiles2 : m2.files = m.files + 1 := fr2.files
  -- the code up to the end of the reading loop
  have hstart : Crystal_ReadFile vol m (.content p) arr =
      (match e2 with
       | some e => readFail m2 m.hdrs.cells.length true (some e)
       | none =>
         match p.bad with
         | some pe => do
             let m' ← partialEntry m2 pe
             readFail m' m.hdrs.cells.length true (some pe.toErr)
         | none => readCommit vol { m2 with files := m2.files - 1 } m.hdrs.cells.length (arr.getD 0)) := by
    have hinit : Crystal_ArrayInit ({ m with files := m.files + 1 } : Mem α) 0 =
        .ok (m.withTemp (m.files + 1), some m.hdrs.cells.length, none) := rfl
    unfold Crystal_ReadFile
    simp only [hinit, hrun2, bind, Except.bind]
    cases e2 <;> rfl
  rw [hstart]
  by_cases hf0 : freshAll [] p.good
  · obtain ⟨he2, hacc⟩ := hfresh2 hf0
    subst he2
    simp only
    cases hbad : p.bad with
    | some pe =>
      -- malformed entry
      simp only
      obtain ⟨m2', hpe, fpe⟩ := partialEntry_spec fr2.wf pe
      have f' := fr2.trans (fpe.weaken (fun _ h => h.elim))
      obtain ⟨m3, hrun3, fr3, harr3⟩ := read_fail_path w hh hvs f' true (by simp [fpe.files, hfiles2]) (some pe.toErr)
      refine ⟨m3, 0, some pe.toErr, by simp only [hpe, bind, Except.bind, hrun3], fr3, ?_, fun _ => ⟨rfl, rfl, harr3⟩⟩
      intro hok; rw [hok.1] at hbad; cases hbad
    | none =>
      simp only
      -- the file is closed; the checks
      have hm2c : ({ m2 with files := m2.files - 1 } : Mem α) = { m2 with files := m.files } := by rw [hfiles2]; rfl
      rw [hm2c]
      have frc : Frame bcap (m.withTemp m.files) { m2 with files := m.files } (· = m.hdrs.cells.length) := fr2.set_files m.files
      have wc := frc.wf
      obtain ⟨_, _, hnewc⟩ := withTemp_wf w m.files
      have hhn : ∃ hn2, ({ m2 with files := m.files } : Mem α).hdrs.get? m.hdrs.cells.length = some hn2 := by
        have := frc.hdr_live m.hdrs.cells.length; rw [hnewc] at this; exact Option.isSome_iff_exists.mp this
      obtain ⟨hn2, hhn⟩ := hhn
      obtain ⟨cs, ws, hs1, hs2, hs3, hs4, _, hs6⟩ := slotsOf_spec wc hhn
      have hws : ws = acc' := by
        have : ({ m2 with files := m.files } : Mem α).arrOf m.hdrs.cells.length = some acc' := by rw [Mem.arrOf_files]; exact harr2
        rw [this] at hs3; cases hs3; rfl
      subst hws
      have hhc : ({ m2 with files := m.files } : Mem α).hdrs.get? (arr.getD 0) = some h :=
        (frc.hdr_other _ hne).trans ((withTemp_old m m.files hne).1.trans hh)
      have hvsc : ({ m2 with files := m.files } : Mem α).arrOf (arr.getD 0) = some vs :=
        (frc.arr _ hne).trans ((withTemp_old m m.files hne).2.trans hvs)
      have hnames : (ws.map (·.name)).Perm (p.good.map (·.name)) := by
        rw [hacc]
        have := (insAll_perm vol [] p.good).map (·.name)
        simpa [List.map_map, Function.comp_def, recomp] using this
      have hwlen : ws.length = p.good.length := by
        have := hnames.length_eq; simpa using this
      have hnc : hn2.n_crystal = ws.length := by rw [Mem.cellsOf_length hs2, hs4]
      have hrun_pre : ∀ X : Bool → M (Mem α × Int × Option Err),
          (do let hn ← ({ m2 with files := m.files } : Mem α).hdrs.get m.hdrs.cells.length
              let cs ← ({ m2 with files := m.files } : Mem α).slotsOf hn
              let names ← ({ m2 with files := m.files } : Mem α).namesOf cs
              X (← anyPresent { m2 with files := m.files } (arr.getD 0) names)) =
            X ((ws.map (·.name)).any (fun n => decide (n ∈ vs.map (·.name)))) := by
        intro X
        simp only [Store.get_ok hhn, hs1, Mem.namesOf_of_cellsOf hs2, anyPresent_spec wc hhc hvsc, bind, Except.bind]
      by_cases hany : (ws.map (·.name)).any (fun n => decide (n ∈ vs.map (·.name))) = true
      · -- a name of the file is already present
        obtain ⟨m3, hrun3, fr3, harr3⟩ := read_fail_path w hh hvs frc false rfl
          (some ⟨XRL_ERROR_INVALID_ARGUMENT, "Crystal already present in array"⟩)
        refine ⟨m3, 0, some ⟨XRL_ERROR_INVALID_ARGUMENT, "Crystal already present in array"⟩, ?_, fr3, ?_, fun _ => ⟨rfl, rfl, harr3⟩⟩
        · unfold readCommit
          simp only [Store.get_ok hhn, hs1, Mem.namesOf_of_cellsOf hs2, anyPresent_spec wc hhc hvsc, bind, Except.bind, hany,
            if_true, pure, Except.pure]
          exact hrun3
        · intro hok
          exfalso
          obtain ⟨n, hn1, hn2'⟩ := List.any_eq_true.mp hany
          have hn2'' : n ∈ vs.map (·.name) := by simpa using hn2'
          exact hok.2.1.2 n (hnames.mem_iff.mp hn1) hn2''
      · have hany' : (ws.map (·.name)).any (fun n => decide (n ∈ vs.map (·.name))) = false := by simpa using hany
        have hfresh : freshAll vs p.good := by
          refine ⟨hf0.1, fun n hn hv => ?_⟩
          have : (ws.map (·.name)).any (fun n => decide (n ∈ vs.map (·.name))) = true :=
            List.any_eq_true.mpr ⟨n, hnames.mem_iff.mpr hn, by simpa using hv⟩
          rw [hany'] at this; cases this
        -- capacity of the built-in collection
        have hover : ∃ ov, overBuiltin { m2 with files := m.files } (arr.getD 0) hn2.n_crystal = .ok ov ∧
            (ov = true ↔ (arr.getD 0 = 0 ∧ vs.length + p.good.length > bcap)) := by
          by_cases ha0 : arr.getD 0 = 0
          · obtain ⟨n0, hn0⟩ := wc.h0
            rw [ha0] at hhc hvsc ⊢
            have : h = ⟨n0, bcap, some 0⟩ := by have := hn0.symm.trans hhc; cases this; rfl
            subst this
            obtain ⟨bf0, hb0, _, hsl0, _⟩ := wc.buf_live hhc rfl
            have h1 : ({ m2 with files := m.files } : Mem α).arrOf 0 = ({ m2 with files := m.files } : Mem α).cellsOf bf0.slots :=
              Mem.arrOf_eq hhc rfl hb0
            rw [hvsc] at h1
            have h2 := Mem.cellsOf_length h1.symm
            simp only at hsl0
            refine ⟨_, overBuiltin_builtin hn0 _, ?_⟩
            simp only [decide_eq_true_eq, true_and]
            rw [hnc, hwlen]; omega
          · exact ⟨false, overBuiltin_user _ ha0 _, by simp [ha0]⟩
        obtain ⟨ov, hov, hoviff⟩ := hover
        cases ov with
        | true =>
          obtain ⟨m3, hrun3, fr3, harr3⟩ := read_fail_path w hh hvs frc false rfl
            (some ⟨XRL_ERROR_RUNTIME, "Extending internal is crystal array is not allowed"⟩)
          refine ⟨m3, 0, some ⟨XRL_ERROR_RUNTIME, "Extending internal is crystal array is not allowed"⟩, ?_, fr3, ?_, fun _ => ⟨rfl, rfl, harr3⟩⟩
          · unfold readCommit
            simp only [Store.get_ok hhn, hs1, Mem.namesOf_of_cellsOf hs2, anyPresent_spec wc hhc hvsc, bind, Except.bind, hany',
              Bool.false_eq_true, if_false, hov, if_true, pure, Except.pure]
            exact hrun3
          · intro hok
            obtain ⟨ha0, hgt⟩ := hoviff.mp rfl
            have := hok.2.2 ha0
            omega
        | false =>
          have hroom : arr.getD 0 = 0 → vs.length + p.good.length ≤ bcap := by
            intro ha0
            by_contra hgt
            have := hoviff.mpr ⟨ha0, by omega⟩
            cases this
          have hok : fileOk bcap (arr.getD 0) vs p := ⟨hbad, hfresh, hroom⟩
          -- the merging loop
          have hmerge : ∃ m4, mergeStage vol { m2 with files := m.files } hn2 (arr.getD 0) = .ok (m4, none) ∧
              Frame bcap { m2 with files := m.files } m4 (· = arr.getD 0) ∧ m4.arrOf (arr.getD 0) = some (insAll vol vs p.good) := by
            unfold mergeStage
            cases hcr : hn2.crystal with
            | none =>
              rw [hcr] at hs6
              simp only at hs6
              subst hs6
              have : ws = [] := by have := Mem.cellsOf_length hs2; simpa using this
              subst this
              have hg : p.good = [] := by
                have := hwlen; simp at this; exact List.length_eq_zero_iff.mp this.symm
              refine ⟨_, rfl, Frame.refl wc _, ?_⟩
              rw [hg]; exact hvsc
            | some nb =>
              rw [hcr] at hs6
              obtain ⟨bf, hb, hbs⟩ := hs6
              subst hbs
              have hfr : freshAll vs ((List.range hn2.n_crystal).filterMap (ws[·]?)) := by
                rw [hnc, filterMap_range_getElem?]
                exact ⟨hnames.nodup_iff.mpr hfresh.1, fun n hn => hfresh.2 n (hnames.mem_iff.mp hn)⟩
              obtain ⟨m4, hrun4, fr4, harr4⟩ := mergeAll_spec vol m.hdrs.cells.length nb (arr.getD 0) bf ws hne
                (List.range hn2.n_crystal) wc hhc hvsc hhn hcr hb hs2
                (fun i hi => by rw [← hnc]; exact List.mem_range.mp hi) hfr
                (fun ha0 => by rw [List.length_range, hnc, hwlen]; exact hroom ha0)
              refine ⟨m4, hrun4, fr4, ?_⟩
              rw [harr4, hnc, filterMap_range_getElem?, hacc]
              exact congrArg some (insAll_twice vol (w.sorted _ _ hvs) hfresh)
          obtain ⟨m4, hrun4, fr4, harr4⟩ := hmerge
          -- release the temporary array
          have hhn4 : ∃ hn4, m4.hdrs.get? m.hdrs.cells.length = some hn4 := by
            have := fr4.hdr_live m.hdrs.cells.length; rw [hhn] at this; exact Option.isSome_iff_exists.mp this
          obtain ⟨hn4, hhn4⟩ := hhn4
          obtain ⟨m5, hrun5, t5⟩ := tempFreed_of_arrayFree fr4.wf hna hhn4 m4.files
          have hm4 : ({ m4 with files := m4.files } : Mem α) = m4 := rfl
          rw [hm4] at hrun5
          have hfiles4 : m4.files = m.files := fr4.files
          rw [hfiles4] at t5
          have fall : Frame bcap (m.withTemp m.files) m4 (fun x => x = m.hdrs.cells.length ∨ x = arr.getD 0) :=
            (frc.weaken (fun _ h => Or.inl h)).trans (fr4.weaken (fun _ h => Or.inr h))
          refine ⟨m5, 1, none, ?_, temp_compose w ha (fun x hx => hx) fall t5, fun _ => ⟨rfl, rfl, ?_⟩, fun hn => absurd hok hn⟩
          · unfold readCommit
            simp only [Store.get_ok hhn, hs1, Mem.namesOf_of_cellsOf hs2, anyPresent_spec wc hhc hvsc, bind, Except.bind, hany',
              Bool.false_eq_true, if_false, hov, hrun4, hrun5, pure, Except.pure]
          · rw [t5.arr_other _ hne]; exact harr4
  · -- a name occurs twice in the file
    have he2 := hnot2 hf0
    obtain ⟨e0, he0⟩ := Option.isSome_iff_exists.mp he2
    subst he0
    simp only
    obtain ⟨m3, hrun3, fr3, harr3⟩ := read_fail_path w hh hvs fr2 true (by simp [hfiles2]) (some e0)
    refine ⟨m3, 0, some e0, hrun3, fr3, ?_, fun _ => ⟨rfl, rfl, harr3⟩⟩
    intro hok
    exact absurd (freshAll_of_nil hok.2.1) hf0

end XrlCrystals
