import XrlCrystals.Lemmas.Arrays
/-!
# `Crystal_Find`, `Crystal_ArrayFree`, `Crystal_GetCrystalsList` with its release
-/
namespace XrlCrystals
variable {α : Type} {bcap : Nat} {m : Mem α}

/-! ### reading the vector of a live array -/

theorem slotsOf_spec (w : WF bcap m) {a : Nat} {h : Hdr} (hh : m.hdrs.get? a = some h) :
    ∃ cs vs, m.slotsOf h = .ok cs ∧ m.cellsOf cs = some vs ∧ m.arrOf a = some vs ∧ cs.length = h.n_crystal ∧
      (∀ c ∈ cs, c ∈ m.cellsM) ∧
      (match h.crystal with
       | none => cs = []
       | some b => ∃ bf, m.bufs.get? b = some bf ∧ bf.slots = cs) := by
  cases hc : h.crystal with
  | none =>
    obtain ⟨h1, _⟩ := w.hdr_none hh hc
    refine ⟨[], [], ?_, rfl, Mem.arrOf_eq_nil hh hc, h1.symm, by simp, rfl⟩
    unfold Mem.slotsOf; simp [hc, h1]
  | some b =>
    obtain ⟨bf, hb, _, hsl, _⟩ := w.buf_live hh hc
    obtain ⟨vs, hvs⟩ := w.cellsOf_some (fun c hcm => w.slot_mem hb hcm)
    refine ⟨bf.slots, vs, ?_, hvs, (Mem.arrOf_eq hh hc hb).trans hvs, hsl, fun c hcm => w.slot_mem hb hcm, ⟨bf, hb, rfl⟩⟩
    unfold Mem.slotsOf
    simp only [hc, Store.get_ok hb, bind, Except.bind, Mem.firstN, hsl, Nat.le_refl, if_true]
    rw [← hsl, List.take_length]

theorem find_spec (w : WF bcap m) {a : Nat} {h : Hdr} (hh : m.hdrs.get? a = some h) {vs : List (Crystal α)}
    (hv : m.arrOf a = some vs) (s : String) :
    Crystal_Find m s a = .ok ((vs.map (·.name)).findIdx? (· == s)) := by
  obtain ⟨cs, vs', h1, h2, h3, h4, _⟩ := slotsOf_spec w hh
  have : vs' = vs := by rw [hv] at h3; cases h3; rfl
  subst this
  unfold Crystal_Find
  simp only [Store.get_ok hh, bind, Except.bind]
  by_cases hz : h.n_crystal = 0
  · have : vs' = [] := by
      have := Mem.cellsOf_length h2
      rw [h4, hz] at this
      exact List.length_eq_zero_iff.mp this
    subst this
    simp [hz, pure, Except.pure]
  · simp only [hz, if_false, h1, Mem.namesOf_of_cellsOf h2, pure, Except.pure]

/-- the index found by the search denotes the crystal `find?` gives -/
theorem findIdx_names (vs : List (Crystal α)) (s : String) :
    match (vs.map (·.name)).findIdx? (· == s) with
    | none => vs.find? (fun c => c.name == s) = none
    | some i => ∃ v, vs[i]? = some v ∧ vs.find? (fun c => c.name == s) = some v := by
  induction vs with
  | nil => simp
  | cons v vs ih =>
    simp only [List.map_cons, List.findIdx?_cons, List.find?_cons]
    by_cases hv : (v.name == s) = true
    · simp [hv]
    · have hv' : (v.name == s) = false := by simpa using hv
      simp only [hv']
      cases hi : (vs.map (·.name)).findIdx? (· == s) with
      | none => rw [hi] at ih; simpa using ih
      | some i =>
        rw [hi] at ih
        obtain ⟨v', h1, h2⟩ := ih
        simp only [Option.map_some]
        exact ⟨v', by simpa using h1, h2⟩

/-! ### `Crystal_ArrayFree` -/

theorem freeCells_ok (m : Mem α) (cs : List (CStruct α)) (hn : (cs.map (·.name)).Nodup)
    (hl : ∀ c ∈ cs, ∃ s, m.strs.get? c.name = some s) (han : (cs.map (·.atom)).Nodup)
    (hal : ∀ c ∈ cs, ∃ av, m.atms.get? c.atom = some av) :
    freeCells m cs = .ok { m with strs := m.strs.freeMany (cs.map (·.name)), atms := m.atms.freeMany (cs.map (·.atom)) } := by
  induction cs generalizing m with
  | nil => rfl
  | cons c cs ih =>
    obtain ⟨s, hs⟩ := hl c List.mem_cons_self
    obtain ⟨av, hav⟩ := hal c List.mem_cons_self
    rw [List.map_cons, List.nodup_cons] at hn han
    unfold freeCells
    simp only [Store.free_ok' hs, Store.free_ok' hav, bind, Except.bind]
    rw [ih]
    · rfl
    · exact hn.2
    · intro c' hc'
      obtain ⟨s', hs'⟩ := hl c' (List.mem_cons_of_mem _ hc')
      refine ⟨s', ?_⟩
      show (m.strs.upd c.name none).get? c'.name = _
      rw [Store.get?_upd_ne _ _ (fun h => hn.1 (by rw [← h]; exact List.mem_map_of_mem hc'))]; exact hs'
    · exact han.2
    · intro c' hc'
      obtain ⟨av', hav'⟩ := hal c' (List.mem_cons_of_mem _ hc')
      refine ⟨av', ?_⟩
      show (m.atms.upd c.atom none).get? c'.atom = _
      rw [Store.get?_upd_ne _ _ (fun h => han.1 (by rw [← h]; exact List.mem_map_of_mem hc'))]; exact hav'

structure AFreePost (bcap : Nat) (m m' : Mem α) (a : Nat) : Prop where
  wf : WF bcap m'
  arr_a : m'.arrOf a = none
  arr_other : ∀ x, x ≠ a → m'.arrOf x = m.arrOf x
  obj : ∀ o, m'.objOf o = m.objOf o
  css : m'.css = m.css
  hlen : m'.hdrs.cells.length = m.hdrs.cells.length
  hdr_a : m'.hdrs.get? a = none
  hdr_other : ∀ x, x ≠ a → m'.hdrs.get? x = m.hdrs.get? x
  files : m'.files = m.files
  buf_other : ∀ x hx b, x ≠ a → m.hdrs.get? x = some hx → hx.crystal = some b → m'.bufs.get? b = m.bufs.get? b

/-- the memory after `Crystal_ArrayFree(a)`: `B` is the store of vectors without the one of `a` -/
def Mem.withoutArr (m : Mem α) (a : Nat) (cs : List (CStruct α)) (B : Store (Buf α)) : Mem α :=
  { m with strs := m.strs.freeMany (cs.map (·.name)), atms := m.atms.freeMany (cs.map (·.atom)), bufs := B,
           hdrs := m.hdrs.upd a none }

theorem withoutArr_post (w : WF bcap m) {a : Nat} {h : Hdr} (ha : a ≠ 0) (hh : m.hdrs.get? a = some h)
    (cs : List (CStruct α)) (B : Store (Buf α))
    (hBg : ∀ x, B.get? x = if h.crystal = some x then none else m.bufs.get? x)
    (hBc : m.cellsM = (cs : Multiset (CStruct α)) + cellsMS B m.css) :
    AFreePost bcap m (m.withoutArr a cs B) a := by
  obtain ⟨n0, hn0⟩ := w.h0
  have hH : ∀ x, x ≠ a → (m.hdrs.upd a none).get? x = m.hdrs.get? x := fun x hx => Store.get?_upd_ne _ _ hx
  have hHa : (m.hdrs.upd a none).get? a = none := Store.get?_upd_same hh _
  have hnn := w.names_nodup; rw [hBc] at hnn
  have han := w.atoms_nodup; rw [hBc] at han
  have hcsmem : ∀ c ∈ cs, c ∈ m.cellsM := fun c hc => by rw [hBc]; exact Multiset.mem_add.mpr (Or.inl (by simpa using hc))
  have hrestmem : ∀ c ∈ cellsMS B m.css, c ∈ m.cellsM := fun c hc => by rw [hBc]; exact Multiset.mem_add.mpr (Or.inr hc)
  -- structs outside the freed vector keep their strings and atoms
  have hkeep : ∀ c' ∈ cellsMS B m.css,
      (m.strs.freeMany (cs.map (·.name))).get? c'.name = m.strs.get? c'.name ∧
      (m.atms.freeMany (cs.map (·.atom))).get? c'.atom = m.atms.get? c'.atom := by
    intro c' hc'
    rw [Store.get?_freeMany, Store.get?_freeMany]
    have h1 : c'.name ∉ cs.map (·.name) := by
      intro hm
      obtain ⟨c, hc, he⟩ := List.mem_map.mp hm
      exact nodup_map_add_ne hnn (by simpa using hc : c ∈ (cs : Multiset (CStruct α))) hc' he
    have h2 : c'.atom ∉ cs.map (·.atom) := by
      intro hm
      obtain ⟨c, hc, he⟩ := List.mem_map.mp hm
      exact nodup_map_add_ne han (by simpa using hc : c ∈ (cs : Multiset (CStruct α))) hc' he
    simp [h1, h2]
  have hBother : ∀ x hx b, x ≠ a → m.hdrs.get? x = some hx → hx.crystal = some b → B.get? b = m.bufs.get? b := by
    intro x hx b hxa hgx hcx
    have : h.crystal ≠ some b := fun hc => hxa (w.buf_inj x a hx h b hgx hh hcx hc)
    rw [hBg]; simp [this]
  have hBsub : ∀ b bf, B.get? b = some bf → m.bufs.get? b = some bf ∧ h.crystal ≠ some b := by
    intro b bf hb
    rw [hBg] at hb
    split at hb
    · cases hb
    · next hne => exact ⟨hb, hne⟩
  have harr : ∀ x, x ≠ a → (m.withoutArr a cs B).arrOf x = m.arrOf x := by
    intro x hx
    apply Mem.arrOf_congr_at (hH x hx) (fun hx' b hg hc => hBother x hx' b hx hg hc)
    intro hx' b bf c hg hc hb hcm
    apply hkeep
    exact mem_cellsMS.mpr (Or.inl ⟨b, bf, (hBother x hx' b hx hg hc).trans hb, hcm⟩)
  refine ⟨⟨⟨n0, (hH 0 (Ne.symm ha)).trans hn0⟩, ?_, ?_, ?_, ?_, ?_, ?_, ?_, w.vecs⟩, Mem.arrOf_none hHa, harr, ?_, rfl,
    Store.length_upd _ _ _, hHa, hH, rfl, hBother⟩
  · intro x hx hgx
    have hxa : x ≠ a := by intro h'; subst h'; have := hHa.symm.trans hgx; cases this
    have hgx' := (hH x hxa).symm.trans hgx
    have hk := w.hdr_ok x hx hgx'
    unfold Mem.HdrOK at hk ⊢
    cases hc : hx.crystal with
    | none => rw [hc] at hk; exact hk
    | some b =>
      rw [hc] at hk
      obtain ⟨bf, h1, h2⟩ := hk
      exact ⟨bf, (hBother x hx b hxa hgx' hc).trans h1, h2⟩
  · intro x x' hx hx' b hgx hgx' hc hc'
    have hxa : x ≠ a := by intro h'; subst h'; have := hHa.symm.trans hgx; cases this
    have hxa' : x' ≠ a := by intro h'; subst h'; have := hHa.symm.trans hgx'; cases this
    exact w.buf_inj x x' hx hx' b ((hH x hxa).symm.trans hgx) ((hH x' hxa').symm.trans hgx') hc hc'
  · intro b bf hb
    obtain ⟨hb', hne⟩ := hBsub b bf hb
    obtain ⟨x, hx, hgx, hcx⟩ := w.buf_owned b bf hb'
    have hxa : x ≠ a := by
      intro hxa; subst hxa
      have : hx = h := by have := hgx.symm.trans hh; cases this; rfl
      subst this
      exact hne hcx
    exact ⟨x, hx, (hH x hxa).trans hgx, hcx⟩
  · have hl : ∀ p ∈ cs.map (·.name), ∃ v, m.strs.get? p = some v := by
      intro p hp
      obtain ⟨c, hc, rfl⟩ := List.mem_map.mp hp
      exact w.name_live (hcsmem c hc)
    have hnd : (cs.map (·.name)).Nodup := by
      rw [Multiset.map_add, Multiset.nodup_add] at hnn
      have := hnn.1
      rwa [Multiset.map_coe, Multiset.coe_nodup] at this
    have := w.names
    rw [hBc, Multiset.map_add, Store.domM_freeMany hnd hl, Multiset.map_coe] at this
    exact (add_right_inj _).mp this
  · have hl : ∀ p ∈ cs.map (·.atom), ∃ v, m.atms.get? p = some v := by
      intro p hp
      obtain ⟨c, hc, rfl⟩ := List.mem_map.mp hp
      obtain ⟨av, hav, _⟩ := w.natom c (hcsmem c hc)
      exact ⟨av, hav⟩
    have hnd : (cs.map (·.atom)).Nodup := by
      rw [Multiset.map_add, Multiset.nodup_add] at han
      have := han.1
      rwa [Multiset.map_coe, Multiset.coe_nodup] at this
    have := w.atoms
    rw [hBc, Multiset.map_add, Store.domM_freeMany hnd hl, Multiset.map_coe] at this
    exact (add_right_inj _).mp this
  · intro c hc
    obtain ⟨av, h1, h2⟩ := w.natom c (hrestmem c hc)
    exact ⟨av, (hkeep c hc).2.trans h1, h2⟩
  · intro x vs hv
    by_cases hx : x = a
    · subst hx; rw [Mem.arrOf_none hHa] at hv; cases hv
    · rw [harr x hx] at hv; exact w.sorted x vs hv
  · intro o
    exact Mem.objOf_frame (m := m) (m' := m.withoutArr a cs B) rfl
      (fun c hc => hkeep c (mem_cellsMS.mpr (Or.inr ⟨o, hc⟩)))

theorem arrayFree_null (m : Mem α) : Crystal_ArrayFree m none = .ok m := rfl

theorem arrayFree_spec (w : WF bcap m) {a : Nat} {h : Hdr} (ha : a ≠ 0) (hh : m.hdrs.get? a = some h) :
    ∃ m', Crystal_ArrayFree m (some a) = .ok m' ∧ AFreePost bcap m m' a := by
  obtain ⟨cs, vs, h1, h2, h3, h4, h5, h6⟩ := slotsOf_spec w hh
  have hnames : ∀ c ∈ cs, ∃ s, m.strs.get? c.name = some s := fun c hc => w.name_live (h5 c hc)
  have hatoms : ∀ c ∈ cs, ∃ av, m.atms.get? c.atom = some av := fun c hc => by
    obtain ⟨av, hav, _⟩ := w.natom c (h5 c hc); exact ⟨av, hav⟩
  cases hc : h.crystal with
  | none =>
    rw [hc] at h6
    subst h6
    refine ⟨m.withoutArr a [] m.bufs, ?_, withoutArr_post w ha hh [] m.bufs (by intro x; simp [hc]) (by simp [Mem.cellsM])⟩
    unfold Crystal_ArrayFree
    simp only [Store.get_ok hh, h1, bind, Except.bind, freeCells, hc, pure, Except.pure, Store.free_ok' hh]
    rfl
  | some b =>
    rw [hc] at h6
    obtain ⟨bf, hb, hbs⟩ := h6
    subst hbs
    have hBc : m.cellsM = (bf.slots : Multiset (CStruct α)) + cellsMS (m.bufs.upd b none) m.css := (cellsMS_updBuf m.css hb).1
    have hnn := w.names_nodup; rw [hBc, Multiset.map_add, Multiset.nodup_add] at hnn
    have han := w.atoms_nodup; rw [hBc, Multiset.map_add, Multiset.nodup_add] at han
    have hnd1 : (bf.slots.map (·.name)).Nodup := by have := hnn.1; rwa [Multiset.map_coe, Multiset.coe_nodup] at this
    have hnd2 : (bf.slots.map (·.atom)).Nodup := by have := han.1; rwa [Multiset.map_coe, Multiset.coe_nodup] at this
    refine ⟨m.withoutArr a bf.slots (m.bufs.upd b none), ?_, withoutArr_post w ha hh bf.slots (m.bufs.upd b none) ?_ hBc⟩
    · unfold Crystal_ArrayFree
      simp only [Store.get_ok hh, h1, bind, Except.bind, freeCells_ok m bf.slots hnd1 hnames hnd2 hatoms, hc, pure, Except.pure,
        Store.free_ok' hh, Store.free_ok' hb]
      rfl
    · intro x
      rw [Store.get?_upd_none, hc]
      by_cases hx : x = b
      · subst hx; simp
      · have : ¬ b = x := fun h => hx h.symm
        simp [hx, this]

end XrlCrystals
