import XrlCrystals.Hand.Crystals
import Mathlib.Data.Multiset.Bind
import Mathlib.Data.Multiset.UnionInter
import Mathlib.Tactic.Abel
/-!
# Stores: frame lemmas and the multisets of live addresses / live blocks
-/
namespace XrlCrystals
namespace Store
variable {β : Type}

theorem get?_def (s : Store β) (a : Nat) : s.get? a = (s.cells[a]?).join := rfl

theorem get?_lt {s : Store β} {a : Nat} {v : β} (h : s.get? a = some v) : a < s.cells.length := by
  unfold get? at h
  by_contra hlt
  rw [List.getElem?_eq_none (Nat.le_of_not_lt hlt)] at h
  simp at h

theorem get?_ge {s : Store β} {a : Nat} (h : s.cells.length ≤ a) : s.get? a = none := by
  unfold get?; rw [List.getElem?_eq_none h]; rfl

/-! ### alloc -/
theorem alloc_snd (s : Store β) (v : β) : (s.alloc v).2 = s.cells.length := rfl
theorem alloc_cells (s : Store β) (v : β) : (s.alloc v).1.cells = s.cells ++ [some v] := rfl

theorem get?_alloc_new (s : Store β) (v : β) : (s.alloc v).1.get? s.cells.length = some v := by
  simp [get?, alloc]

theorem get?_alloc_of_lt (s : Store β) (v : β) {a : Nat} (h : a < s.cells.length) :
    (s.alloc v).1.get? a = s.get? a := by
  simp [get?, alloc, List.getElem?_append_left h]

theorem get?_alloc (s : Store β) (v : β) (a : Nat) :
    (s.alloc v).1.get? a = if a = s.cells.length then some v else s.get? a := by
  split
  · next h => subst h; exact get?_alloc_new s v
  · next h =>
    rcases Nat.lt_or_gt_of_ne h with h | h
    · exact get?_alloc_of_lt s v h
    · rw [get?_ge (Nat.le_of_lt h), get?_ge]; simp [alloc]; omega

theorem get?_alloc_of_some (s : Store β) (v : β) {a : Nat} {w : β} (h : s.get? a = some w) :
    (s.alloc v).1.get? a = some w := by
  rw [get?_alloc_of_lt s v (get?_lt h), h]

theorem length_alloc (s : Store β) (v : β) : (s.alloc v).1.cells.length = s.cells.length + 1 := by
  simp [alloc]

/-! ### get / set / free as `Except` -/
theorem get_ok {s : Store β} {a : Nat} {v : β} (h : s.get? a = some v) : s.get a = .ok v := by
  simp [get, h]

theorem get_eq_ok {s : Store β} {a : Nat} {v : β} : s.get a = .ok v ↔ s.get? a = some v := by
  unfold get; split <;> simp_all

theorem set_ok {s : Store β} {a : Nat} {w : β} (v : β) (h : s.get? a = some w) :
    s.set a v = .ok ⟨s.cells.set a (some v)⟩ := by
  simp [set, h]

theorem free_ok {s : Store β} {a : Nat} {w : β} (h : s.get? a = some w) :
    s.free a = .ok ⟨s.cells.set a none⟩ := by
  simp [free, h]

theorem set_eq_ok {s s' : Store β} {a : Nat} {v : β} (h : s.set a v = .ok s') :
    (∃ w, s.get? a = some w) ∧ s' = ⟨s.cells.set a (some v)⟩ := by
  unfold set at h; split at h
  · next w hw => exact ⟨⟨w, hw⟩, by injection h with h; exact h.symm⟩
  · cases h

theorem free_eq_ok {s s' : Store β} {a : Nat} (h : s.free a = .ok s') :
    (∃ w, s.get? a = some w) ∧ s' = ⟨s.cells.set a none⟩ := by
  unfold free at h; split at h
  · next w hw => exact ⟨⟨w, hw⟩, by injection h with h; exact h.symm⟩
  · cases h

/-- the store after `set` -/
def upd (s : Store β) (a : Nat) (v : Option β) : Store β := ⟨s.cells.set a v⟩

theorem get?_upd (s : Store β) (a : Nat) (v : Option β) (x : Nat) :
    (s.upd a v).get? x = if x = a ∧ a < s.cells.length then v else s.get? x := by
  unfold upd get?
  simp only [List.getElem?_set]
  by_cases hx : a = x
  · subst hx
    by_cases hl : a < s.cells.length
    · simp [hl]
    · simp [hl, List.getElem?_eq_none (Nat.le_of_not_lt hl)]
  · have : ¬ x = a := fun h => hx h.symm
    simp [hx, this]

theorem get?_upd_same {s : Store β} {a : Nat} {w : β} (h : s.get? a = some w) (v : Option β) :
    (s.upd a v).get? a = v := by
  rw [get?_upd]; simp [get?_lt h]

theorem get?_upd_ne (s : Store β) {a x : Nat} (v : Option β) (h : x ≠ a) :
    (s.upd a v).get? x = s.get? x := by
  rw [get?_upd]; simp [h]

theorem length_upd (s : Store β) (a : Nat) (v : Option β) : (s.upd a v).cells.length = s.cells.length := by
  simp [upd]

theorem set_ok' {s : Store β} {a : Nat} {w : β} (v : β) (h : s.get? a = some w) :
    s.set a v = .ok (s.upd a (some v)) := set_ok v h

theorem free_ok' {s : Store β} {a : Nat} {w : β} (h : s.get? a = some w) :
    s.free a = .ok (s.upd a none) := free_ok h

/-! ### live blocks as multisets -/
def valsM (s : Store β) : Multiset β := (s.vals : Multiset β)
def domM (s : Store β) : Multiset Nat := (s.dom : Multiset Nat)

theorem vals_alloc (s : Store β) (v : β) : (s.alloc v).1.vals = s.vals ++ [v] := by
  simp [vals, alloc, List.filterMap_append]

theorem valsM_alloc (s : Store β) (v : β) : (s.alloc v).1.valsM = v ::ₘ s.valsM := by
  unfold valsM; rw [vals_alloc]
  rw [← Multiset.coe_add, Multiset.coe_singleton, add_comm, Multiset.singleton_add]

theorem cells_split {s : Store β} {a : Nat} {w : β} (h : s.get? a = some w) :
    ∃ l1 l2, s.cells = l1 ++ some w :: l2 ∧ l1.length = a := by
  have hl := get?_lt h
  refine ⟨s.cells.take a, s.cells.drop (a + 1), ?_, by simp [Nat.min_eq_left (Nat.le_of_lt hl)]⟩
  have hw : s.cells[a] = some w := by
    unfold get? at h
    rw [List.getElem?_eq_getElem hl] at h
    simpa using h
  rw [← hw]
  simp

theorem valsM_upd {s : Store β} {a : Nat} {w : β} (h : s.get? a = some w) :
    ∃ r : Multiset β, s.valsM = w ::ₘ r ∧ (∀ v, (s.upd a (some v)).valsM = v ::ₘ r) ∧ (s.upd a none).valsM = r := by
  obtain ⟨l1, l2, hc, hl⟩ := cells_split h
  refine ⟨((l1.filterMap id ++ l2.filterMap id : List β) : Multiset β), ?_, ?_, ?_⟩
  · unfold valsM vals; rw [hc]
    simp only [List.filterMap_append, List.filterMap_cons, id]
    rw [Multiset.cons_coe]
    exact Multiset.coe_eq_coe.mpr (List.perm_middle)
  · intro v
    unfold valsM vals upd; rw [hc]
    simp only [← hl, List.set_append_right _ _ (Nat.le_refl _), Nat.sub_self, List.set_cons_zero,
      List.filterMap_append, List.filterMap_cons, id]
    rw [Multiset.cons_coe]
    exact Multiset.coe_eq_coe.mpr (List.perm_middle)
  · unfold valsM vals upd; rw [hc]
    simp only [← hl, List.set_append_right _ _ (Nat.le_refl _), Nat.sub_self, List.set_cons_zero,
      List.filterMap_append, List.filterMap_cons, id]

theorem mem_valsM {s : Store β} {v : β} : v ∈ s.valsM ↔ ∃ a, s.get? a = some v := by
  unfold valsM vals get?
  simp only [Multiset.mem_coe, List.mem_filterMap, id]
  constructor
  · rintro ⟨o, ho, rfl⟩
    obtain ⟨a, ha⟩ := List.mem_iff_getElem?.mp ho
    exact ⟨a, by rw [ha]; rfl⟩
  · rintro ⟨a, ha⟩
    refine ⟨some v, ?_, rfl⟩
    cases hc : s.cells[a]? with
    | none => rw [hc] at ha; cases ha
    | some o =>
      rw [hc] at ha
      have : o = some v := by simpa using ha
      subst this
      exact List.mem_of_getElem? hc

/-- live addresses -/
theorem mem_dom {s : Store β} {a : Nat} : a ∈ s.dom ↔ ∃ v, s.get? a = some v := by
  unfold dom
  simp only [List.mem_filter, List.mem_range, Option.isSome_iff_exists]
  constructor
  · rintro ⟨_, h⟩; exact h
  · rintro ⟨v, h⟩; exact ⟨get?_lt h, v, h⟩

theorem nodup_dom (s : Store β) : s.dom.Nodup :=
  List.Nodup.filter _ List.nodup_range

theorem mem_domM {s : Store β} {a : Nat} : a ∈ s.domM ↔ ∃ v, s.get? a = some v := by
  unfold domM; rw [Multiset.mem_coe]; exact mem_dom

theorem nodup_domM (s : Store β) : s.domM.Nodup := Multiset.coe_nodup.mpr (nodup_dom s)

/-- two stores with the same live addresses have the same `domM` -/
theorem domM_congr {γ : Type} {s : Store β} {t : Store γ} (h : ∀ a, (s.get? a).isSome = (t.get? a).isSome) :
    s.domM = t.domM := by
  apply Multiset.Nodup.ext (nodup_domM s) (nodup_domM t) |>.mpr
  intro a
  rw [mem_domM, mem_domM]
  have := h a
  constructor
  · rintro ⟨v, hv⟩; rw [hv] at this; exact Option.isSome_iff_exists.mp this.symm
  · rintro ⟨v, hv⟩; rw [hv] at this; exact Option.isSome_iff_exists.mp this

theorem domM_alloc (s : Store β) (v : β) : (s.alloc v).1.domM = s.cells.length ::ₘ s.domM := by
  apply Multiset.Nodup.ext (nodup_domM _) ?_ |>.mpr
  · intro a
    rw [mem_domM, Multiset.mem_cons, mem_domM, get?_alloc]
    by_cases h : a = s.cells.length
    · simp [h]
    · simp [h]
  · rw [Multiset.nodup_cons]
    refine ⟨?_, nodup_domM s⟩
    rw [mem_domM]; rintro ⟨v, hv⟩; exact Nat.lt_irrefl _ (get?_lt hv)

theorem domM_upd_some {s : Store β} {a : Nat} {w : β} (h : s.get? a = some w) (v : β) :
    (s.upd a (some v)).domM = s.domM := by
  apply domM_congr
  intro x
  rw [get?_upd]
  by_cases hx : x = a
  · subst hx; simp [get?_lt h, h]
  · simp [hx]

theorem domM_upd_none {s : Store β} {a : Nat} {w : β} (h : s.get? a = some w) :
    s.domM = a ::ₘ (s.upd a none).domM := by
  apply Multiset.Nodup.ext (nodup_domM _) ?_ |>.mpr
  · intro x
    rw [mem_domM, Multiset.mem_cons, mem_domM, get?_upd]
    by_cases hx : x = a
    · subst hx; simp [h]
    · simp [hx]
  · rw [Multiset.nodup_cons]
    refine ⟨?_, nodup_domM _⟩
    rw [mem_domM, get?_upd_same h]; simp


theorem get?_upd_none (s : Store β) (a x : Nat) : (s.upd a none).get? x = if x = a then none else s.get? x := by
  rw [get?_upd]
  by_cases hx : x = a
  · subst hx
    by_cases hl : x < s.cells.length
    · simp [hl]
    · simp [hl, get?_ge (Nat.le_of_not_lt hl)]
  · simp [hx]

/-! ### freeing a list of addresses -/
def freeMany (s : Store β) (L : List Nat) : Store β := L.foldl (fun s p => s.upd p none) s

theorem get?_freeMany (s : Store β) (L : List Nat) (x : Nat) :
    (s.freeMany L).get? x = if x ∈ L then none else s.get? x := by
  induction L generalizing s with
  | nil => simp [freeMany]
  | cons p L ih =>
    show ((s.upd p none).freeMany L).get? x = _
    rw [ih, get?_upd_none]
    by_cases h1 : x ∈ L <;> by_cases h2 : x = p <;> simp [h1, h2]

theorem length_freeMany (s : Store β) (L : List Nat) : (s.freeMany L).cells.length = s.cells.length := by
  induction L generalizing s with
  | nil => rfl
  | cons p L ih => show ((s.upd p none).freeMany L).cells.length = _; rw [ih, length_upd]

theorem domM_freeMany {s : Store β} {L : List Nat} (hn : L.Nodup) (hl : ∀ p ∈ L, ∃ v, s.get? p = some v) :
    s.domM = (L : Multiset Nat) + (s.freeMany L).domM := by
  induction L generalizing s with
  | nil => simp [freeMany]
  | cons p L ih =>
    obtain ⟨v, hv⟩ := hl p List.mem_cons_self
    rw [List.nodup_cons] at hn
    have hl' : ∀ q ∈ L, ∃ v, (s.upd p none).get? q = some v := by
      intro q hq
      obtain ⟨w, hw⟩ := hl q (List.mem_cons_of_mem _ hq)
      refine ⟨w, ?_⟩
      rw [get?_upd_ne _ _ (fun h : q = p => hn.1 (by rw [← h]; exact hq))]; exact hw
    show s.domM = _ + ((s.upd p none).freeMany L).domM
    rw [domM_upd_none hv, ih hn.2 hl', ← Multiset.cons_coe, Multiset.cons_add]

/-- the `free` loop succeeds on distinct live addresses -/
theorem freeMany_ok {s : Store β} {L : List Nat} (hn : L.Nodup) (hl : ∀ p ∈ L, ∃ v, s.get? p = some v) :
    ∀ p ∈ L, ∀ L1 L2, L = L1 ++ p :: L2 → ∃ v, (s.freeMany L1).get? p = some v := by
  intro p _ L1 L2 hL
  obtain ⟨v, hv⟩ := hl p (by rw [hL]; simp)
  refine ⟨v, ?_⟩
  rw [get?_freeMany]
  have : p ∉ L1 := by
    rw [hL] at hn
    have := (List.nodup_append.mp hn).2.2
    intro hp
    exact this p hp p List.mem_cons_self rfl
  simp [this, hv]


theorem upd_upd (s : Store β) (a : Nat) (x y : Option β) : (s.upd a x).upd a y = s.upd a y := by
  unfold upd; simp [List.set_set]


/-! ### a block that is allocated and released again -/
theorem get?_alloc_free (s : Store β) (v : β) (x : Nat) : ((s.alloc v).1.upd s.cells.length none).get? x = s.get? x := by
  rw [get?_upd_none, get?_alloc]
  by_cases hx : x = s.cells.length
  · subst hx; simp [get?_ge (Nat.le_refl _)]
  · simp [hx]

theorem valsM_alloc_free (s : Store β) (v : β) : ((s.alloc v).1.upd s.cells.length none).valsM = s.valsM := by
  obtain ⟨r, h1, _, h3⟩ := valsM_upd (get?_alloc_new s v)
  rw [valsM_alloc] at h1
  rw [h3]
  exact ((Multiset.cons_inj_right _).mp h1).symm

theorem length_alloc_free (s : Store β) (v : β) : ((s.alloc v).1.upd s.cells.length none).cells.length = s.cells.length + 1 := by
  rw [length_upd, length_alloc]

theorem alloc_free_ok (s : Store β) (v : β) : (s.alloc v).1.free s.cells.length = .ok ((s.alloc v).1.upd s.cells.length none) :=
  free_ok' (get?_alloc_new s v)

end Store
end XrlCrystals
