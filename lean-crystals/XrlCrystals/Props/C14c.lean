import XrlCrystals.Gen.Facts
import XrlCrystals.Hand.Skeleton
import XrlCrystals.Hand.Reader
import XrlCrystals.Hand.Caller
/-!
# C14, the tie of the hand model to the C source: extracted structure = modelled structure

`tools/c14_facts.py` extracts on every run, from the clang AST of `src/crystal_diffraction.c` and `src/xrayvars.c` of the
working tree, the statement skeleton of the ten container functions and the two comparators, and the constants the hand
model uses (`Gen/Facts.lean`).  The theorems here say that what was extracted is what the model was written against:

* `code_skeleton_*` — the extracted statement skeleton of each function is the recorded one (`Hand/Skeleton.lean`):
  order of checks, error codes and messages, allocation sizes, growth step, `qsort`/`bsearch` arguments and comparators,
  scanf formats, `fgets` length, the release order at `fail:` …;
* `model_constants_are_extracted` — the constants that occur in the *model* (growth step, error codes, `fgets` length,
  `%20s` width via the formats, buffer sizes) equal the extracted ones;
* `model_errors_are_extracted` — the error objects the model produces (by running it on small states) are the code and
  message of the corresponding `xrl_set_error*` call site of the C source.

A full machine translation of these functions (heap cells, `realloc`, struct assignment, `goto fail`) into Lean with a
refinement proof against `Hand/Crystals.lean` was judged out of reach in this round; see notes/C1415B_REPORT.md for what blocks it.
-/
namespace XrlCrystals
namespace C14
open Gen.Facts

theorem code_skeleton_Crystal_Find : skel_Crystal_Find = Skeleton.Crystal_Find := rfl
theorem code_skeleton_Crystal_ExtendArray : skel_Crystal_ExtendArray = Skeleton.Crystal_ExtendArray := rfl
theorem code_skeleton_Crystal_ArrayInit : skel_Crystal_ArrayInit = Skeleton.Crystal_ArrayInit := rfl
theorem code_skeleton_Crystal_ArrayFree : skel_Crystal_ArrayFree = Skeleton.Crystal_ArrayFree := rfl
theorem code_skeleton_Crystal_MakeCopy : skel_Crystal_MakeCopy = Skeleton.Crystal_MakeCopy := rfl
theorem code_skeleton_Crystal_Free : skel_Crystal_Free = Skeleton.Crystal_Free := rfl
theorem code_skeleton_Crystal_GetCrystalsList : skel_Crystal_GetCrystalsList = Skeleton.Crystal_GetCrystalsList := rfl
theorem code_skeleton_Crystal_GetCrystal : skel_Crystal_GetCrystal = Skeleton.Crystal_GetCrystal := rfl
theorem code_skeleton_Crystal_AddCrystal : skel_Crystal_AddCrystal = Skeleton.Crystal_AddCrystal := rfl
theorem code_skeleton_Crystal_ReadFile : skel_Crystal_ReadFile = Skeleton.Crystal_ReadFile := rfl
theorem code_skeleton_compareCrystalStructs : skel_compareCrystalStructs = Skeleton.compareCrystalStructs := rfl
theorem code_skeleton_matchCrystalStruct : skel_matchCrystalStruct = Skeleton.matchCrystalStruct := rfl

/-- the constants of the model are the constants of the code -/
theorem model_constants_are_extracted :
    N_NEW_CRYSTAL = growthStep ∧
    errorCodes.lookup "XRL_ERROR_INVALID_ARGUMENT" = some XRL_ERROR_INVALID_ARGUMENT ∧
    errorCodes.lookup "XRL_ERROR_IO" = some XRL_ERROR_IO ∧
    errorCodes.lookup "XRL_ERROR_RUNTIME" = some XRL_ERROR_RUNTIME ∧
    Reader.FGETS_N = fgetsN ∧
    scanFormats = Reader.FORMATS ∧
    buffers = [("tag", s!"char[{Reader.NAME_W + 1}]"), ("compound", s!"char[{Reader.NAME_W + 1}]"), ("buffer", "char[512]")] ∧
    Reader.FGETS_N ≤ 512 := by
  decide

/-! ### the model's error objects are those of the call sites -/

/-- the `k`-th `xrl_set_error*` site of function `fn`: its code (through the enumerator table) and its message with the
conversion specifications replaced by `args` in order -/
def fillFmt : List Char → List String → List Char
  | '%' :: 's' :: t, a :: as => a.toList ++ fillFmt t as
  | '%' :: 'd' :: t, a :: as => a.toList ++ fillFmt t as
  | c :: t, as => c :: fillFmt t as
  | [], _ => []

def unquote (s : String) : List Char := (s.toList.drop 1).dropLast

def site (fn : String) (k : Nat) (args : List String := []) : Option Err :=
  ((errorSites.filter (fun e => e.1 == fn))[k]?).bind (fun e =>
    (errorCodes.lookup e.2.1).map (fun c => ⟨c, String.ofList (fillFmt (unquote e.2.2) args)⟩))

def volT (c : Cell Nat) : Nat := c.a * c.b * c.c
def crT (n : String) (a : Nat) : Crystal Nat := ⟨n, ⟨a, a, a, 90, 90, 90⟩, 7, [⟨14, 1, 0, 0, 0⟩]⟩
/-- a process image whose built-in collection (capacity 2) is full -/
def σ0 : CState Nat := initState 2 [crT "Diamond" 3, crT "Si" 5]

/-- the error a step of the model reports (`none`: the step is undefined) -/
def errOf (op : Op Nat) : Option (Option Err) :=
  match cstep volT σ0 op with
  | .ok (_, o) => some o.err
  | .error _ => none

def parsedBad (e : ParseErr) : Op Nat := .read (.user 0) (.content ⟨[], some e⟩)
/-- the same with a user array to read into -/
def errOfRead (e : ParseErr) : Option (Option Err) :=
  match cstep volT σ0 (.init 0) with
  | .ok (σ, _) =>
    match cstep volT σ (parsedBad e) with
    | .ok (_, o) => some o.err
    | .error _ => none
  | .error _ => none

set_option maxRecDepth 100000 in
theorem model_errors_are_extracted :
    errOf (.add .builtin (.lit (crT "Zz" 1))) = some (site "Crystal_ExtendArray" 0) ∧
    errOf (.init (-1)) = some (site "Crystal_ArrayInit" 1) ∧
    errOf (.copy .null) = some (site "Crystal_MakeCopy" 0) ∧
    errOf (.get .builtin none) = some (site "Crystal_GetCrystal" 0) ∧
    errOf (.get .builtin (some "Zz")) = some (site "Crystal_GetCrystal" 1 ["Zz"]) ∧
    errOf (.add .builtin .null) = some (site "Crystal_AddCrystal" 0) ∧
    errOf (.add .builtin (.lit (crT "Si" 1))) = some (site "Crystal_AddCrystal" 1) ∧
    errOf (.read .builtin .nullName) = some (site "Crystal_ReadFile" 0) ∧
    errOfRead .sLine = some (site "Crystal_ReadFile" 2) ∧
    errOfRead (.multiUcell "Xy") = some (site "Crystal_ReadFile" 4 ["Xy"]) ∧
    errOfRead (.badUcell "Xy") = some (site "Crystal_ReadFile" 5 ["Xy"]) ∧
    errOfRead (.noUcell "Xy") = some (site "Crystal_ReadFile" 6 ["Xy"]) ∧
    errOfRead (.eof "Xy") = some (site "Crystal_ReadFile" 7) ∧
    errOfRead (.atomLine "Xy" 3 5) = some (site "Crystal_ReadFile" 9 ["3", "Xy"]) := by
  decide

/-- the two errors of the merge stage (a name of the file is present; the built-in collection would overflow).  The file's
crystals go through `qsort` (`List.mergeSort`, well-founded recursion) first: evaluated by the kernel. -/
theorem model_merge_errors_are_extracted :
    errOf (.read .builtin (.content ⟨[crT "Si" 1], none⟩)) = some (site "Crystal_ReadFile" 10) ∧
    errOf (.read .builtin (.content ⟨[crT "Zz" 1], none⟩)) = some (site "Crystal_ReadFile" 11) := by
  decide +kernel

/-- the comparators are `strcmp` on the names, in the argument order `qsort` / `bsearch` hand them over -/
theorem comparators_are_strcmp_on_names :
    skel_compareCrystalStructs.getLast? = some "1 return strcmp(ca1->name, ca2->name)" ∧
    skel_matchCrystalStruct.getLast? = some "1 return strcmp(ca1, ca2->name)" ∧
    "1 call qsort(c_array->crystal, c_array->n_crystal, sizeof(Crystal_Struct), compareCrystalStructs)" ∈ skel_Crystal_AddCrystal ∧
    "1 return bsearch(material, c_array->crystal, c_array->n_crystal, sizeof(Crystal_Struct), matchCrystalStruct)" ∈ skel_Crystal_Find := by
  decide

end C14
end XrlCrystals
