import XrlCrystals.Lemmas.Reader
/-!
# C14, the file clauses: what `Crystal_ReadFile` loads is what the file says

`Props/C14.lean` proves the refinement for every *parsed* file content.  Here the parsed content is no longer an
input: `Reader.readText` (Hand/Reader.lean) is a character-level model of the reading loop of `Crystal_ReadFile`
(`fgets` / `sscanf` / `fscanf` on the characters of the file), compared with the library on the bytes of every
generated file on every run.  Theorems:

* `loaded_crystals_retrievable` — the dictionary clause for files: after a successful load every crystal of the file is
  found under its name with the cell and atoms of the file and its volume recomputed; no other lookup changes;
* `file_record_is_stored_cell` — record → stored cell: whatever text the reader model accepts, each record it scans
  is afterwards retrievable with exactly the scanned cell values and atoms (converted to the numeric carrier),
  under a name of 1..20 characters;
* `reader_never_reads_uninitialised` — the repaired loop never looks at `buffer` before `fgets` stored a line in it
  (the defect repaired by /repo c7c36f9: a 0-byte file was parsed from the stale stack buffer);
* `reader_empty_file` — a file of 0 bytes is a file without crystals, not an error;
* `reader_names_fit` — `%20s`: every name the reader hands on has between 1 and 20 characters;
* kernel-evaluated examples of the reader on literal file texts (exponent, sign, tab, CR LF, `Biso` column, `%i`
  prefixes, a 100+ character comment line, a final newline after the last atom, the kinds of malformed entry).
-/
namespace XrlCrystals

def Cell.mapNum {α β : Type} (f : α → β) (c : Cell α) : Cell β := ⟨f c.a, f c.b, f c.c, f c.alpha, f c.beta, f c.gamma⟩
def Atom.mapNum {α β : Type} (f : α → β) (a : Atom α) : Atom β := ⟨a.Z, f a.fraction, f a.x, f a.y, f a.z⟩
def Crystal.mapNum {α β : Type} (f : α → β) (c : Crystal α) : Crystal β :=
  ⟨c.name, c.cell.mapNum f, f c.volume, c.atoms.map (Atom.mapNum f)⟩

namespace C14
variable {α : Type} {bcap : Nat} (vol : Cell α → α)

/-- *the same for crystals loaded by ReadFile*: all crystals of a file (names pairwise different, none present) are
afterwards found under their names, as given and with the volume recomputed; every other lookup is unchanged. -/
theorem loaded_crystals_retrievable (d : Dict α) (cs : List (Crystal α)) (hnd : (cs.map (·.name)).Nodup)
    (hnew : ∀ c ∈ cs, d.has c.name = false) :
    (∀ c ∈ cs, (d.putAll vol cs).find c.name = some { c with volume := vol c.cell }) ∧
      ∀ n, n ∉ cs.map (·.name) → (d.putAll vol cs).find n = d.find n := by
  have hf : freshAll d.items cs := by
    refine ⟨hnd, ?_⟩
    intro n hn
    obtain ⟨c, hc, rfl⟩ := List.mem_map.mp hn
    have := hnew c hc
    simpa [Dict.has, Dict.names] using this
  constructor
  · intro c hc
    show (d.putAll vol cs).items.find? _ = _
    rw [putAll_items]
    exact find_insAll_mem vol cs d.items hf hc
  · intro n hn
    show (d.putAll vol cs).items.find? _ = d.items.find? _
    rw [putAll_items]
    exact find_insAll_other vol cs d.items hn

private theorem dict_setDict (s : AState α) (arr : ARef) {t : Option Nat} (ht : s.target arr = some t) (d : Dict α) :
    (s.setDict t d).dict t = d := by
  cases t with
  | none => rfl
  | some i =>
    have hi : i < s.arrs.length := by
      cases arr with
      | builtin => simp [AState.target] at ht
      | user j =>
        simp only [AState.target] at ht
        split at ht
        · simp at ht
        · next heq =>
          simp only [Option.some.injEq] at ht
          subst ht
          exact (List.getElem?_eq_some_iff.mp heq).1
        · simp at ht
    simp [AState.setDict, AState.dict, List.getElem?_set_self hi]

/-- **record → stored cell.**  For every file text: when the reader model accepts it (`good`, no malformed entry) and the
specification accepts the load (names pairwise different, none present, room in the built-in collection), the call
succeeds and every scanned record is afterwards retrievable under its name — 1 to 20 characters — with exactly the scanned
cell values and atoms (through the number conversion `conv`, in the library `strtod`) and the recomputed volume;
lookups of other names are unchanged. -/
theorem file_record_is_stored_cell (conv : Dec → α) (text : List Char) (good : List (Crystal Dec))
    (hread : Reader.readText text = .parsed ⟨good, none⟩)
    (s : AState α) (arr : ARef) {t : Option Nat} (ht : s.target arr = some t)
    (hnd : (good.map (·.name)).Nodup) (hnew : ∀ c ∈ good, (s.dict t).has c.name = false)
    (hroom : s.room bcap t good.length = true) :
    ∃ s', astep vol bcap s (.read arr (.content ⟨good.map (Crystal.mapNum conv), none⟩)) = some (s', ⟨.int 1, false⟩) ∧
      (∀ c ∈ good, 1 ≤ c.name.length ∧ c.name.length ≤ 20 ∧
        (s'.dict t).find c.name =
          some ⟨c.name, c.cell.mapNum conv, vol (c.cell.mapNum conv), c.atoms.map (Atom.mapNum conv)⟩) ∧
      ∀ n, n ∉ good.map (·.name) → (s'.dict t).find n = (s.dict t).find n := by
  have hnames : (good.map (Crystal.mapNum conv)).map (·.name) = good.map (·.name) := by
    rw [List.map_map]; rfl
  have hnd' : ((good.map (Crystal.mapNum conv)).map (·.name)).Nodup := by rw [hnames]; exact hnd
  have hnew' : ∀ c ∈ good.map (Crystal.mapNum conv), (s.dict t).has c.name = false := by
    intro c hc
    obtain ⟨c0, hc0, rfl⟩ := List.mem_map.mp hc
    exact hnew c0 hc0
  have hany : (good.map (·.name)).any (s.dict t).has = false := by
    rw [List.any_eq_false]
    intro n hn
    obtain ⟨c, hc, rfl⟩ := List.mem_map.mp hn
    simp [hnew c hc]
  obtain ⟨h1, h2⟩ := loaded_crystals_retrievable vol (s.dict t) (good.map (Crystal.mapNum conv)) hnd' hnew'
  refine ⟨s.setDict t ((s.dict t).putAll vol (good.map (Crystal.mapNum conv))), ?_, ?_, ?_⟩
  · simp only [astep, ht, Option.bind_eq_bind, Option.bind_some, Option.isSome_none, Bool.false_eq_true, hnames,
      decide_eq_true hnd, hany, List.length_map, hroom, Bool.not_true, Bool.or_self, ↓reduceIte]
  · intro c hc
    have hfit := Reader.outerLoop_names _ _ _ _ (by intro c hc; cases hc) hread c hc
    refine ⟨hfit.1, hfit.2, ?_⟩
    rw [dict_setDict s arr ht]
    exact h1 (Crystal.mapNum conv c) (List.mem_map_of_mem hc)
  · intro n hn
    rw [dict_setDict s arr ht]
    exact h2 n (by rw [hnames]; exact hn)

/-- the repaired reading loop never looks at `buffer` before `fgets` stored a line in it (no uninitialised read, whatever
the bytes of the file) -/
theorem reader_never_reads_uninitialised (text : List Char) (u : UB) : Reader.readText text ≠ .ub u :=
  Reader.outerLoop_ne_ub _ _ _ u

/-- a file of 0 bytes holds no crystal and is not an error -/
theorem reader_empty_file : Reader.readText [] = .parsed ⟨[], none⟩ := by decide

/-- `%20s`: every name the reader hands on has between 1 and 20 characters -/
theorem reader_names_fit (text : List Char) (p : Parsed Dec) (h : Reader.readText text = .parsed p) :
    ∀ c ∈ p.good, 1 ≤ c.name.length ∧ c.name.length ≤ 20 :=
  Reader.outerLoop_names _ _ _ p (by intro c hc; cases hc) h

/-! ## Non-vacuity and kernel-evaluated readings of literal file texts -/

open Reader in
/-- CR LF line ends, a tab after `#UCELL`, `+`, exponent forms, a trailing `.`, a `Biso` column, an octal atomic number, no `#`
line after the last atom but a final newline: one crystal, values exactly those of the text -/
def sampleText : String :=
  "#F x\n#S 14 Si\r\n#UCELL\t5.4307 +5.4307 54307e-4 90 9.E1 90.0\r\n#L  AtomicNumber  Fraction  X  Y  Z  Biso\r\n14 1.0 0 0 0 0.5\r\n010 .5 -.25 1e-1 0.75 0.7\n"

def sampleCrystal : Crystal Dec :=
  ⟨"Si", ⟨⟨false, 54307, -4⟩, ⟨false, 54307, -4⟩, ⟨false, 54307, -4⟩, ⟨false, 90, 0⟩, ⟨false, 9, 1⟩, ⟨false, 900, -1⟩⟩, ⟨false, 0, 0⟩,
    [⟨14, ⟨false, 10, -1⟩, ⟨false, 0, 0⟩, ⟨false, 0, 0⟩, ⟨false, 0, 0⟩⟩, ⟨8, ⟨false, 5, -1⟩, ⟨true, 25, -2⟩, ⟨false, 1, -1⟩, ⟨false, 75, -2⟩⟩]⟩

set_option maxRecDepth 100000 in
theorem sample_reads : Reader.readText sampleText.toList = .parsed ⟨[sampleCrystal], none⟩ := by decide

/-- instance of `file_record_is_stored_cell` (carrier: the exact decimals themselves; "volume" = the first cell edge) -/
example : ∃ s', astep (fun c : Cell Dec => c.a) 512 (initAbs []) (.read .builtin (.content ⟨[sampleCrystal].map (Crystal.mapNum id), none⟩)) =
      some (s', ⟨.int 1, false⟩) ∧
    (s'.dict none).find "Si" = some ⟨"Si", sampleCrystal.cell.mapNum id, ⟨false, 54307, -4⟩, sampleCrystal.atoms.map (Atom.mapNum id)⟩ := by
  obtain ⟨s', h1, h2, _⟩ := file_record_is_stored_cell (bcap := 512) (fun c : Cell Dec => c.a) id sampleText.toList [sampleCrystal] sample_reads
    (initAbs []) .builtin (t := none) rfl (by decide) (by decide) (by decide)
  exact ⟨s', h1, (h2 sampleCrystal (by simp)).2.2⟩

/-- instance of `loaded_crystals_retrievable` -/
example : ((⟨[]⟩ : Dict Dec).putAll (fun c => c.a) [sampleCrystal]).find "Si" = some { sampleCrystal with volume := ⟨false, 54307, -4⟩ } :=
  (loaded_crystals_retrievable (fun c : Cell Dec => c.a) ⟨[]⟩ [sampleCrystal] (by decide) (by decide)).1 sampleCrystal (by simp)

/-- instance of `reader_names_fit`: a name of 29 characters is stored as its first 20 -/
example : Reader.readText "#S 1 W_long_name_20_chars_and_more\n#UCELL 1 2 3 90 90 90\n#L\n#EOF\n".toList =
    .parsed ⟨[⟨"W_long_name_20_chars", ⟨⟨false, 1, 0⟩, ⟨false, 2, 0⟩, ⟨false, 3, 0⟩, ⟨false, 90, 0⟩, ⟨false, 90, 0⟩, ⟨false, 90, 0⟩⟩, ⟨false, 0, 0⟩, []⟩], none⟩ := by
  decide

/-- the kinds of malformed entry, after one good entry (which is reported as read: all-or-none is decided by the container code) -/
def goodEntry : String := "#S 1 G\n#UCELL 1 2 3 90 90 90\n#L\n1 1 0 0 0\n"
def goodCrystal : Crystal Dec :=
  ⟨"G", ⟨⟨false, 1, 0⟩, ⟨false, 2, 0⟩, ⟨false, 3, 0⟩, ⟨false, 90, 0⟩, ⟨false, 90, 0⟩, ⟨false, 90, 0⟩⟩, ⟨false, 0, 0⟩, [⟨1, ⟨false, 1, 0⟩, ⟨false, 0, 0⟩, ⟨false, 0, 0⟩, ⟨false, 0, 0⟩⟩]⟩
set_option maxRecDepth 100000 in
example : Reader.readText (goodEntry ++ "#S 7\n").toList = .parsed ⟨[goodCrystal], some .sLine⟩ := by decide
set_option maxRecDepth 100000 in
example : Reader.readText (goodEntry ++ "#S 2 B\n#UREF x\n#L\n1 1 0 0 0\n").toList = .parsed ⟨[goodCrystal], some (.noUcell "B")⟩ := by decide
set_option maxRecDepth 100000 in
example : Reader.readText (goodEntry ++ "#S 2 B\n#UCELL 1 2 3 4 5 6\n#UCELL 1 2 3 4 5 6\n#L\n").toList = .parsed ⟨[goodCrystal], some (.multiUcell "B")⟩ := by decide
set_option maxRecDepth 100000 in
example : Reader.readText (goodEntry ++ "#S 2 B\n#UCELL 1 2 x 4 5 6\n#L\n").toList = .parsed ⟨[goodCrystal], some (.badUcell "B")⟩ := by decide
set_option maxRecDepth 100000 in
example : Reader.readText (goodEntry ++ "#S 2 B\n#UCELL 1 2 3 4 5 6\n#L\n").toList = .parsed ⟨[goodCrystal], some (.eof "B")⟩ := by decide
set_option maxRecDepth 100000 in
example : Reader.readText (goodEntry ++ "#S 2 B\n#UCELL 1 2 3 4 5 6\n#L\n1 1 0 0 0\n1 1 oops 0 0\n#EOF\n").toList =
    .parsed ⟨[goodCrystal], some (.atomLine "B" 1 2)⟩ := by decide
/-- `%i`: `08` is the number 0 followed by the unread `8` (scanf's grammar; recorded as an observation, not a violation) -/
example : Reader.scanAtom "08 1.0 0.25 0.5 0.75\n".toList =
    .ok ⟨0, ⟨false, 8, 0⟩, ⟨false, 10, -1⟩, ⟨false, 25, -2⟩, ⟨false, 5, -1⟩⟩ ['\n'] := by decide
set_option maxRecDepth 100000 in
/-- a `#UCELL` line of 100 characters or more is cut by `fgets(buffer, 100, fp)`: its tail is another line -/
example : Reader.readText ("#S 1 G\n#UCELL 1 2 3 90 90 " ++ String.ofList (List.replicate 80 ' ') ++ "90\n#L\n#EOF\n").toList =
    .parsed ⟨[], some (.badUcell "G")⟩ := by decide

end C14
end XrlCrystals
