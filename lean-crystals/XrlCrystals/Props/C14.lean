import XrlCrystals.Lemmas.Release
/-!
# C14 — crystal collections stay consistent under any sequence of operations
(and the crystal-container share of C04: no out-of-bounds slot access, no use-after-free, no double free,
everything handed out can be released exactly once, after which only the built-in collection holds memory)

Objects:
* `cstep` / `crun` (Hand/Caller.lean, Hand/Crystals.lean): the pointer-level heap model of
  `src/crystal_diffraction.c`, one function per API function, every `malloc`/`free`/dereference explicit;
  outcome `.error ub` = the C program has undefined behaviour.
* `astep` / `arun` (Spec/Dict.lean): the specification — every collection is a dictionary; `none` = the history
  uses a handle after releasing it (outside the property).
* `abs` (Lemmas/Abs.lean): the abstraction map (dereference every pointer); `Inv`: the invariant of reachable
  states (heap well-formedness `WF` + consistency of the caller's handle tables).

All theorems are for every numeric carrier `α`, every volume function `vol`, every capacity `bcap` of the
built-in collection, every shipped collection `builtin` that is strictly sorted and fits, and **every** history.
-/
namespace XrlCrystals
namespace C14
variable {α : Type} [Inhabited α] {bcap : Nat} (vol : Cell α → α)

/-- **Refinement, one step.**  From an invariant state, whenever the specification accepts an operation, the
model executes it without undefined behaviour, hands back the same return value, reports an error exactly when
the specification says the call fails, re-establishes the invariant, and the abstraction map commutes. -/
theorem crystals_refine {σ : CState α} (inv : Inv bcap σ) (op : Op α) {a' : AState α} {o : AOut}
    (hs : astep vol bcap (abs σ) op = some (a', o)) :
    ∃ σ' o', cstep vol σ op = .ok (σ', o') ∧ o'.agrees o ∧ Inv bcap σ' ∧ abs σ' = a' := by
  cases op with
  | init n => exact step_init vol inv n hs
  | add arr src => exact step_add vol inv arr src hs
  | read arr f => exact step_read vol inv arr f hs
  | get arr name => exact step_get vol inv arr name hs
  | list arr => exact step_list vol inv arr hs
  | copy src => exact step_copy vol inv src hs
  | free j => exact step_free vol inv j hs
  | afree i => exact step_afree vol inv i hs
  | scrib j w => exact step_scrib vol inv j w hs

/-- **Refinement, arbitrary histories** (induction over the history). -/
theorem crystals_refine_run (ops : List (Op α)) : ∀ {σ : CState α}, Inv bcap σ → ∀ {a' : AState α} {os : List AOut},
    arun vol bcap (abs σ) ops = some (a', os) →
    ∃ σ' os', crun vol σ ops = .ok (σ', os') ∧ List.Forall₂ Out.agrees os' os ∧ Inv bcap σ' ∧ abs σ' = a' := by
  induction ops with
  | nil =>
    intro σ inv a' os hs
    simp only [arun, Option.some.injEq, Prod.mk.injEq] at hs
    obtain ⟨rfl, rfl⟩ := hs
    exact ⟨σ, [], rfl, List.Forall₂.nil, inv, rfl⟩
  | cons op ops ih =>
    intro σ inv a' os hs
    simp only [arun, Option.bind_eq_bind] at hs
    cases h1 : astep vol bcap (abs σ) op with
    | none => rw [h1] at hs; simp at hs
    | some r1 =>
      obtain ⟨a1, o1⟩ := r1
      rw [h1] at hs
      simp only [Option.bind_some] at hs
      cases h2 : arun vol bcap a1 ops with
      | none => rw [h2] at hs; simp at hs
      | some r2 =>
        obtain ⟨a2, os2⟩ := r2
        rw [h2] at hs
        simp only [Option.bind_some, Option.some.injEq, Prod.mk.injEq] at hs
        obtain ⟨rfl, rfl⟩ := hs
        obtain ⟨σ1, o1', hc1, hag1, inv1, habs1⟩ := crystals_refine vol inv op h1
        rw [← habs1] at h2
        obtain ⟨σ2, os2', hc2, hag2, inv2, habs2⟩ := ih inv1 h2
        exact ⟨σ2, o1' :: os2', by simp only [crun, hc1, hc2, bind, Except.bind, pure, Except.pure],
          List.Forall₂.cons hag1 hag2, inv2, habs2⟩

/-- **Refinement from the process image**: the shipped collection sorted and within capacity is all that is
assumed about the starting point. -/
theorem crystals_refine_from_start {builtin : List (Crystal α)} (hs : SortedNames builtin) (hl : builtin.length ≤ bcap)
    (ops : List (Op α)) {a' : AState α} {os : List AOut} (hrun : arun vol bcap (initAbs builtin) ops = some (a', os)) :
    ∃ σ' os', crun vol (initState bcap builtin) ops = .ok (σ', os') ∧ List.Forall₂ Out.agrees os' os ∧
      Inv bcap σ' ∧ abs σ' = a' := by
  obtain ⟨inv0, habs0⟩ := inv_init hs hl
  exact crystals_refine_run vol ops inv0 (by rw [habs0]; exact hrun)

/-- **No undefined behaviour** (C04, crystal containers): in every history in which no handle is used after it
was released (each handed-out object released at most once), the model never reaches an out-of-bounds slot,
a freed block, a second `free` or a NULL dereference. -/
theorem crystals_no_ub {builtin : List (Crystal α)} (hs : SortedNames builtin) (hl : builtin.length ≤ bcap)
    (ops : List (Op α)) (hlegal : (arun vol bcap (initAbs builtin) ops).isSome = true) (u : UB) :
    crun vol (initState bcap builtin) ops ≠ .error u := by
  obtain ⟨⟨a', os⟩, hrun⟩ := Option.isSome_iff_exists.mp hlegal
  obtain ⟨σ', os', hc, _⟩ := crystals_refine_from_start vol hs hl ops hrun
  rw [hc]; intro h; cases h

/-! ## The clauses of the property

Statements about the specification are statements about the implementation model by `crystals_refine_run`:
every concrete answer `agrees` with the abstract one and `abs` commutes. -/

/-- *listed in sorted order*: in every reachable state every live collection (and the built-in one) is strictly
sorted by name — so are the listings `list` returns. -/
theorem listing_sorted {σ : CState α} (inv : Inv bcap σ) :
    SortedNames (abs σ).builtin.items ∧
      ∀ (i : Nat) (d : Dict α), (abs σ).arrs[i]? = some (Held.live d) → SortedNames d.items := by
  obtain ⟨n0, hn0⟩ := inv.wf.h0
  obtain ⟨vs0, hvs0⟩ := inv.wf.arrOf_some hn0
  refine ⟨by show SortedNames ((σ.mem.arrOf 0).getD []); rw [hvs0]; exact inv.wf.sorted 0 vs0 hvs0, ?_⟩
  intro i d hd
  simp only [abs, List.getElem?_map] at hd
  cases hp : σ.arrs[i]? with
  | none => rw [hp] at hd; simp at hd
  | some p =>
    rw [hp] at hd
    simp only [Option.map_some, Option.some.injEq] at hd
    obtain ⟨a, _, hv⟩ := absArr_live hd
    exact inv.wf.sorted a _ hv

/-- *contains exactly the crystals successfully added, each retrievable with the geometry and atoms it was given
and its recomputed volume*: an accepted addition makes exactly that crystal retrievable under its name and
changes no other lookup. -/
theorem contents_are_successful_additions (d : Dict α) (c : Crystal α) (hnew : d.has c.name = false) :
    (d.put vol c).find c.name = some { c with volume := vol c.cell } ∧
      ∀ n, n ≠ c.name → (d.put vol c).find n = d.find n := by
  have hc : c.name ∉ d.items.map (·.name) := by
    simpa [Dict.has, Dict.names] using hnew
  exact ⟨Dict.find_ins_same (c := { c with volume := vol c.cell }) hc,
    fun n hn => Dict.find_ins_other (c := { c with volume := vol c.cell }) hn⟩

/-- *duplicates rejected, a rejected addition leaves the collection as it was*. -/
theorem duplicates_rejected (s : AState α) (arr : ARef) (c : Crystal α) {t : Option Nat} (ht : s.target arr = some t)
    (hdup : (s.dict t).has c.name = true) :
    astep vol bcap s (.add arr (.lit c)) = some (s, ⟨.int 0, true⟩) := by
  simp [astep, ht, AState.srcVal, hdup]

/-- *a rejected or malformed addition leaves the collection as it was* — for every way an addition can fail
(duplicate, NULL crystal, full built-in collection; malformed file, repeated name, name already present, file
that would overflow the built-in collection, file that cannot be opened). -/
theorem failed_addition_unchanged (s : AState α) (op : Op α) (hop : (∃ arr src, op = .add arr src) ∨ (∃ arr f, op = .read arr f))
    {s' : AState α} {o : AOut} (hs : astep vol bcap s op = some (s', o)) (hfail : o.failed = true) : s' = s := by
  rcases hop with ⟨arr, src, rfl⟩ | ⟨arr, f, rfl⟩
  · simp only [astep, Option.bind_eq_bind] at hs
    cases ht : s.target arr with
    | none => rw [ht] at hs; simp at hs
    | some t =>
      rw [ht] at hs
      simp only [Option.bind_some] at hs
      cases hv : s.srcVal src with
      | none => rw [hv] at hs; simp at hs
      | some v =>
        rw [hv] at hs
        simp only [Option.bind_some] at hs
        cases v with
        | none => simp only [Option.some.injEq, Prod.mk.injEq] at hs; exact hs.1.symm
        | some c =>
          simp only at hs
          split at hs
          · simp only [Option.some.injEq, Prod.mk.injEq] at hs; exact hs.1.symm
          · simp only [Option.some.injEq, Prod.mk.injEq] at hs; rw [← hs.2] at hfail; cases hfail
  · simp only [astep, Option.bind_eq_bind] at hs
    cases ht : s.target arr with
    | none => rw [ht] at hs; simp at hs
    | some t =>
      rw [ht] at hs
      simp only [Option.bind_some] at hs
      cases f with
      | nullName => simp only [Option.some.injEq, Prod.mk.injEq] at hs; exact hs.1.symm
      | cannotOpen => simp only [Option.some.injEq, Prod.mk.injEq] at hs; exact hs.1.symm
      | content p =>
        simp only at hs
        split at hs
        · simp only [Option.some.injEq, Prod.mk.injEq] at hs; exact hs.1.symm
        · simp only [Option.some.injEq, Prod.mk.injEq] at hs; rw [← hs.2] at hfail; cases hfail

/-- *growing beyond its initial capacity transparently*: the specification never looks at the capacity a user
array was created with — and the implementation refines it for every capacity. -/
theorem growth_transparent (s : AState α) (n n' : Int) (hn : 0 ≤ n) (hn' : 0 ≤ n') :
    astep vol bcap s (.init n) = astep vol bcap s (.init n') := by
  simp [astep, Int.not_lt.mpr hn, Int.not_lt.mpr hn']

/-- *lookups hand out independent copies*: whatever the caller does through a handed-out pointer (overwriting
every field, releasing it) changes no collection and no other copy. -/
theorem copies_independent (s : AState α) (op : Op α) (j : Nat) (hop : (∃ w, op = .scrib j w) ∨ op = .free j)
    {s' : AState α} {o : AOut} (hs : astep vol bcap s op = some (s', o)) :
    s'.builtin = s.builtin ∧ s'.arrs = s.arrs ∧ ∀ k, k ≠ j → s'.objs[k]? = s.objs[k]? := by
  rcases hop with ⟨w, rfl⟩ | rfl <;>
  · simp only [astep] at hs
    split at hs
    · simp only [Option.some.injEq, Prod.mk.injEq] at hs; rw [← hs.1]; exact ⟨rfl, rfl, fun _ _ => rfl⟩
    · simp only [Option.some.injEq, Prod.mk.injEq] at hs
      rw [← hs.1]
      exact ⟨rfl, rfl, fun k hk => by simp [List.getElem?_set, Ne.symm hk]⟩
    · cases hs

/-- *the built-in collection refuses to grow past its fixed capacity with an error* (by `Crystal_AddCrystal` and
by `Crystal_ReadFile`), and stays as it was. -/
theorem builtin_refuses_past_capacity (s : AState α) (hfull : s.builtin.size = bcap) (c : Crystal α) (p : Parsed α)
    (hp : p.good ≠ []) :
    astep vol bcap s (.add .builtin (.lit c)) = some (s, ⟨.int 0, true⟩) ∧
    astep vol bcap s (.read .builtin (.content p)) = some (s, ⟨.int 0, true⟩) := by
  have hlen : 0 < p.good.length := List.length_pos_iff.mpr hp
  constructor
  · simp [astep, AState.target, AState.srcVal, AState.room, hfull]
  · have : s.room bcap none (p.good.map (·.name)).length = false := by
      simp only [AState.room, List.length_map]; exact decide_eq_false (by omega)
    simp only [astep, AState.target, Option.bind_eq_bind, Option.bind_some, this, Bool.not_false, Bool.or_true, if_true]

/-- *releasing the array releases everything* (and C04: after full release the process holds no memory on behalf
of the finished calls): in every reachable state in which no user array and no handed-out copy is held any
more, the live heap blocks are exactly those of the built-in collection and no file is open. -/
theorem arrayFree_releases_everything {σ : CState α} (inv : Inv bcap σ)
    (ha : ∀ p ∈ (abs σ).arrs, ∀ d, p ≠ .live d) (ho : ∀ p ∈ (abs σ).objs, ∀ v, p ≠ .live v) :
    σ.mem.live = 2 + 2 * (abs σ).builtin.size ∧ σ.mem.files = 0 :=
  ⟨(all_released inv ha ho).1, (all_released inv ha ho).2.1⟩

/-- no call leaves a `FILE*` open, on success and on every failure path -/
theorem no_file_left_open {σ : CState α} (inv : Inv bcap σ) : σ.mem.files = 0 := inv.files

/-! ## Non-vacuity: the hypotheses are satisfiable by a non-trivial history -/

def volN (c : Cell Nat) : Nat := c.a * c.b * c.c
def cr (n : String) (a : Nat) : Crystal Nat := ⟨n, ⟨a, a, a, 90, 90, 90⟩, 7, [⟨14, 1, 0, 0, 0⟩, ⟨8, 1, 1, 1, 1⟩]⟩
def shipped : List (Crystal Nat) := [cr "Diamond" 3, cr "Si" 5]
/-- create (capacity 1), add three (one duplicate; growth past the capacity), look up, list, scribble over the
copy, look up again, load a file with two entries, load a malformed file, release everything -/
def history : List (Op Nat) :=
  [.init 1, .add (.user 0) (.lit (cr "Bb" 2)), .add (.user 0) (.lit (cr "Aa" 3)), .add (.user 0) (.lit (cr "Aa" 4)),
   .get (.user 0) (some "Aa"), .list (.user 0), .scrib 0 5, .get (.user 0) (some "Aa"),
   .read (.user 0) (.content ⟨[cr "Cc" 1, cr "Ab" 2], none⟩), .read (.user 0) (.content ⟨[cr "Dd" 1], some (.noUcell "Bad")⟩),
   .add .builtin (.obj 1), .list (.user 0), .free 0, .free 1, .afree 0]

private theorem shipped_sorted : SortedNames shipped := by
  unfold SortedNames shipped cr
  decide

/-- the history is legal and its abstract answers are as expected: the duplicate and the malformed file fail -/
example : (arun volN 512 (initAbs shipped) history).map (fun r => r.2.map (·.failed)) =
    some [false, false, false, true, false, false, false, false, false, true, false, false, false, false, false] := by decide

/-- instance of `crystals_refine_from_start` / `crystals_no_ub` on this history -/
example : ∃ σ' os', crun volN (initState 512 shipped) history = .ok (σ', os') ∧ Inv 512 σ' := by
  have hl : (arun volN 512 (initAbs shipped) history).isSome = true := by decide
  obtain ⟨⟨a', os⟩, hrun⟩ := Option.isSome_iff_exists.mp hl
  obtain ⟨σ', os', hc, _, inv, _⟩ := crystals_refine_from_start volN shipped_sorted (by decide) history hrun
  exact ⟨σ', os', hc, inv⟩

example : ∀ u, crun volN (initState 512 shipped) history ≠ .error u :=
  crystals_no_ub volN shipped_sorted (by decide) history (by decide)

def Held.isLive {β : Type} : Held β → Bool
  | .live _ => true
  | _ => false

private theorem not_live_of_all {β : Type} {l : List (Held β)} (h : l.all (fun p => !Held.isLive p) = true) :
    ∀ p ∈ l, ∀ v, p ≠ .live v := by
  intro p hp v hv
  have := List.all_eq_true.mp h p hp
  rw [hv] at this
  simp [Held.isLive] at this

/-- instance of `arrayFree_releases_everything`: after this history only the built-in blocks are live
(`Diamond`, `Si` and the crystal added to it: header + table + 3 names + 3 atom vectors) -/
example : ∃ σ' os', crun volN (initState 512 shipped) history = .ok (σ', os') ∧ σ'.mem.live = 2 + 2 * 3 ∧ σ'.mem.files = 0 := by
  have hq : (arun volN 512 (initAbs shipped) history).map
      (fun r => (r.1.arrs.all (fun p => !Held.isLive p), r.1.objs.all (fun p => !Held.isLive p), r.1.builtin.size)) =
      some (true, true, 3) := by decide
  cases hrun : arun volN 512 (initAbs shipped) history with
  | none => rw [hrun] at hq; cases hq
  | some r =>
    obtain ⟨a', os⟩ := r
    rw [hrun] at hq
    simp only [Option.map_some, Option.some.injEq, Prod.mk.injEq] at hq
    obtain ⟨h1, h2, h3⟩ := hq
    obtain ⟨σ', os', hc, _, inv, habs⟩ := crystals_refine_from_start volN shipped_sorted (by decide) history hrun
    obtain ⟨hlive, hfiles⟩ := arrayFree_releases_everything (bcap := 512) inv
      (by rw [habs]; exact not_live_of_all h1) (by rw [habs]; exact not_live_of_all h2)
    exact ⟨σ', os', hc, by rw [hlive, habs, h3], hfiles⟩

/-- instance of `builtin_refuses_past_capacity`, `duplicates_rejected`, `contents_are_successful_additions` -/
example : astep volN 2 (initAbs shipped) (.add .builtin (.lit (cr "Zz" 1))) = some (initAbs shipped, ⟨.int 0, true⟩) :=
  (builtin_refuses_past_capacity volN (initAbs shipped) (by decide) (cr "Zz" 1) ⟨[cr "Zz" 1], none⟩ (by simp)).1
example : astep volN 512 (initAbs shipped) (.add .builtin (.lit (cr "Si" 9))) = some (initAbs shipped, ⟨.int 0, true⟩) :=
  duplicates_rejected volN (initAbs shipped) .builtin (cr "Si" 9) rfl (by decide)
example : ((⟨shipped⟩ : Dict Nat).put volN (cr "Ge" 2)).find "Ge" = some { cr "Ge" 2 with volume := 8 } :=
  (contents_are_successful_additions volN ⟨shipped⟩ (cr "Ge" 2) (by decide)).1

end C14
end XrlCrystals
