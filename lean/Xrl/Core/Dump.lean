import Xrl.Core.Basic
/-!
# Table dump reader (driver only)

`harness` writes every data table of the freshly built library as 8-byte little-endian words
(`dump.bin`) plus a text index (`dump.idx`: `name kind ndims dims… offset nwords`).
kind `F` flat doubles, `I` flat ints, `V` table of heap vectors (each entry: length, then values).
-/
namespace Xrl

structure Dump where
  fltTabs : List (String × FloatArray)
  intTabs : List (String × Array Int)
  vecTabs : List (String × Array FloatArray)

def Dump.flts (d : Dump) (n : String) : FloatArray := (d.fltTabs.lookup n).getD FloatArray.empty
def Dump.ints (d : Dump) (n : String) : Array Int := (d.intTabs.lookup n).getD #[]
def Dump.vecs (d : Dump) (n : String) : Array FloatArray := (d.vecTabs.lookup n).getD #[]

def word (b : ByteArray) (i : Nat) : UInt64 :=
  let o := i * 8
  let g (k : Nat) : UInt64 := (b.get! (o + k)).toUInt64 <<< (8 * k).toUInt64
  g 0 ||| g 1 ||| g 2 ||| g 3 ||| g 4 ||| g 5 ||| g 6 ||| g 7

def wordInt (b : ByteArray) (i : Nat) : Int :=
  let w := word b i
  if w ≥ 0x8000000000000000 then (w.toNat : Int) - 18446744073709551616 else (w.toNat : Int)

def readDump (binPath idxPath : String) : IO Dump := do
  let b ← IO.FS.readBinFile binPath
  let idx ← IO.FS.readFile idxPath
  let mut f : List (String × FloatArray) := []
  let mut it : List (String × Array Int) := []
  let mut v : List (String × Array FloatArray) := []
  for line in idx.splitOn "\n" do
    let t := (line.splitOn " ").toArray
    if t.size < 5 then continue
    let name := t[0]!
    let kind := t[1]!
    let nd := t[2]!.toNat!
    let off := t[3 + nd]!.toNat!
    let nw := t[4 + nd]!.toNat!
    if kind == "F" then
      let mut a := FloatArray.emptyWithCapacity nw
      for i in [0:nw] do a := a.push (Float.ofBits (word b (off + i)))
      f := (name, a) :: f
    else if kind == "I" then
      let mut a : Array Int := Array.mkEmpty nw
      for i in [0:nw] do a := a.push (wordInt b (off + i))
      it := (name, a) :: it
    else
      let mut tabs : Array FloatArray := #[]
      let mut p := off
      while p < off + nw do
        let n := (wordInt b p).toNat
        let mut a := FloatArray.emptyWithCapacity n
        for i in [0:n] do a := a.push (Float.ofBits (word b (p + 1 + i)))
        tabs := tabs.push a
        p := p + 1 + n
      v := (name, tabs) :: v
  return { fltTabs := f, intTabs := it, vecTabs := v }

end Xrl
