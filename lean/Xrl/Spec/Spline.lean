import Xrl.Spec.Basic
import Xrl.Hand.Splint
/-!
# C02: the cubic-spline interpolant, stated without the bisection

`knot xa k` is the k-th abscissa (1-based, as in the data files).  For `x` inside the tabulated range the
interpolant is the cubic through the bracketing knots `klo, klo+1`, where `klo` is the *largest* index
`≤ n-1` whose abscissa is `≤ x` (found here by a plain downward scan); when the two bracketing abscissae
coincide (duplicated knots at absorption edges) it is the mean of the two ordinates.  Outside
`[xa 1, xa n + 1e-7]` there is no value.  (The 1e-7 slack is what the code accepts; the property's
"never extrapolates" is discussed in Props/C02.)
-/
namespace Xrl
namespace Spec

section
variable {α : Type} [Add α] [Sub α] [Mul α] [Div α] [Neg α] [LT α] [LE α] [OfScientific α]
  [DecidableLT α] [DecidableLE α] [XNum α]

def knot (v : Vec α) (k : Nat) : α := v.get (k - 1)

/-- largest `k ≤ m` with `knot xa k ≤ x`, or 1 -/
def bracketLin (xa : Vec α) (x : α) : Nat → Nat
  | 0 => 1
  | 1 => 1
  | m + 2 => if knot xa (m + 2) ≤ x then m + 2 else bracketLin xa x (m + 1)

/-- the spline value at `x`, or `none` outside the table -/
def spline (xa ya y2a : Vec α) (n : Nat) (x : α) : Option α :=
  if (1.0e-7 : α) < x - knot xa n then none
  else if x < knot xa 1 then none
  else
    let klo := if n ≤ 1 then n else bracketLin xa x (n - 1)
    let khi := if n ≤ 1 then n else klo + 1
    let h := knot xa khi - knot xa klo
    if deq h (0.0 : α) then some ((knot ya klo + knot ya khi) / (2.0 : α))
    else some (splintCubic (knot xa klo) (knot xa khi) (knot ya klo) (knot ya khi) (knot y2a klo) (knot y2a khi) x)

end
end Spec
end Xrl
