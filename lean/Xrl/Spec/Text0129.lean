import Xrl.Spec.Lookup
import Xrl.Spec.Interp
import Xrl.Spec.JumpRatio
/-!
# C01 / C02 / C09: clauses re-read from the property texts (clause audit B5, B8), and the data conditions they need

Core Lean only (the driver links this file).

* **C01, Biggs occupancy.**  The text: "reports an error, never a number, exactly when the data files hold no *positive* record
  for that pair".  `Spec.ElectronConfig_Biggs` (Spec/Lookup.lean) says "non-zero" like the code (`== 0.0`,
  src/comptonprofiles.c:110); `ElectronConfig_BiggsPos` says positive.  They differ exactly on negative occupancy records
  (`biggsNegative`: none in the shipped data/comptonprofiles.dat).
* **C02, knots at argument 0.**  `FF_Rayl(Z, 0)` is defined as `Z` without looking at the table and `SF_Compt(Z, 0)` is an
  error (the incoherent scattering function vanishes at q = 0 and 0.0 is the library's error sentinel).  "equals the
  tabulated value at every knot" therefore needs: a form-factor table that has a knot at q = 0 holds `Z` there, a
  scattering-function table that has a knot at q = 0 holds 0 there (`zeroKnotBad`: must be empty).
* **C09, the L-beta member list.**  `lbMembers` (15 lines, Spec/JumpRatio.lean) names the doublet slot `L3O45` *and* its two
  members `L3O4`, `L3O5`.  A table that gives a rate to the slot and to a member would count that transition twice
  (`lbDoubleCountB`); where it does not, the 15-line sum is the sum over `lbMembersOnce`, which names every transition
  once.  `lineFactor` is the factor of `CS_Photo` in a line cross section (for the hybrid oracle on tables whose photo
  table violates `vecOkB`: Z = 96).
-/
namespace Xrl
namespace Spec

section
variable {α : Type} [Add α] [Sub α] [Mul α] [Div α] [Neg α] [LT α] [LE α] [OfScientific α]
  [DecidableLT α] [DecidableLE α] [XNum α]

/-! ## C01 -/

/-- Biggs occupancy as the text states it: the record of sub-shell `s` among the `NShells` tabulated ones when it is
*positive*, an error otherwise -/
def ElectronConfig_BiggsPos (T : Tables α) (Z s : Int) : Expect α :=
  if zOk Z = true ∧ 0 ≤ s ∧ s < T.NShells_ComptonProfiles Z.toNat ∧
      (0.0 : α) < (T.UOCCUP_ComptonProfiles Z.toNat).get s.toNat then
    .value ((T.UOCCUP_ComptonProfiles Z.toNat).get s.toNat)
  else .fails

/-- no occupancy record of element `z` is negative -/
def biggsNonnegB (T : Tables α) (z : Nat) : Bool :=
  (List.range (T.NShells_ComptonProfiles z).toNat).all (fun s => !decide ((T.UOCCUP_ComptonProfiles z).get s < (0.0 : α)))

/-- the (Z, sub-shell) pairs with a negative occupancy record (expected: none) -/
def biggsNegative (T : Tables α) : List (Nat × Nat) :=
  (List.range 121).flatMap fun (z : Nat) =>
    ((List.range (T.NShells_ComptonProfiles z).toNat).filter
      fun (s : Nat) => decide ((T.UOCCUP_ComptonProfiles z).get s < (0.0 : α))).map fun (s : Nat) => (z, s)

/-! ## C02 -/

/-- element `z`'s form-factor table is consistent with `FF_Rayl(z, 0) = z` -/
def ffZeroKnotOkB (T : Tables α) (z : Nat) : Bool :=
  !(decide (0 < T.Nq_Rayl z) && decide (deq (knot (T.q_Rayl_arr z) 1) (0.0 : α))) ||
    decide (deq (knot (T.FF_Rayl_arr z) 1) (XNum.ofInt (Int.ofNat z)))

/-- element `z`'s scattering-function table is consistent with "`SF_Compt(z, 0)` is an error, value 0" -/
def sfZeroKnotOkB (T : Tables α) (z : Nat) : Bool :=
  !(decide (0 < T.Nq_Compt z) && decide (deq (knot (T.q_Compt_arr z) 1) (0.0 : α))) ||
    decide (deq (knot (T.SF_Compt_arr z) 1) (0.0 : α))

/-- tables with a knot at argument 0 whose ordinate is not the value the function is defined to have there (expected: none) -/
def zeroKnotBad (T : Tables α) : List (String × Nat) :=
  (((List.range 121).filter fun (z : Nat) => !ffZeroKnotOkB T z).map fun (z : Nat) => ("FF_Rayl", z)) ++
  (((List.range 121).filter fun (z : Nat) => !sfZeroKnotOkB T z).map fun (z : Nat) => ("SF_Compt", z))

/-- tables that do have a knot at argument 0 (to show that the two conditions above are not vacuous on the data) -/
def zeroKnotTables (T : Tables α) : List (String × Nat) :=
  (((List.range 121).filter fun (z : Nat) => decide (0 < T.Nq_Rayl z) && decide (deq (knot (T.q_Rayl_arr z) 1) (0.0 : α))).map
    fun (z : Nat) => ("FF_Rayl", z)) ++
  (((List.range 121).filter fun (z : Nat) => decide (0 < T.Nq_Compt z) && decide (deq (knot (T.q_Compt_arr z) 1) (0.0 : α))).map
    fun (z : Nat) => ("SF_Compt", z))

/-! ## C09 -/

/-- element `Z` has a radiative rate for the doublet slot `L3O45` **and** for one of its members `L3O4`, `L3O5`: the
15-line L-beta sum would count that transition twice -/
def lbDoubleCountB (T : Tables α) (Z : Int) : Bool :=
  avail (RadRate T Z Hdr.L3O45_LINE) && (avail (RadRate T Z Hdr.L3O4_LINE) || avail (RadRate T Z Hdr.L3O5_LINE))

/-- the elements whose rates would be double-counted (expected: none) -/
def lbDoubleCount (T : Tables α) : List Nat := (List.range 121).filter (fun z => lbDoubleCountB T (Int.ofNat z))

/-- the elements that have a rate for `L3O4` or `L3O5` at all (shipped radrate.dat: none — only the slot carries rates) -/
def lbMemberRates (T : Tables α) : List Nat :=
  (List.range 121).filter (fun z => avail (RadRate T (Int.ofNat z) Hdr.L3O4_LINE) || avail (RadRate T (Int.ofNat z) Hdr.L3O5_LINE))

/-- the L-beta members with every transition named once: the doublet `L3O45` through its slot when the slot has a rate,
through its two members otherwise; the other twelve lines as in `lbMembers` -/
def lbMembersOnce (T : Tables α) (Z : Int) : List Int :=
  [Hdr.L2M4_LINE, Hdr.L2M3_LINE, Hdr.L3N5_LINE] ++
  (if avail (RadRate T Z Hdr.L3O45_LINE) = true then [Hdr.L3O45_LINE] else [Hdr.L3O4_LINE, Hdr.L3O5_LINE]) ++
  [Hdr.L3N1_LINE, Hdr.L3O1_LINE, Hdr.L3N6_LINE, Hdr.L3N7_LINE, Hdr.L3N4_LINE,
   Hdr.L1M3_LINE, Hdr.L1M2_LINE, Hdr.L1M5_LINE, Hdr.L1M4_LINE]

/-- L-beta with every member transition counted once -/
def CS_FluorLine_LBonce (T : Tables α) (Z : Int) (E : α) : Expect α :=
  let s := (lbMembersOnce T Z).foldl (fun acc m => acc + memberShare T Z E m) (0.0 : α)
  if deq s (0.0 : α) then .fails
  else match CS_Photo T Z E with
    | .value c => .value (s * c)
    | _ => .fails

/-- the factor of `CS_Photo(Z, E)` in `CS_FluorLine(Z, line, E)`: rate × (V ω) of the line's shell; for L-beta the member
sum.  Fails where the line cross section fails for a reason other than the photo cross section. -/
def lineFactor (T : Tables α) (Z line : Int) (E : α) : Expect α :=
  if line = Hdr.LB_LINE then
    let s := lbMembers.foldl (fun acc m => acc + memberShare T Z E m) (0.0 : α)
    if deq s (0.0 : α) then .fails else .value s
  else
    match lineShell line with
    | some s =>
      if zOk Z = true ∧ (0.0 : α) < E then
        match RadRate T Z line, shellFactor T Z s E with
        | .value rr, .value f => .value (rr * f)
        | _, _ => .fails
      else .fails
    | none => .fails

/-- the factor of `CS_Photo(Z, E)` in `CS_FluorShell(Z, shell, E)` -/
def shellFactorOf (T : Tables α) (Z shell : Int) (E : α) : Expect α :=
  if zOk Z = true ∧ (0.0 : α) < E ∧ mOk Hdr.K_SHELL Hdr.L3_SHELL shell = true then shellFactor T Z shell E else .fails

end
end Spec
end Xrl
