import Xrl.Spec.Interp
/-!
# Data invariants, as executable predicates

The site theorems of C02 (and everything built on them) assume `vecOkB` for the table triple they read.
`shapeFailures` evaluates exactly those hypotheses for every Z on a concrete `Tables`; the driver runs it
on the tables dumped from the library built from the working tree (compiled code, not the kernel — named
in the trusted base) and the check requires the list to be empty.
-/
namespace Xrl
namespace Spec

section
variable {α : Type} [Add α] [Sub α] [Mul α] [Div α] [Neg α] [LT α] [LE α] [OfScientific α]
  [DecidableLT α] [DecidableLE α] [XNum α]

def zs : List Nat := List.range 121

def shapeFailures (T : Tables α) : List (String × Nat) :=
  let chk (name : String) (f : Nat → Bool) : List (String × Nat) := (zs.filter (fun z => !f z)).map (fun z => (name, z))
  chk "Photo" (fun z => vecOkB (T.E_Photo_arr z) (T.CS_Photo_arr z) (T.CS_Photo_arr2 z) (T.NE_Photo z)) ++
  chk "Rayl" (fun z => vecOkB (T.E_Rayl_arr z) (T.CS_Rayl_arr z) (T.CS_Rayl_arr2 z) (T.NE_Rayl z)) ++
  chk "Compt" (fun z => vecOkB (T.E_Compt_arr z) (T.CS_Compt_arr z) (T.CS_Compt_arr2 z) (T.NE_Compt z)) ++
  chk "Energy" (fun z => vecOkB (T.E_Energy_arr z) (T.CS_Energy_arr z) (T.CS_Energy_arr2 z) (T.NE_Energy z)) ++
  chk "Fi" (fun z => vecOkB (T.E_Fi_arr z) (T.Fi_arr z) (T.Fi_arr2 z) (T.NE_Fi z)) ++
  chk "Fii" (fun z => vecOkB (T.E_Fii_arr z) (T.Fii_arr z) (T.Fii_arr2 z) (T.NE_Fii z)) ++
  chk "FF_Rayl" (fun z => vecOkB (T.q_Rayl_arr z) (T.FF_Rayl_arr z) (T.FF_Rayl_arr2 z) (T.Nq_Rayl z)) ++
  chk "SF_Compt" (fun z => vecOkB (T.q_Compt_arr z) (T.SF_Compt_arr z) (T.SF_Compt_arr2 z) (T.Nq_Compt z)) ++
  chk "ComptonProfile" (fun z => vecOkB (T.pz_ComptonProfiles z) (T.Total_ComptonProfiles z) (T.Total_ComptonProfiles2 z) (T.Npz_ComptonProfiles z)
        && (decide (T.NShells_ComptonProfiles z < 0) || decide (1 ≤ T.Npz_ComptonProfiles z)))

end
end Spec
end Xrl
