import Xrl.Spec.Auger
import Xrl.Spec.LBeta
/-!
# Executable data invariants behind the range clauses of C10 and C11

The theorems of Props/C10 ("hence lies between the smallest and largest member energy") and Props/C11b ("the three
decay channels partition unity and each lies in [0,1]") hold for every table `T` that satisfies the hypotheses
below.  Each hypothesis is a `Bool` (or the list of the cells violating it) over the raw table cells, so that the driver
evaluates it on the shipped tables on every run: a theorem whose hypothesis is not executed says nothing about the data
the library ships.

* `ratesNonnegAt T Z`   : every radiative-rate cell of element `Z` is ≥ 0            (K-alpha, K-beta: `line_energy_between`)
* `lbWeightsNonnegAt T Z`: every L-beta member weight `CS_FluorLine(Z, m, edge+0.1)` is ≥ 0       (L-beta)
* `groupMembers`, `memberEnergy`, `groupRange`: the members of a grouped macro, the energy of a member, and the smallest /
                          largest member energy (what `line_energy_between` bounds the group energy by)
* `rateWithoutEnergy T` : the (Z, group) pairs among L-alpha / the seven doublets where one member carries a rate but no energy while
                          the other has an energy and a rate — where the unrepaired `LineEnergyComposed` leaves the members' range (latent:
                          expected `[]`)
* `augerInputsOkAt T Z s`: `ω_s ≤ 1` (cells ≤ 0 are the "not tabulated" sentinel) and `0 ≤ f` for every Coster–Kronig probability
                          of shell `s` (raw cells); `ckNonnegAt` is its second half
* `augerRateBad slack T` : the (Z, a) with a negative raw Auger rate, or a non-Coster–Kronig raw rate above
                          `(1 + slack) ×` the net total of its initial shell

Core Lean only.
-/
namespace Xrl
namespace Spec

section
variable {α : Type} [Add α] [Sub α] [Mul α] [Div α] [Neg α] [LT α] [LE α] [OfScientific α]
  [DecidableLT α] [DecidableLE α] [XNum α]

/-! ## C10 -/

/-- every radiative-rate cell of element `Z` (all `LINENUM` = 383 columns) is non-negative -/
def ratesNonnegAt (T : Tables α) (Z : Int) : Bool :=
  (List.range Hdr.LINENUM.toNat).all (fun (j : Nat) => decide ((0.0 : α) ≤ T.RadRate_arr Z.toNat j))

/-- the elements `0 … 120` with a negative radiative-rate cell (expected: none) -/
def ratesNegative (T : Tables α) : List Nat :=
  (List.range 121).filter (fun (z : Nat) => !ratesNonnegAt T (Int.ofNat z))

/-- **no radiative rate is negative** -/
def ratesNonnegB (T : Tables α) : Bool := (List.range 121).all (fun (z : Nat) => ratesNonnegAt T (Int.ofNat z))

/-- every L-beta member weight (fluorescence cross section just above the member's own edge, 0 when undefined) is ≥ 0 -/
def lbWeightsNonnegAt (T : Tables α) (Z : Int) : Bool :=
  lbEnergyMembers.all (fun m => decide ((0.0 : α) ≤ lbWeight T Z m))

/-- the elements with a negative L-beta member weight (expected: none) -/
def lbWeightsNegative (T : Tables α) : List Nat :=
  (List.range 121).filter (fun (z : Nat) => !lbWeightsNonnegAt T (Int.ofNat z))

/-- the two-member groups (macro, first member, second member): L-alpha and the seven IUPAC doublets, by their header names -/
def composedGroups : List (Int × Int × Int) :=
  (Hdr.LA_LINE, Hdr.group_LA.getD 0 0, Hdr.group_LA.getD 1 0) :: Hdr.doublets

/-- the member lines of the two-member groups -/
def composedMembers : List Int := composedGroups.flatMap (fun d => [d.2.1, d.2.2])

/-- in the two-member group {l1, l2} of element `Z` one member carries a rate but has no energy while the other member has an
energy and a rate (energies and rates as the public `LineEnergy` / `RadRate` report them): exactly where a mean that keeps the
first member's rate in its denominator falls below the energy of the only member that has one -/
def rateWithoutEnergyAt (T : Tables α) (Z l1 l2 : Int) : Bool :=
  (decide (valOr0 (singleEnergy T Z l1) ≤ (0.0 : α)) && decide ((0.0 : α) < valOr0 (singleRate T Z l1)) &&
    decide ((0.0 : α) < valOr0 (singleEnergy T Z l2)) && decide ((0.0 : α) < valOr0 (singleRate T Z l2))) ||
  (decide (valOr0 (singleEnergy T Z l2) ≤ (0.0 : α)) && decide ((0.0 : α) < valOr0 (singleRate T Z l2)) &&
    decide ((0.0 : α) < valOr0 (singleEnergy T Z l1)) && decide ((0.0 : α) < valOr0 (singleRate T Z l1)))

/-- the (Z, two-member group macro) pairs with `rateWithoutEnergyAt` (expected on the shipped data: none — the defect of the
unrepaired `LineEnergyComposed` is latent) -/
def rateWithoutEnergy (T : Tables α) : List (Nat × Int) :=
  (List.range 121).flatMap (fun (z : Nat) =>
    (composedGroups.filter (fun d => rateWithoutEnergyAt T (Int.ofNat z) d.2.1 d.2.2)).map (fun d => (z, d.1)))

/-- the member lines of a grouped macro (K-alpha, K-beta, L-alpha, L-beta, the seven IUPAC doublets), by the header names;
`[]` for a macro that is not a group -/
def groupMembers (line : Int) : List Int :=
  if line = Hdr.KA_LINE then Hdr.group_KA
  else if line = Hdr.KB_LINE then Hdr.group_KB
  else if line = Hdr.LA_LINE then Hdr.group_LA
  else if line = Hdr.LB_LINE then lbEnergyMembers
  else match findDoublet line with
    | some (l1, l2) => [l1, l2]
    | none => []

/-- the energy of member `m` as the public `LineEnergy(Z, m)` reports it; 0 for an error ("the member has no energy") -/
def memberEnergy (T : Tables α) (Z m : Int) : α := valOr0 (LineEnergy T Z m)

/-- one more energy `x` into the running (smallest, largest) of the positive energies seen so far -/
def rangeStep (acc : Option (α × α)) (x : α) : Option (α × α) :=
  if (0.0 : α) < x then
    match acc with
    | none => some (x, x)
    | some (lo, hi) => some (if x < lo then x else lo, if hi < x then x else hi)
  else acc

/-- smallest and largest of the energies in `xs` that are positive; `none` when there is none -/
def posRange (xs : List α) : Option (α × α) := xs.foldl rangeStep none

/-- **smallest and largest member energy** of a grouped macro (over the members that have an energy) -/
def groupRange (T : Tables α) (Z line : Int) : Option (α × α) :=
  posRange ((groupMembers line).map (memberEnergy T Z))

/-- the data hypothesis of `C10.line_energy_between` for the group `line` of element `Z`: non-negative rates for K-alpha and
K-beta, non-negative member cross sections for L-beta, nothing for L-alpha and the doublets (their rates come through the
public `RadRate`, which reports positive numbers only) -/
def groupInputsOkAt (T : Tables α) (Z line : Int) : Bool :=
  if line = Hdr.KA_LINE ∨ line = Hdr.KB_LINE then ratesNonnegAt T Z
  else if line = Hdr.LB_LINE then lbWeightsNonnegAt T Z
  else true

/-! ## C11 -/

/-- every Coster–Kronig probability cell of shell `s` is `≥ 0` (what the partition identity on the raw cells needs) -/
def ckNonnegAt (T : Tables α) (Z s : Int) : Bool :=
  (lookupList Hdr.ck_of_shell s).all (fun t => decide ((0.0 : α) ≤ T.CosKron_arr Z.toNat t.toNat))

/-- raw inputs of the Auger yield of (Z, s) are probabilities: the fluorescence-yield cell is `≤ 1` (a cell `≤ 0` — the loader's
sentinel −9999 — means "not tabulated", C01) and every Coster–Kronig probability of the shell is `≥ 0` -/
def augerInputsOkAt (T : Tables α) (Z s : Int) : Bool :=
  decide (T.FluorYield_arr Z.toNat s.toNat ≤ (1.0 : α)) && ckNonnegAt T Z s

/-- the (Z, shell K..M5) whose raw inputs violate `augerInputsOkAt` (expected: none) -/
def augerInputsBad (T : Tables α) : List (Nat × Nat) :=
  (List.range 121).flatMap (fun (z : Nat) =>
    ((List.range 9).filter (fun (s : Nat) => !augerInputsOkAt T (Int.ofNat z) (Int.ofNat s))).map (fun s => (z, s)))

/-- **the raw inputs of every Auger yield are probabilities** -/
def augerInputsOkB (T : Tables α) : Bool :=
  (List.range 121).all (fun (z : Nat) => (List.range 9).all (fun (s : Nat) => augerInputsOkAt T (Int.ofNat z) (Int.ofNat s)))

/-- raw inputs of the Auger rate of (Z, a): the raw rate is `≥ 0`, and for a transition that is not of Coster–Kronig type it
does not exceed `(1 + slack) ×` the net non-radiative total of its initial shell -/
def augerRateInputsOkAt (slack : α) (T : Tables α) (Z a : Int) : Bool :=
  decide ((0.0 : α) ≤ rawRate T Z a) &&
  (isCKAuger a || decide (rawRate T Z a ≤ netTotal T Z (augerInit a) * ((1.0 : α) + slack)))

/-- the (Z, a) violating `augerRateInputsOkAt slack` (expected: none for a slack of a few ulp) -/
def augerRateBad (slack : α) (T : Tables α) : List (Nat × Nat) :=
  (List.range 121).flatMap (fun (z : Nat) =>
    ((List.range Hdr.AUGERNUM.toNat).filter (fun (a : Nat) => !augerRateInputsOkAt slack T (Int.ofNat z) (Int.ofNat a))).map
      (fun a => (z, a)))

end
end Spec
end Xrl
