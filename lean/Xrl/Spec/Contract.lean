import Xrl.Spec.Basic
/-!
# C03 / C04: the calling contract

`Contract r error` : called with a non-full slot the function either succeeds, leaving the slot as it was, or
fails returning the sentinel 0 with exactly one error (valid code, non-empty message) stored — in particular the
outcome is `ok`: no undefined behaviour (C04), no non-finite intermediate, no error stored over an existing one.
-/
namespace Xrl
namespace Spec

section
variable {α : Type} [OfScientific α]

def Contract (r : M (α × Slot)) (error : Slot) : Prop :=
  (∃ v, Returns r v error) ∨ Fails r error

/-- the outcome is not an abort of the model (no `ub`, `nf`, `overwrite`, `fuel`) -/
def NoAbort {β : Type} (r : M β) : Prop := ∃ v, r = Except.ok v

end
end Spec
end Xrl
