import Xrl.Spec.LBeta
/-!
# C10: the grouped line energies by the TEXT, including the fallback clause

"The energy of a grouped line (K-alpha, K-beta, L-alpha, L-beta and the IUPAC doublets …) is the radiative-rate-weighted (for
L-beta: cross-section-weighted) mean of the energies of exactly its member lines — hence lies between the smallest and largest
member energy — **falling back to the plain mean of the members that have an energy when no rates exist**, and is an error when
no member has an energy."

`Spec.wmean` (Spec/Groups.lean) was written to agree with fluor_lines.c: no fallback for K-alpha, K-beta and L-beta (an error
when the weights of the members with an energy do not sum to a positive number), and `Spec.composed` keeps the rate of a member
without an energy in the denominator.  The definitions below are the text:

* `wmeanText ms e r`   : Σ_{m has an energy} e·r / Σ_{m has an energy} r when that denominator is positive; otherwise the plain
                         mean of the energies of the members that have one; an error when no member has an energy;
* `composedText`       : `wmeanText` over the two members of L-alpha / a doublet, energies and rates as the public single-line
                         functions report them;
* `LineEnergyText`     : `Spec.LineEnergy` with `wmeanText` / `composedText` (L-beta: `LineEnergyLBText`).

After the repair of notes/proposed_fixes/C10-8.diff, Spec/Groups.lean itself carries these definitions and this file goes away
(see notes/C10c_REPORT.md).  Core Lean only.
-/
namespace Xrl
namespace Spec

section
variable {α : Type} [Add α] [Sub α] [Mul α] [Div α] [Neg α] [LT α] [LE α] [OfScientific α]
  [DecidableLT α] [DecidableLE α] [XNum α]

/-- **the mean of a group, by the text** -/
def wmeanText (ms : List Int) (e r : Int → α) : Expect α :=
  let den := ms.foldl (fun acc m => if e m ≤ (0.0 : α) then acc else acc + r m) (0.0 : α)
  let num := ms.foldl (fun acc m => if e m ≤ (0.0 : α) then acc else acc + e m * r m) (0.0 : α)
  let sum := ms.foldl (fun acc m => if e m ≤ (0.0 : α) then acc else acc + e m) (0.0 : α)
  let cnt := ms.foldl (fun acc m => if e m ≤ (0.0 : α) then acc else acc + (1.0 : α)) (0.0 : α)
  if (0.0 : α) < den then .value (num / den)
  else if (0.0 : α) < cnt then .value (sum / cnt)
  else .fails

/-- the fallback clause is needed: the weights of the members with an energy do not sum to a positive number, but some member
has an energy — where a mean without the fallback reports an error and the text gives the plain mean -/
def needsFallback (ms : List Int) (e r : Int → α) : Bool :=
  !decide ((0.0 : α) < ms.foldl (fun acc m => if e m ≤ (0.0 : α) then acc else acc + r m) (0.0 : α)) &&
  decide ((0.0 : α) < ms.foldl (fun acc m => if e m ≤ (0.0 : α) then acc else acc + (1.0 : α)) (0.0 : α))

/-- two-member group by the text: a member without an energy contributes neither to the numerator nor to the denominator -/
def composedText (T : Tables α) (Z l1 l2 : Int) : Expect α :=
  wmeanText [l1, l2] (fun m => valOr0 (singleEnergy T Z m)) (fun m => valOr0 (singleRate T Z m))

def LineEnergyText (T : Tables α) (Z line : Int) : Expect α :=
  if zOk Z = false then .fails
  else if line = Hdr.KA_LINE then wmeanText Hdr.group_KA (eCell T Z) (rCell T Z)
  else if line = Hdr.KB_LINE then wmeanText Hdr.group_KB (kEnergy T Z) (rCell T Z)
  else if line = Hdr.LA_LINE then composedText T Z (Hdr.group_LA.getD 0 0) (Hdr.group_LA.getD 1 0)
  else if line = Hdr.LB_LINE then .any
  else match findDoublet line with
    | some (l1, l2) => composedText T Z l1 l2
    | none => singleEnergy T Z line

/-- L-beta by the text: member energies by `LineEnergyText` (the member `LB5 = L3O45` is itself a doublet) -/
def LineEnergyLBText (T : Tables α) (Z : Int) : Expect α :=
  if zOk Z = false then .fails
  else wmeanText lbEnergyMembers (fun m => valOr0 (LineEnergyText T Z m)) (lbWeight T Z)

/-- the (Z, group macro) pairs among K-alpha, K-beta, L-beta on which the fallback clause decides the result (the driver lists them
on the shipped tables: these are the inputs on which the unrepaired fluor_lines.c reports an error against the text) -/
def fallbackCases (T : Tables α) : List (Nat × Int) :=
  (List.range 121).flatMap (fun (z : Nat) =>
    (if zOk (Int.ofNat z) && needsFallback Hdr.group_KA (eCell T (Int.ofNat z)) (rCell T (Int.ofNat z)) then [(z, Hdr.KA_LINE)] else []) ++
    (if zOk (Int.ofNat z) && needsFallback Hdr.group_KB (kEnergy T (Int.ofNat z)) (rCell T (Int.ofNat z)) then [(z, Hdr.KB_LINE)] else []) ++
    (if zOk (Int.ofNat z) && needsFallback lbEnergyMembers (lbEnergy T (Int.ofNat z)) (lbWeight T (Int.ofNat z)) then [(z, Hdr.LB_LINE)] else []))

end
end Spec
end Xrl
