import Xrl.Spec.LBeta
/-!
# C10: the fallback clause of the grouped line energies (after the repair of notes/proposed_fixes/C10-8.diff)

"… falling back to the plain mean of the members that have an energy when no rates exist, and is an error when no member has an
energy."  Since the repair `Spec.wmean` (Spec/Groups.lean) IS the text, so the text-named specifications are the ordinary ones;
what remains here is the executable description of where the clause decides the result:

* `needsFallback ms e r` : the weights of the members with an energy do not sum to a positive number, but some member has an energy;
* `fallbackCases T`      : the (Z, group) pairs among K-alpha, K-beta, L-beta for which that holds (shipped tables: K-alpha of Li, Be;
                           K-beta of Na, Mg; L-beta of Z = 99 … 104) — the inputs that exercise the repaired branches.

Core Lean only.
-/
namespace Xrl
namespace Spec

section
variable {α : Type} [Add α] [Sub α] [Mul α] [Div α] [Neg α] [LT α] [LE α] [OfScientific α]
  [DecidableLT α] [DecidableLE α] [XNum α]

/-- the text-named specifications are the ordinary ones -/
def wmeanText (ms : List Int) (e r : Int → α) : Expect α := wmean ms e r
def composedText (T : Tables α) (Z l1 l2 : Int) : Expect α := composed T Z l1 l2
def LineEnergyText (T : Tables α) (Z line : Int) : Expect α := LineEnergy T Z line
def LineEnergyLBText (T : Tables α) (Z : Int) : Expect α := LineEnergyLB T Z

/-- the fallback clause decides: the weights of the members with an energy do not sum to a positive number, but some member has
an energy -/
def needsFallback (ms : List Int) (e r : Int → α) : Bool :=
  !decide ((0.0 : α) < ms.foldl (fun acc m => if e m ≤ (0.0 : α) then acc else acc + r m) (0.0 : α)) &&
  decide ((0.0 : α) < ms.foldl (fun acc m => if e m ≤ (0.0 : α) then acc else acc + (1.0 : α)) (0.0 : α))

/-- the (Z, group macro) pairs among K-alpha, K-beta, L-beta on which the fallback clause decides the result -/
def fallbackCases (T : Tables α) : List (Nat × Int) :=
  (List.range 121).flatMap (fun (z : Nat) =>
    (if zOk (Int.ofNat z) && needsFallback Hdr.group_KA (eCell T (Int.ofNat z)) (rCell T (Int.ofNat z)) then [(z, Hdr.KA_LINE)] else []) ++
    (if zOk (Int.ofNat z) && needsFallback Hdr.group_KB (kEnergy T (Int.ofNat z)) (rCell T (Int.ofNat z)) then [(z, Hdr.KB_LINE)] else []) ++
    (if zOk (Int.ofNat z) && needsFallback lbEnergyMembers (lbEnergy T (Int.ofNat z)) (lbWeight T (Int.ofNat z)) then [(z, Hdr.LB_LINE)] else []))

end
end Spec
end Xrl
