import Xrl.Spec.Basic
import Xrl.Gen.Tables
import Xrl.Gen.Hdr
/-!
# C01: what a scalar lookup must return

"returns the value recorded for that element and named quantity … reports an error, never a number,
exactly when the data files hold no positive record for that pair or the argument lies outside the macro range"

The table cell is the value recorded (the loader theorem and the table-vs-`prdata` comparison tie cells to
data-file records); ranges are the macro ranges published in the headers.
-/
namespace Xrl
namespace Spec

section
variable {α : Type} [OfScientific α] [LT α] [DecidableLT α] [Add α] [Sub α] [Mul α] [Div α] [Neg α] [XNum α]

def zOk (Z : Int) : Bool := decide (1 ≤ Z ∧ Z ≤ Hdr.ZMAX)
/-- macro value inside `[lo, hi]` -/
def mOk (lo hi m : Int) : Bool := decide (lo ≤ m ∧ m ≤ hi)

def lookup1 (cell : Nat → α) (Z : Int) : Expect α :=
  if zOk Z = true ∧ (0.0 : α) < cell Z.toNat then .value (cell Z.toNat) else .fails

/-- `slot m` is the column the macro value `m` designates -/
def lookup2 (cell : Nat → Nat → α) (lo hi : Int) (slot : Int → Int) (Z m : Int) : Expect α :=
  if zOk Z = true ∧ mOk lo hi m = true ∧ (0.0 : α) < cell Z.toNat (slot m).toNat then .value (cell Z.toNat (slot m).toNat)
  else .fails

def AtomicWeight (T : Tables α) := lookup1 T.AtomicWeight_arr
def ElementDensity (T : Tables α) := lookup1 T.ElementDensity_arr
def EdgeEnergy (T : Tables α) := lookup2 T.EdgeEnergy_arr Hdr.K_SHELL (Hdr.SHELLNUM - 1) id
def FluorYield (T : Tables α) := lookup2 T.FluorYield_arr Hdr.K_SHELL (Hdr.SHELLNUM - 1) id
def JumpFactor (T : Tables α) := lookup2 T.JumpFactor_arr Hdr.K_SHELL (Hdr.SHELLNUM - 1) id
def AtomicLevelWidth (T : Tables α) := lookup2 T.AtomicLevelWidth_arr Hdr.K_SHELL (Hdr.SHELLNUM - 1) id
def CosKronTransProb (T : Tables α) := lookup2 T.CosKron_arr Hdr.FL12_TRANS Hdr.FM45_TRANS id
def ElectronConfig (T : Tables α) := lookup2 T.Electron_Config_Kissel Hdr.K_SHELL (Hdr.SHELLNUM_K - 1) id
def AugerRate (T : Tables α) := lookup2 T.Auger_Rates Hdr.K_L1L1_AUGER (Hdr.AUGERNUM - 1) id
def AugerYield (T : Tables α) := lookup2 T.Auger_Yields Hdr.K_SHELL Hdr.M5_SHELL id

/-- Biggs occupancy: the record of sub-shell `s` among the `NShells` tabulated ones; "no record" is occupancy 0 -/
def ElectronConfig_Biggs [LE α] [DecidableLE α] (T : Tables α) (Z s : Int) : Expect α :=
  if zOk Z = true ∧ 0 ≤ s ∧ s < T.NShells_ComptonProfiles Z.toNat ∧
      ¬ deq ((T.UOCCUP_ComptonProfiles Z.toNat).get s.toNat) (0.0 : α) then
    .value ((T.UOCCUP_ComptonProfiles Z.toNat).get s.toNat)
  else .fails

end
end Spec
end Xrl
