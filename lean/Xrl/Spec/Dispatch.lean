import Xrl.Core.Proto
import Xrl.Spec.Lookup
import Xrl.Spec.Interp
import Xrl.Spec.DataInv
import Xrl.Spec.Scatter
import Xrl.Spec.Groups
import Xrl.Spec.Auger
import Xrl.Spec.Cascade
import Xrl.Spec.JumpRatio
import Xrl.Spec.Sums
import Xrl.Spec.Interp2
import Xrl.Spec.LBeta
import Xrl.Spec.Invariants
import Xrl.Spec.PhotoStrict
import Xrl.Spec.GroupsText
import Xrl.Spec.Text0129
/-!
# `spec.*` operations of the driver: the executable specifications in the `Float` reading

Used by the violation search (specification vs the *real* library) and to show, in the evidence, that
the expectations are non-trivial on the shipped data.
-/
namespace Xrl
open Spec

def fmtE : Expect Float → String
  | .value v => "value " ++ fmtF v
  | .fails => "fails"
  | .any => "any"

def dispatchSpec (T : Tables Float) (fn : String) (a : Array String) : Option String :=
  match fn, a.size with
  | "spec.AtomicWeight", 1 => some (fmtE (Spec.AtomicWeight T (pI a[0]!)))
  | "spec.ElementDensity", 1 => some (fmtE (Spec.ElementDensity T (pI a[0]!)))
  | "spec.EdgeEnergy", 2 => some (fmtE (Spec.EdgeEnergy T (pI a[0]!) (pI a[1]!)))
  | "spec.FluorYield", 2 => some (fmtE (Spec.FluorYield T (pI a[0]!) (pI a[1]!)))
  | "spec.JumpFactor", 2 => some (fmtE (Spec.JumpFactor T (pI a[0]!) (pI a[1]!)))
  | "spec.AtomicLevelWidth", 2 => some (fmtE (Spec.AtomicLevelWidth T (pI a[0]!) (pI a[1]!)))
  | "spec.CosKronTransProb", 2 => some (fmtE (Spec.CosKronTransProb T (pI a[0]!) (pI a[1]!)))
  | "spec.ElectronConfig", 2 => some (fmtE (Spec.ElectronConfig T (pI a[0]!) (pI a[1]!)))
  | "spec.ElectronConfig_Biggs", 2 => some (fmtE (Spec.ElectronConfig_Biggs T (pI a[0]!) (pI a[1]!)))
  | "spec.AugerRate", 2 => some (fmtE (Spec.AugerRate T (pI a[0]!) (pI a[1]!)))
  | "spec.AugerYield", 2 => some (fmtE (Spec.AugerYield T (pI a[0]!) (pI a[1]!)))
  | "spec.CS_Photo", 2 => some (fmtE (Spec.CS_Photo T (pI a[0]!) (pF a[1]!)))
  | "spec.CS_Rayl", 2 => some (fmtE (Spec.CS_Rayl T (pI a[0]!) (pF a[1]!)))
  | "spec.CS_Compt", 2 => some (fmtE (Spec.CS_Compt T (pI a[0]!) (pF a[1]!)))
  | "spec.CS_Energy", 2 => some (fmtE (Spec.CS_Energy T (pI a[0]!) (pF a[1]!)))
  | "spec.Fi", 2 => some (fmtE (Spec.Fi T (pI a[0]!) (pF a[1]!)))
  | "spec.Fii", 2 => some (fmtE (Spec.Fii T (pI a[0]!) (pF a[1]!)))
  | "spec.FF_Rayl", 2 => some (fmtE (Spec.FF_Rayl T (pI a[0]!) (pF a[1]!)))
  | "spec.SF_Compt", 2 => some (fmtE (Spec.SF_Compt T (pI a[0]!) (pF a[1]!)))
  | "spec.ComptonProfile", 2 => some (fmtE (Spec.ComptonProfile T (pI a[0]!) (pF a[1]!)))
  | "spec.DCS_Thoms", 1 => some (fmtE (Spec.DCS_Thoms (pF a[0]!)))
  | "spec.DCSP_Thoms", 2 => some (fmtE (Spec.DCSP_Thoms (pF a[0]!) (pF a[1]!)))
  | "spec.DCS_KN", 2 => some (fmtE (Spec.DCS_KN (pF a[0]!) (pF a[1]!)))
  | "spec.DCSP_KN", 3 => some (fmtE (Spec.DCSP_KN (pF a[0]!) (pF a[1]!) (pF a[2]!)))
  | "spec.CS_KN", 1 => some (fmtE (Spec.CS_KN (pF a[0]!)))
  | "spec.ComptonEnergy", 2 => some (fmtE (Spec.ComptonEnergy (pF a[0]!) (pF a[1]!)))
  | "spec.MomentTransf", 2 => some (fmtE (Spec.MomentTransf (pF a[0]!) (pF a[1]!)))
  | "spec.LineEnergy", 2 => some (fmtE (Spec.LineEnergy T (pI a[0]!) (pI a[1]!)))
  | "spec.RadRate", 2 => some (fmtE (Spec.RadRate T (pI a[0]!) (pI a[1]!)))
  | "spec.augerYield", 2 => some ("value " ++ fmtF (Spec.augerYield T (pI a[0]!) (pI a[1]!)))
  | "spec.netTotal", 2 => some ("value " ++ fmtF (Spec.netTotal T (pI a[0]!) (pI a[1]!)))
  | "spec.augerRate", 2 => some ("value " ++ fmtF (Spec.augerRate T (pI a[0]!) (pI a[1]!)))
  | "spec.constAuger", 3 => some ("value " ++ fmtF (Spec.constAuger T (pI a[0]!) (pI a[1]!) (pI a[2]!)))
  | "spec.constFull", 3 => some ("value " ++ fmtF (Spec.constFull T (pI a[0]!) (pI a[1]!) (pI a[2]!)))
  | "spec.CS_FluorShell", 3 => some (fmtE (Spec.CS_FluorShell T (pI a[0]!) (pI a[1]!) (pF a[2]!)))
  | "spec.CS_FluorLine", 3 => some (fmtE (Spec.CS_FluorLine T (pI a[0]!) (pI a[1]!) (pF a[2]!)))
  | "spec.CSb_FluorShell", 3 => some (fmtE (Spec.CSb_FluorShell T (pI a[0]!) (pI a[1]!) (pF a[2]!)))
  | "spec.CSb_FluorLine", 3 => some (fmtE (Spec.CSb_FluorLine T (pI a[0]!) (pI a[1]!) (pF a[2]!)))
  | "spec.edgeOrderFailures", 0 => some ("list " ++ toString (Spec.edgeOrderFailures T))
  | "spec.lineShellNamesAgree", 0 => some ("bool " ++ toString Spec.lineShellNamesAgree)
  | "spec.shapeFailures", 0 => some ("shape " ++ toString ((Spec.shapeFailures T).map (fun p => p.1 ++ ":" ++ toString p.2)))
  | "spec.CS_Total", 2 => some (fmtE (Spec.CS_Total T (pI a[0]!) (pF a[1]!)))
  | "spec.CSb_Total", 2 => some (fmtE (Spec.CSb_Total T (pI a[0]!) (pF a[1]!)))
  | "spec.CSb_Photo", 2 => some (fmtE (Spec.CSb_Photo T (pI a[0]!) (pF a[1]!)))
  | "spec.CSb_Rayl", 2 => some (fmtE (Spec.CSb_Rayl T (pI a[0]!) (pF a[1]!)))
  | "spec.CSb_Compt", 2 => some (fmtE (Spec.CSb_Compt T (pI a[0]!) (pF a[1]!)))
  | "spec.DCS_Rayl", 3 => some (fmtE (Spec.DCS_Rayl T (pI a[0]!) (pF a[1]!) (pF a[2]!)))
  | "spec.DCS_Compt", 3 => some (fmtE (Spec.DCS_Compt T (pI a[0]!) (pF a[1]!) (pF a[2]!)))
  | "spec.DCSb_Rayl", 3 => some (fmtE (Spec.DCSb_Rayl T (pI a[0]!) (pF a[1]!) (pF a[2]!)))
  | "spec.DCSb_Compt", 3 => some (fmtE (Spec.DCSb_Compt T (pI a[0]!) (pF a[1]!) (pF a[2]!)))
  | "spec.DCSP_Rayl", 4 => some (fmtE (Spec.DCSP_Rayl T (pI a[0]!) (pF a[1]!) (pF a[2]!) (pF a[3]!)))
  | "spec.DCSP_Compt", 4 => some (fmtE (Spec.DCSP_Compt T (pI a[0]!) (pF a[1]!) (pF a[2]!) (pF a[3]!)))
  | "spec.DCSPb_Rayl", 4 => some (fmtE (Spec.DCSPb_Rayl T (pI a[0]!) (pF a[1]!) (pF a[2]!) (pF a[3]!)))
  | "spec.DCSPb_Compt", 4 => some (fmtE (Spec.DCSPb_Compt T (pI a[0]!) (pF a[1]!) (pF a[2]!) (pF a[3]!)))
  | "spec.ComptonProfile_Partial", 3 => some (fmtE (Spec.ComptonProfile_Partial T (pI a[0]!) (pI a[1]!) (pF a[2]!)))
  | "spec.CSb_Photo_Partial", 3 => some (fmtE (Spec.CSb_Photo_Partial T (pI a[0]!) (pI a[1]!) (pF a[2]!)))
  | "spec.CS_Photo_Partial", 3 => some (fmtE (Spec.CS_Photo_Partial T (pI a[0]!) (pI a[1]!) (pF a[2]!)))
  | "spec.CSb_Photo_Total", 2 => some (fmtE (Spec.CSb_Photo_Total T (pI a[0]!) (pF a[1]!)))
  | "spec.CS_Photo_Total", 2 => some (fmtE (Spec.CS_Photo_Total T (pI a[0]!) (pF a[1]!)))
  | "spec.CS_Total_Kissel", 2 => some (fmtE (Spec.CS_Total_Kissel T (pI a[0]!) (pF a[1]!)))
  | "spec.CSb_Total_Kissel", 2 => some (fmtE (Spec.CSb_Total_Kissel T (pI a[0]!) (pF a[1]!)))
  | "spec.LineEnergyLB", 1 => some (fmtE (Spec.LineEnergyLB T (pI a[0]!)))
  | "spec.ratesNegative", 0 => some ("list " ++ toString (Spec.ratesNegative T))
  | "spec.lbWeightsNegative", 0 => some ("list " ++ toString (Spec.lbWeightsNegative T))
  | "spec.rateWithoutEnergy", 0 => some ("list " ++ toString (Spec.rateWithoutEnergy T))
  | "spec.fallbackCases", 0 => some ("list " ++ toString (Spec.fallbackCases T))
  | "spec.LineEnergyText", 2 => some (fmtE (Spec.LineEnergyText T (pI a[0]!) (pI a[1]!)))
  | "spec.LineEnergyLBText", 1 => some (fmtE (Spec.LineEnergyLBText T (pI a[0]!)))
  | "spec.groupRange", 2 => some (match Spec.groupRange T (pI a[0]!) (pI a[1]!) with | none => "none" | some (lo, hi) => "range " ++ fmtF lo ++ " " ++ fmtF hi)
  | "spec.augerInputsBad", 0 => some ("list " ++ toString (Spec.augerInputsBad T))
  | "spec.augerRateBad", 1 => some ("list " ++ toString (Spec.augerRateBad (pF a[0]!) T))
  | "spec.photoUndefined", 2 => some ("list " ++ toString (Spec.photoUndefined T (pI a[0]!) (pF a[1]!)))
  | "spec.CSb_Photo_Total_strict", 2 => some (fmtE (Spec.CSb_Photo_Total_strict T (pI a[0]!) (pF a[1]!)))
  | "spec.weightFailures", 0 => some ("shape " ++ toString ((Spec.weightFailures T).map (fun p => p.1 ++ ":" ++ toString p.2)))
  | "spec.shapeFailures2", 0 => some ("shape " ++ toString ((Spec.shapeFailures2 T).map (fun p => p.1 ++ ":" ++ toString p.2.1 ++ ":" ++ toString p.2.2)))
  | "spec.ElectronConfig_BiggsPos", 2 => some (fmtE (Spec.ElectronConfig_BiggsPos T (pI a[0]!) (pI a[1]!)))
  | "spec.biggsNegative", 0 => some ("list " ++ toString (Spec.biggsNegative T))
  | "spec.zeroKnotBad", 0 => some ("shape " ++ toString ((Spec.zeroKnotBad T).map (fun p => p.1 ++ ":" ++ toString p.2)))
  | "spec.zeroKnotTables", 0 => some ("shape " ++ toString ((Spec.zeroKnotTables T).map (fun p => p.1 ++ ":" ++ toString p.2)))
  | "spec.lbDoubleCount", 0 => some ("list " ++ toString (Spec.lbDoubleCount T))
  | "spec.lbMemberRates", 0 => some ("list " ++ toString (Spec.lbMemberRates T))
  | "spec.shellFactorOf", 3 => some (fmtE (Spec.shellFactorOf T (pI a[0]!) (pI a[1]!) (pF a[2]!)))
  | "spec.lineFactor", 3 => some (fmtE (Spec.lineFactor T (pI a[0]!) (pI a[1]!) (pF a[2]!)))
  | "spec.CS_FluorLine_LBonce", 2 => some (fmtE (Spec.CS_FluorLine_LBonce T (pI a[0]!) (pF a[1]!)))
  | _, _ => none

end Xrl
