import Xrl.Core.Proto
import Xrl.Spec.Lookup
/-!
# `spec.*` operations of the driver: the executable specifications in the `Float` reading

Used by the violation search (specification vs the *real* library) and to show, in the evidence, that
the expectations are non-trivial on the shipped data.
-/
namespace Xrl
open Spec

def fmtE : Expect Float → String
  | .value v => "value " ++ fmtF v
  | .fails => "fails"

def dispatchSpec (T : Tables Float) (fn : String) (a : Array String) : Option String :=
  match fn, a.size with
  | "spec.AtomicWeight", 1 => some (fmtE (Spec.AtomicWeight T (pI a[0]!)))
  | "spec.ElementDensity", 1 => some (fmtE (Spec.ElementDensity T (pI a[0]!)))
  | "spec.EdgeEnergy", 2 => some (fmtE (Spec.EdgeEnergy T (pI a[0]!) (pI a[1]!)))
  | "spec.FluorYield", 2 => some (fmtE (Spec.FluorYield T (pI a[0]!) (pI a[1]!)))
  | "spec.JumpFactor", 2 => some (fmtE (Spec.JumpFactor T (pI a[0]!) (pI a[1]!)))
  | "spec.AtomicLevelWidth", 2 => some (fmtE (Spec.AtomicLevelWidth T (pI a[0]!) (pI a[1]!)))
  | "spec.CosKronTransProb", 2 => some (fmtE (Spec.CosKronTransProb T (pI a[0]!) (pI a[1]!)))
  | "spec.ElectronConfig", 2 => some (fmtE (Spec.ElectronConfig T (pI a[0]!) (pI a[1]!)))
  | "spec.AugerRate", 2 => some (fmtE (Spec.AugerRate T (pI a[0]!) (pI a[1]!)))
  | "spec.AugerYield", 2 => some (fmtE (Spec.AugerYield T (pI a[0]!) (pI a[1]!)))
  | _, _ => none

end Xrl
