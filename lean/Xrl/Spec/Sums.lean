import Xrl.Spec.Interp
/-!
# C05: totals, per-atom (barn) twins, Kissel photo total — defining identities

"the total attenuation cross section equals photo + Rayleigh + Compton … every barn/atom function equals its
cm2/g twin times atomic weight over the Avogadro constant … When a part is undefined the aggregate fails with
an error instead of returning a partial sum."
-/
namespace Xrl
namespace Spec

section
variable {α : Type} [Add α] [Sub α] [Mul α] [Div α] [Neg α] [LT α] [LE α] [OfScientific α]
  [DecidableLT α] [DecidableLE α] [XNum α]

/-- sum of three parts, defined only where all three are -/
def add3 : Expect α → Expect α → Expect α → Expect α
  | .value a, .value b, .value c => .value ((a + b) + c)
  | _, _, _ => .fails

/-- cm²/g → barn/atom: times atomic weight over Avogadro's constant (unit factor 1e-24·1e24 folded into AVOGNUM) -/
def toBarn : Expect α → Expect α → Expect α
  | .value cs, .value aw => .value (cs * aw / (Hdr.AVOGNUM : α))
  | _, _ => .fails

/-- barn/atom → cm²/g -/
def toCm2g : Expect α → Expect α → Expect α
  | .value cs, .value aw => .value (cs * (Hdr.AVOGNUM : α) / aw)
  | _, _ => .fails

def CS_Total (T : Tables α) (Z : Int) (E : α) : Expect α :=
  add3 (CS_Photo T Z E) (CS_Rayl T Z E) (CS_Compt T Z E)

def CSb_Total (T : Tables α) (Z : Int) (E : α) : Expect α := toBarn (CS_Total T Z E) (AtomicWeight T Z)
def CSb_Photo (T : Tables α) (Z : Int) (E : α) : Expect α := toBarn (CS_Photo T Z E) (AtomicWeight T Z)
def CSb_Rayl (T : Tables α) (Z : Int) (E : α) : Expect α := toBarn (CS_Rayl T Z E) (AtomicWeight T Z)
def CSb_Compt (T : Tables α) (Z : Int) (E : α) : Expect α := toBarn (CS_Compt T Z E) (AtomicWeight T Z)

end
end Spec
end Xrl
