import Xrl.Spec.Interp
import Xrl.Spec.Sums
import Xrl.Spec.Groups
import Xrl.Spec.Diff
/-!
# C02 (remaining sites) and the Kissel photo sums of C05

Written from the documentation of each quantity:

* sub-shell Compton profile: like the total one a spline of ln J against ln(pz+1), on the sub-shell's own column of
  the element's profile table; defined for the sub-shells the element's record lists with a non-zero occupancy;
* Kissel partial photoionisation cross section (barn per electron of the sub-shell): defined for an occupied
  sub-shell (`K … Q3` among the macros that have an absorption edge, occupancy ≥ 1e-6) at energies not below the
  sub-shell's edge; inside the tabulated range it is `exp(spline(ln E))` on the sub-shell's own knots; *between the
  edge energy and the first knot* it is the documented log-log extension through the first knot with the slope of
  the first interval limited to `[-1, 1]`; above the last knot it fails (no extrapolation);
* `CS_Photo_Partial` = barn value × occupancy × N_A / A; `CSb_Photo_Total` = Σ over the occupied sub-shells of
  occupancy × partial cross section (sub-shells not excited at `E` contribute nothing), an error when nothing
  contributes; `CS_Photo_Total` = that × N_A / A.

Core Lean only.
-/
namespace Xrl
namespace Spec

section
variable {α : Type} [Add α] [Sub α] [Mul α] [Div α] [Neg α] [LT α] [LE α] [OfScientific α]
  [DecidableLT α] [DecidableLE α] [XNum α]

/-- the sub-shell has a record in the element's Compton-profile table: `ElectronConfig_Biggs(Z, shell)` is defined -/
def hasProfile (T : Tables α) (Z shell : Int) : Bool :=
  match ElectronConfig_Biggs T Z shell with
  | .value _ => true
  | _ => false

def ComptonProfile_Partial (T : Tables α) (Z shell : Int) (pz : α) : Expect α :=
  interp (hasProfile T Z shell && decide ((0.0 : α) ≤ pz))
    (T.pz_ComptonProfiles Z.toNat) (T.Partial_ComptonProfiles Z.toNat shell.toNat)
    (T.Partial_ComptonProfiles2 Z.toNat shell.toNat) (T.Npz_ComptonProfiles Z.toNat)
    (XNum.log (pz + (1.0 : α))) XNum.exp

/-- shape of a sub-shell's profile table: the element has at most `SHELLNUM_C` = 29 sub-shell columns, an
occupancy entry for each, and — when it has any — the momentum grid is present -/
def profileOkB (T : Tables α) (Z : Int) : Bool :=
  decide (T.NShells_ComptonProfiles Z.toNat ≤ Hdr.SHELLNUM_C) &&
  decide (T.NShells_ComptonProfiles Z.toNat ≤ (T.UOCCUP_ComptonProfiles Z.toNat).len) &&
  (decide (T.NShells_ComptonProfiles Z.toNat < 1) || decide (1 ≤ T.Npz_ComptonProfiles Z.toNat))

/-! ## Kissel partial photoionisation cross section -/

/-- slope limited to `[-1, 1]` -/
def clampSlope (m : α) : α := if (1.0 : α) < m then (1.0 : α) else if m < (-(1.0 : α)) then (-(1.0 : α)) else m

/-- the log-log extension below the first knot: the line through the first knot with the (limited) slope of the
first interval -/
def kisselExtension (xa ya : Vec α) (lnE : α) : α :=
  XNum.exp (knot ya 1 + clampSlope ((knot ya 2 - knot ya 1) / (knot xa 2 - knot xa 1)) * (lnE - knot xa 1))

/-- the sub-shell is one of `K … Q3` that has an edge, is occupied, and is excited at `E` -/
def kisselGuard (T : Tables α) (Z shell : Int) (E : α) : Bool :=
  zOk Z && mOk Hdr.K_SHELL (Hdr.SHELLNUM - 1) shell && decide ((0.0 : α) < E) &&
  !decide (T.Electron_Config_Kissel Z.toNat shell.toNat < (1.0e-6 : α)) &&
  decide ((0.0 : α) < T.EdgeEnergy_arr Z.toNat shell.toNat) &&
  !decide (E < T.EdgeEnergy_arr Z.toNat shell.toNat)

def CSb_Photo_Partial (T : Tables α) (Z shell : Int) (E : α) : Expect α :=
  if kisselGuard T Z shell E = true then
    if XNum.log E < knot (T.E_Photo_Partial_Kissel Z.toNat shell.toNat) 1 then
      .value (kisselExtension (T.E_Photo_Partial_Kissel Z.toNat shell.toNat)
        (T.Photo_Partial_Kissel Z.toNat shell.toNat) (XNum.log E))
    else interp true (T.E_Photo_Partial_Kissel Z.toNat shell.toNat) (T.Photo_Partial_Kissel Z.toNat shell.toNat)
      (T.Photo_Partial_Kissel2 Z.toNat shell.toNat) (T.NE_Photo_Partial_Kissel Z.toNat shell.toNat) (XNum.log E) XNum.exp
  else .fails

/-- the sub-shell's table can be read at some energy: occupied and with an edge (the part of `kisselGuard` that does not
depend on `E`; the range checks on `Z` and `shell` aside).  For every other cell the function fails before touching
the table, so nothing is required of it (unoccupied sub-shells have count 0 and empty vectors in the real data). -/
def kisselReadable (T : Tables α) (Z shell : Int) : Bool :=
  !decide (T.Electron_Config_Kissel Z.toNat shell.toNat < (1.0e-6 : α)) &&
  decide ((0.0 : α) < T.EdgeEnergy_arr Z.toNat shell.toNat)

/-- shape of a readable Kissel sub-shell table beyond `vecOkB`: at least two knots and the first two abscissae differ
(the extension reads the second knot and divides by their difference) -/
def kisselOkB (T : Tables α) (Z shell : Int) : Bool :=
  decide (2 ≤ T.NE_Photo_Partial_Kissel Z.toNat shell.toNat) &&
  decide (knot (T.E_Photo_Partial_Kissel Z.toNat shell.toNat) 1 < knot (T.E_Photo_Partial_Kissel Z.toNat shell.toNat) 2)

/-- the shape condition of one sub-shell: nothing for an unreadable cell, `vecOkB` and `kisselOkB` for a readable one -/
def kisselShapeB (T : Tables α) (Z shell : Int) : Bool :=
  !kisselReadable T Z shell ||
  (vecOkB (T.E_Photo_Partial_Kissel Z.toNat shell.toNat) (T.Photo_Partial_Kissel Z.toNat shell.toNat)
      (T.Photo_Partial_Kissel2 Z.toNat shell.toNat) (T.NE_Photo_Partial_Kissel Z.toNat shell.toNat) &&
    kisselOkB T Z shell)

/-- the shape condition of one sub-shell profile column: `vecOkB` for the columns `ComptonProfile_Partial` reads
(`hasProfile`: sub-shell listed with a non-zero occupancy); nothing for the others (dummy vectors in the real data) -/
def profileColOkB (T : Tables α) (Z shell : Int) : Bool :=
  !hasProfile T Z shell ||
  vecOkB (T.pz_ComptonProfiles Z.toNat) (T.Partial_ComptonProfiles Z.toNat shell.toNat)
    (T.Partial_ComptonProfiles2 Z.toNat shell.toNat) (T.Npz_ComptonProfiles Z.toNat)

/-! ## the photo sums -/

/-- `a · b · N_A / aw`-style products, defined only where the parts are -/
def CS_Photo_Partial (T : Tables α) (Z shell : Int) (E : α) : Expect α :=
  match CSb_Photo_Partial T Z shell E, AtomicWeight T Z with
  | .value b, .value aw => .value (b * T.Electron_Config_Kissel Z.toNat shell.toNat * (Hdr.AVOGNUM : α) / aw)
  | _, _ => .fails

/-- occupancy-weighted sum over the sub-shells `K … Q3` (macros 0 … `SHELLNUM_K − 1`) with occupancy above 1e-6 of
the partial cross sections that are defined at `E` -/
def photoSum (T : Tables α) (Z : Int) (E : α) : α :=
  (List.range Hdr.SHELLNUM_K.toNat).foldl (fun acc (s : Nat) =>
    if (1.0e-6 : α) < T.Electron_Config_Kissel Z.toNat s
    then acc + valOr0 (CSb_Photo_Partial T Z (s : Int) E) * T.Electron_Config_Kissel Z.toNat s
    else acc) (0.0 : α)

def CSb_Photo_Total (T : Tables α) (Z : Int) (E : α) : Expect α :=
  if zOk Z = true ∧ 0 ≤ T.NE_Photo_Total_Kissel Z.toNat ∧ (0.0 : α) < E ∧ ¬ deq (photoSum T Z E) (0.0 : α)
  then .value (photoSum T Z E) else .fails

def CS_Photo_Total (T : Tables α) (Z : Int) (E : α) : Expect α := CS_Photo_Total_of T Z (CSb_Photo_Total T Z E)

/-- `CS_Total_Kissel = CS_Photo_Total + CS_Rayl + CS_Compt` -/
def CS_Total_Kissel (T : Tables α) (Z : Int) (E : α) : Expect α := CS_Total_Kissel_of T Z E (CSb_Photo_Total T Z E)

/-- `CSb_Total_Kissel = CS_Total_Kissel · A / N_A` -/
def CSb_Total_Kissel (T : Tables α) (Z : Int) (E : α) : Expect α := CSb_Total_Kissel_of T Z E (CSb_Photo_Total T Z E)

/-- every (Z, sub-shell `K … Q3` with an edge column) whose Kissel table fails `kisselShapeB`, every Z failing `profileOkB`,
every (Z, column < NShells) failing `profileColOkB` (expected: none).  Only cells the C functions can read are constrained. -/
def shapeFailures2 (T : Tables α) : List (String × Nat × Nat) :=
  ((List.range 121).flatMap fun (z : Nat) =>
    ((List.range Hdr.SHELLNUM.toNat).filter fun (s : Nat) => !kisselShapeB T (Int.ofNat z) (Int.ofNat s)).map
      fun (s : Nat) => ("Kissel", z, s)) ++
  ((List.range 121).filter fun (z : Nat) => !profileOkB T (Int.ofNat z)).map
    (fun (z : Nat) => ("ComptonProfile_Partial", z, 0)) ++
  ((List.range 121).flatMap fun (z : Nat) =>
    ((List.range (T.NShells_ComptonProfiles z).toNat).filter fun (s : Nat) =>
      !profileColOkB T (Int.ofNat z) (Int.ofNat s)).map fun (s : Nat) => ("Partial_ComptonProfiles", z, s))

end
end Spec
end Xrl
