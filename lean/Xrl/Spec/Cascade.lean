import Xrl.Spec.Groups
import Xrl.Spec.Auger
/-!
# C08: the cascade model built from the primitives

Vacancy transfer from an excited inner shell `s` to a shell `t` of a higher principal shell:
* by Auger transitions: Auger yield of `s` times the sum of the Auger rates of the transitions `s → t X`,
  counted twice for double holes `s → t t` (`Hdr.auger_feed`, derived from the 996 Auger macro NAMES);
* by radiative transitions: fluorescence yield of `s` times the radiative rate of the line `s t`
  (`Hdr.rad_feed`, derived from the line macro NAMES).
These are the constants `prdata` precomputes (`xrf_cross_sections_constants_auger_only / _full`).
-/
namespace Xrl
namespace Spec

section
variable {α : Type} [Add α] [Sub α] [Mul α] [Div α] [Neg α] [LT α] [LE α] [OfScientific α]
  [DecidableLT α] [DecidableLE α] [XNum α]

def feedList (t s : Int) : List (Int × Int) := ((Hdr.auger_feed.find? (fun p => p.1 = (t, s))).map (·.2)).getD []
def radLine (t s : Int) : Option Int := (Hdr.rad_feed.find? (fun p => p.1 = (t, s))).map (·.2)

/-- the public accessors, called without an error slot: the value, or 0 when unavailable -/
def aug (T : Tables α) (Z a : Int) : α := valOr0 (AugerRate T Z a)
def augYield (T : Tables α) (Z s : Int) : α := valOr0 (AugerYield T Z s)
def flYield (T : Tables α) (Z s : Int) : α := valOr0 (FluorYield T Z s)
def radRate (T : Tables α) (Z l : Int) : α := valOr0 (RadRate T Z l)

/-- Σ multiplicity · Auger rate over the transitions `s → t X` -/
def augerSum (T : Tables α) (Z t s : Int) : α :=
  (feedList t s).foldl (fun acc p => acc + XNum.ofInt p.1 * aug T Z p.2) (0.0 : α)

def constAuger (T : Tables α) (Z t s : Int) : α := augYield T Z s * augerSum T Z t s

def constFull (T : Tables α) (Z t s : Int) : α :=
  (match radLine t s with
   | some l => flYield T Z s * radRate T Z l
   | none => (0.0 : α)) + constAuger T Z t s

end
end Spec
end Xrl
