import Xrl.Spec.Cascade
/-!
# C08 (part 2): vacancyProd production, shell and line fluorescence cross sections of the Kissel family

Written from the property text:

"the shell fluorescence cross section equals fluorescence yield times the shell's vacancyProd production, where
vacancyProd production is the shell's own partial photo-ionisation plus Coster-Kronig feeding from lower sub-shells of
the same shell and, depending on the variant (none, radiative, non-radiative, full), vacancies transferred from
every excited inner shell by radiative transitions (yield times radiative rate) and/or Auger transitions …
Line cross sections are the shell value times the line's radiative rate (grouped lines sum their members) …
barn variants are the unit conversion, and below the shell's edge the call fails."

Everything structural comes from macro NAMES:
* `subshells` : the sub-shell macros `K_SHELL … M5_SHELL` with their principal shell (first letter of the name);
* `ck_feed`   : Coster–Kronig transitions `u → t`, from the names `F<X><u><t>_TRANS` (and `FLP13_TRANS`);
* `Hdr.rad_feed` (generated) : the line `s → t`;
* `lineRanges` : the lines of a sub-shell `X` are the line macros whose name begins with `X`.
`Spec.ckFeedOfNames` / `Spec.rangeOfName` recompute the two literal tables from `Hdr.macros_TRANS` /
`Hdr.macros_LINE`; Lemmas/Cascade.lean proves the literals equal the recomputed tables (`decide +kernel`).

The own partial photo-ionisation cross section `CS_Photo_Partial(Z, t, E)` is a parameter (`own`): an `Expect`ation.
-/
namespace Xrl
namespace Spec

/-- the four cascade variants: no cascade, radiative only, non-radiative (Auger) only, full -/
inductive Variant where
  | none | rad | auger | full
  deriving Repr, DecidableEq

/-- (sub-shell macro value, principal shell: K = 0, L = 1, M = 2), in the order K, L1, L2, L3, M1 … M5 -/
def subshells : List (Int × Int) := [(0, 0), (1, 1), (2, 1), (3, 1), (4, 2), (5, 2), (6, 2), (7, 2), (8, 2)]

def principal (s : Int) : Option Int := (subshells.find? (fun p => p.1 = s)).map (·.2)

/-- lower sub-shells of the same principal shell -/
def lowerSame (t : Int) : List Int :=
  (subshells.filter (fun p => decide (p.1 < t) && (some p.2 == principal t))).map (·.1)

/-- sub-shells of lower principal shells (the "inner shells" of `t`) -/
def inner (t : Int) : List Int :=
  (subshells.filter (fun p => match principal t with | some n => decide (p.2 < n) | none => false)).map (·.1)

/-- Coster–Kronig transitions `u → t` : `((t, u), [transition macros])`; rule: `F<X><u><t>_TRANS` feeds sub-shell
`X<t>` from `X<u>`; `FLP13_TRANS` is the second L1 → L3 channel -/
def ck_feed : List ((Int × Int) × List Int) :=
  [((2, 1), [1]), ((3, 1), [2, 3]), ((3, 2), [4]),
   ((5, 4), [5]), ((6, 4), [6]), ((7, 4), [7]), ((8, 4), [8]),
   ((6, 5), [9]), ((7, 5), [10]), ((8, 5), [11]),
   ((7, 6), [12]), ((8, 6), [13]), ((8, 7), [14])]

def ckList (t u : Int) : List Int := ((ck_feed.find? (fun p => p.1 = (t, u))).map (·.2)).getD []

/-- `(target, source)` of a transition macro NAME: `F L 1 2`, `F L P 1 3`, `F M 4 5` -/
def ckOfName (name : String) : Option (Int × Int) :=
  let base (c : Char) : Option Int := if c = 'L' then some 0 else if c = 'M' then some 3 else none
  let dig (c : Char) : Int := (c.toNat : Int) - 48
  match name.toList with
  | 'F' :: x :: 'P' :: u :: t :: '_' :: _ => (base x).map (fun b => (b + dig t, b + dig u))
  | 'F' :: x :: u :: t :: '_' :: _ => (base x).map (fun b => (b + dig t, b + dig u))
  | _ => none

/-- every transition macro is listed under the pair its name designates, and nothing else is listed -/
def ckFeedOfNames : Bool :=
  Hdr.macros_TRANS.flatten.all (fun p => match ckOfName p.1 with
    | some (t, u) => (ckList t u).contains p.2
    | none => false)
  && (ck_feed.map (fun p => p.2.length)).foldl (· + ·) 0 == Hdr.macros_TRANS.flatten.length

/-- `(sub-shell, lowest line macro, highest line macro)` of the lines whose name begins with the sub-shell's name -/
def lineRanges : List (Int × Int × Int) :=
  [(0, -29, 1), (1, -58, -30), (2, -85, -59), (3, -113, -86), (4, -136, -114), (5, -158, -137),
   (6, -180, -159), (7, -200, -181), (8, -219, -201)]

def shellNames : List (String × Int) :=
  [("K", 0), ("L1", 1), ("L2", 2), ("L3", 3), ("M1", 4), ("M2", 5), ("M3", 6), ("M4", 7), ("M5", 8)]

/-- values of the line macros whose name begins with `x` -/
def lineVals (x : String) : List Int :=
  (Hdr.macros_LINE.flatten.filter (fun p => x.toList.isPrefixOf p.1.toList)).map (·.2)

def rangeOfName (x : String) : Int × Int :=
  let vs := lineVals x
  (vs.foldl min (vs.headD 0), vs.foldl max (vs.headD 0))

/-- the ranges recomputed from the names; and every value inside a range is a line macro of that sub-shell -/
def lineRangesOfNames : List (Int × Int × Int) := shellNames.map (fun p => (p.2, rangeOfName p.1))

def lineRangesFull : Bool :=
  shellNames.all (fun p =>
    let vs := lineVals p.1
    let r := rangeOfName p.1
    (List.range (r.2 - r.1 + 1).toNat).all (fun k => vs.contains (r.1 + (k : Int))))

/-- the sub-shell a line macro belongs to -/
def lineShellK (line : Int) : Option Int :=
  (lineRanges.find? (fun r => decide (r.2.1 ≤ line) && decide (line ≤ r.2.2))).map (·.1)

/-- members of the L-beta group: the `LB<n>` aliases and the two `L3N6`, `L3N7` lines -/
def lbMembersK : List Int := Hdr.group_LB ++ [Hdr.L3N6_LINE, Hdr.L3N7_LINE]

section
variable {α : Type} [Add α] [Sub α] [Mul α] [Div α] [Neg α] [LT α] [LE α] [OfScientific α]
  [DecidableLT α] [DecidableLE α] [XNum α]

/-- Coster–Kronig probability, 0 when unavailable (the accessor called without an error slot) -/
def ckProb (T : Tables α) (Z tr : Int) : α := valOr0 (CosKronTransProb T Z tr)

/-- the precomputed vacancyProd-transfer constants (Part 1: `= constAuger / constFull`, printed with `%.10E`) -/
def cellAuger (T : Tables α) (Z t s : Int) : α := T.xrf_cross_sections_constants_auger_only Z.toNat t.toNat s.toNat
def cellFull (T : Tables α) (Z t s : Int) : α := T.xrf_cross_sections_constants_full Z.toNat t.toNat s.toNat

/-- vacancies produced in `t` per vacancyProd in the inner shell `s` -/
def transfer (T : Tables α) (Z t s : Int) : Variant → α
  | .none => (0.0 : α)
  | .rad => (match radLine t s with
      | some l => flYield T Z s * radRate T Z l
      | none => (0.0 : α))
  | .auger => cellAuger T Z t s
  | .full => cellFull T Z t s

/-- vacancyProd production of sub-shell `t`: own partial photo-ionisation + Coster–Kronig feeding from the lower
sub-shells of the same principal shell that are excited (`P u > 0`) + (variant) transfer from every excited
inner shell.  Fails when the shell's own photo-ionisation fails. -/
def vacancyProd (T : Tables α) (Z t : Int) (v : Variant) (P : Int → α) (own : Expect α) : Expect α :=
  match own with
  | .value o =>
    let ck := (lowerSame t).foldl (fun acc u =>
        if (0.0 : α) < P u then (ckList t u).foldl (fun a tr => a + ckProb T Z tr * P u) acc else acc) o
    (match v with
     | .none => .value ck
     | _ => .value ((inner t).foldl (fun acc s =>
        if (0.0 : α) < P s then acc + P s * transfer T Z t s v else acc) ck))
  | .fails => .fails
  | .any => .any

/-- vacancyProd productions of the sub-shells below the `n`-th (K, L1, L2, …, in this order), each computed from the ones
before it; 0 for a sub-shell that cannot be excited -/
def innerP (T : Tables α) (Z : Int) (v : Variant) (own : Int → Expect α) : Nat → Int → α
  | 0 => fun _ => (0.0 : α)
  | n + 1 => fun s =>
      if s = (n : Int) then valOr0 (vacancyProd T Z (n : Int) v (innerP T Z v own n) (own (n : Int)))
      else innerP T Z v own n s

/-- vacancyProd production × yield -/
def scaleBy (y : α) : Expect α → Expect α
  | .value p => .value (p * y)
  | .fails => .fails
  | .any => .any

/-- continue with the fluorescence yield, fail without one -/
def withYield (Y : Expect α) (f : α → Expect α) : Expect α :=
  match Y with
  | .value y => f y
  | _ => .fails

/-- shell fluorescence cross section: yield × vacancyProd production; fails for an invalid element, energy or shell,
without a fluorescence yield, and when the shell cannot be excited -/
def fluorShell (T : Tables α) (Z shell : Int) (E : α) (v : Variant) (own : Int → Expect α) : Expect α :=
  if zOk Z = false then .fails
  else if E ≤ (0.0 : α) then .fails
  else if mOk Hdr.K_SHELL Hdr.M5_SHELL shell = false then .fails
  else withYield (FluorYield T Z shell) (fun y =>
    scaleBy y (vacancyProd T Z shell v (innerP T Z v own shell.toNat) (own shell)))

/-- rate × shell value; fails when either is unavailable -/
def lineValue : Expect α → Expect α → Expect α
  | .value r, .value f => .value (f * r)
  | .value _, .any => .any
  | _, _ => .fails

/-- single lines, K-alpha, K-beta (lines of the K shell) and L-alpha (lines of L3) -/
def fluorLine1 (T : Tables α) (Z line : Int) (E : α) (v : Variant) (own : Int → Expect α) : Expect α :=
  if zOk Z = false then .fails
  else if E ≤ (0.0 : α) then .fails
  else match lineShellK line with
    | some s => lineValue (RadRate T Z line) (fluorShell T Z s E v own)
    | none =>
      if line = Hdr.LA_LINE then lineValue (RadRate T Z line) (fluorShell T Z Hdr.L3_SHELL E v own)
      else .fails

/-- line fluorescence cross section; L-beta is the sum of its members (a member that fails counts 0),
failing when no member contributes -/
def fluorLine (T : Tables α) (Z line : Int) (E : α) (v : Variant) (own : Int → Expect α) : Expect α :=
  if line = Hdr.LB_LINE then
    if zOk Z = false then .fails
    else if E ≤ (0.0 : α) then .fails
    else
      let s := lbMembersK.foldl (fun acc m => acc + valOr0 (fluorLine1 T Z m E v own)) (0.0 : α)
      if deq s (0.0 : α) then .fails else .value s
  else fluorLine1 T Z line E v own

/-- cm²/g → barn/atom with the atomic weight read directly from the table (no availability check) -/
def toBarnW (w : α) : Expect α → Expect α
  | .value cs => .value (cs * w / (Hdr.AVOGNUM : α))
  | .fails => .fails
  | .any => .any

end
end Spec
end Xrl
