import Xrl.Spec.Groups
/-!
# C11: Auger yields and rates as the documented derivation of the raw tables

The Coster–Kronig structure comes from the macro NAMES (generated into `Hdr` by tools/extract_headers.py):
`ck_of_shell s` = the transitions `F<s><b>` leaving sub-shell `s`; `auger_ck_of_shell s` = the Auger
transitions out of `s` with a final hole in the same principal shell ("Coster–Kronig-type");
`auger_first_of_shell` = first Auger macro of each initial shell (bucket boundaries).

* Auger yield of shell `s` (K..M5) = 1 − ω_s − Σ of the shell's Coster–Kronig probabilities, when ω_s is tabulated;
  otherwise 0 ("unavailable");
* net non-radiative total of `s` = raw total(s) − Σ raw rates of its Coster–Kronig-type transitions;
* Auger rate of transition `a` = raw(a) / net total(initial shell of a); 0 for Coster–Kronig-type transitions,
  for untabulated ones, and when the net total is below 1e-8.
-/
namespace Xrl
namespace Spec

section
variable {α : Type} [Add α] [Sub α] [Mul α] [Div α] [Neg α] [LT α] [LE α] [OfScientific α]
  [DecidableLT α] [DecidableLE α] [XNum α]

def lookupList (l : List (Int × List Int)) (s : Int) : List Int := ((l.find? (fun p => p.1 = s)).map (·.2)).getD []

def augerYield (T : Tables α) (Z s : Int) : α :=
  if zOk Z = true ∧ 0 ≤ s ∧ s ≤ Hdr.M5_SHELL then
    let w := valOr0 (FluorYield T Z s)
    if deq w (0.0 : α) then (0.0 : α)
    else (lookupList Hdr.ck_of_shell s).foldl (fun acc t => acc - valOr0 (CosKronTransProb T Z t)) ((1.0 : α) - w)
  else (0.0 : α)

def rawTotal (T : Tables α) (Z s : Int) : α := T.Auger_Transition_Total Z.toNat s.toNat
def rawRate (T : Tables α) (Z a : Int) : α := T.Auger_Transition_Individual Z.toNat a.toNat

def netTotal (T : Tables α) (Z s : Int) : α :=
  if zOk Z = true ∧ 0 ≤ s ∧ s ≤ Hdr.M5_SHELL then
    (lookupList Hdr.auger_ck_of_shell s).foldl (fun acc a => acc - rawRate T Z a) (rawTotal T Z s)
  else (0.0 : α)

def isCKAuger (a : Int) : Bool := Hdr.auger_ck_runs.any (fun r => decide (r.1 ≤ a ∧ a ≤ r.2))

/-- initial shell of an Auger macro: the last bucket whose first macro is ≤ a -/
def augerInit (a : Int) : Int :=
  Hdr.auger_first_of_shell.foldl (fun acc p => if p.2 ≤ a then p.1 else acc) 0

def augerRate (T : Tables α) (Z a : Int) : α :=
  if zOk Z = true ∧ 0 ≤ a ∧ a < Hdr.AUGERNUM then
    if isCKAuger a = true then (0.0 : α)
    else if deq (rawRate T Z a) (0.0 : α) then (0.0 : α)
    else
      let y := netTotal T Z (augerInit a)
      if y < (1.0e-8 : α) then (0.0 : α) else rawRate T Z a / y
  else (0.0 : α)

end
end Spec
end Xrl
