import Xrl.Spec.Interp2
/-!
# C05, strict reading of the Kissel photo total: "When a part is undefined the aggregate fails with an error instead of
returning a partial sum"

`Spec.photoSum` (Spec/Interp2.lean) adds 0 for EVERY sub-shell whose partial cross section fails.  For a sub-shell that is not
excited at `E` (edge above `E`) or not occupied that is the definition of the sum: the sub-shell is not a part.  But a sub-shell
that is a part at `E` — occupied, edge at or below `E` — and whose partial cross section is undefined there (its own table ends
below `E`: no extrapolation) is an undefined part: by the text the aggregate has no value.

* `ionisable T Z s E`        : the sum runs over `s` (occupancy above 1e-6) and `s` is excited at `E` (`kisselGuard`: valid
                               element, sub-shell with an edge, `0 < E`, occupied, `0 < edge ≤ E`);
* `photoUndefined T Z E`     : the ionisable sub-shells whose `CSb_Photo_Partial` is undefined at `E`;
* `CSb_Photo_Total_strict`   : `CSb_Photo_Total` when that list is empty, an error otherwise;
  `CS_Photo_Total_strict`, `CS_Total_Kissel_strict`, `CSb_Total_Kissel_strict`: the aggregates built on it.

Core Lean only.
-/
namespace Xrl
namespace Spec

section
variable {α : Type} [Add α] [Sub α] [Mul α] [Div α] [Neg α] [LT α] [LE α] [OfScientific α]
  [DecidableLT α] [DecidableLE α] [XNum α]

def isValue : Expect α → Bool
  | .value _ => true
  | _ => false

/-- sub-shell `s` is a part of the photo sum at `E`: occupied (above the 1e-6 the sum uses) and excited at `E` -/
def ionisable (T : Tables α) (Z : Int) (s : Nat) (E : α) : Bool :=
  decide ((1.0e-6 : α) < T.Electron_Config_Kissel Z.toNat s) && kisselGuard T Z (s : Int) E

/-- the parts of the photo sum that are undefined at `E` -/
def photoUndefined (T : Tables α) (Z : Int) (E : α) : List Nat :=
  (List.range Hdr.SHELLNUM_K.toNat).filter (fun (s : Nat) =>
    ionisable T Z s E && !isValue (CSb_Photo_Partial T Z (s : Int) E))

/-- **the Kissel photo total by the text**: the occupancy-weighted sum of the sub-shell cross sections where every part is
defined; an error when a part is undefined (and, as before, when nothing contributes) -/
def CSb_Photo_Total_strict (T : Tables α) (Z : Int) (E : α) : Expect α :=
  if (photoUndefined T Z E).isEmpty = true then CSb_Photo_Total T Z E else .fails

def CS_Photo_Total_strict (T : Tables α) (Z : Int) (E : α) : Expect α :=
  CS_Photo_Total_of T Z (CSb_Photo_Total_strict T Z E)

def CS_Total_Kissel_strict (T : Tables α) (Z : Int) (E : α) : Expect α :=
  CS_Total_Kissel_of T Z E (CSb_Photo_Total_strict T Z E)

def CSb_Total_Kissel_strict (T : Tables α) (Z : Int) (E : α) : Expect α :=
  CSb_Total_Kissel_of T Z E (CSb_Photo_Total_strict T Z E)

end
end Spec
end Xrl
