import Xrl.Spec.Spline
import Xrl.Spec.Lookup
/-!
# C02: the interpolated quantities as "transform ∘ spline ∘ inverse transform" of their own tables

Written from the documentation of each quantity: photo / Rayleigh / Compton cross sections are splines of
ln σ against ln(1000·E); the energy-absorption coefficient against ln E (Z ≤ 92); form factor and
scattering function are splines in q (linear space; FF(Z,0) = Z); f′, f″ in E; Compton profiles are
splines of ln J against ln(pz+1).
-/
namespace Xrl
namespace Spec

section
variable {α : Type} [Add α] [Sub α] [Mul α] [Div α] [Neg α] [LT α] [LE α] [OfScientific α]
  [DecidableLT α] [DecidableLE α] [XNum α]

/-- shape of one table triple: either absent (`n < 0`) or `n ≥ 1` knots inside all three vectors, abscissae
non-decreasing (adjacent comparison, executable) -/
def vecOkB (xa ya y2 : Vec α) (n : Int) : Bool :=
  decide (n < 0) ||
  (decide (1 ≤ n ∧ n ≤ xa.len ∧ n ≤ ya.len ∧ n ≤ y2.len) &&
   (List.range (n.toNat - 1)).all (fun i => decide (knot xa (i + 1) ≤ knot xa (i + 2))))

/-- `inv (spline (tx))` when the guards hold and the argument is inside the table; failure otherwise -/
def interp (guard : Bool) (xa ya y2 : Vec α) (n : Int) (tx : α) (inv : α → α) : Expect α :=
  if guard = true then
    match spline xa ya y2 n.toNat tx with
    | some y => .value (inv y)
    | none => .fails
  else .fails

def CS_Photo (T : Tables α) (Z : Int) (E : α) : Expect α :=
  interp (zOk Z && decide (0 ≤ T.NE_Photo Z.toNat) && decide ((0.0 : α) < E))
    (T.E_Photo_arr Z.toNat) (T.CS_Photo_arr Z.toNat) (T.CS_Photo_arr2 Z.toNat) (T.NE_Photo Z.toNat)
    (XNum.log (E * (1000.0 : α))) XNum.exp

def CS_Rayl (T : Tables α) (Z : Int) (E : α) : Expect α :=
  interp (zOk Z && decide (0 ≤ T.NE_Rayl Z.toNat) && decide ((0.0 : α) < E))
    (T.E_Rayl_arr Z.toNat) (T.CS_Rayl_arr Z.toNat) (T.CS_Rayl_arr2 Z.toNat) (T.NE_Rayl Z.toNat)
    (XNum.log (E * (1000.0 : α))) XNum.exp

def CS_Compt (T : Tables α) (Z : Int) (E : α) : Expect α :=
  interp (zOk Z && decide (0 ≤ T.NE_Compt Z.toNat) && decide ((0.0 : α) < E))
    (T.E_Compt_arr Z.toNat) (T.CS_Compt_arr Z.toNat) (T.CS_Compt_arr2 Z.toNat) (T.NE_Compt Z.toNat)
    (XNum.log (E * (1000.0 : α))) XNum.exp

def CS_Energy (T : Tables α) (Z : Int) (E : α) : Expect α :=
  interp (decide (1 ≤ Z ∧ Z ≤ 92) && decide (0 ≤ T.NE_Energy Z.toNat) && decide ((0.0 : α) < E))
    (T.E_Energy_arr Z.toNat) (T.CS_Energy_arr Z.toNat) (T.CS_Energy_arr2 Z.toNat) (T.NE_Energy Z.toNat)
    (XNum.log E) XNum.exp

def Fi (T : Tables α) (Z : Int) (E : α) : Expect α :=
  interp (zOk Z && decide (0 ≤ T.NE_Fi Z.toNat) && decide ((0.0 : α) < E))
    (T.E_Fi_arr Z.toNat) (T.Fi_arr Z.toNat) (T.Fi_arr2 Z.toNat) (T.NE_Fi Z.toNat) E id

def Fii (T : Tables α) (Z : Int) (E : α) : Expect α :=
  interp (zOk Z && decide (0 ≤ T.NE_Fii Z.toNat) && decide ((0.0 : α) < E))
    (T.E_Fii_arr Z.toNat) (T.Fii_arr Z.toNat) (T.Fii_arr2 Z.toNat) (T.NE_Fii Z.toNat) E id

def FF_Rayl (T : Tables α) (Z : Int) (q : α) : Expect α :=
  if zOk Z = true ∧ 0 < T.Nq_Rayl Z.toNat ∧ deq q (0.0 : α) then .value (XNum.ofInt Z)
  else interp (zOk Z && decide (0 < T.Nq_Rayl Z.toNat) && decide ((0.0 : α) < q))
    (T.q_Rayl_arr Z.toNat) (T.FF_Rayl_arr Z.toNat) (T.FF_Rayl_arr2 Z.toNat) (T.Nq_Rayl Z.toNat) q id

def SF_Compt (T : Tables α) (Z : Int) (q : α) : Expect α :=
  interp (zOk Z && decide (0 < T.Nq_Compt Z.toNat) && decide ((0.0 : α) < q))
    (T.q_Compt_arr Z.toNat) (T.SF_Compt_arr Z.toNat) (T.SF_Compt_arr2 Z.toNat) (T.Nq_Compt Z.toNat) q id

def ComptonProfile (T : Tables α) (Z : Int) (pz : α) : Expect α :=
  interp (zOk Z && decide (0 ≤ T.NShells_ComptonProfiles Z.toNat) && decide ((0.0 : α) ≤ pz))
    (T.pz_ComptonProfiles Z.toNat) (T.Total_ComptonProfiles Z.toNat) (T.Total_ComptonProfiles2 Z.toNat)
    (T.Npz_ComptonProfiles Z.toNat) (XNum.log (pz + (1.0 : α))) XNum.exp

end
end Spec
end Xrl
