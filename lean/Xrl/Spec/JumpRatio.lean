import Xrl.Spec.Lookup
import Xrl.Spec.Interp
import Xrl.Spec.Groups
import Xrl.Spec.Sums
/-!
# C09: jump-ratio XRF cross sections = photo cross section × jump share × yield × rate

"For K, L1, L2 and L3 the (non-Kissel) shell fluorescence cross section equals the photo-electric cross
section times the fraction of absorption attributable to that sub-shell at that energy — derived from the jump
ratios of all edges lying below the energy and, for L2/L3, the Coster–Kronig feeding from the higher L
sub-shells — times the fluorescence yield; a line's cross section is the shell value times its radiative rate
and the L-beta group is the sum over its member lines.  Below the sub-shell edge, or when a required jump
ratio, yield or Coster–Kronig probability is unavailable, the call fails with an error."

Written from that text and from the public lookups (`EdgeEnergy`, `JumpFactor`, `FluorYield`,
`CosKronTransProb`, `RadRate`, `CS_Photo` — their own specifications, C01/C02/C10), not from cs_line.c.

Notation: sub-shells K, L1, L2, L3 (macro values 0..3, decreasing binding energy); `E_s` edge energy, `J_s` jump
ratio, `ω_s` fluorescence yield, `f12, f13, f′13, f23` Coster–Kronig probabilities; a quantity that is not
tabulated reads as 0 (`valOr0`) and is *unavailable* (`avail = false`).

* sub-shell `s` is *excited* at `E` iff `E > E_s > 0` (strictly above a tabulated edge);
* `τ_s(E) = (J_s − 1)/J_s · Π_{s′ above s, excited} 1/J_s′`  if `s` is excited, else 0
  — the fraction of the photo-absorption at `E` that happens in `s`;
* vacancy shares  `V_K = τ_K`, `V_L1 = τ_L1`, `V_L2 = τ_L2 + f12 τ_L1`,
  `V_L3 = τ_L3 + f23 τ_L2 + (f13 + f′13 + f12 f23) τ_L1`;
* `CS_FluorShell = CS_Photo · V_s · ω_s`;  `CS_FluorLine = CS_FluorShell(shell of the line) · RadRate(line)`;
  L-beta `= CS_Photo · Σ_{m ∈ lbMembers} V_{s(m)} ω_{s(m)} · RadRate(m)`.

## Corners the property text does not determine (DESIGN "C09": the probe `notes/probes/py/c09.py`, whose
oracle is this specification, matched the library on 9,260 cases including `E` exactly at every edge)

1. `E` exactly equal to an edge energy counts as *below* that edge (`excited` is strict).
2. An element without K-edge data (`E_K` unavailable) has no excited K shell: K requests fail, and K does not
   screen the L shares.
3. A jump ratio is *required* iff it occurs in the formula: `J_s` itself and `J_s′` of every excited `s′` above `s`
   — and, for L2/L3, those of the feeding sub-shells that are excited.  An excited sub-shell with unavailable
   (zero) jump ratio fails the call (Z = 99..103 in the shipped data: edges but no jump ratios).
4. A Coster–Kronig probability is *required* iff it multiplies a **positive** share: `f12` when `τ_L1 > 0` (L2);
   `f23` when `τ_L2 > 0` or `τ_L1 > 0`, `f12` and (`f13` or `f′13` — only their sum enters, one of the two
   channels suffices) when `τ_L1 > 0` (L3).  A feeding share that is exactly 0 (jump ratio exactly 1 — the
   shipped data hold `J = 1.0` for L sub-shells of Z ≤ 15) requires nothing.
5. **Zero share.**  When `V_s · ω_s` is exactly 0 (a jump ratio of exactly 1: the shipped data hold `J_K = 1.0` for
   Z = 1..3 and `J = 1.0` for L sub-shells of Z ≤ 15) nothing can fluoresce from that sub-shell and the product would be
   0.0 — the value the library reserves for "error".  The expectation is a failure (`nonzero`): the share is reported
   as unavailable, `CS_Photo` is not consulted.
6. L-beta fails ("too low excitation energy") iff the member sum is exactly 0.

## The member list of L-beta

`lbMembers` has **15** entries: `L2M4 (β1), L2M3 (β17); L3N5 (β2), L3O4, L3O5, L3O45 (β5), L3N1 (β6), L3O1 (β7),
L3N6, L3N7, L3N4 (β15); L1M3 (β3), L1M2 (β4), L1M5 (β9), L1M4 (β10)`.  The macro NAMES give 11 members
(`Hdr.group_LB`: the targets of the aliases `LB1 … LB17`); `LB_LINE_MACROS` of kissel_pe.c has 13 (those 11 plus
`L3N6, L3N7`); the jump-ratio code sums those 13 **plus `L3O4` and `L3O5`, the two members of the doublet slot
`L3O45 = LB5` which is itself in the list** — a table giving rates to the doublet slot *and* to its members is
counted twice here and once in the Kissel variant.  `lb_members_vs_names` / `lb_members_vs_kissel` (Props/C09)
state the differences; the theorems `fluorline_LB` / `fluorline_jump_spec` are about the 15-entry list (in the
shipped data no element has a rate for `L3O4` or `L3O5`, so the three lists give the same numbers today).
-/
namespace Xrl
namespace Spec

section
variable {α : Type} [Add α] [Sub α] [Mul α] [Div α] [Neg α] [LT α] [LE α] [OfScientific α]
  [DecidableLT α] [DecidableLE α] [XNum α]

/-- the quantity is tabulated -/
def avail : Expect α → Bool
  | .value _ => true
  | _ => false

/-- the four sub-shells of the property, most tightly bound first -/
def jumpShells : List Int := [Hdr.K_SHELL, Hdr.L1_SHELL, Hdr.L2_SHELL, Hdr.L3_SHELL]

/-- the sub-shells above (more tightly bound than) `s` -/
def above (s : Int) : List Int := jumpShells.filter (fun s' => decide (s' < s))

def edge (T : Tables α) (Z s : Int) : α := valOr0 (EdgeEnergy T Z s)
def jump (T : Tables α) (Z s : Int) : α := valOr0 (JumpFactor T Z s)
def fyield (T : Tables α) (Z s : Int) : α := valOr0 (FluorYield T Z s)
def ck (T : Tables α) (Z t : Int) : α := valOr0 (CosKronTransProb T Z t)

/-- `E > E_s > 0` -/
def excited (T : Tables α) (Z s : Int) (E : α) : Bool :=
  decide (edge T Z s < E) && decide ((0.0 : α) < edge T Z s)

/-- `Π 1/J_s′` over the listed sub-shells that are excited at `E`; fails when one of those jump ratios is unavailable -/
def screening (T : Tables α) (Z : Int) (E : α) : List Int → Expect α
  | [] => .value (1.0 : α)
  | s' :: rest =>
    match screening T Z E rest with
    | .value p =>
      if excited T Z s' E = true then
        (if avail (JumpFactor T Z s') = true then .value (p / jump T Z s') else .fails)
      else .value p
    | _ => .fails

/-- `τ_s(E)`: the fraction of the photo-absorption at `E` taking place in sub-shell `s` -/
def tau (T : Tables α) (Z s : Int) (E : α) : Expect α :=
  if excited T Z s E = true then
    if avail (JumpFactor T Z s) = true then
      match screening T Z E (above s) with
      | .value p => .value ((jump T Z s - (1.0 : α)) / jump T Z s * p)
      | _ => .fails
    else .fails
  else .value (0.0 : α)

/-- `V_s(E)`: the share of primary vacancies ending up in `s`, Coster–Kronig feeding included -/
def vacancy (T : Tables α) (Z s : Int) (E : α) : Expect α :=
  if s = Hdr.K_SHELL then tau T Z Hdr.K_SHELL E
  else if s = Hdr.L1_SHELL then tau T Z Hdr.L1_SHELL E
  else if s = Hdr.L2_SHELL then
    match tau T Z Hdr.L2_SHELL E, tau T Z Hdr.L1_SHELL E with
    | .value t2, .value t1 =>
      if (0.0 : α) < t1 ∧ avail (CosKronTransProb T Z Hdr.FL12_TRANS) = false then .fails
      else .value (t2 + ck T Z Hdr.FL12_TRANS * t1)
    | _, _ => .fails
  else if s = Hdr.L3_SHELL then
    match tau T Z Hdr.L3_SHELL E, tau T Z Hdr.L2_SHELL E, tau T Z Hdr.L1_SHELL E with
    | .value t3, .value t2, .value t1 =>
      if (0.0 : α) < t2 ∧ avail (CosKronTransProb T Z Hdr.FL23_TRANS) = false then .fails
      else if (0.0 : α) < t1 ∧
          ((avail (CosKronTransProb T Z Hdr.FL13_TRANS) = false ∧ avail (CosKronTransProb T Z Hdr.FLP13_TRANS) = false) ∨
            avail (CosKronTransProb T Z Hdr.FL12_TRANS) = false ∨ avail (CosKronTransProb T Z Hdr.FL23_TRANS) = false) then .fails
      else .value (t3 + ck T Z Hdr.FL23_TRANS * t2 +
        (ck T Z Hdr.FL13_TRANS + ck T Z Hdr.FLP13_TRANS + ck T Z Hdr.FL12_TRANS * ck T Z Hdr.FL23_TRANS) * t1)
    | _, _, _ => .fails
  else .fails

/-- 0.0 is the error sentinel of the library: a result that is exactly zero is reported as a failure -/
def nonzero (x : α) : Expect α := if deq x (0.0 : α) then .fails else .value x

/-- `V_s · ω_s`: fluorescence photons of shell `s` per photo-absorption; fails below the edge of `s` and when the
share is exactly zero (corner 5) -/
def shellFactor (T : Tables α) (Z s : Int) (E : α) : Expect α :=
  if excited T Z s E = true then
    match vacancy T Z s E with
    | .value V => if avail (FluorYield T Z s) = true then nonzero (V * fyield T Z s) else .fails
    | _ => .fails
  else .fails

def CS_FluorShell (T : Tables α) (Z shell : Int) (E : α) : Expect α :=
  if zOk Z = true ∧ (0.0 : α) < E ∧ mOk Hdr.K_SHELL Hdr.L3_SHELL shell = true then
    match shellFactor T Z shell E with
    | .value f =>
      match CS_Photo T Z E with
      | .value c => .value (c * f)
      | _ => .fails
    | _ => .fails
  else .fails

/-- the shell whose vacancy a line (or the K-alpha, K-beta, L-alpha group) fills: K lines are the macros from
`KL1` down to `KP5` (the last macro named `K…`), L1 lines `L1L2 … L1P5`, L2 lines `L2L3 … L2Q1`, L3 lines
`L3M1 … L3Q1`; L-alpha consists of two L3 lines (`Hdr.group_LA`) -/
def lineShell (line : Int) : Option Int :=
  if line = Hdr.KA_LINE ∨ line = Hdr.KB_LINE ∨ (Hdr.KP5_LINE ≤ line ∧ line ≤ Hdr.KL1_LINE) then some Hdr.K_SHELL
  else if Hdr.L1P5_LINE ≤ line ∧ line ≤ Hdr.L1L2_LINE then some Hdr.L1_SHELL
  else if Hdr.L2Q1_LINE ≤ line ∧ line ≤ Hdr.L2L3_LINE then some Hdr.L2_SHELL
  else if (Hdr.L3Q1_LINE ≤ line ∧ line ≤ Hdr.L3M1_LINE) ∨ line = Hdr.LA_LINE then some Hdr.L3_SHELL
  else none

/-- the shell a macro NAME designates: `K…` → K, `L1…`/`L2…`/`L3…` → L1/L2/L3 (Siegbahn aliases carry no shell) -/
def shellOfName (name : String) : Option Int :=
  match name.toList with
  | 'K' :: _ => some Hdr.K_SHELL
  | 'L' :: '1' :: _ => some Hdr.L1_SHELL
  | 'L' :: '2' :: _ => some Hdr.L2_SHELL
  | 'L' :: '3' :: _ => some Hdr.L3_SHELL
  | _ => none

/-- `lineShell` recomputed from the macro names alone (`LA`: the shell of its members) -/
def lineShellByName (line : Int) : Option Int :=
  if line = Hdr.LA_LINE then (Hdr.group_LA.head?).bind lineShellByName'
  else lineShellByName' line
where
  lineShellByName' (line : Int) : Option Int :=
    (Hdr.macros_LINE.flatten.filter (fun p => p.2 = line)).findSome? (fun p => shellOfName p.1)

/-- the range formulation agrees with the names: on every value from `L3Q1` up to `LB` (but `LB` itself) the two maps
coincide, and no macro below `L3Q1` carries a K/L1/L2/L3 name (`lineShell` is `none` there).  Proved by kernel
evaluation in Props/C09 (`line_shell_by_name`) and evaluated by the driver. -/
def lineShellNamesAgree : Bool :=
  (List.range 117).all (fun k =>
    let line := (3 : Int) - (k : Int)
    line = Hdr.LB_LINE || lineShell line == lineShellByName line) &&
  Hdr.macros_LINE.flatten.all (fun p => decide (Hdr.L3Q1_LINE ≤ p.2) || (shellOfName p.1).isNone)

/-- the members of L-beta (see the file header) -/
def lbMembers : List Int :=
  [Hdr.L2M4_LINE, Hdr.L2M3_LINE,
   Hdr.L3N5_LINE, Hdr.L3O4_LINE, Hdr.L3O5_LINE, Hdr.L3O45_LINE, Hdr.L3N1_LINE, Hdr.L3O1_LINE, Hdr.L3N6_LINE,
   Hdr.L3N7_LINE, Hdr.L3N4_LINE,
   Hdr.L1M3_LINE, Hdr.L1M2_LINE, Hdr.L1M5_LINE, Hdr.L1M4_LINE]

/-- `LB_LINE_MACROS` of kissel_pe.c: the alias targets `LB1 … LB17` and `L3N6`, `L3N7` -/
def lbMembersKissel : List Int := Hdr.group_LB ++ [Hdr.L3N6_LINE, Hdr.L3N7_LINE]

/-- contribution of member line `m` to a group: (V ω)(shell of m) · rate(m); nothing when the shell is not excited
or the rate is not tabulated -/
def memberShare (T : Tables α) (Z : Int) (E : α) (m : Int) : α :=
  match lineShell m with
  | some s => valOr0 (shellFactor T Z s E) * valOr0 (RadRate T Z m)
  | none => (0.0 : α)

/-- rate × shell value, defined where both are -/
def timesRate : Expect α → Expect α → Expect α
  | .value rr, .value cs => .value (rr * cs)
  | _, _ => .fails

def CS_FluorLine (T : Tables α) (Z line : Int) (E : α) : Expect α :=
  if line = Hdr.LB_LINE then
    let s := lbMembers.foldl (fun acc m => acc + memberShare T Z E m) (0.0 : α)
    if deq s (0.0 : α) then .fails                      -- corner 6
    else match CS_Photo T Z E with
      | .value c => .value (s * c)
      | _ => .fails
  else
    match lineShell line with
    | some s => timesRate (RadRate T Z line) (CS_FluorShell T Z s E)
    | none => .fails

def CSb_FluorShell (T : Tables α) (Z shell : Int) (E : α) : Expect α :=
  toBarn (CS_FluorShell T Z shell E) (AtomicWeight T Z)

def CSb_FluorLine (T : Tables α) (Z line : Int) (E : α) : Expect α :=
  toBarn (CS_FluorLine T Z line E) (AtomicWeight T Z)

/-! ## Data invariant used by the theorems for L2 and L3

The tabulated L edges are ordered `E_L1 ≥ E_L2 ≥ E_L3` (non-strict: the shipped `E_L2 = E_L3` for Z ≤ 12), an
absent L2 edge is not flanked by tabulated L1 and L3 edges, and a sub-shell without edge has no fluorescence
yield (Z = 3, 4 have an L1 edge but neither L2/L3 edges nor L2/L3 yields).  Needed because "above the L1 edge"
is taken to imply "above the L2 and L3 edges" when the shares are formed.  The K edge needs no such assumption. -/
def edgeOrderB (T : Tables α) (Z : Int) : Bool :=
  let e1 := edge T Z Hdr.L1_SHELL
  let e2 := edge T Z Hdr.L2_SHELL
  let e3 := edge T Z Hdr.L3_SHELL
  decide (((0.0 : α) < e1 ∧ (0.0 : α) < e2 → e2 ≤ e1) ∧ ((0.0 : α) < e2 ∧ (0.0 : α) < e3 → e3 ≤ e2) ∧
    ((0.0 : α) < e1 ∧ (0.0 : α) < e3 → (0.0 : α) < e2)) &&
  decide (((0.0 : α) < fyield T Z Hdr.L2_SHELL → (0.0 : α) < e2) ∧ ((0.0 : α) < fyield T Z Hdr.L3_SHELL → (0.0 : α) < e3))

/-- the elements whose tables violate `edgeOrderB` (driver: must be empty on the shipped data) -/
def edgeOrderFailures (T : Tables α) : List Nat :=
  (List.range 121).filter (fun z => !edgeOrderB T (z : Int))

end

end Spec
end Xrl
