import Xrl.Spec.Basic
import Xrl.Gen.Hdr
/-!
# C12: the closed-form scattering formulas in textbook form

Written from the physics texts (Thomson, Klein–Nishina, Compton shift), not from the C code:

* Thomson, unpolarised            `r²/2 · (1 + cos²θ)`
* Thomson, linearly polarised     `r² · (1 − sin²θ cos²φ)`
* Compton ratio                   `P = k/k₀ = 1 / (1 + (E/mc²)(1 − cos θ))`
* Klein–Nishina, unpolarised      `r²/2 · P² · (P + 1/P − sin²θ)`
* Klein–Nishina, polarised        `r²/2 · P² · (P + 1/P − 2 sin²θ cos²φ)`
* Klein–Nishina, total            `2π r² · [ (1+a)/a³ · (2a(1+a)/(1+2a) − ln(1+2a)) + ln(1+2a)/(2a) − (1+3a)/(1+2a)² ]`, `a = E/mc²`
  — for `a < 0.02` the bracket is replaced by its Taylor polynomial of degree 11 at `a = 0`
  (`4/3 − 8a/3 + 104a²/15 − …`): in doubles the closed form loses `~eps/a³` to cancellation, the polynomial does not.
  Over ℝ the two differ by at most `1e-16` of the bracket (`KNS.ser_close`), and the property theorems
  (`C12.cs_kn_is_integral` …) are stated against the solid-angle integral of `DCS_KN`, not against this choice.
* scattered photon energy         `E · P`
* momentum transfer               `E / (hc) · sin(θ/2)`

Constants come from the public header (`Hdr.RE2`, `Hdr.MEC2`, `Hdr.KEV2ANGST`).  Functions that take an
energy fail for `E ≤ 0` (the library documents "Energy must be strictly positive"); the two Thomson
functions take no energy and never fail.

Core Lean only: the same definitions run on `Float` in the driver and are reasoned about on `ℝ`
(Lemmas/KN.lean, Props/C12.lean).
-/
namespace Xrl
namespace Spec

section
variable {α : Type} [Add α] [Sub α] [Mul α] [Div α] [Neg α] [LT α] [LE α] [OfScientific α]
  [DecidableLT α] [DecidableLE α] [XNum α]

/-- The header's `PI` (`3.1415926535897932384626433832795`) *as a C `double` constant*: the nearest double is
`3.141592653589793115997963…`, which clang prints — and the translated code carries — as the shortest
round-trip decimal `3.141592653589793`.  On `Float` this literal and `Hdr.PI` denote the same double; on `ℝ`
they differ by `2.4e-16` (`C12.pi_lit_vs_hdr`) and neither is the real `π` (`C12.pi_lit_close`). -/
def PI_lit : α := (3.141592653589793 : α)

/-- Compton ratio `k/k₀ = E'/E` -/
def ratioV (E θ : α) : α := (1.0 : α) / ((1.0 : α) + (E / Hdr.MEC2) * ((1.0 : α) - XNum.cos θ))

def thomsV (θ : α) : α := Hdr.RE2 / (2.0 : α) * ((1.0 : α) + XNum.cos θ * XNum.cos θ)

def thomsPV (θ φ : α) : α :=
  Hdr.RE2 * ((1.0 : α) - (XNum.sin θ * XNum.sin θ) * (XNum.cos φ * XNum.cos φ))

def knV (E θ : α) : α :=
  Hdr.RE2 / (2.0 : α) * (ratioV E θ * ratioV E θ) *
    (ratioV E θ + (1.0 : α) / ratioV E θ - XNum.sin θ * XNum.sin θ)

def knPV (E θ φ : α) : α :=
  Hdr.RE2 / (2.0 : α) * (ratioV E θ * ratioV E θ) *
    (ratioV E θ + (1.0 : α) / ratioV E θ - (2.0 : α) * (XNum.sin θ * XNum.sin θ) * (XNum.cos φ * XNum.cos φ))

/-- the bracket of the total Klein–Nishina cross section as a function of `a = E/mc²` -/
def csknBracket (a : α) : α :=
  ((1.0 : α) + a) / (a * a * a) *
      ((2.0 : α) * a * ((1.0 : α) + a) / ((1.0 : α) + (2.0 : α) * a) - XNum.log ((1.0 : α) + (2.0 : α) * a))
    + XNum.log ((1.0 : α) + (2.0 : α) * a) / ((2.0 : α) * a)
    - ((1.0 : α) + (3.0 : α) * a) / (((1.0 : α) + (2.0 : α) * a) * ((1.0 : α) + (2.0 : α) * a))

/-- Taylor polynomial of degree 11 of `csknBracket` at `a = 0` (Horner form):
`4/3 − 8a/3 + 104a²/15 − 266a³/15 + 4576a⁴/105 − 2176a⁵/21 + 15136a⁶/63 − 24592a⁷/45 + 606208a⁸/495
 − 447488a⁹/165 + 2551808a¹⁰/429 − 3533312a¹¹/273` -/
def csknSeries (a : α) : α :=
  (4.0 : α) / (3.0 : α) + a * (-(8.0 : α) / (3.0 : α) + a * ((104.0 : α) / (15.0 : α)
    + a * (-(266.0 : α) / (15.0 : α) + a * ((4576.0 : α) / (105.0 : α) + a * (-(2176.0 : α) / (21.0 : α)
    + a * ((15136.0 : α) / (63.0 : α) + a * (-(24592.0 : α) / (45.0 : α) + a * ((606208.0 : α) / (495.0 : α)
    + a * (-(447488.0 : α) / (165.0 : α) + a * ((2551808.0 : α) / (429.0 : α)
    + a * (-(3533312.0 : α) / (273.0 : α))))))))))))

/-- below this value of `a = E/mc²` (10.2 keV) the series is used -/
def csknSwitch : α := (0.02 : α)

def csknV (E : α) : α :=
  (2.0 : α) * PI_lit * Hdr.RE2 *
    (if E / Hdr.MEC2 < csknSwitch then csknSeries (E / Hdr.MEC2) else csknBracket (E / Hdr.MEC2))

def comptonV (E θ : α) : α := E * ratioV E θ

/-- signed: negative for `θ ∈ (−2π, 0)` -/
def momentV (E θ : α) : α := E / Hdr.KEV2ANGST * XNum.sin (θ / (2.0 : α))

def DCS_Thoms (θ : α) : Expect α := .value (thomsV θ)

def DCSP_Thoms (θ φ : α) : Expect α := .value (thomsPV θ φ)

def DCS_KN (E θ : α) : Expect α := if E ≤ (0.0 : α) then .fails else .value (knV E θ)

def DCSP_KN (E θ φ : α) : Expect α := if E ≤ (0.0 : α) then .fails else .value (knPV E θ φ)

def CS_KN (E : α) : Expect α := if E ≤ (0.0 : α) then .fails else .value (csknV E)

def ComptonEnergy (E θ : α) : Expect α := if E ≤ (0.0 : α) then .fails else .value (comptonV E θ)

def MomentTransf (E θ : α) : Expect α := if E ≤ (0.0 : α) then .fails else .value (momentV E θ)

end
end Spec
end Xrl
