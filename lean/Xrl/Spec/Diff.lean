import Xrl.Spec.Sums
import Xrl.Spec.Scatter
import Xrl.Spec.DataInv
/-!
# C05 (second part): differential cross sections, Kissel totals — defining identities

Written from the property text, from the *public component functions* only:

"The polarised and unpolarised differential Rayleigh cross sections equal N_A/A times the squared form factor
times the Thomson factor, and the Compton ones N_A/A times the scattering function times the Klein-Nishina
factor, both taken at the momentum transfer of (E, theta). … likewise the Kissel total, whose photo part equals
the occupancy-weighted sum of the sub-shell cross sections … every barn/atom function equals its cm2/g twin
times atomic weight over the Avogadro constant.  When a part is undefined the aggregate fails with an error
instead of returning a partial sum."

A composite is a value exactly where *every* part is a value (`atQ`, `sqE`, `dcsOf`, `add3`, `toBarn`, `toCm2g`
all map a failing part to `.fails`); which part is looked at first cannot be observed, because a failure is
"value 0 and exactly one error" whichever part caused it.

Core Lean only (the driver links these definitions on `Float`).
-/
namespace Xrl
namespace Spec

section
variable {α : Type} [Add α] [Sub α] [Mul α] [Div α] [Neg α] [LT α] [LE α] [OfScientific α]
  [DecidableLT α] [DecidableLE α] [XNum α]

/-- a quantity taken at the momentum transfer `q`: undefined where `q` is -/
def atQ (q : Expect α) (f : α → Expect α) : Expect α :=
  match q with
  | .value q => f q
  | _ => .fails

/-- the square of a part -/
def sqE : Expect α → Expect α
  | .value f => .value (f * f)
  | _ => .fails

/-- `N_A/A · s · k` : atomic weight `aw`, structure term `s` (F² or S), angular kernel `k` (Thomson or
Klein–Nishina), defined only where all three are -/
def dcsOf : Expect α → Expect α → Expect α → Expect α
  | .value aw, .value s, .value k => .value ((Hdr.AVOGNUM : α) / aw * s * k)
  | _, _, _ => .fails

/-- `DCS_Rayl(Z,E,θ) = N_A/A(Z) · FF_Rayl(Z,q)² · DCS_Thoms(θ)`, `q = MomentTransf(E,θ)` -/
def DCS_Rayl (T : Tables α) (Z : Int) (E θ : α) : Expect α :=
  dcsOf (AtomicWeight T Z) (sqE (atQ (MomentTransf E θ) (FF_Rayl T Z))) (DCS_Thoms θ)

/-- `DCS_Compt(Z,E,θ) = N_A/A(Z) · SF_Compt(Z,q) · DCS_KN(E,θ)`, `q = MomentTransf(E,θ)` -/
def DCS_Compt (T : Tables α) (Z : Int) (E θ : α) : Expect α :=
  dcsOf (AtomicWeight T Z) (atQ (MomentTransf E θ) (SF_Compt T Z)) (DCS_KN E θ)

/-- `DCSP_Rayl(Z,E,θ,φ) = N_A/A(Z) · FF_Rayl(Z,q)² · DCSP_Thoms(θ,φ)` -/
def DCSP_Rayl (T : Tables α) (Z : Int) (E θ φ : α) : Expect α :=
  dcsOf (AtomicWeight T Z) (sqE (atQ (MomentTransf E θ) (FF_Rayl T Z))) (DCSP_Thoms θ φ)

/-- `DCSP_Compt(Z,E,θ,φ) = N_A/A(Z) · SF_Compt(Z,q) · DCSP_KN(E,θ,φ)` -/
def DCSP_Compt (T : Tables α) (Z : Int) (E θ φ : α) : Expect α :=
  dcsOf (AtomicWeight T Z) (atQ (MomentTransf E θ) (SF_Compt T Z)) (DCSP_KN E θ φ)

def DCSb_Rayl (T : Tables α) (Z : Int) (E θ : α) : Expect α := toBarn (DCS_Rayl T Z E θ) (AtomicWeight T Z)
def DCSb_Compt (T : Tables α) (Z : Int) (E θ : α) : Expect α := toBarn (DCS_Compt T Z E θ) (AtomicWeight T Z)
def DCSPb_Rayl (T : Tables α) (Z : Int) (E θ φ : α) : Expect α := toBarn (DCSP_Rayl T Z E θ φ) (AtomicWeight T Z)
def DCSPb_Compt (T : Tables α) (Z : Int) (E θ φ : α) : Expect α := toBarn (DCSP_Compt T Z E θ φ) (AtomicWeight T Z)

/-! ## Kissel totals

`xb` is the expectation for `CSb_Photo_Total(Z, E)` (barn/atom): `Spec.CSb_Photo_Total` of Spec/Interp2.lean (the
occupancy-weighted sum of the sub-shell cross sections), or any other expectation the generated function
is known to meet. -/

/-- `CS_Photo_Total = CSb_Photo_Total · N_A / A` -/
def CS_Photo_Total_of (T : Tables α) (Z : Int) (xb : Expect α) : Expect α := toCm2g xb (AtomicWeight T Z)

/-- `CS_Total_Kissel = CS_Photo_Total + CS_Rayl + CS_Compt` -/
def CS_Total_Kissel_of (T : Tables α) (Z : Int) (E : α) (xb : Expect α) : Expect α :=
  add3 (CS_Photo_Total_of T Z xb) (CS_Rayl T Z E) (CS_Compt T Z E)

/-- `CSb_Total_Kissel = CS_Total_Kissel · A / N_A` -/
def CSb_Total_Kissel_of (T : Tables α) (Z : Int) (E : α) (xb : Expect α) : Expect α :=
  toBarn (CS_Total_Kissel_of T Z E xb) (AtomicWeight T Z)

/-- the table-shape condition under which the code of the differential functions and of the Kissel twins agrees
with the text: an element that has the data (`hasData`: form-factor table, scattering-function table, Kissel
photo-ionisation data) also has a positive atomic weight.  (The code divides by the weight without looking
at it.)  Executable; the driver evaluates it on the tables dumped from the library. -/
def weightOkB (T : Tables α) (hasData : Bool) (Z : Int) : Bool :=
  !(zOk Z && hasData) || decide ((0.0 : α) < T.AtomicWeight_arr Z.toNat)

/-- every (family, Z) for which the weight condition fails on a concrete `Tables` (expected: none) -/
def weightFailures (T : Tables α) : List (String × Nat) :=
  let chk (name : String) (f : Nat → Bool) : List (String × Nat) := (zs.filter (fun z => !f z)).map (fun z => (name, z))
  chk "FF_Rayl" (fun z => weightOkB T (decide (0 < T.Nq_Rayl z)) (z : Int)) ++
  chk "SF_Compt" (fun z => weightOkB T (decide (0 < T.Nq_Compt z)) (z : Int)) ++
  chk "Kissel" (fun z => weightOkB T (decide (0 ≤ T.NE_Photo_Total_Kissel z)) (z : Int))

end
end Spec
end Xrl
