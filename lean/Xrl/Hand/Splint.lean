import Xrl.Core.Basic
/-!
# Hand model of `splint` (src/splint.c:47-84)

`xa ya y2a` are the heap vectors as 0-based functions; the C code is called with `base - 1`, so
C's `xa[k]` is `xa (k-1)` here.  Reads before and after the bisection are checked against `n`;
the reads inside the bisection are in `[klo, khi] ⊆ [1, n]` by `bisect_spec` (Lemmas/Splint).
-/
namespace Xrl

/-- `while (khi-klo > 1) { k = (khi+klo) >> 1; if (xa[k] > x) khi = k; else klo = k; }` -/
def bisect (gt : Nat → Bool) : Nat → Nat → Nat → Nat × Nat
  | 0, klo, khi => (klo, khi)
  | fuel+1, klo, khi =>
    if khi - klo > 1 then
      let k := (khi + klo) / 2
      if gt k then bisect gt fuel klo k else bisect gt fuel k khi
    else (klo, khi)

section
variable {α : Type} [Add α] [Sub α] [Mul α] [Div α] [Neg α] [LT α] [LE α] [OfScientific α]
  [DecidableLT α] [DecidableLE α] [XNum α]

def SPLINT_X_TOO_LOW : String := "Spline extrapolation is not allowed"
def SPLINT_X_TOO_HIGH : String := "Spline extrapolation is not allowed"

/-- the cubic of src/splint.c:79-82 -/
def splintCubic (xlo xhi ylo yhi y2lo y2hi x : α) : α :=
  let h := xhi - xlo
  let a := (xhi - x) / h
  let b := (x - xlo) / h
  a * ylo + b * yhi + ((a * a * a - a) * y2lo + (b * b * b - b) * y2hi) * (h * h) / (6.0 : α)

/-- the evaluation after the bisection (src/splint.c:71-83) -/
def splintAt (xa ya y2a : Vec α) (klo khi : Int) (x : α) (error : Slot) : M (Int × α × Slot) := do
  let xlo ← rdv "splint.xa[klo]" xa (klo - 1)
  let xhi ← rdv "splint.xa[khi]" xa (khi - 1)
  let ylo ← rdv "splint.ya[klo]" ya (klo - 1)
  let yhi ← rdv "splint.ya[khi]" ya (khi - 1)
  let h := xhi - xlo
  if deq h (0.0 : α) then
    pure (1, (ylo + yhi) / (2.0 : α), error)
  else
    let y2lo ← rdv "splint.y2a[klo]" y2a (klo - 1)
    let y2hi ← rdv "splint.y2a[khi]" y2a (khi - 1)
    pure (1, splintCubic xlo xhi ylo yhi y2lo y2hi x, error)

def splint (xa ya y2a : Vec α) (n : Int) (x : α) (error : Slot) : M (Int × α × Slot) := do
  let xn ← rdv "splint.xa[n]" xa (n - 1)
  if (1.0e-7 : α) < x - xn then
    let error ← setErr error 1 SPLINT_X_TOO_HIGH
    pure (0, (0.0 : α), error)
  else
    let x1 ← rdv "splint.xa[1]" xa 0
    if x < x1 then
      let error ← setErr error 1 SPLINT_X_TOO_LOW
      pure (0, (0.0 : α), error)
    else
      let r := bisect (fun k => decide (x < xa.get (k - 1))) n.toNat 1 n.toNat
      splintAt xa ya y2a (r.1 : Int) (r.2 : Int) x error

end
end Xrl
