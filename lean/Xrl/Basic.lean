def hello := "world"
