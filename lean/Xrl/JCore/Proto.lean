import Xrl.Core.Proto
import Xrl.JCore.Basic
/-!
# Answers of the Java model in the line protocol of harness/java/XrlDrv.java (driver only)

`ok <value>` | `throw <exception class> m<%-escaped message>` as the real driver prints them; a stop of the model is
`stop nf <what>` / `stop fuel`.
-/
namespace Xrl

def jescByte (c : UInt8) : String :=
  let n := c.toNat
  if (48 ≤ n ∧ n ≤ 57) ∨ (65 ≤ n ∧ n ≤ 90) ∨ (97 ≤ n ∧ n ≤ 122) ∨ n = 40 ∨ n = 41 ∨ n = 46 ∨ n = 95 ∨ n = 45 ∨ n = 43 ∨ n = 44 then
    String.singleton (Char.ofNat n)
  else "%" ++ String.singleton (hexDigit (n / 16)) ++ String.singleton (hexDigit (n % 16))

def jesc (s : String) : String := s.toUTF8.foldl (fun acc b => acc ++ jescByte b) ""

def jfmtStop : JStop → String
  | .iae m => "throw IllegalArgumentException m" ++ jesc m
  | .aioobe a => "throw ArrayIndexOutOfBoundsException m" ++ jesc a
  | .npe a => "throw NullPointerException m" ++ jesc a
  | .nf w => "stop nf " ++ w
  | .fuel => "stop fuel"

def jfmtR {β : Type} [Fmt β] (r : JM β) : String :=
  match r with
  | .ok v => "ok " ++ Fmt.fmt v
  | .error e => jfmtStop e

end Xrl
