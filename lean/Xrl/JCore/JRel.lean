import Xrl.Core.Real
import Xrl.JCore.Basic
import Xrl.JCore.JTables
/-!
# JRel: when a Java outcome and a C outcome are the same observable behaviour (proofs only; carrier ℝ)

`JRel j c s` relates the outcome `j : JM ℝ` of the Java model with the outcome `c : M (ℝ × Slot)` of the C model that was
run with the error slot `s` (`NULL` or empty):

* C returns `v` and leaves the slot as it was        ⇔  Java returns the same `v`                        (same value);
* C returns the sentinel `0` and stores ONE error `e` ⇔  Java throws `IllegalArgumentException(e.msg)`     (same message text);
* the C model stops at a non-finite operation        ⇔  the Java model stops at a non-finite operation   (no claim about values);
* the C model says *undefined behaviour* (out-of-bounds read of a malformed table, signed overflow): **no claim** — there is
  no C behaviour to be equivalent to.  The `no_ub` theorems of C04 show this outcome unreachable on well-formed tables.
* an error stored over an error, or exhausted recursion fuel on the C side: never related (the theorems show them unreachable).

With `s = Slot.null` the first two cases overlap when `v = 0` (C itself cannot tell them apart without a slot); with
`s = Slot.empty` they are exclusive.  `JRelW` is the weaker reading of the property text ("throws exactly when C reports an
error"): any Java exception (`IllegalArgumentException` with another text, `ArrayIndexOutOfBoundsException`,
`NullPointerException`) is accepted where C fails.
-/
namespace Xrl

/-- what the Java side must do when the C model stops -/
def JStopRel (j : JM ℝ) : Abort → Prop
  | .nf _ => ∃ w, j = .error (.nf w)
  | .ub _ => True
  | .overwrite => False
  | .fuel => False

def JRel (j : JM ℝ) (c : M (ℝ × Slot)) (s : Slot) : Prop :=
  match c with
  | .ok (v, s') => (s' = s ∧ j = .ok v) ∨ (∃ e : Err, v = 0 ∧ s' = s.withErr e ∧ j = .error (.iae e.msg))
  | .error a => JStopRel j a

def JRelW (j : JM ℝ) (c : M (ℝ × Slot)) (s : Slot) : Prop :=
  match c with
  | .ok (v, s') => (s' = s ∧ j = .ok v) ∨ (∃ e : Err, v = 0 ∧ s' = s.withErr e ∧ ∃ x : JStop, x.isExc = true ∧ j = .error x)
  | .error a => JStopRel j a

theorem JRel.weaken {j : JM ℝ} {c : M (ℝ × Slot)} {s : Slot} (h : JRel j c s) : JRelW j c s := by
  unfold JRel at h; unfold JRelW
  split
  · rename_i v s'
    rcases h with h | ⟨e, h1, h2, h3⟩
    · exact Or.inl h
    · exact Or.inr ⟨e, h1, h2, _, rfl, h3⟩
  · exact h

/-! ## introduction rules -/

theorem JRel.value {v : ℝ} {s : Slot} : JRel (.ok v) (.ok (v, s)) s := Or.inl ⟨rfl, rfl⟩

theorem JRel.fail {s : Slot} {c : ErrCode} {m : String} :
    JRel (.error (.iae m)) (.ok ((0 : ℝ), s.withErr ⟨c, m⟩)) s := Or.inr ⟨⟨c, m⟩, rfl, rfl, rfl⟩

theorem JRel.fail' {s : Slot} {c : ErrCode} {m : String} :
    JRel (.error (.iae m)) (.ok ((0.0 : ℝ), s.withErr ⟨c, m⟩)) s := Or.inr ⟨⟨c, m⟩, by norm_num, rfl, rfl⟩

theorem JRel.fail_e {s : Slot} {e : Err} : JRel (.error (.iae e.msg)) (.ok ((0 : ℝ), s.withErr e)) s := Or.inr ⟨e, rfl, rfl, rfl⟩

theorem JRel.nf {a b : String} {s : Slot} : JRel (.error (.nf a)) (.error (.nf b)) s := ⟨a, rfl⟩

theorem JRel.ub {j : JM ℝ} {b : String} {s : Slot} : JRel j (.error (.ub b)) s := trivial

/-! ## what a related pair looks like (for the callers of a function whose theorem is known) -/

theorem JRel.cases {j : JM ℝ} {c : M (ℝ × Slot)} {s : Slot} (h : JRel j c s) :
    (∃ v, c = .ok (v, s) ∧ j = .ok v) ∨ (∃ e : Err, c = .ok ((0 : ℝ), s.withErr e) ∧ j = .error (.iae e.msg)) ∨
    (∃ a b, c = .error (.nf a) ∧ j = .error (.nf b)) ∨ (∃ a, c = .error (.ub a)) := by
  unfold JRel at h
  split at h
  · rcases h with ⟨h1, h2⟩ | ⟨e, h1, h2, h3⟩
    · subst h1; exact Or.inl ⟨_, rfl, h2⟩
    · subst h1 h2; exact Or.inr (Or.inl ⟨e, rfl, h3⟩)
  · rename_i a
    cases a with
    | nf w => obtain ⟨w', h⟩ := h; exact Or.inr (Or.inr (Or.inl ⟨_, w', rfl, h⟩))
    | ub w => exact Or.inr (Or.inr (Or.inr ⟨_, rfl⟩))
    | overwrite => exact h.elim
    | fuel => exact h.elim


/-! ## the intermediate relation: an `IllegalArgumentException` where C fails, whatever its text

The jump-factor family (`Jump_from_L1/L2/L3` and its callers `CS_FluorShell`, `CS_FluorLine`, …) reports some failures with another
message text than C (e.g. Java's throwing `EdgeEnergy(Z, L1_SHELL)` says "Invalid shell for this atomic number" where C says "The excitation
energy too low to excite the shell").  `JRelI` compares everything `JRel` compares **except the message text**; unlike `JRelW` it still
demands an `IllegalArgumentException`, which is what `catch (IllegalArgumentException e)` in the callers needs. -/
def JRelI (j : JM ℝ) (c : M (ℝ × Slot)) (s : Slot) : Prop :=
  match c with
  | .ok (v, s') => (s' = s ∧ j = .ok v) ∨ (∃ e : Err, v = 0 ∧ s' = s.withErr e ∧ ∃ m : String, j = .error (.iae m))
  | .error a => JStopRel j a

theorem JRel.toI {j : JM ℝ} {c : M (ℝ × Slot)} {s : Slot} (h : JRel j c s) : JRelI j c s := by
  unfold JRel at h; unfold JRelI
  split
  · rcases h with h | ⟨e, h1, h2, h3⟩
    · exact Or.inl h
    · exact Or.inr ⟨e, h1, h2, _, h3⟩
  · exact h

theorem JRelI.toW {j : JM ℝ} {c : M (ℝ × Slot)} {s : Slot} (h : JRelI j c s) : JRelW j c s := by
  unfold JRelI at h; unfold JRelW
  split
  · rcases h with h | ⟨e, h1, h2, m, h3⟩
    · exact Or.inl h
    · exact Or.inr ⟨e, h1, h2, _, rfl, h3⟩
  · exact h

theorem JRelI.value {v : ℝ} {s : Slot} : JRelI (.ok v) (.ok (v, s)) s := Or.inl ⟨rfl, rfl⟩
theorem JRelI.fail {s : Slot} {c : ErrCode} {m m' : String} :
    JRelI (.error (.iae m')) (.ok ((0 : ℝ), s.withErr ⟨c, m⟩)) s := Or.inr ⟨⟨c, m⟩, rfl, rfl, m', rfl⟩
theorem JRelI.fail_e {s : Slot} {e : Err} {m' : String} : JRelI (.error (.iae m')) (.ok ((0 : ℝ), s.withErr e)) s :=
  Or.inr ⟨e, rfl, rfl, m', rfl⟩
theorem JRelI.nf {a b : String} {s : Slot} : JRelI (.error (.nf a)) (.error (.nf b)) s := ⟨a, rfl⟩
theorem JRelI.ub {j : JM ℝ} {b : String} {s : Slot} : JRelI j (.error (.ub b)) s := trivial

theorem JRelI.cases {j : JM ℝ} {c : M (ℝ × Slot)} {s : Slot} (h : JRelI j c s) :
    (∃ v, c = .ok (v, s) ∧ j = .ok v) ∨ (∃ (e : Err) (m : String), c = .ok ((0 : ℝ), s.withErr e) ∧ j = .error (.iae m)) ∨
    (∃ a b, c = .error (.nf a) ∧ j = .error (.nf b)) ∨ (∃ a, c = .error (.ub a)) := by
  unfold JRelI at h
  split at h
  · rcases h with ⟨h1, h2⟩ | ⟨e, h1, h2, m, h3⟩
    · subst h1; exact Or.inl ⟨_, rfl, h2⟩
    · subst h1 h2; exact Or.inr (Or.inl ⟨e, m, rfl, h3⟩)
  · rename_i a
    cases a with
    | nf w => obtain ⟨w', h⟩ := h; exact Or.inr (Or.inr (Or.inl ⟨_, w', rfl, h⟩))
    | ub w => exact Or.inr (Or.inr (Or.inr ⟨_, rfl⟩))
    | overwrite => exact h.elim
    | fuel => exact h.elim

/-! ## reads -/

@[simp] theorem jrd_some {β : Type} (name : String) (v : Vec β) (i : Int) :
    jrd name (some v) i = if 0 ≤ i ∧ i < v.len then Except.ok (v.get i.toNat) else Except.error (.aioobe name) := rfl

@[simp] theorem jrd_none {β : Type} (name : String) (i : Int) : jrd name (none : JArr β) i = Except.error (.npe name) := rfl

@[simp] theorem jbind_ok {β γ : Type} (a : β) (f : β → JM γ) : (Except.ok a : JM β) >>= f = f a := rfl
@[simp] theorem jbind_error {β γ : Type} (e : JStop) (f : β → JM γ) : (Except.error e : JM β) >>= f = Except.error e := rfl
@[simp] theorem jpure_eq_ok {β : Type} (a : β) : (pure a : JM β) = Except.ok a := rfl
@[simp] theorem jthrow_eq_error {β : Type} (e : JStop) : (throw e : JM β) = Except.error e := rfl

@[simp] theorem jtry_ok {β : Type} (a : β) (h : JM β) : jtry (Except.ok a) h = Except.ok a := rfl
@[simp] theorem jtry_iae {β : Type} (m : String) (h : JM β) : jtry (Except.error (.iae m)) h = h := rfl
@[simp] theorem jtry_nf {β : Type} (m : String) (h : JM β) : jtry (Except.error (.nf m)) h = Except.error (.nf m) := rfl

/-- Java `int` arithmetic does not wrap on values that are `int`s -/
theorem wrapI_of_inI32 {x : Int} (h : inI32 x) : wrapI x = x := by
  unfold inI32 INT_MIN INT_MAX at h; unfold wrapI; omega

end Xrl
