/-
  Ownership of the objects the Java port hands out (C19; hand-written, no Mathlib).

  The C library returns malloc'ed deep copies (property C15): whatever the caller writes into a returned object, the library's own
  entry — and with it every later answer — stays as it was.  The Java port returns objects with public arrays; it is equivalent to
  the C library over call HISTORIES only if a returned object shares no mutable part with the library's entry it was made from.

  `Init` is how a copy constructor initialises one field (classified from the Java text by tools/jobjects.py, table
  `Xrl.JGen.copyCtorFields`), `CtorField.independent` says when that leaves the copy independent of the original, and the `Heap`
  section gives the two ways of initialising an array field their meaning: `allocCopy` (new E[n] + arraycopy) and `shareRef` (f = p.f).
-/
namespace Xrl
namespace JHeap

/-- how a copy constructor `T(T p)` initialises a field from `p` -/
inductive Init where
  | value          -- primitive / String: `f = p.f`, `f = new String(p.f)` (immutable: sharing is unobservable)
  | shared         -- `f = p.f` of an array or object: one array, two owners
  | freshCopied    -- `f = new E[p.n]; System.arraycopy(p.f, 0, f, 0, p.n)` / `p.f.clone()`
  | freshDeep      -- `f = new E[p.n]; for i: f[i] = new E(p.f[i])`
  | freshShallow   -- `f = new E[p.n]; for i: f[i] = p.f[i]`: fresh array of shared elements
  | unknown        -- anything the extractor does not recognise
  deriving DecidableEq, Repr

structure CtorField where
  cls : String
  field : String
  type : String
  isArray : Bool
  /-- the elements are objects (not primitives, not Strings) -/
  elemIsObject : Bool
  /-- the element type has no mutable part: a primitive, a String, or a class all of whose fields are final primitives / Strings -/
  elemImmutable : Bool
  init : Init
  deriving Repr

/-- after `q = new T(p)` nothing written through `q.field` (array cells, elements' fields) can be seen through `p.field`, and conversely -/
def CtorField.independent (f : CtorField) : Bool :=
  match f.isArray, f.init with
  | false, .value => true
  | true, .freshCopied => !f.elemIsObject
  | true, .freshDeep => true
  | true, .freshShallow => f.elemImmutable
  | _, _ => false

/-- what a `return` of an object-returning method hands out -/
inductive Ret where
  | freshObject              -- `return new T(...)`
  | freshArray               -- `return new E[]{...}` / `Arrays.stream(..).map(..).toArray(String[]::new)`
  | immutable                -- a String
  | ownField                 -- instance method returning a field of `this` (getElements())
  | entry                    -- a name / array element of class or array type: the library's own object
  | unknown
  | delegated (m : String)   -- `return p.m(...)` / `return m(...)`
  deriving DecidableEq, Repr

def Ret.isDelegated : Ret → Bool
  | .delegated _ => true
  | _ => false

structure LookupReturn where
  owner : String
  method : String
  ret : String
  kind : Ret
  deriving Repr

/-- every return of the instance / static method `m` found in the table is fresh (one level of delegation below `fuel`) -/
def freshVia (tbl : List LookupReturn) : Nat → String → Bool
  | 0, _ => false
  | fuel + 1, m =>
    let rows := tbl.filter (fun r => r.method == m && r.owner != "Xraylib")
    !rows.isEmpty && rows.all (fun r => match r.kind with
      | .freshObject => true | .freshArray => true | .immutable => true
      | .delegated m' => freshVia tbl fuel m'
      | _ => false)

/-- a static method of `Xraylib` hands out only objects made for the caller -/
def handsOutFresh (tbl : List LookupReturn) (r : LookupReturn) : Bool :=
  match r.kind with
  | .freshObject => true | .freshArray => true | .immutable => true
  | .delegated m => freshVia tbl 3 m
  | _ => false

/-! ### the meaning of `freshCopied` and `shared` on a heap of arrays -/

/-- a heap of arrays: address ↦ contents; the addresses below `next` are allocated -/
structure Heap where
  cells : Nat → List Int
  next : Nat

/-- `a[i] = v` on the array at address `r` -/
def Heap.write (h : Heap) (r i : Nat) (v : Int) : Heap :=
  { h with cells := fun k => if k = r then (h.cells k).set i v else h.cells k }

/-- `f = new E[n]; System.arraycopy(p.f, 0, f, 0, n)`: a new address with the contents of `r` -/
def Heap.allocCopy (h : Heap) (r : Nat) : Heap × Nat :=
  ({ cells := fun k => if k = h.next then h.cells r else h.cells k, next := h.next + 1 }, h.next)

/-- `f = p.f` -/
def Heap.shareRef (h : Heap) (r : Nat) : Heap × Nat := (h, r)

theorem allocCopy_contents (h : Heap) (r : Nat) : (h.allocCopy r).1.cells (h.allocCopy r).2 = h.cells r := by
  simp [Heap.allocCopy]

theorem allocCopy_keeps (h : Heap) (r k : Nat) (hk : k < h.next) : (h.allocCopy r).1.cells k = h.cells k := by
  have : k ≠ h.next := Nat.ne_of_lt hk
  simp [Heap.allocCopy, this]

/-- the caller writes into the copy: the original is as it was -/
theorem allocCopy_independent (h : Heap) (r : Nat) (hr : r < h.next) (i : Nat) (v : Int) :
    ((h.allocCopy r).1.write (h.allocCopy r).2 i v).cells r = h.cells r := by
  have : r ≠ h.next := Nat.ne_of_lt hr
  simp [Heap.allocCopy, Heap.write, this]

/-- the original is written (by anybody): the copy is as it was -/
theorem allocCopy_independent_conv (h : Heap) (r : Nat) (hr : r < h.next) (i : Nat) (v : Int) :
    ((h.allocCopy r).1.write r i v).cells (h.allocCopy r).2 = h.cells r := by
  have : h.next ≠ r := (Nat.ne_of_lt hr).symm
  simp [Heap.allocCopy, Heap.write, this]

/-- `f = p.f`: a write through the copy IS a write to the original -/
theorem shareRef_aliases : ∃ (h : Heap) (r i : Nat) (v : Int), r < h.next ∧
    ((h.shareRef r).1.write (h.shareRef r).2 i v).cells r ≠ h.cells r :=
  ⟨{ cells := fun _ => [0], next := 1 }, 0, 0, 1, by decide, by simp [Heap.shareRef, Heap.write]⟩

/-- a copy constructor over all array fields of an object: `(fresh?, address of the original's array)` per field -/
def Heap.copyObj (h : Heap) : List (Bool × Nat) → Heap × List Nat
  | [] => (h, [])
  | (true, r) :: fs =>
    let c := h.allocCopy r
    let rest := c.1.copyObj fs
    (rest.1, c.2 :: rest.2)
  | (false, r) :: fs =>
    let rest := h.copyObj fs
    (rest.1, r :: rest.2)

theorem copyObj_next_le (fs : List (Bool × Nat)) : ∀ h : Heap, h.next ≤ (h.copyObj fs).1.next := by
  induction fs with
  | nil => intro h; exact Nat.le_refl _
  | cons p fs ih =>
    intro h
    obtain ⟨b, r⟩ := p
    cases b with
    | true =>
      have := ih (h.allocCopy r).1
      simp only [Heap.copyObj]
      exact Nat.le_trans (Nat.le_succ _) this
    | false => simpa [Heap.copyObj] using ih h

theorem copyObj_keeps (fs : List (Bool × Nat)) : ∀ (h : Heap) (k : Nat), k < h.next → (h.copyObj fs).1.cells k = h.cells k := by
  induction fs with
  | nil => intro h k _; rfl
  | cons p fs ih =>
    intro h k hk
    obtain ⟨b, r⟩ := p
    cases b with
    | true =>
      simp only [Heap.copyObj]
      have h1 : k < (h.allocCopy r).1.next := Nat.lt_succ_of_lt hk
      rw [ih (h.allocCopy r).1 k h1]
      exact allocCopy_keeps h r k hk
    | false => simpa [Heap.copyObj] using ih h k hk

theorem copyObj_fresh_addresses (fs : List (Bool × Nat)) : ∀ (h : Heap), (∀ p ∈ fs, p.1 = true) →
    ∀ a ∈ (h.copyObj fs).2, h.next ≤ a := by
  induction fs with
  | nil => intro h _ a ha; simp [Heap.copyObj] at ha
  | cons p fs ih =>
    intro h hall a ha
    obtain ⟨b, r⟩ := p
    have hb : b = true := hall (b, r) (List.mem_cons_self ..)
    subst hb
    simp only [Heap.copyObj, List.mem_cons] at ha
    rcases ha with ha | ha
    · subst ha; exact Nat.le_refl _
    · have := ih (h.allocCopy r).1 (fun p hp => hall p (List.mem_cons_of_mem _ hp)) a ha
      exact Nat.le_trans (Nat.le_succ _) this

/-- OBJECT LEVEL: if the copy constructor gives every array field a fresh copy, then whatever the caller writes into ANY array of the
    returned object, EVERY array of the original (the library's catalogue entry) reads as before the copy was made -/
theorem copyObj_independent (fs : List (Bool × Nat)) (h : Heap) (hfresh : ∀ p ∈ fs, p.1 = true) (halloc : ∀ p ∈ fs, p.2 < h.next)
    (a : Nat) (ha : a ∈ (h.copyObj fs).2) (p : Bool × Nat) (hp : p ∈ fs) (i : Nat) (v : Int) :
    (((h.copyObj fs).1).write a i v).cells p.2 = h.cells p.2 := by
  have h1 : h.next ≤ a := copyObj_fresh_addresses fs h hfresh a ha
  have h2 : p.2 < h.next := halloc p hp
  have hne : p.2 ≠ a := Nat.ne_of_lt (Nat.lt_of_lt_of_le h2 h1)
  simp only [Heap.write, hne, if_false]
  exact copyObj_keeps fs h p.2 h2

end JHeap
end Xrl
