import Xrl.JCore.JLemmas
import Xrl.JGen.Methods
/-!
# The Java `splint` (Xraylib.java:4043-4075, translated: `JGen.splint`) against the C model `Xrl.splint` (Hand/Splint.lean)

Java subscripts from 0 and bisects over `[0, n-1]`; the C code is handed `base - 1` and bisects over `[1, n]`.
-/
set_option linter.unusedSimpArgs false
namespace Xrl

theorem bisect_bounds (g : Nat → Bool) : ∀ f a b, a ≤ b → a ≤ (bisect g f a b).1 ∧ (bisect g f a b).1 ≤ (bisect g f a b).2 ∧ (bisect g f a b).2 ≤ b := by
  intro f
  induction f with
  | zero => intro a b h; simp only [bisect]; omega
  | succ f ih =>
    intro a b h
    simp only [bisect]
    split_ifs with h1 h2
    · have := ih a ((b + a) / 2) (by omega); omega
    · have := ih ((b + a) / 2) b (by omega); omega
    · simp only; omega

/-- the 1-based bisection of the C code is the 0-based bisection of the Java code, shifted by one -/
theorem bisect_shift (g : Nat → Bool) : ∀ f a b,
    bisect (fun k => g (k - 1)) f (a + 1) (b + 1) = ((bisect g f a b).1 + 1, (bisect g f a b).2 + 1) := by
  intro f
  induction f with
  | zero => intro a b; simp only [bisect]
  | succ f ih =>
    intro a b
    simp only [bisect]
    have e1 : (b + 1 - (a + 1) > 1) = (b - a > 1) := by simp only [gt_iff_lt, eq_iff_iff]; omega
    have e2 : (b + 1 + (a + 1)) / 2 = (b + a) / 2 + 1 := by omega
    simp only [e1, e2, Nat.add_sub_cancel]
    split_ifs with h1 h2
    · exact ih a ((b + a) / 2)
    · exact ih ((b + a) / 2) b
    · rfl

/-- a spline evaluation: `rv = 1` and a value, or `rv = 0`, value `0` and one error -/
def JSplintRel (j : JM ℝ) (c : M (Int × ℝ × Slot)) (s : Slot) : Prop :=
  match c with
  | .ok (rv, y, s') => (rv = 1 ∧ s' = s ∧ j = .ok y) ∨ (∃ e : Err, rv = 0 ∧ y = 0 ∧ s' = s.withErr e ∧ j = .error (.iae e.msg))
  | .error a => JStopRel j a

theorem JSplintRel.cases {j : JM ℝ} {c : M (Int × ℝ × Slot)} {s : Slot} (h : JSplintRel j c s) :
    (∃ y, c = .ok (1, y, s) ∧ j = .ok y) ∨ (∃ e : Err, c = .ok (0, (0 : ℝ), s.withErr e) ∧ j = .error (.iae e.msg)) ∨
    (∃ a b, c = .error (.nf a) ∧ j = .error (.nf b)) ∨ (∃ a, c = .error (.ub a)) := by
  unfold JSplintRel at h
  split at h
  · rcases h with ⟨h1, h2, h3⟩ | ⟨e, h1, h2, h3, h4⟩
    · subst h1 h2; exact Or.inl ⟨_, rfl, h3⟩
    · subst h1 h2 h3; exact Or.inr (Or.inl ⟨e, rfl, h4⟩)
  · rename_i a
    cases a with
    | nf w => obtain ⟨w', h⟩ := h; exact Or.inr (Or.inr (Or.inl ⟨_, w', rfl, h⟩))
    | ub w => exact Or.inr (Or.inr (Or.inr ⟨_, rfl⟩))
    | overwrite => exact h.elim
    | fuel => exact h.elim
theorem JSplintRel.value {y : ℝ} {s : Slot} : JSplintRel (.ok y) (.ok (1, y, s)) s := Or.inl ⟨rfl, rfl, rfl⟩
theorem JSplintRel.value_eq {y y' : ℝ} {s : Slot} (h : y = y') : JSplintRel (.ok y) (.ok (1, y', s)) s := h ▸ JSplintRel.value
theorem JSplintRel.fail {s : Slot} {c : ErrCode} {m : String} :
    JSplintRel (.error (.iae m)) (.ok (0, (0.0 : ℝ), s.withErr ⟨c, m⟩)) s := Or.inr ⟨⟨c, m⟩, rfl, by norm_num, rfl, rfl⟩
theorem JSplintRel.fail0 {s : Slot} {c : ErrCode} {m : String} :
    JSplintRel (.error (.iae m)) (.ok (0, (0 : ℝ), s.withErr ⟨c, m⟩)) s := Or.inr ⟨⟨c, m⟩, rfl, rfl, rfl, rfl⟩
theorem JSplintRel.ub {j : JM ℝ} {b : String} {s : Slot} : JSplintRel j (.error (.ub b)) s := trivial

theorem jsplint_rel (JT : JTables ℝ) (xa ya y2a : Vec ℝ) (n : Int) (hn : inI32 n) (x : ℝ) (s : Slot) (hs : s.isFull = false) :
    JSplintRel (JGen.splint JT (some ⟨n, xa.get⟩) (some ⟨n, ya.get⟩) (some ⟨n, y2a.get⟩) n x) (splint xa ya y2a n x s) s := by
  unfold JGen.splint splint
  simp only [inI32, INT_MIN, INT_MAX] at hn
  by_cases h0 : 0 ≤ n - 1 ∧ n - 1 < xa.len
  · obtain ⟨h0a, h0b⟩ := h0
    obtain ⟨m, hm⟩ : ∃ m : Nat, n = (m : Int) + 1 := ⟨(n - 1).toNat, by omega⟩
    subst hm
    have hw : wrapI ((m : Int) + 1 - 1) = (m : Int) := by rw [wrapI_eq (by omega) (by omega)]; omega
    have hw' : wrapI (m : Int) = (m : Int) := wrapI_eq (by omega) (by omega)
    have e1 : ((m : Int) + 1 - 1) = (m : Int) := by omega
    have e2 : ((m : Int) + 1).toNat = m + 1 := by omega
    have e3 : ((m : Int) - 0 + 1).toNat = m + 1 := by omega
    have hg : (fun k => decide (x < xa.get (k - 1))) = (fun k => (jgt (some ⟨(m : Int) + 1, xa.get⟩) x) (k - 1)) := rfl
    have hsh := bisect_shift (jgt (some ⟨(m : Int) + 1, xa.get⟩) x) (m + 1) 0 m
    have hb := bisect_bounds (jgt (some ⟨(m : Int) + 1, xa.get⟩) x) (m + 1) 0 m (Nat.zero_le _)
    simp only [hw, hw', e1, e2, e3, hg, Int.toNat_zero, Int.toNat_natCast, Nat.zero_add] at hsh ⊢
    rw [hsh]
    generalize bisect (jgt (some ⟨(m : Int) + 1, xa.get⟩) x) (m + 1) 0 m = r at hb ⊢
    obtain ⟨r1, r2⟩ := r
    simp only at hb
    have c1 : ((r1 + 1 : Nat) : Int) - 1 = (r1 : Int) := by omega
    have c2 : ((r2 + 1 : Nat) : Int) - 1 = (r2 : Int) := by omega
    have b1 : (0 : Int) ≤ r1 ∧ (r1 : Int) < (m : Int) + 1 := by omega
    have b2 : (0 : Int) ≤ r2 ∧ (r2 : Int) < (m : Int) + 1 := by omega
    have b3 : (0 : Int) ≤ r1 ∧ (r1 : Int) < xa.len := by omega
    have b4 : (0 : Int) ≤ r2 ∧ (r2 : Int) < xa.len := by omega
    have b5 : (0 : Int) ≤ 0 ∧ (0 : Int) < xa.len := by omega
    have b6 : (0 : Int) ≤ 0 ∧ (0 : Int) < (m : Int) + 1 := by omega
    have b7 : (0 : Int) ≤ m ∧ (m : Int) < (m : Int) + 1 := by omega
    have b8 : (0 : Int) ≤ m ∧ (m : Int) < xa.len := by omega
    simp only [splintAt, rdv, jrd_some, c1, c2, b1, b2, b3, b4, b5, b6, b7, b8, and_self, ↓reduceIte, bind_ok, jbind_ok, pure_eq_ok, jpure_eq_ok,
      jthrow_eq_error, setErr_notFull hs, SPLINT_X_TOO_HIGH, SPLINT_X_TOO_LOW, Int.toNat_natCast, Int.toNat_zero, deq_real, jdiv_real, splintCubic]
    have z : (0.0 : ℝ) = 0 := by norm_num
    simp only [z, true_and]
    repeat' (first
      | exact JSplintRel.fail | exact JSplintRel.fail0 | exact JSplintRel.ub | exact JSplintRel.value | exact JSplintRel.value_eq rfl
      | (split_ifs <;> (try simp only [*, bind_ok, bind_error, jbind_ok, jbind_error, pure_eq_ok, throw_eq_error, ↓reduceIte, not_true_eq_false, not_false_eq_true])))
  · have hub : rdv "splint.xa[n]" xa (n - 1) = (Except.error (Abort.ub ("oob " ++ "splint.xa[n]")) : M ℝ) := by
      unfold rdv; rw [if_neg h0]; rfl
    rw [hub]; exact JSplintRel.ub


/-- the same with the arrays as `XRayInit` builds them from a count and a C vector (`jvec`): `null` when the count is `≤ 0` -/
theorem jsplint_rel_vec (JT : JTables ℝ) (xa ya y2a : Vec ℝ) (n : Int) (hn : inI32 n) (x : ℝ) (s : Slot) (hs : s.isFull = false) :
    JSplintRel (JGen.splint JT (jvec n xa) (jvec n ya) (jvec n y2a) n x) (splint xa ya y2a n x s) s := by
  by_cases h : n ≤ 0
  · have hub : splint xa ya y2a n x s = (Except.error (Abort.ub ("oob " ++ "splint.xa[n]")) : M (Int × ℝ × Slot)) := by
      unfold splint rdv; rw [if_neg (by omega)]; rfl
    rw [hub]; exact JSplintRel.ub
  · simp only [jvec, h, ↓reduceIte]
    exact jsplint_rel JT xa ya y2a n hn x s hs


end Xrl
