import Xrl.Core.Basic
import Xrl.Hand.Splint
/-!
# JCore: outcomes and checked operations of the Java reading (core Lean only, links into a driver)

A static numeric method of `java/Xraylib.java`

    public static double f(int Z, double E)   becomes   def JGen.f (JT : JTables α) (Z : Int) (E : α) : JM α

in the monad `JM = Except JStop`:

* `JStop.iae m`     : `throw new IllegalArgumentException(m)` (the only exception the sources throw by hand);
* `JStop.aioobe a`  : `ArrayIndexOutOfBoundsException` — a subscript outside `[0, a.length)`; Java defines this,
                      where C has undefined behaviour (`Abort.ub`);
* `JStop.npe a`     : `NullPointerException` — a subscript of an inner array that `XRayInit` left `null`
                      (`readDoubleArrayOfArrays`, Xraylib.java:109-112: `N[i] <= 0`);
* `JStop.nf w`      : *model stop*, not a Java exception: a double operation would leave the finite numbers
                      (`x / 0`, `Math.log(x ≤ 0)`).  Java goes on with ±Infinity/NaN; the model stops exactly where the
                      C model stops with `Abort.nf` (Core/Basic.lean `ddiv`, `dlog`), so that the two can be compared;
* `JStop.fuel`      : recursion fuel of the model exhausted (shown unreachable where a theorem is stated).

Java `int` arithmetic **wraps** (JLS §15.17/15.18: two's complement, no exception): `wrapI`.  The C translation uses
`chkI` (signed overflow is undefined behaviour).  `try { … } catch (IllegalArgumentException e) { … }` is `jtry`; it
does not catch the two model stops.
-/
namespace Xrl

inductive JStop where
  | iae (msg : String)
  | aioobe (arr : String)
  | npe (arr : String)
  | nf (what : String)
  | fuel
  deriving Repr, DecidableEq, Inhabited

abbrev JM := Except JStop

/-- a Java exception (as opposed to a stop of the model) -/
def JStop.isExc : JStop → Bool
  | .iae _ => true
  | .aioobe _ => true
  | .npe _ => true
  | _ => false

/-- Java `int` result of an arithmetic operation whose mathematical value is `x`: reduced into [-2³¹, 2³¹) -/
def wrapI (x : Int) : Int := (x + 2147483648) % 4294967296 - 2147483648

/-- a Java array reference: `null` or an array object with its `length` -/
abbrev JArr (β : Type) := Option (Vec β)

/-- `a[i]` -/
def jrd {β : Type} (name : String) (a : JArr β) (i : Int) : JM β :=
  match a with
  | none => throw (.npe name)
  | some v => if 0 ≤ i ∧ i < v.len then pure (v.get i.toNat) else throw (.aioobe name)

/-- `try body catch (IllegalArgumentException e) handler` -/
def jtry {β : Type} (body : JM β) (handler : JM β) : JM β :=
  match body with
  | .error (.iae _) => handler
  | r => r

/-- `try body catch (Exception e) handler` : every Java exception, none of the model stops -/
def jtryAll {β : Type} (body : JM β) (handler : JM β) : JM β :=
  match body with
  | .error (.iae _) => handler
  | .error (.aioobe _) => handler
  | .error (.npe _) => handler
  | r => r

section
variable {α : Type} [Add α] [Sub α] [Mul α] [Div α] [Neg α] [LT α] [LE α] [OfScientific α]
  [DecidableLT α] [DecidableLE α] [XNum α]

/-- double division; the model stops where the C model stops (`ddiv`) -/
def jdiv (a b : α) : JM α := if deq b (0.0 : α) then throw (.nf "div0") else pure (a / b)
/-- `Math.log` -/
def jlog (a : α) : JM α := if a ≤ (0.0 : α) then throw (.nf "log") else pure (XNum.log a)
/-- `Math.sqrt` -/
def jsqrt (a : α) : JM α := if a < (0.0 : α) then throw (.nf "sqrt") else pure (XNum.sqrt a)

end

/-- `for (i = lo; i < hi; i++) body` without `break`/`return` in the body -/
def jloopM {σ : Type} (lo hi : Int) (init : σ) (body : Int → σ → JM σ) : JM σ :=
  (List.range (hi - lo).toNat).foldlM (fun st (k : Nat) => body (lo + (k : Int)) st) init

/-- `for (T x : list) body` without `break`/`return` in the body -/
def jforEachM {σ τ : Type} (xs : List τ) (init : σ) (body : τ → σ → JM σ) : JM σ :=
  xs.foldlM (fun st x => body x st) init

/-- `for (i = lo; i < hi; i++) body` where the body may `return` (→ `inl`) or `break` -/
def jloopCtlGo {ρ σ : Type} (lo : Int) (body : Int → σ → JM (Ctl ρ σ)) : List Nat → σ → JM (Sum ρ σ)
  | [], s => pure (Sum.inr s)
  | k :: ks, s => do
    let c ← body (lo + (k : Int)) s
    match c with
    | Ctl.ret r => pure (Sum.inl r)
    | Ctl.brk s' => pure (Sum.inr s')
    | Ctl.next s' => jloopCtlGo lo body ks s'

def jloopCtlM {ρ σ : Type} (lo hi : Int) (init : σ) (body : Int → σ → JM (Ctl ρ σ)) : JM (Sum ρ σ) :=
  jloopCtlGo lo body (List.range (hi - lo).toNat) init

/-- `for (T x : list) body` where the body may `return` (→ `inl`) or `break` -/
def jforEachCtlM {ρ σ τ : Type} (xs : List τ) (init : σ) (body : τ → σ → JM (Ctl ρ σ)) : JM (Sum ρ σ) :=
  match xs with
  | [] => pure (Sum.inr init)
  | x :: rest => do
    let c ← body x init
    match c with
    | Ctl.ret r => pure (Sum.inl r)
    | Ctl.brk s' => pure (Sum.inr s')
    | Ctl.next s' => jforEachCtlM rest s' body

/-- the test `xa[k] > x` inside the bisection of `splint` (Xraylib.java:4059).  The translator turns the `while` loop
of `splint` into `bisect` (Hand/Splint.lean, the same function the C model uses) over this test; the subscripts inside the loop
are not checked again: `klo < k < khi` stay inside `[0, n-1]`, and `xa[n-1]`, `xa[0]` have been read (checked) before. -/
def jgt {α : Type} [LT α] [DecidableLT α] (xa : JArr α) (x : α) (k : Nat) : Bool :=
  match xa with
  | some v => decide (x < v.get k)
  | none => false

end Xrl
