import Xrl.JCore.Basic
import Xrl.Gen.Tables
import Xrl.Gen.Hdr
/-!
# JTables: the static data of `java/Xraylib.java`, and how they come from the C tables

`JTables α` has one field per static field that `XRayInit` (Xraylib.java:168-320) fills from `xraylib.dat`
(tools/j2lean.py carries the same list with the Java types and refuses a method that uses a field not listed here,
or listed with another type).  A `double[]` is a `Vec α` (its `length` and contents), an element of array type is a
`JArr β = Option (Vec β)` because `readDoubleArrayOfArrays` (Xraylib.java:105-117) leaves `null` where the count is `≤ 0`.

`JTables.ofC T` is the content of those fields when `xraylib.dat` was written by `java/pr_data_java.c` from the C tables `T`
(the tables of `src/xrayglob.h` after `XRayInitFromPath`, the Auger tables as pr_data_java.c:1104-1110 derives them and the
cascade constants as pr_data_java.c:1161-1189 does — both by copies of the code of `src/pr_data.c`, compared on every run):

* scalars: pr_data_java.c:962-973 initialises them from the macros of the headers, :993-1004 writes them, Xraylib.java:178-189 reads;
* `PR_MATD(X)` (pr_data_java.c:37-38) writes a `double X[ZMAX+1][N]` row-major as one block; Java reads `(ZMAX + 1) * N` doubles
  into a flat `double[]` and subscripts it with `Z * N + i` — so flat index `k` holds `X[k / N][k % N]`;
* `PR_NUMVEC1D` (:70-71) writes the `ZMAX+1` counts; `PR_DYNMATD(N, E)` (:43-48) writes `N[j]` doubles of `E[j]` for every `j` with
  `N[j] > 0`; Java `readDoubleArrayOfArrays(N)` builds an array of length `N[j]` for those and `null` for the others;
* `PR_MATI(NE_Photo_Partial_Kissel)` + `arrayReshape` (Xraylib.java:153-166, 250-251): an `int[ZMAX+1][SHELLNUM_K]`;
* `PR_DYNMAT_3DD_K` (:50-57) / `readDoubleArrayOfArraysOfArrays` (Xraylib.java:95-103): per `(i, j)` a vector of
  `NE_Photo_Partial_Kissel[i][j]` doubles or `null`;
* `PR_DYNMAT_3DD_C` (:59-68) / Xraylib.java:263-287: per `i` with `NShells[i] > 0` an array of length `NShells[i]` whose entry `j` is a
  vector of `Npz[i]` doubles if `UOCCUP[i][j] > 0` and `Npz[i] > 0`, else `null`; `null` for the other `i`.

Not part of `JTables`: `EdgeEnergy_Kissel_arr` (no method reads it), the NIST / nuclide / crystal catalogues.
-/
namespace Xrl

structure JTables (α : Type) where
  ZMAX : Int
  SHELLNUM : Int
  SHELLNUM_K : Int
  SHELLNUM_A : Int
  TRANSNUM : Int
  LINENUM : Int
  AUGERNUM : Int
  RE2 : α
  MEC2 : α
  AVOGNUM : α
  KEV2ANGST : α
  R_E : α
  AtomicWeight_arr : Vec α
  ElementDensity_arr : Vec α
  EdgeEnergy_arr : Vec α
  AtomicLevelWidth_arr : Vec α
  LineEnergy_arr : Vec α
  FluorYield_arr : Vec α
  JumpFactor_arr : Vec α
  CosKron_arr : Vec α
  RadRate_arr : Vec α
  xrf_cross_sections_constants_full : Vec α
  xrf_cross_sections_constants_auger_only : Vec α
  NE_Photo_arr : Vec Int
  E_Photo_arr : Vec (JArr α)
  CS_Photo_arr : Vec (JArr α)
  CS_Photo_arr2 : Vec (JArr α)
  NE_Rayl_arr : Vec Int
  E_Rayl_arr : Vec (JArr α)
  CS_Rayl_arr : Vec (JArr α)
  CS_Rayl_arr2 : Vec (JArr α)
  NE_Compt_arr : Vec Int
  E_Compt_arr : Vec (JArr α)
  CS_Compt_arr : Vec (JArr α)
  CS_Compt_arr2 : Vec (JArr α)
  NE_Energy_arr : Vec Int
  E_Energy_arr : Vec (JArr α)
  CS_Energy_arr : Vec (JArr α)
  CS_Energy_arr2 : Vec (JArr α)
  Nq_Rayl_arr : Vec Int
  q_Rayl_arr : Vec (JArr α)
  FF_Rayl_arr : Vec (JArr α)
  FF_Rayl_arr2 : Vec (JArr α)
  Nq_Compt_arr : Vec Int
  q_Compt_arr : Vec (JArr α)
  SF_Compt_arr : Vec (JArr α)
  SF_Compt_arr2 : Vec (JArr α)
  NE_Fi_arr : Vec Int
  E_Fi_arr : Vec (JArr α)
  Fi_arr : Vec (JArr α)
  Fi_arr2 : Vec (JArr α)
  NE_Fii_arr : Vec Int
  E_Fii_arr : Vec (JArr α)
  Fii_arr : Vec (JArr α)
  Fii_arr2 : Vec (JArr α)
  NE_Photo_Total_Kissel_arr : Vec Int
  Electron_Config_Kissel_arr : Vec α
  NE_Photo_Partial_Kissel_arr : Vec (JArr Int)
  E_Photo_Partial_Kissel_arr : Vec (JArr (JArr α))
  Photo_Partial_Kissel_arr : Vec (JArr (JArr α))
  Photo_Partial_Kissel_arr2 : Vec (JArr (JArr α))
  NShells_ComptonProfiles_arr : Vec Int
  Npz_ComptonProfiles_arr : Vec Int
  UOCCUP_ComptonProfiles_arr : Vec (JArr α)
  pz_ComptonProfiles_arr : Vec (JArr α)
  Total_ComptonProfiles_arr : Vec (JArr α)
  Total_ComptonProfiles_arr2 : Vec (JArr α)
  Partial_ComptonProfiles_arr : Vec (JArr (JArr α))
  Partial_ComptonProfiles_arr2 : Vec (JArr (JArr α))
  Auger_Yields_arr : Vec α
  Auger_Rates_arr : Vec α

section
variable {α : Type} [LT α] [DecidableLT α] [OfScientific α]

/-- `readDoubleArray(n)` of the first `n` cells of a C heap vector, `null` when `n ≤ 0` (Xraylib.java:109-113) -/
def jvec {β : Type} (n : Int) (v : Vec β) : JArr β := if n ≤ 0 then none else some ⟨n, v.get⟩

/-- a `double X[rows][cols]` written by `PR_MATD` and read into a flat `double[rows * cols]` -/
def jflat2 {β : Type} (rows cols : Nat) (f : Nat → Nat → β) : Vec β := ⟨(rows * cols : Nat), fun k => f (k / cols) (k % cols)⟩

/-- a `double X[d0][d1][d2]` written by `PR_MATD` and read into a flat `double[d0 * d1 * d2]` -/
def jflat3 {β : Type} (d0 d1 d2 : Nat) (f : Nat → Nat → Nat → β) : Vec β :=
  ⟨(d0 * d1 * d2 : Nat), fun k => f (k / (d1 * d2)) (k / d2 % d1) (k % d2)⟩

/-- per-element vectors: `PR_NUMVEC1D` + `PR_DYNMATD` / `readIntArray` + `readDoubleArrayOfArrays` -/
def jdyn {β : Type} (N : Nat → Int) (E : Nat → Vec β) : Vec (JArr β) := ⟨121, fun i => jvec (N i) (E i)⟩

/-- Kissel partial tables: `PR_DYNMAT_3DD_K` / `readDoubleArrayOfArraysOfArrays` -/
def jdynK {β : Type} (N : Nat → Nat → Int) (E : Nat → Nat → Vec β) : Vec (JArr (JArr β)) :=
  ⟨121, fun i => some ⟨31, fun j => jvec (N i j) (E i j)⟩⟩

/-- Compton profiles per shell: `PR_DYNMAT_3DD_C` / Xraylib.java:263-287 -/
def jdynC (NS Npz : Nat → Int) (U : Nat → Vec α) (E : Nat → Nat → Vec α) : Vec (JArr (JArr α)) :=
  ⟨121, fun i => if NS i ≤ 0 then none else
      some ⟨NS i, fun j => if 0 < Npz i ∧ (0.0 : α) < (U i).get j then some ⟨Npz i, (E i j).get⟩ else none⟩⟩

def JTables.ofC (T : Tables α) : JTables α where
  ZMAX := Hdr.ZMAX
  SHELLNUM := Hdr.SHELLNUM
  SHELLNUM_K := Hdr.SHELLNUM_K
  SHELLNUM_A := Hdr.SHELLNUM_A
  TRANSNUM := Hdr.TRANSNUM
  LINENUM := Hdr.LINENUM
  AUGERNUM := Hdr.AUGERNUM
  RE2 := Hdr.RE2
  MEC2 := Hdr.MEC2
  AVOGNUM := Hdr.AVOGNUM
  KEV2ANGST := Hdr.KEV2ANGST
  R_E := Hdr.R_E
  AtomicWeight_arr := ⟨121, T.AtomicWeight_arr⟩                                                                -- pr_data_java.c:1024  Xraylib.java:194
  ElementDensity_arr := ⟨121, T.ElementDensity_arr⟩                                                            -- pr_data_java.c:1026  Xraylib.java:195
  EdgeEnergy_arr := jflat2 121 28 T.EdgeEnergy_arr                                                             -- pr_data_java.c:1028  Xraylib.java:196
  AtomicLevelWidth_arr := jflat2 121 28 T.AtomicLevelWidth_arr                                                 -- pr_data_java.c:1030  Xraylib.java:197
  LineEnergy_arr := jflat2 121 383 T.LineEnergy_arr                                                            -- pr_data_java.c:1032  Xraylib.java:198
  FluorYield_arr := jflat2 121 28 T.FluorYield_arr                                                             -- pr_data_java.c:1034  Xraylib.java:199
  JumpFactor_arr := jflat2 121 28 T.JumpFactor_arr                                                             -- pr_data_java.c:1036  Xraylib.java:200
  CosKron_arr := jflat2 121 15 T.CosKron_arr                                                                   -- pr_data_java.c:1038  Xraylib.java:201
  RadRate_arr := jflat2 121 383 T.RadRate_arr                                                                  -- pr_data_java.c:1040  Xraylib.java:202
  xrf_cross_sections_constants_full := jflat3 121 9 4 T.xrf_cross_sections_constants_full                      -- pr_data_java.c:1186  Xraylib.java:312
  xrf_cross_sections_constants_auger_only := jflat3 121 9 4 T.xrf_cross_sections_constants_auger_only          -- pr_data_java.c:1187  Xraylib.java:313
  NE_Photo_arr := ⟨121, T.NE_Photo⟩                                                                            -- pr_data_java.c:1042  Xraylib.java:204
  E_Photo_arr := jdyn T.NE_Photo T.E_Photo_arr                                                                 -- pr_data_java.c:1043  Xraylib.java:205
  CS_Photo_arr := jdyn T.NE_Photo T.CS_Photo_arr                                                               -- pr_data_java.c:1044  Xraylib.java:206
  CS_Photo_arr2 := jdyn T.NE_Photo T.CS_Photo_arr2                                                             -- pr_data_java.c:1045  Xraylib.java:207
  NE_Rayl_arr := ⟨121, T.NE_Rayl⟩                                                                              -- pr_data_java.c:1048  Xraylib.java:209
  E_Rayl_arr := jdyn T.NE_Rayl T.E_Rayl_arr                                                                    -- pr_data_java.c:1049  Xraylib.java:210
  CS_Rayl_arr := jdyn T.NE_Rayl T.CS_Rayl_arr                                                                  -- pr_data_java.c:1050  Xraylib.java:211
  CS_Rayl_arr2 := jdyn T.NE_Rayl T.CS_Rayl_arr2                                                                -- pr_data_java.c:1051  Xraylib.java:212
  NE_Compt_arr := ⟨121, T.NE_Compt⟩                                                                            -- pr_data_java.c:1053  Xraylib.java:214
  E_Compt_arr := jdyn T.NE_Compt T.E_Compt_arr                                                                 -- pr_data_java.c:1054  Xraylib.java:215
  CS_Compt_arr := jdyn T.NE_Compt T.CS_Compt_arr                                                               -- pr_data_java.c:1055  Xraylib.java:216
  CS_Compt_arr2 := jdyn T.NE_Compt T.CS_Compt_arr2                                                             -- pr_data_java.c:1056  Xraylib.java:217
  NE_Energy_arr := ⟨121, T.NE_Energy⟩                                                                          -- pr_data_java.c:1058  Xraylib.java:219
  E_Energy_arr := jdyn T.NE_Energy T.E_Energy_arr                                                              -- pr_data_java.c:1059  Xraylib.java:220
  CS_Energy_arr := jdyn T.NE_Energy T.CS_Energy_arr                                                            -- pr_data_java.c:1060  Xraylib.java:221
  CS_Energy_arr2 := jdyn T.NE_Energy T.CS_Energy_arr2                                                          -- pr_data_java.c:1061  Xraylib.java:222
  Nq_Rayl_arr := ⟨121, T.Nq_Rayl⟩                                                                              -- pr_data_java.c:1064  Xraylib.java:224
  q_Rayl_arr := jdyn T.Nq_Rayl T.q_Rayl_arr                                                                    -- pr_data_java.c:1065  Xraylib.java:225
  FF_Rayl_arr := jdyn T.Nq_Rayl T.FF_Rayl_arr                                                                  -- pr_data_java.c:1066  Xraylib.java:226
  FF_Rayl_arr2 := jdyn T.Nq_Rayl T.FF_Rayl_arr2                                                                -- pr_data_java.c:1067  Xraylib.java:227
  Nq_Compt_arr := ⟨121, T.Nq_Compt⟩                                                                            -- pr_data_java.c:1069  Xraylib.java:229
  q_Compt_arr := jdyn T.Nq_Compt T.q_Compt_arr                                                                 -- pr_data_java.c:1070  Xraylib.java:230
  SF_Compt_arr := jdyn T.Nq_Compt T.SF_Compt_arr                                                               -- pr_data_java.c:1071  Xraylib.java:231
  SF_Compt_arr2 := jdyn T.Nq_Compt T.SF_Compt_arr2                                                             -- pr_data_java.c:1072  Xraylib.java:232
  NE_Fi_arr := ⟨121, T.NE_Fi⟩                                                                                  -- pr_data_java.c:1074  Xraylib.java:234
  E_Fi_arr := jdyn T.NE_Fi T.E_Fi_arr                                                                          -- pr_data_java.c:1075  Xraylib.java:235
  Fi_arr := jdyn T.NE_Fi T.Fi_arr                                                                              -- pr_data_java.c:1076  Xraylib.java:236
  Fi_arr2 := jdyn T.NE_Fi T.Fi_arr2                                                                            -- pr_data_java.c:1077  Xraylib.java:237
  NE_Fii_arr := ⟨121, T.NE_Fii⟩                                                                                -- pr_data_java.c:1079  Xraylib.java:239
  E_Fii_arr := jdyn T.NE_Fii T.E_Fii_arr                                                                       -- pr_data_java.c:1080  Xraylib.java:240
  Fii_arr := jdyn T.NE_Fii T.Fii_arr                                                                           -- pr_data_java.c:1081  Xraylib.java:241
  Fii_arr2 := jdyn T.NE_Fii T.Fii_arr2                                                                         -- pr_data_java.c:1082  Xraylib.java:242
  NE_Photo_Total_Kissel_arr := ⟨121, T.NE_Photo_Total_Kissel⟩                                                  -- pr_data_java.c:1088  Xraylib.java:247
  Electron_Config_Kissel_arr := jflat2 121 31 T.Electron_Config_Kissel                                         -- pr_data_java.c:1084  Xraylib.java:244
  NE_Photo_Partial_Kissel_arr := ⟨121, fun i => some ⟨31, fun j => T.NE_Photo_Partial_Kissel i j⟩⟩             -- pr_data_java.c:1090  Xraylib.java:251
  E_Photo_Partial_Kissel_arr := jdynK T.NE_Photo_Partial_Kissel T.E_Photo_Partial_Kissel                       -- pr_data_java.c:1091  Xraylib.java:252
  Photo_Partial_Kissel_arr := jdynK T.NE_Photo_Partial_Kissel T.Photo_Partial_Kissel                           -- pr_data_java.c:1092  Xraylib.java:253
  Photo_Partial_Kissel_arr2 := jdynK T.NE_Photo_Partial_Kissel T.Photo_Partial_Kissel2                         -- pr_data_java.c:1093  Xraylib.java:254
  NShells_ComptonProfiles_arr := ⟨121, T.NShells_ComptonProfiles⟩                                              -- pr_data_java.c:1095  Xraylib.java:256
  Npz_ComptonProfiles_arr := ⟨121, T.Npz_ComptonProfiles⟩                                                      -- pr_data_java.c:1096  Xraylib.java:257
  UOCCUP_ComptonProfiles_arr := jdyn T.NShells_ComptonProfiles T.UOCCUP_ComptonProfiles                        -- pr_data_java.c:1097  Xraylib.java:258
  pz_ComptonProfiles_arr := jdyn T.Npz_ComptonProfiles T.pz_ComptonProfiles                                    -- pr_data_java.c:1098  Xraylib.java:259
  Total_ComptonProfiles_arr := jdyn T.Npz_ComptonProfiles T.Total_ComptonProfiles                              -- pr_data_java.c:1099  Xraylib.java:260
  Total_ComptonProfiles_arr2 := jdyn T.Npz_ComptonProfiles T.Total_ComptonProfiles2                            -- pr_data_java.c:1100  Xraylib.java:261
  Partial_ComptonProfiles_arr := jdynC T.NShells_ComptonProfiles T.Npz_ComptonProfiles T.UOCCUP_ComptonProfiles T.Partial_ComptonProfiles -- pr_data_java.c:1101  Xraylib.java:263
  Partial_ComptonProfiles_arr2 := jdynC T.NShells_ComptonProfiles T.Npz_ComptonProfiles T.UOCCUP_ComptonProfiles T.Partial_ComptonProfiles2 -- pr_data_java.c:1102  Xraylib.java:264
  Auger_Yields_arr := jflat2 121 9 T.Auger_Yields                                                              -- pr_data_java.c:1111  Xraylib.java:289
  Auger_Rates_arr := jflat2 121 996 T.Auger_Rates                                                              -- pr_data_java.c:1112  Xraylib.java:290

end
/-! projections of `JTables.ofC` (so that proofs need not unfold the whole structure) -/
section
variable {α : Type} [LT α] [DecidableLT α] [OfScientific α] (T : Tables α)
theorem ofC_ZMAX : (JTables.ofC T).ZMAX = Hdr.ZMAX := rfl
theorem ofC_SHELLNUM : (JTables.ofC T).SHELLNUM = Hdr.SHELLNUM := rfl
theorem ofC_SHELLNUM_K : (JTables.ofC T).SHELLNUM_K = Hdr.SHELLNUM_K := rfl
theorem ofC_SHELLNUM_A : (JTables.ofC T).SHELLNUM_A = Hdr.SHELLNUM_A := rfl
theorem ofC_TRANSNUM : (JTables.ofC T).TRANSNUM = Hdr.TRANSNUM := rfl
theorem ofC_LINENUM : (JTables.ofC T).LINENUM = Hdr.LINENUM := rfl
theorem ofC_AUGERNUM : (JTables.ofC T).AUGERNUM = Hdr.AUGERNUM := rfl
theorem ofC_RE2 : (JTables.ofC T).RE2 = Hdr.RE2 := rfl
theorem ofC_MEC2 : (JTables.ofC T).MEC2 = Hdr.MEC2 := rfl
theorem ofC_AVOGNUM : (JTables.ofC T).AVOGNUM = Hdr.AVOGNUM := rfl
theorem ofC_KEV2ANGST : (JTables.ofC T).KEV2ANGST = Hdr.KEV2ANGST := rfl
theorem ofC_R_E : (JTables.ofC T).R_E = Hdr.R_E := rfl
theorem ofC_AtomicWeight_arr : (JTables.ofC T).AtomicWeight_arr = ⟨121, T.AtomicWeight_arr⟩ := rfl
theorem ofC_ElementDensity_arr : (JTables.ofC T).ElementDensity_arr = ⟨121, T.ElementDensity_arr⟩ := rfl
theorem ofC_EdgeEnergy_arr : (JTables.ofC T).EdgeEnergy_arr = jflat2 121 28 T.EdgeEnergy_arr := rfl
theorem ofC_AtomicLevelWidth_arr : (JTables.ofC T).AtomicLevelWidth_arr = jflat2 121 28 T.AtomicLevelWidth_arr := rfl
theorem ofC_LineEnergy_arr : (JTables.ofC T).LineEnergy_arr = jflat2 121 383 T.LineEnergy_arr := rfl
theorem ofC_FluorYield_arr : (JTables.ofC T).FluorYield_arr = jflat2 121 28 T.FluorYield_arr := rfl
theorem ofC_JumpFactor_arr : (JTables.ofC T).JumpFactor_arr = jflat2 121 28 T.JumpFactor_arr := rfl
theorem ofC_CosKron_arr : (JTables.ofC T).CosKron_arr = jflat2 121 15 T.CosKron_arr := rfl
theorem ofC_RadRate_arr : (JTables.ofC T).RadRate_arr = jflat2 121 383 T.RadRate_arr := rfl
theorem ofC_xrf_cross_sections_constants_full : (JTables.ofC T).xrf_cross_sections_constants_full = jflat3 121 9 4 T.xrf_cross_sections_constants_full := rfl
theorem ofC_xrf_cross_sections_constants_auger_only : (JTables.ofC T).xrf_cross_sections_constants_auger_only = jflat3 121 9 4 T.xrf_cross_sections_constants_auger_only := rfl
theorem ofC_NE_Photo_arr : (JTables.ofC T).NE_Photo_arr = ⟨121, T.NE_Photo⟩ := rfl
theorem ofC_E_Photo_arr : (JTables.ofC T).E_Photo_arr = jdyn T.NE_Photo T.E_Photo_arr := rfl
theorem ofC_CS_Photo_arr : (JTables.ofC T).CS_Photo_arr = jdyn T.NE_Photo T.CS_Photo_arr := rfl
theorem ofC_CS_Photo_arr2 : (JTables.ofC T).CS_Photo_arr2 = jdyn T.NE_Photo T.CS_Photo_arr2 := rfl
theorem ofC_NE_Rayl_arr : (JTables.ofC T).NE_Rayl_arr = ⟨121, T.NE_Rayl⟩ := rfl
theorem ofC_E_Rayl_arr : (JTables.ofC T).E_Rayl_arr = jdyn T.NE_Rayl T.E_Rayl_arr := rfl
theorem ofC_CS_Rayl_arr : (JTables.ofC T).CS_Rayl_arr = jdyn T.NE_Rayl T.CS_Rayl_arr := rfl
theorem ofC_CS_Rayl_arr2 : (JTables.ofC T).CS_Rayl_arr2 = jdyn T.NE_Rayl T.CS_Rayl_arr2 := rfl
theorem ofC_NE_Compt_arr : (JTables.ofC T).NE_Compt_arr = ⟨121, T.NE_Compt⟩ := rfl
theorem ofC_E_Compt_arr : (JTables.ofC T).E_Compt_arr = jdyn T.NE_Compt T.E_Compt_arr := rfl
theorem ofC_CS_Compt_arr : (JTables.ofC T).CS_Compt_arr = jdyn T.NE_Compt T.CS_Compt_arr := rfl
theorem ofC_CS_Compt_arr2 : (JTables.ofC T).CS_Compt_arr2 = jdyn T.NE_Compt T.CS_Compt_arr2 := rfl
theorem ofC_NE_Energy_arr : (JTables.ofC T).NE_Energy_arr = ⟨121, T.NE_Energy⟩ := rfl
theorem ofC_E_Energy_arr : (JTables.ofC T).E_Energy_arr = jdyn T.NE_Energy T.E_Energy_arr := rfl
theorem ofC_CS_Energy_arr : (JTables.ofC T).CS_Energy_arr = jdyn T.NE_Energy T.CS_Energy_arr := rfl
theorem ofC_CS_Energy_arr2 : (JTables.ofC T).CS_Energy_arr2 = jdyn T.NE_Energy T.CS_Energy_arr2 := rfl
theorem ofC_Nq_Rayl_arr : (JTables.ofC T).Nq_Rayl_arr = ⟨121, T.Nq_Rayl⟩ := rfl
theorem ofC_q_Rayl_arr : (JTables.ofC T).q_Rayl_arr = jdyn T.Nq_Rayl T.q_Rayl_arr := rfl
theorem ofC_FF_Rayl_arr : (JTables.ofC T).FF_Rayl_arr = jdyn T.Nq_Rayl T.FF_Rayl_arr := rfl
theorem ofC_FF_Rayl_arr2 : (JTables.ofC T).FF_Rayl_arr2 = jdyn T.Nq_Rayl T.FF_Rayl_arr2 := rfl
theorem ofC_Nq_Compt_arr : (JTables.ofC T).Nq_Compt_arr = ⟨121, T.Nq_Compt⟩ := rfl
theorem ofC_q_Compt_arr : (JTables.ofC T).q_Compt_arr = jdyn T.Nq_Compt T.q_Compt_arr := rfl
theorem ofC_SF_Compt_arr : (JTables.ofC T).SF_Compt_arr = jdyn T.Nq_Compt T.SF_Compt_arr := rfl
theorem ofC_SF_Compt_arr2 : (JTables.ofC T).SF_Compt_arr2 = jdyn T.Nq_Compt T.SF_Compt_arr2 := rfl
theorem ofC_NE_Fi_arr : (JTables.ofC T).NE_Fi_arr = ⟨121, T.NE_Fi⟩ := rfl
theorem ofC_E_Fi_arr : (JTables.ofC T).E_Fi_arr = jdyn T.NE_Fi T.E_Fi_arr := rfl
theorem ofC_Fi_arr : (JTables.ofC T).Fi_arr = jdyn T.NE_Fi T.Fi_arr := rfl
theorem ofC_Fi_arr2 : (JTables.ofC T).Fi_arr2 = jdyn T.NE_Fi T.Fi_arr2 := rfl
theorem ofC_NE_Fii_arr : (JTables.ofC T).NE_Fii_arr = ⟨121, T.NE_Fii⟩ := rfl
theorem ofC_E_Fii_arr : (JTables.ofC T).E_Fii_arr = jdyn T.NE_Fii T.E_Fii_arr := rfl
theorem ofC_Fii_arr : (JTables.ofC T).Fii_arr = jdyn T.NE_Fii T.Fii_arr := rfl
theorem ofC_Fii_arr2 : (JTables.ofC T).Fii_arr2 = jdyn T.NE_Fii T.Fii_arr2 := rfl
theorem ofC_NE_Photo_Total_Kissel_arr : (JTables.ofC T).NE_Photo_Total_Kissel_arr = ⟨121, T.NE_Photo_Total_Kissel⟩ := rfl
theorem ofC_Electron_Config_Kissel_arr : (JTables.ofC T).Electron_Config_Kissel_arr = jflat2 121 31 T.Electron_Config_Kissel := rfl
theorem ofC_NE_Photo_Partial_Kissel_arr : (JTables.ofC T).NE_Photo_Partial_Kissel_arr = ⟨121, fun i => some ⟨31, fun j => T.NE_Photo_Partial_Kissel i j⟩⟩ := rfl
theorem ofC_E_Photo_Partial_Kissel_arr : (JTables.ofC T).E_Photo_Partial_Kissel_arr = jdynK T.NE_Photo_Partial_Kissel T.E_Photo_Partial_Kissel := rfl
theorem ofC_Photo_Partial_Kissel_arr : (JTables.ofC T).Photo_Partial_Kissel_arr = jdynK T.NE_Photo_Partial_Kissel T.Photo_Partial_Kissel := rfl
theorem ofC_Photo_Partial_Kissel_arr2 : (JTables.ofC T).Photo_Partial_Kissel_arr2 = jdynK T.NE_Photo_Partial_Kissel T.Photo_Partial_Kissel2 := rfl
theorem ofC_NShells_ComptonProfiles_arr : (JTables.ofC T).NShells_ComptonProfiles_arr = ⟨121, T.NShells_ComptonProfiles⟩ := rfl
theorem ofC_Npz_ComptonProfiles_arr : (JTables.ofC T).Npz_ComptonProfiles_arr = ⟨121, T.Npz_ComptonProfiles⟩ := rfl
theorem ofC_UOCCUP_ComptonProfiles_arr : (JTables.ofC T).UOCCUP_ComptonProfiles_arr = jdyn T.NShells_ComptonProfiles T.UOCCUP_ComptonProfiles := rfl
theorem ofC_pz_ComptonProfiles_arr : (JTables.ofC T).pz_ComptonProfiles_arr = jdyn T.Npz_ComptonProfiles T.pz_ComptonProfiles := rfl
theorem ofC_Total_ComptonProfiles_arr : (JTables.ofC T).Total_ComptonProfiles_arr = jdyn T.Npz_ComptonProfiles T.Total_ComptonProfiles := rfl
theorem ofC_Total_ComptonProfiles_arr2 : (JTables.ofC T).Total_ComptonProfiles_arr2 = jdyn T.Npz_ComptonProfiles T.Total_ComptonProfiles2 := rfl
theorem ofC_Partial_ComptonProfiles_arr : (JTables.ofC T).Partial_ComptonProfiles_arr = jdynC T.NShells_ComptonProfiles T.Npz_ComptonProfiles T.UOCCUP_ComptonProfiles T.Partial_ComptonProfiles := rfl
theorem ofC_Partial_ComptonProfiles_arr2 : (JTables.ofC T).Partial_ComptonProfiles_arr2 = jdynC T.NShells_ComptonProfiles T.Npz_ComptonProfiles T.UOCCUP_ComptonProfiles T.Partial_ComptonProfiles2 := rfl
theorem ofC_Auger_Yields_arr : (JTables.ofC T).Auger_Yields_arr = jflat2 121 9 T.Auger_Yields := rfl
theorem ofC_Auger_Rates_arr : (JTables.ofC T).Auger_Rates_arr = jflat2 121 996 T.Auger_Rates := rfl
end

end Xrl
