import Xrl.Core.Basic
import Xrl.Gen.Tables
/-!
# The data hypotheses of the C19 theorems as executable checks

The theorems of `Xrl/Props/C19*.lean` are stated for every table `T`; some ask for a property of `T` (a count is an `int`, a vector has the
length its count says, the chain of L edges has no gap, …).  Each such property is written here once more as a `Bool` function, generic in
the carrier like the generated code, so that it can be *run* on the tables the library loads (`JDriver.lean`, ops `hyp.*`, Float reading —
only comparisons of table entries with `0` and `1.0e-6` and of integers are made, no arithmetic).  `Xrl/Props/C19f.lean` proves, over the
reals, that `check T Z = true` implies the hypothesis as the theorems state it.
-/
namespace Xrl
namespace JHyp
variable {α : Type} [LT α] [LE α] [OfScientific α] [DecidableLT α] [DecidableLE α]

/-- `p k` for every `k` with `lo ≤ k < hi` -/
def allI (lo hi : Int) (p : Int → Bool) : Bool := (List.range (hi - lo).toNat).all (fun k => p (lo + (k : Int)))

/-- the counts of element `Z` that a theorem asks to be `int`s (`hN…`), `NE_Fii = NE_Fi` (`hEq`, W3) and "no `CS_Energy` data above Z = 92" (`h92`, W9) -/
def counts (T : Tables α) (Z : Int) : Bool :=
  decide (inI32 (T.NE_Photo Z.toNat)) && decide (inI32 (T.NE_Rayl Z.toNat)) && decide (inI32 (T.NE_Compt Z.toNat)) &&
  decide (inI32 (T.NE_Energy Z.toNat)) && decide (inI32 (T.Nq_Rayl Z.toNat)) && decide (inI32 (T.Nq_Compt Z.toNat)) &&
  decide (inI32 (T.NE_Fi Z.toNat)) && decide (inI32 (T.NE_Fii Z.toNat)) && decide (inI32 (T.Npz_ComptonProfiles Z.toNat)) &&
  decide (T.NE_Fii Z.toNat = T.NE_Fi Z.toNat) && (decide (Z ≤ 92) || decide (Z > 120) || decide (T.NE_Energy Z.toNat < 0))

/-- `KVecOk T Z k`: the count is an `int`; where the sub-shell is occupied the two vectors are as long as the count says -/
def kvec (T : Tables α) (Z k : Int) : Bool :=
  decide (inI32 (T.NE_Photo_Partial_Kissel Z.toNat k.toNat)) &&
  (decide (T.Electron_Config_Kissel Z.toNat k.toNat < (1.0e-6 : α)) ||
    (decide ((T.E_Photo_Partial_Kissel Z.toNat k.toNat).len = T.NE_Photo_Partial_Kissel Z.toNat k.toNat) &&
     decide ((T.Photo_Partial_Kissel Z.toNat k.toNat).len = T.NE_Photo_Partial_Kissel Z.toNat k.toNat)))

/-- `KAllOk T Z`: `KVecOk` for each of the 31 sub-shells -/
def kall (T : Tables α) (Z : Int) : Bool := allI 0 31 (fun k => kvec T Z k)

/-- `LGaps T Z`: a missing L2 edge means a missing L1 edge, a missing L3 edge means missing L1 and L2 edges -/
def lgaps (T : Tables α) (Z : Int) : Bool :=
  decide (Z < 1 ∨ Z > 120) ||
  ((!decide (T.EdgeEnergy_arr Z.toNat 2 ≤ (0.0 : α)) || decide (T.EdgeEnergy_arr Z.toNat 1 ≤ (0.0 : α))) &&
   (!decide (T.EdgeEnergy_arr Z.toNat 3 ≤ (0.0 : α)) ||
      (decide (T.EdgeEnergy_arr Z.toNat 1 ≤ (0.0 : α)) && decide (T.EdgeEnergy_arr Z.toNat 2 ≤ (0.0 : α)))))

/-- `hlenU` and `hU` of `ComptonProfile_Partial`: where there are profiles, as many occupation numbers as shells, none negative -/
def uoccup (T : Tables α) (Z : Int) : Bool :=
  (decide (T.NShells_ComptonProfiles Z.toNat ≤ 0) ||
    decide ((T.UOCCUP_ComptonProfiles Z.toNat).len = T.NShells_ComptonProfiles Z.toNat)) &&
  allI 0 (T.NShells_ComptonProfiles Z.toNat) (fun m => decide ((0.0 : α) ≤ (T.UOCCUP_ComptonProfiles Z.toNat).get m.toNat))

/-- the conclusion of `haw` (closed forms, W2): the atomic weight is positive -/
def aw (T : Tables α) (Z : Int) : Bool := decide ((0.0 : α) < T.AtomicWeight_arr Z.toNat)

end JHyp
end Xrl
