import Xrl.JCore.JRel
/-!
# Index arithmetic and reads of the flattened Java arrays; the proof automation of Props/C19
-/
set_option linter.unusedSimpArgs false
namespace Xrl

theorem wrapI_eq {x : Int} (h1 : -2147483648 ≤ x) (h2 : x ≤ 2147483647) : wrapI x = x := by unfold wrapI; omega

/-- `X_arr[Z * N + i]` of a `double X[rows][N]` written row-major is `X[Z][i]` (under the guards of the accessor) -/
theorem jrd_flat2 {β : Type} (name : String) (rows cols : Nat) (f : Nat → Nat → β) (Z i c : Int) (hc : c = cols)
    (hZ0 : 0 ≤ Z) (hZ1 : Z < rows) (hi0 : 0 ≤ i) (hi1 : i < c) :
    jrd name (some (jflat2 rows cols f)) (Z * c + i) = .ok (f Z.toNat i.toNat) := by
  subst hc
  have h1 : 0 ≤ Z * (cols : Int) + i := by positivity
  have h2 : Z * (cols : Int) + i < ((rows * cols : Nat) : Int) := by
    push_cast; nlinarith
  have e : (Z * (cols : Int) + i).toNat = Z.toNat * cols + i.toNat := by
    zify; rw [Int.toNat_of_nonneg h1, Int.toNat_of_nonneg hZ0, Int.toNat_of_nonneg hi0]
  have hi : i.toNat < cols := by omega
  simp only [jrd_some, jflat2, h1, h2, and_self, ↓reduceIte, e]
  congr 2
  · rw [Nat.add_comm, Nat.add_mul_div_right _ _ (by omega), Nat.div_eq_of_lt hi, Nat.zero_add]
  · rw [Nat.add_comm, Nat.add_mul_mod_self_right, Nat.mod_eq_of_lt hi]

theorem jrd_flat2' {β : Type} (name : String) (rows cols : Nat) (f : Nat → Nat → β) (Z i c : Int) (hc : c = cols)
    (hZ0 : 0 ≤ Z) (hZ1 : Z < rows) (hi0 : 0 ≤ i) (hi1 : i < c) :
    jrd name (some (jflat2 rows cols f)) (i + Z * c) = .ok (f Z.toNat i.toNat) := by
  rw [add_comm]; exact jrd_flat2 name rows cols f Z i c hc hZ0 hZ1 hi0 hi1

/-- a read of a one-dimensional array inside its bounds -/
theorem jrd_vec {β : Type} (name : String) (n : Int) (f : Nat → β) (i : Int) (h0 : 0 ≤ i) (h1 : i < n) :
    jrd name (some (⟨n, f⟩ : Vec β)) i = .ok (f i.toNat) := by
  simp only [jrd_some, h0, h1, and_self, ↓reduceIte]

theorem jrd_dyn {β : Type} (name : String) (N : Nat → Int) (E : Nat → Vec β) (i : Int) (h0 : 0 ≤ i) (h1 : i < 121) :
    jrd name (some (jdyn N E)) i = .ok (jvec (N i.toNat) (E i.toNat)) := by
  unfold jdyn; exact jrd_vec name _ _ i h0 h1

theorem rd1_ok {β : Type} (name : String) (n : Nat) (f : Nat → β) (i : Int) (h0 : 0 ≤ i) (h1 : i < n) :
    rd1 name n f i = .ok (f i.toNat) := by
  simp only [rd1, h0, h1, and_self, ↓reduceIte]; rfl

theorem rd2_ok {β : Type} (name : String) (n m : Nat) (f : Nat → Nat → β) (i j : Int) (h0 : 0 ≤ i) (h1 : i < n) (h2 : 0 ≤ j) (h3 : j < m) :
    rd2 name n m f i j = .ok (f i.toNat j.toNat) := by
  simp only [rd2, h0, h1, h2, h3, and_self, ↓reduceIte]; rfl

theorem rd3_ok {β : Type} (name : String) (n m l : Nat) (f : Nat → Nat → Nat → β) (i j k : Int) (h0 : 0 ≤ i) (h1 : i < n) (h2 : 0 ≤ j) (h3 : j < m)
    (h4 : 0 ≤ k) (h5 : k < l) : rd3 name n m l f i j k = .ok (f i.toNat j.toNat k.toNat) := by
  simp only [rd3, h0, h1, h2, h3, h4, h5, and_self, ↓reduceIte]; rfl

theorem chkI_ok (w : String) (x : Int) (h1 : -2147483648 ≤ x) (h2 : x ≤ 2147483647) : chkI w x = .ok x := by
  unfold chkI inI32 INT_MIN INT_MAX; simp only [h1, h2, and_self, ↓reduceIte]; rfl

theorem jrd_dynK {β : Type} (name : String) (N : Nat → Nat → Int) (E : Nat → Nat → Vec β) (i : Int) (h0 : 0 ≤ i) (h1 : i < 121) :
    jrd name (some (jdynK N E)) i = .ok (some ⟨31, fun j => jvec (N i.toNat j) (E i.toNat j)⟩) := by
  unfold jdynK; exact jrd_vec name _ _ i h0 h1

theorem jrd_jvec {β : Type} (name : String) (n : Int) (v : Vec β) (i : Int) :
    jrd name (jvec n v) i = if n ≤ 0 then Except.error (.npe name) else if 0 ≤ i ∧ i < n then Except.ok (v.get i.toNat) else Except.error (.aioobe name) := by
  unfold jvec; split_ifs <;> simp_all [jrd]

theorem rdv_def {β : Type} (name : String) (v : Vec β) (k : Int) :
    rdv name v k = if 0 ≤ k ∧ k < v.len then Except.ok (v.get k.toNat) else Except.error (.ub ("oob " ++ name)) := rfl


/-! checked double operations over ℝ, both sides in the same `if` form -/
theorem jdiv_real (a b : ℝ) : jdiv a b = if b = 0 then Except.error (.nf "div0") else Except.ok (a / b) := by
  unfold jdiv; simp only [deq_real]; norm_num
theorem ddiv_real (a b : ℝ) : ddiv a b = if b = 0 then Except.error (.nf "div0") else Except.ok (a / b) := by
  unfold ddiv; simp only [deq_real]; norm_num
theorem jlog_real (a : ℝ) : jlog a = if a ≤ 0 then Except.error (.nf "log") else Except.ok (Real.log a) := by
  unfold jlog; norm_num; rfl
theorem dlog_real (a : ℝ) : dlog a = if a ≤ 0 then Except.error (.nf "log") else Except.ok (Real.log a) := by
  unfold dlog; norm_num; rfl

theorem ofInt_real (n : Int) : (XNum.ofInt n : ℝ) = (n : ℝ) := rfl
theorem ofInt_le_zero (n : Int) : ((XNum.ofInt n : ℝ) ≤ 0.0) ↔ n ≤ 0 := by
  rw [ofInt_real]; norm_num
theorem ofInt_lt_zero (n : Int) : ((XNum.ofInt n : ℝ) < 0.0) ↔ n < 0 := by
  rw [ofInt_real]; norm_num
theorem ofInt_le_zero' (n : Int) : ((XNum.ofInt n : ℝ) ≤ 0) ↔ n ≤ 0 := by
  rw [ofInt_real]; norm_num
theorem ofInt_lt_zero' (n : Int) : ((XNum.ofInt n : ℝ) < 0) ↔ n < 0 := by
  rw [ofInt_real]; norm_num
theorem zero_lit : (0.0 : ℝ) = 0 := by norm_num

theorem propagateErr_full {s : Slot} (h : s.isFull = false) (e : Err) : propagateErr s (Slot.full e) = Except.ok (s.withErr e) := by
  cases s <;> simp_all [Slot.isFull, Slot.withErr, propagateErr] <;> rfl
@[simp] theorem withErr_empty (e : Err) : Slot.empty.withErr e = Slot.full e := rfl
@[simp] theorem isFull_full (e : Err) : (Slot.full e).isFull = true := rfl
@[simp] theorem isFull_empty : Slot.empty.isFull = false := rfl
@[simp] theorem isFull_null : Slot.null.isFull = false := rfl
@[simp] theorem withErr_null (e : Err) : Slot.null.withErr e = Slot.null := rfl
theorem kev_lit : (12.39841930 : ℝ) = 12.3984193 := by norm_num

theorem kev_ne : (12.3984193 : ℝ) ≠ 0 := by norm_num
theorem avog_ne : (0.602214129 : ℝ) ≠ 0 := by norm_num
theorem mec2_ne : (510.998928 : ℝ) ≠ 0 := by norm_num

theorem ite_okJ {β : Type} (c : Prop) [Decidable c] (a b : β) :
    (if c then (Except.ok a : JM β) else Except.ok b) = Except.ok (if c then a else b) := by split_ifs <;> rfl
theorem ite_addJ (c : Prop) [Decidable c] (a x : ℝ) :
    (if c then (Except.ok (a + x) : JM ℝ) else Except.ok a) = Except.ok (a + if c then x else 0) := by split_ifs <;> simp
theorem ite_addC (c : Prop) [Decidable c] (a x : ℝ) :
    (if c then (Except.ok (a + x) : M ℝ) else Except.ok a) = Except.ok (a + if c then x else 0) := by split_ifs <;> simp
theorem ite_okC {β : Type} (c : Prop) [Decidable c] (a b : β) :
    (if c then (Except.ok a : M β) else Except.ok b) = Except.ok (if c then a else b) := by split_ifs <;> rfl

/-- `X[36 * Z + 4 * j + k]` of a `double X[121][9][4]` written row-major is `X[Z][j][k]` -/
theorem jrd_flat3 {β : Type} (name : String) (f : Nat → Nat → Nat → β) (Z j k : Int)
    (hZ0 : 0 ≤ Z) (hZ1 : Z < 121) (hj0 : 0 ≤ j) (hj1 : j < 9) (hk0 : 0 ≤ k) (hk1 : k < 4) :
    jrd name (some (jflat3 121 9 4 f)) (36 * Z + 4 * j + k) = .ok (f Z.toNat j.toNat k.toNat) := by
  have h1 : 0 ≤ 36 * Z + 4 * j + k ∧ 36 * Z + 4 * j + k < ((121 * 9 * 4 : Nat) : Int) := by omega
  have e1 : (36 * Z + 4 * j + k).toNat / (9 * 4) = Z.toNat := by omega
  have e2 : (36 * Z + 4 * j + k).toNat / 4 % 9 = j.toNat := by omega
  have e3 : (36 * Z + 4 * j + k).toNat % 4 = k.toNat := by omega
  simp only [jrd_some, jflat3, h1, and_self, ↓reduceIte, e1, e2, e3]

theorem JRel.value_eq {x y : ℝ} {s : Slot} (h : x = y) : JRel (.ok x) (.ok (y, s)) s := h ▸ JRel.value

/-- a Java outcome that, when it is a value, is a positive one (what the `== 0.0` failure tests of the C callers rely on) -/
def JPos (j : JM ℝ) : Prop := ∀ v, j = Except.ok v → 0 < v
theorem JPos.error {e : JStop} : JPos (Except.error e) := fun _ h => by cases h
theorem JPos.exp {y : ℝ} : JPos (Except.ok (XNum.exp y)) := fun _ h => by cases h; exact Real.exp_pos y
theorem JPos.of_pos {y : ℝ} (h : 0 < y) : JPos (Except.ok y) := fun _ h' => by cases h'; exact h
theorem JPos.ne {j : JM ℝ} {v : ℝ} (h : JPos j) (hv : j = Except.ok v) : v ≠ 0 := (h v hv).ne'

theorem JPos.bind {β : Type} {m : JM β} {f : β → JM ℝ} (h : ∀ a, JPos (f a)) : JPos (m >>= f) := by
  cases m with
  | error e => exact JPos.error
  | ok a => exact h a
theorem JPos.ite {c : Prop} [Decidable c] {a b : JM ℝ} (ha : JPos a) (hb : JPos b) : JPos (if c then a else b) := by
  split_ifs <;> assumption

theorem JPos.throw {e : JStop} : JPos (throw e : JM ℝ) := JPos.error
theorem JPos.pure_exp {y : ℝ} : JPos (pure (XNum.exp y) : JM ℝ) := JPos.exp

/-- positivity by the shape of the Java definition alone: whatever the reads and calls return, a value is `exp` of something -/
macro "jpos_struct" : tactic =>
  `(tactic| repeat' (first
      | with_reducible exact JPos.error | with_reducible exact JPos.exp | with_reducible exact JPos.throw | with_reducible exact JPos.pure_exp
      | (with_reducible apply JPos.bind; intro _)
      | with_reducible apply JPos.ite))

/-- the simp set that evaluates both generated definitions one step; side conditions go to `omega` -/
macro "jeq_simp" : tactic =>
  `(tactic| first
    | simp (disch := omega) only [*, wrapI_eq, jrd_flat2, jrd_flat2', jrd_flat3, jrd_vec, jrd_dyn, rd1_ok, rd2_ok, rd3_ok, chkI_ok, ↓reduceIte,
      not_true_eq_false, not_false_eq_true, bind_ok, bind_error, pure_eq_ok, throw_eq_error, jbind_ok, jbind_error, jpure_eq_ok,
      jthrow_eq_error, jtry_ok, jtry_iae, jtry_nf, decide_eq_true_eq, deq_real, jdiv_real, ddiv_real, jlog_real, dlog_real, ofInt_le_zero, ofInt_lt_zero, ofInt_le_zero', ofInt_lt_zero', zero_lit, eq_self_iff_true, ne_eq, withErr_empty, isFull_full, isFull_empty, isFull_null, withErr_null, kev_lit, kev_ne, avog_ne, mec2_ne, Bool.false_eq_true, propagateErr_full, setErr_null, setErr_empty, lt_self_iff_false, and_false, false_and, or_false, false_or, and_true, true_and, Int.reduceGT, Int.reduceLT, Int.reduceLE, Int.reduceGE, Int.reduceEq, Int.reduceNe, setErr_notFull (by assumption)]
    | simp (disch := omega) only [*, wrapI_eq, jrd_flat2, jrd_flat2', jrd_flat3, jrd_vec, jrd_dyn, rd1_ok, rd2_ok, rd3_ok, chkI_ok, ↓reduceIte,
      not_true_eq_false, not_false_eq_true, bind_ok, bind_error, pure_eq_ok, throw_eq_error, jbind_ok, jbind_error, jpure_eq_ok,
      jthrow_eq_error, jtry_ok, jtry_iae, jtry_nf, decide_eq_true_eq, deq_real, jdiv_real, ddiv_real, jlog_real, dlog_real, ofInt_le_zero, ofInt_lt_zero, ofInt_le_zero', ofInt_lt_zero', zero_lit, eq_self_iff_true, ne_eq, withErr_empty, isFull_full, isFull_empty, isFull_null, withErr_null, kev_lit, kev_ne, avog_ne, mec2_ne, Bool.false_eq_true, propagateErr_full, setErr_null, setErr_empty, lt_self_iff_false, and_false, false_and, or_false, false_or, and_true, true_and, Int.reduceGT, Int.reduceLT, Int.reduceLE, Int.reduceGE, Int.reduceEq, Int.reduceNe])

/-- close a leaf -/
macro "jeq_leaf" : tactic =>
  `(tactic| first
    | with_reducible exact JRel.fail' | with_reducible exact JRel.fail | with_reducible exact JRel.fail_e | with_reducible exact JRel.value | with_reducible exact JRel.ub | with_reducible exact JRel.nf
    | omega
    | (simp only [wrapI] at *; omega)
    | (exfalso; linarith)
    | (exfalso; exact absurd (le_antisymm (by assumption) (by assumption)) (by assumption))
    | ((with_reducible apply JRel.value_eq) <;> first | ring1 | norm_num | (norm_num; ring) | (field_simp; ring) | (simp_all; done)))

/-- positivity of a Java result: split the guards of the Java definition, close the leaves -/
macro "jpos_auto" : tactic =>
  `(tactic| (
    (try jeq_simp)
    repeat' (first
      | with_reducible exact JPos.error | with_reducible exact JPos.exp | ((with_reducible apply JPos.of_pos) <;> first | assumption | positivity | linarith)
      | (split_ifs <;> (try jeq_simp)))))

/-- for straight-line code whose calls have all been resolved: push the remaining `if`s into the values instead of splitting on them
(`n` sequential `if (P > 0.0) rv += …` would otherwise give `2^n` cases) -/
macro "jeq_pure" : tactic =>
  `(tactic| simp (maxSteps := 2000000) (disch := omega) only [*, wrapI_eq, jrd_flat3, rd3_ok, bind_ok, jbind_ok, pure_eq_ok, jpure_eq_ok, ite_addJ, ite_addC, zero_lit, deq_real, ↓reduceIte])

/-- alternate between closing leaves and splitting the guards of the two generated definitions -/
macro "jeq_auto" : tactic =>
  `(tactic| (
    (try jeq_simp)
    repeat' (first
      | jeq_leaf
      | (split_ifs <;> (try jeq_simp)))))

/-- use the theorem `h : JRel (callee in Java) (callee in C) s` of a callee inside a caller: the three cases in which the callee does
not return a value are closed at once (the caller's remaining calls are not reached), the goal that is left is the case
`callee = value` on both sides, with the two equations in the context (`jeq_simp` rewrites with them). -/
macro "jeq_use" h:term : tactic =>
  `(tactic| (rcases (JRel.cases $h) with ⟨v, hc, hj⟩ | ⟨e, hc, hj⟩ | ⟨a, b, hc, hj⟩ | ⟨a, hc⟩ <;> [skip; (jeq_auto; done); (jeq_auto; done); (jeq_auto; done)]))

/-- the same when the C caller tests the callee's value against 0: `p : JPos (callee in Java)` adds `value ≠ 0` -/
macro "jeq_use_pos" h:term "," p:term : tactic =>
  `(tactic| (rcases (JRel.cases $h) with ⟨v, hc, hj⟩ | ⟨e, hc, hj⟩ | ⟨a, b, hc, hj⟩ | ⟨a, hc⟩ <;>
      [(have hne := JPos.ne $p hj); (jeq_auto; done); (jeq_auto; done); (jeq_auto; done)]))

/-! ## loops with literal bounds -/
theorem loopM_3 {σ : Type} (init : σ) (body : Int → σ → M σ) :
    loopM 0 3 init body = (body 0 init >>= fun s1 => body 1 s1 >>= fun s2 => body 2 s2 >>= fun s3 => pure s3) := by
  show List.foldlM _ init (List.range 3) = _
  simp only [List.range_succ, List.range_zero, List.nil_append, List.cons_append, List.foldlM_cons, List.foldlM_nil]
  simp only [Int.ofNat_zero, Int.ofNat_one, zero_add, Nat.cast_zero, Nat.cast_one, Nat.cast_ofNat, Nat.cast_add]
theorem jloopM_3 {σ : Type} (init : σ) (body : Int → σ → JM σ) :
    jloopM 0 3 init body = (body 0 init >>= fun s1 => body 1 s1 >>= fun s2 => body 2 s2 >>= fun s3 => pure s3) := by
  show List.foldlM _ init (List.range 3) = _
  simp only [List.range_succ, List.range_zero, List.nil_append, List.cons_append, List.foldlM_cons, List.foldlM_nil]
  simp only [Int.ofNat_zero, Int.ofNat_one, zero_add, Nat.cast_zero, Nat.cast_one, Nat.cast_ofNat, Nat.cast_add]

/-! ## `X_catch`: `try { return X(…); } catch (IllegalArgumentException e) { return 0.0; }` against the C idiom `X(…, NULL)` -/

/-- the value-or-zero reading of a call: C passes `NULL` and uses the returned number (0 on failure), Java catches and returns 0 -/
def JCatchRel (j : JM ℝ) (c : M (ℝ × Slot)) : Prop :=
  match c with
  | .ok (v, s') => s' = Slot.null ∧ j = .ok v
  | .error a => JStopRel j a

theorem JCatchRel.of_rel {j : JM ℝ} {c : M (ℝ × Slot)} (h : JRel j c Slot.null) :
    JCatchRel (jtry (do let r ← j; pure r) (pure (0.0 : ℝ))) c := by
  rcases h.cases with ⟨v, hc, hj⟩ | ⟨e, hc, hj⟩ | ⟨a, b, hc, hj⟩ | ⟨a, hc⟩
  · subst hc hj; exact ⟨rfl, rfl⟩
  · subst hc hj; refine ⟨rfl, ?_⟩
    show Except.ok (0.0 : ℝ) = Except.ok 0
    norm_num
  · subst hc hj; exact ⟨b, rfl⟩
  · subst hc; trivial

theorem JCatchRel.cases {j : JM ℝ} {c : M (ℝ × Slot)} (h : JCatchRel j c) :
    (∃ v, c = .ok (v, Slot.null) ∧ j = .ok v) ∨ (∃ a b, c = .error (.nf a) ∧ j = .error (.nf b)) ∨ (∃ a, c = .error (.ub a)) := by
  unfold JCatchRel at h
  split at h
  · obtain ⟨h1, h2⟩ := h; subst h1; exact Or.inl ⟨_, rfl, h2⟩
  · rename_i a
    cases a with
    | nf w => obtain ⟨w', h⟩ := h; exact Or.inr (Or.inl ⟨_, w', rfl, h⟩)
    | ub w => exact Or.inr (Or.inr ⟨_, rfl⟩)
    | overwrite => exact h.elim
    | fuel => exact h.elim

/-- use a `JCatchRel` fact inside a caller: the stop cases are closed at once, the case left has the two equations in the context -/
macro "jeq_use_catch" h:term : tactic =>
  `(tactic| (rcases (JCatchRel.cases $h) with ⟨v, hc, hj⟩ | ⟨a, b, hc, hj⟩ | ⟨a, hc⟩ <;> [skip; (jeq_auto; done); (jeq_auto; done)]))

/-! ## the weak relation: any Java exception where C fails -/
theorem JRelW.value {v : ℝ} {s : Slot} : JRelW (.ok v) (.ok (v, s)) s := Or.inl ⟨rfl, rfl⟩
theorem JRelW.fail {s : Slot} {c : ErrCode} {m : String} {x : JStop} (hx : x.isExc = true) :
    JRelW (.error x) (.ok ((0 : ℝ), s.withErr ⟨c, m⟩)) s := Or.inr ⟨⟨c, m⟩, rfl, rfl, x, hx, rfl⟩
theorem JRelW.ub {j : JM ℝ} {b : String} {s : Slot} : JRelW j (.error (.ub b)) s := trivial

macro "jeqw_leaf" : tactic =>
  `(tactic| first
    | with_reducible exact JRelW.value | with_reducible exact JRelW.ub | (exact JRelW.fail rfl)
    | omega
    | (simp only [wrapI] at *; omega)
    | (exfalso; linarith))

macro "jeqw_auto" : tactic =>
  `(tactic| (
    (try jeq_simp)
    repeat' (first
      | jeqw_leaf
      | (split_ifs <;> (try jeq_simp)))))

/-! ## `f = Jump(...); if (f == 0.0) throw …; rest` : factor the guard out of the continuation -/
theorem guard_bind {β : Type} (J : JM ℝ) (e : JStop) (k : ℝ → JM β) :
    (J >>= fun f => if f = 0 then Except.error e else k f) =
    ((J >>= fun f => if f = 0 then Except.error e else Except.ok f) >>= fun f => if f = 0 then Except.error e else k f) := by
  cases J with
  | error x => rfl
  | ok v =>
    by_cases h : v = 0
    · simp only [jbind_ok, h, ↓reduceIte, jbind_error]
    · simp only [jbind_ok, h, ↓reduceIte]
theorem guard_ne {J : JM ℝ} {e : JStop} {v : ℝ} (h : (J >>= fun f => if f = 0 then Except.error e else Except.ok f) = Except.ok v) : v ≠ 0 := by
  cases J with
  | error x => cases h
  | ok w =>
    by_cases hw : w = 0
    · simp only [jbind_ok, hw, ↓reduceIte] at h; cases h
    · simp only [jbind_ok, hw, ↓reduceIte] at h; cases h; exact hw

/-- a Java outcome that, when it is a value, is not 0 -/
def JNz (j : JM ℝ) : Prop := ∀ v, j = Except.ok v → v ≠ 0
theorem JNz.error {e : JStop} : JNz (Except.error e) := fun _ h => by cases h
theorem JNz.of_ne {y : ℝ} (h : y ≠ 0) : JNz (Except.ok y) := fun _ h' => by cases h'; exact h
theorem JNz.ne {j : JM ℝ} {v : ℝ} (h : JNz j) (hv : j = Except.ok v) : v ≠ 0 := h v hv
theorem JPos.toNz {j : JM ℝ} (h : JPos j) : JNz j := fun v hv => (h v hv).ne'

macro "jnz_auto" : tactic =>
  `(tactic| (
    (try jeq_simp)
    repeat' (first
      | with_reducible exact JNz.error
      | ((with_reducible apply JNz.of_ne) <;> first | assumption | (intro h; linarith) | (intro h; apply_assumption; linarith) | (intro h; simp_all; done))
      | omega
      | (simp only [wrapI] at *; omega)
      | (split_ifs <;> (try jeq_simp)))))

/-- `Jump_catch` (value or 0) from the relation of the guarded jump function at the `NULL` slot: C's jump functions report a vanishing
share as an error (and return 0), Java's return the 0 — with `NULL` and `catch` both callers see 0 -/
theorem JCatchRel.of_guard {J : JM ℝ} {c : M (ℝ × Slot)} {m : String}
    (h : JRelI (J >>= fun f => if f = 0 then Except.error (.iae m) else Except.ok f) c Slot.null) :
    JCatchRel (jtry (do let r ← J; pure r) (pure (0.0 : ℝ))) c := by
  have z : (0.0 : ℝ) = 0 := by norm_num
  cases J with
  | error x =>
    simp only [jbind_error] at h
    rcases h.cases with ⟨v, hc, hj⟩ | ⟨e, x', hc, hj⟩ | ⟨a, b, hc, hj⟩ | ⟨a, hc⟩
    · cases hj
    · cases hj; subst hc; exact ⟨rfl, by show Except.ok (0.0 : ℝ) = Except.ok 0; rw [z]⟩
    · cases hj; subst hc; exact ⟨b, rfl⟩
    · subst hc; trivial
  | ok w =>
    by_cases hw : w = 0
    · subst hw
      simp only [jbind_ok, ↓reduceIte] at h
      rcases h.cases with ⟨v, hc, hj⟩ | ⟨e, x', hc, hj⟩ | ⟨a, b, hc, hj⟩ | ⟨a, hc⟩
      · cases hj
      · subst hc; exact ⟨rfl, rfl⟩
      · cases hj
      · subst hc; trivial
    · simp only [jbind_ok, hw, ↓reduceIte] at h
      rcases h.cases with ⟨v, hc, hj⟩ | ⟨e, x', hc, hj⟩ | ⟨a, b, hc, hj⟩ | ⟨a, hc⟩
      · cases hj; subst hc; exact ⟨rfl, rfl⟩
      · cases hj
      · cases hj
      · subst hc; trivial

theorem JRelI.value_eq {x y : ℝ} {s : Slot} (h : x = y) : JRelI (.ok x) (.ok (y, s)) s := h ▸ JRelI.value

/-- a Java computation that cannot end with a value (every path ends in a `throw`) -/
def JNoVal {β : Type} (j : JM β) : Prop := ∀ v, j ≠ Except.ok v
theorem JNoVal.error {β : Type} {e : JStop} : JNoVal (Except.error e : JM β) := fun _ h => by cases h
theorem JNoVal.bind {β γ : Type} {m : JM β} {f : β → JM γ} (h : ∀ a, JNoVal (f a)) : JNoVal (m >>= f) := by
  cases m with
  | error e => exact JNoVal.error
  | ok a => exact h a
theorem JNoVal.ite {β : Type} {c : Prop} [Decidable c] {a b : JM β} (ha : JNoVal a) (hb : JNoVal b) : JNoVal (if c then a else b) := by
  split_ifs <;> assumption
macro "jnoval_struct" : tactic =>
  `(tactic| repeat' (first
      | with_reducible exact JNoVal.error
      | (with_reducible apply JNoVal.bind; intro _)
      | with_reducible apply JNoVal.ite))

theorem jbind_ret {β : Type} (m : JM β) : (m >>= fun t => Except.ok t) = m := by cases m <;> rfl
theorem bind_ret {β : Type} (m : M β) : (m >>= fun t => Except.ok t) = m := by cases m <;> rfl

theorem ite_bindJ {β γ : Type} (c : Prop) [Decidable c] (a b : JM β) (f : β → JM γ) :
    ((if c then a else b) >>= f) = if c then a >>= f else b >>= f := by split_ifs <;> rfl
theorem ite_bindC {β γ : Type} (c : Prop) [Decidable c] (a b : M β) (f : β → M γ) :
    ((if c then a else b) >>= f) = if c then a >>= f else b >>= f := by split_ifs <;> rfl

/-- `if (a && b) hit; else rest` as the C translation renders the short-circuit (`rest` duplicated) -/
theorem ite_and_decide {β : Type} (a b : Prop) [Decidable a] [Decidable b] (x y : β) :
    (if a then (if decide b = true then x else y) else y) = if a ∧ b then x else y := by
  by_cases ha : a <;> by_cases hb : b <;> simp [ha, hb]

/-- the C translation of `a && b` with an effectful right operand, once the operand has been evaluated -/
theorem c_short_and {β : Type} (a b : Prop) [Decidable a] [Decidable b] (f : Bool → M β) :
    ((if a then (Except.ok (decide b) : M Bool) else Except.ok false) >>= f) = f (decide (a ∧ b)) := by
  by_cases ha : a <;> by_cases hb : b <;> simp [ha, hb]

/-! ## loops: related bodies give related loops (no unrolling) -/

/-- one state-transforming step on both sides: the same new state, or both models stop, or the C side has undefined behaviour -/
def StepRel {σ : Type} (j : JM σ) (c : M σ) : Prop :=
  (∃ st, j = Except.ok st ∧ c = Except.ok st) ∨ (∃ a b, c = Except.error (.nf a) ∧ j = Except.error (.nf b)) ∨ (∃ a, c = Except.error (.ub a))

theorem StepRel.ok {σ : Type} {st : σ} : StepRel (Except.ok st : JM σ) (Except.ok st) := Or.inl ⟨st, rfl, rfl⟩
theorem StepRel.ok_eq {σ : Type} {a b : σ} (h : a = b) : StepRel (Except.ok a : JM σ) (Except.ok b) := h ▸ StepRel.ok
theorem StepRel.nf {σ : Type} {a b : String} : StepRel (Except.error (.nf b) : JM σ) (Except.error (.nf a)) := Or.inr (Or.inl ⟨a, b, rfl, rfl⟩)
theorem StepRel.ub {σ : Type} {j : JM σ} {a : String} : StepRel j (Except.error (.ub a)) := Or.inr (Or.inr ⟨a, rfl⟩)

theorem foldl_rel {σ : Type} (P : σ → Prop) (bj : Nat → σ → JM σ) (bc : Nat → σ → M σ) :
    ∀ (l : List Nat) (init : σ), P init →
      (∀ k ∈ l, ∀ st, P st → StepRel (bj k st) (bc k st) ∧ ∀ st', bj k st = Except.ok st' → P st') →
      (∃ st, l.foldlM (fun s k => bj k s) init = Except.ok st ∧ l.foldlM (fun s k => bc k s) init = Except.ok st ∧ P st) ∨
      (∃ a b, l.foldlM (fun s k => bc k s) init = Except.error (.nf a) ∧ l.foldlM (fun s k => bj k s) init = Except.error (.nf b)) ∨
      (∃ a, l.foldlM (fun s k => bc k s) init = Except.error (.ub a)) := by
  intro l
  induction l with
  | nil => intro init hP _; exact Or.inl ⟨init, rfl, rfl, hP⟩
  | cons k ks ih =>
    intro init hP hstep
    obtain ⟨hr, hp⟩ := hstep k (List.mem_cons_self) init hP
    rcases hr with ⟨st, hj, hc⟩ | ⟨a, b, hc, hj⟩ | ⟨a, hc⟩
    · have := ih st (hp st hj) (fun k' hk' => hstep k' (List.mem_cons_of_mem _ hk'))
      simp only [List.foldlM_cons, hj, hc, jbind_ok, bind_ok]
      exact this
    · refine Or.inr (Or.inl ⟨a, b, ?_, ?_⟩)
      · simp only [List.foldlM_cons, hc, bind_error]
      · simp only [List.foldlM_cons, hj, jbind_error]
    · refine Or.inr (Or.inr ⟨a, ?_⟩)
      simp only [List.foldlM_cons, hc, bind_error]

/-- `for (i = lo; i < hi; i++)` on both sides with related bodies and an invariant `P` of the state -/
theorem loop_rel {σ : Type} (P : σ → Prop) (lo hi : Int) (init : σ) (bj : Int → σ → JM σ) (bc : Int → σ → M σ) (hP : P init)
    (hstep : ∀ i st, lo ≤ i → i < hi → P st → StepRel (bj i st) (bc i st) ∧ ∀ st', bj i st = Except.ok st' → P st') :
    (∃ st, jloopM lo hi init bj = Except.ok st ∧ loopM lo hi init bc = Except.ok st ∧ P st) ∨
    (∃ a b, loopM lo hi init bc = Except.error (.nf a) ∧ jloopM lo hi init bj = Except.error (.nf b)) ∨
    (∃ a, loopM lo hi init bc = Except.error (.ub a)) := by
  unfold jloopM loopM
  apply foldl_rel P (fun k st => bj (lo + (k : Int)) st) (fun k st => bc (lo + (k : Int)) st) _ init hP
  intro k hk st hst
  have hk' : k < (hi - lo).toNat := List.mem_range.mp hk
  exact hstep (lo + k) st (by omega) (by omega) hst

/-- a loop followed by the rest of the function, on both sides -/
theorem JRel.loop_then {σ : Type} (P : σ → Prop) {lo hi : Int} {init : σ} {bj : Int → σ → JM σ} {bc : Int → σ → M σ}
    {kj : σ → JM ℝ} {kc : σ → M (ℝ × Slot)} {s : Slot} (hP : P init)
    (hstep : ∀ i st, lo ≤ i → i < hi → P st → StepRel (bj i st) (bc i st) ∧ ∀ st', bj i st = Except.ok st' → P st')
    (hk : ∀ st, P st → JRel (kj st) (kc st) s) :
    JRel (jloopM lo hi init bj >>= kj) (loopM lo hi init bc >>= kc) s := by
  rcases loop_rel P lo hi init bj bc hP hstep with ⟨st, hj, hc, hp⟩ | ⟨a, b, hc, hj⟩ | ⟨a, hc⟩
  · rw [hj, hc]; exact hk st hp
  · rw [hj, hc]; exact JRel.nf
  · rw [hc]; exact JRel.ub
theorem JRelI.loop_then {σ : Type} (P : σ → Prop) {lo hi : Int} {init : σ} {bj : Int → σ → JM σ} {bc : Int → σ → M σ}
    {kj : σ → JM ℝ} {kc : σ → M (ℝ × Slot)} {s : Slot} (hP : P init)
    (hstep : ∀ i st, lo ≤ i → i < hi → P st → StepRel (bj i st) (bc i st) ∧ ∀ st', bj i st = Except.ok st' → P st')
    (hk : ∀ st, P st → JRelI (kj st) (kc st) s) :
    JRelI (jloopM lo hi init bj >>= kj) (loopM lo hi init bc >>= kc) s := by
  rcases loop_rel P lo hi init bj bc hP hstep with ⟨st, hj, hc, hp⟩ | ⟨a, b, hc, hj⟩ | ⟨a, hc⟩
  · rw [hj, hc]; exact hk st hp
  · rw [hj, hc]; exact JRelI.nf
  · rw [hc]; exact JRelI.ub

/-- a Java computation that ends with a value or an `IllegalArgumentException` — i.e. neither a stop of the model at a non-finite double
operation (`JStop.nf`: the real Java goes on with Infinity/NaN, so nothing can be said about what follows a `try { } catch` around it)
nor an `ArrayIndexOutOfBounds`/`NullPointerException` (which `catch (IllegalArgumentException e)` does not catch) -/
def JTame {β : Type} (j : JM β) : Prop := (∃ v, j = Except.ok v) ∨ (∃ m, j = Except.error (.iae m))
theorem JTame.ok {β : Type} {a : β} : JTame (Except.ok a : JM β) := Or.inl ⟨a, rfl⟩
theorem JTame.pure {β : Type} {a : β} : JTame (Pure.pure a : JM β) := Or.inl ⟨a, rfl⟩
theorem JTame.iae {β : Type} {m : String} : JTame (Except.error (.iae m) : JM β) := Or.inr ⟨m, rfl⟩
theorem JTame.throw_iae {β : Type} {m : String} : JTame (throw (JStop.iae m) : JM β) := Or.inr ⟨m, rfl⟩
theorem JTame.bind {β γ : Type} {m : JM β} {f : β → JM γ} (hm : JTame m) (h : ∀ a, JTame (f a)) : JTame (m >>= f) := by
  rcases hm with ⟨v, hv⟩ | ⟨x, hx⟩
  · subst hv; exact h v
  · subst hx; exact Or.inr ⟨x, rfl⟩
theorem JTame.ite {β : Type} {c : Prop} [Decidable c] {a b : JM β} (ha : JTame a) (hb : JTame b) : JTame (if c then a else b) := by
  split_ifs <;> assumption
theorem JTame.of_eq_ok {β : Type} {j : JM β} {v : β} (h : j = Except.ok v) : JTame j := h ▸ JTame.ok
/-- `try { x = f(); } catch (IllegalArgumentException e) { }` around a tame call always yields a value -/
theorem JTame.jtry_val {j : JM ℝ} {d : ℝ} (h : JTame j) : ∃ v, jtry (do let r ← j; Pure.pure r) (Pure.pure d) = Except.ok v := by
  rcases h with ⟨v, hv⟩ | ⟨x, hx⟩
  · subst hv; exact ⟨v, rfl⟩
  · subst hx; exact ⟨d, rfl⟩

/-! ## automation for the intermediate relation `JRelI` -/
macro "jeqi_leaf" : tactic =>
  `(tactic| first
    | with_reducible exact JRelI.value | with_reducible exact JRelI.fail | with_reducible exact JRelI.fail_e | with_reducible exact JRelI.ub
    | with_reducible exact JRelI.nf
    | ((with_reducible apply JRelI.value_eq) <;> first | ring1 | norm_num | (norm_num; ring) | (field_simp; ring) | (simp_all; done))
    | omega
    | (simp only [wrapI] at *; omega)
    | (exfalso; linarith)
    | (exfalso; exact absurd (le_antisymm (by assumption) (by assumption)) (by assumption)))

macro "jeqi_auto" : tactic =>
  `(tactic| (
    (try jeq_simp)
    repeat' (first
      | jeqi_leaf
      | (split_ifs <;> (try jeq_simp)))))

/-- use a callee's `JRelI` fact (or `h.toI` of a `JRel` fact) inside a caller proved in `JRelI` -/
macro "jeqi_use" h:term : tactic =>
  `(tactic| (rcases (JRelI.cases $h) with ⟨v, hc, hj⟩ | ⟨e, m, hc, hj⟩ | ⟨a, b, hc, hj⟩ | ⟨a, hc⟩ <;> [skip; (jeqi_auto; done); (jeqi_auto; done); (jeqi_auto; done)]))
macro "jeqi_use_pos" h:term "," p:term : tactic =>
  `(tactic| (rcases (JRelI.cases $h) with ⟨v, hc, hj⟩ | ⟨e, m, hc, hj⟩ | ⟨a, b, hc, hj⟩ | ⟨a, hc⟩ <;>
      [(have hne := JPos.ne $p hj); (jeqi_auto; done); (jeqi_auto; done); (jeqi_auto; done)]))

macro "jeqi_use_catch" h:term : tactic =>
  `(tactic| (rcases (JCatchRel.cases $h) with ⟨v, hc, hj⟩ | ⟨a, b, hc, hj⟩ | ⟨a, hc⟩ <;> [skip; (jeqi_auto; done); (jeqi_auto; done)]))
macro "jeqi_use_nz" h:term "," p:term : tactic =>
  `(tactic| (rcases (JRelI.cases $h) with ⟨v, hc, hj⟩ | ⟨e, m, hc, hj⟩ | ⟨a, b, hc, hj⟩ | ⟨a, hc⟩ <;>
      [(have hne := JNz.ne $p hj); (jeqi_auto; done); (jeqi_auto; done); (jeqi_auto; done)]))

/-- `X_catch` from a `JRelI` fact at the `NULL` slot -/
theorem JCatchRel.of_relI {j : JM ℝ} {c : M (ℝ × Slot)} (h : JRelI j c Slot.null) :
    JCatchRel (jtry (do let r ← j; pure r) (pure (0.0 : ℝ))) c := by
  rcases h.cases with ⟨v, hc, hj⟩ | ⟨e, m, hc, hj⟩ | ⟨a, b, hc, hj⟩ | ⟨a, hc⟩
  · subst hc hj; exact ⟨rfl, rfl⟩
  · subst hc hj; refine ⟨rfl, ?_⟩
    show Except.ok (0.0 : ℝ) = Except.ok 0
    norm_num
  · subst hc hj; exact ⟨b, rfl⟩
  · subst hc; trivial

end Xrl
