import Xrl.Props.C05
import Xrl.Props.C12
import Xrl.Spec.Diff
import Xrl.Gen.F_kissel_pe
import Xrl.Lemmas.JumpRatio
/-!
# C05 — second part: differential cross sections, Kissel totals
-/
namespace Xrl
namespace C05
open Spec KN

set_option linter.unusedSimpArgs false
set_option linter.unusedVariables false
set_option maxRecDepth 16384

/-! ## small facts about the combinators -/

theorem dcsOf_fails_left (s k : Expect ℝ) : dcsOf (.fails : Expect ℝ) s k = .fails := rfl
theorem dcsOf_fails_mid (a k : Expect ℝ) : dcsOf a (.fails : Expect ℝ) k = .fails := by cases a <;> rfl
theorem dcsOf_fails_right (a s : Expect ℝ) : dcsOf a s (.fails : Expect ℝ) = .fails := by
  cases a <;> cases s <;> rfl

theorem dcsOf_eq_value {a s k : Expect ℝ} {v : ℝ} (h : dcsOf a s k = .value v) :
    ∃ aw sv kv, a = .value aw ∧ s = .value sv ∧ k = .value kv ∧ v = Hdr.AVOGNUM / aw * sv * kv := by
  cases a <;> cases s <;> cases k <;> simp [dcsOf] at h
  exact ⟨_, _, _, rfl, rfl, rfl, h.symm⟩

theorem dcsOf_ne_any {a s k : Expect ℝ} : dcsOf a s k ≠ .any := by
  cases a <;> cases s <;> cases k <;> simp [dcsOf]

theorem toBarn_ne_any {a b : Expect ℝ} : toBarn a b ≠ .any := by cases a <;> cases b <;> simp [toBarn]
theorem toCm2g_ne_any {a b : Expect ℝ} : toCm2g a b ≠ .any := by cases a <;> cases b <;> simp [toCm2g]

theorem rd1_ok {β : Type} (name : String) (f : Nat → β) {i : Int} (hb : 0 ≤ i ∧ i < 121) :
    rd1 name 121 f i = Except.ok (f i.toNat) := by
  unfold rd1; rw [if_pos (by push_cast; omega)]; rfl

theorem lit0 : (0.0 : ℝ) = 0 := by norm_num
theorem zero_eq_lit : (0 : ℝ) = (0.0 : ℝ) := by norm_num

theorem zOk_iff (Z : Int) : zOk Z = true ↔ 1 ≤ Z ∧ Z ≤ 120 := by
  unfold zOk; simp only [Hdr.ZMAX]; exact decide_eq_true_iff

theorem aw_fails_of_Z {T : Tables ℝ} {Z : Int} (hZ : Z < 1 ∨ Z > 120) : Spec.AtomicWeight T Z = .fails := by
  unfold Spec.AtomicWeight lookup1
  split_ifs with hc
  · have := (zOk_iff Z).1 hc.1; omega
  · rfl

theorem aw_value {T : Tables ℝ} {Z : Int} {a : ℝ} (h : Spec.AtomicWeight T Z = .value a) :
    (1 ≤ Z ∧ Z ≤ 120) ∧ a = T.AtomicWeight_arr Z.toNat ∧ 0 < a := by
  unfold Spec.AtomicWeight lookup1 at h
  split_ifs at h with hc
  injection h with h
  refine ⟨(zOk_iff Z).1 hc.1, h.symm, ?_⟩
  rw [← h]; have := hc.2; norm_num at this; exact this

theorem aw_cases (T : Tables ℝ) (Z : Int) :
    (∃ a, Spec.AtomicWeight T Z = .value a) ∨ Spec.AtomicWeight T Z = .fails := by
  unfold Spec.AtomicWeight lookup1
  split_ifs
  · exact Or.inl ⟨_, rfl⟩
  · exact Or.inr rfl

/-- `AtomicWeight` called with a `NULL` slot: the value, or 0 -/
theorem aw_null_value {T : Tables ℝ} {Z : Int} {a : ℝ} (h : Spec.AtomicWeight T Z = .value a) (s : Slot) :
    Gen.AtomicWeight T Z s = Except.ok (a, s) := by
  obtain ⟨hz, ha, hp⟩ := aw_value h
  unfold Gen.AtomicWeight
  have hz' : ¬ (Z < 1 ∨ Z > 120) := by omega
  have hp' : ¬ T.AtomicWeight_arr Z.toNat ≤ (0.0 : ℝ) := by rw [← ha]; norm_num; exact hp
  simp only [hz', if_false, rd1_ok _ _ (show 0 ≤ Z ∧ Z < 121 by omega), bind_ok, hp', pure_eq_ok, ha]

/-! ## the structure term, read through a local slot

`F = FF_Rayl(Z, q, &tmp_error); if (tmp_error != NULL) { xrl_propagate_error(error, tmp_error); return 0.0; }` -/

/-- the common shape of the four differential functions after the two argument checks -/
theorem via_local_slot (error : Slot) (he : error.isFull = false) (g : Slot → M (ℝ × Slot)) (x : Expect ℝ)
    (hg : Meets (g Slot.empty) Slot.empty x) (hna : x ≠ .any) (k : ℝ → M (ℝ × Slot)) (y : ℝ → Expect ℝ)
    (hk : ∀ f, x = .value f → Meets (k f) error (y f)) :
    Meets (do
        let r_2 ← g Slot.empty
        if (r_2.2.isFull = true) then do
          let error ← propagateErr error r_2.2
          pure ((0.0 : ℝ), error)
        else k r_2.1) error
      (atQ x y) := by
  rcases Meets.cases hg with ⟨f, hx, rg⟩ | ⟨hx, e, h1, h2, rg⟩ | hany
  · subst hx
    simp only [rg, bind_ok, Slot.isFull, Bool.false_eq_true, if_false]
    exact hk f rfl
  · subst hx
    simp only [rg, bind_ok, Slot.withErr, Slot.isFull, if_true]
    cases error with
    | null => exact ⟨e, h1, h2, rfl⟩
    | empty => exact ⟨e, h1, h2, rfl⟩
    | full _ => cases he
  · exact absurd hany hna

/-! ## differential cross sections -/

variable (T : Tables ℝ) (Z : Int) (E θ φ : ℝ) (error : Slot)

theorem notle {E : ℝ} (hE : ¬ E ≤ (0.0 : ℝ)) : 0 < E := by norm_num at hE; exact hE

theorem sqE_match (x : Expect ℝ) (a k : Expect ℝ) :
    dcsOf a (sqE x) k = atQ x (fun f => dcsOf a (.value (f * f)) k) := by
  cases x
  · rfl
  · exact dcsOf_fails_mid a k
  · exact dcsOf_fails_mid a k

theorem id_match (x : Expect ℝ) (a k : Expect ℝ) (hna : x ≠ .any) :
    dcsOf a x k = atQ x (fun f => dcsOf a (.value f) k) := by
  cases x
  · rfl
  · exact dcsOf_fails_mid a k
  · exact absurd rfl hna

theorem FF_Rayl_ne_any (q : ℝ) : Spec.FF_Rayl T Z q ≠ .any := by
  unfold Spec.FF_Rayl
  split_ifs
  · simp
  · exact interp_ne_any

theorem SF_Compt_ne_any (q : ℝ) : Spec.SF_Compt T Z q ≠ .any := by
  unfold Spec.SF_Compt; exact interp_ne_any

section dcs
variable (he : error.isFull = false)
include he

/-- **DCS_Rayl = N_A/A · FF_Rayl(q)² · DCS_Thoms(θ)** at `q = MomentTransf(E, θ)`; a failing part (Z, E, the form
factor outside its table or at negative `q`) fails the call with value 0 and one error.
`hW`: where the form factor is defined the element has an atomic weight (the code divides by it unchecked). -/
theorem dcs_rayl_eq
    (hs : vecOkB (T.q_Rayl_arr Z.toNat) (T.FF_Rayl_arr Z.toNat) (T.FF_Rayl_arr2 Z.toNat) (T.Nq_Rayl Z.toNat) = true)
    (hW : ∀ f, atQ (Spec.MomentTransf E θ) (Spec.FF_Rayl T Z) = .value f → Spec.AtomicWeight T Z ≠ .fails) :
    Meets (Gen.DCS_Rayl T Z E θ error) error (Spec.DCS_Rayl T Z E θ) := by
  unfold Gen.DCS_Rayl Spec.DCS_Rayl
  by_cases hZ : Z < 1 ∨ Z > 120
  · simp only [hZ, if_true, aw_fails_of_Z hZ, dcsOf_fails_left, Meets, setErr_notFull he, bind_ok, pure_eq_ok]
    exact fails_mk' (by decide) (by decide)
  · by_cases hE : E ≤ (0.0 : ℝ)
    · simp only [hZ, hE, if_true, if_false, Spec.MomentTransf, atQ, sqE, dcsOf_fails_mid, Meets, setErr_notFull he,
        bind_ok, pure_eq_ok]
      exact fails_mk' (by decide) (by decide)
    · have hE' := notle hE
      simp only [hZ, hE, if_false, value_MomentTransf T E θ Slot.null hE', bind_ok, Spec.MomentTransf, atQ] at hW ⊢
      rw [sqE_match]
      refine via_local_slot error he (Gen.FF_Rayl T Z (momentV E θ)) _
        (C02.site_spec_FF_Rayl T Z (momentV E θ) Slot.empty rfl hs) (FF_Rayl_ne_any T Z _)
        (fun F => do
          let r_3 ← Gen.AtomicWeight T Z error
          let q_4 ← ddiv (0.602214129 : ℝ) r_3.1
          let r_5 ← Gen.DCS_Thoms T θ r_3.2
          pure (q_4 * F * F * r_5.1, r_5.2))
        (fun f => dcsOf (Spec.AtomicWeight T Z) (.value (f * f)) (Spec.DCS_Thoms θ)) ?_
      intro f hf
      rcases aw_cases T Z with ⟨a, ha⟩ | ha
      · obtain ⟨_, _, hp⟩ := aw_value ha
        have ha0 : ¬ a = 0 := hp.ne'
        simp only [aw_null_value ha, bind_ok, ddiv, deq_real, lit0, ha0, if_false, pure_eq_ok, value_DCS_Thoms,
          ha, Spec.DCS_Thoms, dcsOf, Meets, Returns, Hdr.AVOGNUM]
        congr 2
        ring
      · exact absurd ha (hW f hf)

/-- **DCS_Compt = N_A/A · SF_Compt(q) · DCS_KN(E, θ)** at `q = MomentTransf(E, θ)` -/
theorem dcs_compt_eq
    (hs : vecOkB (T.q_Compt_arr Z.toNat) (T.SF_Compt_arr Z.toNat) (T.SF_Compt_arr2 Z.toNat) (T.Nq_Compt Z.toNat) = true)
    (hW : ∀ f, atQ (Spec.MomentTransf E θ) (Spec.SF_Compt T Z) = .value f → Spec.AtomicWeight T Z ≠ .fails) :
    Meets (Gen.DCS_Compt T Z E θ error) error (Spec.DCS_Compt T Z E θ) := by
  unfold Gen.DCS_Compt Spec.DCS_Compt
  by_cases hZ : Z < 1 ∨ Z > 120
  · simp only [hZ, if_true, aw_fails_of_Z hZ, dcsOf_fails_left, Meets, setErr_notFull he, bind_ok, pure_eq_ok]
    exact fails_mk' (by decide) (by decide)
  · by_cases hE : E ≤ (0.0 : ℝ)
    · simp only [hZ, hE, if_true, if_false, Spec.MomentTransf, atQ, dcsOf_fails_mid, Meets, setErr_notFull he,
        bind_ok, pure_eq_ok]
      exact fails_mk' (by decide) (by decide)
    · have hE' := notle hE
      simp only [hZ, hE, if_false, value_MomentTransf T E θ Slot.null hE', bind_ok, Spec.MomentTransf, atQ,
        Spec.DCS_KN] at hW ⊢
      rw [id_match _ _ _ (SF_Compt_ne_any T Z _)]
      refine via_local_slot error he (Gen.SF_Compt T Z (momentV E θ)) _
        (C02.site_spec_SF_Compt T Z (momentV E θ) Slot.empty rfl hs) (SF_Compt_ne_any T Z _)
        (fun S => do
          let r_3 ← Gen.AtomicWeight T Z error
          let q_4 ← ddiv (0.602214129 : ℝ) r_3.1
          let r_5 ← Gen.DCS_KN T E θ r_3.2
          pure (q_4 * S * r_5.1, r_5.2))
        (fun f => dcsOf (Spec.AtomicWeight T Z) (.value f) (.value (knV E θ))) ?_
      intro f hf
      rcases aw_cases T Z with ⟨a, ha⟩ | ha
      · obtain ⟨_, _, hp⟩ := aw_value ha
        have ha0 : ¬ a = 0 := hp.ne'
        simp only [aw_null_value ha, bind_ok, ddiv, deq_real, lit0, ha0, if_false, pure_eq_ok,
          value_DCS_KN T E θ error hE', ha, dcsOf, Meets, Returns, Hdr.AVOGNUM]
      · exact absurd ha (hW f hf)

/-- **DCSP_Rayl = N_A/A · FF_Rayl(q)² · DCSP_Thoms(θ, φ)** -/
theorem dcsp_rayl_eq
    (hs : vecOkB (T.q_Rayl_arr Z.toNat) (T.FF_Rayl_arr Z.toNat) (T.FF_Rayl_arr2 Z.toNat) (T.Nq_Rayl Z.toNat) = true)
    (hW : ∀ f, atQ (Spec.MomentTransf E θ) (Spec.FF_Rayl T Z) = .value f → Spec.AtomicWeight T Z ≠ .fails) :
    Meets (Gen.DCSP_Rayl T Z E θ φ error) error (Spec.DCSP_Rayl T Z E θ φ) := by
  unfold Gen.DCSP_Rayl Spec.DCSP_Rayl
  by_cases hZ : Z < 1 ∨ Z > 120
  · simp only [hZ, if_true, aw_fails_of_Z hZ, dcsOf_fails_left, Meets, setErr_notFull he, bind_ok, pure_eq_ok]
    exact fails_mk' (by decide) (by decide)
  · by_cases hE : E ≤ (0.0 : ℝ)
    · simp only [hZ, hE, if_true, if_false, Spec.MomentTransf, atQ, sqE, dcsOf_fails_mid, Meets, setErr_notFull he,
        bind_ok, pure_eq_ok]
      exact fails_mk' (by decide) (by decide)
    · have hE' := notle hE
      simp only [hZ, hE, if_false, value_MomentTransf T E θ Slot.null hE', bind_ok, Spec.MomentTransf, atQ] at hW ⊢
      rw [sqE_match]
      refine via_local_slot error he (Gen.FF_Rayl T Z (momentV E θ)) _
        (C02.site_spec_FF_Rayl T Z (momentV E θ) Slot.empty rfl hs) (FF_Rayl_ne_any T Z _)
        (fun F => do
          let r_3 ← Gen.AtomicWeight T Z Slot.null
          let q_4 ← ddiv (0.602214129 : ℝ) r_3.1
          let r_5 ← Gen.DCSP_Thoms T θ φ Slot.null
          pure (q_4 * F * F * r_5.1, error))
        (fun f => dcsOf (Spec.AtomicWeight T Z) (.value (f * f)) (Spec.DCSP_Thoms θ φ)) ?_
      intro f hf
      rcases aw_cases T Z with ⟨a, ha⟩ | ha
      · obtain ⟨_, _, hp⟩ := aw_value ha
        have ha0 : ¬ a = 0 := hp.ne'
        simp only [aw_null_value ha, bind_ok, ddiv, deq_real, lit0, ha0, if_false, pure_eq_ok, value_DCSP_Thoms,
          ha, Spec.DCSP_Thoms, dcsOf, Meets, Returns, Hdr.AVOGNUM]
        congr 2
        ring
      · exact absurd ha (hW f hf)

/-- **DCSP_Compt = N_A/A · SF_Compt(q) · DCSP_KN(E, θ, φ)** -/
theorem dcsp_compt_eq
    (hs : vecOkB (T.q_Compt_arr Z.toNat) (T.SF_Compt_arr Z.toNat) (T.SF_Compt_arr2 Z.toNat) (T.Nq_Compt Z.toNat) = true)
    (hW : ∀ f, atQ (Spec.MomentTransf E θ) (Spec.SF_Compt T Z) = .value f → Spec.AtomicWeight T Z ≠ .fails) :
    Meets (Gen.DCSP_Compt T Z E θ φ error) error (Spec.DCSP_Compt T Z E θ φ) := by
  unfold Gen.DCSP_Compt Spec.DCSP_Compt
  by_cases hZ : Z < 1 ∨ Z > 120
  · simp only [hZ, if_true, aw_fails_of_Z hZ, dcsOf_fails_left, Meets, setErr_notFull he, bind_ok, pure_eq_ok]
    exact fails_mk' (by decide) (by decide)
  · by_cases hE : E ≤ (0.0 : ℝ)
    · simp only [hZ, hE, if_true, if_false, Spec.MomentTransf, atQ, dcsOf_fails_mid, Meets, setErr_notFull he,
        bind_ok, pure_eq_ok]
      exact fails_mk' (by decide) (by decide)
    · have hE' := notle hE
      simp only [hZ, hE, if_false, value_MomentTransf T E θ Slot.null hE', bind_ok, Spec.MomentTransf, atQ,
        Spec.DCSP_KN] at hW ⊢
      rw [id_match _ _ _ (SF_Compt_ne_any T Z _)]
      refine via_local_slot error he (Gen.SF_Compt T Z (momentV E θ)) _
        (C02.site_spec_SF_Compt T Z (momentV E θ) Slot.empty rfl hs) (SF_Compt_ne_any T Z _)
        (fun S => do
          let r_3 ← Gen.AtomicWeight T Z Slot.null
          let q_4 ← ddiv (0.602214129 : ℝ) r_3.1
          let r_5 ← Gen.DCSP_KN T E θ φ Slot.null
          pure (q_4 * S * r_5.1, error))
        (fun f => dcsOf (Spec.AtomicWeight T Z) (.value f) (.value (knPV E θ φ))) ?_
      intro f hf
      rcases aw_cases T Z with ⟨a, ha⟩ | ha
      · obtain ⟨_, _, hp⟩ := aw_value ha
        have ha0 : ¬ a = 0 := hp.ne'
        simp only [aw_null_value ha, bind_ok, ddiv, deq_real, lit0, ha0, if_false, pure_eq_ok,
          value_DCSP_KN T E θ φ Slot.null hE', ha, dcsOf, Meets, Returns, Hdr.AVOGNUM]
      · exact absurd ha (hW f hf)

end dcs

/-! ## where the code leaves the text: data for the structure term but no atomic weight

`return AVOGNUM / AtomicWeight(Z, error) * F * F * DCS_Thoms(theta, error);` (scattering.c:162, :199,
polarized.c:60, :94) divides by the weight without testing it: for an element with a form factor /
scattering function but no atomic weight the C function returns `AVOGNUM / 0.0 · …` (±inf or NaN; the unpolarised
twins also store `AtomicWeight`'s error), the model outcome `nf "div0"`.  No shipped element is in that
state (FF.dat, SF.dat end at Z = 99/100, atomicweight.dat at Z = 103) — `weightOkB` is evaluated on the real tables. -/

theorem aw_fails_gen {T : Tables ℝ} {Z : Int} (h : Spec.AtomicWeight T Z = .fails) (hZ : ¬ (Z < 1 ∨ Z > 120))
    (s : Slot) (hs : s.isFull = false) : ∃ s', Gen.AtomicWeight T Z s = Except.ok ((0.0 : ℝ), s') := by
  unfold Spec.AtomicWeight lookup1 at h
  split_ifs at h with hc
  have hc' : T.AtomicWeight_arr Z.toNat ≤ (0.0 : ℝ) := by
    by_contra hh
    exact hc ⟨(zOk_iff Z).2 (by omega), not_le.1 hh⟩
  unfold Gen.AtomicWeight
  simp only [hZ, if_false, rd1_ok _ _ (show 0 ≤ Z ∧ Z < 121 by omega), bind_ok, hc', if_true, setErr_notFull hs,
    pure_eq_ok]
  exact ⟨_, rfl⟩

theorem ddiv_zero (a : ℝ) : ddiv a (0.0 : ℝ) = Except.error (Abort.nf "div0") := by
  unfold ddiv; simp only [deq_real, if_true, throw_eq_error]

section div0
variable (he : error.isFull = false) (hZ : ¬ (Z < 1 ∨ Z > 120)) (hE : 0 < E)
include he hZ hE

theorem dcs_rayl_div0 (f : ℝ)
    (hs : vecOkB (T.q_Rayl_arr Z.toNat) (T.FF_Rayl_arr Z.toNat) (T.FF_Rayl_arr2 Z.toNat) (T.Nq_Rayl Z.toNat) = true)
    (hf : Spec.FF_Rayl T Z (momentV E θ) = .value f) (ha : Spec.AtomicWeight T Z = .fails) :
    Gen.DCS_Rayl T Z E θ error = Except.error (Abort.nf "div0") := by
  have hE' : ¬ E ≤ (0.0 : ℝ) := by norm_num; exact hE
  have mF := C02.site_spec_FF_Rayl T Z (momentV E θ) Slot.empty rfl hs
  rw [hf] at mF
  obtain ⟨s', hs'⟩ := aw_fails_gen ha hZ error he
  unfold Gen.DCS_Rayl
  simp only [hZ, hE', if_false, value_MomentTransf T E θ Slot.null hE, bind_ok, show Gen.FF_Rayl T Z (momentV E θ)
    Slot.empty = Except.ok (f, Slot.empty) from mF, Slot.isFull, Bool.false_eq_true, hs', ddiv_zero, bind_error]

omit he in
theorem dcsp_rayl_div0 (f : ℝ)
    (hs : vecOkB (T.q_Rayl_arr Z.toNat) (T.FF_Rayl_arr Z.toNat) (T.FF_Rayl_arr2 Z.toNat) (T.Nq_Rayl Z.toNat) = true)
    (hf : Spec.FF_Rayl T Z (momentV E θ) = .value f) (ha : Spec.AtomicWeight T Z = .fails) :
    Gen.DCSP_Rayl T Z E θ φ error = Except.error (Abort.nf "div0") := by
  have hE' : ¬ E ≤ (0.0 : ℝ) := by norm_num; exact hE
  have mF := C02.site_spec_FF_Rayl T Z (momentV E θ) Slot.empty rfl hs
  rw [hf] at mF
  obtain ⟨s', hs'⟩ := aw_fails_gen ha hZ Slot.null rfl
  unfold Gen.DCSP_Rayl
  simp only [hZ, hE', if_false, value_MomentTransf T E θ Slot.null hE, bind_ok, show Gen.FF_Rayl T Z (momentV E θ)
    Slot.empty = Except.ok (f, Slot.empty) from mF, Slot.isFull, Bool.false_eq_true, hs', ddiv_zero, bind_error]

theorem dcs_compt_div0 (f : ℝ)
    (hs : vecOkB (T.q_Compt_arr Z.toNat) (T.SF_Compt_arr Z.toNat) (T.SF_Compt_arr2 Z.toNat) (T.Nq_Compt Z.toNat) = true)
    (hf : Spec.SF_Compt T Z (momentV E θ) = .value f) (ha : Spec.AtomicWeight T Z = .fails) :
    Gen.DCS_Compt T Z E θ error = Except.error (Abort.nf "div0") := by
  have hE' : ¬ E ≤ (0.0 : ℝ) := by norm_num; exact hE
  have mF := C02.site_spec_SF_Compt T Z (momentV E θ) Slot.empty rfl hs
  rw [hf] at mF
  obtain ⟨s', hs'⟩ := aw_fails_gen ha hZ error he
  unfold Gen.DCS_Compt
  simp only [hZ, hE', if_false, value_MomentTransf T E θ Slot.null hE, bind_ok, show Gen.SF_Compt T Z (momentV E θ)
    Slot.empty = Except.ok (f, Slot.empty) from mF, Slot.isFull, Bool.false_eq_true, hs', ddiv_zero, bind_error]

omit he in
theorem dcsp_compt_div0 (f : ℝ)
    (hs : vecOkB (T.q_Compt_arr Z.toNat) (T.SF_Compt_arr Z.toNat) (T.SF_Compt_arr2 Z.toNat) (T.Nq_Compt Z.toNat) = true)
    (hf : Spec.SF_Compt T Z (momentV E θ) = .value f) (ha : Spec.AtomicWeight T Z = .fails) :
    Gen.DCSP_Compt T Z E θ φ error = Except.error (Abort.nf "div0") := by
  have hE' : ¬ E ≤ (0.0 : ℝ) := by norm_num; exact hE
  have mF := C02.site_spec_SF_Compt T Z (momentV E θ) Slot.empty rfl hs
  rw [hf] at mF
  obtain ⟨s', hs'⟩ := aw_fails_gen ha hZ Slot.null rfl
  unfold Gen.DCSP_Compt
  simp only [hZ, hE', if_false, value_MomentTransf T E θ Slot.null hE, bind_ok, show Gen.SF_Compt T Z (momentV E θ)
    Slot.empty = Except.ok (f, Slot.empty) from mF, Slot.isFull, Bool.false_eq_true, hs', ddiv_zero, bind_error]

end div0

/-- an aborted run meets no expectation that makes a claim -/
theorem not_meets_error (a : Abort) (x : Expect ℝ) (hna : x ≠ .any) :
    ¬ Meets (Except.error a : M (ℝ × Slot)) error x := by
  cases x with
  | value v => intro h; cases h
  | fails => rintro ⟨e, _, _, h⟩; cases h
  | any => exact absurd rfl hna

/-! ### the full statements (false on tables with a structure table but no weight) and the data condition -/

def dcs_rayl_full : Prop :=
  ∀ (T : Tables ℝ) (Z : Int) (E θ : ℝ) (error : Slot), error.isFull = false →
    vecOkB (T.q_Rayl_arr Z.toNat) (T.FF_Rayl_arr Z.toNat) (T.FF_Rayl_arr2 Z.toNat) (T.Nq_Rayl Z.toNat) = true →
    Meets (Gen.DCS_Rayl T Z E θ error) error (Spec.DCS_Rayl T Z E θ)

def dcsp_rayl_full : Prop :=
  ∀ (T : Tables ℝ) (Z : Int) (E θ φ : ℝ) (error : Slot), error.isFull = false →
    vecOkB (T.q_Rayl_arr Z.toNat) (T.FF_Rayl_arr Z.toNat) (T.FF_Rayl_arr2 Z.toNat) (T.Nq_Rayl Z.toNat) = true →
    Meets (Gen.DCSP_Rayl T Z E θ φ error) error (Spec.DCSP_Rayl T Z E θ φ)

def dcs_compt_full : Prop :=
  ∀ (T : Tables ℝ) (Z : Int) (E θ : ℝ) (error : Slot), error.isFull = false →
    vecOkB (T.q_Compt_arr Z.toNat) (T.SF_Compt_arr Z.toNat) (T.SF_Compt_arr2 Z.toNat) (T.Nq_Compt Z.toNat) = true →
    Meets (Gen.DCS_Compt T Z E θ error) error (Spec.DCS_Compt T Z E θ)

def dcsp_compt_full : Prop :=
  ∀ (T : Tables ℝ) (Z : Int) (E θ φ : ℝ) (error : Slot), error.isFull = false →
    vecOkB (T.q_Compt_arr Z.toNat) (T.SF_Compt_arr Z.toNat) (T.SF_Compt_arr2 Z.toNat) (T.Nq_Compt Z.toNat) = true →
    Meets (Gen.DCSP_Compt T Z E θ φ error) error (Spec.DCSP_Compt T Z E θ φ)

theorem FF_Rayl_value_guard {q f : ℝ} (h : Spec.FF_Rayl T Z q = .value f) :
    zOk Z = true ∧ 0 < T.Nq_Rayl Z.toNat := by
  unfold Spec.FF_Rayl at h
  split_ifs at h with hc
  · exact ⟨hc.1, hc.2.1⟩
  · have := interp_value_guard h
    simp only [Bool.and_eq_true, decide_eq_true_eq] at this
    exact ⟨this.1.1, this.1.2⟩

theorem SF_Compt_value_guard {q f : ℝ} (h : Spec.SF_Compt T Z q = .value f) :
    zOk Z = true ∧ 0 < T.Nq_Compt Z.toNat := by
  unfold Spec.SF_Compt at h
  have := interp_value_guard h
  simp only [Bool.and_eq_true, decide_eq_true_eq] at this
  exact ⟨this.1.1, this.1.2⟩

theorem aw_of_weightOk {d : Bool} (h : weightOkB T d Z = true) (hz : zOk Z = true) (hd : d = true) :
    Spec.AtomicWeight T Z ≠ .fails := by
  unfold weightOkB at h
  simp only [hz, hd, Bool.and_self, Bool.not_true, Bool.false_or, decide_eq_true_eq] at h
  unfold Spec.AtomicWeight lookup1
  rw [if_pos ⟨hz, h⟩]
  simp

/-- the executable table condition gives the hypothesis `hW` of the two Rayleigh theorems -/
theorem hW_rayl (h : weightOkB T (decide (0 < T.Nq_Rayl Z.toNat)) Z = true) :
    ∀ f, atQ (Spec.MomentTransf E θ) (Spec.FF_Rayl T Z) = .value f → Spec.AtomicWeight T Z ≠ .fails := by
  intro f hf
  unfold atQ at hf
  split at hf
  · obtain ⟨hz, hn⟩ := FF_Rayl_value_guard T Z hf
    exact aw_of_weightOk T Z h hz (decide_eq_true hn)
  · cases hf

/-- the executable table condition gives the hypothesis `hW` of the two Compton theorems -/
theorem hW_compt (h : weightOkB T (decide (0 < T.Nq_Compt Z.toNat)) Z = true) :
    ∀ f, atQ (Spec.MomentTransf E θ) (Spec.SF_Compt T Z) = .value f → Spec.AtomicWeight T Z ≠ .fails := by
  intro f hf
  unfold atQ at hf
  split at hf
  · obtain ⟨hz, hn⟩ := SF_Compt_value_guard T Z hf
    exact aw_of_weightOk T Z h hz (decide_eq_true hn)
  · cases hf

/-! ## barn twins -/

/-- `barn_twin` without the "value ≠ 0" assumption: a zero cm²/g value (a form factor or scattering function that
is exactly 0) returns 0 without looking at the weight, which is the text's value as long as the weight exists -/
theorem barn_twin0 (he : error.isFull = false) (f : Slot → M (ℝ × Slot)) (x : Expect ℝ)
    (hf : Meets (f error) error x) (h0 : x = .value 0 → ∃ a, Spec.AtomicWeight T Z = .value a) (hna : x ≠ .any) :
    Meets (do
        let r_1 ← f error
        if deq r_1.1 (0.0 : ℝ) then pure ((0.0 : ℝ), r_1.2)
        else do
          let r_2 ← Gen.AtomicWeight T Z r_1.2
          if deq r_2.1 (0.0 : ℝ) then pure ((0.0 : ℝ), r_2.2)
          else pure (((r_1.1 * r_2.1) / (0.602214129 : ℝ)), r_2.2)) error
      (toBarn x (Spec.AtomicWeight T Z)) := by
  by_cases hx : x = .value 0
  · obtain ⟨a, ha⟩ := h0 hx
    subst hx
    have rf : f error = Except.ok ((0 : ℝ), error) := hf
    simp only [rf, bind_ok, deq_real, lit0, if_true, pure_eq_ok, ha, toBarn, Meets, Returns, zero_mul, zero_div]
  · exact barn_twin T Z error he f x hf (fun v hv hv0 => hx (by rw [hv, hv0])) hna

section twins
variable (he : error.isFull = false)
include he

theorem barn_twin_DCSb_Rayl
    (hs : vecOkB (T.q_Rayl_arr Z.toNat) (T.FF_Rayl_arr Z.toNat) (T.FF_Rayl_arr2 Z.toNat) (T.Nq_Rayl Z.toNat) = true)
    (hW : ∀ f, atQ (Spec.MomentTransf E θ) (Spec.FF_Rayl T Z) = .value f → Spec.AtomicWeight T Z ≠ .fails) :
    Meets (Gen.DCSb_Rayl T Z E θ error) error (Spec.DCSb_Rayl T Z E θ) := by
  unfold Gen.DCSb_Rayl Spec.DCSb_Rayl
  refine barn_twin0 T Z error he (Gen.DCS_Rayl T Z E θ) _ (dcs_rayl_eq T Z E θ error he hs hW) ?_ ?_
  · intro h
    obtain ⟨a, _, _, ha, _⟩ := dcsOf_eq_value (by unfold Spec.DCS_Rayl at h; exact h)
    exact ⟨a, ha⟩
  · unfold Spec.DCS_Rayl; exact dcsOf_ne_any

theorem barn_twin_DCSb_Compt
    (hs : vecOkB (T.q_Compt_arr Z.toNat) (T.SF_Compt_arr Z.toNat) (T.SF_Compt_arr2 Z.toNat) (T.Nq_Compt Z.toNat) = true)
    (hW : ∀ f, atQ (Spec.MomentTransf E θ) (Spec.SF_Compt T Z) = .value f → Spec.AtomicWeight T Z ≠ .fails) :
    Meets (Gen.DCSb_Compt T Z E θ error) error (Spec.DCSb_Compt T Z E θ) := by
  unfold Gen.DCSb_Compt Spec.DCSb_Compt
  refine barn_twin0 T Z error he (Gen.DCS_Compt T Z E θ) _ (dcs_compt_eq T Z E θ error he hs hW) ?_ ?_
  · intro h
    obtain ⟨a, _, _, ha, _⟩ := dcsOf_eq_value (by unfold Spec.DCS_Compt at h; exact h)
    exact ⟨a, ha⟩
  · unfold Spec.DCS_Compt; exact dcsOf_ne_any

theorem barn_twin_DCSPb_Rayl
    (hs : vecOkB (T.q_Rayl_arr Z.toNat) (T.FF_Rayl_arr Z.toNat) (T.FF_Rayl_arr2 Z.toNat) (T.Nq_Rayl Z.toNat) = true)
    (hW : ∀ f, atQ (Spec.MomentTransf E θ) (Spec.FF_Rayl T Z) = .value f → Spec.AtomicWeight T Z ≠ .fails) :
    Meets (Gen.DCSPb_Rayl T Z E θ φ error) error (Spec.DCSPb_Rayl T Z E θ φ) := by
  unfold Gen.DCSPb_Rayl Spec.DCSPb_Rayl
  refine barn_twin0 T Z error he (Gen.DCSP_Rayl T Z E θ φ) _ (dcsp_rayl_eq T Z E θ φ error he hs hW) ?_ ?_
  · intro h
    obtain ⟨a, _, _, ha, _⟩ := dcsOf_eq_value (by unfold Spec.DCSP_Rayl at h; exact h)
    exact ⟨a, ha⟩
  · unfold Spec.DCSP_Rayl; exact dcsOf_ne_any

theorem barn_twin_DCSPb_Compt
    (hs : vecOkB (T.q_Compt_arr Z.toNat) (T.SF_Compt_arr Z.toNat) (T.SF_Compt_arr2 Z.toNat) (T.Nq_Compt Z.toNat) = true)
    (hW : ∀ f, atQ (Spec.MomentTransf E θ) (Spec.SF_Compt T Z) = .value f → Spec.AtomicWeight T Z ≠ .fails) :
    Meets (Gen.DCSPb_Compt T Z E θ φ error) error (Spec.DCSPb_Compt T Z E θ φ) := by
  unfold Gen.DCSPb_Compt Spec.DCSPb_Compt
  refine barn_twin0 T Z error he (Gen.DCSP_Compt T Z E θ φ) _ (dcsp_compt_eq T Z E θ φ error he hs hW) ?_ ?_
  · intro h
    obtain ⟨a, _, _, ha, _⟩ := dcsOf_eq_value (by unfold Spec.DCSP_Compt at h; exact h)
    exact ⟨a, ha⟩
  · unfold Spec.DCSP_Compt; exact dcsOf_ne_any

end twins

/-! ## Kissel: `CS_Photo_Total`, `CS_Total_Kissel`, `CSb_Total_Kissel`

`x` is any expectation the generated `CSb_Photo_Total` meets (`C05.photo_total_eq` of Props/C05c provides the
occupancy-weighted sum); `hpos`: a value is never 0 (the function reports 0 as an error), `hna`: it makes a claim. -/

/-- a non-zero result of `CSb_Photo_Total` passed its guards -/
theorem csb_photo_total_guard (he : error.isFull = false) {v : ℝ} {s : Slot}
    (h : Gen.CSb_Photo_Total T Z E error = Except.ok (v, s)) (hv : v ≠ 0) :
    ¬ (Z < 1 ∨ Z > 120) ∧ ¬ T.NE_Photo_Total_Kissel Z.toNat < 0 ∧ ¬ E ≤ (0.0 : ℝ) := by
  unfold Gen.CSb_Photo_Total at h
  by_cases hZ : Z < 1 ∨ Z > 120
  · simp only [hZ, if_true, pure_eq_ok, bind_ok, setErr_notFull he] at h
    injection h with h; injection h with h1 h2
    exact absurd (by rw [← h1]; norm_num) hv
  · by_cases hN : T.NE_Photo_Total_Kissel Z.toNat < 0
    · simp only [hZ, if_false, rd1_ok _ _ (show 0 ≤ Z ∧ Z < 121 by omega), hN, decide_true, pure_eq_ok, bind_ok,
        if_true, setErr_notFull he] at h
      injection h with h; injection h with h1 h2
      exact absurd (by rw [← h1]; norm_num) hv
    · by_cases hE : E ≤ (0.0 : ℝ)
      · simp only [hZ, if_false, rd1_ok _ _ (show 0 ≤ Z ∧ Z < 121 by omega), hN, decide_false, pure_eq_ok, bind_ok,
          Bool.false_eq_true, hE, if_true, setErr_notFull he] at h
        injection h with h; injection h with h1 h2
        exact absurd (by rw [← h1]; norm_num) hv
      · exact ⟨hZ, hN, hE⟩

/-- the executable table condition gives the hypothesis `hW` of the Kissel theorems -/
theorem hW_kissel (he : error.isFull = false) (x : Expect ℝ)
    (hx : Meets (Gen.CSb_Photo_Total T Z E error) error x) (hpos : ∀ v, x = .value v → v ≠ 0)
    (h : weightOkB T (decide (0 ≤ T.NE_Photo_Total_Kissel Z.toNat)) Z = true) :
    ∀ v, x = .value v → Spec.AtomicWeight T Z ≠ .fails := by
  intro v hv
  have rb : Gen.CSb_Photo_Total T Z E error = Except.ok (v, error) := by rw [hv] at hx; exact hx
  obtain ⟨hZ, hN, _⟩ := csb_photo_total_guard T Z E error he rb (hpos v hv)
  exact aw_of_weightOk T Z h ((zOk_iff Z).2 (by omega)) (decide_eq_true (by omega))

section kissel
variable (he : error.isFull = false) (x : Expect ℝ)
  (hx : Meets (Gen.CSb_Photo_Total T Z E error) error x) (hpos : ∀ v, x = .value v → v ≠ 0) (hna : x ≠ .any)
include he hx hpos hna

/-- **CS_Photo_Total = CSb_Photo_Total · N_A / A**; a failing barn value fails the call.
`hW`: an element with Kissel data has an atomic weight (kissel_pe.c:89 divides by `AtomicWeight_arr[Z]` unchecked). -/
theorem cs_photo_total_eq (hW : ∀ v, x = .value v → Spec.AtomicWeight T Z ≠ .fails) :
    Meets (Gen.CS_Photo_Total T Z E error) error (Spec.CS_Photo_Total_of T Z x) := by
  unfold Gen.CS_Photo_Total Spec.CS_Photo_Total_of
  rcases Meets.cases hx with ⟨v, hxv, rf⟩ | ⟨hxf, e, h1, h2, rf⟩ | hany
  · have hv := hpos v hxv
    obtain ⟨hZ, _, _⟩ := csb_photo_total_guard T Z E error he rf hv
    rcases aw_cases T Z with ⟨a, ha⟩ | ha
    · obtain ⟨_, haa, hp⟩ := aw_value ha
      have ha0 : ¬ T.AtomicWeight_arr Z.toNat = 0 := by rw [← haa]; exact hp.ne'
      simp only [rf, bind_ok, deq_real, lit0, hv, if_false, rd1_ok _ _ (show 0 ≤ Z ∧ Z < 121 by omega), ddiv, ha0,
        pure_eq_ok, hxv, ha, toCm2g, Meets, Returns, Hdr.AVOGNUM, haa]
    · exact absurd ha (hW v hxv)
  · simp only [rf, bind_ok, deq_real, lit0, if_true, pure_eq_ok, hxf, toCm2g, Meets]
    exact fails_of_eq h1 h2 rfl
  · exact absurd hany hna

omit he hx hpos hna in
theorem add3_fails_mid (a c : Expect ℝ) : add3 a (.fails : Expect ℝ) c = .fails := by cases a <;> rfl
omit he hx hpos hna in
theorem add3_fails_right (a b : Expect ℝ) : add3 a b (.fails : Expect ℝ) = .fails := by cases a <;> cases b <;> rfl

/-- **CS_Total_Kissel = CS_Photo_Total + CS_Rayl + CS_Compt** wherever the three parts are defined; an undefined part
fails the total (value 0, one error): no partial sum -/
theorem cs_total_kissel_eq
    (hR : vecOkB (T.E_Rayl_arr Z.toNat) (T.CS_Rayl_arr Z.toNat) (T.CS_Rayl_arr2 Z.toNat) (T.NE_Rayl Z.toNat) = true)
    (hC : vecOkB (T.E_Compt_arr Z.toNat) (T.CS_Compt_arr Z.toNat) (T.CS_Compt_arr2 Z.toNat) (T.NE_Compt Z.toNat) = true)
    (hW : ∀ v, x = .value v → Spec.AtomicWeight T Z ≠ .fails) :
    Meets (Gen.CS_Total_Kissel T Z E error) error (Spec.CS_Total_Kissel_of T Z E x) := by
  have mP := cs_photo_total_eq T Z E error he x hx hpos hna hW
  have mR := C02.site_spec_CS_Rayl T Z E error he hR
  have mC := C02.site_spec_CS_Compt T Z E error he hC
  have r3 : List.range 3 = [0, 1, 2] := by decide
  unfold Gen.CS_Total_Kissel Spec.CS_Total_Kissel_of
  by_cases hZ : Z < 1 ∨ Z > 120
  · have : Spec.CS_Rayl T Z E = .fails := by
      unfold Spec.CS_Rayl interp
      have : zOk Z = false := by
        rw [← Bool.not_eq_true, zOk_iff]; omega
      simp [this]
    simp only [hZ, if_true, pure_eq_ok, bind_ok, setErr_notFull he, this, add3_fails_mid, Meets]
    exact fails_mk' (by decide) (by decide)
  · have hb : 0 ≤ Z ∧ Z < 121 := by omega
    have hz : zOk Z = true := (zOk_iff Z).2 (by omega)
    simp only [hZ, if_false, rd1_ok _ _ hb, pure_eq_ok, bind_ok]
    by_cases c2 : T.NE_Rayl Z.toNat < 0
    · have : Spec.CS_Rayl T Z E = .fails := by
        unfold Spec.CS_Rayl interp
        have : decide (0 ≤ T.NE_Rayl Z.toNat) = false := decide_eq_false (by omega)
        simp [this]
      simp only [c2, decide_true, if_true, ite_self, pure_eq_ok, bind_ok, setErr_notFull he, this,
        add3_fails_mid, Meets]
      exact fails_mk' (by decide) (by decide)
    · by_cases c3 : T.NE_Compt Z.toNat < 0
      · have : Spec.CS_Compt T Z E = .fails := by
          unfold Spec.CS_Compt interp
          have : decide (0 ≤ T.NE_Compt Z.toNat) = false := decide_eq_false (by omega)
          simp [this]
        simp only [c3, decide_true, if_true, ite_self, pure_eq_ok, bind_ok, setErr_notFull he, this,
          add3_fails_right, Meets]
        split_ifs <;> simp only [bind_ok] <;> exact fails_mk' (by decide) (by decide)
      · simp only [c2, c3, decide_false, Bool.false_eq_true, if_false]
        rcases Meets.cases mP with ⟨p, hp, rp⟩ | ⟨hp, e, h1, h2, rp⟩ | hany
        · -- the photo part is a value: its guards were passed
          obtain ⟨v, a, hxv, ha, hpv⟩ : ∃ v a, x = .value v ∧ Spec.AtomicWeight T Z = .value a ∧
              p = v * Hdr.AVOGNUM / a := by
            unfold Spec.CS_Photo_Total_of at hp
            cases hxx : x <;> cases haa : Spec.AtomicWeight T Z <;> rw [hxx, haa] at hp <;> simp [toCm2g] at hp
            exact ⟨_, _, rfl, rfl, hp.symm⟩
          have hv := hpos v hxv
          have rb : Gen.CSb_Photo_Total T Z E error = Except.ok (v, error) := by rw [hxv] at hx; exact hx
          obtain ⟨_, c1, hE⟩ := csb_photo_total_guard T Z E error he rb hv
          obtain ⟨_, _, hapos⟩ := aw_value ha
          have pp : ¬ p = (0.0 : ℝ) := by
            rw [lit0]
            rw [hpv]; unfold Hdr.AVOGNUM
            have : (0.602214129 : ℝ) ≠ 0 := by norm_num
            exact div_ne_zero (mul_ne_zero hv this) hapos.ne'
          simp only [c1, decide_false, Bool.false_eq_true, if_false, hE, loopCtlM, Int.sub_zero, Int.reduceToNat, r3,
            loopCtlGo, Nat.cast_zero, Int.add_zero, ↓reduceIte, rp, bind_ok, deq_real, pp, pure_eq_ok, hp]
          rcases Meets.cases mR with ⟨r, hr, rr⟩ | ⟨hr, e, h1, h2, rr⟩ | hany
          · have rpos : ¬ r = (0.0 : ℝ) := by
              rw [lit0]; exact (interp_exp_pos (by unfold Spec.CS_Rayl at hr; exact hr)).ne'
            simp only [Nat.cast_one, Int.zero_add, Int.one_ne_zero, ↓reduceIte, rr, bind_ok, deq_real, rpos, if_false, pure_eq_ok, hr]
            rcases Meets.cases mC with ⟨c, hc, rc⟩ | ⟨hc, e, h1, h2, rc⟩ | hany
            · have cpos : ¬ c = (0.0 : ℝ) := by
                rw [lit0]; exact (interp_exp_pos (by unfold Spec.CS_Compt at hc; exact hc)).ne'
              simp only [Nat.cast_ofNat, Int.zero_add, OfNat.ofNat_ne_zero, OfNat.ofNat_ne_one,
                ↓reduceIte, rc, bind_ok, deq_real, cpos, if_false, pure_eq_ok, hc, add3, Meets, Returns]
              norm_num
            · simp only [Nat.cast_ofNat, Int.zero_add, OfNat.ofNat_ne_zero, OfNat.ofNat_ne_one,
                ↓reduceIte, rc, bind_ok, deq_real, eq_true zero_eq_lit, if_true, pure_eq_ok, hc, add3, Meets]
              exact ⟨e, h1, h2, rfl⟩
            · exact absurd hany (by unfold Spec.CS_Compt; exact interp_ne_any)
          · simp only [Nat.cast_one, Int.zero_add, Int.one_ne_zero, ↓reduceIte, rr, bind_ok, deq_real,
              eq_true zero_eq_lit, if_true, pure_eq_ok, hr, add3, Meets]
            exact ⟨e, h1, h2, rfl⟩
          · exact absurd hany (by unfold Spec.CS_Rayl; exact interp_ne_any)
        · -- the photo part fails: whichever check comes first, the total fails
          simp only [hp, add3, Meets]
          by_cases c1 : T.NE_Photo_Total_Kissel Z.toNat < 0
          · simp only [c1, decide_true, if_true, bind_ok, setErr_notFull he]
            exact fails_mk' (by decide) (by decide)
          · by_cases hE : E ≤ (0.0 : ℝ)
            · simp only [c1, decide_false, Bool.false_eq_true, if_false, hE, if_true, bind_ok, setErr_notFull he]
              exact fails_mk' (by decide) (by decide)
            · simp only [c1, decide_false, Bool.false_eq_true, if_false, hE, loopCtlM, Int.sub_zero, Int.reduceToNat,
                r3, loopCtlGo, Nat.cast_zero, Int.add_zero, ↓reduceIte, rp, bind_ok, deq_real, eq_true zero_eq_lit,
                if_true, pure_eq_ok]
              exact ⟨e, h1, h2, rfl⟩
        · exact absurd hany (by unfold Spec.CS_Photo_Total_of; exact toCm2g_ne_any)

/-- **CSb_Total_Kissel = CS_Total_Kissel · A / N_A** (kissel_pe.c:283: the weight is read from `AtomicWeight_arr`
directly; where the cm²/g total is defined the weight is positive, because `CS_Photo_Total` is) -/
theorem barn_twin_CSb_Total_Kissel
    (hR : vecOkB (T.E_Rayl_arr Z.toNat) (T.CS_Rayl_arr Z.toNat) (T.CS_Rayl_arr2 Z.toNat) (T.NE_Rayl Z.toNat) = true)
    (hC : vecOkB (T.E_Compt_arr Z.toNat) (T.CS_Compt_arr Z.toNat) (T.CS_Compt_arr2 Z.toNat) (T.NE_Compt Z.toNat) = true)
    (hW : ∀ v, x = .value v → Spec.AtomicWeight T Z ≠ .fails) :
    Meets (Gen.CSb_Total_Kissel T Z E error) error (Spec.CSb_Total_Kissel_of T Z E x) := by
  have m := cs_total_kissel_eq T Z E error he x hx hpos hna hR hC hW
  unfold Gen.CSb_Total_Kissel Spec.CSb_Total_Kissel_of
  rcases Meets.cases m with ⟨t, ht, rt⟩ | ⟨ht, e, h1, h2, rt⟩ | hany
  · obtain ⟨p, r, c, h1, _, _, _⟩ := add3_eq_value (by unfold Spec.CS_Total_Kissel_of at ht; exact ht)
    obtain ⟨a, ha⟩ : ∃ a, Spec.AtomicWeight T Z = .value a := by
      unfold Spec.CS_Photo_Total_of at h1
      cases hxx : x <;> cases haa : Spec.AtomicWeight T Z <;> rw [hxx, haa] at h1 <;> simp [toCm2g] at h1
      exact ⟨_, rfl⟩
    obtain ⟨hz, haa, _⟩ := aw_value ha
    simp only [rt, bind_ok, deq_real, pure_eq_ok, ht, ha, toBarn, Meets, Returns, Hdr.AVOGNUM,
      rd1_ok _ _ (show 0 ≤ Z ∧ Z < 121 by omega), haa]
    by_cases h0 : t = (0.0 : ℝ)
    · simp only [h0, if_true]; norm_num
    · simp only [h0, if_false]
  · simp only [rt, bind_ok, deq_real, eq_true zero_eq_lit, if_true, pure_eq_ok, ht, toBarn, Meets]
    exact ⟨e, h1, h2, rfl⟩
  · exact absurd hany (by unfold Spec.CS_Total_Kissel_of; exact add3_ne_any)

end kissel

/-! ## concrete instances: the hypotheses are satisfiable, the values are not trivial, the full statements fail

One synthetic element table: form factor and scattering function tabulated at `q = 0, 1` with ordinate 3 (second
derivatives 0), atomic weight 2 (`witT`) or missing (`witW`).  At `E = KEV2ANGST` keV, `θ = π` the momentum transfer
is exactly 1, the last knot. -/
section witness
open Real

noncomputable def knots01 : Vec ℝ := ⟨2, fun k => (k : ℝ)⟩
noncomputable def const3 : Vec ℝ := ⟨2, fun _ => 3⟩
noncomputable def const0 : Vec ℝ := ⟨2, fun _ => 0⟩

noncomputable def witT : Tables ℝ :=
  { (default : Tables ℝ) with
    AtomicWeight_arr := fun _ => 2, Nq_Rayl := fun _ => 2, Nq_Compt := fun _ => 2,
    q_Rayl_arr := fun _ => knots01, q_Compt_arr := fun _ => knots01,
    FF_Rayl_arr := fun _ => const3, SF_Compt_arr := fun _ => const3,
    FF_Rayl_arr2 := fun _ => const0, SF_Compt_arr2 := fun _ => const0 }

/-- the same element without an atomic weight -/
noncomputable def witW : Tables ℝ := { witT with AtomicWeight_arr := fun _ => 0 }

theorem wit_shape : vecOkB knots01 const3 const0 2 = true := by
  simp [vecOkB, knots01, const3, const0, knot]

theorem wit_sorted : SortedKnots knots01 2 := by
  rcases vecOkB_spec _ _ _ _ wit_shape with h | ⟨_, _, _, _, h⟩
  · omega
  · exact h

theorem wit_spline : spline knots01 const3 const0 2 1 = some 3 := by
  have := C02.spline_at_last_knot knots01 const3 const0 2 wit_sorted (le_refl _) (by simp [knot, knots01])
  simpa [knot, knots01, const3] using this

theorem wit_q : momentV (Hdr.KEV2ANGST : ℝ) π = 1 := by
  rw [momentV_real, div_self KEV2ANGST_pos.ne', sin_pi_div_two, one_mul]

theorem wit_FF (T : Tables ℝ) (h1 : T.Nq_Rayl 1 = 2) (h2 : T.q_Rayl_arr 1 = knots01) (h3 : T.FF_Rayl_arr 1 = const3)
    (h4 : T.FF_Rayl_arr2 1 = const0) : Spec.FF_Rayl T 1 1 = .value 3 := by
  unfold Spec.FF_Rayl interp
  have e : (1 : Int).toNat = 1 := rfl
  have hz : zOk 1 = true := (zOk_iff 1).2 (by omega)
  have hq : ¬ ((1 : ℝ) = (0.0 : ℝ)) := by norm_num
  have hq' : (0.0 : ℝ) < 1 := by norm_num
  simp only [e, h1, h2, h3, h4, hz, deq_real, hq, and_false, if_false, Bool.true_and, hq', decide_true,
    show (2 : Int).toNat = 2 from rfl, wit_spline, id, show (0 : Int) < 2 by omega, if_true]

theorem wit_SF (T : Tables ℝ) (h1 : T.Nq_Compt 1 = 2) (h2 : T.q_Compt_arr 1 = knots01) (h3 : T.SF_Compt_arr 1 = const3)
    (h4 : T.SF_Compt_arr2 1 = const0) : Spec.SF_Compt T 1 1 = .value 3 := by
  unfold Spec.SF_Compt interp
  have e : (1 : Int).toNat = 1 := rfl
  have hz : zOk 1 = true := (zOk_iff 1).2 (by omega)
  have hq' : (0.0 : ℝ) < 1 := by norm_num
  simp only [e, h1, h2, h3, h4, hz, Bool.true_and, hq', decide_true,
    show (2 : Int).toNat = 2 from rfl, wit_spline, id, show (0 : Int) < 2 by omega, if_true]

theorem witT_aw : Spec.AtomicWeight witT 1 = .value 2 := by
  unfold Spec.AtomicWeight lookup1
  have hz : zOk 1 = true := (zOk_iff 1).2 (by omega)
  have : (0.0 : ℝ) < witT.AtomicWeight_arr (1 : Int).toNat := by show (0.0 : ℝ) < 2; norm_num
  rw [if_pos ⟨hz, this⟩]; rfl

theorem witW_aw : Spec.AtomicWeight witW 1 = .fails := by
  unfold Spec.AtomicWeight lookup1
  have : ¬ (0.0 : ℝ) < witW.AtomicWeight_arr (1 : Int).toNat := by show ¬ (0.0 : ℝ) < 0; norm_num
  rw [if_neg (fun h => this h.2)]

theorem kev_pos' : ¬ (Hdr.KEV2ANGST : ℝ) ≤ (0.0 : ℝ) := by
  have := KEV2ANGST_pos; norm_num; exact this

theorem wit_DCS_Rayl : Spec.DCS_Rayl witT 1 Hdr.KEV2ANGST π = .value (Hdr.AVOGNUM / 2 * (3 * 3) * thomsV π) := by
  unfold Spec.DCS_Rayl Spec.MomentTransf
  simp only [kev_pos', if_false, atQ, wit_q, wit_FF witT rfl rfl rfl rfl, sqE, witT_aw, Spec.DCS_Thoms, dcsOf]

theorem wit_DCS_Compt :
    Spec.DCS_Compt witT 1 Hdr.KEV2ANGST π = .value (Hdr.AVOGNUM / 2 * 3 * knV Hdr.KEV2ANGST π) := by
  unfold Spec.DCS_Compt Spec.MomentTransf Spec.DCS_KN
  simp only [kev_pos', if_false, atQ, wit_q, wit_SF witT rfl rfl rfl rfl, witT_aw, dcsOf]

theorem wit_DCSP_Rayl (φ : ℝ) :
    Spec.DCSP_Rayl witT 1 Hdr.KEV2ANGST π φ = .value (Hdr.AVOGNUM / 2 * (3 * 3) * thomsPV π φ) := by
  unfold Spec.DCSP_Rayl Spec.MomentTransf
  simp only [kev_pos', if_false, atQ, wit_q, wit_FF witT rfl rfl rfl rfl, sqE, witT_aw, Spec.DCSP_Thoms, dcsOf]

theorem wit_DCSP_Compt (φ : ℝ) :
    Spec.DCSP_Compt witT 1 Hdr.KEV2ANGST π φ = .value (Hdr.AVOGNUM / 2 * 3 * knPV Hdr.KEV2ANGST π φ) := by
  unfold Spec.DCSP_Compt Spec.MomentTransf Spec.DCSP_KN
  simp only [kev_pos', if_false, atQ, wit_q, wit_SF witT rfl rfl rfl rfl, witT_aw, dcsOf]

theorem witT_hW (x : Expect ℝ) : Spec.AtomicWeight witT 1 ≠ .fails := by rw [witT_aw]; simp

/-- `dcs_rayl_eq` on the instance: the model of the C function returns `N_A/2 · 9 · Thomson(π)`, slot untouched -/
example : Meets (Gen.DCS_Rayl witT 1 Hdr.KEV2ANGST π Slot.empty) Slot.empty
    (.value (Hdr.AVOGNUM / 2 * (3 * 3) * thomsV π)) := by
  have := dcs_rayl_eq witT 1 Hdr.KEV2ANGST π Slot.empty rfl wit_shape (fun _ _ => witT_hW .fails)
  rwa [wit_DCS_Rayl] at this

example : Meets (Gen.DCS_Compt witT 1 Hdr.KEV2ANGST π Slot.null) Slot.null
    (.value (Hdr.AVOGNUM / 2 * 3 * knV Hdr.KEV2ANGST π)) := by
  have := dcs_compt_eq witT 1 Hdr.KEV2ANGST π Slot.null rfl wit_shape (fun _ _ => witT_hW .fails)
  rwa [wit_DCS_Compt] at this

example : Meets (Gen.DCSP_Rayl witT 1 Hdr.KEV2ANGST π (π / 3) Slot.empty) Slot.empty
    (.value (Hdr.AVOGNUM / 2 * (3 * 3) * thomsPV π (π / 3))) := by
  have := dcsp_rayl_eq witT 1 Hdr.KEV2ANGST π (π / 3) Slot.empty rfl wit_shape (fun _ _ => witT_hW .fails)
  rwa [wit_DCSP_Rayl] at this

example : Meets (Gen.DCSP_Compt witT 1 Hdr.KEV2ANGST π (π / 3) Slot.empty) Slot.empty
    (.value (Hdr.AVOGNUM / 2 * 3 * knPV Hdr.KEV2ANGST π (π / 3))) := by
  have := dcsp_compt_eq witT 1 Hdr.KEV2ANGST π (π / 3) Slot.empty rfl wit_shape (fun _ _ => witT_hW .fails)
  rwa [wit_DCSP_Compt] at this

/-- a failing part: negative momentum transfer (`θ = −π`) — the form factor fails, so does the composite -/
example : Fails (Gen.DCS_Rayl witT 1 Hdr.KEV2ANGST (-π) Slot.empty) Slot.empty := by
  have := dcs_rayl_eq witT 1 Hdr.KEV2ANGST (-π) Slot.empty rfl wit_shape (fun _ _ => witT_hW .fails)
  have hq : momentV (Hdr.KEV2ANGST : ℝ) (-π) = -1 := by
    rw [momentV_real, div_self KEV2ANGST_pos.ne', neg_div, sin_neg, sin_pi_div_two, one_mul]
  have hF : Spec.FF_Rayl witT 1 (-1) = .fails := by
    unfold Spec.FF_Rayl interp
    have h1 : ¬ ((-1 : ℝ) = (0.0 : ℝ)) := by norm_num
    have h2 : ¬ (0.0 : ℝ) < -1 := by norm_num
    simp [deq_real, h1, h2]
  unfold Spec.DCS_Rayl Spec.MomentTransf at this
  simpa only [kev_pos', if_false, atQ, hq, hF, sqE, dcsOf_fails_mid, Meets] using this

/-- barn twin on the instance: `DCSb = DCS · A / N_A` -/
example : Meets (Gen.DCSb_Rayl witT 1 Hdr.KEV2ANGST π Slot.empty) Slot.empty
    (.value (Hdr.AVOGNUM / 2 * (3 * 3) * thomsV π * 2 / Hdr.AVOGNUM)) := by
  have := barn_twin_DCSb_Rayl witT 1 Hdr.KEV2ANGST π Slot.empty rfl wit_shape (fun _ _ => witT_hW .fails)
  unfold Spec.DCSb_Rayl at this
  rwa [wit_DCS_Rayl, witT_aw] at this

example : Meets (Gen.DCSPb_Compt witT 1 Hdr.KEV2ANGST π 0 Slot.null) Slot.null
    (.value (Hdr.AVOGNUM / 2 * 3 * knPV Hdr.KEV2ANGST π 0 * 2 / Hdr.AVOGNUM)) := by
  have := barn_twin_DCSPb_Compt witT 1 Hdr.KEV2ANGST π 0 Slot.null rfl wit_shape (fun _ _ => witT_hW .fails)
  unfold Spec.DCSPb_Compt at this
  rwa [wit_DCSP_Compt, witT_aw] at this

/-! ### the full statements are false: an element with a structure table and no weight -/

theorem dcs_rayl_witness :
    Gen.DCS_Rayl witW 1 Hdr.KEV2ANGST π Slot.empty = Except.error (Abort.nf "div0") :=
  dcs_rayl_div0 witW 1 _ π Slot.empty rfl (by omega) KEV2ANGST_pos 3 wit_shape
    (by rw [wit_q]; exact wit_FF witW rfl rfl rfl rfl) witW_aw

theorem dcs_rayl_full_fails : ¬ dcs_rayl_full := fun h =>
  not_meets_error Slot.empty _ (Spec.DCS_Rayl witW 1 Hdr.KEV2ANGST π) (by unfold Spec.DCS_Rayl; exact dcsOf_ne_any)
    (by have := h witW 1 Hdr.KEV2ANGST π Slot.empty rfl wit_shape; rwa [dcs_rayl_witness] at this)

theorem dcsp_rayl_full_fails : ¬ dcsp_rayl_full := fun h =>
  not_meets_error Slot.empty _ (Spec.DCSP_Rayl witW 1 Hdr.KEV2ANGST π 0) (by unfold Spec.DCSP_Rayl; exact dcsOf_ne_any)
    (by have := h witW 1 Hdr.KEV2ANGST π 0 Slot.empty rfl wit_shape
        rwa [dcsp_rayl_div0 witW 1 _ π 0 Slot.empty (by omega) KEV2ANGST_pos 3 wit_shape
          (by rw [wit_q]; exact wit_FF witW rfl rfl rfl rfl) witW_aw] at this)

theorem dcs_compt_full_fails : ¬ dcs_compt_full := fun h =>
  not_meets_error Slot.empty _ (Spec.DCS_Compt witW 1 Hdr.KEV2ANGST π) (by unfold Spec.DCS_Compt; exact dcsOf_ne_any)
    (by have := h witW 1 Hdr.KEV2ANGST π Slot.empty rfl wit_shape
        rwa [dcs_compt_div0 witW 1 _ π Slot.empty rfl (by omega) KEV2ANGST_pos 3 wit_shape
          (by rw [wit_q]; exact wit_SF witW rfl rfl rfl rfl) witW_aw] at this)

theorem dcsp_compt_full_fails : ¬ dcsp_compt_full := fun h =>
  not_meets_error Slot.empty _ (Spec.DCSP_Compt witW 1 Hdr.KEV2ANGST π 0) (by unfold Spec.DCSP_Compt; exact dcsOf_ne_any)
    (by have := h witW 1 Hdr.KEV2ANGST π 0 Slot.empty rfl wit_shape
        rwa [dcsp_compt_div0 witW 1 _ π 0 Slot.empty (by omega) KEV2ANGST_pos 3 wit_shape
          (by rw [wit_q]; exact wit_SF witW rfl rfl rfl rfl) witW_aw] at this)

/-- the executable data condition separates the two tables -/
example : weightOkB witT (decide (0 < witT.Nq_Rayl (1 : Int).toNat)) 1 = true ∧
    weightOkB witW (decide (0 < witW.Nq_Rayl (1 : Int).toNat)) 1 = false := by
  have hz : zOk 1 = true := (zOk_iff 1).2 (by omega)
  constructor
  · unfold weightOkB; simp only [hz, Bool.true_and, Bool.or_eq_true, decide_eq_true_eq]
    right; show (0.0 : ℝ) < 2; norm_num
  · unfold weightOkB
    have h1 : decide ((0 : Int) < witW.Nq_Rayl (1 : Int).toNat) = true := decide_eq_true (by show (0 : Int) < 2; omega)
    have h2 : decide ((0.0 : ℝ) < witW.AtomicWeight_arr (1 : Int).toNat) = false :=
      decide_eq_false (by show ¬ (0.0 : ℝ) < 0; norm_num)
    rw [hz, h1, h2]; rfl

end witness

end C05
end Xrl
