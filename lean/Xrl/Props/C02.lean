import Xrl.Lemmas.SplintSpec
import Xrl.Spec.Interp
import Xrl.Gen.F_cross_sections
import Xrl.Gen.F_scattering
import Xrl.Gen.F_fi
import Xrl.Gen.F_fii
import Xrl.Gen.F_comptonprofiles
/-!
# C02 — interpolated quantities follow the shipped spline and never extrapolate

`site_spec_<f>`: the function generated from the C source equals "guards ∘ transform ∘ spline ∘ inverse
transform" on **its own** table triple and count, for every table content satisfying the shape check
`vecOkB` (executed on the real tables by the driver on every run), every argument, every non-full slot.
`splint_spec` (Lemmas/SplintSpec) ties the bisection of `splint` to the specification's bracket.
-/
namespace Xrl
namespace C02
open Spec

set_option linter.unusedSimpArgs false
set_option linter.unusedVariables false


/-! ## The spline itself -/
section spline
variable (xa ya y2a : Vec ℝ) (n : Nat)

/-- outside `[x₁, xₙ + 1e-7]` there is no value, inside there is one -/
theorem spline_none_iff (x : ℝ) :
    spline xa ya y2a n x = none ↔ (x < knot xa 1 ∨ (1.0e-7 : ℝ) < x - knot xa n) := by
  unfold spline
  by_cases c1 : (1.0e-7 : ℝ) < x - knot xa n
  · simp [c1]
  · by_cases c2 : x < knot xa 1
    · simp [c1, c2]
    · simp only [c1, c2, if_false, or_self, iff_false]
      split_ifs <;> simp

/-- at a knot that is the last of its duplicates the interpolant equals the tabulated ordinate -/
theorem spline_at_knot (hs : SortedKnots xa n) (k : Nat) (hk : 1 ≤ k) (hkn : k < n)
    (hstrict : knot xa k < knot xa (k + 1)) :
    spline xa ya y2a n (knot xa k) = some (knot ya k) := by
  have hb := bracketLin_spec xa (knot xa k) (n - 1)
  obtain ⟨l1, l2, l3, l4⟩ := hb
  have hbk : bracketLin xa (knot xa k) (n - 1) = k := by
    set r := bracketLin xa (knot xa k) (n - 1)
    rcases Nat.lt_trichotomy r k with h | h | h
    · exfalso; have := l4 k h (by omega); exact lt_irrefl _ this
    · exact h
    · exfalso
      have hr : knot xa r ≤ knot xa k := by
        rcases l3 with h3 | h3
        · exact h3
        · omega
      have hmax : max (n - 1) 1 = n - 1 := by omega
      have := hs (k + 1) r (by omega) (by omega) (by omega)
      linarith
  have h1 : knot xa 1 ≤ knot xa k := hs 1 k (le_refl _) hk (by omega)
  have hn' : knot xa k ≤ knot xa n := hs k n hk (by omega) (le_refl _)
  unfold spline
  have c1 : ¬ (1.0e-7 : ℝ) < knot xa k - knot xa n := by norm_num; linarith
  have c2 : ¬ knot xa k < knot xa 1 := not_lt.mpr h1
  have c3 : ¬ n ≤ 1 := by omega
  simp only [c1, c2, c3, if_false, hbk]
  have hne : knot xa (k + 1) - knot xa k ≠ 0 := by linarith
  have c4 : ¬ deq (knot xa (k + 1) - knot xa k) (0.0 : ℝ) := by
    rw [deq_real]; norm_num; exact hne
  simp only [c4, if_false, splintCubic]
  congr 1
  have e1 : (knot xa (k + 1) - knot xa k) / (knot xa (k + 1) - knot xa k) = 1 := div_self hne
  have e2 : (knot xa k - knot xa k) / (knot xa (k + 1) - knot xa k) = 0 := by simp
  simp only [e1, e2]
  norm_num

theorem spline_at_last_knot (hs : SortedKnots xa n) (hn : 2 ≤ n) (hstrict : knot xa (n - 1) < knot xa n) :
    spline xa ya y2a n (knot xa n) = some (knot ya n) := by
  have hb := bracketLin_spec xa (knot xa n) (n - 1)
  obtain ⟨l1, l2, l3, l4⟩ := hb
  have hmax : max (n - 1) 1 = n - 1 := by omega
  have hbk : bracketLin xa (knot xa n) (n - 1) = n - 1 := by
    set r := bracketLin xa (knot xa n) (n - 1)
    rcases Nat.lt_or_ge r (n - 1) with h | h
    · exfalso; have := l4 (n - 1) h (le_refl _); linarith
    · omega
  have h1 : knot xa 1 ≤ knot xa n := hs 1 n (le_refl _) (by omega) (le_refl _)
  unfold spline
  have c1 : ¬ (1.0e-7 : ℝ) < knot xa n - knot xa n := by norm_num
  have c2 : ¬ knot xa n < knot xa 1 := not_lt.mpr h1
  have c3 : ¬ n ≤ 1 := by omega
  have e : n - 1 + 1 = n := by omega
  simp only [c1, c2, c3, if_false, hbk, e]
  have hne : knot xa n - knot xa (n - 1) ≠ 0 := by linarith
  have c4 : ¬ deq (knot xa n - knot xa (n - 1)) (0.0 : ℝ) := by
    rw [deq_real]; norm_num; exact hne
  simp only [c4, if_false, splintCubic]
  congr 1
  have e1 : (knot xa n - knot xa (n - 1)) / (knot xa n - knot xa (n - 1)) = 1 := div_self hne
  have e2 : (knot xa n - knot xa n) / (knot xa n - knot xa (n - 1)) = 0 := by simp
  simp only [e1, e2]
  norm_num

end spline

/-! ## "Never extrapolates": full statement, its failure, and the part that holds

The property says a call fails for every argument outside the tabulated range.  `splint` (src/splint.c:52)
accepts `x − xₙ ≤ 1e-7` and evaluates the last cubic beyond its knot, so the full statement is false; the
witness below is replayed on the real library by the check (known finding C02/splint-slack).  What holds is
`no_extrapolation_partial`: failure outside `[x₁, xₙ + 1e-7]`. -/

def no_extrapolation_full : Prop :=
  ∀ (xa ya y2a : Vec ℝ) (n : Nat) (x : ℝ), SortedKnots xa n → 2 ≤ n → knot xa n < x → spline xa ya y2a n x = none

def wit : Vec ℝ := ⟨2, fun k => if k = 0 then 0 else 1⟩

theorem no_extrapolation_full_fails : ¬ no_extrapolation_full := by
  intro h
  have := h wit wit wit 2 (1 + 5.0e-8) (by
    intro i j hi hij hj
    have : (i = 1 ∨ i = 2) ∧ (j = 1 ∨ j = 2) := by omega
    rcases this with ⟨rfl | rfl, rfl | rfl⟩ <;> simp [knot, wit] <;> omega) (le_refl _) (by simp [knot, wit]; norm_num)
  rw [spline_none_iff] at this
  simp [knot, wit] at this
  norm_num at this

theorem no_extrapolation_partial (xa ya y2a : Vec ℝ) (n : Nat) (x : ℝ)
    (h : x < knot xa 1 ∨ (1.0e-7 : ℝ) < x - knot xa n) : spline xa ya y2a n x = none :=
  (spline_none_iff xa ya y2a n x).mpr h

/-! ## The call sites -/
variable (T : Tables ℝ) (Z : Int) (E : ℝ) (error : Slot) (he : error.isFull = false)
include he

theorem site_spec_CS_Photo
    (hs : vecOkB (T.E_Photo_arr Z.toNat) (T.CS_Photo_arr Z.toNat) (T.CS_Photo_arr2 Z.toNat) (T.NE_Photo Z.toNat) = true) :
    Meets (Gen.CS_Photo T Z E error) error (Spec.CS_Photo T Z E) := by
  unfold Gen.CS_Photo Spec.CS_Photo interp zOk
  c02_site (T.NE_Photo Z.toNat), (T.E_Photo_arr Z.toNat), (T.CS_Photo_arr Z.toNat), (T.CS_Photo_arr2 Z.toNat), hs, he

theorem site_spec_CS_Rayl
    (hs : vecOkB (T.E_Rayl_arr Z.toNat) (T.CS_Rayl_arr Z.toNat) (T.CS_Rayl_arr2 Z.toNat) (T.NE_Rayl Z.toNat) = true) :
    Meets (Gen.CS_Rayl T Z E error) error (Spec.CS_Rayl T Z E) := by
  unfold Gen.CS_Rayl Spec.CS_Rayl interp zOk
  c02_site (T.NE_Rayl Z.toNat), (T.E_Rayl_arr Z.toNat), (T.CS_Rayl_arr Z.toNat), (T.CS_Rayl_arr2 Z.toNat), hs, he

theorem site_spec_CS_Compt
    (hs : vecOkB (T.E_Compt_arr Z.toNat) (T.CS_Compt_arr Z.toNat) (T.CS_Compt_arr2 Z.toNat) (T.NE_Compt Z.toNat) = true) :
    Meets (Gen.CS_Compt T Z E error) error (Spec.CS_Compt T Z E) := by
  unfold Gen.CS_Compt Spec.CS_Compt interp zOk
  c02_site (T.NE_Compt Z.toNat), (T.E_Compt_arr Z.toNat), (T.CS_Compt_arr Z.toNat), (T.CS_Compt_arr2 Z.toNat), hs, he

theorem site_spec_CS_Energy
    (hs : vecOkB (T.E_Energy_arr Z.toNat) (T.CS_Energy_arr Z.toNat) (T.CS_Energy_arr2 Z.toNat) (T.NE_Energy Z.toNat) = true) :
    Meets (Gen.CS_Energy T Z E error) error (Spec.CS_Energy T Z E) := by
  unfold Gen.CS_Energy Spec.CS_Energy interp
  c02_site (T.NE_Energy Z.toNat), (T.E_Energy_arr Z.toNat), (T.CS_Energy_arr Z.toNat), (T.CS_Energy_arr2 Z.toNat), hs, he

theorem site_spec_Fi
    (hs : vecOkB (T.E_Fi_arr Z.toNat) (T.Fi_arr Z.toNat) (T.Fi_arr2 Z.toNat) (T.NE_Fi Z.toNat) = true) :
    Meets (Gen.Fi T Z E error) error (Spec.Fi T Z E) := by
  unfold Gen.Fi Spec.Fi interp zOk
  c02_site (T.NE_Fi Z.toNat), (T.E_Fi_arr Z.toNat), (T.Fi_arr Z.toNat), (T.Fi_arr2 Z.toNat), hs, he

theorem site_spec_Fii
    (hs : vecOkB (T.E_Fii_arr Z.toNat) (T.Fii_arr Z.toNat) (T.Fii_arr2 Z.toNat) (T.NE_Fii Z.toNat) = true) :
    Meets (Gen.Fii T Z E error) error (Spec.Fii T Z E) := by
  unfold Gen.Fii Spec.Fii interp zOk
  c02_site (T.NE_Fii Z.toNat), (T.E_Fii_arr Z.toNat), (T.Fii_arr Z.toNat), (T.Fii_arr2 Z.toNat), hs, he

theorem site_spec_FF_Rayl
    (hs : vecOkB (T.q_Rayl_arr Z.toNat) (T.FF_Rayl_arr Z.toNat) (T.FF_Rayl_arr2 Z.toNat) (T.Nq_Rayl Z.toNat) = true) :
    Meets (Gen.FF_Rayl T Z E error) error (Spec.FF_Rayl T Z E) := by
  unfold Gen.FF_Rayl Spec.FF_Rayl interp zOk
  c02_site (T.Nq_Rayl Z.toNat), (T.q_Rayl_arr Z.toNat), (T.FF_Rayl_arr Z.toNat), (T.FF_Rayl_arr2 Z.toNat), hs, he

theorem site_spec_SF_Compt
    (hs : vecOkB (T.q_Compt_arr Z.toNat) (T.SF_Compt_arr Z.toNat) (T.SF_Compt_arr2 Z.toNat) (T.Nq_Compt Z.toNat) = true) :
    Meets (Gen.SF_Compt T Z E error) error (Spec.SF_Compt T Z E) := by
  unfold Gen.SF_Compt Spec.SF_Compt interp zOk
  c02_site (T.Nq_Compt Z.toNat), (T.q_Compt_arr Z.toNat), (T.SF_Compt_arr Z.toNat), (T.SF_Compt_arr2 Z.toNat), hs, he

theorem site_spec_ComptonProfile
    (hs : vecOkB (T.pz_ComptonProfiles Z.toNat) (T.Total_ComptonProfiles Z.toNat) (T.Total_ComptonProfiles2 Z.toNat)
      (T.Npz_ComptonProfiles Z.toNat) = true)
    (hN : 0 ≤ T.NShells_ComptonProfiles Z.toNat → 1 ≤ T.Npz_ComptonProfiles Z.toNat) :
    Meets (Gen.ComptonProfile T Z E error) error (Spec.ComptonProfile T Z E) := by
  unfold Gen.ComptonProfile Spec.ComptonProfile interp zOk
  c02_site (T.Npz_ComptonProfiles Z.toNat), (T.pz_ComptonProfiles Z.toNat), (T.Total_ComptonProfiles Z.toNat), (T.Total_ComptonProfiles2 Z.toNat), hs, he

end C02
end Xrl
