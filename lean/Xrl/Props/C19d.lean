import Xrl.Props.C19c
/-!
# C19 (fourth file) — `CS(b)_FluorLine_Kissel*`: the four devirtualised `execute` bodies of `CS_FluorLine_Kissel_Body`

Per instance: the dispatch over `line_mappings` (Java `for (LineMapping mapping : line_mappings)` with `return`, C `for` over the static
table with `return`) is unrolled on both sides and flattened to one `if` chain over the nine line ranges; `LA_LINE`; the L-beta group:
C calls itself on each of its 13 member lines with `NULL` and adds the numbers, Java adds `RadRate(line) * CS_FluorShell_Kissel_x(shell)`
inside `try { } catch (Exception e)` — related member by member (`MemberRel`).  The proof text is uniform over the four instances
(produced by a script); every theorem is about the generated definitions.
-/
set_option linter.unusedSimpArgs false
set_option linter.unusedVariables false
set_option linter.unusedSectionVars false
set_option linter.unusedTactic false
namespace Xrl
namespace C19

/-- `jeq_use` for a callee whose value is never 0 -/
macro "jeq_use_nz'" h:term "," p:term : tactic =>
  `(tactic| (rcases (JRel.cases $h) with ⟨v, hc, hj⟩ | ⟨e, hc, hj⟩ | ⟨a, b, hc, hj⟩ | ⟨a, hc⟩ <;>
      [(have hne := JNz.ne $p hj); (jeq_auto; done); (jeq_auto; done); (jeq_auto; done)]))

/-- one member line of the L-beta group on both sides -/
def MemberRel (j : ℝ → JM ℝ) (c : M (ℝ × Slot)) : Prop :=
  (∃ w, c = Except.ok (w, Slot.null) ∧ ∀ rv, j rv = Except.ok (rv + w)) ∨
  (∃ a b, c = Except.error (.nf a) ∧ ∀ rv, j rv = Except.error (.nf b)) ∨ (∃ a, c = Except.error (.ub a))

theorem member_val {P : JM ℝ} {Q : ℝ → JM ℝ} {v : ℝ} (h : (P >>= fun r => Q r >>= fun f => Except.ok (r * f)) = Except.ok v) (rv : ℝ) :
    jtryAll (P >>= fun r => Q r >>= fun f => Except.ok (rv + r * f)) (Except.ok rv) = Except.ok (rv + v) := by
  cases P with
  | error e => cases h
  | ok r =>
    simp only [jbind_ok] at h ⊢
    cases hq : Q r with
    | error e => rw [hq] at h; cases h
    | ok f => rw [hq] at h; simp only [jbind_ok] at h ⊢; cases h; rfl
theorem member_iae {P : JM ℝ} {Q : ℝ → JM ℝ} {x : String} (h : (P >>= fun r => Q r >>= fun f => Except.ok (r * f)) = Except.error (.iae x)) (rv : ℝ) :
    jtryAll (P >>= fun r => Q r >>= fun f => Except.ok (rv + r * f)) (Except.ok rv) = Except.ok (rv + 0) := by
  rw [add_zero]
  cases P with
  | error e => simp only [jbind_error] at h ⊢; cases h; rfl
  | ok r =>
    simp only [jbind_ok] at h ⊢
    cases hq : Q r with
    | error e => rw [hq] at h; simp only [jbind_error] at h ⊢; cases h; rfl
    | ok f => rw [hq] at h; cases h
theorem member_nf {P : JM ℝ} {Q : ℝ → JM ℝ} {x : String} (h : (P >>= fun r => Q r >>= fun f => Except.ok (r * f)) = Except.error (.nf x)) (rv : ℝ) :
    jtryAll (P >>= fun r => Q r >>= fun f => Except.ok (rv + r * f)) (Except.ok rv) = Except.error (.nf x) := by
  cases P with
  | error e => simp only [jbind_error] at h ⊢; cases h; rfl
  | ok r =>
    simp only [jbind_ok] at h ⊢
    cases hq : Q r with
    | error e => rw [hq] at h; simp only [jbind_error] at h ⊢; cases h; rfl
    | ok f => rw [hq] at h; cases h

section kline
variable (T : Tables ℝ) (Z : Int) (hZ : inI32 Z) (E : ℝ) (s : Slot) (hs : s.isFull = false)
include hZ hs


theorem shell_FULL (k : Int) (hk9 : inI32 k) (hk : KAllOk T Z) (ht : ∀ k : Int, 0 ≤ k → k < 9 → JTame (JGen.CS_Photo_Partial (JTables.ofC T) Z k E)) :
    JRel (JGen.CS_FluorShell_Kissel_Cascade (JTables.ofC T) Z k E) (Gen.CS_FluorShell_Kissel_Cascade T Z k E s) s := java_eq_c_CS_FluorShell_Kissel_Cascade T Z hZ E s hs k hk9 hk ht

omit hs in
theorem exec_range_FULL_1 (l : Int) (hr : -58 ≤ l ∧ l ≤ -30) (hz : ¬(Z < 1 ∨ Z > 120)) (hE : ¬ E ≤ 0) :
    JGen.CS_FLUORLINE_KISSEL_FULL__execute (JTables.ofC T) Z l E =
      (JGen.RadRate (JTables.ofC T) Z l >>= fun r => JGen.CS_FluorShell_Kissel_Cascade (JTables.ofC T) Z 1 E >>= fun f => Except.ok (r * f)) := by
  unfold JGen.CS_FLUORLINE_KISSEL_FULL__execute
  jeq_normJ
  simp only [hz, hE, ↓reduceIte, zero_lit]
  simp only [JStatic.line_mappings, jforEachCtlM]
  simp only [ite_bindJ, jpure_eq_ok, jbind_ok, ge_iff_le, bind_assoc]
  have r0 : ¬ (-29 ≤ l ∧ l ≤ 1) := by omega
  simp only [if_neg r0, if_pos hr]

omit hs in
theorem exec_range_FULL_2 (l : Int) (hr : -85 ≤ l ∧ l ≤ -59) (hz : ¬(Z < 1 ∨ Z > 120)) (hE : ¬ E ≤ 0) :
    JGen.CS_FLUORLINE_KISSEL_FULL__execute (JTables.ofC T) Z l E =
      (JGen.RadRate (JTables.ofC T) Z l >>= fun r => JGen.CS_FluorShell_Kissel_Cascade (JTables.ofC T) Z 2 E >>= fun f => Except.ok (r * f)) := by
  unfold JGen.CS_FLUORLINE_KISSEL_FULL__execute
  jeq_normJ
  simp only [hz, hE, ↓reduceIte, zero_lit]
  simp only [JStatic.line_mappings, jforEachCtlM]
  simp only [ite_bindJ, jpure_eq_ok, jbind_ok, ge_iff_le, bind_assoc]
  have r0 : ¬ (-29 ≤ l ∧ l ≤ 1) := by omega
  have r1 : ¬ (-58 ≤ l ∧ l ≤ -30) := by omega
  simp only [if_neg r0, if_neg r1, if_pos hr]

omit hs in
theorem exec_range_FULL_3 (l : Int) (hr : -113 ≤ l ∧ l ≤ -86) (hz : ¬(Z < 1 ∨ Z > 120)) (hE : ¬ E ≤ 0) :
    JGen.CS_FLUORLINE_KISSEL_FULL__execute (JTables.ofC T) Z l E =
      (JGen.RadRate (JTables.ofC T) Z l >>= fun r => JGen.CS_FluorShell_Kissel_Cascade (JTables.ofC T) Z 3 E >>= fun f => Except.ok (r * f)) := by
  unfold JGen.CS_FLUORLINE_KISSEL_FULL__execute
  jeq_normJ
  simp only [hz, hE, ↓reduceIte, zero_lit]
  simp only [JStatic.line_mappings, jforEachCtlM]
  simp only [ite_bindJ, jpure_eq_ok, jbind_ok, ge_iff_le, bind_assoc]
  have r0 : ¬ (-29 ≤ l ∧ l ≤ 1) := by omega
  have r1 : ¬ (-58 ≤ l ∧ l ≤ -30) := by omega
  have r2 : ¬ (-85 ≤ l ∧ l ≤ -59) := by omega
  simp only [if_neg r0, if_neg r1, if_neg r2, if_pos hr]

theorem line_FULL_nonLB (m : Int) (hm : inI32 m) (h3 : m ≠ 3) (hk : KAllOk T Z) (ht : ∀ k : Int, 0 ≤ k → k < 9 → JTame (JGen.CS_Photo_Partial (JTables.ofC T) Z k E)) :
    JRel (JGen.CS_FLUORLINE_KISSEL_FULL__execute (JTables.ofC T) Z m E) (Gen.CS_FluorLine_Kissel_Cascade T Z m E s) s := by
  unfold Gen.CS_FluorLine_Kissel_Cascade FUEL
  jeq_start JGen.CS_FLUORLINE_KISSEL_FULL__execute Gen.CS_FluorLine_Kissel_Cascade_fuel
  by_cases hz : Z < 1 ∨ Z > 120
  · jeq_auto
  by_cases hE : E ≤ 0
  · jeq_auto
  simp only [hz, hE, ↓reduceIte, zero_lit]
  simp only [JStatic.line_mappings, jforEachCtlM]
  simp only [loopCtlM, Int.reduceSub, Int.reduceToNat, Int.sub_zero, List.range_succ, List.range_zero, List.nil_append, List.cons_append, loopCtlGo,
    rd1, Static.line_mappings_line_lower, Static.line_mappings_line_upper, Static.line_mappings_shell,
    Static.line_mappings_line_lower_list, Static.line_mappings_line_upper_list, Static.line_mappings_shell_list]
  have tn : ∀ k : Nat, Int.toNat (OfNat.ofNat k) = k := fun k => rfl
  norm_num [List.getD, tn]
  clear tn
  simp only [c_short_and, decide_eq_true_eq]
  simp only [ite_bindJ, ite_bindC, jpure_eq_ok, pure_eq_ok, jbind_ok, bind_ok, ge_iff_le, bind_assoc]
  by_cases r0 : -29 ≤ m ∧ m ≤ 1
  · simp only [if_pos r0]
    clear r0
    have hsh := shell_FULL T Z hZ E s hs 0 (by decide) hk ht
    jeq_use_nz' (java_eq_c_RadRate T Z m hZ hm s hs), (java_nz_RadRate T Z hZ m hm)
    jeq_simp
    jeq_use hsh
    jeq_auto
  by_cases r1 : -58 ≤ m ∧ m ≤ -30
  · simp only [if_neg r0, if_pos r1]
    clear r0 r1
    have hsh := shell_FULL T Z hZ E s hs 1 (by decide) hk ht
    jeq_use_nz' (java_eq_c_RadRate T Z m hZ hm s hs), (java_nz_RadRate T Z hZ m hm)
    jeq_simp
    jeq_use hsh
    jeq_auto
  by_cases r2 : -85 ≤ m ∧ m ≤ -59
  · simp only [if_neg r0, if_neg r1, if_pos r2]
    clear r0 r1 r2
    have hsh := shell_FULL T Z hZ E s hs 2 (by decide) hk ht
    jeq_use_nz' (java_eq_c_RadRate T Z m hZ hm s hs), (java_nz_RadRate T Z hZ m hm)
    jeq_simp
    jeq_use hsh
    jeq_auto
  by_cases r3 : -113 ≤ m ∧ m ≤ -86
  · simp only [if_neg r0, if_neg r1, if_neg r2, if_pos r3]
    clear r0 r1 r2 r3
    have hsh := shell_FULL T Z hZ E s hs 3 (by decide) hk ht
    jeq_use_nz' (java_eq_c_RadRate T Z m hZ hm s hs), (java_nz_RadRate T Z hZ m hm)
    jeq_simp
    jeq_use hsh
    jeq_auto
  by_cases r4 : -136 ≤ m ∧ m ≤ -118
  · simp only [if_neg r0, if_neg r1, if_neg r2, if_neg r3, if_pos r4]
    clear r0 r1 r2 r3 r4
    have hsh := shell_FULL T Z hZ E s hs 4 (by decide) hk ht
    jeq_use_nz' (java_eq_c_RadRate T Z m hZ hm s hs), (java_nz_RadRate T Z hZ m hm)
    jeq_simp
    jeq_use hsh
    jeq_auto
  by_cases r5 : -158 ≤ m ∧ m ≤ -140
  · simp only [if_neg r0, if_neg r1, if_neg r2, if_neg r3, if_neg r4, if_pos r5]
    clear r0 r1 r2 r3 r4 r5
    have hsh := shell_FULL T Z hZ E s hs 5 (by decide) hk ht
    jeq_use_nz' (java_eq_c_RadRate T Z m hZ hm s hs), (java_nz_RadRate T Z hZ m hm)
    jeq_simp
    jeq_use hsh
    jeq_auto
  by_cases r6 : -180 ≤ m ∧ m ≤ -161
  · simp only [if_neg r0, if_neg r1, if_neg r2, if_neg r3, if_neg r4, if_neg r5, if_pos r6]
    clear r0 r1 r2 r3 r4 r5 r6
    have hsh := shell_FULL T Z hZ E s hs 6 (by decide) hk ht
    jeq_use_nz' (java_eq_c_RadRate T Z m hZ hm s hs), (java_nz_RadRate T Z hZ m hm)
    jeq_simp
    jeq_use hsh
    jeq_auto
  by_cases r7 : -200 ≤ m ∧ m ≤ -182
  · simp only [if_neg r0, if_neg r1, if_neg r2, if_neg r3, if_neg r4, if_neg r5, if_neg r6, if_pos r7]
    clear r0 r1 r2 r3 r4 r5 r6 r7
    have hsh := shell_FULL T Z hZ E s hs 7 (by decide) hk ht
    jeq_use_nz' (java_eq_c_RadRate T Z m hZ hm s hs), (java_nz_RadRate T Z hZ m hm)
    jeq_simp
    jeq_use hsh
    jeq_auto
  by_cases r8 : -219 ≤ m ∧ m ≤ -201
  · simp only [if_neg r0, if_neg r1, if_neg r2, if_neg r3, if_neg r4, if_neg r5, if_neg r6, if_neg r7, if_pos r8]
    clear r0 r1 r2 r3 r4 r5 r6 r7 r8
    have hsh := shell_FULL T Z hZ E s hs 8 (by decide) hk ht
    jeq_use_nz' (java_eq_c_RadRate T Z m hZ hm s hs), (java_nz_RadRate T Z hZ m hm)
    jeq_simp
    jeq_use hsh
    jeq_auto
  simp only [if_neg r0, if_neg r1, if_neg r2, if_neg r3, if_neg r4, if_neg r5, if_neg r6, if_neg r7, if_neg r8]
  clear r0 r1 r2 r3 r4 r5 r6 r7 r8
  by_cases r9 : m = 2
  · subst r9
    have hsh := shell_FULL T Z hZ E s hs 3 (by decide) hk ht
    jeq_use_nz' (java_eq_c_RadRate T Z 2 hZ hm s hs), (java_nz_RadRate T Z hZ 2 hm)
    jeq_simp
    jeq_use hsh
    jeq_auto
  simp only [if_neg r9, if_neg h3]
  jeq_auto

omit hs in
theorem member_FULL_1 (l : Int) (hl : inI32 l) (hr : -58 ≤ l ∧ l ≤ -30) (hz : ¬(Z < 1 ∨ Z > 120)) (hE : ¬ E ≤ 0) (hk : KAllOk T Z) (ht : ∀ k : Int, 0 ≤ k → k < 9 → JTame (JGen.CS_Photo_Partial (JTables.ofC T) Z k E)) :
    MemberRel (fun rv => jtryAll (JGen.RadRate (JTables.ofC T) Z l >>= fun r => JGen.CS_FluorShell_Kissel_Cascade (JTables.ofC T) Z 1 E >>= fun f => Except.ok (rv + r * f)) (Except.ok rv))
      (Gen.CS_FluorLine_Kissel_Cascade T Z l E Slot.null) := by
  have h := line_FULL_nonLB T Z hZ E Slot.null rfl l hl (by omega) hk ht
  rw [exec_range_FULL_1 T Z hZ E l hr hz hE] at h
  rcases h.cases with ⟨v, hc, hj⟩ | ⟨e, hc, hj⟩ | ⟨a, b, hc, hj⟩ | ⟨a, hc⟩
  · refine Or.inl ⟨v, hc, fun rv => ?_⟩
    exact member_val hj rv
  · refine Or.inl ⟨0, hc, fun rv => ?_⟩
    exact member_iae hj rv
  · refine Or.inr (Or.inl ⟨a, b, hc, fun rv => ?_⟩)
    exact member_nf hj rv
  · exact Or.inr (Or.inr ⟨a, hc⟩)

omit hs in
theorem member_FULL_2 (l : Int) (hl : inI32 l) (hr : -85 ≤ l ∧ l ≤ -59) (hz : ¬(Z < 1 ∨ Z > 120)) (hE : ¬ E ≤ 0) (hk : KAllOk T Z) (ht : ∀ k : Int, 0 ≤ k → k < 9 → JTame (JGen.CS_Photo_Partial (JTables.ofC T) Z k E)) :
    MemberRel (fun rv => jtryAll (JGen.RadRate (JTables.ofC T) Z l >>= fun r => JGen.CS_FluorShell_Kissel_Cascade (JTables.ofC T) Z 2 E >>= fun f => Except.ok (rv + r * f)) (Except.ok rv))
      (Gen.CS_FluorLine_Kissel_Cascade T Z l E Slot.null) := by
  have h := line_FULL_nonLB T Z hZ E Slot.null rfl l hl (by omega) hk ht
  rw [exec_range_FULL_2 T Z hZ E l hr hz hE] at h
  rcases h.cases with ⟨v, hc, hj⟩ | ⟨e, hc, hj⟩ | ⟨a, b, hc, hj⟩ | ⟨a, hc⟩
  · refine Or.inl ⟨v, hc, fun rv => ?_⟩
    exact member_val hj rv
  · refine Or.inl ⟨0, hc, fun rv => ?_⟩
    exact member_iae hj rv
  · refine Or.inr (Or.inl ⟨a, b, hc, fun rv => ?_⟩)
    exact member_nf hj rv
  · exact Or.inr (Or.inr ⟨a, hc⟩)

omit hs in
theorem member_FULL_3 (l : Int) (hl : inI32 l) (hr : -113 ≤ l ∧ l ≤ -86) (hz : ¬(Z < 1 ∨ Z > 120)) (hE : ¬ E ≤ 0) (hk : KAllOk T Z) (ht : ∀ k : Int, 0 ≤ k → k < 9 → JTame (JGen.CS_Photo_Partial (JTables.ofC T) Z k E)) :
    MemberRel (fun rv => jtryAll (JGen.RadRate (JTables.ofC T) Z l >>= fun r => JGen.CS_FluorShell_Kissel_Cascade (JTables.ofC T) Z 3 E >>= fun f => Except.ok (rv + r * f)) (Except.ok rv))
      (Gen.CS_FluorLine_Kissel_Cascade T Z l E Slot.null) := by
  have h := line_FULL_nonLB T Z hZ E Slot.null rfl l hl (by omega) hk ht
  rw [exec_range_FULL_3 T Z hZ E l hr hz hE] at h
  rcases h.cases with ⟨v, hc, hj⟩ | ⟨e, hc, hj⟩ | ⟨a, b, hc, hj⟩ | ⟨a, hc⟩
  · refine Or.inl ⟨v, hc, fun rv => ?_⟩
    exact member_val hj rv
  · refine Or.inl ⟨0, hc, fun rv => ?_⟩
    exact member_iae hj rv
  · refine Or.inr (Or.inl ⟨a, b, hc, fun rv => ?_⟩)
    exact member_nf hj rv
  · exact Or.inr (Or.inr ⟨a, hc⟩)

theorem line_FULL_LB (hk : KAllOk T Z) (ht : ∀ k : Int, 0 ≤ k → k < 9 → JTame (JGen.CS_Photo_Partial (JTables.ofC T) Z k E)) :
    JRel (JGen.CS_FLUORLINE_KISSEL_FULL__execute (JTables.ofC T) Z 3 E) (Gen.CS_FluorLine_Kissel_Cascade T Z 3 E s) s := by
  unfold Gen.CS_FluorLine_Kissel_Cascade FUEL
  jeq_start JGen.CS_FLUORLINE_KISSEL_FULL__execute Gen.CS_FluorLine_Kissel_Cascade_fuel
  by_cases hz : Z < 1 ∨ Z > 120
  · jeq_auto
  by_cases hE : E ≤ 0
  · jeq_auto
  simp only [hz, hE, ↓reduceIte, zero_lit]
  simp only [JStatic.line_mappings, jforEachCtlM]
  simp only [loopCtlM, Int.reduceSub, Int.reduceToNat, Int.sub_zero, List.range_succ, List.range_zero, List.nil_append, List.cons_append, loopCtlGo,
    rd1, Static.line_mappings_line_lower, Static.line_mappings_line_upper, Static.line_mappings_shell,
    Static.line_mappings_line_lower_list, Static.line_mappings_line_upper_list, Static.line_mappings_shell_list]
  have tn : ∀ k : Nat, Int.toNat (OfNat.ofNat k) = k := fun k => rfl
  simp only [loopM, Int.reduceSub, Int.reduceToNat, Int.sub_zero, List.range_succ, List.range_zero,
    List.nil_append, List.cons_append, List.foldlM_cons, List.foldlM_nil, Static.LB_LINE_MACROS, Static.LB_LINE_MACROS_list]
  norm_num [List.getD, tn]
  clear tn
  have hfold : Gen.CS_FluorLine_Kissel_Cascade_fuel 5 T Z = Gen.CS_FluorLine_Kissel_Cascade T Z := by funext l e sl; unfold Gen.CS_FluorLine_Kissel_Cascade FUEL; rfl
  simp only [hfold, JStatic.lb_pairs, jforEachM, List.foldlM_cons, List.foldlM_nil, jpure_eq_ok, pure_eq_ok, jbind_ret, bind_assoc]
  rcases member_FULL_2 T Z hZ E (-63) (by decide) (by decide) hz hE hk ht with ⟨w0, hc0, hj0⟩ | ⟨a, b, hc0, hj0⟩ | ⟨a, hc0⟩
  rotate_left
  · dsimp only at hj0
    simp only [hc0, hj0, bind_ok, jbind_ok, bind_error, jbind_error]; exact JRel.nf
  · simp only [hc0, bind_ok, bind_error]; exact JRel.ub
  dsimp only at hj0
  simp only [hc0, hj0, bind_ok, jbind_ok]
  rcases member_FULL_3 T Z hZ E (-95) (by decide) (by decide) hz hE hk ht with ⟨w1, hc1, hj1⟩ | ⟨a, b, hc1, hj1⟩ | ⟨a, hc1⟩
  rotate_left
  · dsimp only at hj1
    simp only [hc1, hj1, bind_ok, jbind_ok, bind_error, jbind_error]; exact JRel.nf
  · simp only [hc1, bind_ok, bind_error]; exact JRel.ub
  dsimp only at hj1
  simp only [hc1, hj1, bind_ok, jbind_ok]
  rcases member_FULL_1 T Z hZ E (-34) (by decide) (by decide) hz hE hk ht with ⟨w2, hc2, hj2⟩ | ⟨a, b, hc2, hj2⟩ | ⟨a, hc2⟩
  rotate_left
  · dsimp only at hj2
    simp only [hc2, hj2, bind_ok, jbind_ok, bind_error, jbind_error]; exact JRel.nf
  · simp only [hc2, bind_ok, bind_error]; exact JRel.ub
  dsimp only at hj2
  simp only [hc2, hj2, bind_ok, jbind_ok]
  rcases member_FULL_1 T Z hZ E (-33) (by decide) (by decide) hz hE hk ht with ⟨w3, hc3, hj3⟩ | ⟨a, b, hc3, hj3⟩ | ⟨a, hc3⟩
  rotate_left
  · dsimp only at hj3
    simp only [hc3, hj3, bind_ok, jbind_ok, bind_error, jbind_error]; exact JRel.nf
  · simp only [hc3, bind_ok, bind_error]; exact JRel.ub
  dsimp only at hj3
  simp only [hc3, hj3, bind_ok, jbind_ok]
  rcases member_FULL_3 T Z hZ E (-102) (by decide) (by decide) hz hE hk ht with ⟨w4, hc4, hj4⟩ | ⟨a, b, hc4, hj4⟩ | ⟨a, hc4⟩
  rotate_left
  · dsimp only at hj4
    simp only [hc4, hj4, bind_ok, jbind_ok, bind_error, jbind_error]; exact JRel.nf
  · simp only [hc4, bind_ok, bind_error]; exact JRel.ub
  dsimp only at hj4
  simp only [hc4, hj4, bind_ok, jbind_ok]
  rcases member_FULL_3 T Z hZ E (-91) (by decide) (by decide) hz hE hk ht with ⟨w5, hc5, hj5⟩ | ⟨a, b, hc5, hj5⟩ | ⟨a, hc5⟩
  rotate_left
  · dsimp only at hj5
    simp only [hc5, hj5, bind_ok, jbind_ok, bind_error, jbind_error]; exact JRel.nf
  · simp only [hc5, bind_ok, bind_error]; exact JRel.ub
  dsimp only at hj5
  simp only [hc5, hj5, bind_ok, jbind_ok]
  rcases member_FULL_3 T Z hZ E (-98) (by decide) (by decide) hz hE hk ht with ⟨w6, hc6, hj6⟩ | ⟨a, b, hc6, hj6⟩ | ⟨a, hc6⟩
  rotate_left
  · dsimp only at hj6
    simp only [hc6, hj6, bind_ok, jbind_ok, bind_error, jbind_error]; exact JRel.nf
  · simp only [hc6, bind_ok, bind_error]; exact JRel.ub
  dsimp only at hj6
  simp only [hc6, hj6, bind_ok, jbind_ok]
  rcases member_FULL_1 T Z hZ E (-36) (by decide) (by decide) hz hE hk ht with ⟨w7, hc7, hj7⟩ | ⟨a, b, hc7, hj7⟩ | ⟨a, hc7⟩
  rotate_left
  · dsimp only at hj7
    simp only [hc7, hj7, bind_ok, jbind_ok, bind_error, jbind_error]; exact JRel.nf
  · simp only [hc7, bind_ok, bind_error]; exact JRel.ub
  dsimp only at hj7
  simp only [hc7, hj7, bind_ok, jbind_ok]
  rcases member_FULL_1 T Z hZ E (-35) (by decide) (by decide) hz hE hk ht with ⟨w8, hc8, hj8⟩ | ⟨a, b, hc8, hj8⟩ | ⟨a, hc8⟩
  rotate_left
  · dsimp only at hj8
    simp only [hc8, hj8, bind_ok, jbind_ok, bind_error, jbind_error]; exact JRel.nf
  · simp only [hc8, bind_ok, bind_error]; exact JRel.ub
  dsimp only at hj8
  simp only [hc8, hj8, bind_ok, jbind_ok]
  rcases member_FULL_3 T Z hZ E (-94) (by decide) (by decide) hz hE hk ht with ⟨w9, hc9, hj9⟩ | ⟨a, b, hc9, hj9⟩ | ⟨a, hc9⟩
  rotate_left
  · dsimp only at hj9
    simp only [hc9, hj9, bind_ok, jbind_ok, bind_error, jbind_error]; exact JRel.nf
  · simp only [hc9, bind_ok, bind_error]; exact JRel.ub
  dsimp only at hj9
  simp only [hc9, hj9, bind_ok, jbind_ok]
  rcases member_FULL_2 T Z hZ E (-62) (by decide) (by decide) hz hE hk ht with ⟨w10, hc10, hj10⟩ | ⟨a, b, hc10, hj10⟩ | ⟨a, hc10⟩
  rotate_left
  · dsimp only at hj10
    simp only [hc10, hj10, bind_ok, jbind_ok, bind_error, jbind_error]; exact JRel.nf
  · simp only [hc10, bind_ok, bind_error]; exact JRel.ub
  dsimp only at hj10
  simp only [hc10, hj10, bind_ok, jbind_ok]
  rcases member_FULL_3 T Z hZ E (-96) (by decide) (by decide) hz hE hk ht with ⟨w11, hc11, hj11⟩ | ⟨a, b, hc11, hj11⟩ | ⟨a, hc11⟩
  rotate_left
  · dsimp only at hj11
    simp only [hc11, hj11, bind_ok, jbind_ok, bind_error, jbind_error]; exact JRel.nf
  · simp only [hc11, bind_ok, bind_error]; exact JRel.ub
  dsimp only at hj11
  simp only [hc11, hj11, bind_ok, jbind_ok]
  rcases member_FULL_3 T Z hZ E (-97) (by decide) (by decide) hz hE hk ht with ⟨w12, hc12, hj12⟩ | ⟨a, b, hc12, hj12⟩ | ⟨a, hc12⟩
  rotate_left
  · dsimp only at hj12
    simp only [hc12, hj12, bind_ok, jbind_ok, bind_error, jbind_error]; exact JRel.nf
  · simp only [hc12, bind_ok, bind_error]; exact JRel.ub
  dsimp only at hj12
  simp only [hc12, hj12, bind_ok, jbind_ok]
  simp only [zero_add]
  jeq_auto

theorem line_FULL (m : Int) (hm : inI32 m) (hk : KAllOk T Z) (ht : ∀ k : Int, 0 ≤ k → k < 9 → JTame (JGen.CS_Photo_Partial (JTables.ofC T) Z k E)) :
    JRel (JGen.CS_FLUORLINE_KISSEL_FULL__execute (JTables.ofC T) Z m E) (Gen.CS_FluorLine_Kissel_Cascade T Z m E s) s := by
  by_cases h3 : m = 3
  · subst h3; exact line_FULL_LB T Z hZ E s hs hk ht
  · exact line_FULL_nonLB T Z hZ E s hs m hm h3 hk ht

omit hs in
theorem rng_FULL (m : Int) {v : ℝ} (h : JGen.CS_FLUORLINE_KISSEL_FULL__execute (JTables.ofC T) Z m E = .ok v) : ¬(Z < 1 ∨ Z > 120) := by
  intro hz
  unfold JGen.CS_FLUORLINE_KISSEL_FULL__execute at h
  jeq_normJ
  simp only [hz, ↓reduceIte, jthrow_eq_error] at h
  cases h

theorem java_eq_c_CS_FluorLine_Kissel_Cascade (m : Int) (hm : inI32 m) (hk : KAllOk T Z) (ht : ∀ k : Int, 0 ≤ k → k < 9 → JTame (JGen.CS_Photo_Partial (JTables.ofC T) Z k E)) :
    JRel (JGen.CS_FluorLine_Kissel_Cascade (JTables.ofC T) Z m E) (Gen.CS_FluorLine_Kissel_Cascade T Z m E s) s := by
  unfold JGen.CS_FluorLine_Kissel_Cascade
  exact line_FULL T Z hZ E s hs m hm hk ht

theorem java_eq_c_CSb_FluorLine_Kissel_Cascade (m : Int) (hm : inI32 m) (hk : KAllOk T Z) (ht : ∀ k : Int, 0 ≤ k → k < 9 → JTame (JGen.CS_Photo_Partial (JTables.ofC T) Z k E)) :
    JRel (JGen.CSb_FluorLine_Kissel_Cascade (JTables.ofC T) Z m E) (Gen.CSb_FluorLine_Kissel_Cascade T Z m E s) s := by
  jeq_start JGen.CSb_FluorLine_Kissel_Cascade Gen.CSb_FluorLine_Kissel_Cascade
  rcases (java_eq_c_CS_FluorLine_Kissel_Cascade T Z hZ E s hs m hm hk ht).cases with ⟨v, hc, hj⟩ | ⟨e, hc, hj⟩ | ⟨a, b, hc, hj⟩ | ⟨a, hc⟩
  · have hr : ¬(Z < 1 ∨ Z > 120) := by
      unfold JGen.CS_FluorLine_Kissel_Cascade at hj
      exact rng_FULL T Z hZ E m hj
    jeq_auto
  · jeq_auto
  · jeq_auto
  · jeq_auto

theorem shell_RAD (k : Int) (hk9 : inI32 k) (hk : KAllOk T Z) (ht : ∀ k : Int, 0 ≤ k → k < 9 → JTame (JGen.CS_Photo_Partial (JTables.ofC T) Z k E)) :
    JRel (JGen.CS_FluorShell_Kissel_Radiative_Cascade (JTables.ofC T) Z k E) (Gen.CS_FluorShell_Kissel_Radiative_Cascade T Z k E s) s := java_eq_c_CS_FluorShell_Kissel_Radiative_Cascade T Z hZ E s hs k hk9 hk ht

omit hs in
theorem exec_range_RAD_1 (l : Int) (hr : -58 ≤ l ∧ l ≤ -30) (hz : ¬(Z < 1 ∨ Z > 120)) (hE : ¬ E ≤ 0) :
    JGen.CS_FLUORLINE_KISSEL_RADIATIVE__execute (JTables.ofC T) Z l E =
      (JGen.RadRate (JTables.ofC T) Z l >>= fun r => JGen.CS_FluorShell_Kissel_Radiative_Cascade (JTables.ofC T) Z 1 E >>= fun f => Except.ok (r * f)) := by
  unfold JGen.CS_FLUORLINE_KISSEL_RADIATIVE__execute
  jeq_normJ
  simp only [hz, hE, ↓reduceIte, zero_lit]
  simp only [JStatic.line_mappings, jforEachCtlM]
  simp only [ite_bindJ, jpure_eq_ok, jbind_ok, ge_iff_le, bind_assoc]
  have r0 : ¬ (-29 ≤ l ∧ l ≤ 1) := by omega
  simp only [if_neg r0, if_pos hr]

omit hs in
theorem exec_range_RAD_2 (l : Int) (hr : -85 ≤ l ∧ l ≤ -59) (hz : ¬(Z < 1 ∨ Z > 120)) (hE : ¬ E ≤ 0) :
    JGen.CS_FLUORLINE_KISSEL_RADIATIVE__execute (JTables.ofC T) Z l E =
      (JGen.RadRate (JTables.ofC T) Z l >>= fun r => JGen.CS_FluorShell_Kissel_Radiative_Cascade (JTables.ofC T) Z 2 E >>= fun f => Except.ok (r * f)) := by
  unfold JGen.CS_FLUORLINE_KISSEL_RADIATIVE__execute
  jeq_normJ
  simp only [hz, hE, ↓reduceIte, zero_lit]
  simp only [JStatic.line_mappings, jforEachCtlM]
  simp only [ite_bindJ, jpure_eq_ok, jbind_ok, ge_iff_le, bind_assoc]
  have r0 : ¬ (-29 ≤ l ∧ l ≤ 1) := by omega
  have r1 : ¬ (-58 ≤ l ∧ l ≤ -30) := by omega
  simp only [if_neg r0, if_neg r1, if_pos hr]

omit hs in
theorem exec_range_RAD_3 (l : Int) (hr : -113 ≤ l ∧ l ≤ -86) (hz : ¬(Z < 1 ∨ Z > 120)) (hE : ¬ E ≤ 0) :
    JGen.CS_FLUORLINE_KISSEL_RADIATIVE__execute (JTables.ofC T) Z l E =
      (JGen.RadRate (JTables.ofC T) Z l >>= fun r => JGen.CS_FluorShell_Kissel_Radiative_Cascade (JTables.ofC T) Z 3 E >>= fun f => Except.ok (r * f)) := by
  unfold JGen.CS_FLUORLINE_KISSEL_RADIATIVE__execute
  jeq_normJ
  simp only [hz, hE, ↓reduceIte, zero_lit]
  simp only [JStatic.line_mappings, jforEachCtlM]
  simp only [ite_bindJ, jpure_eq_ok, jbind_ok, ge_iff_le, bind_assoc]
  have r0 : ¬ (-29 ≤ l ∧ l ≤ 1) := by omega
  have r1 : ¬ (-58 ≤ l ∧ l ≤ -30) := by omega
  have r2 : ¬ (-85 ≤ l ∧ l ≤ -59) := by omega
  simp only [if_neg r0, if_neg r1, if_neg r2, if_pos hr]

theorem line_RAD_nonLB (m : Int) (hm : inI32 m) (h3 : m ≠ 3) (hk : KAllOk T Z) (ht : ∀ k : Int, 0 ≤ k → k < 9 → JTame (JGen.CS_Photo_Partial (JTables.ofC T) Z k E)) :
    JRel (JGen.CS_FLUORLINE_KISSEL_RADIATIVE__execute (JTables.ofC T) Z m E) (Gen.CS_FluorLine_Kissel_Radiative_Cascade T Z m E s) s := by
  unfold Gen.CS_FluorLine_Kissel_Radiative_Cascade FUEL
  jeq_start JGen.CS_FLUORLINE_KISSEL_RADIATIVE__execute Gen.CS_FluorLine_Kissel_Radiative_Cascade_fuel
  by_cases hz : Z < 1 ∨ Z > 120
  · jeq_auto
  by_cases hE : E ≤ 0
  · jeq_auto
  simp only [hz, hE, ↓reduceIte, zero_lit]
  simp only [JStatic.line_mappings, jforEachCtlM]
  simp only [loopCtlM, Int.reduceSub, Int.reduceToNat, Int.sub_zero, List.range_succ, List.range_zero, List.nil_append, List.cons_append, loopCtlGo,
    rd1, Static.line_mappings_line_lower, Static.line_mappings_line_upper, Static.line_mappings_shell,
    Static.line_mappings_line_lower_list, Static.line_mappings_line_upper_list, Static.line_mappings_shell_list]
  have tn : ∀ k : Nat, Int.toNat (OfNat.ofNat k) = k := fun k => rfl
  norm_num [List.getD, tn]
  clear tn
  simp only [c_short_and, decide_eq_true_eq]
  simp only [ite_bindJ, ite_bindC, jpure_eq_ok, pure_eq_ok, jbind_ok, bind_ok, ge_iff_le, bind_assoc]
  by_cases r0 : -29 ≤ m ∧ m ≤ 1
  · simp only [if_pos r0]
    clear r0
    have hsh := shell_RAD T Z hZ E s hs 0 (by decide) hk ht
    jeq_use_nz' (java_eq_c_RadRate T Z m hZ hm s hs), (java_nz_RadRate T Z hZ m hm)
    jeq_simp
    jeq_use hsh
    jeq_auto
  by_cases r1 : -58 ≤ m ∧ m ≤ -30
  · simp only [if_neg r0, if_pos r1]
    clear r0 r1
    have hsh := shell_RAD T Z hZ E s hs 1 (by decide) hk ht
    jeq_use_nz' (java_eq_c_RadRate T Z m hZ hm s hs), (java_nz_RadRate T Z hZ m hm)
    jeq_simp
    jeq_use hsh
    jeq_auto
  by_cases r2 : -85 ≤ m ∧ m ≤ -59
  · simp only [if_neg r0, if_neg r1, if_pos r2]
    clear r0 r1 r2
    have hsh := shell_RAD T Z hZ E s hs 2 (by decide) hk ht
    jeq_use_nz' (java_eq_c_RadRate T Z m hZ hm s hs), (java_nz_RadRate T Z hZ m hm)
    jeq_simp
    jeq_use hsh
    jeq_auto
  by_cases r3 : -113 ≤ m ∧ m ≤ -86
  · simp only [if_neg r0, if_neg r1, if_neg r2, if_pos r3]
    clear r0 r1 r2 r3
    have hsh := shell_RAD T Z hZ E s hs 3 (by decide) hk ht
    jeq_use_nz' (java_eq_c_RadRate T Z m hZ hm s hs), (java_nz_RadRate T Z hZ m hm)
    jeq_simp
    jeq_use hsh
    jeq_auto
  by_cases r4 : -136 ≤ m ∧ m ≤ -118
  · simp only [if_neg r0, if_neg r1, if_neg r2, if_neg r3, if_pos r4]
    clear r0 r1 r2 r3 r4
    have hsh := shell_RAD T Z hZ E s hs 4 (by decide) hk ht
    jeq_use_nz' (java_eq_c_RadRate T Z m hZ hm s hs), (java_nz_RadRate T Z hZ m hm)
    jeq_simp
    jeq_use hsh
    jeq_auto
  by_cases r5 : -158 ≤ m ∧ m ≤ -140
  · simp only [if_neg r0, if_neg r1, if_neg r2, if_neg r3, if_neg r4, if_pos r5]
    clear r0 r1 r2 r3 r4 r5
    have hsh := shell_RAD T Z hZ E s hs 5 (by decide) hk ht
    jeq_use_nz' (java_eq_c_RadRate T Z m hZ hm s hs), (java_nz_RadRate T Z hZ m hm)
    jeq_simp
    jeq_use hsh
    jeq_auto
  by_cases r6 : -180 ≤ m ∧ m ≤ -161
  · simp only [if_neg r0, if_neg r1, if_neg r2, if_neg r3, if_neg r4, if_neg r5, if_pos r6]
    clear r0 r1 r2 r3 r4 r5 r6
    have hsh := shell_RAD T Z hZ E s hs 6 (by decide) hk ht
    jeq_use_nz' (java_eq_c_RadRate T Z m hZ hm s hs), (java_nz_RadRate T Z hZ m hm)
    jeq_simp
    jeq_use hsh
    jeq_auto
  by_cases r7 : -200 ≤ m ∧ m ≤ -182
  · simp only [if_neg r0, if_neg r1, if_neg r2, if_neg r3, if_neg r4, if_neg r5, if_neg r6, if_pos r7]
    clear r0 r1 r2 r3 r4 r5 r6 r7
    have hsh := shell_RAD T Z hZ E s hs 7 (by decide) hk ht
    jeq_use_nz' (java_eq_c_RadRate T Z m hZ hm s hs), (java_nz_RadRate T Z hZ m hm)
    jeq_simp
    jeq_use hsh
    jeq_auto
  by_cases r8 : -219 ≤ m ∧ m ≤ -201
  · simp only [if_neg r0, if_neg r1, if_neg r2, if_neg r3, if_neg r4, if_neg r5, if_neg r6, if_neg r7, if_pos r8]
    clear r0 r1 r2 r3 r4 r5 r6 r7 r8
    have hsh := shell_RAD T Z hZ E s hs 8 (by decide) hk ht
    jeq_use_nz' (java_eq_c_RadRate T Z m hZ hm s hs), (java_nz_RadRate T Z hZ m hm)
    jeq_simp
    jeq_use hsh
    jeq_auto
  simp only [if_neg r0, if_neg r1, if_neg r2, if_neg r3, if_neg r4, if_neg r5, if_neg r6, if_neg r7, if_neg r8]
  clear r0 r1 r2 r3 r4 r5 r6 r7 r8
  by_cases r9 : m = 2
  · subst r9
    have hsh := shell_RAD T Z hZ E s hs 3 (by decide) hk ht
    jeq_use_nz' (java_eq_c_RadRate T Z 2 hZ hm s hs), (java_nz_RadRate T Z hZ 2 hm)
    jeq_simp
    jeq_use hsh
    jeq_auto
  simp only [if_neg r9, if_neg h3]
  jeq_auto

omit hs in
theorem member_RAD_1 (l : Int) (hl : inI32 l) (hr : -58 ≤ l ∧ l ≤ -30) (hz : ¬(Z < 1 ∨ Z > 120)) (hE : ¬ E ≤ 0) (hk : KAllOk T Z) (ht : ∀ k : Int, 0 ≤ k → k < 9 → JTame (JGen.CS_Photo_Partial (JTables.ofC T) Z k E)) :
    MemberRel (fun rv => jtryAll (JGen.RadRate (JTables.ofC T) Z l >>= fun r => JGen.CS_FluorShell_Kissel_Radiative_Cascade (JTables.ofC T) Z 1 E >>= fun f => Except.ok (rv + r * f)) (Except.ok rv))
      (Gen.CS_FluorLine_Kissel_Radiative_Cascade T Z l E Slot.null) := by
  have h := line_RAD_nonLB T Z hZ E Slot.null rfl l hl (by omega) hk ht
  rw [exec_range_RAD_1 T Z hZ E l hr hz hE] at h
  rcases h.cases with ⟨v, hc, hj⟩ | ⟨e, hc, hj⟩ | ⟨a, b, hc, hj⟩ | ⟨a, hc⟩
  · refine Or.inl ⟨v, hc, fun rv => ?_⟩
    exact member_val hj rv
  · refine Or.inl ⟨0, hc, fun rv => ?_⟩
    exact member_iae hj rv
  · refine Or.inr (Or.inl ⟨a, b, hc, fun rv => ?_⟩)
    exact member_nf hj rv
  · exact Or.inr (Or.inr ⟨a, hc⟩)

omit hs in
theorem member_RAD_2 (l : Int) (hl : inI32 l) (hr : -85 ≤ l ∧ l ≤ -59) (hz : ¬(Z < 1 ∨ Z > 120)) (hE : ¬ E ≤ 0) (hk : KAllOk T Z) (ht : ∀ k : Int, 0 ≤ k → k < 9 → JTame (JGen.CS_Photo_Partial (JTables.ofC T) Z k E)) :
    MemberRel (fun rv => jtryAll (JGen.RadRate (JTables.ofC T) Z l >>= fun r => JGen.CS_FluorShell_Kissel_Radiative_Cascade (JTables.ofC T) Z 2 E >>= fun f => Except.ok (rv + r * f)) (Except.ok rv))
      (Gen.CS_FluorLine_Kissel_Radiative_Cascade T Z l E Slot.null) := by
  have h := line_RAD_nonLB T Z hZ E Slot.null rfl l hl (by omega) hk ht
  rw [exec_range_RAD_2 T Z hZ E l hr hz hE] at h
  rcases h.cases with ⟨v, hc, hj⟩ | ⟨e, hc, hj⟩ | ⟨a, b, hc, hj⟩ | ⟨a, hc⟩
  · refine Or.inl ⟨v, hc, fun rv => ?_⟩
    exact member_val hj rv
  · refine Or.inl ⟨0, hc, fun rv => ?_⟩
    exact member_iae hj rv
  · refine Or.inr (Or.inl ⟨a, b, hc, fun rv => ?_⟩)
    exact member_nf hj rv
  · exact Or.inr (Or.inr ⟨a, hc⟩)

omit hs in
theorem member_RAD_3 (l : Int) (hl : inI32 l) (hr : -113 ≤ l ∧ l ≤ -86) (hz : ¬(Z < 1 ∨ Z > 120)) (hE : ¬ E ≤ 0) (hk : KAllOk T Z) (ht : ∀ k : Int, 0 ≤ k → k < 9 → JTame (JGen.CS_Photo_Partial (JTables.ofC T) Z k E)) :
    MemberRel (fun rv => jtryAll (JGen.RadRate (JTables.ofC T) Z l >>= fun r => JGen.CS_FluorShell_Kissel_Radiative_Cascade (JTables.ofC T) Z 3 E >>= fun f => Except.ok (rv + r * f)) (Except.ok rv))
      (Gen.CS_FluorLine_Kissel_Radiative_Cascade T Z l E Slot.null) := by
  have h := line_RAD_nonLB T Z hZ E Slot.null rfl l hl (by omega) hk ht
  rw [exec_range_RAD_3 T Z hZ E l hr hz hE] at h
  rcases h.cases with ⟨v, hc, hj⟩ | ⟨e, hc, hj⟩ | ⟨a, b, hc, hj⟩ | ⟨a, hc⟩
  · refine Or.inl ⟨v, hc, fun rv => ?_⟩
    exact member_val hj rv
  · refine Or.inl ⟨0, hc, fun rv => ?_⟩
    exact member_iae hj rv
  · refine Or.inr (Or.inl ⟨a, b, hc, fun rv => ?_⟩)
    exact member_nf hj rv
  · exact Or.inr (Or.inr ⟨a, hc⟩)

theorem line_RAD_LB (hk : KAllOk T Z) (ht : ∀ k : Int, 0 ≤ k → k < 9 → JTame (JGen.CS_Photo_Partial (JTables.ofC T) Z k E)) :
    JRel (JGen.CS_FLUORLINE_KISSEL_RADIATIVE__execute (JTables.ofC T) Z 3 E) (Gen.CS_FluorLine_Kissel_Radiative_Cascade T Z 3 E s) s := by
  unfold Gen.CS_FluorLine_Kissel_Radiative_Cascade FUEL
  jeq_start JGen.CS_FLUORLINE_KISSEL_RADIATIVE__execute Gen.CS_FluorLine_Kissel_Radiative_Cascade_fuel
  by_cases hz : Z < 1 ∨ Z > 120
  · jeq_auto
  by_cases hE : E ≤ 0
  · jeq_auto
  simp only [hz, hE, ↓reduceIte, zero_lit]
  simp only [JStatic.line_mappings, jforEachCtlM]
  simp only [loopCtlM, Int.reduceSub, Int.reduceToNat, Int.sub_zero, List.range_succ, List.range_zero, List.nil_append, List.cons_append, loopCtlGo,
    rd1, Static.line_mappings_line_lower, Static.line_mappings_line_upper, Static.line_mappings_shell,
    Static.line_mappings_line_lower_list, Static.line_mappings_line_upper_list, Static.line_mappings_shell_list]
  have tn : ∀ k : Nat, Int.toNat (OfNat.ofNat k) = k := fun k => rfl
  simp only [loopM, Int.reduceSub, Int.reduceToNat, Int.sub_zero, List.range_succ, List.range_zero,
    List.nil_append, List.cons_append, List.foldlM_cons, List.foldlM_nil, Static.LB_LINE_MACROS, Static.LB_LINE_MACROS_list]
  norm_num [List.getD, tn]
  clear tn
  have hfold : Gen.CS_FluorLine_Kissel_Radiative_Cascade_fuel 5 T Z = Gen.CS_FluorLine_Kissel_Radiative_Cascade T Z := by funext l e sl; unfold Gen.CS_FluorLine_Kissel_Radiative_Cascade FUEL; rfl
  simp only [hfold, JStatic.lb_pairs, jforEachM, List.foldlM_cons, List.foldlM_nil, jpure_eq_ok, pure_eq_ok, jbind_ret, bind_assoc]
  rcases member_RAD_2 T Z hZ E (-63) (by decide) (by decide) hz hE hk ht with ⟨w0, hc0, hj0⟩ | ⟨a, b, hc0, hj0⟩ | ⟨a, hc0⟩
  rotate_left
  · dsimp only at hj0
    simp only [hc0, hj0, bind_ok, jbind_ok, bind_error, jbind_error]; exact JRel.nf
  · simp only [hc0, bind_ok, bind_error]; exact JRel.ub
  dsimp only at hj0
  simp only [hc0, hj0, bind_ok, jbind_ok]
  rcases member_RAD_3 T Z hZ E (-95) (by decide) (by decide) hz hE hk ht with ⟨w1, hc1, hj1⟩ | ⟨a, b, hc1, hj1⟩ | ⟨a, hc1⟩
  rotate_left
  · dsimp only at hj1
    simp only [hc1, hj1, bind_ok, jbind_ok, bind_error, jbind_error]; exact JRel.nf
  · simp only [hc1, bind_ok, bind_error]; exact JRel.ub
  dsimp only at hj1
  simp only [hc1, hj1, bind_ok, jbind_ok]
  rcases member_RAD_1 T Z hZ E (-34) (by decide) (by decide) hz hE hk ht with ⟨w2, hc2, hj2⟩ | ⟨a, b, hc2, hj2⟩ | ⟨a, hc2⟩
  rotate_left
  · dsimp only at hj2
    simp only [hc2, hj2, bind_ok, jbind_ok, bind_error, jbind_error]; exact JRel.nf
  · simp only [hc2, bind_ok, bind_error]; exact JRel.ub
  dsimp only at hj2
  simp only [hc2, hj2, bind_ok, jbind_ok]
  rcases member_RAD_1 T Z hZ E (-33) (by decide) (by decide) hz hE hk ht with ⟨w3, hc3, hj3⟩ | ⟨a, b, hc3, hj3⟩ | ⟨a, hc3⟩
  rotate_left
  · dsimp only at hj3
    simp only [hc3, hj3, bind_ok, jbind_ok, bind_error, jbind_error]; exact JRel.nf
  · simp only [hc3, bind_ok, bind_error]; exact JRel.ub
  dsimp only at hj3
  simp only [hc3, hj3, bind_ok, jbind_ok]
  rcases member_RAD_3 T Z hZ E (-102) (by decide) (by decide) hz hE hk ht with ⟨w4, hc4, hj4⟩ | ⟨a, b, hc4, hj4⟩ | ⟨a, hc4⟩
  rotate_left
  · dsimp only at hj4
    simp only [hc4, hj4, bind_ok, jbind_ok, bind_error, jbind_error]; exact JRel.nf
  · simp only [hc4, bind_ok, bind_error]; exact JRel.ub
  dsimp only at hj4
  simp only [hc4, hj4, bind_ok, jbind_ok]
  rcases member_RAD_3 T Z hZ E (-91) (by decide) (by decide) hz hE hk ht with ⟨w5, hc5, hj5⟩ | ⟨a, b, hc5, hj5⟩ | ⟨a, hc5⟩
  rotate_left
  · dsimp only at hj5
    simp only [hc5, hj5, bind_ok, jbind_ok, bind_error, jbind_error]; exact JRel.nf
  · simp only [hc5, bind_ok, bind_error]; exact JRel.ub
  dsimp only at hj5
  simp only [hc5, hj5, bind_ok, jbind_ok]
  rcases member_RAD_3 T Z hZ E (-98) (by decide) (by decide) hz hE hk ht with ⟨w6, hc6, hj6⟩ | ⟨a, b, hc6, hj6⟩ | ⟨a, hc6⟩
  rotate_left
  · dsimp only at hj6
    simp only [hc6, hj6, bind_ok, jbind_ok, bind_error, jbind_error]; exact JRel.nf
  · simp only [hc6, bind_ok, bind_error]; exact JRel.ub
  dsimp only at hj6
  simp only [hc6, hj6, bind_ok, jbind_ok]
  rcases member_RAD_1 T Z hZ E (-36) (by decide) (by decide) hz hE hk ht with ⟨w7, hc7, hj7⟩ | ⟨a, b, hc7, hj7⟩ | ⟨a, hc7⟩
  rotate_left
  · dsimp only at hj7
    simp only [hc7, hj7, bind_ok, jbind_ok, bind_error, jbind_error]; exact JRel.nf
  · simp only [hc7, bind_ok, bind_error]; exact JRel.ub
  dsimp only at hj7
  simp only [hc7, hj7, bind_ok, jbind_ok]
  rcases member_RAD_1 T Z hZ E (-35) (by decide) (by decide) hz hE hk ht with ⟨w8, hc8, hj8⟩ | ⟨a, b, hc8, hj8⟩ | ⟨a, hc8⟩
  rotate_left
  · dsimp only at hj8
    simp only [hc8, hj8, bind_ok, jbind_ok, bind_error, jbind_error]; exact JRel.nf
  · simp only [hc8, bind_ok, bind_error]; exact JRel.ub
  dsimp only at hj8
  simp only [hc8, hj8, bind_ok, jbind_ok]
  rcases member_RAD_3 T Z hZ E (-94) (by decide) (by decide) hz hE hk ht with ⟨w9, hc9, hj9⟩ | ⟨a, b, hc9, hj9⟩ | ⟨a, hc9⟩
  rotate_left
  · dsimp only at hj9
    simp only [hc9, hj9, bind_ok, jbind_ok, bind_error, jbind_error]; exact JRel.nf
  · simp only [hc9, bind_ok, bind_error]; exact JRel.ub
  dsimp only at hj9
  simp only [hc9, hj9, bind_ok, jbind_ok]
  rcases member_RAD_2 T Z hZ E (-62) (by decide) (by decide) hz hE hk ht with ⟨w10, hc10, hj10⟩ | ⟨a, b, hc10, hj10⟩ | ⟨a, hc10⟩
  rotate_left
  · dsimp only at hj10
    simp only [hc10, hj10, bind_ok, jbind_ok, bind_error, jbind_error]; exact JRel.nf
  · simp only [hc10, bind_ok, bind_error]; exact JRel.ub
  dsimp only at hj10
  simp only [hc10, hj10, bind_ok, jbind_ok]
  rcases member_RAD_3 T Z hZ E (-96) (by decide) (by decide) hz hE hk ht with ⟨w11, hc11, hj11⟩ | ⟨a, b, hc11, hj11⟩ | ⟨a, hc11⟩
  rotate_left
  · dsimp only at hj11
    simp only [hc11, hj11, bind_ok, jbind_ok, bind_error, jbind_error]; exact JRel.nf
  · simp only [hc11, bind_ok, bind_error]; exact JRel.ub
  dsimp only at hj11
  simp only [hc11, hj11, bind_ok, jbind_ok]
  rcases member_RAD_3 T Z hZ E (-97) (by decide) (by decide) hz hE hk ht with ⟨w12, hc12, hj12⟩ | ⟨a, b, hc12, hj12⟩ | ⟨a, hc12⟩
  rotate_left
  · dsimp only at hj12
    simp only [hc12, hj12, bind_ok, jbind_ok, bind_error, jbind_error]; exact JRel.nf
  · simp only [hc12, bind_ok, bind_error]; exact JRel.ub
  dsimp only at hj12
  simp only [hc12, hj12, bind_ok, jbind_ok]
  simp only [zero_add]
  jeq_auto

theorem line_RAD (m : Int) (hm : inI32 m) (hk : KAllOk T Z) (ht : ∀ k : Int, 0 ≤ k → k < 9 → JTame (JGen.CS_Photo_Partial (JTables.ofC T) Z k E)) :
    JRel (JGen.CS_FLUORLINE_KISSEL_RADIATIVE__execute (JTables.ofC T) Z m E) (Gen.CS_FluorLine_Kissel_Radiative_Cascade T Z m E s) s := by
  by_cases h3 : m = 3
  · subst h3; exact line_RAD_LB T Z hZ E s hs hk ht
  · exact line_RAD_nonLB T Z hZ E s hs m hm h3 hk ht

omit hs in
theorem rng_RAD (m : Int) {v : ℝ} (h : JGen.CS_FLUORLINE_KISSEL_RADIATIVE__execute (JTables.ofC T) Z m E = .ok v) : ¬(Z < 1 ∨ Z > 120) := by
  intro hz
  unfold JGen.CS_FLUORLINE_KISSEL_RADIATIVE__execute at h
  jeq_normJ
  simp only [hz, ↓reduceIte, jthrow_eq_error] at h
  cases h

theorem java_eq_c_CS_FluorLine_Kissel_Radiative_Cascade (m : Int) (hm : inI32 m) (hk : KAllOk T Z) (ht : ∀ k : Int, 0 ≤ k → k < 9 → JTame (JGen.CS_Photo_Partial (JTables.ofC T) Z k E)) :
    JRel (JGen.CS_FluorLine_Kissel_Radiative_Cascade (JTables.ofC T) Z m E) (Gen.CS_FluorLine_Kissel_Radiative_Cascade T Z m E s) s := by
  unfold JGen.CS_FluorLine_Kissel_Radiative_Cascade
  exact line_RAD T Z hZ E s hs m hm hk ht

theorem java_eq_c_CSb_FluorLine_Kissel_Radiative_Cascade (m : Int) (hm : inI32 m) (hk : KAllOk T Z) (ht : ∀ k : Int, 0 ≤ k → k < 9 → JTame (JGen.CS_Photo_Partial (JTables.ofC T) Z k E)) :
    JRel (JGen.CSb_FluorLine_Kissel_Radiative_Cascade (JTables.ofC T) Z m E) (Gen.CSb_FluorLine_Kissel_Radiative_Cascade T Z m E s) s := by
  jeq_start JGen.CSb_FluorLine_Kissel_Radiative_Cascade Gen.CSb_FluorLine_Kissel_Radiative_Cascade
  rcases (java_eq_c_CS_FluorLine_Kissel_Radiative_Cascade T Z hZ E s hs m hm hk ht).cases with ⟨v, hc, hj⟩ | ⟨e, hc, hj⟩ | ⟨a, b, hc, hj⟩ | ⟨a, hc⟩
  · have hr : ¬(Z < 1 ∨ Z > 120) := by
      unfold JGen.CS_FluorLine_Kissel_Radiative_Cascade at hj
      exact rng_RAD T Z hZ E m hj
    jeq_auto
  · jeq_auto
  · jeq_auto
  · jeq_auto

theorem shell_NONRAD (k : Int) (hk9 : inI32 k) (hk : KAllOk T Z) (ht : ∀ k : Int, 0 ≤ k → k < 9 → JTame (JGen.CS_Photo_Partial (JTables.ofC T) Z k E)) :
    JRel (JGen.CS_FluorShell_Kissel_Nonradiative_Cascade (JTables.ofC T) Z k E) (Gen.CS_FluorShell_Kissel_Nonradiative_Cascade T Z k E s) s := java_eq_c_CS_FluorShell_Kissel_Nonradiative_Cascade T Z hZ E s hs k hk9 hk ht

omit hs in
theorem exec_range_NONRAD_1 (l : Int) (hr : -58 ≤ l ∧ l ≤ -30) (hz : ¬(Z < 1 ∨ Z > 120)) (hE : ¬ E ≤ 0) :
    JGen.CS_FLUORLINE_KISSEL_NONRADIATIVE__execute (JTables.ofC T) Z l E =
      (JGen.RadRate (JTables.ofC T) Z l >>= fun r => JGen.CS_FluorShell_Kissel_Nonradiative_Cascade (JTables.ofC T) Z 1 E >>= fun f => Except.ok (r * f)) := by
  unfold JGen.CS_FLUORLINE_KISSEL_NONRADIATIVE__execute
  jeq_normJ
  simp only [hz, hE, ↓reduceIte, zero_lit]
  simp only [JStatic.line_mappings, jforEachCtlM]
  simp only [ite_bindJ, jpure_eq_ok, jbind_ok, ge_iff_le, bind_assoc]
  have r0 : ¬ (-29 ≤ l ∧ l ≤ 1) := by omega
  simp only [if_neg r0, if_pos hr]

omit hs in
theorem exec_range_NONRAD_2 (l : Int) (hr : -85 ≤ l ∧ l ≤ -59) (hz : ¬(Z < 1 ∨ Z > 120)) (hE : ¬ E ≤ 0) :
    JGen.CS_FLUORLINE_KISSEL_NONRADIATIVE__execute (JTables.ofC T) Z l E =
      (JGen.RadRate (JTables.ofC T) Z l >>= fun r => JGen.CS_FluorShell_Kissel_Nonradiative_Cascade (JTables.ofC T) Z 2 E >>= fun f => Except.ok (r * f)) := by
  unfold JGen.CS_FLUORLINE_KISSEL_NONRADIATIVE__execute
  jeq_normJ
  simp only [hz, hE, ↓reduceIte, zero_lit]
  simp only [JStatic.line_mappings, jforEachCtlM]
  simp only [ite_bindJ, jpure_eq_ok, jbind_ok, ge_iff_le, bind_assoc]
  have r0 : ¬ (-29 ≤ l ∧ l ≤ 1) := by omega
  have r1 : ¬ (-58 ≤ l ∧ l ≤ -30) := by omega
  simp only [if_neg r0, if_neg r1, if_pos hr]

omit hs in
theorem exec_range_NONRAD_3 (l : Int) (hr : -113 ≤ l ∧ l ≤ -86) (hz : ¬(Z < 1 ∨ Z > 120)) (hE : ¬ E ≤ 0) :
    JGen.CS_FLUORLINE_KISSEL_NONRADIATIVE__execute (JTables.ofC T) Z l E =
      (JGen.RadRate (JTables.ofC T) Z l >>= fun r => JGen.CS_FluorShell_Kissel_Nonradiative_Cascade (JTables.ofC T) Z 3 E >>= fun f => Except.ok (r * f)) := by
  unfold JGen.CS_FLUORLINE_KISSEL_NONRADIATIVE__execute
  jeq_normJ
  simp only [hz, hE, ↓reduceIte, zero_lit]
  simp only [JStatic.line_mappings, jforEachCtlM]
  simp only [ite_bindJ, jpure_eq_ok, jbind_ok, ge_iff_le, bind_assoc]
  have r0 : ¬ (-29 ≤ l ∧ l ≤ 1) := by omega
  have r1 : ¬ (-58 ≤ l ∧ l ≤ -30) := by omega
  have r2 : ¬ (-85 ≤ l ∧ l ≤ -59) := by omega
  simp only [if_neg r0, if_neg r1, if_neg r2, if_pos hr]

theorem line_NONRAD_nonLB (m : Int) (hm : inI32 m) (h3 : m ≠ 3) (hk : KAllOk T Z) (ht : ∀ k : Int, 0 ≤ k → k < 9 → JTame (JGen.CS_Photo_Partial (JTables.ofC T) Z k E)) :
    JRel (JGen.CS_FLUORLINE_KISSEL_NONRADIATIVE__execute (JTables.ofC T) Z m E) (Gen.CS_FluorLine_Kissel_Nonradiative_Cascade T Z m E s) s := by
  unfold Gen.CS_FluorLine_Kissel_Nonradiative_Cascade FUEL
  jeq_start JGen.CS_FLUORLINE_KISSEL_NONRADIATIVE__execute Gen.CS_FluorLine_Kissel_Nonradiative_Cascade_fuel
  by_cases hz : Z < 1 ∨ Z > 120
  · jeq_auto
  by_cases hE : E ≤ 0
  · jeq_auto
  simp only [hz, hE, ↓reduceIte, zero_lit]
  simp only [JStatic.line_mappings, jforEachCtlM]
  simp only [loopCtlM, Int.reduceSub, Int.reduceToNat, Int.sub_zero, List.range_succ, List.range_zero, List.nil_append, List.cons_append, loopCtlGo,
    rd1, Static.line_mappings_line_lower, Static.line_mappings_line_upper, Static.line_mappings_shell,
    Static.line_mappings_line_lower_list, Static.line_mappings_line_upper_list, Static.line_mappings_shell_list]
  have tn : ∀ k : Nat, Int.toNat (OfNat.ofNat k) = k := fun k => rfl
  norm_num [List.getD, tn]
  clear tn
  simp only [c_short_and, decide_eq_true_eq]
  simp only [ite_bindJ, ite_bindC, jpure_eq_ok, pure_eq_ok, jbind_ok, bind_ok, ge_iff_le, bind_assoc]
  by_cases r0 : -29 ≤ m ∧ m ≤ 1
  · simp only [if_pos r0]
    clear r0
    have hsh := shell_NONRAD T Z hZ E s hs 0 (by decide) hk ht
    jeq_use_nz' (java_eq_c_RadRate T Z m hZ hm s hs), (java_nz_RadRate T Z hZ m hm)
    jeq_simp
    jeq_use hsh
    jeq_auto
  by_cases r1 : -58 ≤ m ∧ m ≤ -30
  · simp only [if_neg r0, if_pos r1]
    clear r0 r1
    have hsh := shell_NONRAD T Z hZ E s hs 1 (by decide) hk ht
    jeq_use_nz' (java_eq_c_RadRate T Z m hZ hm s hs), (java_nz_RadRate T Z hZ m hm)
    jeq_simp
    jeq_use hsh
    jeq_auto
  by_cases r2 : -85 ≤ m ∧ m ≤ -59
  · simp only [if_neg r0, if_neg r1, if_pos r2]
    clear r0 r1 r2
    have hsh := shell_NONRAD T Z hZ E s hs 2 (by decide) hk ht
    jeq_use_nz' (java_eq_c_RadRate T Z m hZ hm s hs), (java_nz_RadRate T Z hZ m hm)
    jeq_simp
    jeq_use hsh
    jeq_auto
  by_cases r3 : -113 ≤ m ∧ m ≤ -86
  · simp only [if_neg r0, if_neg r1, if_neg r2, if_pos r3]
    clear r0 r1 r2 r3
    have hsh := shell_NONRAD T Z hZ E s hs 3 (by decide) hk ht
    jeq_use_nz' (java_eq_c_RadRate T Z m hZ hm s hs), (java_nz_RadRate T Z hZ m hm)
    jeq_simp
    jeq_use hsh
    jeq_auto
  by_cases r4 : -136 ≤ m ∧ m ≤ -118
  · simp only [if_neg r0, if_neg r1, if_neg r2, if_neg r3, if_pos r4]
    clear r0 r1 r2 r3 r4
    have hsh := shell_NONRAD T Z hZ E s hs 4 (by decide) hk ht
    jeq_use_nz' (java_eq_c_RadRate T Z m hZ hm s hs), (java_nz_RadRate T Z hZ m hm)
    jeq_simp
    jeq_use hsh
    jeq_auto
  by_cases r5 : -158 ≤ m ∧ m ≤ -140
  · simp only [if_neg r0, if_neg r1, if_neg r2, if_neg r3, if_neg r4, if_pos r5]
    clear r0 r1 r2 r3 r4 r5
    have hsh := shell_NONRAD T Z hZ E s hs 5 (by decide) hk ht
    jeq_use_nz' (java_eq_c_RadRate T Z m hZ hm s hs), (java_nz_RadRate T Z hZ m hm)
    jeq_simp
    jeq_use hsh
    jeq_auto
  by_cases r6 : -180 ≤ m ∧ m ≤ -161
  · simp only [if_neg r0, if_neg r1, if_neg r2, if_neg r3, if_neg r4, if_neg r5, if_pos r6]
    clear r0 r1 r2 r3 r4 r5 r6
    have hsh := shell_NONRAD T Z hZ E s hs 6 (by decide) hk ht
    jeq_use_nz' (java_eq_c_RadRate T Z m hZ hm s hs), (java_nz_RadRate T Z hZ m hm)
    jeq_simp
    jeq_use hsh
    jeq_auto
  by_cases r7 : -200 ≤ m ∧ m ≤ -182
  · simp only [if_neg r0, if_neg r1, if_neg r2, if_neg r3, if_neg r4, if_neg r5, if_neg r6, if_pos r7]
    clear r0 r1 r2 r3 r4 r5 r6 r7
    have hsh := shell_NONRAD T Z hZ E s hs 7 (by decide) hk ht
    jeq_use_nz' (java_eq_c_RadRate T Z m hZ hm s hs), (java_nz_RadRate T Z hZ m hm)
    jeq_simp
    jeq_use hsh
    jeq_auto
  by_cases r8 : -219 ≤ m ∧ m ≤ -201
  · simp only [if_neg r0, if_neg r1, if_neg r2, if_neg r3, if_neg r4, if_neg r5, if_neg r6, if_neg r7, if_pos r8]
    clear r0 r1 r2 r3 r4 r5 r6 r7 r8
    have hsh := shell_NONRAD T Z hZ E s hs 8 (by decide) hk ht
    jeq_use_nz' (java_eq_c_RadRate T Z m hZ hm s hs), (java_nz_RadRate T Z hZ m hm)
    jeq_simp
    jeq_use hsh
    jeq_auto
  simp only [if_neg r0, if_neg r1, if_neg r2, if_neg r3, if_neg r4, if_neg r5, if_neg r6, if_neg r7, if_neg r8]
  clear r0 r1 r2 r3 r4 r5 r6 r7 r8
  by_cases r9 : m = 2
  · subst r9
    have hsh := shell_NONRAD T Z hZ E s hs 3 (by decide) hk ht
    jeq_use_nz' (java_eq_c_RadRate T Z 2 hZ hm s hs), (java_nz_RadRate T Z hZ 2 hm)
    jeq_simp
    jeq_use hsh
    jeq_auto
  simp only [if_neg r9, if_neg h3]
  jeq_auto

omit hs in
theorem member_NONRAD_1 (l : Int) (hl : inI32 l) (hr : -58 ≤ l ∧ l ≤ -30) (hz : ¬(Z < 1 ∨ Z > 120)) (hE : ¬ E ≤ 0) (hk : KAllOk T Z) (ht : ∀ k : Int, 0 ≤ k → k < 9 → JTame (JGen.CS_Photo_Partial (JTables.ofC T) Z k E)) :
    MemberRel (fun rv => jtryAll (JGen.RadRate (JTables.ofC T) Z l >>= fun r => JGen.CS_FluorShell_Kissel_Nonradiative_Cascade (JTables.ofC T) Z 1 E >>= fun f => Except.ok (rv + r * f)) (Except.ok rv))
      (Gen.CS_FluorLine_Kissel_Nonradiative_Cascade T Z l E Slot.null) := by
  have h := line_NONRAD_nonLB T Z hZ E Slot.null rfl l hl (by omega) hk ht
  rw [exec_range_NONRAD_1 T Z hZ E l hr hz hE] at h
  rcases h.cases with ⟨v, hc, hj⟩ | ⟨e, hc, hj⟩ | ⟨a, b, hc, hj⟩ | ⟨a, hc⟩
  · refine Or.inl ⟨v, hc, fun rv => ?_⟩
    exact member_val hj rv
  · refine Or.inl ⟨0, hc, fun rv => ?_⟩
    exact member_iae hj rv
  · refine Or.inr (Or.inl ⟨a, b, hc, fun rv => ?_⟩)
    exact member_nf hj rv
  · exact Or.inr (Or.inr ⟨a, hc⟩)

omit hs in
theorem member_NONRAD_2 (l : Int) (hl : inI32 l) (hr : -85 ≤ l ∧ l ≤ -59) (hz : ¬(Z < 1 ∨ Z > 120)) (hE : ¬ E ≤ 0) (hk : KAllOk T Z) (ht : ∀ k : Int, 0 ≤ k → k < 9 → JTame (JGen.CS_Photo_Partial (JTables.ofC T) Z k E)) :
    MemberRel (fun rv => jtryAll (JGen.RadRate (JTables.ofC T) Z l >>= fun r => JGen.CS_FluorShell_Kissel_Nonradiative_Cascade (JTables.ofC T) Z 2 E >>= fun f => Except.ok (rv + r * f)) (Except.ok rv))
      (Gen.CS_FluorLine_Kissel_Nonradiative_Cascade T Z l E Slot.null) := by
  have h := line_NONRAD_nonLB T Z hZ E Slot.null rfl l hl (by omega) hk ht
  rw [exec_range_NONRAD_2 T Z hZ E l hr hz hE] at h
  rcases h.cases with ⟨v, hc, hj⟩ | ⟨e, hc, hj⟩ | ⟨a, b, hc, hj⟩ | ⟨a, hc⟩
  · refine Or.inl ⟨v, hc, fun rv => ?_⟩
    exact member_val hj rv
  · refine Or.inl ⟨0, hc, fun rv => ?_⟩
    exact member_iae hj rv
  · refine Or.inr (Or.inl ⟨a, b, hc, fun rv => ?_⟩)
    exact member_nf hj rv
  · exact Or.inr (Or.inr ⟨a, hc⟩)

omit hs in
theorem member_NONRAD_3 (l : Int) (hl : inI32 l) (hr : -113 ≤ l ∧ l ≤ -86) (hz : ¬(Z < 1 ∨ Z > 120)) (hE : ¬ E ≤ 0) (hk : KAllOk T Z) (ht : ∀ k : Int, 0 ≤ k → k < 9 → JTame (JGen.CS_Photo_Partial (JTables.ofC T) Z k E)) :
    MemberRel (fun rv => jtryAll (JGen.RadRate (JTables.ofC T) Z l >>= fun r => JGen.CS_FluorShell_Kissel_Nonradiative_Cascade (JTables.ofC T) Z 3 E >>= fun f => Except.ok (rv + r * f)) (Except.ok rv))
      (Gen.CS_FluorLine_Kissel_Nonradiative_Cascade T Z l E Slot.null) := by
  have h := line_NONRAD_nonLB T Z hZ E Slot.null rfl l hl (by omega) hk ht
  rw [exec_range_NONRAD_3 T Z hZ E l hr hz hE] at h
  rcases h.cases with ⟨v, hc, hj⟩ | ⟨e, hc, hj⟩ | ⟨a, b, hc, hj⟩ | ⟨a, hc⟩
  · refine Or.inl ⟨v, hc, fun rv => ?_⟩
    exact member_val hj rv
  · refine Or.inl ⟨0, hc, fun rv => ?_⟩
    exact member_iae hj rv
  · refine Or.inr (Or.inl ⟨a, b, hc, fun rv => ?_⟩)
    exact member_nf hj rv
  · exact Or.inr (Or.inr ⟨a, hc⟩)

theorem line_NONRAD_LB (hk : KAllOk T Z) (ht : ∀ k : Int, 0 ≤ k → k < 9 → JTame (JGen.CS_Photo_Partial (JTables.ofC T) Z k E)) :
    JRel (JGen.CS_FLUORLINE_KISSEL_NONRADIATIVE__execute (JTables.ofC T) Z 3 E) (Gen.CS_FluorLine_Kissel_Nonradiative_Cascade T Z 3 E s) s := by
  unfold Gen.CS_FluorLine_Kissel_Nonradiative_Cascade FUEL
  jeq_start JGen.CS_FLUORLINE_KISSEL_NONRADIATIVE__execute Gen.CS_FluorLine_Kissel_Nonradiative_Cascade_fuel
  by_cases hz : Z < 1 ∨ Z > 120
  · jeq_auto
  by_cases hE : E ≤ 0
  · jeq_auto
  simp only [hz, hE, ↓reduceIte, zero_lit]
  simp only [JStatic.line_mappings, jforEachCtlM]
  simp only [loopCtlM, Int.reduceSub, Int.reduceToNat, Int.sub_zero, List.range_succ, List.range_zero, List.nil_append, List.cons_append, loopCtlGo,
    rd1, Static.line_mappings_line_lower, Static.line_mappings_line_upper, Static.line_mappings_shell,
    Static.line_mappings_line_lower_list, Static.line_mappings_line_upper_list, Static.line_mappings_shell_list]
  have tn : ∀ k : Nat, Int.toNat (OfNat.ofNat k) = k := fun k => rfl
  simp only [loopM, Int.reduceSub, Int.reduceToNat, Int.sub_zero, List.range_succ, List.range_zero,
    List.nil_append, List.cons_append, List.foldlM_cons, List.foldlM_nil, Static.LB_LINE_MACROS, Static.LB_LINE_MACROS_list]
  norm_num [List.getD, tn]
  clear tn
  have hfold : Gen.CS_FluorLine_Kissel_Nonradiative_Cascade_fuel 5 T Z = Gen.CS_FluorLine_Kissel_Nonradiative_Cascade T Z := by funext l e sl; unfold Gen.CS_FluorLine_Kissel_Nonradiative_Cascade FUEL; rfl
  simp only [hfold, JStatic.lb_pairs, jforEachM, List.foldlM_cons, List.foldlM_nil, jpure_eq_ok, pure_eq_ok, jbind_ret, bind_assoc]
  rcases member_NONRAD_2 T Z hZ E (-63) (by decide) (by decide) hz hE hk ht with ⟨w0, hc0, hj0⟩ | ⟨a, b, hc0, hj0⟩ | ⟨a, hc0⟩
  rotate_left
  · dsimp only at hj0
    simp only [hc0, hj0, bind_ok, jbind_ok, bind_error, jbind_error]; exact JRel.nf
  · simp only [hc0, bind_ok, bind_error]; exact JRel.ub
  dsimp only at hj0
  simp only [hc0, hj0, bind_ok, jbind_ok]
  rcases member_NONRAD_3 T Z hZ E (-95) (by decide) (by decide) hz hE hk ht with ⟨w1, hc1, hj1⟩ | ⟨a, b, hc1, hj1⟩ | ⟨a, hc1⟩
  rotate_left
  · dsimp only at hj1
    simp only [hc1, hj1, bind_ok, jbind_ok, bind_error, jbind_error]; exact JRel.nf
  · simp only [hc1, bind_ok, bind_error]; exact JRel.ub
  dsimp only at hj1
  simp only [hc1, hj1, bind_ok, jbind_ok]
  rcases member_NONRAD_1 T Z hZ E (-34) (by decide) (by decide) hz hE hk ht with ⟨w2, hc2, hj2⟩ | ⟨a, b, hc2, hj2⟩ | ⟨a, hc2⟩
  rotate_left
  · dsimp only at hj2
    simp only [hc2, hj2, bind_ok, jbind_ok, bind_error, jbind_error]; exact JRel.nf
  · simp only [hc2, bind_ok, bind_error]; exact JRel.ub
  dsimp only at hj2
  simp only [hc2, hj2, bind_ok, jbind_ok]
  rcases member_NONRAD_1 T Z hZ E (-33) (by decide) (by decide) hz hE hk ht with ⟨w3, hc3, hj3⟩ | ⟨a, b, hc3, hj3⟩ | ⟨a, hc3⟩
  rotate_left
  · dsimp only at hj3
    simp only [hc3, hj3, bind_ok, jbind_ok, bind_error, jbind_error]; exact JRel.nf
  · simp only [hc3, bind_ok, bind_error]; exact JRel.ub
  dsimp only at hj3
  simp only [hc3, hj3, bind_ok, jbind_ok]
  rcases member_NONRAD_3 T Z hZ E (-102) (by decide) (by decide) hz hE hk ht with ⟨w4, hc4, hj4⟩ | ⟨a, b, hc4, hj4⟩ | ⟨a, hc4⟩
  rotate_left
  · dsimp only at hj4
    simp only [hc4, hj4, bind_ok, jbind_ok, bind_error, jbind_error]; exact JRel.nf
  · simp only [hc4, bind_ok, bind_error]; exact JRel.ub
  dsimp only at hj4
  simp only [hc4, hj4, bind_ok, jbind_ok]
  rcases member_NONRAD_3 T Z hZ E (-91) (by decide) (by decide) hz hE hk ht with ⟨w5, hc5, hj5⟩ | ⟨a, b, hc5, hj5⟩ | ⟨a, hc5⟩
  rotate_left
  · dsimp only at hj5
    simp only [hc5, hj5, bind_ok, jbind_ok, bind_error, jbind_error]; exact JRel.nf
  · simp only [hc5, bind_ok, bind_error]; exact JRel.ub
  dsimp only at hj5
  simp only [hc5, hj5, bind_ok, jbind_ok]
  rcases member_NONRAD_3 T Z hZ E (-98) (by decide) (by decide) hz hE hk ht with ⟨w6, hc6, hj6⟩ | ⟨a, b, hc6, hj6⟩ | ⟨a, hc6⟩
  rotate_left
  · dsimp only at hj6
    simp only [hc6, hj6, bind_ok, jbind_ok, bind_error, jbind_error]; exact JRel.nf
  · simp only [hc6, bind_ok, bind_error]; exact JRel.ub
  dsimp only at hj6
  simp only [hc6, hj6, bind_ok, jbind_ok]
  rcases member_NONRAD_1 T Z hZ E (-36) (by decide) (by decide) hz hE hk ht with ⟨w7, hc7, hj7⟩ | ⟨a, b, hc7, hj7⟩ | ⟨a, hc7⟩
  rotate_left
  · dsimp only at hj7
    simp only [hc7, hj7, bind_ok, jbind_ok, bind_error, jbind_error]; exact JRel.nf
  · simp only [hc7, bind_ok, bind_error]; exact JRel.ub
  dsimp only at hj7
  simp only [hc7, hj7, bind_ok, jbind_ok]
  rcases member_NONRAD_1 T Z hZ E (-35) (by decide) (by decide) hz hE hk ht with ⟨w8, hc8, hj8⟩ | ⟨a, b, hc8, hj8⟩ | ⟨a, hc8⟩
  rotate_left
  · dsimp only at hj8
    simp only [hc8, hj8, bind_ok, jbind_ok, bind_error, jbind_error]; exact JRel.nf
  · simp only [hc8, bind_ok, bind_error]; exact JRel.ub
  dsimp only at hj8
  simp only [hc8, hj8, bind_ok, jbind_ok]
  rcases member_NONRAD_3 T Z hZ E (-94) (by decide) (by decide) hz hE hk ht with ⟨w9, hc9, hj9⟩ | ⟨a, b, hc9, hj9⟩ | ⟨a, hc9⟩
  rotate_left
  · dsimp only at hj9
    simp only [hc9, hj9, bind_ok, jbind_ok, bind_error, jbind_error]; exact JRel.nf
  · simp only [hc9, bind_ok, bind_error]; exact JRel.ub
  dsimp only at hj9
  simp only [hc9, hj9, bind_ok, jbind_ok]
  rcases member_NONRAD_2 T Z hZ E (-62) (by decide) (by decide) hz hE hk ht with ⟨w10, hc10, hj10⟩ | ⟨a, b, hc10, hj10⟩ | ⟨a, hc10⟩
  rotate_left
  · dsimp only at hj10
    simp only [hc10, hj10, bind_ok, jbind_ok, bind_error, jbind_error]; exact JRel.nf
  · simp only [hc10, bind_ok, bind_error]; exact JRel.ub
  dsimp only at hj10
  simp only [hc10, hj10, bind_ok, jbind_ok]
  rcases member_NONRAD_3 T Z hZ E (-96) (by decide) (by decide) hz hE hk ht with ⟨w11, hc11, hj11⟩ | ⟨a, b, hc11, hj11⟩ | ⟨a, hc11⟩
  rotate_left
  · dsimp only at hj11
    simp only [hc11, hj11, bind_ok, jbind_ok, bind_error, jbind_error]; exact JRel.nf
  · simp only [hc11, bind_ok, bind_error]; exact JRel.ub
  dsimp only at hj11
  simp only [hc11, hj11, bind_ok, jbind_ok]
  rcases member_NONRAD_3 T Z hZ E (-97) (by decide) (by decide) hz hE hk ht with ⟨w12, hc12, hj12⟩ | ⟨a, b, hc12, hj12⟩ | ⟨a, hc12⟩
  rotate_left
  · dsimp only at hj12
    simp only [hc12, hj12, bind_ok, jbind_ok, bind_error, jbind_error]; exact JRel.nf
  · simp only [hc12, bind_ok, bind_error]; exact JRel.ub
  dsimp only at hj12
  simp only [hc12, hj12, bind_ok, jbind_ok]
  simp only [zero_add]
  jeq_auto

theorem line_NONRAD (m : Int) (hm : inI32 m) (hk : KAllOk T Z) (ht : ∀ k : Int, 0 ≤ k → k < 9 → JTame (JGen.CS_Photo_Partial (JTables.ofC T) Z k E)) :
    JRel (JGen.CS_FLUORLINE_KISSEL_NONRADIATIVE__execute (JTables.ofC T) Z m E) (Gen.CS_FluorLine_Kissel_Nonradiative_Cascade T Z m E s) s := by
  by_cases h3 : m = 3
  · subst h3; exact line_NONRAD_LB T Z hZ E s hs hk ht
  · exact line_NONRAD_nonLB T Z hZ E s hs m hm h3 hk ht

omit hs in
theorem rng_NONRAD (m : Int) {v : ℝ} (h : JGen.CS_FLUORLINE_KISSEL_NONRADIATIVE__execute (JTables.ofC T) Z m E = .ok v) : ¬(Z < 1 ∨ Z > 120) := by
  intro hz
  unfold JGen.CS_FLUORLINE_KISSEL_NONRADIATIVE__execute at h
  jeq_normJ
  simp only [hz, ↓reduceIte, jthrow_eq_error] at h
  cases h

theorem java_eq_c_CS_FluorLine_Kissel_Nonradiative_Cascade (m : Int) (hm : inI32 m) (hk : KAllOk T Z) (ht : ∀ k : Int, 0 ≤ k → k < 9 → JTame (JGen.CS_Photo_Partial (JTables.ofC T) Z k E)) :
    JRel (JGen.CS_FluorLine_Kissel_Nonradiative_Cascade (JTables.ofC T) Z m E) (Gen.CS_FluorLine_Kissel_Nonradiative_Cascade T Z m E s) s := by
  unfold JGen.CS_FluorLine_Kissel_Nonradiative_Cascade
  exact line_NONRAD T Z hZ E s hs m hm hk ht

theorem java_eq_c_CSb_FluorLine_Kissel_Nonradiative_Cascade (m : Int) (hm : inI32 m) (hk : KAllOk T Z) (ht : ∀ k : Int, 0 ≤ k → k < 9 → JTame (JGen.CS_Photo_Partial (JTables.ofC T) Z k E)) :
    JRel (JGen.CSb_FluorLine_Kissel_Nonradiative_Cascade (JTables.ofC T) Z m E) (Gen.CSb_FluorLine_Kissel_Nonradiative_Cascade T Z m E s) s := by
  jeq_start JGen.CSb_FluorLine_Kissel_Nonradiative_Cascade Gen.CSb_FluorLine_Kissel_Nonradiative_Cascade
  rcases (java_eq_c_CS_FluorLine_Kissel_Nonradiative_Cascade T Z hZ E s hs m hm hk ht).cases with ⟨v, hc, hj⟩ | ⟨e, hc, hj⟩ | ⟨a, b, hc, hj⟩ | ⟨a, hc⟩
  · have hr : ¬(Z < 1 ∨ Z > 120) := by
      unfold JGen.CS_FluorLine_Kissel_Nonradiative_Cascade at hj
      exact rng_NONRAD T Z hZ E m hj
    jeq_auto
  · jeq_auto
  · jeq_auto
  · jeq_auto

theorem shell_NOC (k : Int) (hk9 : inI32 k) (hk : KAllOk T Z) (ht : ∀ k : Int, 0 ≤ k → k < 9 → JTame (JGen.CS_Photo_Partial (JTables.ofC T) Z k E)) :
    JRel (JGen.CS_FluorShell_Kissel_no_Cascade (JTables.ofC T) Z k E) (Gen.CS_FluorShell_Kissel_no_Cascade T Z k E s) s := java_eq_c_CS_FluorShell_Kissel_no_Cascade T Z hZ k hk9 E s hs hk ht

omit hs in
theorem exec_range_NOC_1 (l : Int) (hr : -58 ≤ l ∧ l ≤ -30) (hz : ¬(Z < 1 ∨ Z > 120)) (hE : ¬ E ≤ 0) :
    JGen.CS_FLUORLINE_KISSEL_NO_CASCADE__execute (JTables.ofC T) Z l E =
      (JGen.RadRate (JTables.ofC T) Z l >>= fun r => JGen.CS_FluorShell_Kissel_no_Cascade (JTables.ofC T) Z 1 E >>= fun f => Except.ok (r * f)) := by
  unfold JGen.CS_FLUORLINE_KISSEL_NO_CASCADE__execute
  jeq_normJ
  simp only [hz, hE, ↓reduceIte, zero_lit]
  simp only [JStatic.line_mappings, jforEachCtlM]
  simp only [ite_bindJ, jpure_eq_ok, jbind_ok, ge_iff_le, bind_assoc]
  have r0 : ¬ (-29 ≤ l ∧ l ≤ 1) := by omega
  simp only [if_neg r0, if_pos hr]

omit hs in
theorem exec_range_NOC_2 (l : Int) (hr : -85 ≤ l ∧ l ≤ -59) (hz : ¬(Z < 1 ∨ Z > 120)) (hE : ¬ E ≤ 0) :
    JGen.CS_FLUORLINE_KISSEL_NO_CASCADE__execute (JTables.ofC T) Z l E =
      (JGen.RadRate (JTables.ofC T) Z l >>= fun r => JGen.CS_FluorShell_Kissel_no_Cascade (JTables.ofC T) Z 2 E >>= fun f => Except.ok (r * f)) := by
  unfold JGen.CS_FLUORLINE_KISSEL_NO_CASCADE__execute
  jeq_normJ
  simp only [hz, hE, ↓reduceIte, zero_lit]
  simp only [JStatic.line_mappings, jforEachCtlM]
  simp only [ite_bindJ, jpure_eq_ok, jbind_ok, ge_iff_le, bind_assoc]
  have r0 : ¬ (-29 ≤ l ∧ l ≤ 1) := by omega
  have r1 : ¬ (-58 ≤ l ∧ l ≤ -30) := by omega
  simp only [if_neg r0, if_neg r1, if_pos hr]

omit hs in
theorem exec_range_NOC_3 (l : Int) (hr : -113 ≤ l ∧ l ≤ -86) (hz : ¬(Z < 1 ∨ Z > 120)) (hE : ¬ E ≤ 0) :
    JGen.CS_FLUORLINE_KISSEL_NO_CASCADE__execute (JTables.ofC T) Z l E =
      (JGen.RadRate (JTables.ofC T) Z l >>= fun r => JGen.CS_FluorShell_Kissel_no_Cascade (JTables.ofC T) Z 3 E >>= fun f => Except.ok (r * f)) := by
  unfold JGen.CS_FLUORLINE_KISSEL_NO_CASCADE__execute
  jeq_normJ
  simp only [hz, hE, ↓reduceIte, zero_lit]
  simp only [JStatic.line_mappings, jforEachCtlM]
  simp only [ite_bindJ, jpure_eq_ok, jbind_ok, ge_iff_le, bind_assoc]
  have r0 : ¬ (-29 ≤ l ∧ l ≤ 1) := by omega
  have r1 : ¬ (-58 ≤ l ∧ l ≤ -30) := by omega
  have r2 : ¬ (-85 ≤ l ∧ l ≤ -59) := by omega
  simp only [if_neg r0, if_neg r1, if_neg r2, if_pos hr]

theorem line_NOC_nonLB (m : Int) (hm : inI32 m) (h3 : m ≠ 3) (hk : KAllOk T Z) (ht : ∀ k : Int, 0 ≤ k → k < 9 → JTame (JGen.CS_Photo_Partial (JTables.ofC T) Z k E)) :
    JRel (JGen.CS_FLUORLINE_KISSEL_NO_CASCADE__execute (JTables.ofC T) Z m E) (Gen.CS_FluorLine_Kissel_no_Cascade T Z m E s) s := by
  unfold Gen.CS_FluorLine_Kissel_no_Cascade FUEL
  jeq_start JGen.CS_FLUORLINE_KISSEL_NO_CASCADE__execute Gen.CS_FluorLine_Kissel_no_Cascade_fuel
  by_cases hz : Z < 1 ∨ Z > 120
  · jeq_auto
  by_cases hE : E ≤ 0
  · jeq_auto
  simp only [hz, hE, ↓reduceIte, zero_lit]
  simp only [JStatic.line_mappings, jforEachCtlM]
  simp only [loopCtlM, Int.reduceSub, Int.reduceToNat, Int.sub_zero, List.range_succ, List.range_zero, List.nil_append, List.cons_append, loopCtlGo,
    rd1, Static.line_mappings_line_lower, Static.line_mappings_line_upper, Static.line_mappings_shell,
    Static.line_mappings_line_lower_list, Static.line_mappings_line_upper_list, Static.line_mappings_shell_list]
  have tn : ∀ k : Nat, Int.toNat (OfNat.ofNat k) = k := fun k => rfl
  norm_num [List.getD, tn]
  clear tn
  simp only [c_short_and, decide_eq_true_eq]
  simp only [ite_bindJ, ite_bindC, jpure_eq_ok, pure_eq_ok, jbind_ok, bind_ok, ge_iff_le, bind_assoc]
  by_cases r0 : -29 ≤ m ∧ m ≤ 1
  · simp only [if_pos r0]
    clear r0
    have hsh := shell_NOC T Z hZ E s hs 0 (by decide) hk ht
    jeq_use_nz' (java_eq_c_RadRate T Z m hZ hm s hs), (java_nz_RadRate T Z hZ m hm)
    jeq_simp
    jeq_use hsh
    jeq_auto
  by_cases r1 : -58 ≤ m ∧ m ≤ -30
  · simp only [if_neg r0, if_pos r1]
    clear r0 r1
    have hsh := shell_NOC T Z hZ E s hs 1 (by decide) hk ht
    jeq_use_nz' (java_eq_c_RadRate T Z m hZ hm s hs), (java_nz_RadRate T Z hZ m hm)
    jeq_simp
    jeq_use hsh
    jeq_auto
  by_cases r2 : -85 ≤ m ∧ m ≤ -59
  · simp only [if_neg r0, if_neg r1, if_pos r2]
    clear r0 r1 r2
    have hsh := shell_NOC T Z hZ E s hs 2 (by decide) hk ht
    jeq_use_nz' (java_eq_c_RadRate T Z m hZ hm s hs), (java_nz_RadRate T Z hZ m hm)
    jeq_simp
    jeq_use hsh
    jeq_auto
  by_cases r3 : -113 ≤ m ∧ m ≤ -86
  · simp only [if_neg r0, if_neg r1, if_neg r2, if_pos r3]
    clear r0 r1 r2 r3
    have hsh := shell_NOC T Z hZ E s hs 3 (by decide) hk ht
    jeq_use_nz' (java_eq_c_RadRate T Z m hZ hm s hs), (java_nz_RadRate T Z hZ m hm)
    jeq_simp
    jeq_use hsh
    jeq_auto
  by_cases r4 : -136 ≤ m ∧ m ≤ -118
  · simp only [if_neg r0, if_neg r1, if_neg r2, if_neg r3, if_pos r4]
    clear r0 r1 r2 r3 r4
    have hsh := shell_NOC T Z hZ E s hs 4 (by decide) hk ht
    jeq_use_nz' (java_eq_c_RadRate T Z m hZ hm s hs), (java_nz_RadRate T Z hZ m hm)
    jeq_simp
    jeq_use hsh
    jeq_auto
  by_cases r5 : -158 ≤ m ∧ m ≤ -140
  · simp only [if_neg r0, if_neg r1, if_neg r2, if_neg r3, if_neg r4, if_pos r5]
    clear r0 r1 r2 r3 r4 r5
    have hsh := shell_NOC T Z hZ E s hs 5 (by decide) hk ht
    jeq_use_nz' (java_eq_c_RadRate T Z m hZ hm s hs), (java_nz_RadRate T Z hZ m hm)
    jeq_simp
    jeq_use hsh
    jeq_auto
  by_cases r6 : -180 ≤ m ∧ m ≤ -161
  · simp only [if_neg r0, if_neg r1, if_neg r2, if_neg r3, if_neg r4, if_neg r5, if_pos r6]
    clear r0 r1 r2 r3 r4 r5 r6
    have hsh := shell_NOC T Z hZ E s hs 6 (by decide) hk ht
    jeq_use_nz' (java_eq_c_RadRate T Z m hZ hm s hs), (java_nz_RadRate T Z hZ m hm)
    jeq_simp
    jeq_use hsh
    jeq_auto
  by_cases r7 : -200 ≤ m ∧ m ≤ -182
  · simp only [if_neg r0, if_neg r1, if_neg r2, if_neg r3, if_neg r4, if_neg r5, if_neg r6, if_pos r7]
    clear r0 r1 r2 r3 r4 r5 r6 r7
    have hsh := shell_NOC T Z hZ E s hs 7 (by decide) hk ht
    jeq_use_nz' (java_eq_c_RadRate T Z m hZ hm s hs), (java_nz_RadRate T Z hZ m hm)
    jeq_simp
    jeq_use hsh
    jeq_auto
  by_cases r8 : -219 ≤ m ∧ m ≤ -201
  · simp only [if_neg r0, if_neg r1, if_neg r2, if_neg r3, if_neg r4, if_neg r5, if_neg r6, if_neg r7, if_pos r8]
    clear r0 r1 r2 r3 r4 r5 r6 r7 r8
    have hsh := shell_NOC T Z hZ E s hs 8 (by decide) hk ht
    jeq_use_nz' (java_eq_c_RadRate T Z m hZ hm s hs), (java_nz_RadRate T Z hZ m hm)
    jeq_simp
    jeq_use hsh
    jeq_auto
  simp only [if_neg r0, if_neg r1, if_neg r2, if_neg r3, if_neg r4, if_neg r5, if_neg r6, if_neg r7, if_neg r8]
  clear r0 r1 r2 r3 r4 r5 r6 r7 r8
  by_cases r9 : m = 2
  · subst r9
    have hsh := shell_NOC T Z hZ E s hs 3 (by decide) hk ht
    jeq_use_nz' (java_eq_c_RadRate T Z 2 hZ hm s hs), (java_nz_RadRate T Z hZ 2 hm)
    jeq_simp
    jeq_use hsh
    jeq_auto
  simp only [if_neg r9, if_neg h3]
  jeq_auto

omit hs in
theorem member_NOC_1 (l : Int) (hl : inI32 l) (hr : -58 ≤ l ∧ l ≤ -30) (hz : ¬(Z < 1 ∨ Z > 120)) (hE : ¬ E ≤ 0) (hk : KAllOk T Z) (ht : ∀ k : Int, 0 ≤ k → k < 9 → JTame (JGen.CS_Photo_Partial (JTables.ofC T) Z k E)) :
    MemberRel (fun rv => jtryAll (JGen.RadRate (JTables.ofC T) Z l >>= fun r => JGen.CS_FluorShell_Kissel_no_Cascade (JTables.ofC T) Z 1 E >>= fun f => Except.ok (rv + r * f)) (Except.ok rv))
      (Gen.CS_FluorLine_Kissel_no_Cascade T Z l E Slot.null) := by
  have h := line_NOC_nonLB T Z hZ E Slot.null rfl l hl (by omega) hk ht
  rw [exec_range_NOC_1 T Z hZ E l hr hz hE] at h
  rcases h.cases with ⟨v, hc, hj⟩ | ⟨e, hc, hj⟩ | ⟨a, b, hc, hj⟩ | ⟨a, hc⟩
  · refine Or.inl ⟨v, hc, fun rv => ?_⟩
    exact member_val hj rv
  · refine Or.inl ⟨0, hc, fun rv => ?_⟩
    exact member_iae hj rv
  · refine Or.inr (Or.inl ⟨a, b, hc, fun rv => ?_⟩)
    exact member_nf hj rv
  · exact Or.inr (Or.inr ⟨a, hc⟩)

omit hs in
theorem member_NOC_2 (l : Int) (hl : inI32 l) (hr : -85 ≤ l ∧ l ≤ -59) (hz : ¬(Z < 1 ∨ Z > 120)) (hE : ¬ E ≤ 0) (hk : KAllOk T Z) (ht : ∀ k : Int, 0 ≤ k → k < 9 → JTame (JGen.CS_Photo_Partial (JTables.ofC T) Z k E)) :
    MemberRel (fun rv => jtryAll (JGen.RadRate (JTables.ofC T) Z l >>= fun r => JGen.CS_FluorShell_Kissel_no_Cascade (JTables.ofC T) Z 2 E >>= fun f => Except.ok (rv + r * f)) (Except.ok rv))
      (Gen.CS_FluorLine_Kissel_no_Cascade T Z l E Slot.null) := by
  have h := line_NOC_nonLB T Z hZ E Slot.null rfl l hl (by omega) hk ht
  rw [exec_range_NOC_2 T Z hZ E l hr hz hE] at h
  rcases h.cases with ⟨v, hc, hj⟩ | ⟨e, hc, hj⟩ | ⟨a, b, hc, hj⟩ | ⟨a, hc⟩
  · refine Or.inl ⟨v, hc, fun rv => ?_⟩
    exact member_val hj rv
  · refine Or.inl ⟨0, hc, fun rv => ?_⟩
    exact member_iae hj rv
  · refine Or.inr (Or.inl ⟨a, b, hc, fun rv => ?_⟩)
    exact member_nf hj rv
  · exact Or.inr (Or.inr ⟨a, hc⟩)

omit hs in
theorem member_NOC_3 (l : Int) (hl : inI32 l) (hr : -113 ≤ l ∧ l ≤ -86) (hz : ¬(Z < 1 ∨ Z > 120)) (hE : ¬ E ≤ 0) (hk : KAllOk T Z) (ht : ∀ k : Int, 0 ≤ k → k < 9 → JTame (JGen.CS_Photo_Partial (JTables.ofC T) Z k E)) :
    MemberRel (fun rv => jtryAll (JGen.RadRate (JTables.ofC T) Z l >>= fun r => JGen.CS_FluorShell_Kissel_no_Cascade (JTables.ofC T) Z 3 E >>= fun f => Except.ok (rv + r * f)) (Except.ok rv))
      (Gen.CS_FluorLine_Kissel_no_Cascade T Z l E Slot.null) := by
  have h := line_NOC_nonLB T Z hZ E Slot.null rfl l hl (by omega) hk ht
  rw [exec_range_NOC_3 T Z hZ E l hr hz hE] at h
  rcases h.cases with ⟨v, hc, hj⟩ | ⟨e, hc, hj⟩ | ⟨a, b, hc, hj⟩ | ⟨a, hc⟩
  · refine Or.inl ⟨v, hc, fun rv => ?_⟩
    exact member_val hj rv
  · refine Or.inl ⟨0, hc, fun rv => ?_⟩
    exact member_iae hj rv
  · refine Or.inr (Or.inl ⟨a, b, hc, fun rv => ?_⟩)
    exact member_nf hj rv
  · exact Or.inr (Or.inr ⟨a, hc⟩)

theorem line_NOC_LB (hk : KAllOk T Z) (ht : ∀ k : Int, 0 ≤ k → k < 9 → JTame (JGen.CS_Photo_Partial (JTables.ofC T) Z k E)) :
    JRel (JGen.CS_FLUORLINE_KISSEL_NO_CASCADE__execute (JTables.ofC T) Z 3 E) (Gen.CS_FluorLine_Kissel_no_Cascade T Z 3 E s) s := by
  unfold Gen.CS_FluorLine_Kissel_no_Cascade FUEL
  jeq_start JGen.CS_FLUORLINE_KISSEL_NO_CASCADE__execute Gen.CS_FluorLine_Kissel_no_Cascade_fuel
  by_cases hz : Z < 1 ∨ Z > 120
  · jeq_auto
  by_cases hE : E ≤ 0
  · jeq_auto
  simp only [hz, hE, ↓reduceIte, zero_lit]
  simp only [JStatic.line_mappings, jforEachCtlM]
  simp only [loopCtlM, Int.reduceSub, Int.reduceToNat, Int.sub_zero, List.range_succ, List.range_zero, List.nil_append, List.cons_append, loopCtlGo,
    rd1, Static.line_mappings_line_lower, Static.line_mappings_line_upper, Static.line_mappings_shell,
    Static.line_mappings_line_lower_list, Static.line_mappings_line_upper_list, Static.line_mappings_shell_list]
  have tn : ∀ k : Nat, Int.toNat (OfNat.ofNat k) = k := fun k => rfl
  simp only [loopM, Int.reduceSub, Int.reduceToNat, Int.sub_zero, List.range_succ, List.range_zero,
    List.nil_append, List.cons_append, List.foldlM_cons, List.foldlM_nil, Static.LB_LINE_MACROS, Static.LB_LINE_MACROS_list]
  norm_num [List.getD, tn]
  clear tn
  have hfold : Gen.CS_FluorLine_Kissel_no_Cascade_fuel 5 T Z = Gen.CS_FluorLine_Kissel_no_Cascade T Z := by funext l e sl; unfold Gen.CS_FluorLine_Kissel_no_Cascade FUEL; rfl
  simp only [hfold, JStatic.lb_pairs, jforEachM, List.foldlM_cons, List.foldlM_nil, jpure_eq_ok, pure_eq_ok, jbind_ret, bind_assoc]
  rcases member_NOC_2 T Z hZ E (-63) (by decide) (by decide) hz hE hk ht with ⟨w0, hc0, hj0⟩ | ⟨a, b, hc0, hj0⟩ | ⟨a, hc0⟩
  rotate_left
  · dsimp only at hj0
    simp only [hc0, hj0, bind_ok, jbind_ok, bind_error, jbind_error]; exact JRel.nf
  · simp only [hc0, bind_ok, bind_error]; exact JRel.ub
  dsimp only at hj0
  simp only [hc0, hj0, bind_ok, jbind_ok]
  rcases member_NOC_3 T Z hZ E (-95) (by decide) (by decide) hz hE hk ht with ⟨w1, hc1, hj1⟩ | ⟨a, b, hc1, hj1⟩ | ⟨a, hc1⟩
  rotate_left
  · dsimp only at hj1
    simp only [hc1, hj1, bind_ok, jbind_ok, bind_error, jbind_error]; exact JRel.nf
  · simp only [hc1, bind_ok, bind_error]; exact JRel.ub
  dsimp only at hj1
  simp only [hc1, hj1, bind_ok, jbind_ok]
  rcases member_NOC_1 T Z hZ E (-34) (by decide) (by decide) hz hE hk ht with ⟨w2, hc2, hj2⟩ | ⟨a, b, hc2, hj2⟩ | ⟨a, hc2⟩
  rotate_left
  · dsimp only at hj2
    simp only [hc2, hj2, bind_ok, jbind_ok, bind_error, jbind_error]; exact JRel.nf
  · simp only [hc2, bind_ok, bind_error]; exact JRel.ub
  dsimp only at hj2
  simp only [hc2, hj2, bind_ok, jbind_ok]
  rcases member_NOC_1 T Z hZ E (-33) (by decide) (by decide) hz hE hk ht with ⟨w3, hc3, hj3⟩ | ⟨a, b, hc3, hj3⟩ | ⟨a, hc3⟩
  rotate_left
  · dsimp only at hj3
    simp only [hc3, hj3, bind_ok, jbind_ok, bind_error, jbind_error]; exact JRel.nf
  · simp only [hc3, bind_ok, bind_error]; exact JRel.ub
  dsimp only at hj3
  simp only [hc3, hj3, bind_ok, jbind_ok]
  rcases member_NOC_3 T Z hZ E (-102) (by decide) (by decide) hz hE hk ht with ⟨w4, hc4, hj4⟩ | ⟨a, b, hc4, hj4⟩ | ⟨a, hc4⟩
  rotate_left
  · dsimp only at hj4
    simp only [hc4, hj4, bind_ok, jbind_ok, bind_error, jbind_error]; exact JRel.nf
  · simp only [hc4, bind_ok, bind_error]; exact JRel.ub
  dsimp only at hj4
  simp only [hc4, hj4, bind_ok, jbind_ok]
  rcases member_NOC_3 T Z hZ E (-91) (by decide) (by decide) hz hE hk ht with ⟨w5, hc5, hj5⟩ | ⟨a, b, hc5, hj5⟩ | ⟨a, hc5⟩
  rotate_left
  · dsimp only at hj5
    simp only [hc5, hj5, bind_ok, jbind_ok, bind_error, jbind_error]; exact JRel.nf
  · simp only [hc5, bind_ok, bind_error]; exact JRel.ub
  dsimp only at hj5
  simp only [hc5, hj5, bind_ok, jbind_ok]
  rcases member_NOC_3 T Z hZ E (-98) (by decide) (by decide) hz hE hk ht with ⟨w6, hc6, hj6⟩ | ⟨a, b, hc6, hj6⟩ | ⟨a, hc6⟩
  rotate_left
  · dsimp only at hj6
    simp only [hc6, hj6, bind_ok, jbind_ok, bind_error, jbind_error]; exact JRel.nf
  · simp only [hc6, bind_ok, bind_error]; exact JRel.ub
  dsimp only at hj6
  simp only [hc6, hj6, bind_ok, jbind_ok]
  rcases member_NOC_1 T Z hZ E (-36) (by decide) (by decide) hz hE hk ht with ⟨w7, hc7, hj7⟩ | ⟨a, b, hc7, hj7⟩ | ⟨a, hc7⟩
  rotate_left
  · dsimp only at hj7
    simp only [hc7, hj7, bind_ok, jbind_ok, bind_error, jbind_error]; exact JRel.nf
  · simp only [hc7, bind_ok, bind_error]; exact JRel.ub
  dsimp only at hj7
  simp only [hc7, hj7, bind_ok, jbind_ok]
  rcases member_NOC_1 T Z hZ E (-35) (by decide) (by decide) hz hE hk ht with ⟨w8, hc8, hj8⟩ | ⟨a, b, hc8, hj8⟩ | ⟨a, hc8⟩
  rotate_left
  · dsimp only at hj8
    simp only [hc8, hj8, bind_ok, jbind_ok, bind_error, jbind_error]; exact JRel.nf
  · simp only [hc8, bind_ok, bind_error]; exact JRel.ub
  dsimp only at hj8
  simp only [hc8, hj8, bind_ok, jbind_ok]
  rcases member_NOC_3 T Z hZ E (-94) (by decide) (by decide) hz hE hk ht with ⟨w9, hc9, hj9⟩ | ⟨a, b, hc9, hj9⟩ | ⟨a, hc9⟩
  rotate_left
  · dsimp only at hj9
    simp only [hc9, hj9, bind_ok, jbind_ok, bind_error, jbind_error]; exact JRel.nf
  · simp only [hc9, bind_ok, bind_error]; exact JRel.ub
  dsimp only at hj9
  simp only [hc9, hj9, bind_ok, jbind_ok]
  rcases member_NOC_2 T Z hZ E (-62) (by decide) (by decide) hz hE hk ht with ⟨w10, hc10, hj10⟩ | ⟨a, b, hc10, hj10⟩ | ⟨a, hc10⟩
  rotate_left
  · dsimp only at hj10
    simp only [hc10, hj10, bind_ok, jbind_ok, bind_error, jbind_error]; exact JRel.nf
  · simp only [hc10, bind_ok, bind_error]; exact JRel.ub
  dsimp only at hj10
  simp only [hc10, hj10, bind_ok, jbind_ok]
  rcases member_NOC_3 T Z hZ E (-96) (by decide) (by decide) hz hE hk ht with ⟨w11, hc11, hj11⟩ | ⟨a, b, hc11, hj11⟩ | ⟨a, hc11⟩
  rotate_left
  · dsimp only at hj11
    simp only [hc11, hj11, bind_ok, jbind_ok, bind_error, jbind_error]; exact JRel.nf
  · simp only [hc11, bind_ok, bind_error]; exact JRel.ub
  dsimp only at hj11
  simp only [hc11, hj11, bind_ok, jbind_ok]
  rcases member_NOC_3 T Z hZ E (-97) (by decide) (by decide) hz hE hk ht with ⟨w12, hc12, hj12⟩ | ⟨a, b, hc12, hj12⟩ | ⟨a, hc12⟩
  rotate_left
  · dsimp only at hj12
    simp only [hc12, hj12, bind_ok, jbind_ok, bind_error, jbind_error]; exact JRel.nf
  · simp only [hc12, bind_ok, bind_error]; exact JRel.ub
  dsimp only at hj12
  simp only [hc12, hj12, bind_ok, jbind_ok]
  simp only [zero_add]
  jeq_auto

theorem line_NOC (m : Int) (hm : inI32 m) (hk : KAllOk T Z) (ht : ∀ k : Int, 0 ≤ k → k < 9 → JTame (JGen.CS_Photo_Partial (JTables.ofC T) Z k E)) :
    JRel (JGen.CS_FLUORLINE_KISSEL_NO_CASCADE__execute (JTables.ofC T) Z m E) (Gen.CS_FluorLine_Kissel_no_Cascade T Z m E s) s := by
  by_cases h3 : m = 3
  · subst h3; exact line_NOC_LB T Z hZ E s hs hk ht
  · exact line_NOC_nonLB T Z hZ E s hs m hm h3 hk ht

omit hs in
theorem rng_NOC (m : Int) {v : ℝ} (h : JGen.CS_FLUORLINE_KISSEL_NO_CASCADE__execute (JTables.ofC T) Z m E = .ok v) : ¬(Z < 1 ∨ Z > 120) := by
  intro hz
  unfold JGen.CS_FLUORLINE_KISSEL_NO_CASCADE__execute at h
  jeq_normJ
  simp only [hz, ↓reduceIte, jthrow_eq_error] at h
  cases h

theorem java_eq_c_CS_FluorLine_Kissel_no_Cascade (m : Int) (hm : inI32 m) (hk : KAllOk T Z) (ht : ∀ k : Int, 0 ≤ k → k < 9 → JTame (JGen.CS_Photo_Partial (JTables.ofC T) Z k E)) :
    JRel (JGen.CS_FluorLine_Kissel_no_Cascade (JTables.ofC T) Z m E) (Gen.CS_FluorLine_Kissel_no_Cascade T Z m E s) s := by
  unfold JGen.CS_FluorLine_Kissel_no_Cascade
  exact line_NOC T Z hZ E s hs m hm hk ht

theorem java_eq_c_CSb_FluorLine_Kissel_no_Cascade (m : Int) (hm : inI32 m) (hk : KAllOk T Z) (ht : ∀ k : Int, 0 ≤ k → k < 9 → JTame (JGen.CS_Photo_Partial (JTables.ofC T) Z k E)) :
    JRel (JGen.CSb_FluorLine_Kissel_no_Cascade (JTables.ofC T) Z m E) (Gen.CSb_FluorLine_Kissel_no_Cascade T Z m E s) s := by
  jeq_start JGen.CSb_FluorLine_Kissel_no_Cascade Gen.CSb_FluorLine_Kissel_no_Cascade
  rcases (java_eq_c_CS_FluorLine_Kissel_no_Cascade T Z hZ E s hs m hm hk ht).cases with ⟨v, hc, hj⟩ | ⟨e, hc, hj⟩ | ⟨a, b, hc, hj⟩ | ⟨a, hc⟩
  · have hr : ¬(Z < 1 ∨ Z > 120) := by
      unfold JGen.CS_FluorLine_Kissel_no_Cascade at hj
      exact rng_NOC T Z hZ E m hj
    jeq_auto
  · jeq_auto
  · jeq_auto
  · jeq_auto

/-- `CS_FluorLine_Kissel` is `CS_FluorLine_Kissel_Cascade` in both languages -/
theorem java_eq_c_CS_FluorLine_Kissel (m : Int) (hm : inI32 m) (hk : KAllOk T Z) (ht : ∀ k : Int, 0 ≤ k → k < 9 → JTame (JGen.CS_Photo_Partial (JTables.ofC T) Z k E)) :
    JRel (JGen.CS_FluorLine_Kissel (JTables.ofC T) Z m E) (Gen.CS_FluorLine_Kissel T Z m E s) s := by
  jeq_start JGen.CS_FluorLine_Kissel Gen.CS_FluorLine_Kissel
  rcases (java_eq_c_CS_FluorLine_Kissel_Cascade T Z hZ E s hs m hm hk ht).cases with ⟨v, hc, hj⟩ | ⟨e, hc, hj⟩ | ⟨a, b, hc, hj⟩ | ⟨a, hc⟩ <;>
  jeq_auto

theorem java_eq_c_CSb_FluorLine_Kissel (m : Int) (hm : inI32 m) (hk : KAllOk T Z) (ht : ∀ k : Int, 0 ≤ k → k < 9 → JTame (JGen.CS_Photo_Partial (JTables.ofC T) Z k E)) :
    JRel (JGen.CSb_FluorLine_Kissel (JTables.ofC T) Z m E) (Gen.CSb_FluorLine_Kissel T Z m E s) s := by
  have h := java_eq_c_CSb_FluorLine_Kissel_Cascade T Z hZ E s hs m hm hk ht
  unfold Gen.CSb_FluorLine_Kissel_Cascade at h
  unfold JGen.CSb_FluorLine_Kissel Gen.CSb_FluorLine_Kissel
  exact h

end kline
end C19
end Xrl
