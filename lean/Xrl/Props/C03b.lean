import Xrl.Props.C03
import Xrl.Props.C02b
import Xrl.Props.C05b
import Xrl.Props.C05c
import Xrl.Props.C09
/-!
# C03 (continued) — the calling contract for every generated function that has a specification theorem

`contract_<f>` : `Contract (Gen.<f> …) error` — called with a non-full slot the function generated from the C source
either succeeds with a value and leaves the slot as it was, or returns the sentinel 0 with exactly one error (valid
code, non-empty message) stored (nothing stored when the slot is NULL).  Every corollary is `contract_of_meets`
applied to the function's `Meets` theorem plus a proof that the specification makes a claim (`≠ .any`) on the whole
domain of that theorem; the hypotheses are exactly those of the `Meets` theorem (table-shape conditions, `hW`,
`OwnOK`, …).  `null_slot_<f>` : "passing no slot changes nothing but the reporting" (same value with `NULL` and with an
empty slot).

Where a specification says `.any` on part of the domain the corollary carries the hypothesis excluding that part
(`LineEnergy` at `LB_LINE`, in C03.lean) — there is no other such case.  Where a `Meets` theorem has a side condition
that the contract does not need (`hM` of the Kissel line functions: the code rejects the ten intra-M macros whatever
the tables hold) the corollary is proved by case split and the side condition is dropped.

The Kissel cascade family (C08) is in C03c.lean.  The coverage table is at the end of this file.
-/
namespace Xrl
namespace C03
open Spec

set_option linter.unusedVariables false

/-! ## small `≠ .any` lemmas for the spec combinators not yet covered -/

theorem ElectronConfig_Biggs_ne_any (T : Tables ℝ) (Z s : Int) : Spec.ElectronConfig_Biggs T Z s ≠ .any := by
  unfold Spec.ElectronConfig_Biggs; split_ifs <;> simp

theorem CS_Energy_ne_any (T : Tables ℝ) (Z : Int) (E : ℝ) : Spec.CS_Energy T Z E ≠ .any := by
  unfold Spec.CS_Energy; exact interp_ne_any
theorem Fi_ne_any (T : Tables ℝ) (Z : Int) (E : ℝ) : Spec.Fi T Z E ≠ .any := by
  unfold Spec.Fi; exact interp_ne_any
theorem Fii_ne_any (T : Tables ℝ) (Z : Int) (E : ℝ) : Spec.Fii T Z E ≠ .any := by
  unfold Spec.Fii; exact interp_ne_any
theorem ComptonProfile_ne_any (T : Tables ℝ) (Z : Int) (pz : ℝ) : Spec.ComptonProfile T Z pz ≠ .any := by
  unfold Spec.ComptonProfile; exact interp_ne_any
theorem ComptonProfile_Partial_ne_any (T : Tables ℝ) (Z shell : Int) (pz : ℝ) :
    Spec.ComptonProfile_Partial T Z shell pz ≠ .any := by
  unfold Spec.ComptonProfile_Partial; exact interp_ne_any

theorem CS_Photo_Partial_ne_any (T : Tables ℝ) (Z shell : Int) (E : ℝ) : Spec.CS_Photo_Partial T Z shell E ≠ .any := by
  unfold Spec.CS_Photo_Partial; split <;> simp

theorem CS_Photo_Total_ne_any (T : Tables ℝ) (Z : Int) (E : ℝ) : Spec.CS_Photo_Total T Z E ≠ .any := by
  unfold Spec.CS_Photo_Total Spec.CS_Photo_Total_of; exact C05.toCm2g_ne_any
theorem CS_Total_Kissel_ne_any (T : Tables ℝ) (Z : Int) (E : ℝ) : Spec.CS_Total_Kissel T Z E ≠ .any := by
  unfold Spec.CS_Total_Kissel Spec.CS_Total_Kissel_of; exact add3_ne_any
theorem CSb_Total_Kissel_ne_any (T : Tables ℝ) (Z : Int) (E : ℝ) : Spec.CSb_Total_Kissel T Z E ≠ .any := by
  unfold Spec.CSb_Total_Kissel Spec.CSb_Total_Kissel_of; exact C05.toBarn_ne_any

theorem DCS_Thoms_ne_any (θ : ℝ) : (Spec.DCS_Thoms θ : Expect ℝ) ≠ .any := by unfold Spec.DCS_Thoms; simp
theorem DCSP_Thoms_ne_any (θ φ : ℝ) : (Spec.DCSP_Thoms θ φ : Expect ℝ) ≠ .any := by unfold Spec.DCSP_Thoms; simp
theorem DCS_KN_ne_any (E θ : ℝ) : Spec.DCS_KN E θ ≠ .any := by unfold Spec.DCS_KN; split_ifs <;> simp
theorem DCSP_KN_ne_any (E θ φ : ℝ) : Spec.DCSP_KN E θ φ ≠ .any := by unfold Spec.DCSP_KN; split_ifs <;> simp
theorem CS_KN_ne_any (E : ℝ) : Spec.CS_KN E ≠ .any := by unfold Spec.CS_KN; split_ifs <;> simp
theorem ComptonEnergy_ne_any (E θ : ℝ) : Spec.ComptonEnergy E θ ≠ .any := by unfold Spec.ComptonEnergy; split_ifs <;> simp
theorem MomentTransf_ne_any (E θ : ℝ) : Spec.MomentTransf E θ ≠ .any := by unfold Spec.MomentTransf; split_ifs <;> simp

theorem composed_ne_any (T : Tables ℝ) (Z l1 l2 : Int) : composed T Z l1 l2 ≠ .any := by
  unfold composed wmean; simp only []; split_ifs <;> simp

/-! ## C01 / C02 / C02b: the remaining lookup and spline sites -/

section sites
variable (T : Tables ℝ) (Z m shell : Int) (E pz : ℝ) (error : Slot) (he : error.isFull = false)
include he

theorem contract_ElectronConfig_Biggs
    (hlen : T.NShells_ComptonProfiles Z.toNat ≤ (T.UOCCUP_ComptonProfiles Z.toNat).len) :
    Contract (Gen.ElectronConfig_Biggs T Z m error) error :=
  contract_of_meets (C01.lookup_spec_ElectronConfig_Biggs T Z m error he hlen) (ElectronConfig_Biggs_ne_any T Z m)

theorem contract_CS_Energy
    (hs : vecOkB (T.E_Energy_arr Z.toNat) (T.CS_Energy_arr Z.toNat) (T.CS_Energy_arr2 Z.toNat) (T.NE_Energy Z.toNat) = true) :
    Contract (Gen.CS_Energy T Z E error) error :=
  contract_of_meets (C02.site_spec_CS_Energy T Z E error he hs) (CS_Energy_ne_any T Z E)

theorem contract_Fi
    (hs : vecOkB (T.E_Fi_arr Z.toNat) (T.Fi_arr Z.toNat) (T.Fi_arr2 Z.toNat) (T.NE_Fi Z.toNat) = true) :
    Contract (Gen.Fi T Z E error) error :=
  contract_of_meets (C02.site_spec_Fi T Z E error he hs) (Fi_ne_any T Z E)

theorem contract_Fii
    (hs : vecOkB (T.E_Fii_arr Z.toNat) (T.Fii_arr Z.toNat) (T.Fii_arr2 Z.toNat) (T.NE_Fii Z.toNat) = true) :
    Contract (Gen.Fii T Z E error) error :=
  contract_of_meets (C02.site_spec_Fii T Z E error he hs) (Fii_ne_any T Z E)

theorem contract_FF_Rayl
    (hs : vecOkB (T.q_Rayl_arr Z.toNat) (T.FF_Rayl_arr Z.toNat) (T.FF_Rayl_arr2 Z.toNat) (T.Nq_Rayl Z.toNat) = true) :
    Contract (Gen.FF_Rayl T Z E error) error :=
  contract_of_meets (C02.site_spec_FF_Rayl T Z E error he hs) (C05.FF_Rayl_ne_any T Z E)

theorem contract_SF_Compt
    (hs : vecOkB (T.q_Compt_arr Z.toNat) (T.SF_Compt_arr Z.toNat) (T.SF_Compt_arr2 Z.toNat) (T.Nq_Compt Z.toNat) = true) :
    Contract (Gen.SF_Compt T Z E error) error :=
  contract_of_meets (C02.site_spec_SF_Compt T Z E error he hs) (C05.SF_Compt_ne_any T Z E)

theorem contract_ComptonProfile
    (hs : vecOkB (T.pz_ComptonProfiles Z.toNat) (T.Total_ComptonProfiles Z.toNat) (T.Total_ComptonProfiles2 Z.toNat)
      (T.Npz_ComptonProfiles Z.toNat) = true)
    (hN : 0 ≤ T.NShells_ComptonProfiles Z.toNat → 1 ≤ T.Npz_ComptonProfiles Z.toNat) :
    Contract (Gen.ComptonProfile T Z pz error) error :=
  contract_of_meets (C02.site_spec_ComptonProfile T Z pz error he hs hN) (ComptonProfile_ne_any T Z pz)

theorem contract_ComptonProfile_Partial (hs : profileColOkB T Z shell = true) (hp : profileOkB T Z = true) :
    Contract (Gen.ComptonProfile_Partial T Z shell pz error) error :=
  contract_of_meets (C02.site_spec_ComptonProfile_Partial T Z shell pz error he hs hp)
    (ComptonProfile_Partial_ne_any T Z shell pz)

/-- the shape condition is needed only for a call that passes the guards (`kisselGuard`) -/
theorem contract_CSb_Photo_Partial_of (hs : kisselGuard T Z shell E = true → kisselShapeB T Z shell = true) :
    Contract (Gen.CSb_Photo_Partial T Z shell E error) error :=
  contract_of_meets (C02.site_spec_CSb_Photo_Partial_of T Z shell E error he hs) (C05.CSb_Photo_Partial_ne_any T Z shell E)

theorem contract_CSb_Photo_Partial (hs : kisselShapeB T Z shell = true) :
    Contract (Gen.CSb_Photo_Partial T Z shell E error) error :=
  contract_CSb_Photo_Partial_of T Z shell E error he (fun _ => hs)

end sites

/-! ## C05: per-atom twins, differential cross sections, Kissel totals -/

section c05
variable (T : Tables ℝ) (Z shell : Int) (E θ φ : ℝ) (error : Slot) (he : error.isFull = false)
include he

section
variable (hP : vecOkB (T.E_Photo_arr Z.toNat) (T.CS_Photo_arr Z.toNat) (T.CS_Photo_arr2 Z.toNat) (T.NE_Photo Z.toNat) = true)
  (hR : vecOkB (T.E_Rayl_arr Z.toNat) (T.CS_Rayl_arr Z.toNat) (T.CS_Rayl_arr2 Z.toNat) (T.NE_Rayl Z.toNat) = true)
  (hC : vecOkB (T.E_Compt_arr Z.toNat) (T.CS_Compt_arr Z.toNat) (T.CS_Compt_arr2 Z.toNat) (T.NE_Compt Z.toNat) = true)

include hP hR hC in
theorem contract_CSb_Total : Contract (Gen.CSb_Total T Z E error) error :=
  contract_of_meets (C05.barn_twin_CSb_Total T Z E error he hP hR hC) (by unfold Spec.CSb_Total; exact C05.toBarn_ne_any)
include hP in
theorem contract_CSb_Photo : Contract (Gen.CSb_Photo T Z E error) error :=
  contract_of_meets (C05.barn_twin_CSb_Photo T Z E error he hP) (by unfold Spec.CSb_Photo; exact C05.toBarn_ne_any)
include hR in
theorem contract_CSb_Rayl : Contract (Gen.CSb_Rayl T Z E error) error :=
  contract_of_meets (C05.barn_twin_CSb_Rayl T Z E error he hR) (by unfold Spec.CSb_Rayl; exact C05.toBarn_ne_any)
include hC in
theorem contract_CSb_Compt : Contract (Gen.CSb_Compt T Z E error) error :=
  contract_of_meets (C05.barn_twin_CSb_Compt T Z E error he hC) (by unfold Spec.CSb_Compt; exact C05.toBarn_ne_any)
end

section rayl
variable (hs : vecOkB (T.q_Rayl_arr Z.toNat) (T.FF_Rayl_arr Z.toNat) (T.FF_Rayl_arr2 Z.toNat) (T.Nq_Rayl Z.toNat) = true)
  (hW : ∀ f, atQ (Spec.MomentTransf E θ) (Spec.FF_Rayl T Z) = .value f → Spec.AtomicWeight T Z ≠ .fails)
include hs hW

theorem contract_DCS_Rayl : Contract (Gen.DCS_Rayl T Z E θ error) error :=
  contract_of_meets (C05.dcs_rayl_eq T Z E θ error he hs hW) (by unfold Spec.DCS_Rayl; exact C05.dcsOf_ne_any)
theorem contract_DCSP_Rayl : Contract (Gen.DCSP_Rayl T Z E θ φ error) error :=
  contract_of_meets (C05.dcsp_rayl_eq T Z E θ φ error he hs hW) (by unfold Spec.DCSP_Rayl; exact C05.dcsOf_ne_any)
theorem contract_DCSb_Rayl : Contract (Gen.DCSb_Rayl T Z E θ error) error :=
  contract_of_meets (C05.barn_twin_DCSb_Rayl T Z E θ error he hs hW) (by unfold Spec.DCSb_Rayl; exact C05.toBarn_ne_any)
theorem contract_DCSPb_Rayl : Contract (Gen.DCSPb_Rayl T Z E θ φ error) error :=
  contract_of_meets (C05.barn_twin_DCSPb_Rayl T Z E θ φ error he hs hW) (by unfold Spec.DCSPb_Rayl; exact C05.toBarn_ne_any)
end rayl

section compt
variable (hs : vecOkB (T.q_Compt_arr Z.toNat) (T.SF_Compt_arr Z.toNat) (T.SF_Compt_arr2 Z.toNat) (T.Nq_Compt Z.toNat) = true)
  (hW : ∀ f, atQ (Spec.MomentTransf E θ) (Spec.SF_Compt T Z) = .value f → Spec.AtomicWeight T Z ≠ .fails)
include hs hW

theorem contract_DCS_Compt : Contract (Gen.DCS_Compt T Z E θ error) error :=
  contract_of_meets (C05.dcs_compt_eq T Z E θ error he hs hW) (by unfold Spec.DCS_Compt; exact C05.dcsOf_ne_any)
theorem contract_DCSP_Compt : Contract (Gen.DCSP_Compt T Z E θ φ error) error :=
  contract_of_meets (C05.dcsp_compt_eq T Z E θ φ error he hs hW) (by unfold Spec.DCSP_Compt; exact C05.dcsOf_ne_any)
theorem contract_DCSb_Compt : Contract (Gen.DCSb_Compt T Z E θ error) error :=
  contract_of_meets (C05.barn_twin_DCSb_Compt T Z E θ error he hs hW) (by unfold Spec.DCSb_Compt; exact C05.toBarn_ne_any)
theorem contract_DCSPb_Compt : Contract (Gen.DCSPb_Compt T Z E θ φ error) error :=
  contract_of_meets (C05.barn_twin_DCSPb_Compt T Z E θ φ error he hs hW) (by unfold Spec.DCSPb_Compt; exact C05.toBarn_ne_any)
end compt

section kissel
variable (hs : ∀ s : Nat, s < 28 → kisselShapeB T Z (s : Int) = true)

include hs in
theorem contract_CSb_Photo_Total : Contract (Gen.CSb_Photo_Total T Z E error) error :=
  contract_of_meets (C05.photo_total_eq T Z E error he hs) (C05.CSb_Photo_Total_ne_any T Z E)

variable (hW : ∀ v, Spec.CSb_Photo_Total T Z E = .value v → Spec.AtomicWeight T Z ≠ .fails)

include hs hW in
theorem contract_CS_Photo_Total : Contract (Gen.CS_Photo_Total T Z E error) error :=
  contract_of_meets (C05.cs_photo_total_eq' T Z E error he hs hW) (CS_Photo_Total_ne_any T Z E)

variable (hR : vecOkB (T.E_Rayl_arr Z.toNat) (T.CS_Rayl_arr Z.toNat) (T.CS_Rayl_arr2 Z.toNat) (T.NE_Rayl Z.toNat) = true)
  (hC : vecOkB (T.E_Compt_arr Z.toNat) (T.CS_Compt_arr Z.toNat) (T.CS_Compt_arr2 Z.toNat) (T.NE_Compt Z.toNat) = true)

include hs hW hR hC in
theorem contract_CS_Total_Kissel : Contract (Gen.CS_Total_Kissel T Z E error) error :=
  contract_of_meets (C05.cs_total_kissel_eq' T Z E error he hs hR hC hW) (CS_Total_Kissel_ne_any T Z E)
include hs hW hR hC in
theorem contract_CSb_Total_Kissel : Contract (Gen.CSb_Total_Kissel T Z E error) error :=
  contract_of_meets (C05.barn_twin_CSb_Total_Kissel' T Z E error he hs hR hC hW) (CSb_Total_Kissel_ne_any T Z E)
end kissel

theorem contract_CS_Photo_Partial (hs : kisselShapeB T Z shell = true)
    (hW : ∀ b, Spec.CSb_Photo_Partial T Z shell E = .value b → Spec.AtomicWeight T Z ≠ .fails) :
    Contract (Gen.CS_Photo_Partial T Z shell E error) error :=
  contract_of_meets (C05.cs_photo_partial_eq T Z shell E error he hs hW) (CS_Photo_Partial_ne_any T Z shell E)

end c05

/-! ## C12: closed-form scattering formulas -/

section c12
variable (T : Tables ℝ) (E θ φ : ℝ) (error : Slot)

/-- the two Thomson functions never fail and never touch the slot: no hypothesis at all, not even on the slot -/
theorem contract_DCS_Thoms : Contract (Gen.DCS_Thoms T θ error) error :=
  contract_of_meets (C12.closed_form_DCS_Thoms T θ error) (DCS_Thoms_ne_any θ)
theorem contract_DCSP_Thoms : Contract (Gen.DCSP_Thoms T θ φ error) error :=
  contract_of_meets (C12.closed_form_DCSP_Thoms T θ φ error) (DCSP_Thoms_ne_any θ φ)

variable (he : error.isFull = false)
include he

theorem contract_DCS_KN : Contract (Gen.DCS_KN T E θ error) error :=
  contract_of_meets (C12.closed_form_DCS_KN T E θ error he) (DCS_KN_ne_any E θ)
theorem contract_DCSP_KN : Contract (Gen.DCSP_KN T E θ φ error) error :=
  contract_of_meets (C12.closed_form_DCSP_KN T E θ φ error he) (DCSP_KN_ne_any E θ φ)
theorem contract_CS_KN : Contract (Gen.CS_KN T E error) error :=
  contract_of_meets (C12.closed_form_CS_KN T E error he) (CS_KN_ne_any E)
theorem contract_ComptonEnergy : Contract (Gen.ComptonEnergy T E θ error) error :=
  contract_of_meets (C12.closed_form_ComptonEnergy T E θ error he) (ComptonEnergy_ne_any E θ)
theorem contract_MomentTransf : Contract (Gen.MomentTransf T E θ error) error :=
  contract_of_meets (C12.closed_form_MomentTransf T E θ error he) (MomentTransf_ne_any E θ)

end c12

/-! ## C09: jump-ratio fluorescence cross sections;  C10: `LineEnergyComposed` -/

section c09
variable (T : Tables ℝ) (Z shell line : Int) (E : ℝ) (error : Slot) (he : error.isFull = false)
include he

theorem contract_Jump_from_K : Contract (Gen.Jump_from_K T Z E error) error :=
  contract_of_meets (C09.jump_from_K_spec T Z E error he) (C09.shellFactor_ne_any T Z _ E)
theorem contract_Jump_from_L1 : Contract (Gen.Jump_from_L1 T Z E error) error :=
  contract_of_meets (C09.jump_from_L1_spec T Z E error he) (C09.shellFactor_ne_any T Z _ E)
theorem contract_Jump_from_L2 (hO : edgeOrderB T Z = true) : Contract (Gen.Jump_from_L2 T Z E error) error :=
  contract_of_meets (C09.jump_from_L2_spec T Z E error he hO) (C09.shellFactor_ne_any T Z _ E)
theorem contract_Jump_from_L3 (hO : edgeOrderB T Z = true) : Contract (Gen.Jump_from_L3 T Z E error) error :=
  contract_of_meets (C09.jump_from_L3_spec T Z E error he hO) (C09.shellFactor_ne_any T Z _ E)

variable (hP : vecOkB (T.E_Photo_arr Z.toNat) (T.CS_Photo_arr Z.toNat) (T.CS_Photo_arr2 Z.toNat) (T.NE_Photo Z.toNat) = true)
  (hO : edgeOrderB T Z = true)
include hP hO

theorem contract_CS_FluorShell : Contract (Gen.CS_FluorShell T Z shell E error) error :=
  contract_of_meets (C09.fluorshell_jump_spec T Z E error he shell hP hO) (C09.fluorShell_ne_any T Z E shell)
/-- every macro value, the L-beta group included -/
theorem contract_CS_FluorLine : Contract (Gen.CS_FluorLine T Z line E error) error :=
  contract_of_meets (C09.fluorline_jump_spec T Z E error he line hP hO) (C09.fluorLine_ne_any T Z E line)
theorem contract_CSb_FluorShell : Contract (Gen.CSb_FluorShell T Z shell E error) error :=
  contract_of_meets (C09.barn_twin_CSb_FluorShell T Z E error he shell hP hO)
    (by unfold Spec.CSb_FluorShell; exact C05.toBarn_ne_any)
theorem contract_CSb_FluorLine : Contract (Gen.CSb_FluorLine T Z line E error) error :=
  contract_of_meets (C09.barn_twin_CSb_FluorLine T Z E error he line hP hO)
    (by unfold Spec.CSb_FluorLine; exact C05.toBarn_ne_any)

end c09

section c10
variable (T : Tables ℝ) (Z : Int) (error : Slot) (he : error.isFull = false)
include he

/-- the static helper `LineEnergyComposed` of fluor_lines.c, for the member pairs it is called with (two plain line
macros: neither a Siegbahn group nor an IUPAC doublet — `C10.Plain`); the only theorem there is about it -/
theorem contract_LineEnergyComposed (l1 l2 : Int) (h1 : C10.Plain l1) (h2 : C10.Plain l2) :
    Contract (Gen.LineEnergyComposed T Z l1 l2 error) error := by
  have h := C10.composed_spec T Z error he 4 l1 l2 h1 h2
  exact contract_of_meets (by unfold Gen.LineEnergyComposed FUEL; exact h) (composed_ne_any T Z l1 l2)

end c10

/-! ## "passing no error slot changes nothing but the reporting"

`SameValue f` : the call without a slot (`NULL`) and the call with an empty slot return the same number (the value, or
the sentinel 0 when the call fails — in which case the empty slot receives the error and `NULL` stays `NULL`).
Stated for the functions of C03.lean as well. -/

def SameValue (f : Slot → M (ℝ × Slot)) : Prop :=
  ∃ v s, f Slot.null = Except.ok (v, Slot.null) ∧ f Slot.empty = Except.ok (v, s)

theorem sameValue_of_meets {f : Slot → M (ℝ × Slot)} {x : Expect ℝ}
    (h : ∀ error : Slot, error.isFull = false → Meets (f error) error x) (hx : x ≠ .any) : SameValue f :=
  null_slot_same_value (h Slot.null rfl) (h Slot.empty rfl) hx

theorem LineEnergy_ne_any (T : Tables ℝ) (Z m : Int) (hm : m ≠ Hdr.LB_LINE) : Spec.LineEnergy T Z m ≠ .any := by
  unfold Spec.LineEnergy
  split_ifs <;> try simp
  · unfold wmean; simp only []; split_ifs <;> simp
  · unfold wmean; simp only []; split_ifs <;> simp
  · exact composed_ne_any T Z _ _
  · split
    · exact composed_ne_any T Z _ _
    · exact C10.singleEnergy_ne_any T Z m

section nullslot
variable (T : Tables ℝ) (Z m shell : Int) (E pz θ φ : ℝ)

theorem null_slot_AtomicWeight : SameValue (Gen.AtomicWeight T Z) :=
  sameValue_of_meets (fun e he => C01.lookup_spec_AtomicWeight T Z e he) lookup1_ne_any
theorem null_slot_ElementDensity : SameValue (Gen.ElementDensity T Z) :=
  sameValue_of_meets (fun e he => C01.lookup_spec_ElementDensity T Z e he) lookup1_ne_any
theorem null_slot_EdgeEnergy : SameValue (Gen.EdgeEnergy T Z m) :=
  sameValue_of_meets (fun e he => C01.lookup_spec_EdgeEnergy T Z m e he) lookup2_ne_any
theorem null_slot_FluorYield : SameValue (Gen.FluorYield T Z m) :=
  sameValue_of_meets (fun e he => C01.lookup_spec_FluorYield T Z m e he) lookup2_ne_any
theorem null_slot_JumpFactor : SameValue (Gen.JumpFactor T Z m) :=
  sameValue_of_meets (fun e he => C01.lookup_spec_JumpFactor T Z m e he) lookup2_ne_any
theorem null_slot_AtomicLevelWidth : SameValue (Gen.AtomicLevelWidth T Z m) :=
  sameValue_of_meets (fun e he => C01.lookup_spec_AtomicLevelWidth T Z m e he) lookup2_ne_any
theorem null_slot_CosKronTransProb : SameValue (Gen.CosKronTransProb T Z m) :=
  sameValue_of_meets (fun e he => C01.lookup_spec_CosKronTransProb T Z m e he) lookup2_ne_any
theorem null_slot_ElectronConfig : SameValue (Gen.ElectronConfig T Z m) :=
  sameValue_of_meets (fun e he => C01.lookup_spec_ElectronConfig T Z m e he) lookup2_ne_any
theorem null_slot_AugerRate : SameValue (Gen.AugerRate T Z m) :=
  sameValue_of_meets (fun e he => C01.lookup_spec_AugerRate T Z m e he) lookup2_ne_any
theorem null_slot_AugerYield : SameValue (Gen.AugerYield T Z m) :=
  sameValue_of_meets (fun e he => C01.lookup_spec_AugerYield T Z m e he) lookup2_ne_any
theorem null_slot_ElectronConfig_Biggs
    (hlen : T.NShells_ComptonProfiles Z.toNat ≤ (T.UOCCUP_ComptonProfiles Z.toNat).len) : SameValue (Gen.ElectronConfig_Biggs T Z m) :=
  sameValue_of_meets (fun e he => C01.lookup_spec_ElectronConfig_Biggs T Z m e he hlen) (ElectronConfig_Biggs_ne_any T Z m)
theorem null_slot_RadRate : SameValue (Gen.RadRate T Z m) :=
  sameValue_of_meets (fun e he => C10.rad_rate_spec T Z e he m) (C09.radRate_ne_any T Z m)
theorem null_slot_CS_Photo
    (hP : vecOkB (T.E_Photo_arr Z.toNat) (T.CS_Photo_arr Z.toNat) (T.CS_Photo_arr2 Z.toNat) (T.NE_Photo Z.toNat) = true) : SameValue (Gen.CS_Photo T Z E) :=
  sameValue_of_meets (fun e he => C02.site_spec_CS_Photo T Z E e he hP) (by unfold Spec.CS_Photo; exact interp_ne_any)
theorem null_slot_CS_Rayl
    (hR : vecOkB (T.E_Rayl_arr Z.toNat) (T.CS_Rayl_arr Z.toNat) (T.CS_Rayl_arr2 Z.toNat) (T.NE_Rayl Z.toNat) = true) : SameValue (Gen.CS_Rayl T Z E) :=
  sameValue_of_meets (fun e he => C02.site_spec_CS_Rayl T Z E e he hR) (by unfold Spec.CS_Rayl; exact interp_ne_any)
theorem null_slot_CS_Compt
    (hC : vecOkB (T.E_Compt_arr Z.toNat) (T.CS_Compt_arr Z.toNat) (T.CS_Compt_arr2 Z.toNat) (T.NE_Compt Z.toNat) = true) : SameValue (Gen.CS_Compt T Z E) :=
  sameValue_of_meets (fun e he => C02.site_spec_CS_Compt T Z E e he hC) (by unfold Spec.CS_Compt; exact interp_ne_any)
theorem null_slot_CS_Total
    (hP : vecOkB (T.E_Photo_arr Z.toNat) (T.CS_Photo_arr Z.toNat) (T.CS_Photo_arr2 Z.toNat) (T.NE_Photo Z.toNat) = true) (hR : vecOkB (T.E_Rayl_arr Z.toNat) (T.CS_Rayl_arr Z.toNat) (T.CS_Rayl_arr2 Z.toNat) (T.NE_Rayl Z.toNat) = true) (hC : vecOkB (T.E_Compt_arr Z.toNat) (T.CS_Compt_arr Z.toNat) (T.CS_Compt_arr2 Z.toNat) (T.NE_Compt Z.toNat) = true) : SameValue (Gen.CS_Total T Z E) :=
  sameValue_of_meets (fun e he => C05.cs_total_eq T Z E e he hP hR hC) (by unfold Spec.CS_Total; exact add3_ne_any)
theorem null_slot_CS_Energy
    (hs : vecOkB (T.E_Energy_arr Z.toNat) (T.CS_Energy_arr Z.toNat) (T.CS_Energy_arr2 Z.toNat) (T.NE_Energy Z.toNat) = true) : SameValue (Gen.CS_Energy T Z E) :=
  sameValue_of_meets (fun e he => C02.site_spec_CS_Energy T Z E e he hs) (CS_Energy_ne_any T Z E)
theorem null_slot_Fi
    (hs : vecOkB (T.E_Fi_arr Z.toNat) (T.Fi_arr Z.toNat) (T.Fi_arr2 Z.toNat) (T.NE_Fi Z.toNat) = true) : SameValue (Gen.Fi T Z E) :=
  sameValue_of_meets (fun e he => C02.site_spec_Fi T Z E e he hs) (Fi_ne_any T Z E)
theorem null_slot_Fii
    (hs : vecOkB (T.E_Fii_arr Z.toNat) (T.Fii_arr Z.toNat) (T.Fii_arr2 Z.toNat) (T.NE_Fii Z.toNat) = true) : SameValue (Gen.Fii T Z E) :=
  sameValue_of_meets (fun e he => C02.site_spec_Fii T Z E e he hs) (Fii_ne_any T Z E)
theorem null_slot_FF_Rayl
    (hs : vecOkB (T.q_Rayl_arr Z.toNat) (T.FF_Rayl_arr Z.toNat) (T.FF_Rayl_arr2 Z.toNat) (T.Nq_Rayl Z.toNat) = true) : SameValue (Gen.FF_Rayl T Z E) :=
  sameValue_of_meets (fun e he => C02.site_spec_FF_Rayl T Z E e he hs) (C05.FF_Rayl_ne_any T Z E)
theorem null_slot_SF_Compt
    (hs : vecOkB (T.q_Compt_arr Z.toNat) (T.SF_Compt_arr Z.toNat) (T.SF_Compt_arr2 Z.toNat) (T.Nq_Compt Z.toNat) = true) : SameValue (Gen.SF_Compt T Z E) :=
  sameValue_of_meets (fun e he => C02.site_spec_SF_Compt T Z E e he hs) (C05.SF_Compt_ne_any T Z E)
theorem null_slot_ComptonProfile
    (hs : vecOkB (T.pz_ComptonProfiles Z.toNat) (T.Total_ComptonProfiles Z.toNat) (T.Total_ComptonProfiles2 Z.toNat)
      (T.Npz_ComptonProfiles Z.toNat) = true)
    (hN : 0 ≤ T.NShells_ComptonProfiles Z.toNat → 1 ≤ T.Npz_ComptonProfiles Z.toNat) : SameValue (Gen.ComptonProfile T Z pz) :=
  sameValue_of_meets (fun e he => C02.site_spec_ComptonProfile T Z pz e he hs hN) (ComptonProfile_ne_any T Z pz)
theorem null_slot_ComptonProfile_Partial
    (hs : profileColOkB T Z shell = true) (hp : profileOkB T Z = true) : SameValue (Gen.ComptonProfile_Partial T Z shell pz) :=
  sameValue_of_meets (fun e he => C02.site_spec_ComptonProfile_Partial T Z shell pz e he hs hp) (ComptonProfile_Partial_ne_any T Z shell pz)
theorem null_slot_CSb_Photo_Partial
    (hs : kisselShapeB T Z shell = true) : SameValue (Gen.CSb_Photo_Partial T Z shell E) :=
  sameValue_of_meets (fun e he => C02.site_spec_CSb_Photo_Partial T Z shell E e he hs) (C05.CSb_Photo_Partial_ne_any T Z shell E)
theorem null_slot_CS_Photo_Partial
    (hs : kisselShapeB T Z shell = true)
    (hW : ∀ b, Spec.CSb_Photo_Partial T Z shell E = .value b → Spec.AtomicWeight T Z ≠ .fails) : SameValue (Gen.CS_Photo_Partial T Z shell E) :=
  sameValue_of_meets (fun e he => C05.cs_photo_partial_eq T Z shell E e he hs hW) (CS_Photo_Partial_ne_any T Z shell E)
theorem null_slot_CSb_Total
    (hP : vecOkB (T.E_Photo_arr Z.toNat) (T.CS_Photo_arr Z.toNat) (T.CS_Photo_arr2 Z.toNat) (T.NE_Photo Z.toNat) = true) (hR : vecOkB (T.E_Rayl_arr Z.toNat) (T.CS_Rayl_arr Z.toNat) (T.CS_Rayl_arr2 Z.toNat) (T.NE_Rayl Z.toNat) = true) (hC : vecOkB (T.E_Compt_arr Z.toNat) (T.CS_Compt_arr Z.toNat) (T.CS_Compt_arr2 Z.toNat) (T.NE_Compt Z.toNat) = true) : SameValue (Gen.CSb_Total T Z E) :=
  sameValue_of_meets (fun e he => C05.barn_twin_CSb_Total T Z E e he hP hR hC) (by unfold Spec.CSb_Total; exact C05.toBarn_ne_any)
theorem null_slot_CSb_Photo
    (hP : vecOkB (T.E_Photo_arr Z.toNat) (T.CS_Photo_arr Z.toNat) (T.CS_Photo_arr2 Z.toNat) (T.NE_Photo Z.toNat) = true) : SameValue (Gen.CSb_Photo T Z E) :=
  sameValue_of_meets (fun e he => C05.barn_twin_CSb_Photo T Z E e he hP) (by unfold Spec.CSb_Photo; exact C05.toBarn_ne_any)
theorem null_slot_CSb_Rayl
    (hR : vecOkB (T.E_Rayl_arr Z.toNat) (T.CS_Rayl_arr Z.toNat) (T.CS_Rayl_arr2 Z.toNat) (T.NE_Rayl Z.toNat) = true) : SameValue (Gen.CSb_Rayl T Z E) :=
  sameValue_of_meets (fun e he => C05.barn_twin_CSb_Rayl T Z E e he hR) (by unfold Spec.CSb_Rayl; exact C05.toBarn_ne_any)
theorem null_slot_CSb_Compt
    (hC : vecOkB (T.E_Compt_arr Z.toNat) (T.CS_Compt_arr Z.toNat) (T.CS_Compt_arr2 Z.toNat) (T.NE_Compt Z.toNat) = true) : SameValue (Gen.CSb_Compt T Z E) :=
  sameValue_of_meets (fun e he => C05.barn_twin_CSb_Compt T Z E e he hC) (by unfold Spec.CSb_Compt; exact C05.toBarn_ne_any)
theorem null_slot_DCS_Rayl
    (hs : vecOkB (T.q_Rayl_arr Z.toNat) (T.FF_Rayl_arr Z.toNat) (T.FF_Rayl_arr2 Z.toNat) (T.Nq_Rayl Z.toNat) = true) (hW : ∀ f, atQ (Spec.MomentTransf E θ) (Spec.FF_Rayl T Z) = .value f → Spec.AtomicWeight T Z ≠ .fails) : SameValue (Gen.DCS_Rayl T Z E θ) :=
  sameValue_of_meets (fun e he => C05.dcs_rayl_eq T Z E θ e he hs hW) (by unfold Spec.DCS_Rayl; exact C05.dcsOf_ne_any)
theorem null_slot_DCSP_Rayl
    (hs : vecOkB (T.q_Rayl_arr Z.toNat) (T.FF_Rayl_arr Z.toNat) (T.FF_Rayl_arr2 Z.toNat) (T.Nq_Rayl Z.toNat) = true) (hW : ∀ f, atQ (Spec.MomentTransf E θ) (Spec.FF_Rayl T Z) = .value f → Spec.AtomicWeight T Z ≠ .fails) : SameValue (Gen.DCSP_Rayl T Z E θ φ) :=
  sameValue_of_meets (fun e he => C05.dcsp_rayl_eq T Z E θ φ e he hs hW) (by unfold Spec.DCSP_Rayl; exact C05.dcsOf_ne_any)
theorem null_slot_DCSb_Rayl
    (hs : vecOkB (T.q_Rayl_arr Z.toNat) (T.FF_Rayl_arr Z.toNat) (T.FF_Rayl_arr2 Z.toNat) (T.Nq_Rayl Z.toNat) = true) (hW : ∀ f, atQ (Spec.MomentTransf E θ) (Spec.FF_Rayl T Z) = .value f → Spec.AtomicWeight T Z ≠ .fails) : SameValue (Gen.DCSb_Rayl T Z E θ) :=
  sameValue_of_meets (fun e he => C05.barn_twin_DCSb_Rayl T Z E θ e he hs hW) (by unfold Spec.DCSb_Rayl; exact C05.toBarn_ne_any)
theorem null_slot_DCSPb_Rayl
    (hs : vecOkB (T.q_Rayl_arr Z.toNat) (T.FF_Rayl_arr Z.toNat) (T.FF_Rayl_arr2 Z.toNat) (T.Nq_Rayl Z.toNat) = true) (hW : ∀ f, atQ (Spec.MomentTransf E θ) (Spec.FF_Rayl T Z) = .value f → Spec.AtomicWeight T Z ≠ .fails) : SameValue (Gen.DCSPb_Rayl T Z E θ φ) :=
  sameValue_of_meets (fun e he => C05.barn_twin_DCSPb_Rayl T Z E θ φ e he hs hW) (by unfold Spec.DCSPb_Rayl; exact C05.toBarn_ne_any)
theorem null_slot_DCS_Compt
    (hs : vecOkB (T.q_Compt_arr Z.toNat) (T.SF_Compt_arr Z.toNat) (T.SF_Compt_arr2 Z.toNat) (T.Nq_Compt Z.toNat) = true) (hW : ∀ f, atQ (Spec.MomentTransf E θ) (Spec.SF_Compt T Z) = .value f → Spec.AtomicWeight T Z ≠ .fails) : SameValue (Gen.DCS_Compt T Z E θ) :=
  sameValue_of_meets (fun e he => C05.dcs_compt_eq T Z E θ e he hs hW) (by unfold Spec.DCS_Compt; exact C05.dcsOf_ne_any)
theorem null_slot_DCSP_Compt
    (hs : vecOkB (T.q_Compt_arr Z.toNat) (T.SF_Compt_arr Z.toNat) (T.SF_Compt_arr2 Z.toNat) (T.Nq_Compt Z.toNat) = true) (hW : ∀ f, atQ (Spec.MomentTransf E θ) (Spec.SF_Compt T Z) = .value f → Spec.AtomicWeight T Z ≠ .fails) : SameValue (Gen.DCSP_Compt T Z E θ φ) :=
  sameValue_of_meets (fun e he => C05.dcsp_compt_eq T Z E θ φ e he hs hW) (by unfold Spec.DCSP_Compt; exact C05.dcsOf_ne_any)
theorem null_slot_DCSb_Compt
    (hs : vecOkB (T.q_Compt_arr Z.toNat) (T.SF_Compt_arr Z.toNat) (T.SF_Compt_arr2 Z.toNat) (T.Nq_Compt Z.toNat) = true) (hW : ∀ f, atQ (Spec.MomentTransf E θ) (Spec.SF_Compt T Z) = .value f → Spec.AtomicWeight T Z ≠ .fails) : SameValue (Gen.DCSb_Compt T Z E θ) :=
  sameValue_of_meets (fun e he => C05.barn_twin_DCSb_Compt T Z E θ e he hs hW) (by unfold Spec.DCSb_Compt; exact C05.toBarn_ne_any)
theorem null_slot_DCSPb_Compt
    (hs : vecOkB (T.q_Compt_arr Z.toNat) (T.SF_Compt_arr Z.toNat) (T.SF_Compt_arr2 Z.toNat) (T.Nq_Compt Z.toNat) = true) (hW : ∀ f, atQ (Spec.MomentTransf E θ) (Spec.SF_Compt T Z) = .value f → Spec.AtomicWeight T Z ≠ .fails) : SameValue (Gen.DCSPb_Compt T Z E θ φ) :=
  sameValue_of_meets (fun e he => C05.barn_twin_DCSPb_Compt T Z E θ φ e he hs hW) (by unfold Spec.DCSPb_Compt; exact C05.toBarn_ne_any)
theorem null_slot_CSb_Photo_Total
    (hs : ∀ s : Nat, s < 28 → kisselShapeB T Z (s : Int) = true) : SameValue (Gen.CSb_Photo_Total T Z E) :=
  sameValue_of_meets (fun e he => C05.photo_total_eq T Z E e he hs) (C05.CSb_Photo_Total_ne_any T Z E)
theorem null_slot_CS_Photo_Total
    (hs : ∀ s : Nat, s < 28 → kisselShapeB T Z (s : Int) = true) (hW : ∀ v, Spec.CSb_Photo_Total T Z E = .value v → Spec.AtomicWeight T Z ≠ .fails) : SameValue (Gen.CS_Photo_Total T Z E) :=
  sameValue_of_meets (fun e he => C05.cs_photo_total_eq' T Z E e he hs hW) (CS_Photo_Total_ne_any T Z E)
theorem null_slot_CS_Total_Kissel
    (hs : ∀ s : Nat, s < 28 → kisselShapeB T Z (s : Int) = true) (hW : ∀ v, Spec.CSb_Photo_Total T Z E = .value v → Spec.AtomicWeight T Z ≠ .fails) (hR : vecOkB (T.E_Rayl_arr Z.toNat) (T.CS_Rayl_arr Z.toNat) (T.CS_Rayl_arr2 Z.toNat) (T.NE_Rayl Z.toNat) = true) (hC : vecOkB (T.E_Compt_arr Z.toNat) (T.CS_Compt_arr Z.toNat) (T.CS_Compt_arr2 Z.toNat) (T.NE_Compt Z.toNat) = true) : SameValue (Gen.CS_Total_Kissel T Z E) :=
  sameValue_of_meets (fun e he => C05.cs_total_kissel_eq' T Z E e he hs hR hC hW) (CS_Total_Kissel_ne_any T Z E)
theorem null_slot_CSb_Total_Kissel
    (hs : ∀ s : Nat, s < 28 → kisselShapeB T Z (s : Int) = true) (hW : ∀ v, Spec.CSb_Photo_Total T Z E = .value v → Spec.AtomicWeight T Z ≠ .fails) (hR : vecOkB (T.E_Rayl_arr Z.toNat) (T.CS_Rayl_arr Z.toNat) (T.CS_Rayl_arr2 Z.toNat) (T.NE_Rayl Z.toNat) = true) (hC : vecOkB (T.E_Compt_arr Z.toNat) (T.CS_Compt_arr Z.toNat) (T.CS_Compt_arr2 Z.toNat) (T.NE_Compt Z.toNat) = true) : SameValue (Gen.CSb_Total_Kissel T Z E) :=
  sameValue_of_meets (fun e he => C05.barn_twin_CSb_Total_Kissel' T Z E e he hs hR hC hW) (CSb_Total_Kissel_ne_any T Z E)
theorem null_slot_DCS_Thoms : SameValue (Gen.DCS_Thoms T θ) :=
  sameValue_of_meets (fun e he => C12.closed_form_DCS_Thoms T θ e) (DCS_Thoms_ne_any θ)
theorem null_slot_DCSP_Thoms : SameValue (Gen.DCSP_Thoms T θ φ) :=
  sameValue_of_meets (fun e he => C12.closed_form_DCSP_Thoms T θ φ e) (DCSP_Thoms_ne_any θ φ)
theorem null_slot_DCS_KN : SameValue (Gen.DCS_KN T E θ) :=
  sameValue_of_meets (fun e he => C12.closed_form_DCS_KN T E θ e he) (DCS_KN_ne_any E θ)
theorem null_slot_DCSP_KN : SameValue (Gen.DCSP_KN T E θ φ) :=
  sameValue_of_meets (fun e he => C12.closed_form_DCSP_KN T E θ φ e he) (DCSP_KN_ne_any E θ φ)
theorem null_slot_CS_KN : SameValue (Gen.CS_KN T E) :=
  sameValue_of_meets (fun e he => C12.closed_form_CS_KN T E e he) (CS_KN_ne_any E)
theorem null_slot_ComptonEnergy : SameValue (Gen.ComptonEnergy T E θ) :=
  sameValue_of_meets (fun e he => C12.closed_form_ComptonEnergy T E θ e he) (ComptonEnergy_ne_any E θ)
theorem null_slot_MomentTransf : SameValue (Gen.MomentTransf T E θ) :=
  sameValue_of_meets (fun e he => C12.closed_form_MomentTransf T E θ e he) (MomentTransf_ne_any E θ)
theorem null_slot_Jump_from_K : SameValue (Gen.Jump_from_K T Z E) :=
  sameValue_of_meets (fun e he => C09.jump_from_K_spec T Z E e he) (C09.shellFactor_ne_any T Z _ E)
theorem null_slot_Jump_from_L1 : SameValue (Gen.Jump_from_L1 T Z E) :=
  sameValue_of_meets (fun e he => C09.jump_from_L1_spec T Z E e he) (C09.shellFactor_ne_any T Z _ E)
theorem null_slot_Jump_from_L2
    (hO : edgeOrderB T Z = true) : SameValue (Gen.Jump_from_L2 T Z E) :=
  sameValue_of_meets (fun e he => C09.jump_from_L2_spec T Z E e he hO) (C09.shellFactor_ne_any T Z _ E)
theorem null_slot_Jump_from_L3
    (hO : edgeOrderB T Z = true) : SameValue (Gen.Jump_from_L3 T Z E) :=
  sameValue_of_meets (fun e he => C09.jump_from_L3_spec T Z E e he hO) (C09.shellFactor_ne_any T Z _ E)
theorem null_slot_CS_FluorShell
    (hP : vecOkB (T.E_Photo_arr Z.toNat) (T.CS_Photo_arr Z.toNat) (T.CS_Photo_arr2 Z.toNat) (T.NE_Photo Z.toNat) = true) (hO : edgeOrderB T Z = true) : SameValue (Gen.CS_FluorShell T Z shell E) :=
  sameValue_of_meets (fun e he => C09.fluorshell_jump_spec T Z E e he shell hP hO) (C09.fluorShell_ne_any T Z E shell)
theorem null_slot_CS_FluorLine
    (hP : vecOkB (T.E_Photo_arr Z.toNat) (T.CS_Photo_arr Z.toNat) (T.CS_Photo_arr2 Z.toNat) (T.NE_Photo Z.toNat) = true) (hO : edgeOrderB T Z = true) : SameValue (Gen.CS_FluorLine T Z m E) :=
  sameValue_of_meets (fun e he => C09.fluorline_jump_spec T Z E e he m hP hO) (C09.fluorLine_ne_any T Z E m)
theorem null_slot_CSb_FluorShell
    (hP : vecOkB (T.E_Photo_arr Z.toNat) (T.CS_Photo_arr Z.toNat) (T.CS_Photo_arr2 Z.toNat) (T.NE_Photo Z.toNat) = true) (hO : edgeOrderB T Z = true) : SameValue (Gen.CSb_FluorShell T Z shell E) :=
  sameValue_of_meets (fun e he => C09.barn_twin_CSb_FluorShell T Z E e he shell hP hO) (by unfold Spec.CSb_FluorShell; exact C05.toBarn_ne_any)
theorem null_slot_CSb_FluorLine
    (hP : vecOkB (T.E_Photo_arr Z.toNat) (T.CS_Photo_arr Z.toNat) (T.CS_Photo_arr2 Z.toNat) (T.NE_Photo Z.toNat) = true) (hO : edgeOrderB T Z = true) : SameValue (Gen.CSb_FluorLine T Z m E) :=
  sameValue_of_meets (fun e he => C09.barn_twin_CSb_FluorLine T Z E e he m hP hO) (by unfold Spec.CSb_FluorLine; exact C05.toBarn_ne_any)

/-- every macro except the L-beta group (no specification for it: see `contract_LineEnergy`) -/
theorem null_slot_LineEnergy (hm : m ≠ Hdr.LB_LINE) : SameValue (Gen.LineEnergy T Z m) :=
  sameValue_of_meets (fun e he => C10.line_energy_spec T Z e he m) (LineEnergy_ne_any T Z m hm)

theorem null_slot_LineEnergyComposed (l1 l2 : Int) (h1 : C10.Plain l1) (h2 : C10.Plain l2) :
    SameValue (Gen.LineEnergyComposed T Z l1 l2) :=
  sameValue_of_meets (fun e he => by unfold Gen.LineEnergyComposed FUEL; exact C10.composed_spec T Z e he 4 l1 l2 h1 h2)
    (composed_ne_any T Z l1 l2)

end nullslot

end C03
end Xrl

/-!
## coverage

The 136 definitions of `Xrl/Gen/F_*.lean` (`grep -h "^def " Xrl/Gen/F_*.lean`) = 129 C functions + 7 fuel-indexed
workers the translator emits for the (mutually) recursive C functions.

**covered in C03.lean** (16: `contract_<f>`; `no_ub_<f>` in C04.lean, for the four spline sites in C04b.lean;
`null_slot_<f>` above)
    AtomicLevelWidth, AtomicWeight, AugerRate, AugerYield, CosKronTransProb, CS_Compt, CS_Photo, CS_Rayl,
    CS_Total, ElementDensity, EdgeEnergy, LineEnergy, FluorYield, JumpFactor, ElectronConfig, RadRate
    — `LineEnergy` for every macro value except `LB_LINE`: `Spec.LineEnergy` is `.any` there (no specification of the
    L-beta energy; the generated branch calls `CS_FluorLine` 13 times and has no `Meets` theorem).  The only function
    with a `Meets` theorem whose specification makes no claim on part of the domain.

**covered here, C03b.lean** (42: `contract_<f>`, `null_slot_<f>`; `no_ub_<f>` in C04b.lean)
    ComptonProfile, ComptonProfile_Partial, ElectronConfig_Biggs, CS_Energy, CSb_Compt, CSb_FluorLine,
    CSb_FluorShell, CSb_Photo, CSb_Rayl, CSb_Total, DCSPb_Compt, DCSPb_Rayl, DCSb_Compt, DCSb_Rayl, Jump_from_K,
    Jump_from_L1, Jump_from_L2, Jump_from_L3, CS_FluorShell, CS_FluorLine, Fi, Fii, LineEnergyComposed,
    CSb_Photo_Partial, CS_Photo_Partial, CSb_Photo_Total, CS_Photo_Total, CS_Total_Kissel, CSb_Total_Kissel,
    DCSP_KN, DCSP_Compt, DCSP_Thoms, DCSP_Rayl, CS_KN, ComptonEnergy, MomentTransf, SF_Compt, FF_Rayl, DCS_KN,
    DCS_Compt, DCS_Thoms, DCS_Rayl
    — `LineEnergyComposed` (static helper of fluor_lines.c) only for the argument pattern of its theorem
    `C10.composed_spec`: two plain line macros (`C10.Plain`), which is how `LineEnergy` calls it.
    — `CSb_Photo_Partial` also under the weaker hypothesis "shape only if the call passes the guards"
    (`contract_CSb_Photo_Partial_of`).

**covered in C03c.lean** (52, the Kissel cascade family of C08: `contract_<f>`; `no_ub_<f>` in C04c.lean;
`null_slot_<f>` for the 20 shell/line functions)
    PL1_full_cascade_kissel, PL2_full_cascade_kissel, PL3_full_cascade_kissel, PM1_full_cascade_kissel,
    PM2_full_cascade_kissel, PM3_full_cascade_kissel, PM4_full_cascade_kissel, PM5_full_cascade_kissel,
    CS_FluorShell_Kissel_Cascade, CS_FluorLine_Kissel_Cascade, CS_FluorLine_Kissel, PL1_auger_cascade_kissel,
    PL2_auger_cascade_kissel, PL3_auger_cascade_kissel, PM1_auger_cascade_kissel, PM2_auger_cascade_kissel,
    PM3_auger_cascade_kissel, PM4_auger_cascade_kissel, PM5_auger_cascade_kissel,
    CS_FluorShell_Kissel_Nonradiative_Cascade, CS_FluorLine_Kissel_Nonradiative_Cascade, PL1_rad_cascade_kissel,
    PL2_rad_cascade_kissel, PL3_rad_cascade_kissel, PM1_rad_cascade_kissel, PM2_rad_cascade_kissel,
    PM3_rad_cascade_kissel, PM4_rad_cascade_kissel, PM5_rad_cascade_kissel,
    CS_FluorShell_Kissel_Radiative_Cascade, CS_FluorLine_Kissel_Radiative_Cascade, PL1_pure_kissel,
    PL2_pure_kissel, PL3_pure_kissel, PM1_pure_kissel, PM2_pure_kissel, PM3_pure_kissel, PM4_pure_kissel,
    PM5_pure_kissel, CS_FluorShell_Kissel_no_Cascade, CS_FluorLine_Kissel_no_Cascade, CS_FluorShell_Kissel,
    CSb_FluorLine_Kissel, CSb_FluorLine_Kissel_Cascade, CSb_FluorLine_Kissel_Nonradiative_Cascade,
    CSb_FluorLine_Kissel_Radiative_Cascade, CSb_FluorLine_Kissel_no_Cascade, CSb_FluorShell_Kissel,
    CSb_FluorShell_Kissel_Cascade, CSb_FluorShell_Kissel_Nonradiative_Cascade,
    CSb_FluorShell_Kissel_Radiative_Cascade, CSb_FluorShell_Kissel_no_Cascade
    — in a file of their own because Spec/Cascade2 and Spec/JumpRatio both define `Spec.vacancy` and cannot be
    imported together.  The per-shell theorems `C08.shell_<variant>_<k>` are already combined in
    `C08.fluorshell_spec_<variant>` (every `shell`), the L-beta / single-line theorems in `C08.fluorline_spec_<variant>`;
    the corollaries use those.  The side condition `hM` of the line theorems is discharged by case split.

**NOT covered by a `contract_` theorem** (26)
  * no error slot — the function returns a bare `double` (`M ℝ`), `Contract` does not apply; `no_ub_<f>` for every
    argument and every table, without hypothesis, is in C04b.lean (3, from the value theorems of C11) and
    C04c.lean (16, static helpers called by `prdata` only; C08 has value theorems for the `shell` arguments
    `prdata` passes):
    AugerYield2_prdata, AugerRate_prdata, AugerYield_prdata, PL1_get_cross_sections_constant_auger_only,
    PL1_get_cross_sections_constant_full, PL2_get_cross_sections_constant_auger_only,
    PL2_get_cross_sections_constant_full, PL3_get_cross_sections_constant_auger_only,
    PL3_get_cross_sections_constant_full, PM1_get_cross_sections_constant_auger_only,
    PM1_get_cross_sections_constant_full, PM2_get_cross_sections_constant_auger_only,
    PM2_get_cross_sections_constant_full, PM3_get_cross_sections_constant_auger_only,
    PM3_get_cross_sections_constant_full, PM4_get_cross_sections_constant_auger_only,
    PM4_get_cross_sections_constant_full, PM5_get_cross_sections_constant_auger_only,
    PM5_get_cross_sections_constant_full
  * fuel-indexed workers (7): not C functions.  `Gen.<f> = Gen.<f>_fuel FUEL` by definition, so the theorems
    about `<f>` are theorems about the worker at the fuel the public function passes; for arbitrary fuel the
    statement is false (`fuel = 0` is the abort `Abort.fuel`):
    LineEnergy_fuel, LineEnergyComposed_fuel, CS_FluorLine_Kissel_Cascade_fuel,
    CS_FluorLine_Kissel_Nonradiative_Cascade_fuel, CS_FluorLine_Kissel_Radiative_Cascade_fuel,
    CS_FluorLine_Kissel_no_Cascade_fuel, RadRate_fuel

Totals: contract theorem for 110 of the 129 C functions (all 110 that take an error slot), no_ub theorem for all 129.
-/
