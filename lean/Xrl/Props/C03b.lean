import Xrl.Props.C03
import Xrl.Props.C02b
import Xrl.Props.C05b
import Xrl.Props.C05c
import Xrl.Props.C09
/-!
# C03 (continued) — the calling contract for every generated function that has a specification theorem

`contract_<f>` : `Contract (Gen.<f> …) error` — called with a non-full slot the function generated from the C source
either succeeds with a value and leaves the slot as it was, or returns the sentinel 0 with exactly one error (valid
code, non-empty message) stored (nothing stored when the slot is NULL).  Every corollary is `contract_of_meets`
applied to the function's `Meets` theorem plus a proof that the specification makes a claim (`≠ .any`) on the whole
domain of that theorem; the hypotheses are exactly those of the `Meets` theorem (table-shape conditions, `hW`,
`OwnOK`, …).  `null_slot_<f>` : "passing no slot changes nothing but the reporting" (same value with `NULL` and with an
empty slot).

Where a specification says `.any` on part of the domain the corollary carries the hypothesis excluding that part
(`LineEnergy` at `LB_LINE`, in C03.lean) — there is no other such case.  Where a `Meets` theorem has a side condition
that the contract does not need (`hM` of the Kissel line functions: the code rejects the ten intra-M macros whatever
the tables hold) the corollary is proved by case split and the side condition is dropped.

The coverage table is at the end of the file.
-/
namespace Xrl
namespace C03
open Spec

set_option linter.unusedVariables false

/-! ## small `≠ .any` lemmas for the spec combinators not yet covered -/

theorem ElectronConfig_Biggs_ne_any (T : Tables ℝ) (Z s : Int) : Spec.ElectronConfig_Biggs T Z s ≠ .any := by
  unfold Spec.ElectronConfig_Biggs; split_ifs <;> simp

theorem CS_Energy_ne_any (T : Tables ℝ) (Z : Int) (E : ℝ) : Spec.CS_Energy T Z E ≠ .any := by
  unfold Spec.CS_Energy; exact interp_ne_any
theorem Fi_ne_any (T : Tables ℝ) (Z : Int) (E : ℝ) : Spec.Fi T Z E ≠ .any := by
  unfold Spec.Fi; exact interp_ne_any
theorem Fii_ne_any (T : Tables ℝ) (Z : Int) (E : ℝ) : Spec.Fii T Z E ≠ .any := by
  unfold Spec.Fii; exact interp_ne_any
theorem ComptonProfile_ne_any (T : Tables ℝ) (Z : Int) (pz : ℝ) : Spec.ComptonProfile T Z pz ≠ .any := by
  unfold Spec.ComptonProfile; exact interp_ne_any
theorem ComptonProfile_Partial_ne_any (T : Tables ℝ) (Z shell : Int) (pz : ℝ) :
    Spec.ComptonProfile_Partial T Z shell pz ≠ .any := by
  unfold Spec.ComptonProfile_Partial; exact interp_ne_any

theorem CS_Photo_Partial_ne_any (T : Tables ℝ) (Z shell : Int) (E : ℝ) : Spec.CS_Photo_Partial T Z shell E ≠ .any := by
  unfold Spec.CS_Photo_Partial; split <;> simp

theorem CS_Photo_Total_ne_any (T : Tables ℝ) (Z : Int) (E : ℝ) : Spec.CS_Photo_Total T Z E ≠ .any := by
  unfold Spec.CS_Photo_Total Spec.CS_Photo_Total_of; exact C05.toCm2g_ne_any
theorem CS_Total_Kissel_ne_any (T : Tables ℝ) (Z : Int) (E : ℝ) : Spec.CS_Total_Kissel T Z E ≠ .any := by
  unfold Spec.CS_Total_Kissel Spec.CS_Total_Kissel_of; exact add3_ne_any
theorem CSb_Total_Kissel_ne_any (T : Tables ℝ) (Z : Int) (E : ℝ) : Spec.CSb_Total_Kissel T Z E ≠ .any := by
  unfold Spec.CSb_Total_Kissel Spec.CSb_Total_Kissel_of; exact C05.toBarn_ne_any

theorem DCS_Thoms_ne_any (θ : ℝ) : (Spec.DCS_Thoms θ : Expect ℝ) ≠ .any := by unfold Spec.DCS_Thoms; simp
theorem DCSP_Thoms_ne_any (θ φ : ℝ) : (Spec.DCSP_Thoms θ φ : Expect ℝ) ≠ .any := by unfold Spec.DCSP_Thoms; simp
theorem DCS_KN_ne_any (E θ : ℝ) : Spec.DCS_KN E θ ≠ .any := by unfold Spec.DCS_KN; split_ifs <;> simp
theorem DCSP_KN_ne_any (E θ φ : ℝ) : Spec.DCSP_KN E θ φ ≠ .any := by unfold Spec.DCSP_KN; split_ifs <;> simp
theorem CS_KN_ne_any (E : ℝ) : Spec.CS_KN E ≠ .any := by unfold Spec.CS_KN; split_ifs <;> simp
theorem ComptonEnergy_ne_any (E θ : ℝ) : Spec.ComptonEnergy E θ ≠ .any := by unfold Spec.ComptonEnergy; split_ifs <;> simp
theorem MomentTransf_ne_any (E θ : ℝ) : Spec.MomentTransf E θ ≠ .any := by unfold Spec.MomentTransf; split_ifs <;> simp

theorem composed_ne_any (T : Tables ℝ) (Z l1 l2 : Int) : composed T Z l1 l2 ≠ .any := by
  unfold composed; simp only []; split_ifs <;> simp

/-! ## C01 / C02 / C02b: the remaining lookup and spline sites -/

section sites
variable (T : Tables ℝ) (Z m shell : Int) (E pz : ℝ) (error : Slot) (he : error.isFull = false)
include he

theorem contract_ElectronConfig_Biggs
    (hlen : T.NShells_ComptonProfiles Z.toNat ≤ (T.UOCCUP_ComptonProfiles Z.toNat).len) :
    Contract (Gen.ElectronConfig_Biggs T Z m error) error :=
  contract_of_meets (C01.lookup_spec_ElectronConfig_Biggs T Z m error he hlen) (ElectronConfig_Biggs_ne_any T Z m)

theorem contract_CS_Energy
    (hs : vecOkB (T.E_Energy_arr Z.toNat) (T.CS_Energy_arr Z.toNat) (T.CS_Energy_arr2 Z.toNat) (T.NE_Energy Z.toNat) = true) :
    Contract (Gen.CS_Energy T Z E error) error :=
  contract_of_meets (C02.site_spec_CS_Energy T Z E error he hs) (CS_Energy_ne_any T Z E)

theorem contract_Fi
    (hs : vecOkB (T.E_Fi_arr Z.toNat) (T.Fi_arr Z.toNat) (T.Fi_arr2 Z.toNat) (T.NE_Fi Z.toNat) = true) :
    Contract (Gen.Fi T Z E error) error :=
  contract_of_meets (C02.site_spec_Fi T Z E error he hs) (Fi_ne_any T Z E)

theorem contract_Fii
    (hs : vecOkB (T.E_Fii_arr Z.toNat) (T.Fii_arr Z.toNat) (T.Fii_arr2 Z.toNat) (T.NE_Fii Z.toNat) = true) :
    Contract (Gen.Fii T Z E error) error :=
  contract_of_meets (C02.site_spec_Fii T Z E error he hs) (Fii_ne_any T Z E)

theorem contract_FF_Rayl
    (hs : vecOkB (T.q_Rayl_arr Z.toNat) (T.FF_Rayl_arr Z.toNat) (T.FF_Rayl_arr2 Z.toNat) (T.Nq_Rayl Z.toNat) = true) :
    Contract (Gen.FF_Rayl T Z E error) error :=
  contract_of_meets (C02.site_spec_FF_Rayl T Z E error he hs) (C05.FF_Rayl_ne_any T Z E)

theorem contract_SF_Compt
    (hs : vecOkB (T.q_Compt_arr Z.toNat) (T.SF_Compt_arr Z.toNat) (T.SF_Compt_arr2 Z.toNat) (T.Nq_Compt Z.toNat) = true) :
    Contract (Gen.SF_Compt T Z E error) error :=
  contract_of_meets (C02.site_spec_SF_Compt T Z E error he hs) (C05.SF_Compt_ne_any T Z E)

theorem contract_ComptonProfile
    (hs : vecOkB (T.pz_ComptonProfiles Z.toNat) (T.Total_ComptonProfiles Z.toNat) (T.Total_ComptonProfiles2 Z.toNat)
      (T.Npz_ComptonProfiles Z.toNat) = true)
    (hN : 0 ≤ T.NShells_ComptonProfiles Z.toNat → 1 ≤ T.Npz_ComptonProfiles Z.toNat) :
    Contract (Gen.ComptonProfile T Z pz error) error :=
  contract_of_meets (C02.site_spec_ComptonProfile T Z pz error he hs hN) (ComptonProfile_ne_any T Z pz)

theorem contract_ComptonProfile_Partial (hs : profileColOkB T Z shell = true) (hp : profileOkB T Z = true) :
    Contract (Gen.ComptonProfile_Partial T Z shell pz error) error :=
  contract_of_meets (C02.site_spec_ComptonProfile_Partial T Z shell pz error he hs hp)
    (ComptonProfile_Partial_ne_any T Z shell pz)

/-- the shape condition is needed only for a call that passes the guards (`kisselGuard`) -/
theorem contract_CSb_Photo_Partial_of (hs : kisselGuard T Z shell E = true → kisselShapeB T Z shell = true) :
    Contract (Gen.CSb_Photo_Partial T Z shell E error) error :=
  contract_of_meets (C02.site_spec_CSb_Photo_Partial_of T Z shell E error he hs) (C05.CSb_Photo_Partial_ne_any T Z shell E)

theorem contract_CSb_Photo_Partial (hs : kisselShapeB T Z shell = true) :
    Contract (Gen.CSb_Photo_Partial T Z shell E error) error :=
  contract_CSb_Photo_Partial_of T Z shell E error he (fun _ => hs)

end sites

/-! ## C05: per-atom twins, differential cross sections, Kissel totals -/

section c05
variable (T : Tables ℝ) (Z shell : Int) (E θ φ : ℝ) (error : Slot) (he : error.isFull = false)
include he

section
variable (hP : vecOkB (T.E_Photo_arr Z.toNat) (T.CS_Photo_arr Z.toNat) (T.CS_Photo_arr2 Z.toNat) (T.NE_Photo Z.toNat) = true)
  (hR : vecOkB (T.E_Rayl_arr Z.toNat) (T.CS_Rayl_arr Z.toNat) (T.CS_Rayl_arr2 Z.toNat) (T.NE_Rayl Z.toNat) = true)
  (hC : vecOkB (T.E_Compt_arr Z.toNat) (T.CS_Compt_arr Z.toNat) (T.CS_Compt_arr2 Z.toNat) (T.NE_Compt Z.toNat) = true)

include hP hR hC in
theorem contract_CSb_Total : Contract (Gen.CSb_Total T Z E error) error :=
  contract_of_meets (C05.barn_twin_CSb_Total T Z E error he hP hR hC) (by unfold Spec.CSb_Total; exact C05.toBarn_ne_any)
include hP in
theorem contract_CSb_Photo : Contract (Gen.CSb_Photo T Z E error) error :=
  contract_of_meets (C05.barn_twin_CSb_Photo T Z E error he hP) (by unfold Spec.CSb_Photo; exact C05.toBarn_ne_any)
include hR in
theorem contract_CSb_Rayl : Contract (Gen.CSb_Rayl T Z E error) error :=
  contract_of_meets (C05.barn_twin_CSb_Rayl T Z E error he hR) (by unfold Spec.CSb_Rayl; exact C05.toBarn_ne_any)
include hC in
theorem contract_CSb_Compt : Contract (Gen.CSb_Compt T Z E error) error :=
  contract_of_meets (C05.barn_twin_CSb_Compt T Z E error he hC) (by unfold Spec.CSb_Compt; exact C05.toBarn_ne_any)
end

section rayl
variable (hs : vecOkB (T.q_Rayl_arr Z.toNat) (T.FF_Rayl_arr Z.toNat) (T.FF_Rayl_arr2 Z.toNat) (T.Nq_Rayl Z.toNat) = true)
  (hW : ∀ f, atQ (Spec.MomentTransf E θ) (Spec.FF_Rayl T Z) = .value f → Spec.AtomicWeight T Z ≠ .fails)
include hs hW

theorem contract_DCS_Rayl : Contract (Gen.DCS_Rayl T Z E θ error) error :=
  contract_of_meets (C05.dcs_rayl_eq T Z E θ error he hs hW) (by unfold Spec.DCS_Rayl; exact C05.dcsOf_ne_any)
theorem contract_DCSP_Rayl : Contract (Gen.DCSP_Rayl T Z E θ φ error) error :=
  contract_of_meets (C05.dcsp_rayl_eq T Z E θ φ error he hs hW) (by unfold Spec.DCSP_Rayl; exact C05.dcsOf_ne_any)
theorem contract_DCSb_Rayl : Contract (Gen.DCSb_Rayl T Z E θ error) error :=
  contract_of_meets (C05.barn_twin_DCSb_Rayl T Z E θ error he hs hW) (by unfold Spec.DCSb_Rayl; exact C05.toBarn_ne_any)
theorem contract_DCSPb_Rayl : Contract (Gen.DCSPb_Rayl T Z E θ φ error) error :=
  contract_of_meets (C05.barn_twin_DCSPb_Rayl T Z E θ φ error he hs hW) (by unfold Spec.DCSPb_Rayl; exact C05.toBarn_ne_any)
end rayl

section compt
variable (hs : vecOkB (T.q_Compt_arr Z.toNat) (T.SF_Compt_arr Z.toNat) (T.SF_Compt_arr2 Z.toNat) (T.Nq_Compt Z.toNat) = true)
  (hW : ∀ f, atQ (Spec.MomentTransf E θ) (Spec.SF_Compt T Z) = .value f → Spec.AtomicWeight T Z ≠ .fails)
include hs hW

theorem contract_DCS_Compt : Contract (Gen.DCS_Compt T Z E θ error) error :=
  contract_of_meets (C05.dcs_compt_eq T Z E θ error he hs hW) (by unfold Spec.DCS_Compt; exact C05.dcsOf_ne_any)
theorem contract_DCSP_Compt : Contract (Gen.DCSP_Compt T Z E θ φ error) error :=
  contract_of_meets (C05.dcsp_compt_eq T Z E θ φ error he hs hW) (by unfold Spec.DCSP_Compt; exact C05.dcsOf_ne_any)
theorem contract_DCSb_Compt : Contract (Gen.DCSb_Compt T Z E θ error) error :=
  contract_of_meets (C05.barn_twin_DCSb_Compt T Z E θ error he hs hW) (by unfold Spec.DCSb_Compt; exact C05.toBarn_ne_any)
theorem contract_DCSPb_Compt : Contract (Gen.DCSPb_Compt T Z E θ φ error) error :=
  contract_of_meets (C05.barn_twin_DCSPb_Compt T Z E θ φ error he hs hW) (by unfold Spec.DCSPb_Compt; exact C05.toBarn_ne_any)
end compt

section kissel
variable (hs : ∀ s : Nat, s < 28 → kisselShapeB T Z (s : Int) = true)

include hs in
theorem contract_CSb_Photo_Total : Contract (Gen.CSb_Photo_Total T Z E error) error :=
  contract_of_meets (C05.photo_total_eq T Z E error he hs) (C05.CSb_Photo_Total_ne_any T Z E)

variable (hW : ∀ v, Spec.CSb_Photo_Total T Z E = .value v → Spec.AtomicWeight T Z ≠ .fails)

include hs hW in
theorem contract_CS_Photo_Total : Contract (Gen.CS_Photo_Total T Z E error) error :=
  contract_of_meets (C05.cs_photo_total_eq' T Z E error he hs hW) (CS_Photo_Total_ne_any T Z E)

variable (hR : vecOkB (T.E_Rayl_arr Z.toNat) (T.CS_Rayl_arr Z.toNat) (T.CS_Rayl_arr2 Z.toNat) (T.NE_Rayl Z.toNat) = true)
  (hC : vecOkB (T.E_Compt_arr Z.toNat) (T.CS_Compt_arr Z.toNat) (T.CS_Compt_arr2 Z.toNat) (T.NE_Compt Z.toNat) = true)

include hs hW hR hC in
theorem contract_CS_Total_Kissel : Contract (Gen.CS_Total_Kissel T Z E error) error :=
  contract_of_meets (C05.cs_total_kissel_eq' T Z E error he hs hR hC hW) (CS_Total_Kissel_ne_any T Z E)
include hs hW hR hC in
theorem contract_CSb_Total_Kissel : Contract (Gen.CSb_Total_Kissel T Z E error) error :=
  contract_of_meets (C05.barn_twin_CSb_Total_Kissel' T Z E error he hs hR hC hW) (CSb_Total_Kissel_ne_any T Z E)
end kissel

theorem contract_CS_Photo_Partial (hs : kisselShapeB T Z shell = true)
    (hW : ∀ b, Spec.CSb_Photo_Partial T Z shell E = .value b → Spec.AtomicWeight T Z ≠ .fails) :
    Contract (Gen.CS_Photo_Partial T Z shell E error) error :=
  contract_of_meets (C05.cs_photo_partial_eq T Z shell E error he hs hW) (CS_Photo_Partial_ne_any T Z shell E)

end c05

/-! ## C12: closed-form scattering formulas -/

section c12
variable (T : Tables ℝ) (E θ φ : ℝ) (error : Slot)

/-- the two Thomson functions never fail and never touch the slot: no hypothesis at all, not even on the slot -/
theorem contract_DCS_Thoms : Contract (Gen.DCS_Thoms T θ error) error :=
  contract_of_meets (C12.closed_form_DCS_Thoms T θ error) (DCS_Thoms_ne_any θ)
theorem contract_DCSP_Thoms : Contract (Gen.DCSP_Thoms T θ φ error) error :=
  contract_of_meets (C12.closed_form_DCSP_Thoms T θ φ error) (DCSP_Thoms_ne_any θ φ)

variable (he : error.isFull = false)
include he

theorem contract_DCS_KN : Contract (Gen.DCS_KN T E θ error) error :=
  contract_of_meets (C12.closed_form_DCS_KN T E θ error he) (DCS_KN_ne_any E θ)
theorem contract_DCSP_KN : Contract (Gen.DCSP_KN T E θ φ error) error :=
  contract_of_meets (C12.closed_form_DCSP_KN T E θ φ error he) (DCSP_KN_ne_any E θ φ)
theorem contract_CS_KN : Contract (Gen.CS_KN T E error) error :=
  contract_of_meets (C12.closed_form_CS_KN T E error he) (CS_KN_ne_any E)
theorem contract_ComptonEnergy : Contract (Gen.ComptonEnergy T E θ error) error :=
  contract_of_meets (C12.closed_form_ComptonEnergy T E θ error he) (ComptonEnergy_ne_any E θ)
theorem contract_MomentTransf : Contract (Gen.MomentTransf T E θ error) error :=
  contract_of_meets (C12.closed_form_MomentTransf T E θ error he) (MomentTransf_ne_any E θ)

end c12

/-! ## C09: jump-ratio fluorescence cross sections;  C10: `LineEnergyComposed` -/

section c09
variable (T : Tables ℝ) (Z shell line : Int) (E : ℝ) (error : Slot) (he : error.isFull = false)
include he

theorem contract_Jump_from_K : Contract (Gen.Jump_from_K T Z E error) error :=
  contract_of_meets (C09.jump_from_K_spec T Z E error he) (C09.shellFactor_ne_any T Z _ E)
theorem contract_Jump_from_L1 : Contract (Gen.Jump_from_L1 T Z E error) error :=
  contract_of_meets (C09.jump_from_L1_spec T Z E error he) (C09.shellFactor_ne_any T Z _ E)
theorem contract_Jump_from_L2 (hO : edgeOrderB T Z = true) : Contract (Gen.Jump_from_L2 T Z E error) error :=
  contract_of_meets (C09.jump_from_L2_spec T Z E error he hO) (C09.shellFactor_ne_any T Z _ E)
theorem contract_Jump_from_L3 (hO : edgeOrderB T Z = true) : Contract (Gen.Jump_from_L3 T Z E error) error :=
  contract_of_meets (C09.jump_from_L3_spec T Z E error he hO) (C09.shellFactor_ne_any T Z _ E)

variable (hP : vecOkB (T.E_Photo_arr Z.toNat) (T.CS_Photo_arr Z.toNat) (T.CS_Photo_arr2 Z.toNat) (T.NE_Photo Z.toNat) = true)
  (hO : edgeOrderB T Z = true)
include hP hO

theorem contract_CS_FluorShell : Contract (Gen.CS_FluorShell T Z shell E error) error :=
  contract_of_meets (C09.fluorshell_jump_spec T Z E error he shell hP hO) (C09.fluorShell_ne_any T Z E shell)
/-- every macro value, the L-beta group included -/
theorem contract_CS_FluorLine : Contract (Gen.CS_FluorLine T Z line E error) error :=
  contract_of_meets (C09.fluorline_jump_spec T Z E error he line hP hO) (C09.fluorLine_ne_any T Z E line)
theorem contract_CSb_FluorShell : Contract (Gen.CSb_FluorShell T Z shell E error) error :=
  contract_of_meets (C09.barn_twin_CSb_FluorShell T Z E error he shell hP hO)
    (by unfold Spec.CSb_FluorShell; exact C05.toBarn_ne_any)
theorem contract_CSb_FluorLine : Contract (Gen.CSb_FluorLine T Z line E error) error :=
  contract_of_meets (C09.barn_twin_CSb_FluorLine T Z E error he line hP hO)
    (by unfold Spec.CSb_FluorLine; exact C05.toBarn_ne_any)

end c09

section c10
variable (T : Tables ℝ) (Z : Int) (error : Slot) (he : error.isFull = false)
include he

/-- the static helper `LineEnergyComposed` of fluor_lines.c, for the member pairs it is called with (two plain line
macros: neither a Siegbahn group nor an IUPAC doublet — `C10.Plain`); the only theorem there is about it -/
theorem contract_LineEnergyComposed (l1 l2 : Int) (h1 : C10.Plain l1) (h2 : C10.Plain l2) :
    Contract (Gen.LineEnergyComposed T Z l1 l2 error) error := by
  have h := C10.composed_spec T Z error he 4 l1 l2 h1 h2
  exact contract_of_meets (by unfold Gen.LineEnergyComposed FUEL; exact h) (composed_ne_any T Z l1 l2)

end c10

end C03
end Xrl
