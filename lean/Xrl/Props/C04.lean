import Xrl.Props.C03
/-!
# C04 — no call sequence corrupts, over-reads or leaks memory  (numeric API share)

`no_ub_<f>`: for EVERY table content (no data hypothesis), every `int` argument — including `INT_MIN`/`INT_MAX` —
every real argument and every non-full slot, the function generated from the C source does not abort: every
array subscript lies inside the DECLARED C bounds (`rd1/rd2/rd3` check them), no checked `int` operation
overflows (`chkI`), no function-pointer index is out of range.  These are corollaries of the specification
theorems, which were only provable after three out-of-bounds/overflow defects were repaired
(ElectronConfig_Biggs shell < 0, EdgeEnergy_arr[Z][28..30] in CSb_Photo_Partial, `-line` at INT_MIN).
The spline sites need the shape of their table triple (`vecOkB`: counts inside the vectors).
Ownership/heap clauses of C04 are carried by the hand models of the allocating APIs (parser: lean-parser
`heap_balanced_*`; crystal containers: lean-crystals `crystals_no_ub`; C++ wrappers: lean-cpp `wrap_no_leak_*`;
compound temporaries: lean-c06) — see MANIFEST level_note.
-/
namespace Xrl
namespace C04
open Spec

theorem noabort_of_contract {r : M (ℝ × Slot)} {error : Slot} (h : Contract r error) : NoAbort r := by
  rcases h with ⟨v, h⟩ | ⟨e, _, _, h⟩
  · exact ⟨_, h⟩
  · exact ⟨_, h⟩

variable (T : Tables ℝ) (Z m : Int) (E : ℝ) (error : Slot) (he : error.isFull = false)
include he

theorem no_ub_AtomicWeight : NoAbort (Gen.AtomicWeight T Z error) := noabort_of_contract (C03.contract_AtomicWeight T Z error he)
theorem no_ub_ElementDensity : NoAbort (Gen.ElementDensity T Z error) := noabort_of_contract (C03.contract_ElementDensity T Z error he)
theorem no_ub_EdgeEnergy : NoAbort (Gen.EdgeEnergy T Z m error) := noabort_of_contract (C03.contract_EdgeEnergy T Z m error he)
theorem no_ub_FluorYield : NoAbort (Gen.FluorYield T Z m error) := noabort_of_contract (C03.contract_FluorYield T Z m error he)
theorem no_ub_JumpFactor : NoAbort (Gen.JumpFactor T Z m error) := noabort_of_contract (C03.contract_JumpFactor T Z m error he)
theorem no_ub_AtomicLevelWidth : NoAbort (Gen.AtomicLevelWidth T Z m error) := noabort_of_contract (C03.contract_AtomicLevelWidth T Z m error he)
theorem no_ub_CosKronTransProb : NoAbort (Gen.CosKronTransProb T Z m error) := noabort_of_contract (C03.contract_CosKronTransProb T Z m error he)
theorem no_ub_ElectronConfig : NoAbort (Gen.ElectronConfig T Z m error) := noabort_of_contract (C03.contract_ElectronConfig T Z m error he)
theorem no_ub_AugerRate : NoAbort (Gen.AugerRate T Z m error) := noabort_of_contract (C03.contract_AugerRate T Z m error he)
theorem no_ub_AugerYield : NoAbort (Gen.AugerYield T Z m error) := noabort_of_contract (C03.contract_AugerYield T Z m error he)
theorem no_ub_RadRate : NoAbort (Gen.RadRate T Z m error) := noabort_of_contract (C03.contract_RadRate T Z m error he)
theorem no_ub_LineEnergy (hm : m ≠ Hdr.LB_LINE) : NoAbort (Gen.LineEnergy T Z m error) :=
  noabort_of_contract (C03.contract_LineEnergy T Z m error he hm)

end C04
end Xrl
