import Xrl.Props.C08g
import Xrl.Props.C05c
/-!
# C08 — part 2g: the hypothesis `OwnOK` discharged from the shape of the Kissel table (Part 1 → Part 2)

Every theorem of C08c–C08f assumes `OwnOK T Z E own`: the sub-shell's own `CS_Photo_Partial(Z, t, E)` meets the expectation
`own t`, never `.any`, never the value 0.  Here it is *derived* — for every table whose Kissel part has the executable
shape `kisselShapeB` (sorted knots, matching lengths: checked on the loaded table by every run of C02/C05/C08) and in which an
element with a defined barn value has an atomic weight — with `own t := Spec.CS_Photo_Partial T Z t E`, the specification of
C05 (`CSb_Photo_Partial · occupancy · N_A / A`, itself the spline / low-energy extension of C02b).  So the shell and line
theorems below speak about the *specified* partial cross sections, not about an abstract `own`.
-/
namespace Xrl
namespace C08
open Spec

set_option linter.unusedSimpArgs false
set_option linter.unusedVariables false
set_option maxRecDepth 16384

variable (T : Tables ℝ) (Z : Int) (E : ℝ)

/-- the shape condition as the loaded table is checked for it: every sub-shell with an edge-energy column -/
def KisselShaped (T : Tables ℝ) (Z : Int) : Prop := ∀ s : Nat, s < 28 → kisselShapeB T Z (s : Int) = true

/-- an element with a defined barn value has an atomic weight (`kissel_pe.c:178` divides by the cell unchecked) -/
def WeightDefined (T : Tables ℝ) (Z : Int) (E : ℝ) : Prop :=
  ∀ (t : Int) (b : ℝ), Spec.CSb_Photo_Partial T Z t E = .value b → Spec.AtomicWeight T Z ≠ .fails

theorem shape_of_guard (hs : KisselShaped T Z) (t : Int) (hg : kisselGuard T Z t E = true) : kisselShapeB T Z t = true := by
  obtain ⟨_, ht, _⟩ := (C02.kisselGuard_iff T Z t E).1 hg
  have := hs t.toNat (by omega)
  rwa [Int.toNat_of_nonneg ht.1] at this

/-- `CS_Photo_Partial` meets its specification for EVERY macro `t` (in or out of range), given the shape of the in-range cells -/
theorem cs_photo_partial_meets (hs : KisselShaped T Z) (hW : WeightDefined T Z E) (t : Int) (error : Slot)
    (he : error.isFull = false) :
    Meets (Gen.CS_Photo_Partial T Z t E error) error (Spec.CS_Photo_Partial T Z t E) := by
  have m := C02.site_spec_CSb_Photo_Partial_of T Z t E error he (shape_of_guard T Z E hs t)
  unfold Gen.CS_Photo_Partial Spec.CS_Photo_Partial
  rcases Meets.cases m with ⟨b, hb, r⟩ | ⟨hf, e, h1, h2, r⟩ | hany
  · have hb0 : ¬ b = (0.0 : ℝ) := by rw [C05.lit0]; exact (C05.CSb_Photo_Partial_pos T Z t E hb).ne'
    obtain ⟨hZ, hsh, _⟩ := (C02.kisselGuard_iff T Z t E).1 (C05.CSb_Photo_Partial_guard T Z t E hb)
    rcases C05.aw_cases T Z with ⟨a, ha⟩ | ha
    · obtain ⟨_, haa, hp⟩ := C05.aw_value ha
      have ha0 : ¬ T.AtomicWeight_arr Z.toNat = (0.0 : ℝ) := by rw [← haa, C05.lit0]; exact hp.ne'
      simp only [r, bind_ok, deq_real, hb0, if_false, C02.rd2_ok' _ 31 _ (show 0 ≤ Z ∧ Z < 121 by omega)
        (show 0 ≤ t ∧ t < (31 : Nat) by omega), C05.rd1_ok _ _ (show 0 ≤ Z ∧ Z < 121 by omega), ddiv, ha0,
        pure_eq_ok, hb, ha, Meets, Returns, Hdr.AVOGNUM, haa]
    · exact absurd ha (hW t b hb)
  · simp only [r, bind_ok, deq_real, eq_true C05.zero_eq_lit, if_true, pure_eq_ok, hf, Meets]
    exact ⟨e, h1, h2, rfl⟩
  · exact absurd hany (C05.CSb_Photo_Partial_ne_any T Z t E)

theorem cs_photo_partial_spec_ne_any (t : Int) : Spec.CS_Photo_Partial T Z t E ≠ .any := by
  unfold Spec.CS_Photo_Partial
  split <;> simp

/-- a defined `CS_Photo_Partial` is positive: barn value > 0, occupancy ≥ 1e-6 (the guard), N_A > 0, A > 0 -/
theorem cs_photo_partial_spec_pos (t : Int) (o : ℝ) (h : Spec.CS_Photo_Partial T Z t E = .value o) : 0 < o := by
  unfold Spec.CS_Photo_Partial at h
  split at h
  · rename_i b aw hb ha
    injection h with h
    have hbpos := C05.CSb_Photo_Partial_pos T Z t E hb
    obtain ⟨_, _, _, hocc, _, _⟩ := (C02.kisselGuard_iff T Z t E).1 (C05.CSb_Photo_Partial_guard T Z t E hb)
    obtain ⟨_, _, hap⟩ := C05.aw_value ha
    have hocc' : (0 : ℝ) < T.Electron_Config_Kissel Z.toNat t.toNat := by
      have : (1.0e-6 : ℝ) ≤ T.Electron_Config_Kissel Z.toNat t.toNat := not_lt.1 hocc
      have h6 : (0 : ℝ) < (1.0e-6 : ℝ) := by norm_num
      linarith
    have hNA : (0 : ℝ) < (Hdr.AVOGNUM : ℝ) := by unfold Hdr.AVOGNUM; norm_num
    rw [← h]
    exact div_pos (mul_pos (mul_pos hbpos hocc') hNA) hap
  · exact absurd h (by simp)

/-- **Part 1 → Part 2**: the hypothesis of every shell / line theorem, from the shape of the table -/
theorem ownOK_of_shape (hs : KisselShaped T Z) (hW : WeightDefined T Z E) :
    OwnOK T Z E (fun t => Spec.CS_Photo_Partial T Z t E) where
  meets := fun t error he => cs_photo_partial_meets T Z E hs hW t error he
  ne_any := fun t => cs_photo_partial_spec_ne_any T Z E t
  ne_zero := fun t o h => (cs_photo_partial_spec_pos T Z E t o h).ne'

/-! ## the shell and line theorems with the specified partial cross sections -/

variable (error : Slot)

/-- `CS_FluorShell_Kissel*` = yield × vacancyProd production built from the SPECIFIED `CS_Photo_Partial` values -/
theorem fluorshell_of_shape (shell : Int) (he : error.isFull = false) (hs : KisselShaped T Z) (hW : WeightDefined T Z E) :
    Meets (Gen.CS_FluorShell_Kissel_no_Cascade T Z shell E error) error
        (fluorShell T Z shell E .none (fun t => Spec.CS_Photo_Partial T Z t E)) ∧
    Meets (Gen.CS_FluorShell_Kissel_Radiative_Cascade T Z shell E error) error
        (fluorShell T Z shell E .rad (fun t => Spec.CS_Photo_Partial T Z t E)) ∧
    Meets (Gen.CS_FluorShell_Kissel_Nonradiative_Cascade T Z shell E error) error
        (fluorShell T Z shell E .auger (fun t => Spec.CS_Photo_Partial T Z t E)) ∧
    Meets (Gen.CS_FluorShell_Kissel_Cascade T Z shell E error) error
        (fluorShell T Z shell E .full (fun t => Spec.CS_Photo_Partial T Z t E)) ∧
    Meets (Gen.CS_FluorShell_Kissel T Z shell E error) error
        (fluorShell T Z shell E .full (fun t => Spec.CS_Photo_Partial T Z t E)) :=
  have ho := ownOK_of_shape T Z E hs hW
  ⟨fluorshell_spec_none T Z E error _ shell he ho, fluorshell_spec_rad T Z E error _ shell he ho,
   fluorshell_spec_auger T Z E error _ shell he ho, fluorshell_spec_full T Z E error _ shell he ho,
   fluorshell_spec T Z E error _ shell he ho⟩

/-- `CS_FluorLine_Kissel*` likewise (the intra-M macros: see the known finding; `hM` is the data fact that they carry no rate
where the code rejects them) -/
theorem fluorline_of_shape (line : Int) (he : error.isFull = false) (hs : KisselShaped T Z) (hW : WeightDefined T Z E)
    (hM : line ∈ intraM → Spec.RadRate T Z line = .fails) :
    Meets (Gen.CS_FluorLine_Kissel_no_Cascade T Z line E error) error
        (fluorLine T Z line E .none (fun t => Spec.CS_Photo_Partial T Z t E)) ∧
    Meets (Gen.CS_FluorLine_Kissel_Radiative_Cascade T Z line E error) error
        (fluorLine T Z line E .rad (fun t => Spec.CS_Photo_Partial T Z t E)) ∧
    Meets (Gen.CS_FluorLine_Kissel_Nonradiative_Cascade T Z line E error) error
        (fluorLine T Z line E .auger (fun t => Spec.CS_Photo_Partial T Z t E)) ∧
    Meets (Gen.CS_FluorLine_Kissel_Cascade T Z line E error) error
        (fluorLine T Z line E .full (fun t => Spec.CS_Photo_Partial T Z t E)) :=
  have ho := ownOK_of_shape T Z E hs hW
  ⟨fluorline_spec_none T Z E error line _ he ho hM, fluorline_spec_rad T Z E error line _ he ho hM,
   fluorline_spec_auger T Z E error line _ he ho hM, fluorline_spec_full T Z E error line _ he ho hM⟩

/-! ## non-vacuity: the synthetic Kissel table of C02b/C05c is shaped and weighted -/

example (aw : ℝ) (haw : 0 < aw) : KisselShaped (C02.witK aw) 1 := fun s _ => C02.witK_shape aw s

end C08
end Xrl
