import Xrl.Props.C03b
import Xrl.Props.C10b
import Xrl.Props.C10c
import Xrl.Lemmas.KN
/-!
# C03 (continued) — `LineEnergy` at `LB_LINE`; "a strictly positive quantity never comes back as 0 without an error"

## 1. `LineEnergy(Z, LB_LINE)`

`contract_LineEnergy` / `null_slot_LineEnergy` (C03.lean, C03b.lean) exclude the L-beta group because `Spec.LineEnergy` makes no
claim there.  `C10b.line_energy_lb_spec` proves `Meets … (Spec.LineEnergyLB T Z)`, and `Spec.LineEnergyLB` makes a claim on the
whole domain (`LineEnergyLB_ne_any`): the three corollaries for the L-beta macro follow, and with them `contract_LineEnergy_all`,
`null_slot_LineEnergy_all` — **every** macro value.  The hypotheses of the L-beta case are those of `line_energy_lb_spec` (shape of
the photo-absorption triple of `Z`, edge order of `Z`: the L-beta branch calls `CS_FluorLine` 13 times); they are needed for the
L-beta macro only (`hlb : m = LB_LINE → …`).

## 2. positivity

`positive_<f>` : called with an EMPTY slot (with `NULL` a failure cannot be told from a value: that is why the statement is made
for the empty slot; `null_slot_<f>` transfers the value), a call that returns `v` and leaves the slot empty has `0 < v`.  A
corollary of the function's `Meets` theorem and the fact that the specification only ever gives positive values.

**strictly positive for every table content** (no data hypothesis beyond the shape conditions of the `Meets` theorem):
  AtomicWeight, ElementDensity, EdgeEnergy, FluorYield, JumpFactor, AtomicLevelWidth, CosKronTransProb, ElectronConfig,
  AugerRate, AugerYield (a lookup succeeds only on a cell `> 0`);  CS_Photo (C03.lean), CS_Rayl, CS_Compt, CS_Energy (`exp` of a
  spline value), CS_Total (sum of three of them), CSb_Photo, CSb_Rayl, CSb_Compt, CSb_Total (times `A/N_A`, `A > 0` from the lookup);
  CSb_Photo_Partial (`exp`); DCS_Thoms, DCS_KN, DCSP_KN, CS_KN, ComptonEnergy (closed forms, `E > 0` on success);
  RadRate of a single line; LineEnergy of a single line, of L-alpha and of the seven doublets.
**strictly positive under an executed data invariant**: LineEnergy of K-alpha / K-beta (`ratesNonnegAt`: no negative rate cell —
  with a negative rate a "weighted mean" of positive energies can have any sign) and of L-beta (`lbWeightsNonnegAt`); both are
  `groupInputsOkAt`, executed on the shipped tables by C10's run.
**non-zero only** (`nonzero_<f>`): RadRate of K-alpha, K-beta (`1 − Σ K-alpha rates`: positive only if the stored rates sum to less
  than 1), L-alpha; MomentTransf is `E·sin(θ/2)/hc`, 0 at θ = 0 and negative for θ < 0 (not a "positive quantity": no theorem).
**only non-negative** — 0 without an error is a correct answer:
  * DCSP_Thoms, DCSP_Rayl, DCSP_Compt, DCSP_KN-based products: the polarised Thomson factor `1 − sin²θ cos²φ` vanishes for
    scattering along the polarisation direction (`nonneg_DCSP_Thoms`; `C12.dcsp_thoms_zero_witness` is the proved zero).
  * DCS_Rayl = `N_A/A · F(q)² · Thomson`: `≥ 0` (`nonneg_DCS_Rayl`), 0 exactly when the form factor is 0.
**no sign claim at all**: FF_Rayl, SF_Compt (and DCS_Compt, which is proportional to SF_Compt): they are cubic splines on the
  PLAIN scale (no `exp`), so between two knots the value can undershoot 0 even when every tabulated ordinate is positive — the
  search observes a few negative `FF_Rayl` values at large `q` on the shipped data (evidence: `negative_values_observed`) — and a
  table may hold anything at a knot; Fi, Fii are signed by nature; ComptonProfile* are splines of `log` values through `exp`
  but are not in the property's list.
-/
namespace Xrl
namespace C03
open Spec

set_option linter.unusedVariables false

/-! ## 1. L-beta -/

theorem wmean_ne_any (ms : List Int) (e r : Int → ℝ) : wmean ms e r ≠ .any := by
  unfold wmean; simp only []; split_ifs <;> simp

theorem LineEnergyLB_ne_any (T : Tables ℝ) (Z : Int) : Spec.LineEnergyLB T Z ≠ .any := by
  unfold Spec.LineEnergyLB
  split_ifs
  · simp
  · exact wmean_ne_any _ _ _

section lb
variable (T : Tables ℝ) (Z m : Int)
  (hP : vecOkB (T.E_Photo_arr Z.toNat) (T.CS_Photo_arr Z.toNat) (T.CS_Photo_arr2 Z.toNat) (T.NE_Photo Z.toNat) = true)
  (hO : edgeOrderB T Z = true)

/-- the calling contract of `LineEnergy(Z, LB_LINE)` -/
theorem contract_LineEnergy_LB (error : Slot) (he : error.isFull = false)
    (hP : vecOkB (T.E_Photo_arr Z.toNat) (T.CS_Photo_arr Z.toNat) (T.CS_Photo_arr2 Z.toNat) (T.NE_Photo Z.toNat) = true)
    (hO : edgeOrderB T Z = true) : Contract (Gen.LineEnergy T Z Hdr.LB_LINE error) error :=
  contract_of_meets (C10.line_energy_lb_spec T Z error he hP hO) (LineEnergyLB_ne_any T Z)

/-- "passing no error slot changes nothing but the reporting" for `LineEnergy(Z, LB_LINE)` -/
theorem null_slot_LineEnergy_LB
    (hP : vecOkB (T.E_Photo_arr Z.toNat) (T.CS_Photo_arr Z.toNat) (T.CS_Photo_arr2 Z.toNat) (T.NE_Photo Z.toNat) = true)
    (hO : edgeOrderB T Z = true) : SameValue (Gen.LineEnergy T Z Hdr.LB_LINE) :=
  sameValue_of_meets (fun e he => C10.line_energy_lb_spec T Z e he hP hO) (LineEnergyLB_ne_any T Z)

/-- **`LineEnergy` for EVERY macro value**: the shape hypotheses are needed for the L-beta macro only -/
theorem contract_LineEnergy_all (error : Slot) (he : error.isFull = false)
    (hlb : m = Hdr.LB_LINE →
      vecOkB (T.E_Photo_arr Z.toNat) (T.CS_Photo_arr Z.toNat) (T.CS_Photo_arr2 Z.toNat) (T.NE_Photo Z.toNat) = true ∧
      edgeOrderB T Z = true) : Contract (Gen.LineEnergy T Z m error) error := by
  by_cases hm : m = Hdr.LB_LINE
  · subst hm
    exact contract_LineEnergy_LB T Z error he (hlb rfl).1 (hlb rfl).2
  · exact contract_LineEnergy T Z m error he hm

theorem null_slot_LineEnergy_all
    (hlb : m = Hdr.LB_LINE →
      vecOkB (T.E_Photo_arr Z.toNat) (T.CS_Photo_arr Z.toNat) (T.CS_Photo_arr2 Z.toNat) (T.NE_Photo Z.toNat) = true ∧
      edgeOrderB T Z = true) : SameValue (Gen.LineEnergy T Z m) := by
  by_cases hm : m = Hdr.LB_LINE
  · subst hm
    exact null_slot_LineEnergy_LB T Z (hlb rfl).1 (hlb rfl).2
  · exact null_slot_LineEnergy T Z m hm

end lb

/-- non-vacuity of the L-beta corollaries: a table, an element and an empty slot with both hypotheses, on which the call succeeds
(`C10.lbWit4_*`) -/
example : ∃ (T : Tables ℝ) (Z : Int),
    vecOkB (T.E_Photo_arr Z.toNat) (T.CS_Photo_arr Z.toNat) (T.CS_Photo_arr2 Z.toNat) (T.NE_Photo Z.toNat) = true ∧
    edgeOrderB T Z = true ∧ Contract (Gen.LineEnergy T Z Hdr.LB_LINE Slot.empty) Slot.empty ∧
    SameValue (Gen.LineEnergy T Z Hdr.LB_LINE) :=
  ⟨C10.lbWit 4, 1, C10.lbWit_shape 4, C10.lbWit_order 4,
    contract_LineEnergy_LB _ _ Slot.empty rfl (C10.lbWit_shape 4) (C10.lbWit_order 4),
    null_slot_LineEnergy_LB _ _ (C10.lbWit_shape 4) (C10.lbWit_order 4)⟩

/-! ## 2. positivity -/

/-- a call that meets a specification whose values all satisfy `P`, made with an EMPTY slot, returned `v` and left the slot
empty: then `P v` (a failure would have filled the slot) -/
theorem returned_of_meets {r : M (ℝ × Slot)} {x : Expect ℝ} {v : ℝ} {P : ℝ → Prop}
    (h : Meets r Slot.empty x) (hx : x ≠ .any) (hP : ∀ w, x = .value w → P w)
    (hr : Returns r v Slot.empty) : P v := by
  rcases Meets.cases h with ⟨w, hw, hrw⟩ | ⟨_, e, _, _, hrw⟩ | ha
  · have : v = w := by rw [Returns, hrw] at hr; injection hr with hr; injection hr with hr; exact hr.symm
    rw [this]; exact hP w hw
  · exfalso
    rw [Returns, hrw] at hr
    injection hr with hr; injection hr with h1 h2
    simp [Slot.withErr] at h2
  · exact absurd ha hx

theorem lookup1_pos {cell : Nat → ℝ} {Z : Int} {v : ℝ} (h : lookup1 cell Z = .value v) : 0 < v := by
  unfold lookup1 at h
  split_ifs at h with hc
  injection h with h
  rw [← h]; have := hc.2; norm_num at this; exact this

theorem AVOGNUM_pos : (0 : ℝ) < Hdr.AVOGNUM := by unfold Hdr.AVOGNUM; norm_num

theorem toBarn_pos {a b : Expect ℝ} {v : ℝ} (ha : ∀ w, a = .value w → 0 < w) (hb : ∀ w, b = .value w → 0 < w)
    (h : toBarn a b = .value v) : 0 < v := by
  cases a with
  | value x =>
    cases b with
    | value y =>
      simp only [toBarn] at h
      injection h with h
      rw [← h]
      exact div_pos (mul_pos (ha x rfl) (hb y rfl)) AVOGNUM_pos
    | fails => simp [toBarn] at h
    | any => simp [toBarn] at h
  | fails => simp [toBarn] at h
  | any => simp [toBarn] at h

section positivity
variable (T : Tables ℝ) (Z m : Int) (E θ φ : ℝ) (v : ℝ)

/-! ### scalar lookups: every table -/

theorem positive_AtomicWeight (h : Returns (Gen.AtomicWeight T Z Slot.empty) v Slot.empty) : 0 < v :=
  returned_of_meets (C01.lookup_spec_AtomicWeight T Z Slot.empty rfl) lookup1_ne_any (fun _ hw => lookup1_pos hw) h
theorem positive_ElementDensity (h : Returns (Gen.ElementDensity T Z Slot.empty) v Slot.empty) : 0 < v :=
  returned_of_meets (C01.lookup_spec_ElementDensity T Z Slot.empty rfl) lookup1_ne_any (fun _ hw => lookup1_pos hw) h
theorem positive_EdgeEnergy (h : Returns (Gen.EdgeEnergy T Z m Slot.empty) v Slot.empty) : 0 < v :=
  returned_of_meets (C01.lookup_spec_EdgeEnergy T Z m Slot.empty rfl) lookup2_ne_any (fun _ hw => C09.lookup2_pos hw) h
theorem positive_FluorYield (h : Returns (Gen.FluorYield T Z m Slot.empty) v Slot.empty) : 0 < v :=
  returned_of_meets (C01.lookup_spec_FluorYield T Z m Slot.empty rfl) lookup2_ne_any (fun _ hw => C09.lookup2_pos hw) h
theorem positive_JumpFactor (h : Returns (Gen.JumpFactor T Z m Slot.empty) v Slot.empty) : 0 < v :=
  returned_of_meets (C01.lookup_spec_JumpFactor T Z m Slot.empty rfl) lookup2_ne_any (fun _ hw => C09.lookup2_pos hw) h
theorem positive_AtomicLevelWidth (h : Returns (Gen.AtomicLevelWidth T Z m Slot.empty) v Slot.empty) : 0 < v :=
  returned_of_meets (C01.lookup_spec_AtomicLevelWidth T Z m Slot.empty rfl) lookup2_ne_any (fun _ hw => C09.lookup2_pos hw) h
theorem positive_CosKronTransProb (h : Returns (Gen.CosKronTransProb T Z m Slot.empty) v Slot.empty) : 0 < v :=
  returned_of_meets (C01.lookup_spec_CosKronTransProb T Z m Slot.empty rfl) lookup2_ne_any (fun _ hw => C09.lookup2_pos hw) h
theorem positive_ElectronConfig (h : Returns (Gen.ElectronConfig T Z m Slot.empty) v Slot.empty) : 0 < v :=
  returned_of_meets (C01.lookup_spec_ElectronConfig T Z m Slot.empty rfl) lookup2_ne_any (fun _ hw => C09.lookup2_pos hw) h
theorem positive_AugerRate (h : Returns (Gen.AugerRate T Z m Slot.empty) v Slot.empty) : 0 < v :=
  returned_of_meets (C01.lookup_spec_AugerRate T Z m Slot.empty rfl) lookup2_ne_any (fun _ hw => C09.lookup2_pos hw) h
theorem positive_AugerYield (h : Returns (Gen.AugerYield T Z m Slot.empty) v Slot.empty) : 0 < v :=
  returned_of_meets (C01.lookup_spec_AugerYield T Z m Slot.empty rfl) lookup2_ne_any (fun _ hw => C09.lookup2_pos hw) h

/-! ### cross sections (log–log spline sites and their sums / unit twins) -/

section sites
variable (hP : vecOkB (T.E_Photo_arr Z.toNat) (T.CS_Photo_arr Z.toNat) (T.CS_Photo_arr2 Z.toNat) (T.NE_Photo Z.toNat) = true)
  (hR : vecOkB (T.E_Rayl_arr Z.toNat) (T.CS_Rayl_arr Z.toNat) (T.CS_Rayl_arr2 Z.toNat) (T.NE_Rayl Z.toNat) = true)
  (hC : vecOkB (T.E_Compt_arr Z.toNat) (T.CS_Compt_arr Z.toNat) (T.CS_Compt_arr2 Z.toNat) (T.NE_Compt Z.toNat) = true)

theorem CS_Photo_spec_pos {w : ℝ} (h : Spec.CS_Photo T Z E = .value w) : 0 < w :=
  interp_exp_pos (by unfold Spec.CS_Photo at h; exact h)
theorem CS_Rayl_spec_pos {w : ℝ} (h : Spec.CS_Rayl T Z E = .value w) : 0 < w :=
  interp_exp_pos (by unfold Spec.CS_Rayl at h; exact h)
theorem CS_Compt_spec_pos {w : ℝ} (h : Spec.CS_Compt T Z E = .value w) : 0 < w :=
  interp_exp_pos (by unfold Spec.CS_Compt at h; exact h)
theorem CS_Total_spec_pos {w : ℝ} (h : Spec.CS_Total T Z E = .value w) : 0 < w := by
  unfold Spec.CS_Total at h
  obtain ⟨p, r, s, hp, hr, hs, hw⟩ := add3_eq_value h
  rw [hw]
  have := CS_Photo_spec_pos T Z E hp; have := CS_Rayl_spec_pos T Z E hr; have := CS_Compt_spec_pos T Z E hs
  linarith

include hR in
theorem positive_CS_Rayl (h : Returns (Gen.CS_Rayl T Z E Slot.empty) v Slot.empty) : 0 < v :=
  returned_of_meets (C02.site_spec_CS_Rayl T Z E Slot.empty rfl hR) (by unfold Spec.CS_Rayl; exact interp_ne_any)
    (fun _ hw => CS_Rayl_spec_pos T Z E hw) h
include hC in
theorem positive_CS_Compt (h : Returns (Gen.CS_Compt T Z E Slot.empty) v Slot.empty) : 0 < v :=
  returned_of_meets (C02.site_spec_CS_Compt T Z E Slot.empty rfl hC) (by unfold Spec.CS_Compt; exact interp_ne_any)
    (fun _ hw => CS_Compt_spec_pos T Z E hw) h
include hP hR hC in
theorem positive_CS_Total (h : Returns (Gen.CS_Total T Z E Slot.empty) v Slot.empty) : 0 < v :=
  returned_of_meets (C05.cs_total_eq T Z E Slot.empty rfl hP hR hC) (by unfold Spec.CS_Total; exact add3_ne_any)
    (fun _ hw => CS_Total_spec_pos T Z E hw) h

include hP in
theorem positive_CSb_Photo (h : Returns (Gen.CSb_Photo T Z E Slot.empty) v Slot.empty) : 0 < v :=
  returned_of_meets (C05.barn_twin_CSb_Photo T Z E Slot.empty rfl hP) (by unfold Spec.CSb_Photo; exact C05.toBarn_ne_any)
    (fun _ hw => toBarn_pos (fun _ h1 => CS_Photo_spec_pos T Z E h1) (fun _ h2 => lookup1_pos h2)
      (by unfold Spec.CSb_Photo Spec.AtomicWeight at hw; exact hw)) h
include hR in
theorem positive_CSb_Rayl (h : Returns (Gen.CSb_Rayl T Z E Slot.empty) v Slot.empty) : 0 < v :=
  returned_of_meets (C05.barn_twin_CSb_Rayl T Z E Slot.empty rfl hR) (by unfold Spec.CSb_Rayl; exact C05.toBarn_ne_any)
    (fun _ hw => toBarn_pos (fun _ h1 => CS_Rayl_spec_pos T Z E h1) (fun _ h2 => lookup1_pos h2)
      (by unfold Spec.CSb_Rayl Spec.AtomicWeight at hw; exact hw)) h
include hC in
theorem positive_CSb_Compt (h : Returns (Gen.CSb_Compt T Z E Slot.empty) v Slot.empty) : 0 < v :=
  returned_of_meets (C05.barn_twin_CSb_Compt T Z E Slot.empty rfl hC) (by unfold Spec.CSb_Compt; exact C05.toBarn_ne_any)
    (fun _ hw => toBarn_pos (fun _ h1 => CS_Compt_spec_pos T Z E h1) (fun _ h2 => lookup1_pos h2)
      (by unfold Spec.CSb_Compt Spec.AtomicWeight at hw; exact hw)) h
include hP hR hC in
theorem positive_CSb_Total (h : Returns (Gen.CSb_Total T Z E Slot.empty) v Slot.empty) : 0 < v :=
  returned_of_meets (C05.barn_twin_CSb_Total T Z E Slot.empty rfl hP hR hC) (by unfold Spec.CSb_Total; exact C05.toBarn_ne_any)
    (fun _ hw => toBarn_pos (fun _ h1 => CS_Total_spec_pos T Z E h1) (fun _ h2 => lookup1_pos h2)
      (by unfold Spec.CSb_Total Spec.AtomicWeight at hw; exact hw)) h

end sites

theorem positive_CS_Energy
    (hs : vecOkB (T.E_Energy_arr Z.toNat) (T.CS_Energy_arr Z.toNat) (T.CS_Energy_arr2 Z.toNat) (T.NE_Energy Z.toNat) = true)
    (h : Returns (Gen.CS_Energy T Z E Slot.empty) v Slot.empty) : 0 < v :=
  returned_of_meets (C02.site_spec_CS_Energy T Z E Slot.empty rfl hs) (CS_Energy_ne_any T Z E)
    (fun _ hw => interp_exp_pos (by unfold Spec.CS_Energy at hw; exact hw)) h

/-- the Kissel partial photo-ionisation cross section, barn/atom (`exp` of a spline / of the low-energy extension) -/
theorem positive_CSb_Photo_Partial (hs : kisselShapeB T Z m = true)
    (h : Returns (Gen.CSb_Photo_Partial T Z m E Slot.empty) v Slot.empty) : 0 < v :=
  returned_of_meets (C02.site_spec_CSb_Photo_Partial T Z m E Slot.empty rfl hs) (C05.CSb_Photo_Partial_ne_any T Z m E)
    (fun _ hw => C05.CSb_Photo_Partial_pos T Z m E hw) h

/-! ### closed forms -/

theorem positive_DCS_Thoms (h : Returns (Gen.DCS_Thoms T θ Slot.empty) v Slot.empty) : 0 < v :=
  returned_of_meets (C12.closed_form_DCS_Thoms T θ Slot.empty) (DCS_Thoms_ne_any θ)
    (fun w hw => by unfold Spec.DCS_Thoms at hw; injection hw with hw; rw [← hw]; exact KN.thomsV_pos θ) h

theorem positive_DCS_KN (h : Returns (Gen.DCS_KN T E θ Slot.empty) v Slot.empty) : 0 < v :=
  returned_of_meets (C12.closed_form_DCS_KN T E θ Slot.empty rfl) (DCS_KN_ne_any E θ)
    (fun w hw => by
      unfold Spec.DCS_KN at hw
      split_ifs at hw with hE
      injection hw with hw; rw [← hw]
      exact KN.knV_pos E θ (by rw [C09.lit0] at hE; exact not_le.mp hE)) h

theorem positive_DCSP_KN (h : Returns (Gen.DCSP_KN T E θ φ Slot.empty) v Slot.empty) : 0 < v :=
  returned_of_meets (C12.closed_form_DCSP_KN T E θ φ Slot.empty rfl) (DCSP_KN_ne_any E θ φ)
    (fun w hw => by
      unfold Spec.DCSP_KN at hw
      split_ifs at hw with hE
      injection hw with hw; rw [← hw]
      exact KN.knPV_pos E θ φ (by rw [C09.lit0] at hE; exact not_le.mp hE)) h

theorem positive_CS_KN (h : Returns (Gen.CS_KN T E Slot.empty) v Slot.empty) : 0 < v :=
  returned_of_meets (C12.closed_form_CS_KN T E Slot.empty rfl) (CS_KN_ne_any E)
    (fun w hw => by
      unfold Spec.CS_KN at hw
      split_ifs at hw with hE
      injection hw with hw; rw [← hw]
      exact KN.csknV_pos E (by rw [C09.lit0] at hE; exact not_le.mp hE)) h

theorem positive_ComptonEnergy (h : Returns (Gen.ComptonEnergy T E θ Slot.empty) v Slot.empty) : 0 < v :=
  returned_of_meets (C12.closed_form_ComptonEnergy T E θ Slot.empty rfl) (ComptonEnergy_ne_any E θ)
    (fun w hw => by
      unfold Spec.ComptonEnergy at hw
      split_ifs at hw with hE
      injection hw with hw; rw [← hw]
      exact KN.comptonV_pos E θ (by rw [C09.lit0] at hE; exact not_le.mp hE)) h

end positivity

/-! ### line energies and rates -/

theorem singleEnergy_pos {T : Tables ℝ} {Z m : Int} {w : ℝ} (h : singleEnergy T Z m = .value w) : 0 < w := by
  unfold singleEnergy at h
  split_ifs at h with hc
  injection h with h
  rw [← h]; have := hc.2.2; rw [C09.lit0] at this; exact this

theorem singleRate_pos {T : Tables ℝ} {Z m : Int} {w : ℝ} (h : singleRate T Z m = .value w) : 0 < w := by
  unfold singleRate at h
  split_ifs at h with hc
  injection h with h
  rw [← h]; have := hc.2.2; rw [C09.lit0] at this; exact this

theorem group_KA_range : ∀ m ∈ Hdr.group_KA, -383 ≤ m ∧ m ≤ -1 := by decide
theorem group_KB_range : ∀ m ∈ Hdr.group_KB, -383 ≤ m ∧ m ≤ -1 := by decide

/-- a value of the line-energy specification is positive: single lines, L-alpha and the doublets for every table; K-alpha and
K-beta for a table without negative rate cells (`groupInputsOkAt`, executed on the shipped tables) -/
theorem LineEnergy_spec_pos (T : Tables ℝ) (Z line : Int) (hd : groupInputsOkAt T Z line = true) {w : ℝ}
    (h : Spec.LineEnergy T Z line = .value w) : 0 < w := by
  unfold Spec.LineEnergy at h
  split_ifs at h with hz hka hkb hla hlb
  · have hr : ratesNonnegAt T Z = true := by unfold groupInputsOkAt at hd; simpa [hka] using hd
    exact C10.wmean_value_pos _ _ _ (fun m hm => C10.ratesNonnegAt_cell T Z hr m (group_KA_range m hm)) h
  · have hr : ratesNonnegAt T Z = true := by unfold groupInputsOkAt at hd; simpa [hkb] using hd
    exact C10.wmean_value_pos _ _ _ (fun m hm => C10.ratesNonnegAt_cell T Z hr m (group_KB_range m hm)) h
  · exact C10.composed_value_pos T Z _ _ h
  · split at h
    · exact C10.composed_value_pos T Z _ _ h
    · exact singleEnergy_pos h

theorem LineEnergyLB_spec_pos (T : Tables ℝ) (Z : Int) (hd : lbWeightsNonnegAt T Z = true) {w : ℝ}
    (h : Spec.LineEnergyLB T Z = .value w) : 0 < w := by
  unfold Spec.LineEnergyLB at h
  split_ifs at h
  exact C10.wmean_value_pos _ _ _ (C10.lbWeightsNonnegAt_mem T Z hd) h

section lines
variable (T : Tables ℝ) (Z m : Int) (v : ℝ)

/-- **`LineEnergy`, every macro value**: a returned value is `> 0` (`hd`: no negative rate cell / member cross section, needed by
the three cross-group means K-alpha, K-beta, L-beta only; `hlb`: the hypotheses of the L-beta specification theorem) -/
theorem positive_LineEnergy (hd : groupInputsOkAt T Z m = true)
    (hlb : m = Hdr.LB_LINE →
      vecOkB (T.E_Photo_arr Z.toNat) (T.CS_Photo_arr Z.toNat) (T.CS_Photo_arr2 Z.toNat) (T.NE_Photo Z.toNat) = true ∧
      edgeOrderB T Z = true)
    (h : Returns (Gen.LineEnergy T Z m Slot.empty) v Slot.empty) : 0 < v := by
  by_cases hm : m = Hdr.LB_LINE
  · subst hm
    have hw : lbWeightsNonnegAt T Z = true := by
      unfold groupInputsOkAt at hd; simpa [Hdr.LB_LINE, Hdr.KA_LINE, Hdr.KB_LINE] using hd
    exact returned_of_meets (C10.line_energy_lb_spec T Z Slot.empty rfl (hlb rfl).1 (hlb rfl).2) (LineEnergyLB_ne_any T Z)
      (fun _ hv => LineEnergyLB_spec_pos T Z hw hv) h
  · exact returned_of_meets (C10.line_energy_spec T Z Slot.empty rfl m) (LineEnergy_ne_any T Z m hm)
      (fun _ hv => LineEnergy_spec_pos T Z m hd hv) h

/-- a single line (not one of the four Siegbahn group macros): every table -/
theorem positive_RadRate_single (hs : m ≠ 0 ∧ m ≠ 1 ∧ m ≠ 2 ∧ m ≠ 3)
    (h : Returns (Gen.RadRate T Z m Slot.empty) v Slot.empty) : 0 < v :=
  returned_of_meets (C10.rad_rate_spec T Z Slot.empty rfl m) (C09.radRate_ne_any T Z m)
    (fun w hw => by
      unfold Spec.RadRate at hw
      simp only [Hdr.KA_LINE, Hdr.KB_LINE, Hdr.LA_LINE, Hdr.LB_LINE, hs.1, hs.2.1, hs.2.2.1, hs.2.2.2, if_false] at hw
      split_ifs at hw
      exact singleRate_pos hw) h

/-- every macro value, the group sums included: never the number 0 without an error -/
theorem nonzero_RadRate (h : Returns (Gen.RadRate T Z m Slot.empty) v Slot.empty) : v ≠ 0 :=
  returned_of_meets (P := fun v => v ≠ 0) (C10.rad_rate_spec T Z Slot.empty rfl m) (C09.radRate_ne_any T Z m)
    (fun w hw => by
      unfold Spec.RadRate at hw
      simp only [] at hw
      split_ifs at hw with hz hka h0 hkb h1 hla h2 hlb
      · injection hw with hw; rw [← hw]; simpa [deq, C09.lit0] using h0
      · injection hw with hw; rw [← hw]
        have := h1
        simp only [deq, C09.lit0, C09.lit1, not_or] at this
        intro h3; rw [C09.lit1] at h3; exact this.2 ⟨by linarith, by linarith⟩
      · injection hw with hw; rw [← hw]; simpa [deq, C09.lit0] using h2
      · exact (singleRate_pos hw).ne') h

end lines

/-! ### only non-negative -/

/-- the polarised Thomson cross section is `≥ 0` — and 0 for scattering along the polarisation direction
(`C12.dcsp_thoms_zero_witness`): 0 without an error is a correct answer of `DCSP_Thoms` and of everything proportional to it -/
theorem nonneg_DCSP_Thoms (T : Tables ℝ) (θ φ v : ℝ) (h : Returns (Gen.DCSP_Thoms T θ φ Slot.empty) v Slot.empty) : 0 ≤ v :=
  returned_of_meets (P := fun v => 0 ≤ v) (C12.closed_form_DCSP_Thoms T θ φ Slot.empty) (DCSP_Thoms_ne_any θ φ)
    (fun w hw => by
      unfold Spec.DCSP_Thoms at hw; injection hw with hw; rw [← hw]
      exact KN.thomsPV_nonneg θ φ) h


/-! ## non-vacuity: every hypothesis of the positivity theorems is satisfiable (synthetic one-element tables of C02b/C05c/C10c) -/

section nonvacuity
open C05 C02

/-- from a `Meets` theorem and the value of the specification on a concrete table: the call returns -/
theorem returns_of_meets {r : M (ℝ × Slot)} {x : Expect ℝ} {w : ℝ} (h : Meets r Slot.empty x) (hx : x = .value w) :
    Returns r w Slot.empty := by rw [hx] at h; exact h

theorem witK_edge : Spec.EdgeEnergy (witK 2) 1 0 = .value (1 / 2) := by
  unfold Spec.EdgeEnergy lookup2
  have : (0.0 : ℝ) < (witK 2).EdgeEnergy_arr (1 : Int).toNat ((id (0 : Int)).toNat) := by show (0.0 : ℝ) < 1 / 2; norm_num
  rw [if_pos ⟨(zOk_iff 1).2 (by omega), by decide, this⟩]; rfl

/-- scalar lookups (one-argument and two-argument form) -/
example : ∃ v, Returns (Gen.AtomicWeight (witK 2) 1 Slot.empty) v Slot.empty ∧ 0 < v :=
  have h := returns_of_meets (C01.lookup_spec_AtomicWeight (witK 2) 1 Slot.empty rfl) wit_aw2
  ⟨2, h, positive_AtomicWeight _ _ _ h⟩
example : ∃ v, Returns (Gen.EdgeEnergy (witK 2) 1 0 Slot.empty) v Slot.empty ∧ 0 < v :=
  have h := returns_of_meets (C01.lookup_spec_EdgeEnergy (witK 2) 1 0 Slot.empty rfl) witK_edge
  ⟨1 / 2, h, positive_EdgeEnergy _ _ _ _ h⟩

/-- a log–log site, its barn twin, the Kissel partial cross section -/
example : ∃ v, Returns (Gen.CS_Rayl (witK 2) 1 1 Slot.empty) v Slot.empty ∧ 0 < v :=
  have h := returns_of_meets (C02.site_spec_CS_Rayl (witK 2) 1 1 Slot.empty rfl wit_vecL) (wit_CS_Rayl 2)
  ⟨_, h, positive_CS_Rayl _ _ _ _ wit_vecL h⟩
example : ∃ v, Returns (Gen.CS_Compt (witK 2) 1 1 Slot.empty) v Slot.empty ∧ 0 < v :=
  have h := returns_of_meets (C02.site_spec_CS_Compt (witK 2) 1 1 Slot.empty rfl wit_vecL) (wit_CS_Compt 2)
  ⟨_, h, positive_CS_Compt _ _ _ _ wit_vecL h⟩
example : ∃ v, Returns (Gen.CSb_Rayl (witK 2) 1 1 Slot.empty) v Slot.empty ∧ 0 < v :=
  have h := returns_of_meets (C05.barn_twin_CSb_Rayl (witK 2) 1 1 Slot.empty rfl wit_vecL)
    (by unfold Spec.CSb_Rayl; rw [wit_CS_Rayl, wit_aw2]; rfl)
  ⟨_, h, positive_CSb_Rayl _ _ _ _ wit_vecL h⟩
example : ∃ v, Returns (Gen.CSb_Photo_Partial (witK 2) 1 0 1 Slot.empty) v Slot.empty ∧ 0 < v :=
  have h := returns_of_meets (C02.site_spec_CSb_Photo_Partial (witK 2) 1 0 1 Slot.empty rfl (witK_shape 2 0)) (wit_partial 2)
  ⟨_, h, positive_CSb_Photo_Partial _ _ _ _ _ (witK_shape 2 0) h⟩

/-- closed forms at `E = 1` keV -/
example (T : Tables ℝ) (θ : ℝ) : ∃ v, Returns (Gen.DCS_KN T 1 θ Slot.empty) v Slot.empty ∧ 0 < v :=
  have h := returns_of_meets (C12.closed_form_DCS_KN T 1 θ Slot.empty rfl)
    (by unfold Spec.DCS_KN; rw [if_neg (by rw [C09.lit0]; norm_num)])
  ⟨_, h, positive_DCS_KN _ _ _ _ h⟩
example (T : Tables ℝ) : ∃ v, Returns (Gen.CS_KN T 1 Slot.empty) v Slot.empty ∧ 0 < v :=
  have h := returns_of_meets (C12.closed_form_CS_KN T 1 Slot.empty rfl)
    (by unfold Spec.CS_KN; rw [if_neg (by rw [C09.lit0]; norm_num)])
  ⟨_, h, positive_CS_KN _ _ _ h⟩

/-- line energies: L-alpha (no data hypothesis), K-alpha (non-negative rates), L-beta (non-negative member cross sections) -/
example : ∃ v, Returns (Gen.LineEnergy C10.laWit 1 Hdr.LA_LINE Slot.empty) v Slot.empty ∧ 0 < v :=
  have h : Returns (Gen.LineEnergy C10.laWit 1 Hdr.LA_LINE Slot.empty) 2 Slot.empty := C10.laWit_result.1
  ⟨2, h, positive_LineEnergy _ _ _ _ (by simp [groupInputsOkAt, Hdr.LA_LINE, Hdr.KA_LINE, Hdr.KB_LINE, Hdr.LB_LINE])
    (fun hc => by simp [Hdr.LA_LINE, Hdr.LB_LINE] at hc) h⟩

theorem kaWit_rates : ratesNonnegAt (C10.kaWit 1) 1 = true := by
  unfold ratesNonnegAt
  simp only [List.all_eq_true, decide_eq_true_eq, C09.lit0]
  intro j _
  show (0 : ℝ) ≤ if j = 0 ∨ j = 1 then 1 else 0
  split_ifs <;> norm_num

example : ∃ v, Returns (Gen.LineEnergy (C10.kaWit 1) 1 Hdr.KA_LINE Slot.empty) v Slot.empty ∧ 0 < v :=
  have h : Returns (Gen.LineEnergy (C10.kaWit 1) 1 Hdr.KA_LINE Slot.empty) 3 Slot.empty := C10.kaWit_result 1 (by norm_num)
  ⟨3, h, positive_LineEnergy _ _ _ _ (by unfold groupInputsOkAt; simpa [Hdr.KA_LINE] using kaWit_rates)
    (fun hc => by simp [Hdr.KA_LINE, Hdr.LB_LINE] at hc) h⟩

end nonvacuity

end C03
end Xrl
