import Xrl.Lemmas.Meets
import Xrl.Props.C02
import Xrl.Props.C01
import Xrl.Spec.Sums
import Xrl.Gen.F_cs_barns
/-!
# C05 — totals, per-atom and differential cross sections obey their defining identities
-/
namespace Xrl
namespace C05
open Spec

set_option linter.unusedSimpArgs false
set_option linter.unusedVariables false

variable (T : Tables ℝ) (Z : Int) (E : ℝ) (error : Slot) (he : error.isFull = false)
include he

/-- total = photo + Rayleigh + Compton wherever the three parts are defined; an undefined part fails the
total with that part's error (no partial sum) -/
theorem cs_total_eq
    (hP : vecOkB (T.E_Photo_arr Z.toNat) (T.CS_Photo_arr Z.toNat) (T.CS_Photo_arr2 Z.toNat) (T.NE_Photo Z.toNat) = true)
    (hR : vecOkB (T.E_Rayl_arr Z.toNat) (T.CS_Rayl_arr Z.toNat) (T.CS_Rayl_arr2 Z.toNat) (T.NE_Rayl Z.toNat) = true)
    (hC : vecOkB (T.E_Compt_arr Z.toNat) (T.CS_Compt_arr Z.toNat) (T.CS_Compt_arr2 Z.toNat) (T.NE_Compt Z.toNat) = true) :
    Meets (Gen.CS_Total T Z E error) error (Spec.CS_Total T Z E) := by
  have mP := C02.site_spec_CS_Photo T Z E error he hP
  have mR := C02.site_spec_CS_Rayl T Z E error he hR
  have mC := C02.site_spec_CS_Compt T Z E error he hC
  unfold Gen.CS_Total Spec.CS_Total
  rcases Meets.cases mP with ⟨p, hp, rp⟩ | ⟨hp, e, h1, h2, rp⟩ | hany
  · have pp := (interp_exp_pos (by unfold Spec.CS_Photo at hp; exact hp)).ne'
    have gp := interp_value_guard (by unfold Spec.CS_Photo at hp; exact hp)
    simp only [zOk, Hdr.ZMAX, Bool.and_eq_true, decide_eq_true_eq] at gp
    rcases Meets.cases mR with ⟨r, hr, rr⟩ | ⟨hr, e, h1, h2, rr⟩ | hany
    · have rpos := (interp_exp_pos (by unfold Spec.CS_Rayl at hr; exact hr)).ne'
      have gr := interp_value_guard (by unfold Spec.CS_Rayl at hr; exact hr)
      simp only [zOk, Hdr.ZMAX, Bool.and_eq_true, decide_eq_true_eq] at gr
      rcases Meets.cases mC with ⟨c, hc, rc⟩ | ⟨hc, e, h1, h2, rc⟩ | hany
      · have cpos := (interp_exp_pos (by unfold Spec.CS_Compt at hc; exact hc)).ne'
        have gc := interp_value_guard (by unfold Spec.CS_Compt at hc; exact hc)
        simp only [zOk, Hdr.ZMAX, Bool.and_eq_true, decide_eq_true_eq] at gc
        simp only [hp, hr, hc, rp, rr, rc, add3, Meets, Returns, rd1, setErr_notFull he]
        norm_num
        simp [rp, rr, rc, pp, rpos, cpos]
        xrl_finish
      · simp only [hp, hr, hc, add3, Meets, rd1, setErr_notFull he]
        norm_num
        simp [rp, rr, rc, pp, rpos]
        xrl_finish
      · exact absurd hany (by unfold Spec.CS_Compt; exact interp_ne_any)
    · simp only [hp, hr, add3, Meets, rd1, setErr_notFull he]
      norm_num
      simp [rp, rr, pp]
      xrl_finish
    · exact absurd hany (by unfold Spec.CS_Rayl; exact interp_ne_any)
  · simp only [hp, add3, Meets, rd1, setErr_notFull he]
    norm_num
    simp [rp]
    xrl_finish
  · exact absurd hany (by unfold Spec.CS_Photo; exact interp_ne_any)

/-- the shape every `CSb_*` / `DCSb_*` function of cs_barns.c has (macro INIT): call the cm²/g twin, then the
atomic weight, both through the caller's slot -/
theorem barn_twin (f : Slot → M (ℝ × Slot)) (x : Expect ℝ)
    (hf : Meets (f error) error x) (hpos : ∀ v, x = .value v → v ≠ 0) (hna : x ≠ .any) :
    Meets (do
        let r_1 ← f error
        if deq r_1.1 (0.0 : ℝ) then pure ((0.0 : ℝ), r_1.2)
        else do
          let r_2 ← Gen.AtomicWeight T Z r_1.2
          if deq r_2.1 (0.0 : ℝ) then pure ((0.0 : ℝ), r_2.2)
          else pure (((r_1.1 * r_2.1) / (0.602214129 : ℝ)), r_2.2)) error
      (toBarn x (Spec.AtomicWeight T Z)) := by
  have mA := C01.lookup_spec_AtomicWeight T Z error he
  rcases Meets.cases hf with ⟨v, hx, rf⟩ | ⟨hx, e, h1, h2, rf⟩ | hany
  · have hv := hpos v hx
    rcases Meets.cases mA with ⟨a, ha, ra⟩ | ⟨ha, e, h1, h2, ra⟩ | hany
    · have apos : a ≠ 0 := by
        unfold Spec.AtomicWeight lookup1 at ha
        split_ifs at ha with hc
        injection ha with ha
        rw [← ha]; have := hc.2; norm_num at this; exact this.ne'
      simp only [hx, ha, rf, ra, toBarn, Meets, Returns, bind_ok, pure_eq_ok, Hdr.AVOGNUM]
      norm_num
      simp [hv, apos, ra]
    · simp only [hx, ha, rf, toBarn, Meets, bind_ok, pure_eq_ok]
      norm_num
      simp [hv, ra]
      xrl_finish
    · exact absurd hany (by unfold Spec.AtomicWeight; exact lookup1_ne_any)
  · simp only [hx, rf, toBarn, Meets, bind_ok, pure_eq_ok]
    norm_num
    xrl_finish
  · exact absurd hany hna

theorem barn_twin_CSb_Total
    (hP : vecOkB (T.E_Photo_arr Z.toNat) (T.CS_Photo_arr Z.toNat) (T.CS_Photo_arr2 Z.toNat) (T.NE_Photo Z.toNat) = true)
    (hR : vecOkB (T.E_Rayl_arr Z.toNat) (T.CS_Rayl_arr Z.toNat) (T.CS_Rayl_arr2 Z.toNat) (T.NE_Rayl Z.toNat) = true)
    (hC : vecOkB (T.E_Compt_arr Z.toNat) (T.CS_Compt_arr Z.toNat) (T.CS_Compt_arr2 Z.toNat) (T.NE_Compt Z.toNat) = true) :
    Meets (Gen.CSb_Total T Z E error) error (Spec.CSb_Total T Z E) := by
  unfold Gen.CSb_Total Spec.CSb_Total
  refine barn_twin T Z error he (Gen.CS_Total T Z E) _ (cs_total_eq T Z E error he hP hR hC) ?_ ?_
  · intro v hv
    unfold Spec.CS_Total at hv
    obtain ⟨p, r, c, h1, h2, h3, rfl⟩ := add3_eq_value hv
    have := interp_exp_pos (by unfold Spec.CS_Photo at h1; exact h1)
    have := interp_exp_pos (by unfold Spec.CS_Rayl at h2; exact h2)
    have := interp_exp_pos (by unfold Spec.CS_Compt at h3; exact h3)
    positivity
  · unfold Spec.CS_Total; exact add3_ne_any

theorem barn_twin_CSb_Photo
    (hP : vecOkB (T.E_Photo_arr Z.toNat) (T.CS_Photo_arr Z.toNat) (T.CS_Photo_arr2 Z.toNat) (T.NE_Photo Z.toNat) = true) :
    Meets (Gen.CSb_Photo T Z E error) error (Spec.CSb_Photo T Z E) := by
  unfold Gen.CSb_Photo Spec.CSb_Photo
  refine barn_twin T Z error he (Gen.CS_Photo T Z E) _ (C02.site_spec_CS_Photo T Z E error he hP) ?_ ?_
  · intro v hv
    exact (interp_exp_pos (by unfold Spec.CS_Photo at hv; exact hv)).ne'
  · unfold Spec.CS_Photo; exact interp_ne_any

theorem barn_twin_CSb_Rayl
    (hR : vecOkB (T.E_Rayl_arr Z.toNat) (T.CS_Rayl_arr Z.toNat) (T.CS_Rayl_arr2 Z.toNat) (T.NE_Rayl Z.toNat) = true) :
    Meets (Gen.CSb_Rayl T Z E error) error (Spec.CSb_Rayl T Z E) := by
  unfold Gen.CSb_Rayl Spec.CSb_Rayl
  refine barn_twin T Z error he (Gen.CS_Rayl T Z E) _ (C02.site_spec_CS_Rayl T Z E error he hR) ?_ ?_
  · intro v hv
    exact (interp_exp_pos (by unfold Spec.CS_Rayl at hv; exact hv)).ne'
  · unfold Spec.CS_Rayl; exact interp_ne_any

theorem barn_twin_CSb_Compt
    (hC : vecOkB (T.E_Compt_arr Z.toNat) (T.CS_Compt_arr Z.toNat) (T.CS_Compt_arr2 Z.toNat) (T.NE_Compt Z.toNat) = true) :
    Meets (Gen.CSb_Compt T Z E error) error (Spec.CSb_Compt T Z E) := by
  unfold Gen.CSb_Compt Spec.CSb_Compt
  refine barn_twin T Z error he (Gen.CS_Compt T Z E) _ (C02.site_spec_CS_Compt T Z E error he hC) ?_ ?_
  · intro v hv
    exact (interp_exp_pos (by unfold Spec.CS_Compt at hv; exact hv)).ne'
  · unfold Spec.CS_Compt; exact interp_ne_any

end C05
end Xrl
