import Xrl.Lemmas.KN
/-!
# C12 — closed-form scattering formulas are mutually consistent and physically bounded

Every theorem is about the definitions *generated from the C source of the working tree*
(`Gen.DCS_Thoms, DCSP_Thoms, DCS_KN, DCSP_KN, CS_KN, ComptonEnergy, MomentTransf`, translated from
src/scattering.c and src/polarized.c), read over ℝ, for every table content `T`, every real argument and every
error slot (non-full where an error has to be stored).

* `closed_form_<f>` (7): the generated function meets the textbook specification of Spec/Scatter.lean: for
  `E > 0` it returns exactly the textbook value and leaves the slot alone — in particular no checked division
  of the translated code divides by zero and the logarithm of `CS_KN` has a positive argument (no `nf`/`ub`
  abort) —, for `E ≤ 0` it stores exactly one error and returns 0.
* the analytic theorems are stated on `valueOf (Gen.f …)`, the number the generated function returns.

Two places where the property text is *not* true as written, each with a proved witness:
* `DCSP_Thoms` is only `≥ 0`: `DCSP_Thoms(π/2, 0) = 0` (`dcsp_thoms_zero_witness`);
* `MomentTransf` is signed, **odd** in θ and 2π-**anti**periodic (period 4π): it is neither even nor
  2π-periodic (`momenttransf_not_even_witness`, `momenttransf_not_periodic_witness`); its absolute value is.

Two modelling remarks on `CS_KN`:
* the translated code carries the header's `PI` as the double literal `3.141592653589793` (`Spec.PI_lit`), not
  `π`; the theorems that compare `CS_KN` with an integral therefore have the factor `π / PI_lit`, and
  `pi_lit_close` bounds it by `1 ± 1e-15`;
* `CS_KN` has two branches (scattering.c:237-257): for `a = E/mc² < 0.02` the Taylor polynomial of degree 11 of the
  Klein–Nishina bracket (the closed form cancels catastrophically in doubles there: relative error `~eps/a³`), the
  closed form from there on.  The closed-form branch *is* the solid-angle integral of `DCS_KN`
  (`cs_kn_is_integral_exact`); the polynomial branch is within `1e-16` of it, relative
  (`cs_kn_is_integral`, from the remainder bound `KNS.ser_close` of Lemmas/KNSeries.lean).  Both branches are
  `≤` the Thomson total (`cs_kn_le_thomson`) and tend to it (`cs_kn_tendsto_thomson`).

What ℝ cannot show: rounding.  The driver measures the deviation of the library from these real-number values.
-/
namespace Xrl
namespace C12
open Spec KN Real
open scoped Topology

variable (T : Tables ℝ) (E θ φ : ℝ) (error : Slot)

/-! ## The generated code equals the textbook form; errors exactly for `E ≤ 0` -/

theorem closed_form_DCS_Thoms : Meets (Gen.DCS_Thoms T θ error) error (Spec.DCS_Thoms θ) :=
  value_DCS_Thoms T θ error

theorem closed_form_DCSP_Thoms : Meets (Gen.DCSP_Thoms T θ φ error) error (Spec.DCSP_Thoms θ φ) :=
  value_DCSP_Thoms T θ φ error

/-- split on the energy guard; `E ≤ 0`: one error stored; `E > 0`: the `value_<f>` lemma -/
macro "c12_closed" f:ident s:ident v:term : tactic =>
  `(tactic| (
    unfold $s
    by_cases hE : E ≤ (0.0 : ℝ)
    · simp only [hE, if_true, Meets]
      unfold $f
      simp only [hE, if_true, setErr_notFull (by assumption), bind_ok, pure_eq_ok]
      apply fails_mk' <;> decide
    · simp only [hE, if_false, Meets, Returns]
      exact $v (by norm_num at hE; exact hE)))

section closed
variable (he : error.isFull = false)
include he

theorem closed_form_DCS_KN : Meets (Gen.DCS_KN T E θ error) error (Spec.DCS_KN E θ) := by
  c12_closed Gen.DCS_KN Spec.DCS_KN (value_DCS_KN T E θ error)

theorem closed_form_DCSP_KN : Meets (Gen.DCSP_KN T E θ φ error) error (Spec.DCSP_KN E θ φ) := by
  c12_closed Gen.DCSP_KN Spec.DCSP_KN (value_DCSP_KN T E θ φ error)

theorem closed_form_CS_KN : Meets (Gen.CS_KN T E error) error (Spec.CS_KN E) := by
  c12_closed Gen.CS_KN Spec.CS_KN (value_CS_KN T E error)

theorem closed_form_ComptonEnergy : Meets (Gen.ComptonEnergy T E θ error) error (Spec.ComptonEnergy E θ) := by
  c12_closed Gen.ComptonEnergy Spec.ComptonEnergy (value_ComptonEnergy T E θ error)

theorem closed_form_MomentTransf : Meets (Gen.MomentTransf T E θ error) error (Spec.MomentTransf E θ) := by
  c12_closed Gen.MomentTransf Spec.MomentTransf (value_MomentTransf T E θ error)

/-- non-positive energy is an error in all five functions that take an energy -/
theorem nonpositive_energy_fails (hE : E ≤ 0) :
    Fails (Gen.DCS_KN T E θ error) error ∧ Fails (Gen.DCSP_KN T E θ φ error) error ∧
    Fails (Gen.CS_KN T E error) error ∧ Fails (Gen.ComptonEnergy T E θ error) error ∧
    Fails (Gen.MomentTransf T E θ error) error := by
  have hE' : E ≤ (0.0 : ℝ) := by norm_num; exact hE
  have h1 := closed_form_DCS_KN T E θ error he
  have h2 := closed_form_DCSP_KN T E θ φ error he
  have h3 := closed_form_CS_KN T E error he
  have h4 := closed_form_ComptonEnergy T E θ error he
  have h5 := closed_form_MomentTransf T E θ error he
  simp only [Spec.DCS_KN, Spec.DCSP_KN, Spec.CS_KN, Spec.ComptonEnergy, Spec.MomentTransf, hE', if_true,
    Meets] at h1 h2 h3 h4 h5
  exact ⟨h1, h2, h3, h4, h5⟩

end closed

example : Fails (Gen.CS_KN T (-1) Slot.empty) Slot.empty :=
  (nonpositive_energy_fails T (-1) 0 0 Slot.empty rfl (by norm_num)).2.2.1

/-- positive energy: a value is returned (no error, no abort) and the slot is untouched — any slot -/
theorem positive_energy_returns (hE : 0 < E) :
    Returns (Gen.DCS_KN T E θ error) (valueOf (Gen.DCS_KN T E θ error)) error ∧
    Returns (Gen.DCSP_KN T E θ φ error) (valueOf (Gen.DCSP_KN T E θ φ error)) error ∧
    Returns (Gen.CS_KN T E error) (valueOf (Gen.CS_KN T E error)) error ∧
    Returns (Gen.ComptonEnergy T E θ error) (valueOf (Gen.ComptonEnergy T E θ error)) error ∧
    Returns (Gen.MomentTransf T E θ error) (valueOf (Gen.MomentTransf T E θ error)) error := by
  simp only [Returns, value_DCS_KN T E θ error hE, value_DCSP_KN T E θ φ error hE, value_CS_KN T E error hE,
    value_ComptonEnergy T E θ error hE, value_MomentTransf T E θ error hE, valueOf_ok, and_self]

example : Returns (Gen.CS_KN T 10 Slot.null) (valueOf (Gen.CS_KN T 10 Slot.null)) Slot.null :=
  (positive_energy_returns T 10 0 0 Slot.null (by norm_num)).2.2.1

/-! ## Positivity -/

theorem positive_DCS_Thoms : 0 < valueOf (Gen.DCS_Thoms T θ error) := by
  rw [value_DCS_Thoms]; exact thomsV_pos θ

/-- only `≥ 0`: see `dcsp_thoms_zero_witness` -/
theorem nonneg_DCSP_Thoms : 0 ≤ valueOf (Gen.DCSP_Thoms T θ φ error) := by
  rw [value_DCSP_Thoms]; exact thomsPV_nonneg θ φ

/-- scattering at right angles along the polarisation direction: the polarised Thomson cross section vanishes,
so strict positivity of `DCSP_Thoms` is false -/
theorem dcsp_thoms_zero_witness : valueOf (Gen.DCSP_Thoms T (π / 2) 0 error) = 0 := by
  rw [value_DCSP_Thoms]; exact thomsPV_zero

theorem dcsp_thoms_not_strictly_positive : ¬ ∀ θ φ : ℝ, 0 < valueOf (Gen.DCSP_Thoms T θ φ error) := by
  intro h
  have := h (π / 2) 0
  rw [dcsp_thoms_zero_witness] at this
  exact lt_irrefl _ this

theorem positive_DCS_KN (hE : 0 < E) : 0 < valueOf (Gen.DCS_KN T E θ error) := by
  rw [value_DCS_KN T E θ error hE]; exact knV_pos E θ hE

example : 0 < valueOf (Gen.DCS_KN T 59.54 (π / 3) Slot.empty) :=
  positive_DCS_KN T _ _ _ (by norm_num)

/-- strictly positive although the polarised Thomson limit is not: `k/k₀ + k₀/k > 2` as soon as `cos θ ≠ 1` -/
theorem positive_DCSP_KN (hE : 0 < E) : 0 < valueOf (Gen.DCSP_KN T E θ φ error) := by
  rw [value_DCSP_KN T E θ φ error hE]; exact knPV_pos E θ φ hE

example : 0 < valueOf (Gen.DCSP_KN T 1e-6 (π / 2) 0 Slot.empty) :=
  positive_DCSP_KN T _ _ _ _ (by norm_num)

/-- closed-form branch: the integral of a continuous integrand that is positive on `(0, π)`; polynomial branch:
`4/3 − 8a/3 ≤` the polynomial (alternating, decreasing terms for `a < 0.02`) -/
theorem positive_CS_KN (hE : 0 < E) : 0 < valueOf (Gen.CS_KN T E error) := by
  rw [value_CS_KN T E error hE]; exact csknV_pos E hE

example : 0 < valueOf (Gen.CS_KN T 1e6 Slot.null) := positive_CS_KN T _ _ (by norm_num)

example : 0 < valueOf (Gen.CS_KN T 1e-6 Slot.null) := positive_CS_KN T _ _ (by norm_num)

theorem positive_ComptonEnergy (hE : 0 < E) : 0 < valueOf (Gen.ComptonEnergy T E θ error) := by
  rw [value_ComptonEnergy T E θ error hE]; exact comptonV_pos E θ hE

example : 0 < valueOf (Gen.ComptonEnergy T 100 π Slot.empty) := positive_ComptonEnergy T _ _ _ (by norm_num)

/-- the scattered photon never has more energy than the incident one -/
theorem compton_energy_le (hE : 0 < E) : valueOf (Gen.ComptonEnergy T E θ error) ≤ E := by
  rw [value_ComptonEnergy T E θ error hE, valueOf_ok, comptonV_real]
  have := den_inv_le_one hE.le θ
  nlinarith

/-- `MomentTransf` is *signed* (`E/hc · sin(θ/2)`): non-negative exactly where `sin(θ/2) ≥ 0`, e.g. on
`[0, 2π]`, and negative at `θ = −π`. -/
theorem nonneg_MomentTransf (hE : 0 < E) (h0 : 0 ≤ θ) (h1 : θ ≤ 2 * π) :
    0 ≤ valueOf (Gen.MomentTransf T E θ error) := by
  rw [value_MomentTransf T E θ error hE, valueOf_ok, momentV_real]
  have : 0 ≤ sin (θ / 2) := sin_nonneg_of_nonneg_of_le_pi (by linarith) (by linarith)
  have := KEV2ANGST_pos
  positivity

example : 0 ≤ valueOf (Gen.MomentTransf T 10 π Slot.empty) :=
  nonneg_MomentTransf T _ _ _ (by norm_num) pi_pos.le (by linarith [pi_pos])

theorem momenttransf_negative_witness (hE : 0 < E) : valueOf (Gen.MomentTransf T E (-π) error) < 0 := by
  rw [value_MomentTransf T E (-π) error hE, valueOf_ok, momentV_real, neg_div, sin_neg, sin_pi_div_two]
  have := div_pos hE KEV2ANGST_pos
  linarith

example : valueOf (Gen.MomentTransf T 10 (-π) Slot.empty) < 0 := momenttransf_negative_witness T _ _ (by norm_num)

/-! ## Klein–Nishina against Thomson -/

theorem kn_le_thomson (hE : 0 < E) :
    valueOf (Gen.DCS_KN T E θ error) ≤ valueOf (Gen.DCS_Thoms T θ error) := by
  rw [value_DCS_KN T E θ error hE, value_DCS_Thoms]; exact knV_le_thomsV E θ hE

example : valueOf (Gen.DCS_KN T 1000 2 Slot.empty) ≤ valueOf (Gen.DCS_Thoms T 2 Slot.empty) :=
  kn_le_thomson T _ _ _ (by norm_num)

/-- low-energy limit, from the right (the function is an error at and below 0) -/
theorem kn_tendsto_thomson :
    Filter.Tendsto (fun E => valueOf (Gen.DCS_KN T E θ error)) (𝓝[>] 0)
      (𝓝 (valueOf (Gen.DCS_Thoms T θ error))) := by
  rw [value_DCS_Thoms, valueOf_ok]
  refine (knV_tendsto θ).congr' ?_
  filter_upwards [self_mem_nhdsWithin] with E hE
  rw [value_DCS_KN T E θ error hE, valueOf_ok]

/-- `DCS_KN = r²/2 · (k/k₀)² (k/k₀ + k₀/k − sin²θ)` with `k/k₀ = ComptonEnergy(E, θ) / E` -/
theorem kn_eq_thomson_form (hE : 0 < E) :
    valueOf (Gen.DCS_KN T E θ error) =
      Hdr.RE2 / 2 * (valueOf (Gen.ComptonEnergy T E θ error) / E) ^ 2 *
        (valueOf (Gen.ComptonEnergy T E θ error) / E + E / valueOf (Gen.ComptonEnergy T E θ error)
          - sin θ ^ 2) := by
  rw [value_DCS_KN T E θ error hE, value_ComptonEnergy T E θ error hE]
  exact knV_thomson_form E θ hE

example : valueOf (Gen.DCS_KN T 20 1 Slot.empty) =
      Hdr.RE2 / 2 * (valueOf (Gen.ComptonEnergy T 20 1 Slot.empty) / 20) ^ 2 *
        (valueOf (Gen.ComptonEnergy T 20 1 Slot.empty) / 20 + 20 / valueOf (Gen.ComptonEnergy T 20 1 Slot.empty)
          - sin 1 ^ 2) :=
  kn_eq_thomson_form T _ _ _ (by norm_num)

/-! ## The unpolarised cross sections are the azimuthal averages of the polarised ones (real `π`) -/

theorem unpolarised_is_average_thomson :
    (2 * π)⁻¹ * ∫ φ in (0:ℝ)..(2 * π), valueOf (Gen.DCSP_Thoms T θ φ error)
      = valueOf (Gen.DCS_Thoms T θ error) := by
  simp only [value_DCSP_Thoms, value_DCS_Thoms, valueOf_ok]
  exact avg_thomsPV θ

theorem unpolarised_is_average_kn (hE : 0 < E) :
    (2 * π)⁻¹ * ∫ φ in (0:ℝ)..(2 * π), valueOf (Gen.DCSP_KN T E θ φ error)
      = valueOf (Gen.DCS_KN T E θ error) := by
  simp only [fun φ => value_DCSP_KN T E θ φ error hE, value_DCS_KN T E θ error hE, valueOf_ok]
  exact avg_knPV E θ

example : (2 * π)⁻¹ * ∫ φ in (0:ℝ)..(2 * π), valueOf (Gen.DCSP_KN T 17.4 (π / 4) φ Slot.empty)
      = valueOf (Gen.DCS_KN T 17.4 (π / 4) Slot.empty) :=
  unpolarised_is_average_kn T _ _ _ (by norm_num)

/-! ## The total Klein–Nishina cross section is the solid-angle integral of the differential one -/

/-- the integral the property speaks of is positive -/
theorem kn_integral_pos (hE : 0 < E) :
    0 < ∫ θ in (0:ℝ)..π, valueOf (Gen.DCS_KN T E θ error) * (2 * π * sin θ) := by
  simp only [fun θ => value_DCS_KN T E θ error hE, valueOf_ok]
  exact knV_integral_pos E hE

/-- **for every `E > 0`**: `(π / PI_lit) · CS_KN(E)` is within `1e-16` (relative) of
`∫₀^π DCS_KN(E,θ) · 2π sin θ dθ`.  For `E/mc² ≥ 0.02` the difference is `0` (`cs_kn_is_integral_exact`); below,
it is the truncation error of the degree-11 series. -/
theorem cs_kn_is_integral (hE : 0 < E) :
    |π / Spec.PI_lit * valueOf (Gen.CS_KN T E error)
        - ∫ θ in (0:ℝ)..π, valueOf (Gen.DCS_KN T E θ error) * (2 * π * sin θ)|
      ≤ 1e-16 * ∫ θ in (0:ℝ)..π, valueOf (Gen.DCS_KN T E θ error) * (2 * π * sin θ) := by
  simp only [fun θ => value_DCS_KN T E θ error hE, value_CS_KN T E error hE, valueOf_ok]
  exact csknV_integral_close E hE

example : |π / Spec.PI_lit * valueOf (Gen.CS_KN T 1 Slot.empty)
        - ∫ θ in (0:ℝ)..π, valueOf (Gen.DCS_KN T 1 θ Slot.empty) * (2 * π * sin θ)|
      ≤ 1e-16 * ∫ θ in (0:ℝ)..π, valueOf (Gen.DCS_KN T 1 θ Slot.empty) * (2 * π * sin θ) :=
  cs_kn_is_integral T _ _ (by norm_num)

/-- closed-form branch: `∫₀^π DCS_KN(E,θ) · 2π sin θ dθ = (π / PI_lit) · CS_KN(E)`, exact up to the header's
16-digit `PI` -/
theorem cs_kn_is_integral_exact (hE : 0 < E) (ha : 0.02 ≤ E / Hdr.MEC2) :
    ∫ θ in (0:ℝ)..π, valueOf (Gen.DCS_KN T E θ error) * (2 * π * sin θ)
      = π / Spec.PI_lit * valueOf (Gen.CS_KN T E error) := by
  simp only [fun θ => value_DCS_KN T E θ error hE, value_CS_KN T E error hE, valueOf_ok]
  exact csknV_is_integral_high E hE (by norm_num at ha ⊢; exact ha)

example : ∫ θ in (0:ℝ)..π, valueOf (Gen.DCS_KN T 511 θ Slot.empty) * (2 * π * sin θ)
      = π / Spec.PI_lit * valueOf (Gen.CS_KN T 511 Slot.empty) :=
  cs_kn_is_integral_exact T _ _ (by norm_num) (by rw [MEC2_real]; norm_num)

/-- the literal the translated code uses for `PI` is `π` to 1 part in 10¹⁵ -/
theorem pi_lit_close : |π / (Spec.PI_lit : ℝ) - 1| < 1e-15 := KN.pi_lit_close'

/-- … and the 32-digit header literal differs from that double by less than `2.4e-16` -/
theorem pi_lit_vs_hdr : |(Hdr.PI : ℝ) - Spec.PI_lit| < 2.4e-16 := KN.pi_lit_vs_hdr'

/-- relative deviation of the returned value from the integral, *without* the factor `π / PI_lit`:
`< 1.2e-15` of the integral (`1e-15` from the literal `PI`, `1e-16` from the series) -/
theorem cs_kn_integral_rel_error (hE : 0 < E) :
    |(∫ θ in (0:ℝ)..π, valueOf (Gen.DCS_KN T E θ error) * (2 * π * sin θ)) - valueOf (Gen.CS_KN T E error)|
      < 1.2e-15 * ∫ θ in (0:ℝ)..π, valueOf (Gen.DCS_KN T E θ error) * (2 * π * sin θ) := by
  have h := cs_kn_is_integral T E error hE
  have hv := positive_CS_KN T E error hE
  have hI := kn_integral_pos T E error hE
  have hq := pi_lit_close
  generalize (∫ θ in (0:ℝ)..π, valueOf (Gen.DCS_KN T E θ error) * (2 * π * sin θ)) = I at h hI ⊢
  generalize valueOf (Gen.CS_KN T E error) = v at h hv ⊢
  generalize π / (Spec.PI_lit : ℝ) = q at h hq
  rw [abs_le] at h
  rw [abs_lt] at hq ⊢
  have h1 : (q - 1) * v < 1e-15 * v := mul_lt_mul_of_pos_right hq.2 hv
  have h2 : -1e-15 * v < (q - 1) * v := mul_lt_mul_of_pos_right hq.1 hv
  obtain ⟨h3, h4⟩ := h
  norm_num at h1 h2 h3 h4 ⊢
  constructor <;> linarith

example : |(∫ θ in (0:ℝ)..π, valueOf (Gen.DCS_KN T 5 θ Slot.empty) * (2 * π * sin θ))
      - valueOf (Gen.CS_KN T 5 Slot.empty)|
      < 1.2e-15 * ∫ θ in (0:ℝ)..π, valueOf (Gen.DCS_KN T 5 θ Slot.empty) * (2 * π * sin θ) :=
  cs_kn_integral_rel_error T _ _ (by norm_num)

/-! ## … never exceeds the Thomson total and tends to it as `E → 0⁺` -/

/-- the Thomson total cross section: `∫₀^π DCS_Thoms(θ) · 2π sin θ dθ = 8π r²/3` -/
theorem thomson_total :
    ∫ θ in (0:ℝ)..π, valueOf (Gen.DCS_Thoms T θ error) * (2 * π * sin θ) = 8 * π / 3 * Hdr.RE2 := by
  simp only [value_DCS_Thoms, valueOf_ok]
  exact thomsV_integral

/-- the integrated differential Klein–Nishina cross section never exceeds the Thomson total -/
theorem kn_integral_le_thomson (hE : 0 < E) :
    ∫ θ in (0:ℝ)..π, valueOf (Gen.DCS_KN T E θ error) * (2 * π * sin θ)
      ≤ ∫ θ in (0:ℝ)..π, valueOf (Gen.DCS_Thoms T θ error) * (2 * π * sin θ) := by
  simp only [fun θ => value_DCS_KN T E θ error hE, value_DCS_Thoms, valueOf_ok]
  exact knV_integral_le_thomson E hE

/-- **`CS_KN` never exceeds the Thomson total** — no tolerance: the closed-form branch because it is the
integral of `DCS_KN ≤ DCS_Thoms`, the polynomial branch because the polynomial is `≤ 4/3` for `0 ≤ a ≤ 0.02`.
With the real `π` (first clause, against `∫ DCS_Thoms`) and in the code's own constant (second clause). -/
theorem cs_kn_le_thomson (hE : 0 < E) :
    π / Spec.PI_lit * valueOf (Gen.CS_KN T E error)
        ≤ ∫ θ in (0:ℝ)..π, valueOf (Gen.DCS_Thoms T θ error) * (2 * π * sin θ) ∧
    valueOf (Gen.CS_KN T E error) ≤ 2 * Spec.PI_lit * Hdr.RE2 * (4 / 3) := by
  simp only [value_CS_KN T E error hE, value_DCS_Thoms, valueOf_ok]
  exact ⟨csknV_le_thomson_integral E hE, csknV_le_thomson E hE⟩

example : valueOf (Gen.CS_KN T 1e-3 Slot.empty) ≤ 2 * Spec.PI_lit * Hdr.RE2 * (4 / 3) :=
  (cs_kn_le_thomson T _ _ (by norm_num)).2

example : valueOf (Gen.CS_KN T 100 Slot.empty) ≤ 2 * Spec.PI_lit * Hdr.RE2 * (4 / 3) :=
  (cs_kn_le_thomson T _ _ (by norm_num)).2

/-- low-energy limit, from the right: `CS_KN(E) → 2 · PI_lit · r² · 4/3`, i.e. `(π / PI_lit) · CS_KN(E)` tends to
the Thomson total `∫ DCS_Thoms = 8π r²/3` -/
theorem cs_kn_tendsto_thomson :
    Filter.Tendsto (fun E => π / Spec.PI_lit * valueOf (Gen.CS_KN T E error)) (𝓝[>] 0)
      (𝓝 (∫ θ in (0:ℝ)..π, valueOf (Gen.DCS_Thoms T θ error) * (2 * π * sin θ))) ∧
    Filter.Tendsto (fun E => valueOf (Gen.CS_KN T E error)) (𝓝[>] 0)
      (𝓝 (2 * Spec.PI_lit * Hdr.RE2 * (4 / 3))) := by
  have h2 : Filter.Tendsto (fun E => valueOf (Gen.CS_KN T E error)) (𝓝[>] 0)
      (𝓝 (2 * Spec.PI_lit * Hdr.RE2 * (4 / 3))) := by
    refine csknV_tendsto.congr' ?_
    filter_upwards [self_mem_nhdsWithin] with E hE
    rw [value_CS_KN T E error hE, valueOf_ok]
  refine ⟨?_, h2⟩
  have h1 := h2.const_mul (π / Spec.PI_lit)
  rw [thomson_total]
  have e : π / Spec.PI_lit * (2 * Spec.PI_lit * Hdr.RE2 * (4 / 3)) = 8 * π / 3 * Hdr.RE2 := by
    have := PI_lit_pos.ne'
    field_simp; ring
  rw [e] at h1
  exact h1

/-- … and so does the integral of the differential form itself, independently of `CS_KN`: it is `2π r² ·` the
closed-form bracket, which differs from its Taylor polynomial by at most `29009 a¹² + 278528 a¹⁵`
(`KNS.ser_sub_brk_le`) -/
theorem kn_integral_tendsto_thomson :
    Filter.Tendsto (fun E => ∫ θ in (0:ℝ)..π, valueOf (Gen.DCS_KN T E θ error) * (2 * π * sin θ)) (𝓝[>] 0)
      (𝓝 (∫ θ in (0:ℝ)..π, valueOf (Gen.DCS_Thoms T θ error) * (2 * π * sin θ))) := by
  rw [thomson_total]
  refine knV_integral_tendsto.congr' ?_
  filter_upwards [self_mem_nhdsWithin] with E hE
  simp only [fun θ => value_DCS_KN T E θ error hE, valueOf_ok]

/-! ## Compton energy -/

theorem compton_energy_antitone (hE : 0 < E) :
    StrictAntiOn (fun θ => valueOf (Gen.ComptonEnergy T E θ error)) (Set.Icc 0 π) := by
  simp only [fun θ => value_ComptonEnergy T E θ error hE, valueOf_ok]
  exact comptonV_strictAntiOn E hE

example : valueOf (Gen.ComptonEnergy T 100 2 Slot.empty) < valueOf (Gen.ComptonEnergy T 100 1 Slot.empty) :=
  compton_energy_antitone T 100 Slot.empty (by norm_num)
    ⟨by norm_num, by linarith [pi_gt_three]⟩ ⟨by norm_num, by linarith [pi_gt_three]⟩ (by norm_num)

theorem compton_energy_at_zero (hE : 0 < E) : valueOf (Gen.ComptonEnergy T E 0 error) = E := by
  rw [value_ComptonEnergy T E 0 error hE]; exact comptonV_zero E

theorem compton_energy_at_pi (hE : 0 < E) :
    valueOf (Gen.ComptonEnergy T E π error) = E / (1 + 2 * E / Hdr.MEC2) := by
  rw [value_ComptonEnergy T E π error hE]; exact comptonV_pi E

example : valueOf (Gen.ComptonEnergy T 100 π Slot.empty) = 100 / (1 + 2 * 100 / Hdr.MEC2) :=
  compton_energy_at_pi T _ _ (by norm_num)

/-! ## Symmetry: even and 2π-periodic in the angles

Stated on the whole outcome (value *and* error behaviour), for every energy and every slot. -/

theorem even_periodic_DCS_Thoms :
    Gen.DCS_Thoms T (-θ) error = Gen.DCS_Thoms T θ error ∧
    Gen.DCS_Thoms T (θ + 2 * π) error = Gen.DCS_Thoms T θ error := by
  constructor <;> (unfold Gen.DCS_Thoms; simp only [XNum.cos, cos_neg, cos_add_two_pi])

theorem even_periodic_DCS_KN :
    Gen.DCS_KN T E (-θ) error = Gen.DCS_KN T E θ error ∧
    Gen.DCS_KN T E (θ + 2 * π) error = Gen.DCS_KN T E θ error := by
  constructor <;> (unfold Gen.DCS_KN; simp only [XNum.cos, cos_neg, cos_add_two_pi])

theorem even_periodic_ComptonEnergy :
    Gen.ComptonEnergy T E (-θ) error = Gen.ComptonEnergy T E θ error ∧
    Gen.ComptonEnergy T E (θ + 2 * π) error = Gen.ComptonEnergy T E θ error := by
  constructor <;> (unfold Gen.ComptonEnergy; simp only [XNum.cos, cos_neg, cos_add_two_pi])

theorem even_periodic_DCSP_Thoms :
    Gen.DCSP_Thoms T (-θ) φ error = Gen.DCSP_Thoms T θ φ error ∧
    Gen.DCSP_Thoms T (θ + 2 * π) φ error = Gen.DCSP_Thoms T θ φ error ∧
    Gen.DCSP_Thoms T θ (-φ) error = Gen.DCSP_Thoms T θ φ error ∧
    Gen.DCSP_Thoms T θ (φ + 2 * π) error = Gen.DCSP_Thoms T θ φ error := by
  refine ⟨?_, ?_, ?_, ?_⟩ <;>
    (unfold Gen.DCSP_Thoms
     simp only [XNum.cos, XNum.sin, cos_neg, sin_neg, cos_add_two_pi, sin_add_two_pi, neg_mul_neg])

theorem even_periodic_DCSP_KN :
    Gen.DCSP_KN T E (-θ) φ error = Gen.DCSP_KN T E θ φ error ∧
    Gen.DCSP_KN T E (θ + 2 * π) φ error = Gen.DCSP_KN T E θ φ error ∧
    Gen.DCSP_KN T E θ (-φ) error = Gen.DCSP_KN T E θ φ error ∧
    Gen.DCSP_KN T E θ (φ + 2 * π) error = Gen.DCSP_KN T E θ φ error := by
  refine ⟨?_, ?_, ?_, ?_⟩ <;>
    (unfold Gen.DCSP_KN
     simp only [XNum.cos, XNum.sin, cos_neg, sin_neg, cos_add_two_pi, sin_add_two_pi, mul_neg, neg_mul, neg_neg])

/-- `MomentTransf` is **odd** in θ and changes sign under θ ↦ θ + 2π (period 4π) — not even, not 2π-periodic -/
theorem odd_antiperiodic_MomentTransf (hE : 0 < E) :
    valueOf (Gen.MomentTransf T E (-θ) error) = - valueOf (Gen.MomentTransf T E θ error) ∧
    valueOf (Gen.MomentTransf T E (θ + 2 * π) error) = - valueOf (Gen.MomentTransf T E θ error) ∧
    valueOf (Gen.MomentTransf T E (θ + 4 * π) error) = valueOf (Gen.MomentTransf T E θ error) := by
  simp only [fun θ => value_MomentTransf T E θ error hE, valueOf_ok, momentV_real]
  refine ⟨?_, ?_, ?_⟩
  · rw [neg_div, sin_neg]; ring
  · have : (θ + 2 * π) / 2 = θ / 2 + π := by ring
    rw [this, sin_add_pi]; ring
  · have : (θ + 4 * π) / 2 = θ / 2 + 2 * π := by ring
    rw [this, sin_add_two_pi]

/-- what *is* even and 2π-periodic is the magnitude -/
theorem even_periodic_abs_MomentTransf (hE : 0 < E) :
    |valueOf (Gen.MomentTransf T E (-θ) error)| = |valueOf (Gen.MomentTransf T E θ error)| ∧
    |valueOf (Gen.MomentTransf T E (θ + 2 * π) error)| = |valueOf (Gen.MomentTransf T E θ error)| := by
  obtain ⟨h1, h2, _⟩ := odd_antiperiodic_MomentTransf T E θ error hE
  rw [h1, h2, abs_neg]; exact ⟨rfl, rfl⟩

theorem momenttransf_not_even_witness (hE : 0 < E) :
    valueOf (Gen.MomentTransf T E (-π) error) ≠ valueOf (Gen.MomentTransf T E π error) := by
  have h1 := momenttransf_negative_witness T E error hE
  have h2 := nonneg_MomentTransf T E π error hE pi_pos.le (by linarith [pi_pos])
  linarith

theorem momenttransf_not_periodic_witness (hE : 0 < E) :
    valueOf (Gen.MomentTransf T E (-π + 2 * π) error) ≠ valueOf (Gen.MomentTransf T E (-π) error) := by
  have e : -π + 2 * π = π := by ring
  rw [e]
  exact (momenttransf_not_even_witness T E error hE).symm

example : valueOf (Gen.MomentTransf T 10 (-π) Slot.empty) ≠ valueOf (Gen.MomentTransf T 10 π Slot.empty) :=
  momenttransf_not_even_witness T _ _ (by norm_num)

/-! ## Ranges: the bounds that hold at every angle -/

/-- the magnitude of the momentum transfer never exceeds `E/hc` (reached at `θ = π`) -/
theorem abs_MomentTransf_le (hE : 0 < E) :
    |valueOf (Gen.MomentTransf T E θ error)| ≤ E / Hdr.KEV2ANGST := by
  rw [value_MomentTransf T E θ error hE, valueOf_ok, momentV_real, abs_mul]
  have h0 : 0 ≤ E / Hdr.KEV2ANGST := (div_pos hE KEV2ANGST_pos).le
  rw [abs_of_nonneg h0]
  have h1 : |sin (θ / 2)| ≤ 1 := abs_sin_le_one _
  nlinarith

theorem momenttransf_at_pi (hE : 0 < E) :
    valueOf (Gen.MomentTransf T E π error) = E / Hdr.KEV2ANGST := by
  rw [value_MomentTransf T E π error hE, valueOf_ok, momentV_real, sin_pi_div_two, mul_one]

example : |valueOf (Gen.MomentTransf T 10 1 Slot.empty)| ≤ 10 / Hdr.KEV2ANGST :=
  abs_MomentTransf_le T _ _ _ (by norm_num)

/-- `MomentTransf` increases strictly with the scattering angle on `[-π, π]` (so on the physical range `[0, π]`) -/
theorem momenttransf_strictMono (hE : 0 < E) :
    StrictMonoOn (fun θ => valueOf (Gen.MomentTransf T E θ error)) (Set.Icc (-π) π) := by
  simp only [fun θ => value_MomentTransf T E θ error hE, valueOf_ok, momentV_real]
  intro a ha b hb hab
  have hk : 0 < E / Hdr.KEV2ANGST := div_pos hE KEV2ANGST_pos
  have hs : sin (a / 2) < sin (b / 2) :=
    strictMonoOn_sin ⟨by linarith [ha.1], by linarith [ha.2]⟩ ⟨by linarith [hb.1], by linarith [hb.2]⟩
      (by linarith)
  exact mul_lt_mul_of_pos_left hs hk

example : valueOf (Gen.MomentTransf T 10 1 Slot.empty) < valueOf (Gen.MomentTransf T 10 2 Slot.empty) :=
  momenttransf_strictMono T 10 Slot.empty (by norm_num)
    ⟨by linarith [pi_gt_three], by linarith [pi_gt_three]⟩ ⟨by linarith [pi_gt_three], by linarith [pi_gt_three]⟩
    (by norm_num)

/-- at every angle (not only on `[0, π]`) the scattered photon keeps at least the back-scatter energy
`E / (1 + 2E/mc²)` -/
theorem compton_energy_ge_backscatter (hE : 0 < E) :
    E / (1 + 2 * E / Hdr.MEC2) ≤ valueOf (Gen.ComptonEnergy T E θ error) := by
  rw [value_ComptonEnergy T E θ error hE, valueOf_ok, comptonV_real, div_eq_mul_inv]
  have ha : 0 < E / Hdr.MEC2 := div_pos hE MEC2_pos
  have hd : den E θ ≤ 1 + 2 * E / Hdr.MEC2 := by
    unfold den
    have : -1 ≤ cos θ := neg_one_le_cos θ
    have e : 2 * E / Hdr.MEC2 = 2 * (E / Hdr.MEC2) := by ring
    rw [e]; nlinarith
  have hp := den_pos hE.le θ
  exact mul_le_mul_of_nonneg_left (inv_anti₀ hp hd) hE.le

example : 100 / (1 + 2 * 100 / Hdr.MEC2) ≤ valueOf (Gen.ComptonEnergy T 100 7 Slot.empty) :=
  compton_energy_ge_backscatter T _ _ _ (by norm_num)

/-- the Thomson differential cross section stays within `[r²/2, r²]` at every angle, the polarised one within
`[0, r²]`; hence (`kn_le_thomson`) no Klein–Nishina differential value exceeds `r²` either -/
theorem dcs_thoms_range :
    Hdr.RE2 / 2 ≤ valueOf (Gen.DCS_Thoms T θ error) ∧ valueOf (Gen.DCS_Thoms T θ error) ≤ Hdr.RE2 := by
  rw [value_DCS_Thoms, valueOf_ok, thomsV_real]
  have h0 : 0 ≤ cos θ ^ 2 := sq_nonneg _
  have h1 : cos θ ^ 2 ≤ 1 := by have := sin_sq_add_cos_sq θ; nlinarith [sq_nonneg (sin θ)]
  have := RE2_pos
  constructor <;> nlinarith

theorem dcsp_thoms_le : valueOf (Gen.DCSP_Thoms T θ φ error) ≤ Hdr.RE2 := by
  rw [value_DCSP_Thoms, valueOf_ok, thomsPV_real]
  have h0 : 0 ≤ sin θ ^ 2 * cos φ ^ 2 := mul_nonneg (sq_nonneg _) (sq_nonneg _)
  have := RE2_pos
  nlinarith

theorem dcs_kn_le_re2 (hE : 0 < E) : valueOf (Gen.DCS_KN T E θ error) ≤ Hdr.RE2 :=
  (kn_le_thomson T E θ error hE).trans (dcs_thoms_range T θ error).2

example : valueOf (Gen.DCS_KN T 1000 2 Slot.empty) ≤ Hdr.RE2 := dcs_kn_le_re2 T _ _ _ (by norm_num)

end C12
end Xrl
