import Xrl.Lemmas.Meets
import Xrl.Props.C01
import Xrl.Props.C10
import Xrl.Spec.Auger
import Xrl.Gen.Fns
/-!
# C11 — Auger yields and rates are the documented derivation of the raw tables

About the build-time functions of src/pr_data.c (machine-translated like the run-time API): the values they
compute are what `prdata` prints into the run-time tables `Auger_Yields` / `Auger_Rates`, which the public
`AugerYield` / `AugerRate` look up (C01: `lookup_spec_AugerYield`, `lookup_spec_AugerRate`).
-/
namespace Xrl
namespace C11
open Spec

set_option linter.unusedSimpArgs false
set_option linter.unusedVariables false

variable (T : Tables ℝ) (Z : Int)

theorem fluorYield_null (s : Int) : Gen.FluorYield T Z s Slot.null = Except.ok (valOr0 (Spec.FluorYield T Z s), Slot.null) :=
  C10.meets_null (C01.lookup_spec_FluorYield T Z s Slot.null rfl) (by unfold Spec.FluorYield; exact lookup2_ne_any)

theorem cosKron_null (t : Int) : Gen.CosKronTransProb T Z t Slot.null = Except.ok (valOr0 (Spec.CosKronTransProb T Z t), Slot.null) :=
  C10.meets_null (C01.lookup_spec_CosKronTransProb T Z t Slot.null rfl) (by unfold Spec.CosKronTransProb; exact lookup2_ne_any)

/-- Auger yield = 1 − ω − Σ Coster–Kronig probabilities of the shell when ω is tabulated, else 0 -/
theorem auger_yield_spec (s : Int) : Gen.AugerYield_prdata T Z s = Except.ok (augerYield T Z s) := by
  unfold Gen.AugerYield_prdata augerYield zOk
  simp only [fluorYield_null, cosKron_null, bind_ok, pure_eq_ok, Hdr.ZMAX, Hdr.M5_SHELL]
  by_cases hZ : Z > 120 ∨ Z < 1
  · have : ¬ (1 ≤ Z ∧ Z ≤ 120) := by omega
    simp [hZ, this]
  · have hZ' : 1 ≤ Z ∧ Z ≤ 120 := by omega
    by_cases hs : s < 0 ∨ s > 8
    · have : ¬ (0 ≤ s ∧ s ≤ 8) := by omega
      simp [hZ, hZ', hs, this]
    · have hs' : 0 ≤ s ∧ s ≤ 8 := by omega
      simp only [hZ, hs, hZ', hs', if_false, decide_true, true_and, if_true, and_self]
      norm_num
      by_cases hw : valOr0 (Spec.FluorYield T Z s) = 0
      · simp [hw]
      · simp only [hw, if_false]
        have : s = 0 ∨ s = 1 ∨ s = 2 ∨ s = 3 ∨ s = 4 ∨ s = 5 ∨ s = 6 ∨ s = 7 ∨ s = 8 := by omega
        rcases this with h | h | h | h | h | h | h | h | h <;> subst h <;>
          simp [lookupList, Hdr.ck_of_shell, List.find?, List.foldl]


/-- one shell of `net_total_spec`: prune the branches of the other shells first, then evaluate the reads -/
macro "c11_net" : tactic =>
  `(tactic| (
    unfold Gen.AugerYield2_prdata
    simp only [↓reduceIte, Int.reduceEq, Int.reduceLT, Int.reduceLE, ‹¬ (_ > (120:Int) ∨ _ < (1:Int))›, Int.reduceGT, or_self]
    simp only [rd2, ‹(0:Int) ≤ _ ∧ _ < (121:Int)›, true_and, Int.reduceLT, Int.reduceLE, and_self, ↓reduceIte, bind_ok, pure_eq_ok]
    simp only [Nat.cast_ofNat, Int.reduceLT, (‹(0:Int) ≤ _ ∧ _ < (121:Int)›).2, and_self, ↓reduceIte, bind_ok, Int.reduceToNat, pure_eq_ok]
    unfold netTotal zOk rawTotal rawRate
    simp only [Hdr.ZMAX, Hdr.M5_SHELL, ‹(1:Int) ≤ _ ∧ _ ≤ (120:Int)›, decide_true, Int.reduceLE, and_self, ↓reduceIte, lookupList, Hdr.auger_ck_of_shell,
      List.find?, Int.reduceEq, decide_true, decide_false, Option.map, Option.getD, List.foldl, Int.reduceToNat]))

section perShell
variable (hZ' : 1 ≤ Z ∧ Z ≤ 120) (hZ : ¬ (Z > 120 ∨ Z < 1)) (hb : 0 ≤ Z ∧ Z < 121)
include hZ' hZ hb
set_option maxRecDepth 16384
theorem net_total_0 : Gen.AugerYield2_prdata T Z 0 = Except.ok (netTotal T Z 0) := by c11_net
theorem net_total_1 : Gen.AugerYield2_prdata T Z 1 = Except.ok (netTotal T Z 1) := by c11_net
theorem net_total_2 : Gen.AugerYield2_prdata T Z 2 = Except.ok (netTotal T Z 2) := by c11_net
theorem net_total_3 : Gen.AugerYield2_prdata T Z 3 = Except.ok (netTotal T Z 3) := by c11_net
theorem net_total_4 : Gen.AugerYield2_prdata T Z 4 = Except.ok (netTotal T Z 4) := by c11_net
theorem net_total_5 : Gen.AugerYield2_prdata T Z 5 = Except.ok (netTotal T Z 5) := by c11_net
theorem net_total_6 : Gen.AugerYield2_prdata T Z 6 = Except.ok (netTotal T Z 6) := by c11_net
theorem net_total_7 : Gen.AugerYield2_prdata T Z 7 = Except.ok (netTotal T Z 7) := by c11_net
theorem net_total_8 : Gen.AugerYield2_prdata T Z 8 = Except.ok (netTotal T Z 8) := by c11_net
end perShell

set_option maxRecDepth 16384 in
/-- net non-radiative total = raw total − Σ raw rates of the shell's Coster–Kronig-type transitions
(the lists are derived from the Auger macro names) -/
theorem net_total_spec (s : Int) : Gen.AugerYield2_prdata T Z s = Except.ok (netTotal T Z s) := by
  by_cases hZ : Z > 120 ∨ Z < 1
  · have : ¬ (1 ≤ Z ∧ Z ≤ 120) := by omega
    unfold Gen.AugerYield2_prdata netTotal zOk
    simp only [↓reduceIte, hZ, Hdr.ZMAX, this, decide_false, Bool.false_eq_true, false_and, pure_eq_ok]
  · have hZ' : 1 ≤ Z ∧ Z ≤ 120 := by omega
    have hb : 0 ≤ Z ∧ Z < 121 := by omega
    by_cases hs : s < 0 ∨ s > 8
    · have : ¬ (0 ≤ s ∧ s ≤ 8) := by omega
      unfold Gen.AugerYield2_prdata netTotal
      simp only [↓reduceIte, hZ, hs, Hdr.M5_SHELL, this, and_false, pure_eq_ok]
    · have : s = 0 ∨ s = 1 ∨ s = 2 ∨ s = 3 ∨ s = 4 ∨ s = 5 ∨ s = 6 ∨ s = 7 ∨ s = 8 := by omega
      rcases this with h | h | h | h | h | h | h | h | h <;> subst h
      · exact net_total_0 T Z hZ' hZ hb
      · exact net_total_1 T Z hZ' hZ hb
      · exact net_total_2 T Z hZ' hZ hb
      · exact net_total_3 T Z hZ' hZ hb
      · exact net_total_4 T Z hZ' hZ hb
      · exact net_total_5 T Z hZ' hZ hb
      · exact net_total_6 T Z hZ' hZ hb
      · exact net_total_7 T Z hZ' hZ hb
      · exact net_total_8 T Z hZ' hZ hb

end C11
end Xrl
