import Xrl.Lemmas.Meets
import Xrl.Props.C01
import Xrl.Props.C10
import Xrl.Spec.Auger
import Xrl.Gen.F_pr_data
/-!
# C11 — Auger yields and rates are the documented derivation of the raw tables

About the build-time functions of src/pr_data.c (machine-translated like the run-time API): the values they
compute are what `prdata` prints into the run-time tables `Auger_Yields` / `Auger_Rates`, which the public
`AugerYield` / `AugerRate` look up (C01: `lookup_spec_AugerYield`, `lookup_spec_AugerRate`).
-/
namespace Xrl
namespace C11
open Spec

set_option linter.unusedSimpArgs false
set_option linter.unusedVariables false

variable (T : Tables ℝ) (Z : Int)

theorem fluorYield_null (s : Int) : Gen.FluorYield T Z s Slot.null = Except.ok (valOr0 (Spec.FluorYield T Z s), Slot.null) :=
  C10.meets_null (C01.lookup_spec_FluorYield T Z s Slot.null rfl) (by unfold Spec.FluorYield; exact lookup2_ne_any)

theorem cosKron_null (t : Int) : Gen.CosKronTransProb T Z t Slot.null = Except.ok (valOr0 (Spec.CosKronTransProb T Z t), Slot.null) :=
  C10.meets_null (C01.lookup_spec_CosKronTransProb T Z t Slot.null rfl) (by unfold Spec.CosKronTransProb; exact lookup2_ne_any)

/-- Auger yield = 1 − ω − Σ Coster–Kronig probabilities of the shell when ω is tabulated, else 0 -/
theorem auger_yield_spec (s : Int) : Gen.AugerYield_prdata T Z s = Except.ok (augerYield T Z s) := by
  unfold Gen.AugerYield_prdata augerYield zOk
  simp only [fluorYield_null, cosKron_null, bind_ok, pure_eq_ok, Hdr.ZMAX, Hdr.M5_SHELL]
  by_cases hZ : Z > 120 ∨ Z < 1
  · have : ¬ (1 ≤ Z ∧ Z ≤ 120) := by omega
    simp [hZ, this]
  · have hZ' : 1 ≤ Z ∧ Z ≤ 120 := by omega
    by_cases hs : s < 0 ∨ s > 8
    · have : ¬ (0 ≤ s ∧ s ≤ 8) := by omega
      simp [hZ, hZ', hs, this]
    · have hs' : 0 ≤ s ∧ s ≤ 8 := by omega
      simp only [hZ, hs, hZ', hs', if_false, decide_true, true_and, if_true, and_self]
      norm_num
      by_cases hw : valOr0 (Spec.FluorYield T Z s) = 0
      · simp [hw]
      · simp only [hw, if_false]
        have : s = 0 ∨ s = 1 ∨ s = 2 ∨ s = 3 ∨ s = 4 ∨ s = 5 ∨ s = 6 ∨ s = 7 ∨ s = 8 := by omega
        rcases this with h | h | h | h | h | h | h | h | h <;> subst h <;>
          simp [lookupList, Hdr.ck_of_shell, List.find?, List.foldl]


/-- one shell of `net_total_spec`: prune the branches of the other shells first, then evaluate the reads -/
macro "c11_net" : tactic =>
  `(tactic| (
    unfold Gen.AugerYield2_prdata
    simp only [↓reduceIte, Int.reduceEq, Int.reduceLT, Int.reduceLE, ‹¬ (_ > (120:Int) ∨ _ < (1:Int))›, Int.reduceGT, or_self]
    simp only [rd2, ‹(0:Int) ≤ _ ∧ _ < (121:Int)›, true_and, Int.reduceLT, Int.reduceLE, and_self, ↓reduceIte, bind_ok, pure_eq_ok]
    simp only [Nat.cast_ofNat, Int.reduceLT, (‹(0:Int) ≤ _ ∧ _ < (121:Int)›).2, and_self, ↓reduceIte, bind_ok, Int.reduceToNat, pure_eq_ok]
    unfold netTotal zOk rawTotal rawRate
    simp only [Hdr.ZMAX, Hdr.M5_SHELL, ‹(1:Int) ≤ _ ∧ _ ≤ (120:Int)›, decide_true, Int.reduceLE, and_self, ↓reduceIte, lookupList, Hdr.auger_ck_of_shell,
      List.find?, Int.reduceEq, decide_true, decide_false, Option.map, Option.getD, List.foldl, Int.reduceToNat]))

section perShell
variable (hZ' : 1 ≤ Z ∧ Z ≤ 120) (hZ : ¬ (Z > 120 ∨ Z < 1)) (hb : 0 ≤ Z ∧ Z < 121)
include hZ' hZ hb
set_option maxRecDepth 16384
theorem net_total_0 : Gen.AugerYield2_prdata T Z 0 = Except.ok (netTotal T Z 0) := by c11_net
theorem net_total_1 : Gen.AugerYield2_prdata T Z 1 = Except.ok (netTotal T Z 1) := by c11_net
theorem net_total_2 : Gen.AugerYield2_prdata T Z 2 = Except.ok (netTotal T Z 2) := by c11_net
theorem net_total_3 : Gen.AugerYield2_prdata T Z 3 = Except.ok (netTotal T Z 3) := by c11_net
theorem net_total_4 : Gen.AugerYield2_prdata T Z 4 = Except.ok (netTotal T Z 4) := by c11_net
theorem net_total_5 : Gen.AugerYield2_prdata T Z 5 = Except.ok (netTotal T Z 5) := by c11_net
theorem net_total_6 : Gen.AugerYield2_prdata T Z 6 = Except.ok (netTotal T Z 6) := by c11_net
theorem net_total_7 : Gen.AugerYield2_prdata T Z 7 = Except.ok (netTotal T Z 7) := by c11_net
theorem net_total_8 : Gen.AugerYield2_prdata T Z 8 = Except.ok (netTotal T Z 8) := by c11_net
end perShell

set_option maxRecDepth 16384 in
/-- net non-radiative total = raw total − Σ raw rates of the shell's Coster–Kronig-type transitions
(the lists are derived from the Auger macro names) -/
theorem net_total_spec (s : Int) : Gen.AugerYield2_prdata T Z s = Except.ok (netTotal T Z s) := by
  by_cases hZ : Z > 120 ∨ Z < 1
  · have : ¬ (1 ≤ Z ∧ Z ≤ 120) := by omega
    unfold Gen.AugerYield2_prdata netTotal zOk
    simp only [↓reduceIte, hZ, Hdr.ZMAX, this, decide_false, Bool.false_eq_true, false_and, pure_eq_ok]
  · have hZ' : 1 ≤ Z ∧ Z ≤ 120 := by omega
    have hb : 0 ≤ Z ∧ Z < 121 := by omega
    by_cases hs : s < 0 ∨ s > 8
    · have : ¬ (0 ≤ s ∧ s ≤ 8) := by omega
      unfold Gen.AugerYield2_prdata netTotal
      simp only [↓reduceIte, hZ, hs, Hdr.M5_SHELL, this, and_false, pure_eq_ok]
    · have : s = 0 ∨ s = 1 ∨ s = 2 ∨ s = 3 ∨ s = 4 ∨ s = 5 ∨ s = 6 ∨ s = 7 ∨ s = 8 := by omega
      rcases this with h | h | h | h | h | h | h | h | h <;> subst h
      · exact net_total_0 T Z hZ' hZ hb
      · exact net_total_1 T Z hZ' hZ hb
      · exact net_total_2 T Z hZ' hZ hb
      · exact net_total_3 T Z hZ' hZ hb
      · exact net_total_4 T Z hZ' hZ hb
      · exact net_total_5 T Z hZ' hZ hb
      · exact net_total_6 T Z hZ' hZ hb
      · exact net_total_7 T Z hZ' hZ hb
      · exact net_total_8 T Z hZ' hZ hb


theorem netTotal_call (s : Int) : Gen.AugerYield2_prdata T Z s = Except.ok (netTotal T Z s) := net_total_spec T Z s

omit T Z in
theorem augerInit_bucket (a : Int) (h0 : 0 ≤ a) :
    augerInit a = (if a < 240 then 0 else if a < 443 then 1 else if a < 611 then 2 else if a < 746 then 3
      else if a < 850 then 4 else if a < 925 then 5 else if a < 973 then 6 else 7) := by
  unfold augerInit
  simp only [Hdr.auger_first_of_shell, List.foldl]
  split_ifs <;> omega

/-- the condition the generated code tests (the 351 `case` labels of src/pr_data.c, as runs) -/
def GenCK (a : Int) : Prop :=
  (240 ≤ a ∧ a ≤ 299) ∨ (327 ≤ a ∧ a ≤ 328) ∨ (356 ≤ a ∧ a ≤ 357) ∨ (385 ≤ a ∧ a ≤ 386) ∨ (414 ≤ a ∧ a ≤ 415) ∨
  (443 ≤ a ∧ a ≤ 471) ∨ a = 499 ∨ a = 527 ∨ a = 555 ∨ a = 583 ∨ (746 ≤ a ∧ a ≤ 995)

omit T Z in
theorem isCKAuger_iff (a : Int) : isCKAuger a = true ↔ GenCK a := by
  unfold isCKAuger GenCK
  simp only [Hdr.auger_ck_runs, List.any, Bool.or_false, Bool.or_eq_true, decide_eq_true_eq]
  constructor <;> intro h <;> omega

theorem auger_rate_inrange (a : Int) (hZ' : 1 ≤ Z ∧ Z ≤ 120) (ha' : 0 ≤ a ∧ a < 996) :
    Gen.AugerRate_prdata T Z a = Except.ok (augerRate T Z a) := by
  have hZ : ¬ (Z > 120 ∨ Z < 1) := by omega
  have hb : 0 ≤ Z ∧ Z < 121 := by omega
  have ha : ¬ (a < 0 ∨ a > 995) := by omega
  have hi := augerInit_bucket a ha'.1
  have key : ∀ y : ℝ, ¬ y < (1.0e-8 : ℝ) → ¬ deq y (0.0 : ℝ) := by
    intro y hy hd
    rw [deq_real] at hd
    norm_num at hy hd
    rw [hd] at hy; norm_num at hy
  unfold Gen.AugerRate_prdata augerRate zOk rawRate
  simp only [↓reduceIte, hZ, ha, Hdr.ZMAX, Hdr.AUGERNUM, hZ', ha', decide_true, and_self, hi]
  simp only [net_total_spec, bind_ok, pure_eq_ok, rd2, ddiv, hb, ha', and_self, true_and, Nat.cast_ofNat, ↓reduceIte]
  by_cases hck : isCKAuger a = true
  · have hg := (isCKAuger_iff a).mp hck
    unfold GenCK at hg
    rw [if_pos hg, if_pos hck]
  · have hg := fun h => hck ((isCKAuger_iff a).mpr h)
    unfold GenCK at hg
    rw [if_neg hg, if_neg hck]
    by_cases hr : deq (T.Auger_Transition_Individual Z.toNat a.toNat) (0.0 : ℝ)
    · rw [if_pos hr, if_pos hr]
    · rw [if_neg hr, if_neg hr]
      have fin : ∀ y : ℝ, (if y < (1.0e-8:ℝ) then (Except.ok (0.0:ℝ) : M ℝ) else if deq y (0.0:ℝ) then throw (Abort.nf "div0")
            else Except.ok (T.Auger_Transition_Individual Z.toNat a.toNat / y)) =
          Except.ok (if y < (1.0e-8:ℝ) then (0.0:ℝ) else T.Auger_Transition_Individual Z.toNat a.toNat / y) := by
        intro y
        by_cases hy : y < (1.0e-8:ℝ)
        · simp only [hy, ↓reduceIte]
        · simp only [hy, key y hy, ↓reduceIte]
      by_cases b1 : a < 240
      · simp only [b1, ↓reduceIte]; exact fin _
      by_cases b2 : a < 443
      · simp only [b1, b2, ↓reduceIte]; exact fin _
      by_cases b3 : a < 611
      · simp only [b1, b2, b3, ↓reduceIte]; exact fin _
      by_cases b4 : a < 746
      · simp only [b1, b2, b3, b4, ↓reduceIte]; exact fin _
      by_cases b5 : a < 850
      · simp only [b1, b2, b3, b4, b5, ↓reduceIte]; exact fin _
      by_cases b6 : a < 925
      · simp only [b1, b2, b3, b4, b5, b6, ↓reduceIte]; exact fin _
      by_cases b7 : a < 973
      · simp only [b1, b2, b3, b4, b5, b6, b7, ↓reduceIte]; exact fin _
      · simp only [b1, b2, b3, b4, b5, b6, b7, ↓reduceIte]; exact fin _

/-- **Auger rate** = raw rate / net non-radiative total of its initial shell; 0 ("unavailable") for
Coster–Kronig-type transitions, untabulated transitions, a net total below 1e-8, and arguments out of range -/
theorem auger_rate_spec (a : Int) : Gen.AugerRate_prdata T Z a = Except.ok (augerRate T Z a) := by
  by_cases hZ : Z > 120 ∨ Z < 1
  · have : ¬ (1 ≤ Z ∧ Z ≤ 120) := by omega
    unfold Gen.AugerRate_prdata augerRate zOk
    simp only [↓reduceIte, hZ, Hdr.ZMAX, this, decide_false, Bool.false_eq_true, false_and, pure_eq_ok]
  · have hZ' : 1 ≤ Z ∧ Z ≤ 120 := by omega
    by_cases ha : a < 0 ∨ a > 995
    · have : ¬ (0 ≤ a ∧ a < 996) := by omega
      unfold Gen.AugerRate_prdata augerRate
      simp only [↓reduceIte, hZ, ha, Hdr.AUGERNUM, this, and_false, pure_eq_ok]
    · exact auger_rate_inrange T Z a hZ' (by omega)

/-- the three decay channels of a sub-shell partition unity (whenever the Auger yield is computed at all) -/
theorem yield_partition (s : Int) (hs : 0 ≤ s ∧ s ≤ 8) (hZ : 1 ≤ Z ∧ Z ≤ 120)
    (hw : valOr0 (Spec.FluorYield T Z s) ≠ 0) :
    valOr0 (Spec.FluorYield T Z s) +
      ((lookupList Hdr.ck_of_shell s).map (fun t => valOr0 (Spec.CosKronTransProb T Z t))).sum + augerYield T Z s = 1 := by
  unfold augerYield zOk
  have hz : decide (1 ≤ Z ∧ Z ≤ Hdr.ZMAX) = true := by simp [Hdr.ZMAX, hZ]
  have hs' : 0 ≤ s ∧ s ≤ Hdr.M5_SHELL := by simpa [Hdr.M5_SHELL] using hs
  simp only [hz, hs', and_self, true_and, if_true]
  have hw' : ¬ deq (valOr0 (Spec.FluorYield T Z s)) (0.0 : ℝ) := by rw [deq_real]; norm_num; exact hw
  simp only [hw', if_false]
  generalize lookupList Hdr.ck_of_shell s = l
  generalize valOr0 (Spec.FluorYield T Z s) = w
  have : ∀ (l : List Int) (x : ℝ), l.foldl (fun acc t => acc - valOr0 (Spec.CosKronTransProb T Z t)) x =
      x - (l.map (fun t => valOr0 (Spec.CosKronTransProb T Z t))).sum := by
    intro l
    induction l with
    | nil => intro x; simp
    | cons t l ih => intro x; simp only [List.foldl_cons, List.map_cons, List.sum_cons, ih]; ring
  rw [this]
  norm_num

end C11
end Xrl
