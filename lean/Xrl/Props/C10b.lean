import Xrl.Props.C09
import Xrl.Spec.LBeta
import Xrl.Spec.Invariants
/-!
# C10 (L-beta) — the energy of the L-beta group
-/
namespace Xrl
namespace C10
open Spec

set_option linter.unusedSimpArgs false
set_option linter.unusedVariables false

/-! ## the static table `lb_pairs` of fluor_lines.c against the header names -/

/-- **the table `lb_pairs` (fluor_lines.c:32-46, emitted as `Static.lb_pairs_*`) lists exactly the lines named
`LB1 … LB17`, `L3N6`, `L3N7`, each with the shell its IUPAC name starts with** -/
theorem lb_members_are_the_names :
    Static.lb_pairs_line_list = Spec.lbEnergyMembers ∧
    Static.lb_pairs_shell_list = Spec.lbEnergyMembers.filterMap Spec.lineShell ∧
    Static.lb_pairs_line_list.zip Static.lb_pairs_shell_list = Spec.lbPairs ∧
    Spec.lbPairs.length = 13 := by decide

/-- the explicit alias list is the generated one: every `LB<n>` alias of the header, then `L3N6`, `L3N7` -/
theorem lb_members_are_the_aliases :
    Spec.lbEnergyMembers = Hdr.group_LB ++ [Hdr.L3N6_LINE, Hdr.L3N7_LINE] ∧ Spec.lbEnergyMembers = Spec.lbMembersKissel := by
  decide

set_option maxRecDepth 100000 in
/-- the member shells recomputed from the macro names alone (first letters of the IUPAC name carrying the value) -/
theorem lb_shells_by_name :
    Spec.lbEnergyMembers.map Spec.lineShell = Spec.lbEnergyMembers.map Spec.lineShellByName := by decide +kernel

/-! ## the callees of the L-beta loop, called without an error slot -/

section callees
variable (T : Tables ℝ) (Z : Int)

theorem findDoublet_plain (line : Int) (hp : Plain line) : findDoublet line = none := by
  obtain ⟨p0, p1, p2, p3, d1, d2, d3, d4, d5, d6, d7⟩ := hp
  have e1 : ¬ (-43 = line) := fun h => d1 h.symm
  have e2 : ¬ (-49 = line) := fun h => d2 h.symm
  have e3 : ¬ (-55 = line) := fun h => d3 h.symm
  have e4 : ¬ (-81 = line) := fun h => d4 h.symm
  have e5 : ¬ (-102 = line) := fun h => d5 h.symm
  have e6 : ¬ (-108 = line) := fun h => d6 h.symm
  have e7 : ¬ (-111 = line) := fun h => d7 h.symm
  simp [findDoublet, Hdr.doublets, List.find?, e1, e2, e3, e4, e5, e6, e7]

/-- the specification of a plain macro is the single-line lookup (also for an invalid `Z`: both fail) -/
theorem specLineEnergy_plain (line : Int) (hp : Plain line) : Spec.LineEnergy T Z line = singleEnergy T Z line := by
  have hf := findDoublet_plain line hp
  obtain ⟨p0, p1, p2, p3, _⟩ := hp
  unfold Spec.LineEnergy
  simp only [Hdr.KA_LINE, Hdr.KB_LINE, Hdr.LA_LINE, Hdr.LB_LINE, p0, p1, p2, p3, if_false, hf]
  by_cases hz : zOk Z = true
  · simp [hz]
  · have hz' : zOk Z = false := by simpa using hz
    simp [hz', singleEnergy]

theorem specLineEnergy_L3O45 : Spec.LineEnergy T Z (-102) = if zOk Z = false then .fails else composed T Z (-101) (-103) := by
  unfold Spec.LineEnergy
  simp [Hdr.KA_LINE, Hdr.KB_LINE, Hdr.LA_LINE, Hdr.LB_LINE, findDoublet, Hdr.doublets, List.find?]

theorem lb_composed_ne_any (l1 l2 : Int) : composed T Z l1 l2 ≠ .any := by
  unfold composed wmean
  simp only []
  split_ifs <;> simp

/-- the doublet slot `L3O45 = LB5`, at any fuel ≥ 3 -/
theorem line_energy_L3O45 (f : Nat) (error : Slot) (he : error.isFull = false) :
    Meets (Gen.LineEnergy_fuel (f + 3) T Z (-102) error) error (Spec.LineEnergy T Z (-102)) := by
  rw [specLineEnergy_L3O45, Gen.LineEnergy_fuel]
  by_cases hz : zOk Z = true
  · have hZ' : 1 ≤ Z ∧ Z ≤ 120 := by
      have := hz; simp only [zOk, Hdr.ZMAX] at this; exact of_decide_eq_true this
    have hZ : ¬ (Z < 1 ∨ 120 < Z) := by omega
    have hc := composed_spec T Z error he f (-101) (-103) (plain_dec _ (by decide)) (plain_dec _ (by decide))
    simp [hZ, hz]
    rcases Meets.cases hc with ⟨v, hx, hr⟩ | ⟨hx, e, h1, h2, hr⟩ | ha
    · simp [hx, hr, Meets, Returns]
    · simp [hx, hr, Meets]; xrl_finish
    · exact absurd ha (lb_composed_ne_any T Z _ _)
  · have hz' : zOk Z = false := by simpa using hz
    have hZ : Z < 1 ∨ 120 < Z := by
      have := hz'; simp only [zOk, Hdr.ZMAX] at this; have := of_decide_eq_false this; omega
    simp [hz', hZ, setErr_notFull he, Meets]
    xrl_finish

/-- what the members of `lb_pairs` are for `LineEnergy`: plain macros, or the doublet slot `L3O45` -/
theorem lb_member_kind : ∀ k, k < 13 → Plain (Static.lb_pairs_line k) ∨ Static.lb_pairs_line k = -102 := by
  unfold Plain; decide

/-- `LineEnergy(Z, member, NULL)` inside the loop -/
theorem member_energy_null (f : Nat) (m : Int) (hm : Plain m ∨ m = -102) :
    Gen.LineEnergy_fuel (f + 3) T Z m Slot.null = Except.ok (lbEnergy T Z m, Slot.null) := by
  unfold lbEnergy
  rcases hm with hp | rfl
  · have := meets_null (line_energy_single T Z Slot.null rfl (f + 2) m hp) (singleEnergy_ne_any T Z m)
    rw [specLineEnergy_plain T Z m hp]; exact this
  · refine meets_null (line_energy_L3O45 T Z f Slot.null rfl) ?_
    rw [specLineEnergy_L3O45]
    split_ifs
    · simp
    · exact lb_composed_ne_any T Z _ _

/-- `CS_FluorLine(Z, line, E, NULL)` -/
theorem fluorline_null (line : Int) (E : ℝ)
    (hP : vecOkB (T.E_Photo_arr Z.toNat) (T.CS_Photo_arr Z.toNat) (T.CS_Photo_arr2 Z.toNat) (T.NE_Photo Z.toNat) = true)
    (hO : edgeOrderB T Z = true) :
    Gen.CS_FluorLine T Z line E Slot.null = Except.ok (valOr0 (Spec.CS_FluorLine T Z line E), Slot.null) :=
  meets_null (C09.fluorline_jump_spec T Z E Slot.null rfl line hP hO) (C09.fluorLine_ne_any T Z E line)

end callees

/-! ## the loop -/

/-- one iteration of the L-beta accumulation loop of fluor_lines.c: a member without an energy is skipped; otherwise
`tmp += lE·w`, `tmp1 = w`, `tmp2 += w`, `tmp3 += lE`, `tmp4 += 1` -/
noncomputable def lbStep (e w : Nat → ℝ) (st : ℝ × ℝ × ℝ × ℝ × ℝ × ℝ) (k : Nat) : M (ℝ × ℝ × ℝ × ℝ × ℝ × ℝ) :=
  if e k ≤ 0 then Except.ok (e k, st.2.1, st.2.2.1, st.2.2.2.1, st.2.2.2.2.1, st.2.2.2.2.2)
  else Except.ok (e k, st.2.1 + e k * w k, w k, st.2.2.2.1 + w k, st.2.2.2.2.1 + e k, st.2.2.2.2.2 + 1)

/-- the accumulation loop of fluor_lines.c as four folds: members without an energy are skipped -/
theorem lb_loop (e w : Nat → ℝ) (ks : List Nat) (l0 t t1 t2 t3 t4 : ℝ) :
    ∃ a b, ks.foldlM (lbStep e w) (l0, t, t1, t2, t3, t4)
      = Except.ok (a, ks.foldl (fun acc k => if e k ≤ 0 then acc else acc + e k * w k) t, b,
          ks.foldl (fun acc k => if e k ≤ 0 then acc else acc + w k) t2,
          ks.foldl (fun acc k => if e k ≤ 0 then acc else acc + e k) t3,
          ks.foldl (fun acc k => if e k ≤ 0 then acc else acc + 1) t4) := by
  induction ks generalizing l0 t t1 t2 t3 t4 with
  | nil => exact ⟨l0, t1, rfl⟩
  | cons k ks ih =>
    simp only [List.foldlM_cons, List.foldl_cons, lbStep]
    by_cases h : e k ≤ 0
    · simp only [h, if_true, bind_ok]
      exact ih _ _ _ _ _ _
    · simp only [h, if_false, bind_ok]
      exact ih _ _ _ _ _ _

theorem lb_lines_eq : Spec.lbEnergyMembers = (List.range 13).map Static.lb_pairs_line := by decide

theorem lb_shell_eq : ∀ k, k < 13 → lineShell (Static.lb_pairs_line k) = some (Static.lb_pairs_shell k) := by decide

section main
variable (T : Tables ℝ) (Z : Int) (error : Slot) (he : error.isFull = false)
include he

/-- **L-beta energy**, for every table content (of the shape the C09 theorems need), every `Z` and every non-full error
slot: `LineEnergy(Z, LB_LINE)` is `Σ E_m w_m / Σ w_m` over those of the 13 members given by the names that have an energy,
`E_m = LineEnergy(Z, m)`, `w_m = CS_FluorLine(Z, m, EdgeEnergy(Z, shell of m) + 0.1)` (0 when undefined); the plain mean of
those members' energies when they carry no weight; an error for an invalid `Z` and when no member has an energy -/
theorem line_energy_lb_spec
    (hP : vecOkB (T.E_Photo_arr Z.toNat) (T.CS_Photo_arr Z.toNat) (T.CS_Photo_arr2 Z.toNat) (T.NE_Photo Z.toNat) = true)
    (hO : edgeOrderB T Z = true) :
    Meets (Gen.LineEnergy T Z Hdr.LB_LINE error) error (Spec.LineEnergyLB T Z) := by
  unfold Gen.LineEnergy FUEL Spec.LineEnergyLB
  rw [show (6:Nat) = 5 + 1 from rfl, Gen.LineEnergy_fuel]
  simp only [Hdr.LB_LINE]
  by_cases hz : zOk Z = true
  · have hZ' : 1 ≤ Z ∧ Z ≤ 120 := by
      have := hz; simp only [zOk, Hdr.ZMAX] at this; exact of_decide_eq_true this
    have hZ : ¬ (Z < 1 ∨ Z > 120) := by omega
    have n0 : ¬ ((3:Int) = 0 ∨ (3:Int) = 1) := by omega
    have n2 : ¬ ((3:Int) = 2) := by omega
    simp only [hz, hZ, n0, n2, Bool.true_eq_false, if_false, if_true, loopM_unroll, setErr_notFull he, ddiv, deq_real, C09.lit0,
      C09.lit1]
    rw [foldlM_congr_mem (g := lbStep (fun k => lbEnergy T Z (Static.lb_pairs_line k)) (fun k => lbWeight T Z (Static.lb_pairs_line k)))]
    · obtain ⟨a, b, hw⟩ := lb_loop (fun k => lbEnergy T Z (Static.lb_pairs_line k)) (fun k => lbWeight T Z (Static.lb_pairs_line k))
        (List.range (Int.toNat (13 - 0))) 0 0 0 0 0 0
      rw [hw]
      unfold wmean
      rw [lb_lines_eq, List.foldl_map, List.foldl_map, List.foldl_map, List.foldl_map]
      simp only [bind_ok, show Int.toNat (13 - 0) = 13 from rfl, C09.lit0, C09.lit1]
      exact wmean_finish error _ _ _ _
    · intro k hk s
      have hk13 : k < 13 := by simpa using hk
      have b1 : (0:Int) ≤ 0 + (k:Int) ∧ 0 + (k:Int) < ((13:Nat):Int) := by omega
      have t1 : ((0:Int) + (k:Int)).toNat = k := by omega
      have hm : Gen.LineEnergy_fuel 5 T Z (Static.lb_pairs_line k) Slot.null =
          Except.ok (lbEnergy T Z (Static.lb_pairs_line k), Slot.null) :=
        member_energy_null T Z 2 _ (lb_member_kind k hk13)
      simp only [rd1, b1, and_self, if_true, t1, bind_ok, pure_eq_ok, hm, lbStep]
      by_cases c : lbEnergy T Z (Static.lb_pairs_line k) ≤ 0
      · simp only [c, if_true]
      · simp only [c, if_false, bind_ok, pure_eq_ok, C09.edge_null, fluorline_null T Z _ _ hP hO, lbWeight, lb_shell_eq k hk13]
  · have hz' : zOk Z = false := by simpa using hz
    have hZ : Z < 1 ∨ Z > 120 := by
      have := hz'; simp only [zOk, Hdr.ZMAX] at this; have := of_decide_eq_false this; omega
    simp only [hz', hZ, if_true, setErr_notFull he, bind_ok, pure_eq_ok, Meets]
    xrl_finish

end main

/-! ## the text: mean over the members that have an energy -/

theorem foldl_congr_mem' {β γ : Type} {f g : β → γ → β} (ks : List γ)
    (h : ∀ k ∈ ks, ∀ s, f s k = g s k) (s0 : β) : ks.foldl f s0 = ks.foldl g s0 := by
  induction ks generalizing s0 with
  | nil => rfl
  | cons k ks ih =>
    simp only [List.foldl_cons]
    rw [h k (List.mem_cons_self ..)]
    exact ih (fun k' hk' => h k' (List.mem_cons_of_mem _ hk')) _

/-- when no member without an energy carries weight, a value of the all-members reading is the value of the text's reading
(the text's reading has a value more often: it falls back to the plain mean when no weights exist) -/
theorem wmeanAll_value_wmean (ms : List Int) (e r : Int → ℝ) (h : ∀ m ∈ ms, e m ≤ 0 → r m = 0) {v : ℝ}
    (hv : wmeanAll ms e r = .value v) : wmean ms e r = .value v := by
  have h1 : ms.foldl (fun acc m => acc + r m) 0 = ms.foldl (fun acc m => if e m ≤ 0 then acc else acc + r m) 0 := by
    apply foldl_congr_mem'
    intro m hm acc
    by_cases c : e m ≤ 0
    · simp [c, h m hm c]
    · simp [c]
  have h2 : ms.foldl (fun acc m => acc + e m * r m) 0 = ms.foldl (fun acc m => if e m ≤ 0 then acc else acc + e m * r m) 0 := by
    apply foldl_congr_mem'
    intro m hm acc
    by_cases c : e m ≤ 0
    · simp [c, h m hm c]
    · simp [c]
  unfold wmeanAll at hv
  unfold wmean
  simp only [C09.lit0, h1, h2] at hv ⊢
  split_ifs at hv with hd
  rw [if_pos hd]
  exact hv

theorem lbEnergyless_nil_iff (T : Tables ℝ) (Z : Int) :
    lbEnergyless T Z = [] ↔ ∀ m ∈ lbEnergyMembers, lbEnergy T Z m ≤ 0 → lbWeight T Z m = 0 := by
  unfold lbEnergyless
  rw [List.filter_eq_nil_iff]
  constructor
  · intro h m hm he
    have := h m hm
    simpa [he, C09.lit0] using this
  · intro h m hm
    by_cases he : lbEnergy T Z m ≤ 0
    · simp [he, h m hm he, C09.lit0]
    · simp [he, C09.lit0]

/-- **the full statement of the property for L-beta** -/
def line_energy_lb_full : Prop :=
  ∀ (T : Tables ℝ) (Z : Int) (error : Slot), error.isFull = false →
    vecOkB (T.E_Photo_arr Z.toNat) (T.CS_Photo_arr Z.toNat) (T.CS_Photo_arr2 Z.toNat) (T.NE_Photo Z.toNat) = true →
    edgeOrderB T Z = true →
    Meets (Gen.LineEnergy T Z Hdr.LB_LINE error) error (Spec.LineEnergyLB T Z)

theorem line_energy_lb_full_holds : line_energy_lb_full :=
  fun T Z error he hP hO => line_energy_lb_spec T Z error he hP hO

/-! ## "hence lies between the smallest and largest member energy" -/

/-- a value of the L-beta specification lies between the smallest and the largest energy of the members that have one
(non-negative weights; `group_energy_between` of Props/C10 applied to the L-beta members) -/
theorem lb_energy_between (T : Tables ℝ) (Z : Int) (v L U : ℝ) (hw : ∀ m ∈ lbEnergyMembers, 0 ≤ lbWeight T Z m)
    (hL : ∀ m ∈ lbEnergyMembers, 0 < lbEnergy T Z m → L ≤ lbEnergy T Z m)
    (hU : ∀ m ∈ lbEnergyMembers, 0 < lbEnergy T Z m → lbEnergy T Z m ≤ U)
    (hv : Spec.LineEnergyLB T Z = .value v) : L ≤ v ∧ v ≤ U := by
  unfold Spec.LineEnergyLB at hv
  split_ifs at hv
  exact group_energy_between lbEnergyMembers _ _ v L U hw hL hU hv

/-! ## skipping the members without an energy matters: the reading that keeps them (`LineEnergyLB0`) is a different function -/

theorem lb_num_same (ms : List Int) (e r : Int → ℝ) (he : ∀ m ∈ ms, 0 ≤ e m) (n : ℝ) :
    ms.foldl (fun acc m => acc + e m * r m) n = ms.foldl (fun acc m => if e m ≤ 0 then acc else acc + e m * r m) n := by
  apply foldl_congr_mem'
  intro m hm acc
  by_cases c : e m ≤ 0
  · have : e m = 0 := le_antisymm c (he m hm)
    simp [c, this]
  · simp [c]

theorem lb_den_gap (ms : List Int) (e r : Int → ℝ) (hr : ∀ m ∈ ms, 0 ≤ r m) (d d0 : ℝ) :
    d0 - d ≤ ms.foldl (fun acc m => acc + r m) d0 - ms.foldl (fun acc m => if e m ≤ 0 then acc else acc + r m) d ∧
    ((∃ m ∈ ms, e m ≤ 0 ∧ 0 < r m) →
      d0 - d < ms.foldl (fun acc m => acc + r m) d0 - ms.foldl (fun acc m => if e m ≤ 0 then acc else acc + r m) d) := by
  induction ms generalizing d d0 with
  | nil => simp
  | cons k ks ih =>
    have hk := hr k (List.mem_cons_self ..)
    have ih' := fun d d0 => ih (fun m hm => hr m (List.mem_cons_of_mem _ hm)) d d0
    simp only [List.foldl_cons]
    by_cases c : e k ≤ 0
    · simp only [c, if_true]
      obtain ⟨a, b⟩ := ih' d (d0 + r k)
      refine ⟨by linarith, ?_⟩
      rintro ⟨m, hm, hme, hmr⟩
      rcases List.mem_cons.mp hm with rfl | hm'
      · linarith
      · have := b ⟨m, hm', hme, hmr⟩; linarith
    · simp only [c, if_false]
      obtain ⟨a, b⟩ := ih' (d + r k) (d0 + r k)
      refine ⟨by linarith, ?_⟩
      rintro ⟨m, hm, hme, hmr⟩
      rcases List.mem_cons.mp hm with rfl | hm'
      · exact absurd hme c
      · have := b ⟨m, hm', hme, hmr⟩; linarith

theorem lb_den_pos_num_pos (ms : List Int) (e r : Int → ℝ) (hr : ∀ m ∈ ms, 0 ≤ r m) (n d : ℝ)
    (h0 : 0 ≤ n ∧ 0 ≤ d ∧ (0 < d → 0 < n)) :
    0 ≤ ms.foldl (fun acc m => if e m ≤ 0 then acc else acc + r m) d ∧
    (0 < ms.foldl (fun acc m => if e m ≤ 0 then acc else acc + r m) d →
      0 < ms.foldl (fun acc m => if e m ≤ 0 then acc else acc + e m * r m) n) := by
  induction ms generalizing n d with
  | nil => exact ⟨h0.2.1, h0.2.2⟩
  | cons k ks ih =>
    have hk := hr k (List.mem_cons_self ..)
    simp only [List.foldl_cons]
    apply ih (fun m hm => hr m (List.mem_cons_of_mem _ hm))
    by_cases c : e k ≤ 0
    · simpa [c] using h0
    · simp only [c, if_false]
      have ek : 0 < e k := not_le.mp c
      have : 0 ≤ e k * r k := mul_nonneg ek.le hk
      refine ⟨by linarith [h0.1], by linarith [h0.2.1], ?_⟩
      intro hd
      rcases hk.lt_or_eq with hk' | hk'
      · have : 0 < e k * r k := mul_pos ek hk'
        linarith [h0.1]
      · rw [← hk'] at hd ⊢
        have := h0.2.2 (by linarith)
        linarith

/-- with non-negative weights: the weight sum over the members with an energy is at least its start value, and when it stays
there the weighted energy sum stays too -/
theorem lb_den_zero_num_zero (ms : List Int) (e r : Int → ℝ) (hr : ∀ m ∈ ms, 0 ≤ r m) (n d : ℝ) :
    d ≤ ms.foldl (fun acc m => if e m ≤ 0 then acc else acc + r m) d ∧
    (ms.foldl (fun acc m => if e m ≤ 0 then acc else acc + r m) d = d →
      ms.foldl (fun acc m => if e m ≤ 0 then acc else acc + e m * r m) n = n) := by
  induction ms generalizing n d with
  | nil => exact ⟨le_rfl, fun _ => rfl⟩
  | cons k ks ih =>
    have hk := hr k (List.mem_cons_self ..)
    have ih' := fun n d => ih (fun m hm => hr m (List.mem_cons_of_mem _ hm)) n d
    simp only [List.foldl_cons]
    by_cases c : e k ≤ 0
    · simp only [c, if_true]; exact ih' n d
    · simp only [c, if_false]
      obtain ⟨a, b⟩ := ih' (n + e k * r k) (d + r k)
      refine ⟨by linarith, fun h => ?_⟩
      have hk0 : r k = 0 := by linarith
      rw [hk0] at b ⊢
      simp only [mul_zero, add_zero] at b ⊢
      exact b (by rw [hk0] at h; simpa using h)

/-- the number of members with an energy and the sum of their energies: the sum is positive when the number is -/
theorem lb_cnt_pos_sum_pos (ms : List Int) (e : Int → ℝ) (s c : ℝ) (h0 : 0 ≤ s ∧ 0 ≤ c ∧ (0 < c → 0 < s)) :
    0 < ms.foldl (fun acc m => if e m ≤ 0 then acc else acc + 1) c →
      0 < ms.foldl (fun acc m => if e m ≤ 0 then acc else acc + e m) s := by
  induction ms generalizing s c with
  | nil => exact h0.2.2
  | cons k ks ih =>
    simp only [List.foldl_cons]
    apply ih
    by_cases hk : e k ≤ 0
    · simpa [hk] using h0
    · simp only [hk, if_false]
      have ek : 0 < e k := not_le.mp hk
      exact ⟨by linarith [h0.1], by linarith [h0.2.1], fun _ => by linarith [h0.1]⟩

/-- for non-negative weights a value of the group mean is positive -/
theorem wmean_value_pos (ms : List Int) (e r : Int → ℝ) (hr : ∀ m ∈ ms, 0 ≤ r m) {v : ℝ} (hv : wmean ms e r = .value v) :
    0 < v := by
  have hp := lb_den_pos_num_pos ms e r hr 0 0 ⟨le_rfl, le_rfl, fun h => h⟩
  have hc := lb_cnt_pos_sum_pos ms e 0 0 ⟨le_rfl, le_rfl, fun h => h⟩
  unfold wmean at hv
  simp only [C09.lit0, C09.lit1] at hv
  split_ifs at hv with hd hn
  · injection hv with hv; rw [← hv]; exact div_pos (hp.2 hd) hd
  · injection hv with hv; rw [← hv]; exact div_pos (hc hn) hn

/-- with non-negative energies and weights, a weighted member without an energy makes the two readings differ -/
theorem wmeanAll_ne_wmean (ms : List Int) (e r : Int → ℝ) (he : ∀ m ∈ ms, 0 ≤ e m) (hr : ∀ m ∈ ms, 0 ≤ r m)
    (hex : ∃ m ∈ ms, e m ≤ 0 ∧ 0 < r m) : wmeanAll ms e r ≠ wmean ms e r := by
  have hn := lb_num_same ms e r he 0
  have hg := (lb_den_gap ms e r hr 0 0).2 hex
  have hp := lb_den_pos_num_pos ms e r hr 0 0 ⟨le_rfl, le_rfl, fun h => h⟩
  have hz := (lb_den_zero_num_zero ms e r hr 0 0).2
  intro heq
  have hD0 : 0 < ms.foldl (fun acc m => acc + r m) 0 := by linarith [hp.1]
  have hall : wmeanAll ms e r = .value (ms.foldl (fun acc m => if e m ≤ 0 then acc else acc + e m * r m) 0 /
      ms.foldl (fun acc m => acc + r m) 0) := by
    unfold wmeanAll
    simp only [C09.lit0, hn, hD0, if_true]
  rw [hall] at heq
  have hpos := wmean_value_pos ms e r hr heq.symm
  by_cases hD : 0 < ms.foldl (fun acc m => if e m ≤ 0 then acc else acc + r m) 0
  · have hN := hp.2 hD
    have hw : wmean ms e r = .value (ms.foldl (fun acc m => if e m ≤ 0 then acc else acc + e m * r m) 0 /
        ms.foldl (fun acc m => if e m ≤ 0 then acc else acc + r m) 0) := by
      unfold wmean
      simp only [C09.lit0, hD, if_true]
    rw [hw] at heq
    injection heq with heq
    rw [div_eq_div_iff hD0.ne' hD.ne'] at heq
    have := mul_left_cancel₀ hN.ne' heq
    linarith
  · have hD' : ms.foldl (fun acc m => if e m ≤ 0 then acc else acc + r m) 0 = 0 := le_antisymm (not_lt.1 hD) hp.1
    rw [hz hD', zero_div] at hpos
    exact lt_irrefl 0 hpos

theorem composed_value_pos (T : Tables ℝ) (Z l1 l2 : Int) {v : ℝ} (h : composed T Z l1 l2 = .value v) : 0 < v :=
  wmean_value_pos [l1, l2] _ _ (fun m _ => singleRate_nonneg T Z m) h

theorem lbEnergy_nonneg (T : Tables ℝ) (Z : Int) : ∀ m ∈ lbEnergyMembers, 0 ≤ lbEnergy T Z m := by
  intro m hm
  unfold lbEnergy
  by_cases h5 : m = -102
  · subst h5
    rw [specLineEnergy_L3O45]
    split_ifs
    · simp [valOr0, C09.lit0]
    · exact valOr0_nonneg_of (fun v hv => composed_value_pos T Z _ _ hv)
  · have hp : Plain m := by
      simp only [lbEnergyMembers, List.mem_cons, List.not_mem_nil, or_false] at hm
      unfold Plain
      simp only [Hdr.LB1_LINE, Hdr.LB2_LINE, Hdr.LB3_LINE, Hdr.LB4_LINE, Hdr.LB5_LINE, Hdr.LB6_LINE, Hdr.LB7_LINE,
        Hdr.LB9_LINE, Hdr.LB10_LINE, Hdr.LB15_LINE, Hdr.LB17_LINE, Hdr.L3N6_LINE, Hdr.L3N7_LINE] at hm
      omega
    rw [specLineEnergy_plain T Z m hp]
    exact singleEnergy_nonneg T Z m

/-- for a valid `Z` and non-negative member cross sections, one member with weight but without an energy makes the sum
that keeps every member (`LineEnergyLB0`, what fluor_lines.c computed before the repair) differ from what the text says -/
theorem lb_specs_differ (T : Tables ℝ) (Z : Int) (hz : zOk Z = true) (hw : ∀ m ∈ lbEnergyMembers, 0 ≤ lbWeight T Z m)
    (hex : ∃ m ∈ lbEnergyMembers, lbEnergy T Z m ≤ 0 ∧ 0 < lbWeight T Z m) :
    Spec.LineEnergyLB0 T Z ≠ Spec.LineEnergyLB T Z := by
  unfold Spec.LineEnergyLB0 Spec.LineEnergyLB
  simp only [hz, Bool.true_eq_false, if_false]
  exact wmeanAll_ne_wmean _ _ _ (lbEnergy_nonneg T Z) hw hex

/-! ## a concrete table with a weighted member that has no energy -/

/-- one element with an L1 edge at 1 keV (jump ratio 2, yield 1), constant photo-absorption 1 cm²/g at 1.1 keV,
two L1 lines with rate 1: `L1M3 = LB3` at 2 keV and `L1M2 = LB4` at `x` keV — **without an energy** for `x = 0` -/
noncomputable def lbWit (x : ℝ) : Tables ℝ :=
  { (default : Tables ℝ) with
    EdgeEnergy_arr := fun _ s => if s = 1 then 1 else 0
    JumpFactor_arr := fun _ _ => 2
    FluorYield_arr := fun _ s => if s = 1 then 1 else 0
    RadRate_arr := fun _ j => if j = 33 ∨ j = 32 then 1 else 0
    LineEnergy_arr := fun _ j => if j = 33 then 2 else if j = 32 then x else 0
    NE_Photo := fun _ => 1
    E_Photo_arr := fun _ => ⟨1, fun _ => Real.log (((1 : ℝ) + (0.1 : ℝ)) * (1000.0 : ℝ))⟩
    CS_Photo_arr := fun _ => ⟨1, fun _ => 0⟩
    CS_Photo_arr2 := fun _ => ⟨1, fun _ => 0⟩ }

variable (x : ℝ)

theorem lbWit_edge (s : Int) (hs : 0 ≤ s ∧ s ≤ 3) : edge (lbWit x) 1 s = if s = 1 then 1 else 0 := by
  have : s ≤ 27 := by omega
  have : s = 0 ∨ s = 1 ∨ s = 2 ∨ s = 3 := by omega
  rcases this with rfl | rfl | rfl | rfl <;>
  simp [edge, Spec.EdgeEnergy, lookup2, zOk, mOk, lbWit, valOr0, Hdr.ZMAX, Hdr.K_SHELL, Hdr.SHELLNUM, C09.lit0]

theorem lbWit_fyield (s : Int) (hs : 0 ≤ s ∧ s ≤ 3) : fyield (lbWit x) 1 s = if s = 1 then 1 else 0 := by
  have : s = 0 ∨ s = 1 ∨ s = 2 ∨ s = 3 := by omega
  rcases this with rfl | rfl | rfl | rfl <;>
  simp [fyield, Spec.FluorYield, lookup2, zOk, mOk, lbWit, valOr0, Hdr.ZMAX, Hdr.K_SHELL, Hdr.SHELLNUM, C09.lit0]

theorem lbWit_jump (s : Int) (hs : 0 ≤ s ∧ s ≤ 3) : jump (lbWit x) 1 s = 2 := by
  have : s = 0 ∨ s = 1 ∨ s = 2 ∨ s = 3 := by omega
  rcases this with rfl | rfl | rfl | rfl <;>
  simp [jump, Spec.JumpFactor, lookup2, zOk, mOk, lbWit, valOr0, Hdr.ZMAX, Hdr.K_SHELL, Hdr.SHELLNUM, C09.lit0]

theorem lbWit_order : edgeOrderB (lbWit x) 1 = true := by
  rw [C09.edgeOrder_iff]
  simp [lbWit_edge, lbWit_fyield]

theorem lbWit_shape : vecOkB ((lbWit x).E_Photo_arr (1 : Int).toNat) ((lbWit x).CS_Photo_arr (1 : Int).toNat)
    ((lbWit x).CS_Photo_arr2 (1 : Int).toNat) ((lbWit x).NE_Photo (1 : Int).toNat) = true := by
  simp [vecOkB, lbWit]

/-- the photo-absorption cross section of the witness at 1.1 keV -/
theorem lbWit_photo : Spec.CS_Photo (lbWit x) 1 ((1 : ℝ) + (0.1 : ℝ)) = .value 1 := by
  have h : ¬ ((1.0e-7 : ℝ) < 0) := by norm_num
  have h1 : (0 : ℝ) < 1 + (0.1 : ℝ) := by norm_num
  simp [Spec.CS_Photo, interp, spline, knot, zOk, Hdr.ZMAX, lbWit, XNum.log, XNum.exp, h, h1, C09.lit0]

theorem lbWit_shellL1 : shellFactor (lbWit x) 1 1 ((1 : ℝ) + (0.1 : ℝ)) = .value (1 / 2) := by
  rw [C09.shellFactor_L1]
  have h1 : (1 : ℝ) < 1 + (0.1 : ℝ) := by norm_num
  simp [C09.flatL1, C09.restL1, lbWit_edge, lbWit_jump, lbWit_fyield, h1, nonzero, C09.lit0]
  norm_num

theorem lbWit_fluorShellL1 : Spec.CS_FluorShell (lbWit x) 1 1 ((1 : ℝ) + (0.1 : ℝ)) = .value (1 / 2) := by
  have h1 : (0 : ℝ) < 1 + (0.1 : ℝ) := by norm_num
  simp [Spec.CS_FluorShell, zOk, mOk, Hdr.ZMAX, Hdr.K_SHELL, Hdr.L3_SHELL, lbWit_shellL1, lbWit_photo, h1, C09.lit0]

theorem lbWeight_plain (T : Tables ℝ) (Z m s : Int) (hs : lineShell m = some s) (hm : m ≠ 0 ∧ m ≠ 1 ∧ m ≠ 2 ∧ m ≠ 3) :
    lbWeight T Z m = valOr0 (timesRate (singleRate T Z m) (Spec.CS_FluorShell T Z s (edge T Z s + (0.1 : ℝ)))) := by
  unfold lbWeight
  simp only [hs, Spec.CS_FluorLine, Hdr.LB_LINE, hm.2.2.2, if_false, radRate_plain T Z m hm]

theorem lbWit_rate (m : Int) (hm : -383 ≤ m ∧ m ≤ -1) :
    singleRate (lbWit x) 1 m = if m = -34 ∨ m = -33 then .value 1 else .fails := by
  have e1 : (-m - 1).toNat = 33 ↔ m = -34 := by omega
  have e2 : (-m - 1).toNat = 32 ↔ m = -33 := by omega
  unfold singleRate
  simp only [zOk, isLineMacro, Hdr.ZMAX, Hdr.LINENUM, rCell, lineSlot, lbWit, e1, e2, C09.lit0]
  by_cases h : m = -34 ∨ m = -33
  · simp [h, hm]
  · simp [h]

theorem lbWit_weight : ∀ m ∈ lbEnergyMembers, lbWeight (lbWit x) 1 m = if m = -34 ∨ m = -33 then 1 / 2 else 0 := by
  have sh : ∀ k, k < 13 → lineShell (lbEnergyMembers.getD k 0) = some (Static.lb_pairs_shell k) := by decide
  intro m hm
  obtain ⟨k, hk, rfl⟩ : ∃ k, k < 13 ∧ m = lbEnergyMembers.getD k 0 := by
    simp only [lbEnergyMembers, List.mem_cons, List.not_mem_nil, or_false] at hm
    rcases hm with h | h | h | h | h | h | h | h | h | h | h | h | h
    exacts [⟨0, by omega, h⟩, ⟨1, by omega, h⟩, ⟨2, by omega, h⟩, ⟨3, by omega, h⟩, ⟨4, by omega, h⟩, ⟨5, by omega, h⟩,
      ⟨6, by omega, h⟩, ⟨7, by omega, h⟩, ⟨8, by omega, h⟩, ⟨9, by omega, h⟩, ⟨10, by omega, h⟩, ⟨11, by omega, h⟩,
      ⟨12, by omega, h⟩]
  have rng : ∀ k, k < 13 → -383 ≤ lbEnergyMembers.getD k 0 ∧ lbEnergyMembers.getD k 0 ≤ -1 := by decide
  have r := rng k hk
  rw [lbWeight_plain (lbWit x) 1 _ _ (sh k hk) (by omega), lbWit_rate x _ r]
  by_cases h : lbEnergyMembers.getD k 0 = -34 ∨ lbEnergyMembers.getD k 0 = -33
  · have hs : Static.lb_pairs_shell k = 1 := by
      have : ∀ k, k < 13 → (lbEnergyMembers.getD k 0 = -34 ∨ lbEnergyMembers.getD k 0 = -33) → Static.lb_pairs_shell k = 1 := by
        decide
      exact this k hk h
    simp only [h, if_true, hs, lbWit_edge x 1 (by omega), lbWit_fluorShellL1, timesRate, valOr0]
    norm_num
  · simp only [h, if_false, timesRate, valOr0, C09.lit0]

theorem lbWit_singleEnergy (m : Int) (hm : -383 ≤ m ∧ m ≤ -1) (h16 : m ≠ -16) (h24 : m ≠ -24) :
    singleEnergy (lbWit x) 1 m = if m = -34 then .value 2 else if m = -33 ∧ 0 < x then .value x else .fails := by
  have e1 : (-m - 1).toNat = 33 ↔ m = -34 := by omega
  have e2 : (-m - 1).toNat = 32 ↔ m = -33 := by omega
  unfold singleEnergy
  simp only [firstMember, Hdr.KO_LINE, Hdr.KP_LINE, h16, h24, if_false, zOk, isLineMacro, Hdr.ZMAX, Hdr.LINENUM, eCell,
    lineSlot, lbWit, e1, e2, C09.lit0]
  by_cases h : m = -34
  · simp [h]
  · by_cases h' : m = -33
    · by_cases hx : 0 < x <;> simp [h', hx]
    · simp [h, h']

theorem lbWit_energy (hx : 0 ≤ x) :
    ∀ m ∈ lbEnergyMembers, lbEnergy (lbWit x) 1 m = if m = -34 then 2 else if m = -33 then x else 0 := by
  intro m hm
  unfold lbEnergy
  by_cases h5 : m = -102
  · subst h5
    rw [specLineEnergy_L3O45]
    simp [zOk, Hdr.ZMAX, composed, wmean, List.foldl, lbWit_singleEnergy, lbWit_rate, valOr0, C09.lit0]
  · have hp : Plain m := by
      simp only [lbEnergyMembers, List.mem_cons, List.not_mem_nil, or_false] at hm
      unfold Plain
      simp only [Hdr.LB1_LINE, Hdr.LB2_LINE, Hdr.LB3_LINE, Hdr.LB4_LINE, Hdr.LB5_LINE, Hdr.LB6_LINE, Hdr.LB7_LINE,
        Hdr.LB9_LINE, Hdr.LB10_LINE, Hdr.LB15_LINE, Hdr.LB17_LINE, Hdr.L3N6_LINE, Hdr.L3N7_LINE] at hm
      omega
    have r : -383 ≤ m ∧ m ≤ -1 ∧ m ≠ -16 ∧ m ≠ -24 := by
      simp only [lbEnergyMembers, List.mem_cons, List.not_mem_nil, or_false] at hm
      simp only [Hdr.LB1_LINE, Hdr.LB2_LINE, Hdr.LB3_LINE, Hdr.LB4_LINE, Hdr.LB5_LINE, Hdr.LB6_LINE, Hdr.LB7_LINE,
        Hdr.LB9_LINE, Hdr.LB10_LINE, Hdr.LB15_LINE, Hdr.LB17_LINE, Hdr.L3N6_LINE, Hdr.L3N7_LINE] at hm
      omega
    rw [specLineEnergy_plain (lbWit x) 1 m hp, lbWit_singleEnergy x m ⟨r.1, r.2.1⟩ r.2.2.1 r.2.2.2]
    by_cases h : m = -34
    · simp [h, valOr0]
    · by_cases h' : m = -33
      · rcases hx.lt_or_eq with hx' | hx'
        · simp [h', hx', valOr0]
        · subst hx'; simp [h', valOr0, C09.lit0]
      · simp [h, h', valOr0, C09.lit0]

theorem wmean_congr (ms : List Int) (e r e' r' : Int → ℝ) (h : ∀ m ∈ ms, e m = e' m ∧ r m = r' m) :
    wmean ms e r = wmean ms e' r' := by
  have h1 : ms.foldl (fun acc m => if e m ≤ (0.0 : ℝ) then acc else acc + r m) (0.0 : ℝ) =
      ms.foldl (fun acc m => if e' m ≤ (0.0 : ℝ) then acc else acc + r' m) (0.0 : ℝ) :=
    foldl_congr_mem' ms (fun m hm acc => by rw [(h m hm).1, (h m hm).2]) _
  have h2 : ms.foldl (fun acc m => if e m ≤ (0.0 : ℝ) then acc else acc + e m * r m) (0.0 : ℝ) =
      ms.foldl (fun acc m => if e' m ≤ (0.0 : ℝ) then acc else acc + e' m * r' m) (0.0 : ℝ) :=
    foldl_congr_mem' ms (fun m hm acc => by rw [(h m hm).1, (h m hm).2]) _
  have h3 : ms.foldl (fun acc m => if e m ≤ (0.0 : ℝ) then acc else acc + e m) (0.0 : ℝ) =
      ms.foldl (fun acc m => if e' m ≤ (0.0 : ℝ) then acc else acc + e' m) (0.0 : ℝ) :=
    foldl_congr_mem' ms (fun m hm acc => by rw [(h m hm).1]) _
  have h4 : ms.foldl (fun acc m => if e m ≤ (0.0 : ℝ) then acc else acc + (1.0 : ℝ)) (0.0 : ℝ) =
      ms.foldl (fun acc m => if e' m ≤ (0.0 : ℝ) then acc else acc + (1.0 : ℝ)) (0.0 : ℝ) :=
    foldl_congr_mem' ms (fun m hm acc => by rw [(h m hm).1]) _
  unfold wmean
  simp only [h1, h2, h3, h4]

theorem wmeanAll_congr (ms : List Int) (e r e' r' : Int → ℝ) (h : ∀ m ∈ ms, e m = e' m ∧ r m = r' m) :
    wmeanAll ms e r = wmeanAll ms e' r' := by
  have h1 : ms.foldl (fun acc m => acc + r m) (0.0 : ℝ) = ms.foldl (fun acc m => acc + r' m) (0.0 : ℝ) :=
    foldl_congr_mem' ms (fun m hm acc => by rw [(h m hm).2]) _
  have h2 : ms.foldl (fun acc m => acc + e m * r m) (0.0 : ℝ) = ms.foldl (fun acc m => acc + e' m * r' m) (0.0 : ℝ) :=
    foldl_congr_mem' ms (fun m hm acc => by rw [(h m hm).1, (h m hm).2]) _
  unfold wmeanAll
  simp only [h1, h2]

/-- on the witness: the two members weigh 1/2 each; energies 2 and `x` -/
theorem lbWit_specs (hx : 0 ≤ x) :
    Spec.LineEnergyLB (lbWit x) 1 = wmean lbEnergyMembers (fun m => if m = -34 then 2 else if m = -33 then x else 0)
      (fun m => if m = -34 ∨ m = -33 then 1 / 2 else 0) ∧
    Spec.LineEnergyLB0 (lbWit x) 1 = wmeanAll lbEnergyMembers (fun m => if m = -34 then 2 else if m = -33 then x else 0)
      (fun m => if m = -34 ∨ m = -33 then 1 / 2 else 0) := by
  unfold Spec.LineEnergyLB Spec.LineEnergyLB0
  have hz : ¬ (zOk 1 = false) := by decide
  simp only [hz, if_false]
  exact ⟨wmean_congr _ _ _ _ _ (fun m hm => ⟨lbWit_energy x hx m hm, lbWit_weight x m hm⟩),
    wmeanAll_congr _ _ _ _ _ (fun m hm => ⟨lbWit_energy x hx m hm, lbWit_weight x m hm⟩)⟩

/-- the text on the witness with `x = 0`: the only member with an energy is at 2 keV, so the group is at 2 keV -/
theorem lbWit0_text : Spec.LineEnergyLB (lbWit 0) 1 = .value 2 := by
  rw [(lbWit_specs 0 le_rfl).1]
  simp [wmean, lbEnergyMembers, Hdr.LB1_LINE, Hdr.LB2_LINE, Hdr.LB3_LINE, Hdr.LB4_LINE, Hdr.LB5_LINE,
    Hdr.LB6_LINE, Hdr.LB7_LINE, Hdr.LB9_LINE, Hdr.LB10_LINE, Hdr.LB15_LINE, Hdr.LB17_LINE, Hdr.L3N6_LINE, Hdr.L3N7_LINE,
    C09.lit0]
  norm_num

/-- the all-members reading on the same table: the energy-less member `LB4` enters with energy 0 and halves the result -/
theorem lbWit0_code : Spec.LineEnergyLB0 (lbWit 0) 1 = .value 1 := by
  rw [(lbWit_specs 0 le_rfl).2]
  simp [wmeanAll, lbEnergyMembers, Hdr.LB1_LINE, Hdr.LB2_LINE, Hdr.LB3_LINE, Hdr.LB4_LINE, Hdr.LB5_LINE,
    Hdr.LB6_LINE, Hdr.LB7_LINE, Hdr.LB9_LINE, Hdr.LB10_LINE, Hdr.LB15_LINE, Hdr.LB17_LINE, Hdr.L3N6_LINE, Hdr.L3N7_LINE,
    C09.lit0]
  norm_num

/-- **the generated `LineEnergy` on the witness returns 2 keV for L-beta**: the energy of the only member line that has
one; the weighted member `LB4` without an energy does not pull the mean to 1 keV (as `LineEnergyLB0` would) -/
theorem lbWit0_result : Gen.LineEnergy (lbWit 0) 1 Hdr.LB_LINE Slot.empty = Except.ok ((2 : ℝ), Slot.empty) := by
  have h := line_energy_lb_spec (lbWit 0) 1 Slot.empty rfl (lbWit_shape 0) (lbWit_order 0)
  rw [lbWit0_text] at h
  exact h

/-- the witness has a weighted member without an energy, `LB4 = L1M2` -/
theorem lbWit0_excluded : lbEnergyless (lbWit 0) 1 ≠ [] := by
  rw [Ne, lbEnergyless_nil_iff]
  intro h
  have := h (-33) (by decide)
  rw [lbWit_energy 0 le_rfl _ (by decide), lbWit_weight 0 _ (by decide)] at this
  norm_num at this

/-! ## the hypotheses of `line_energy_lb_spec` are satisfiable, with non-trivial results -/

theorem lbWit4_ok : lbEnergyless (lbWit 4) 1 = [] := by
  rw [lbEnergyless_nil_iff]
  intro m hm
  rw [lbWit_energy 4 (by norm_num) m hm, lbWit_weight 4 m hm]
  by_cases h : m = -34
  · simp [h]
  · by_cases h' : m = -33
    · simp [h']
    · simp [h, h']

theorem lbWit4_text : Spec.LineEnergyLB (lbWit 4) 1 = .value 3 := by
  rw [(lbWit_specs 4 (by norm_num)).1]
  simp [wmean, lbEnergyMembers, Hdr.LB1_LINE, Hdr.LB2_LINE, Hdr.LB3_LINE, Hdr.LB4_LINE, Hdr.LB5_LINE,
    Hdr.LB6_LINE, Hdr.LB7_LINE, Hdr.LB9_LINE, Hdr.LB10_LINE, Hdr.LB15_LINE, Hdr.LB17_LINE, Hdr.L3N6_LINE, Hdr.L3N7_LINE,
    C09.lit0]
  norm_num

/-- two members at 2 keV and 4 keV with equal weights: the hypotheses hold and L-beta is at 3 keV -/
example : ∃ (T : Tables ℝ) (Z : Int) (error : Slot), error.isFull = false ∧
    vecOkB (T.E_Photo_arr Z.toNat) (T.CS_Photo_arr Z.toNat) (T.CS_Photo_arr2 Z.toNat) (T.NE_Photo Z.toNat) = true ∧
    edgeOrderB T Z = true ∧ Spec.LineEnergyLB T Z = .value 3 ∧
    Gen.LineEnergy T Z Hdr.LB_LINE error = Except.ok ((3 : ℝ), error) :=
  ⟨lbWit 4, 1, Slot.empty, rfl, lbWit_shape 4, lbWit_order 4, lbWit4_text, by
    have h := line_energy_lb_spec (lbWit 4) 1 Slot.empty rfl (lbWit_shape 4) (lbWit_order 4)
    rw [lbWit4_text] at h
    exact h⟩


/-! ## "hence lies between the smallest and largest member energy": every grouped macro, at the level of the generated code -/

/-- a call that returned a non-zero number: the specification it meets has that value -/
theorem meets_returned {r : M (ℝ × Slot)} {error : Slot} {x : Expect ℝ} {v : ℝ} (h : Meets r error x) (hx : x ≠ .any)
    (hret : r = Except.ok (v, error)) (hne : v ≠ 0) : x = .value v := by
  rcases Meets.cases h with ⟨v', hv, hr⟩ | ⟨_, e, _, _, hr⟩ | ha
  · rw [hret] at hr
    have : v = v' := by injection hr with hr; exact (Prod.mk.inj hr).1
    rw [this]; exact hv
  · rw [hret] at hr
    have : v = 0 := by injection hr with hr; exact (Prod.mk.inj hr).1
    exact absurd this hne
  · exact absurd ha hx

/-- the grouped macros are the four Siegbahn groups and the seven doublets -/
theorem groupMembers_ne_nil (line : Int) (hg : groupMembers line ≠ []) :
    line = 0 ∨ line = 1 ∨ line = 2 ∨ line = 3 ∨ line = -43 ∨ line = -49 ∨ line = -55 ∨ line = -81 ∨ line = -102 ∨
      line = -108 ∨ line = -111 := by
  by_contra hn
  have hp : Plain line := by unfold Plain; omega
  apply hg
  unfold groupMembers
  simp only [Hdr.KA_LINE, Hdr.KB_LINE, Hdr.LA_LINE, Hdr.LB_LINE, hp.1, hp.2.1, hp.2.2.1, hp.2.2.2.1, if_false,
    findDoublet_plain line hp]

/-- members that are single lines: the group's own energy for the member is what the public `LineEnergy` reports for it -/
theorem memberEnergy_plain (T : Tables ℝ) (Z m : Int) (hz : zOk Z = true) (hp : Plain m) (hm : -383 ≤ m ∧ m ≤ -1)
    (h : 0 < kEnergy T Z m) : memberEnergy T Z m = kEnergy T Z m := by
  unfold memberEnergy
  rw [specLineEnergy_plain T Z m hp]
  have hk : kEnergy T Z m = eCell T Z (firstMember m) := by
    unfold kEnergy firstMember
    split_ifs <;> rfl
  have hl : isLineMacro (firstMember m) = true := by
    unfold isLineMacro firstMember
    simp only [Hdr.KO_LINE, Hdr.KP_LINE, Hdr.KO1_LINE, Hdr.KP1_LINE, Hdr.LINENUM]
    split_ifs <;> exact decide_eq_true (by omega)
  unfold singleEnergy
  rw [hk] at h ⊢
  rw [if_pos ⟨hz, hl, by rw [C09.lit0]; exact h⟩]
  rfl

theorem memberEnergy_single (T : Tables ℝ) (Z m : Int) (hp : Plain m) :
    memberEnergy T Z m = valOr0 (singleEnergy T Z m) := by
  unfold memberEnergy
  rw [specLineEnergy_plain T Z m hp]

theorem ratesNonnegAt_cell (T : Tables ℝ) (Z : Int) (h : ratesNonnegAt T Z = true) (m : Int) (hm : -383 ≤ m ∧ m ≤ -1) :
    0 ≤ rCell T Z m := by
  unfold ratesNonnegAt at h
  simp only [List.all_eq_true, List.mem_range, decide_eq_true_eq, Hdr.LINENUM] at h
  have := h (lineSlot m) (by unfold lineSlot; omega)
  rw [C09.lit0] at this
  exact this

theorem lbWeightsNonnegAt_mem (T : Tables ℝ) (Z : Int) (h : lbWeightsNonnegAt T Z = true) :
    ∀ m ∈ lbEnergyMembers, 0 ≤ lbWeight T Z m := by
  unfold lbWeightsNonnegAt at h
  simp only [List.all_eq_true, decide_eq_true_eq] at h
  intro m hm
  have := h m hm
  rw [C09.lit0] at this
  exact this

set_option hygiene false in
/-- a doublet: its two members by name, and its specification `composed` -/
macro "c10_pair" l1:term:max l2:term:max : tactic =>
  `(tactic| (
      refine ⟨$l1, $l2, plain_dec _ (by decide), plain_dec _ (by decide), by decide, ?_⟩
      unfold Spec.LineEnergy
      simp [hz, Hdr.KA_LINE, Hdr.KB_LINE, Hdr.LA_LINE, Hdr.LB_LINE, findDoublet, Hdr.doublets, List.find?]))

section between
variable (T : Tables ℝ) (Z : Int) (error : Slot) (he : error.isFull = false)
include he

/-- the specification of a grouped macro is a group mean over `groupMembers line`, with non-negative weights (under the data
hypothesis of the group) and with member energies that are, where positive, what `LineEnergy(Z, member)` reports -/
theorem group_spec (line : Int) (hg : groupMembers line ≠ []) (hd : groupInputsOkAt T Z line = true)
    (hlb : line = Hdr.LB_LINE →
      vecOkB (T.E_Photo_arr Z.toNat) (T.CS_Photo_arr Z.toNat) (T.CS_Photo_arr2 Z.toNat) (T.NE_Photo Z.toNat) = true ∧
      edgeOrderB T Z = true)
    {v : ℝ} (hret : Gen.LineEnergy T Z line error = Except.ok (v, error)) (hne : v ≠ 0) :
    ∃ e r : Int → ℝ, wmean (groupMembers line) e r = .value v ∧ (∀ m ∈ groupMembers line, 0 ≤ r m) ∧
      (∀ m ∈ groupMembers line, 0 < e m → memberEnergy T Z m = e m) := by
  by_cases hz : zOk Z = true
  swap
  · -- an invalid Z returns 0 with an error
    exfalso
    have hz' : zOk Z = false := by simpa using hz
    by_cases h3 : line = 3
    · subst h3
      have hZ : Z < 1 ∨ Z > 120 := by
        have := hz'; simp only [zOk, Hdr.ZMAX] at this; have := of_decide_eq_false this; omega
      have : Gen.LineEnergy T Z 3 error = Except.ok ((0.0 : ℝ), error.withErr ⟨1, "Z out of range"⟩) := by
        unfold Gen.LineEnergy FUEL
        rw [show (6:Nat) = 5 + 1 from rfl, Gen.LineEnergy_fuel]
        simp only [hZ, if_true, setErr_notFull he, bind_ok, pure_eq_ok]
      rw [this] at hret
      have : (0.0 : ℝ) = v := by injection hret with hret; exact (Prod.mk.inj hret).1
      rw [C09.lit0] at this
      exact hne this.symm
    · have m := line_energy_spec T Z error he line
      have hx : Spec.LineEnergy T Z line = .fails := by unfold Spec.LineEnergy; rw [if_pos hz']
      rw [hx] at m
      have := meets_returned m (by simp) hret hne
      cases this
  have hcases := groupMembers_ne_nil line hg
  by_cases h0 : line = 0
  · subst h0
    have m := line_energy_spec T Z error he 0
    have hx : Spec.LineEnergy T Z 0 = wmean Hdr.group_KA (eCell T Z) (rCell T Z) := by
      unfold Spec.LineEnergy; simp [hz, Hdr.KA_LINE]
    rw [hx] at m
    have hv := meets_returned m (by unfold wmean; simp only []; split_ifs <;> simp) hret hne
    have hr : ratesNonnegAt T Z = true := by simpa [groupInputsOkAt, Hdr.KA_LINE, Hdr.KB_LINE] using hd
    refine ⟨eCell T Z, rCell T Z, by simpa [groupMembers, Hdr.KA_LINE] using hv, ?_, ?_⟩
    · intro m hm
      have : m ∈ Hdr.group_KA := by simpa [groupMembers, Hdr.KA_LINE] using hm
      simp only [Hdr.group_KA, List.mem_cons, List.not_mem_nil, or_false] at this
      exact ratesNonnegAt_cell T Z hr m (by omega)
    · intro m hm hpos
      have hm' : m ∈ Hdr.group_KA := by simpa [groupMembers, Hdr.KA_LINE] using hm
      simp only [Hdr.group_KA, List.mem_cons, List.not_mem_nil, or_false] at hm'
      have hk : kEnergy T Z m = eCell T Z m := by
        unfold kEnergy
        rw [if_neg (by simp only [Hdr.KO_LINE]; omega), if_neg (by simp only [Hdr.KP_LINE]; omega)]
      rw [← hk] at hpos ⊢
      exact memberEnergy_plain T Z m hz (by unfold Plain; omega) (by omega) hpos
  by_cases h1 : line = 1
  · subst h1
    have m := line_energy_spec T Z error he 1
    have hx : Spec.LineEnergy T Z 1 = wmean Hdr.group_KB (kEnergy T Z) (rCell T Z) := by
      unfold Spec.LineEnergy; simp [hz, Hdr.KA_LINE, Hdr.KB_LINE]
    rw [hx] at m
    have hv := meets_returned m (by unfold wmean; simp only []; split_ifs <;> simp) hret hne
    have hr : ratesNonnegAt T Z = true := by simpa [groupInputsOkAt, Hdr.KA_LINE, Hdr.KB_LINE] using hd
    have hmem : ∀ m ∈ groupMembers 1, -29 ≤ m ∧ m ≤ -4 := by
      intro m hm
      have : m ∈ Hdr.group_KB := by simpa [groupMembers, Hdr.KA_LINE, Hdr.KB_LINE] using hm
      simp only [Hdr.group_KB, List.mem_cons, List.not_mem_nil, or_false] at this
      omega
    refine ⟨kEnergy T Z, rCell T Z, by simpa [groupMembers, Hdr.KA_LINE, Hdr.KB_LINE] using hv, ?_, ?_⟩
    · intro m hm
      have := hmem m hm
      exact ratesNonnegAt_cell T Z hr m (by omega)
    · intro m hm hpos
      have := hmem m hm
      exact memberEnergy_plain T Z m hz (by unfold Plain; omega) (by omega) hpos
  by_cases h3 : line = 3
  · subst h3
    obtain ⟨hP, hO⟩ := hlb rfl
    have m := line_energy_lb_spec T Z error he hP hO
    have hx : Spec.LineEnergyLB T Z = wmean lbEnergyMembers (lbEnergy T Z) (lbWeight T Z) := by
      unfold Spec.LineEnergyLB; simp [hz]
    rw [hx] at m
    have hv := meets_returned m (by unfold wmean; simp only []; split_ifs <;> simp) hret hne
    have hw : lbWeightsNonnegAt T Z = true := by simpa [groupInputsOkAt, Hdr.KA_LINE, Hdr.KB_LINE, Hdr.LB_LINE] using hd
    refine ⟨lbEnergy T Z, lbWeight T Z, by simpa [groupMembers, Hdr.KA_LINE, Hdr.KB_LINE, Hdr.LA_LINE, Hdr.LB_LINE] using hv, ?_, ?_⟩
    · intro m hm
      exact lbWeightsNonnegAt_mem T Z hw m (by simpa [groupMembers, Hdr.KA_LINE, Hdr.KB_LINE, Hdr.LA_LINE, Hdr.LB_LINE] using hm)
    · intro m _ _; rfl
  -- L-alpha and the doublets: `composed`
  have hcomp : ∃ l1 l2 : Int, Plain l1 ∧ Plain l2 ∧ groupMembers line = [l1, l2] ∧
      Spec.LineEnergy T Z line = composed T Z l1 l2 := by
    have hzf : ¬ (zOk Z = false) := by simp [hz]
    rcases hcases with h | h | h | h | h | h | h | h | h | h | h
    · exact absurd h h0
    · exact absurd h h1
    · subst h
      exact ⟨-89, -90, plain_dec _ (by decide), plain_dec _ (by decide), by decide,
        by unfold Spec.LineEnergy; simp [hz, Hdr.KA_LINE, Hdr.KB_LINE, Hdr.LA_LINE, Hdr.group_LA]⟩
    · exact absurd h h3
    · subst h; c10_pair (-42) (-44)
    · subst h; c10_pair (-48) (-50)
    · subst h; c10_pair (-54) (-56)
    · subst h; c10_pair (-80) (-82)
    · subst h; c10_pair (-101) (-103)
    · subst h; c10_pair (-107) (-109)
    · subst h; c10_pair (-110) (-112)
  obtain ⟨l1, l2, p1, p2, hgm, hx⟩ := hcomp
  have m := line_energy_spec T Z error he line
  rw [hx] at m
  have hv := meets_returned m (lb_composed_ne_any T Z l1 l2) hret hne
  unfold composed at hv
  rw [hgm]
  refine ⟨_, _, hv, fun m _ => singleRate_nonneg T Z m, ?_⟩
  intro m hm _
  have : m = l1 ∨ m = l2 := by simpa using hm
  rcases this with rfl | rfl
  · exact memberEnergy_single T Z _ p1
  · exact memberEnergy_single T Z _ p2

/-- **"hence lies between the smallest and largest member energy"**: for EVERY grouped macro (K-alpha, K-beta, L-alpha, L-beta,
each of the seven IUPAC doublets), every table `T` with non-negative rates / weights (`groupInputsOkAt`: executable), whenever
the generated `LineEnergy` returns a value, it lies between any lower and any upper bound of the member energies that are
positive (`memberEnergy` = what `LineEnergy(Z, member)` reports) — and some member has an energy -/
theorem line_energy_between (line : Int) (hg : groupMembers line ≠ []) (hd : groupInputsOkAt T Z line = true)
    (hlb : line = Hdr.LB_LINE →
      vecOkB (T.E_Photo_arr Z.toNat) (T.CS_Photo_arr Z.toNat) (T.CS_Photo_arr2 Z.toNat) (T.NE_Photo Z.toNat) = true ∧
      edgeOrderB T Z = true)
    {v : ℝ} (hret : Gen.LineEnergy T Z line error = Except.ok (v, error)) (hne : v ≠ 0) :
    (∃ m ∈ groupMembers line, 0 < memberEnergy T Z m) ∧
    ∀ L U : ℝ, (∀ m ∈ groupMembers line, 0 < memberEnergy T Z m → L ≤ memberEnergy T Z m) →
      (∀ m ∈ groupMembers line, 0 < memberEnergy T Z m → memberEnergy T Z m ≤ U) → L ≤ v ∧ v ≤ U := by
  obtain ⟨e, r, hv, hr, hme⟩ := group_spec T Z error he line hg hd hlb hret hne
  constructor
  · obtain ⟨m, hm, hp⟩ := group_has_member _ e r v hv
    exact ⟨m, hm, by rw [hme m hm hp]; exact hp⟩
  · intro L U hL hU
    apply group_energy_between _ e r v L U hr ?_ ?_ hv
    · intro m hm hp
      have := hme m hm hp
      rw [← this]; exact hL m hm (by rw [this]; exact hp)
    · intro m hm hp
      have := hme m hm hp
      rw [← this]; exact hU m hm (by rw [this]; exact hp)

end between

/-! ### the smallest and the largest member energy, computed -/

theorem posRange_fold (xs : List ℝ) (acc : Option (ℝ × ℝ)) (lo hi : ℝ)
    (h : xs.foldl rangeStep acc = some (lo, hi)) :
    (∀ x ∈ xs, 0 < x → lo ≤ x ∧ x ≤ hi) ∧ (∀ a b, acc = some (a, b) → lo ≤ a ∧ b ≤ hi) ∧
    ((lo ∈ xs ∧ 0 < lo) ∨ ∃ b, acc = some (lo, b)) ∧ ((hi ∈ xs ∧ 0 < hi) ∨ ∃ a, acc = some (a, hi)) := by
  induction xs generalizing acc with
  | nil =>
    simp only [List.foldl_nil] at h
    subst h
    refine ⟨fun x hx => absurd hx (List.not_mem_nil), fun a b hab => ?_, Or.inr ⟨hi, rfl⟩, Or.inr ⟨lo, rfl⟩⟩
    injection hab with hab
    obtain ⟨rfl, rfl⟩ := Prod.mk.inj hab
    exact ⟨le_rfl, le_rfl⟩
  | cons x xs ih =>
    simp only [List.foldl_cons, rangeStep] at h
    by_cases hx : (0.0 : ℝ) < x
    · have hx0 : 0 < x := by rw [C09.lit0] at hx; exact hx
      simp only [hx, if_true] at h
      cases acc with
      | none =>
        obtain ⟨i1, i2, i3, i4⟩ := ih _ h
        have hb := i2 x x rfl
        refine ⟨?_, (fun a b hab => by cases hab), ?_, ?_⟩
        · intro y hy hy0
          rcases List.mem_cons.1 hy with rfl | hy'
          · exact hb
          · exact i1 y hy' hy0
        · rcases i3 with ⟨hm, hp⟩ | ⟨b, hb'⟩
          · exact Or.inl ⟨List.mem_cons_of_mem _ hm, hp⟩
          · injection hb' with hb'
            have : x = lo := (Prod.mk.inj hb').1
            exact Or.inl ⟨by rw [← this]; exact List.mem_cons_self .., by rw [← this]; exact hx0⟩
        · rcases i4 with ⟨hm, hp⟩ | ⟨a, ha'⟩
          · exact Or.inl ⟨List.mem_cons_of_mem _ hm, hp⟩
          · injection ha' with ha'
            have : x = hi := (Prod.mk.inj ha').2
            exact Or.inl ⟨by rw [← this]; exact List.mem_cons_self .., by rw [← this]; exact hx0⟩
      | some p =>
        obtain ⟨a0, b0⟩ := p
        obtain ⟨i1, i2, i3, i4⟩ := ih _ h
        have hb := i2 _ _ rfl
        have hlo : lo ≤ x ∧ lo ≤ a0 := by
          have := hb.1
          by_cases c : x < a0
          · rw [if_pos c] at this; exact ⟨this, by linarith⟩
          · rw [if_neg c] at this; exact ⟨by linarith [not_lt.1 c], this⟩
        have hhi : x ≤ hi ∧ b0 ≤ hi := by
          have := hb.2
          by_cases c : b0 < x
          · rw [if_pos c] at this; exact ⟨this, by linarith⟩
          · rw [if_neg c] at this; exact ⟨by linarith [not_lt.1 c], this⟩
        refine ⟨?_, ?_, ?_, ?_⟩
        · intro y hy hy0
          rcases List.mem_cons.1 hy with rfl | hy'
          · exact ⟨hlo.1, hhi.1⟩
          · exact i1 y hy' hy0
        · intro a b hab
          injection hab with hab
          obtain ⟨rfl, rfl⟩ := Prod.mk.inj hab
          exact ⟨hlo.2, hhi.2⟩
        · rcases i3 with ⟨hm, hp⟩ | ⟨b, hb'⟩
          · exact Or.inl ⟨List.mem_cons_of_mem _ hm, hp⟩
          · injection hb' with hb'
            have e1 := (Prod.mk.inj hb').1
            by_cases c : x < a0
            · rw [if_pos c] at e1
              exact Or.inl ⟨by rw [← e1]; exact List.mem_cons_self .., by rw [← e1]; exact hx0⟩
            · rw [if_neg c] at e1
              exact Or.inr ⟨b0, by rw [e1]⟩
        · rcases i4 with ⟨hm, hp⟩ | ⟨a, ha'⟩
          · exact Or.inl ⟨List.mem_cons_of_mem _ hm, hp⟩
          · injection ha' with ha'
            have e2 := (Prod.mk.inj ha').2
            by_cases c : b0 < x
            · rw [if_pos c] at e2
              exact Or.inl ⟨by rw [← e2]; exact List.mem_cons_self .., by rw [← e2]; exact hx0⟩
            · rw [if_neg c] at e2
              exact Or.inr ⟨a0, by rw [e2]⟩
    · simp only [hx, if_false] at h
      obtain ⟨i1, i2, i3, i4⟩ := ih _ h
      refine ⟨?_, i2, ?_, ?_⟩
      · intro y hy hy0
        rcases List.mem_cons.1 hy with rfl | hy'
        · exact absurd (by rw [C09.lit0]; exact hy0) hx
        · exact i1 y hy' hy0
      · rcases i3 with ⟨hm, hp⟩ | h'
        · exact Or.inl ⟨List.mem_cons_of_mem _ hm, hp⟩
        · exact Or.inr h'
      · rcases i4 with ⟨hm, hp⟩ | h'
        · exact Or.inl ⟨List.mem_cons_of_mem _ hm, hp⟩
        · exact Or.inr h'

theorem posRange_isSome (xs : List ℝ) (acc : Option (ℝ × ℝ)) (h : acc.isSome = true ∨ ∃ x ∈ xs, 0 < x) :
    (xs.foldl rangeStep acc).isSome = true := by
  induction xs generalizing acc with
  | nil =>
    rcases h with h | ⟨x, hx, _⟩
    · exact h
    · exact absurd hx (List.not_mem_nil)
  | cons x xs ih =>
    simp only [List.foldl_cons, rangeStep]
    apply ih
    by_cases hx : (0.0 : ℝ) < x
    · left
      simp only [hx, if_true]
      cases acc with
      | none => rfl
      | some p => rfl
    · simp only [hx, if_false]
      rcases h with h | ⟨y, hy, hy0⟩
      · exact Or.inl h
      · rcases List.mem_cons.1 hy with rfl | hy'
        · exact absurd (by rw [C09.lit0]; exact hy0) hx
        · exact Or.inr ⟨y, hy', hy0⟩

/-- `posRange xs = some (lo, hi)`: `lo` and `hi` are positive elements of `xs` and bound every positive element -/
theorem posRange_spec (xs : List ℝ) (lo hi : ℝ) (h : posRange xs = some (lo, hi)) :
    (lo ∈ xs ∧ 0 < lo) ∧ (hi ∈ xs ∧ 0 < hi) ∧ ∀ x ∈ xs, 0 < x → lo ≤ x ∧ x ≤ hi := by
  obtain ⟨i1, _, i3, i4⟩ := posRange_fold xs none lo hi (by unfold posRange at h; exact h)
  refine ⟨?_, ?_, i1⟩
  · rcases i3 with h' | ⟨b, hb⟩
    · exact h'
    · cases hb
  · rcases i4 with h' | ⟨a, ha⟩
    · exact h'
    · cases ha

/-- **the group energy lies in `groupRange`** — between the smallest and the largest member energy, both of which are energies
of members of the group -/
theorem line_energy_in_range (T : Tables ℝ) (Z : Int) (error : Slot) (he : error.isFull = false)
    (line : Int) (hg : groupMembers line ≠ []) (hd : groupInputsOkAt T Z line = true)
    (hlb : line = Hdr.LB_LINE →
      vecOkB (T.E_Photo_arr Z.toNat) (T.CS_Photo_arr Z.toNat) (T.CS_Photo_arr2 Z.toNat) (T.NE_Photo Z.toNat) = true ∧
      edgeOrderB T Z = true)
    {v : ℝ} (hret : Gen.LineEnergy T Z line error = Except.ok (v, error)) (hne : v ≠ 0) :
    ∃ lo hi : ℝ, groupRange T Z line = some (lo, hi) ∧ lo ≤ v ∧ v ≤ hi ∧
      (∃ m ∈ groupMembers line, memberEnergy T Z m = lo) ∧ (∃ m ∈ groupMembers line, memberEnergy T Z m = hi) := by
  obtain ⟨⟨m0, hm0, hp0⟩, hb⟩ := line_energy_between T Z error he line hg hd hlb hret hne
  have hs : (groupRange T Z line).isSome = true := by
    unfold groupRange posRange
    exact posRange_isSome _ none (Or.inr ⟨memberEnergy T Z m0, List.mem_map.2 ⟨m0, hm0, rfl⟩, hp0⟩)
  obtain ⟨⟨lo, hi⟩, hr⟩ := Option.isSome_iff_exists.1 hs
  obtain ⟨⟨hlo, _⟩, ⟨hhi, _⟩, hall⟩ := posRange_spec _ lo hi (by unfold groupRange at hr; exact hr)
  have hv := hb lo hi (fun m hm hp => (hall _ (List.mem_map.2 ⟨m, hm, rfl⟩) hp).1)
    (fun m hm hp => (hall _ (List.mem_map.2 ⟨m, hm, rfl⟩) hp).2)
  obtain ⟨m1, hm1, e1⟩ := List.mem_map.1 hlo
  obtain ⟨m2, hm2, e2⟩ := List.mem_map.1 hhi
  exact ⟨lo, hi, hr, hv.1, hv.2, ⟨m1, hm1, e1⟩, ⟨m2, hm2, e2⟩⟩

end C10
end Xrl
