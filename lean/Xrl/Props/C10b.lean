import Xrl.Props.C09
import Xrl.Spec.LBeta
/-!
# C10 (L-beta) — the energy of the L-beta group
-/
namespace Xrl
namespace C10
open Spec

set_option linter.unusedSimpArgs false
set_option linter.unusedVariables false

/-! ## the static table `lb_pairs` of fluor_lines.c against the header names -/

/-- **the table `lb_pairs` (fluor_lines.c:32-46, emitted as `Static.lb_pairs_*`) lists exactly the lines named
`LB1 … LB17`, `L3N6`, `L3N7`, each with the shell its IUPAC name starts with** -/
theorem lb_members_are_the_names :
    Static.lb_pairs_line_list = Spec.lbEnergyMembers ∧
    Static.lb_pairs_shell_list = Spec.lbEnergyMembers.filterMap Spec.lineShell ∧
    Static.lb_pairs_line_list.zip Static.lb_pairs_shell_list = Spec.lbPairs ∧
    Spec.lbPairs.length = 13 := by decide

/-- the explicit alias list is the generated one: every `LB<n>` alias of the header, then `L3N6`, `L3N7` -/
theorem lb_members_are_the_aliases :
    Spec.lbEnergyMembers = Hdr.group_LB ++ [Hdr.L3N6_LINE, Hdr.L3N7_LINE] ∧ Spec.lbEnergyMembers = Spec.lbMembersKissel := by
  decide

set_option maxRecDepth 100000 in
/-- the member shells recomputed from the macro names alone (first letters of the IUPAC name carrying the value) -/
theorem lb_shells_by_name :
    Spec.lbEnergyMembers.map Spec.lineShell = Spec.lbEnergyMembers.map Spec.lineShellByName := by decide +kernel

/-! ## the callees of the L-beta loop, called without an error slot -/

section callees
variable (T : Tables ℝ) (Z : Int)

theorem findDoublet_plain (line : Int) (hp : Plain line) : findDoublet line = none := by
  obtain ⟨p0, p1, p2, p3, d1, d2, d3, d4, d5, d6, d7⟩ := hp
  have e1 : ¬ (-43 = line) := fun h => d1 h.symm
  have e2 : ¬ (-49 = line) := fun h => d2 h.symm
  have e3 : ¬ (-55 = line) := fun h => d3 h.symm
  have e4 : ¬ (-81 = line) := fun h => d4 h.symm
  have e5 : ¬ (-102 = line) := fun h => d5 h.symm
  have e6 : ¬ (-108 = line) := fun h => d6 h.symm
  have e7 : ¬ (-111 = line) := fun h => d7 h.symm
  simp [findDoublet, Hdr.doublets, List.find?, e1, e2, e3, e4, e5, e6, e7]

/-- the specification of a plain macro is the single-line lookup (also for an invalid `Z`: both fail) -/
theorem specLineEnergy_plain (line : Int) (hp : Plain line) : Spec.LineEnergy T Z line = singleEnergy T Z line := by
  have hf := findDoublet_plain line hp
  obtain ⟨p0, p1, p2, p3, _⟩ := hp
  unfold Spec.LineEnergy
  simp only [Hdr.KA_LINE, Hdr.KB_LINE, Hdr.LA_LINE, Hdr.LB_LINE, p0, p1, p2, p3, if_false, hf]
  by_cases hz : zOk Z = true
  · simp [hz]
  · have hz' : zOk Z = false := by simpa using hz
    simp [hz', singleEnergy]

theorem specLineEnergy_L3O45 : Spec.LineEnergy T Z (-102) = if zOk Z = false then .fails else composed T Z (-101) (-103) := by
  unfold Spec.LineEnergy
  simp [Hdr.KA_LINE, Hdr.KB_LINE, Hdr.LA_LINE, Hdr.LB_LINE, findDoublet, Hdr.doublets, List.find?]

theorem lb_composed_ne_any (l1 l2 : Int) : composed T Z l1 l2 ≠ .any := by
  unfold composed
  simp only []
  split_ifs <;> simp

/-- the doublet slot `L3O45 = LB5`, at any fuel ≥ 3 -/
theorem line_energy_L3O45 (f : Nat) (error : Slot) (he : error.isFull = false) :
    Meets (Gen.LineEnergy_fuel (f + 3) T Z (-102) error) error (Spec.LineEnergy T Z (-102)) := by
  rw [specLineEnergy_L3O45, Gen.LineEnergy_fuel]
  by_cases hz : zOk Z = true
  · have hZ' : 1 ≤ Z ∧ Z ≤ 120 := by
      have := hz; simp only [zOk, Hdr.ZMAX] at this; exact of_decide_eq_true this
    have hZ : ¬ (Z < 1 ∨ 120 < Z) := by omega
    have hc := composed_spec T Z error he f (-101) (-103) (plain_dec _ (by decide)) (plain_dec _ (by decide))
    simp [hZ, hz]
    rcases Meets.cases hc with ⟨v, hx, hr⟩ | ⟨hx, e, h1, h2, hr⟩ | ha
    · simp [hx, hr, Meets, Returns]
    · simp [hx, hr, Meets]; xrl_finish
    · exact absurd ha (lb_composed_ne_any T Z _ _)
  · have hz' : zOk Z = false := by simpa using hz
    have hZ : Z < 1 ∨ 120 < Z := by
      have := hz'; simp only [zOk, Hdr.ZMAX] at this; have := of_decide_eq_false this; omega
    simp [hz', hZ, setErr_notFull he, Meets]
    xrl_finish

/-- what the members of `lb_pairs` are for `LineEnergy`: plain macros, or the doublet slot `L3O45` -/
theorem lb_member_kind : ∀ k, k < 13 → Plain (Static.lb_pairs_line k) ∨ Static.lb_pairs_line k = -102 := by
  unfold Plain; decide

/-- `LineEnergy(Z, member, NULL)` inside the loop -/
theorem member_energy_null (f : Nat) (m : Int) (hm : Plain m ∨ m = -102) :
    Gen.LineEnergy_fuel (f + 3) T Z m Slot.null = Except.ok (lbEnergy T Z m, Slot.null) := by
  unfold lbEnergy
  rcases hm with hp | rfl
  · have := meets_null (line_energy_single T Z Slot.null rfl (f + 2) m hp) (singleEnergy_ne_any T Z m)
    rw [specLineEnergy_plain T Z m hp]; exact this
  · refine meets_null (line_energy_L3O45 T Z f Slot.null rfl) ?_
    rw [specLineEnergy_L3O45]
    split_ifs
    · simp
    · exact lb_composed_ne_any T Z _ _

/-- `CS_FluorLine(Z, line, E, NULL)` -/
theorem fluorline_null (line : Int) (E : ℝ)
    (hP : vecOkB (T.E_Photo_arr Z.toNat) (T.CS_Photo_arr Z.toNat) (T.CS_Photo_arr2 Z.toNat) (T.NE_Photo Z.toNat) = true)
    (hO : edgeOrderB T Z = true) :
    Gen.CS_FluorLine T Z line E Slot.null = Except.ok (valOr0 (Spec.CS_FluorLine T Z line E), Slot.null) :=
  meets_null (C09.fluorline_jump_spec T Z E Slot.null rfl line hP hO) (C09.fluorLine_ne_any T Z E line)

end callees

/-! ## the loop -/

/-- the accumulation loop of fluor_lines.c: members without an energy are skipped -/
theorem lb_loop (e w : Nat → ℝ) (ks : List Nat) (l0 t t1 t2 : ℝ) :
    ∃ a b, ks.foldlM (fun (st : ℝ × ℝ × ℝ × ℝ) (k : Nat) =>
        (if e k ≤ 0 then Except.ok (e k, st.2.1, st.2.2.1, st.2.2.2)
         else Except.ok (e k, st.2.1 + e k * w k, w k, st.2.2.2 + w k) : M (ℝ × ℝ × ℝ × ℝ))) (l0, t, t1, t2)
      = Except.ok (a, ks.foldl (fun acc k => if e k ≤ 0 then acc else acc + e k * w k) t, b,
          ks.foldl (fun acc k => if e k ≤ 0 then acc else acc + w k) t2) := by
  induction ks generalizing l0 t t1 t2 with
  | nil => exact ⟨l0, t1, rfl⟩
  | cons k ks ih =>
    simp only [List.foldlM_cons, List.foldl_cons]
    by_cases h : e k ≤ 0
    · simp only [h, if_true, bind_ok]
      exact ih _ _ _ _
    · simp only [h, if_false, bind_ok]
      exact ih _ _ _ _

theorem lb_lines_eq : Spec.lbEnergyMembers = (List.range 13).map Static.lb_pairs_line := by decide

theorem lb_shell_eq : ∀ k, k < 13 → lineShell (Static.lb_pairs_line k) = some (Static.lb_pairs_shell k) := by decide

section main
variable (T : Tables ℝ) (Z : Int) (error : Slot) (he : error.isFull = false)
include he

/-- **L-beta energy**, for every table content (of the shape the C09 theorems need), every `Z` and every non-full error
slot: `LineEnergy(Z, LB_LINE)` is `Σ E_m w_m / Σ w_m` over those of the 13 members given by the names that have an energy,
`E_m = LineEnergy(Z, m)`, `w_m = CS_FluorLine(Z, m, EdgeEnergy(Z, shell of m) + 0.1)` (0 when undefined); an error for an
invalid `Z` and when no member with an energy carries weight -/
theorem line_energy_lb_spec
    (hP : vecOkB (T.E_Photo_arr Z.toNat) (T.CS_Photo_arr Z.toNat) (T.CS_Photo_arr2 Z.toNat) (T.NE_Photo Z.toNat) = true)
    (hO : edgeOrderB T Z = true) :
    Meets (Gen.LineEnergy T Z Hdr.LB_LINE error) error (Spec.LineEnergyLB T Z) := by
  unfold Gen.LineEnergy FUEL Spec.LineEnergyLB
  rw [show (6:Nat) = 5 + 1 from rfl, Gen.LineEnergy_fuel]
  simp only [Hdr.LB_LINE]
  by_cases hz : zOk Z = true
  · have hZ' : 1 ≤ Z ∧ Z ≤ 120 := by
      have := hz; simp only [zOk, Hdr.ZMAX] at this; exact of_decide_eq_true this
    have hZ : ¬ (Z < 1 ∨ Z > 120) := by omega
    have n0 : ¬ ((3:Int) = 0 ∨ (3:Int) = 1) := by omega
    have n2 : ¬ ((3:Int) = 2) := by omega
    simp only [hz, hZ, n0, n2, Bool.true_eq_false, if_false, if_true, loopM_unroll, setErr_notFull he, ddiv, deq_real, C09.lit0]
    rw [foldlM_congr_mem (g := fun (st : ℝ × ℝ × ℝ × ℝ) (k : Nat) =>
        (if lbEnergy T Z (Static.lb_pairs_line k) ≤ 0 then
            Except.ok (lbEnergy T Z (Static.lb_pairs_line k), st.2.1, st.2.2.1, st.2.2.2)
         else Except.ok (lbEnergy T Z (Static.lb_pairs_line k),
            st.2.1 + lbEnergy T Z (Static.lb_pairs_line k) * lbWeight T Z (Static.lb_pairs_line k),
            lbWeight T Z (Static.lb_pairs_line k), st.2.2.2 + lbWeight T Z (Static.lb_pairs_line k)) : M (ℝ × ℝ × ℝ × ℝ)))]
    · obtain ⟨a, b, hw⟩ := lb_loop (fun k => lbEnergy T Z (Static.lb_pairs_line k)) (fun k => lbWeight T Z (Static.lb_pairs_line k))
        (List.range (Int.toNat (13 - 0))) 0 0 0 0
      rw [hw]
      unfold wmean
      rw [lb_lines_eq, List.foldl_map, List.foldl_map]
      simp only [bind_ok, show Int.toNat (13 - 0) = 13 from rfl, C09.lit0]
      generalize List.foldl (fun acc k => if lbEnergy T Z (Static.lb_pairs_line k) ≤ 0 then acc
        else acc + lbWeight T Z (Static.lb_pairs_line k)) 0 (List.range 13) = den
      generalize List.foldl (fun acc k => if lbEnergy T Z (Static.lb_pairs_line k) ≤ 0 then acc
        else acc + lbEnergy T Z (Static.lb_pairs_line k) * lbWeight T Z (Static.lb_pairs_line k)) 0 (List.range 13) = num
      by_cases hd : 0 < den
      · simp [hd, hd.ne', Meets, Returns]
      · simp [hd, Meets]
        xrl_finish
    · intro k hk s
      have hk13 : k < 13 := by simpa using hk
      have b1 : (0:Int) ≤ 0 + (k:Int) ∧ 0 + (k:Int) < ((13:Nat):Int) := by omega
      have t1 : ((0:Int) + (k:Int)).toNat = k := by omega
      have hm : Gen.LineEnergy_fuel 5 T Z (Static.lb_pairs_line k) Slot.null =
          Except.ok (lbEnergy T Z (Static.lb_pairs_line k), Slot.null) :=
        member_energy_null T Z 2 _ (lb_member_kind k hk13)
      simp only [rd1, b1, and_self, if_true, t1, bind_ok, pure_eq_ok, hm]
      by_cases c : lbEnergy T Z (Static.lb_pairs_line k) ≤ 0
      · simp only [c, if_true]
      · simp only [c, if_false, bind_ok, pure_eq_ok, C09.edge_null, fluorline_null T Z _ _ hP hO, lbWeight, lb_shell_eq k hk13]
  · have hz' : zOk Z = false := by simpa using hz
    have hZ : Z < 1 ∨ Z > 120 := by
      have := hz'; simp only [zOk, Hdr.ZMAX] at this; have := of_decide_eq_false this; omega
    simp only [hz', hZ, if_true, setErr_notFull he, bind_ok, pure_eq_ok, Meets]
    xrl_finish

end main

/-! ## the text: mean over the members that have an energy -/

theorem foldl_congr_mem' {β γ : Type} {f g : β → γ → β} (ks : List γ)
    (h : ∀ k ∈ ks, ∀ s, f s k = g s k) (s0 : β) : ks.foldl f s0 = ks.foldl g s0 := by
  induction ks generalizing s0 with
  | nil => rfl
  | cons k ks ih =>
    simp only [List.foldl_cons]
    rw [h k (List.mem_cons_self ..)]
    exact ih (fun k' hk' => h k' (List.mem_cons_of_mem _ hk')) _

/-- the two readings coincide when no member without an energy carries weight -/
theorem wmeanAll_eq_wmean (ms : List Int) (e r : Int → ℝ) (h : ∀ m ∈ ms, e m ≤ 0 → r m = 0) :
    wmeanAll ms e r = wmean ms e r := by
  have h1 : ms.foldl (fun acc m => acc + r m) 0 = ms.foldl (fun acc m => if e m ≤ 0 then acc else acc + r m) 0 := by
    apply foldl_congr_mem'
    intro m hm acc
    by_cases c : e m ≤ 0
    · simp [c, h m hm c]
    · simp [c]
  have h2 : ms.foldl (fun acc m => acc + e m * r m) 0 = ms.foldl (fun acc m => if e m ≤ 0 then acc else acc + e m * r m) 0 := by
    apply foldl_congr_mem'
    intro m hm acc
    by_cases c : e m ≤ 0
    · simp [c, h m hm c]
    · simp [c]
  unfold wmeanAll wmean
  simp only [C09.lit0, h1, h2]

theorem lbEnergyless_nil_iff (T : Tables ℝ) (Z : Int) :
    lbEnergyless T Z = [] ↔ ∀ m ∈ lbEnergyMembers, lbEnergy T Z m ≤ 0 → lbWeight T Z m = 0 := by
  unfold lbEnergyless
  rw [List.filter_eq_nil_iff]
  constructor
  · intro h m hm he
    have := h m hm
    simpa [he, C09.lit0] using this
  · intro h m hm
    by_cases he : lbEnergy T Z m ≤ 0
    · simp [he, h m hm he, C09.lit0]
    · simp [he, C09.lit0]

/-- **the full statement of the property for L-beta** -/
def line_energy_lb_full : Prop :=
  ∀ (T : Tables ℝ) (Z : Int) (error : Slot), error.isFull = false →
    vecOkB (T.E_Photo_arr Z.toNat) (T.CS_Photo_arr Z.toNat) (T.CS_Photo_arr2 Z.toNat) (T.NE_Photo Z.toNat) = true →
    edgeOrderB T Z = true →
    Meets (Gen.LineEnergy T Z Hdr.LB_LINE error) error (Spec.LineEnergyLB T Z)

theorem line_energy_lb_full_holds : line_energy_lb_full :=
  fun T Z error he hP hO => line_energy_lb_spec T Z error he hP hO

/-! ## "hence lies between the smallest and largest member energy" -/

/-- a value of the L-beta specification lies between the smallest and the largest energy of the members that have one
(non-negative weights; `group_energy_between` of Props/C10 applied to the L-beta members) -/
theorem lb_energy_between (T : Tables ℝ) (Z : Int) (v L U : ℝ) (hw : ∀ m ∈ lbEnergyMembers, 0 ≤ lbWeight T Z m)
    (hL : ∀ m ∈ lbEnergyMembers, 0 < lbEnergy T Z m → L ≤ lbEnergy T Z m)
    (hU : ∀ m ∈ lbEnergyMembers, 0 < lbEnergy T Z m → lbEnergy T Z m ≤ U)
    (hv : Spec.LineEnergyLB T Z = .value v) : L ≤ v ∧ v ≤ U := by
  unfold Spec.LineEnergyLB at hv
  split_ifs at hv
  exact group_energy_between lbEnergyMembers _ _ v L U hw hL hU hv

/-! ## skipping the members without an energy matters: the reading that keeps them (`LineEnergyLB0`) is a different function -/

theorem lb_num_same (ms : List Int) (e r : Int → ℝ) (he : ∀ m ∈ ms, 0 ≤ e m) (n : ℝ) :
    ms.foldl (fun acc m => acc + e m * r m) n = ms.foldl (fun acc m => if e m ≤ 0 then acc else acc + e m * r m) n := by
  apply foldl_congr_mem'
  intro m hm acc
  by_cases c : e m ≤ 0
  · have : e m = 0 := le_antisymm c (he m hm)
    simp [c, this]
  · simp [c]

theorem lb_den_gap (ms : List Int) (e r : Int → ℝ) (hr : ∀ m ∈ ms, 0 ≤ r m) (d d0 : ℝ) :
    d0 - d ≤ ms.foldl (fun acc m => acc + r m) d0 - ms.foldl (fun acc m => if e m ≤ 0 then acc else acc + r m) d ∧
    ((∃ m ∈ ms, e m ≤ 0 ∧ 0 < r m) →
      d0 - d < ms.foldl (fun acc m => acc + r m) d0 - ms.foldl (fun acc m => if e m ≤ 0 then acc else acc + r m) d) := by
  induction ms generalizing d d0 with
  | nil => simp
  | cons k ks ih =>
    have hk := hr k (List.mem_cons_self ..)
    have ih' := fun d d0 => ih (fun m hm => hr m (List.mem_cons_of_mem _ hm)) d d0
    simp only [List.foldl_cons]
    by_cases c : e k ≤ 0
    · simp only [c, if_true]
      obtain ⟨a, b⟩ := ih' d (d0 + r k)
      refine ⟨by linarith, ?_⟩
      rintro ⟨m, hm, hme, hmr⟩
      rcases List.mem_cons.mp hm with rfl | hm'
      · linarith
      · have := b ⟨m, hm', hme, hmr⟩; linarith
    · simp only [c, if_false]
      obtain ⟨a, b⟩ := ih' (d + r k) (d0 + r k)
      refine ⟨by linarith, ?_⟩
      rintro ⟨m, hm, hme, hmr⟩
      rcases List.mem_cons.mp hm with rfl | hm'
      · exact absurd hme c
      · have := b ⟨m, hm', hme, hmr⟩; linarith

theorem lb_den_pos_num_pos (ms : List Int) (e r : Int → ℝ) (hr : ∀ m ∈ ms, 0 ≤ r m) (n d : ℝ)
    (h0 : 0 ≤ n ∧ 0 ≤ d ∧ (0 < d → 0 < n)) :
    0 ≤ ms.foldl (fun acc m => if e m ≤ 0 then acc else acc + r m) d ∧
    (0 < ms.foldl (fun acc m => if e m ≤ 0 then acc else acc + r m) d →
      0 < ms.foldl (fun acc m => if e m ≤ 0 then acc else acc + e m * r m) n) := by
  induction ms generalizing n d with
  | nil => exact ⟨h0.2.1, h0.2.2⟩
  | cons k ks ih =>
    have hk := hr k (List.mem_cons_self ..)
    simp only [List.foldl_cons]
    apply ih (fun m hm => hr m (List.mem_cons_of_mem _ hm))
    by_cases c : e k ≤ 0
    · simpa [c] using h0
    · simp only [c, if_false]
      have ek : 0 < e k := not_le.mp c
      have : 0 ≤ e k * r k := mul_nonneg ek.le hk
      refine ⟨by linarith [h0.1], by linarith [h0.2.1], ?_⟩
      intro hd
      rcases hk.lt_or_eq with hk' | hk'
      · have : 0 < e k * r k := mul_pos ek hk'
        linarith [h0.1]
      · rw [← hk'] at hd ⊢
        have := h0.2.2 (by linarith)
        linarith

/-- with non-negative energies and weights, a weighted member without an energy makes the two readings differ -/
theorem wmeanAll_ne_wmean (ms : List Int) (e r : Int → ℝ) (he : ∀ m ∈ ms, 0 ≤ e m) (hr : ∀ m ∈ ms, 0 ≤ r m)
    (hex : ∃ m ∈ ms, e m ≤ 0 ∧ 0 < r m) : wmeanAll ms e r ≠ wmean ms e r := by
  have hn := lb_num_same ms e r he 0
  have hg := (lb_den_gap ms e r hr 0 0).2 hex
  have hp := lb_den_pos_num_pos ms e r hr 0 0 ⟨le_rfl, le_rfl, fun h => h⟩
  unfold wmeanAll wmean
  simp only [C09.lit0, hn]
  generalize ms.foldl (fun acc m => acc + r m) 0 = D0 at *
  generalize ms.foldl (fun acc m => if e m ≤ 0 then acc else acc + r m) 0 = D at *
  generalize ms.foldl (fun acc m => if e m ≤ 0 then acc else acc + e m * r m) 0 = N at *
  have hD0 : 0 < D0 := by linarith [hp.1]
  by_cases hD : 0 < D
  · have hN := hp.2 hD
    simp only [hD0, hD, if_true, ne_eq, Expect.value.injEq]
    intro h
    rw [div_eq_div_iff hD0.ne' hD.ne'] at h
    have : D = D0 := mul_left_cancel₀ hN.ne' h
    linarith
  · simp [hD0, hD]

theorem composed_value_pos (T : Tables ℝ) (Z l1 l2 : Int) {v : ℝ} (h : composed T Z l1 l2 = .value v) : 0 < v := by
  have a1 := singleEnergy_nonneg T Z l1
  have a2 := singleEnergy_nonneg T Z l2
  have b1 := singleRate_nonneg T Z l1
  have b2 := singleRate_nonneg T Z l2
  unfold composed at h
  simp only [C09.lit0, C09.lit1] at h
  generalize valOr0 (singleEnergy T Z l1) = x1 at *
  generalize valOr0 (singleEnergy T Z l2) = x2 at *
  generalize valOr0 (singleRate T Z l1) = y1 at *
  generalize valOr0 (singleRate T Z l2) = y2 at *
  by_cases c1 : 0 < x1 * y1 + x2 * y2
  · simp only [c1, if_true] at h
    injection h with h
    rw [← h]
    have : 0 < y1 + y2 := by
      rcases (add_nonneg b1 b2).lt_or_eq with p | p
      · exact p
      · have hy1 : y1 = 0 := by linarith
        have hy2 : y2 = 0 := by linarith
        rw [hy1, hy2] at c1; norm_num at c1
    exact div_pos c1 this
  · simp only [c1, if_false] at h
    by_cases c2 : 0 < x1 + x2
    · simp only [c2, if_true] at h
      injection h with h
      rw [← h]
      apply div_pos c2
      by_cases p1 : 0 < x1 <;> by_cases p2 : 0 < x2 <;> simp [p1, p2]
      linarith
    · simp only [c2, if_false] at h
      cases h

theorem lbEnergy_nonneg (T : Tables ℝ) (Z : Int) : ∀ m ∈ lbEnergyMembers, 0 ≤ lbEnergy T Z m := by
  intro m hm
  unfold lbEnergy
  by_cases h5 : m = -102
  · subst h5
    rw [specLineEnergy_L3O45]
    split_ifs
    · simp [valOr0, C09.lit0]
    · exact valOr0_nonneg_of (fun v hv => composed_value_pos T Z _ _ hv)
  · have hp : Plain m := by
      simp only [lbEnergyMembers, List.mem_cons, List.not_mem_nil, or_false] at hm
      unfold Plain
      simp only [Hdr.LB1_LINE, Hdr.LB2_LINE, Hdr.LB3_LINE, Hdr.LB4_LINE, Hdr.LB5_LINE, Hdr.LB6_LINE, Hdr.LB7_LINE,
        Hdr.LB9_LINE, Hdr.LB10_LINE, Hdr.LB15_LINE, Hdr.LB17_LINE, Hdr.L3N6_LINE, Hdr.L3N7_LINE] at hm
      omega
    rw [specLineEnergy_plain T Z m hp]
    exact singleEnergy_nonneg T Z m

/-- for a valid `Z` and non-negative member cross sections, one member with weight but without an energy makes the sum
that keeps every member (`LineEnergyLB0`, what fluor_lines.c computed before the repair) differ from what the text says -/
theorem lb_specs_differ (T : Tables ℝ) (Z : Int) (hz : zOk Z = true) (hw : ∀ m ∈ lbEnergyMembers, 0 ≤ lbWeight T Z m)
    (hex : ∃ m ∈ lbEnergyMembers, lbEnergy T Z m ≤ 0 ∧ 0 < lbWeight T Z m) :
    Spec.LineEnergyLB0 T Z ≠ Spec.LineEnergyLB T Z := by
  unfold Spec.LineEnergyLB0 Spec.LineEnergyLB
  simp only [hz, Bool.true_eq_false, if_false]
  exact wmeanAll_ne_wmean _ _ _ (lbEnergy_nonneg T Z) hw hex

/-! ## a concrete table with a weighted member that has no energy -/

/-- one element with an L1 edge at 1 keV (jump ratio 2, yield 1), constant photo-absorption 1 cm²/g at 1.1 keV,
two L1 lines with rate 1: `L1M3 = LB3` at 2 keV and `L1M2 = LB4` at `x` keV — **without an energy** for `x = 0` -/
noncomputable def lbWit (x : ℝ) : Tables ℝ :=
  { (default : Tables ℝ) with
    EdgeEnergy_arr := fun _ s => if s = 1 then 1 else 0
    JumpFactor_arr := fun _ _ => 2
    FluorYield_arr := fun _ s => if s = 1 then 1 else 0
    RadRate_arr := fun _ j => if j = 33 ∨ j = 32 then 1 else 0
    LineEnergy_arr := fun _ j => if j = 33 then 2 else if j = 32 then x else 0
    NE_Photo := fun _ => 1
    E_Photo_arr := fun _ => ⟨1, fun _ => Real.log (((1 : ℝ) + (0.1 : ℝ)) * (1000.0 : ℝ))⟩
    CS_Photo_arr := fun _ => ⟨1, fun _ => 0⟩
    CS_Photo_arr2 := fun _ => ⟨1, fun _ => 0⟩ }

variable (x : ℝ)

theorem lbWit_edge (s : Int) (hs : 0 ≤ s ∧ s ≤ 3) : edge (lbWit x) 1 s = if s = 1 then 1 else 0 := by
  have : s ≤ 27 := by omega
  have : s = 0 ∨ s = 1 ∨ s = 2 ∨ s = 3 := by omega
  rcases this with rfl | rfl | rfl | rfl <;>
  simp [edge, Spec.EdgeEnergy, lookup2, zOk, mOk, lbWit, valOr0, Hdr.ZMAX, Hdr.K_SHELL, Hdr.SHELLNUM, C09.lit0]

theorem lbWit_fyield (s : Int) (hs : 0 ≤ s ∧ s ≤ 3) : fyield (lbWit x) 1 s = if s = 1 then 1 else 0 := by
  have : s = 0 ∨ s = 1 ∨ s = 2 ∨ s = 3 := by omega
  rcases this with rfl | rfl | rfl | rfl <;>
  simp [fyield, Spec.FluorYield, lookup2, zOk, mOk, lbWit, valOr0, Hdr.ZMAX, Hdr.K_SHELL, Hdr.SHELLNUM, C09.lit0]

theorem lbWit_jump (s : Int) (hs : 0 ≤ s ∧ s ≤ 3) : jump (lbWit x) 1 s = 2 := by
  have : s = 0 ∨ s = 1 ∨ s = 2 ∨ s = 3 := by omega
  rcases this with rfl | rfl | rfl | rfl <;>
  simp [jump, Spec.JumpFactor, lookup2, zOk, mOk, lbWit, valOr0, Hdr.ZMAX, Hdr.K_SHELL, Hdr.SHELLNUM, C09.lit0]

theorem lbWit_order : edgeOrderB (lbWit x) 1 = true := by
  rw [C09.edgeOrder_iff]
  simp [lbWit_edge, lbWit_fyield]

theorem lbWit_shape : vecOkB ((lbWit x).E_Photo_arr (1 : Int).toNat) ((lbWit x).CS_Photo_arr (1 : Int).toNat)
    ((lbWit x).CS_Photo_arr2 (1 : Int).toNat) ((lbWit x).NE_Photo (1 : Int).toNat) = true := by
  simp [vecOkB, lbWit]

/-- the photo-absorption cross section of the witness at 1.1 keV -/
theorem lbWit_photo : Spec.CS_Photo (lbWit x) 1 ((1 : ℝ) + (0.1 : ℝ)) = .value 1 := by
  have h : ¬ ((1.0e-7 : ℝ) < 0) := by norm_num
  have h1 : (0 : ℝ) < 1 + (0.1 : ℝ) := by norm_num
  simp [Spec.CS_Photo, interp, spline, knot, zOk, Hdr.ZMAX, lbWit, XNum.log, XNum.exp, h, h1, C09.lit0]

theorem lbWit_shellL1 : shellFactor (lbWit x) 1 1 ((1 : ℝ) + (0.1 : ℝ)) = .value (1 / 2) := by
  rw [C09.shellFactor_L1]
  have h1 : (1 : ℝ) < 1 + (0.1 : ℝ) := by norm_num
  simp [C09.flatL1, C09.restL1, lbWit_edge, lbWit_jump, lbWit_fyield, h1, nonzero, C09.lit0]
  norm_num

theorem lbWit_fluorShellL1 : Spec.CS_FluorShell (lbWit x) 1 1 ((1 : ℝ) + (0.1 : ℝ)) = .value (1 / 2) := by
  have h1 : (0 : ℝ) < 1 + (0.1 : ℝ) := by norm_num
  simp [Spec.CS_FluorShell, zOk, mOk, Hdr.ZMAX, Hdr.K_SHELL, Hdr.L3_SHELL, lbWit_shellL1, lbWit_photo, h1, C09.lit0]

theorem lbWeight_plain (T : Tables ℝ) (Z m s : Int) (hs : lineShell m = some s) (hm : m ≠ 0 ∧ m ≠ 1 ∧ m ≠ 2 ∧ m ≠ 3) :
    lbWeight T Z m = valOr0 (timesRate (singleRate T Z m) (Spec.CS_FluorShell T Z s (edge T Z s + (0.1 : ℝ)))) := by
  unfold lbWeight
  simp only [hs, Spec.CS_FluorLine, Hdr.LB_LINE, hm.2.2.2, if_false, radRate_plain T Z m hm]

theorem lbWit_rate (m : Int) (hm : -383 ≤ m ∧ m ≤ -1) :
    singleRate (lbWit x) 1 m = if m = -34 ∨ m = -33 then .value 1 else .fails := by
  have e1 : (-m - 1).toNat = 33 ↔ m = -34 := by omega
  have e2 : (-m - 1).toNat = 32 ↔ m = -33 := by omega
  unfold singleRate
  simp only [zOk, isLineMacro, Hdr.ZMAX, Hdr.LINENUM, rCell, lineSlot, lbWit, e1, e2, C09.lit0]
  by_cases h : m = -34 ∨ m = -33
  · simp [h, hm]
  · simp [h]

theorem lbWit_weight : ∀ m ∈ lbEnergyMembers, lbWeight (lbWit x) 1 m = if m = -34 ∨ m = -33 then 1 / 2 else 0 := by
  have sh : ∀ k, k < 13 → lineShell (lbEnergyMembers.getD k 0) = some (Static.lb_pairs_shell k) := by decide
  intro m hm
  obtain ⟨k, hk, rfl⟩ : ∃ k, k < 13 ∧ m = lbEnergyMembers.getD k 0 := by
    simp only [lbEnergyMembers, List.mem_cons, List.not_mem_nil, or_false] at hm
    rcases hm with h | h | h | h | h | h | h | h | h | h | h | h | h
    exacts [⟨0, by omega, h⟩, ⟨1, by omega, h⟩, ⟨2, by omega, h⟩, ⟨3, by omega, h⟩, ⟨4, by omega, h⟩, ⟨5, by omega, h⟩,
      ⟨6, by omega, h⟩, ⟨7, by omega, h⟩, ⟨8, by omega, h⟩, ⟨9, by omega, h⟩, ⟨10, by omega, h⟩, ⟨11, by omega, h⟩,
      ⟨12, by omega, h⟩]
  have rng : ∀ k, k < 13 → -383 ≤ lbEnergyMembers.getD k 0 ∧ lbEnergyMembers.getD k 0 ≤ -1 := by decide
  have r := rng k hk
  rw [lbWeight_plain (lbWit x) 1 _ _ (sh k hk) (by omega), lbWit_rate x _ r]
  by_cases h : lbEnergyMembers.getD k 0 = -34 ∨ lbEnergyMembers.getD k 0 = -33
  · have hs : Static.lb_pairs_shell k = 1 := by
      have : ∀ k, k < 13 → (lbEnergyMembers.getD k 0 = -34 ∨ lbEnergyMembers.getD k 0 = -33) → Static.lb_pairs_shell k = 1 := by
        decide
      exact this k hk h
    simp only [h, if_true, hs, lbWit_edge x 1 (by omega), lbWit_fluorShellL1, timesRate, valOr0]
    norm_num
  · simp only [h, if_false, timesRate, valOr0, C09.lit0]

theorem lbWit_singleEnergy (m : Int) (hm : -383 ≤ m ∧ m ≤ -1) (h16 : m ≠ -16) (h24 : m ≠ -24) :
    singleEnergy (lbWit x) 1 m = if m = -34 then .value 2 else if m = -33 ∧ 0 < x then .value x else .fails := by
  have e1 : (-m - 1).toNat = 33 ↔ m = -34 := by omega
  have e2 : (-m - 1).toNat = 32 ↔ m = -33 := by omega
  unfold singleEnergy
  simp only [firstMember, Hdr.KO_LINE, Hdr.KP_LINE, h16, h24, if_false, zOk, isLineMacro, Hdr.ZMAX, Hdr.LINENUM, eCell,
    lineSlot, lbWit, e1, e2, C09.lit0]
  by_cases h : m = -34
  · simp [h]
  · by_cases h' : m = -33
    · by_cases hx : 0 < x <;> simp [h', hx]
    · simp [h, h']

theorem lbWit_energy (hx : 0 ≤ x) :
    ∀ m ∈ lbEnergyMembers, lbEnergy (lbWit x) 1 m = if m = -34 then 2 else if m = -33 then x else 0 := by
  intro m hm
  unfold lbEnergy
  by_cases h5 : m = -102
  · subst h5
    rw [specLineEnergy_L3O45]
    simp [zOk, Hdr.ZMAX, composed, lbWit_singleEnergy, lbWit_rate, valOr0, C09.lit0]
  · have hp : Plain m := by
      simp only [lbEnergyMembers, List.mem_cons, List.not_mem_nil, or_false] at hm
      unfold Plain
      simp only [Hdr.LB1_LINE, Hdr.LB2_LINE, Hdr.LB3_LINE, Hdr.LB4_LINE, Hdr.LB5_LINE, Hdr.LB6_LINE, Hdr.LB7_LINE,
        Hdr.LB9_LINE, Hdr.LB10_LINE, Hdr.LB15_LINE, Hdr.LB17_LINE, Hdr.L3N6_LINE, Hdr.L3N7_LINE] at hm
      omega
    have r : -383 ≤ m ∧ m ≤ -1 ∧ m ≠ -16 ∧ m ≠ -24 := by
      simp only [lbEnergyMembers, List.mem_cons, List.not_mem_nil, or_false] at hm
      simp only [Hdr.LB1_LINE, Hdr.LB2_LINE, Hdr.LB3_LINE, Hdr.LB4_LINE, Hdr.LB5_LINE, Hdr.LB6_LINE, Hdr.LB7_LINE,
        Hdr.LB9_LINE, Hdr.LB10_LINE, Hdr.LB15_LINE, Hdr.LB17_LINE, Hdr.L3N6_LINE, Hdr.L3N7_LINE] at hm
      omega
    rw [specLineEnergy_plain (lbWit x) 1 m hp, lbWit_singleEnergy x m ⟨r.1, r.2.1⟩ r.2.2.1 r.2.2.2]
    by_cases h : m = -34
    · simp [h, valOr0]
    · by_cases h' : m = -33
      · rcases hx.lt_or_eq with hx' | hx'
        · simp [h', hx', valOr0]
        · subst hx'; simp [h', valOr0, C09.lit0]
      · simp [h, h', valOr0, C09.lit0]

theorem wmean_congr (ms : List Int) (e r e' r' : Int → ℝ) (h : ∀ m ∈ ms, e m = e' m ∧ r m = r' m) :
    wmean ms e r = wmean ms e' r' := by
  have h1 : ms.foldl (fun acc m => if e m ≤ (0.0 : ℝ) then acc else acc + r m) (0.0 : ℝ) =
      ms.foldl (fun acc m => if e' m ≤ (0.0 : ℝ) then acc else acc + r' m) (0.0 : ℝ) :=
    foldl_congr_mem' ms (fun m hm acc => by rw [(h m hm).1, (h m hm).2]) _
  have h2 : ms.foldl (fun acc m => if e m ≤ (0.0 : ℝ) then acc else acc + e m * r m) (0.0 : ℝ) =
      ms.foldl (fun acc m => if e' m ≤ (0.0 : ℝ) then acc else acc + e' m * r' m) (0.0 : ℝ) :=
    foldl_congr_mem' ms (fun m hm acc => by rw [(h m hm).1, (h m hm).2]) _
  unfold wmean
  simp only [h1, h2]

theorem wmeanAll_congr (ms : List Int) (e r e' r' : Int → ℝ) (h : ∀ m ∈ ms, e m = e' m ∧ r m = r' m) :
    wmeanAll ms e r = wmeanAll ms e' r' := by
  have h1 : ms.foldl (fun acc m => acc + r m) (0.0 : ℝ) = ms.foldl (fun acc m => acc + r' m) (0.0 : ℝ) :=
    foldl_congr_mem' ms (fun m hm acc => by rw [(h m hm).2]) _
  have h2 : ms.foldl (fun acc m => acc + e m * r m) (0.0 : ℝ) = ms.foldl (fun acc m => acc + e' m * r' m) (0.0 : ℝ) :=
    foldl_congr_mem' ms (fun m hm acc => by rw [(h m hm).1, (h m hm).2]) _
  unfold wmeanAll
  simp only [h1, h2]

/-- on the witness: the two members weigh 1/2 each; energies 2 and `x` -/
theorem lbWit_specs (hx : 0 ≤ x) :
    Spec.LineEnergyLB (lbWit x) 1 = wmean lbEnergyMembers (fun m => if m = -34 then 2 else if m = -33 then x else 0)
      (fun m => if m = -34 ∨ m = -33 then 1 / 2 else 0) ∧
    Spec.LineEnergyLB0 (lbWit x) 1 = wmeanAll lbEnergyMembers (fun m => if m = -34 then 2 else if m = -33 then x else 0)
      (fun m => if m = -34 ∨ m = -33 then 1 / 2 else 0) := by
  unfold Spec.LineEnergyLB Spec.LineEnergyLB0
  have hz : ¬ (zOk 1 = false) := by decide
  simp only [hz, if_false]
  exact ⟨wmean_congr _ _ _ _ _ (fun m hm => ⟨lbWit_energy x hx m hm, lbWit_weight x m hm⟩),
    wmeanAll_congr _ _ _ _ _ (fun m hm => ⟨lbWit_energy x hx m hm, lbWit_weight x m hm⟩)⟩

/-- the text on the witness with `x = 0`: the only member with an energy is at 2 keV, so the group is at 2 keV -/
theorem lbWit0_text : Spec.LineEnergyLB (lbWit 0) 1 = .value 2 := by
  rw [(lbWit_specs 0 le_rfl).1]
  simp [wmean, lbEnergyMembers, Hdr.LB1_LINE, Hdr.LB2_LINE, Hdr.LB3_LINE, Hdr.LB4_LINE, Hdr.LB5_LINE,
    Hdr.LB6_LINE, Hdr.LB7_LINE, Hdr.LB9_LINE, Hdr.LB10_LINE, Hdr.LB15_LINE, Hdr.LB17_LINE, Hdr.L3N6_LINE, Hdr.L3N7_LINE,
    C09.lit0]
  norm_num

/-- the all-members reading on the same table: the energy-less member `LB4` enters with energy 0 and halves the result -/
theorem lbWit0_code : Spec.LineEnergyLB0 (lbWit 0) 1 = .value 1 := by
  rw [(lbWit_specs 0 le_rfl).2]
  simp [wmeanAll, lbEnergyMembers, Hdr.LB1_LINE, Hdr.LB2_LINE, Hdr.LB3_LINE, Hdr.LB4_LINE, Hdr.LB5_LINE,
    Hdr.LB6_LINE, Hdr.LB7_LINE, Hdr.LB9_LINE, Hdr.LB10_LINE, Hdr.LB15_LINE, Hdr.LB17_LINE, Hdr.L3N6_LINE, Hdr.L3N7_LINE,
    C09.lit0]
  norm_num

/-- **the generated `LineEnergy` on the witness returns 2 keV for L-beta**: the energy of the only member line that has
one; the weighted member `LB4` without an energy does not pull the mean to 1 keV (as `LineEnergyLB0` would) -/
theorem lbWit0_result : Gen.LineEnergy (lbWit 0) 1 Hdr.LB_LINE Slot.empty = Except.ok ((2 : ℝ), Slot.empty) := by
  have h := line_energy_lb_spec (lbWit 0) 1 Slot.empty rfl (lbWit_shape 0) (lbWit_order 0)
  rw [lbWit0_text] at h
  exact h

/-- the witness has a weighted member without an energy, `LB4 = L1M2` -/
theorem lbWit0_excluded : lbEnergyless (lbWit 0) 1 ≠ [] := by
  rw [Ne, lbEnergyless_nil_iff]
  intro h
  have := h (-33) (by decide)
  rw [lbWit_energy 0 le_rfl _ (by decide), lbWit_weight 0 _ (by decide)] at this
  norm_num at this

/-! ## the hypotheses of `line_energy_lb_spec` are satisfiable, with non-trivial results -/

theorem lbWit4_ok : lbEnergyless (lbWit 4) 1 = [] := by
  rw [lbEnergyless_nil_iff]
  intro m hm
  rw [lbWit_energy 4 (by norm_num) m hm, lbWit_weight 4 m hm]
  by_cases h : m = -34
  · simp [h]
  · by_cases h' : m = -33
    · simp [h']
    · simp [h, h']

theorem lbWit4_text : Spec.LineEnergyLB (lbWit 4) 1 = .value 3 := by
  rw [(lbWit_specs 4 (by norm_num)).1]
  simp [wmean, lbEnergyMembers, Hdr.LB1_LINE, Hdr.LB2_LINE, Hdr.LB3_LINE, Hdr.LB4_LINE, Hdr.LB5_LINE,
    Hdr.LB6_LINE, Hdr.LB7_LINE, Hdr.LB9_LINE, Hdr.LB10_LINE, Hdr.LB15_LINE, Hdr.LB17_LINE, Hdr.L3N6_LINE, Hdr.L3N7_LINE,
    C09.lit0]
  norm_num

/-- two members at 2 keV and 4 keV with equal weights: the hypotheses hold and L-beta is at 3 keV -/
example : ∃ (T : Tables ℝ) (Z : Int) (error : Slot), error.isFull = false ∧
    vecOkB (T.E_Photo_arr Z.toNat) (T.CS_Photo_arr Z.toNat) (T.CS_Photo_arr2 Z.toNat) (T.NE_Photo Z.toNat) = true ∧
    edgeOrderB T Z = true ∧ Spec.LineEnergyLB T Z = .value 3 ∧
    Gen.LineEnergy T Z Hdr.LB_LINE error = Except.ok ((3 : ℝ), error) :=
  ⟨lbWit 4, 1, Slot.empty, rfl, lbWit_shape 4, lbWit_order 4, lbWit4_text, by
    have h := line_energy_lb_spec (lbWit 4) 1 Slot.empty rfl (lbWit_shape 4) (lbWit_order 4)
    rw [lbWit4_text] at h
    exact h⟩

end C10
end Xrl
