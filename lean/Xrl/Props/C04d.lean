import Xrl.Props.C04
import Xrl.Props.C03d
/-!
# C04 (continued) — `LineEnergy` at `LB_LINE`: no undefined access

`no_ub_LineEnergy` (C04.lean) excludes the L-beta macro.  The L-beta branch of fluor_lines.c runs the 13-member loop over
`lb_pairs[]`, calls `LineEnergy` recursively and `EdgeEnergy` + `CS_FluorLine` per member: `no_ub_LineEnergy_LB` says that for
every `Z : Int` (`INT_MIN … INT_MAX`), every table of the shape the photo-absorption spline needs (`hP`) with ordered L edges
(`hO`; both are executable conditions, checked on the loaded tables by C02/C09's runs) and every non-full slot, no array subscript
of that branch leaves its declared bounds, no checked `int` operation overflows and the recursion ends within its fuel.
`no_ub_LineEnergy_all`: **every** macro value (the shape hypotheses are needed for the L-beta macro only).
-/
namespace Xrl
namespace C04
open Spec

variable (T : Tables ℝ) (Z m : Int) (error : Slot) (he : error.isFull = false)
include he

theorem no_ub_LineEnergy_LB
    (hP : vecOkB (T.E_Photo_arr Z.toNat) (T.CS_Photo_arr Z.toNat) (T.CS_Photo_arr2 Z.toNat) (T.NE_Photo Z.toNat) = true)
    (hO : edgeOrderB T Z = true) : NoAbort (Gen.LineEnergy T Z Hdr.LB_LINE error) :=
  noabort_of_contract (C03.contract_LineEnergy_LB T Z error he hP hO)

theorem no_ub_LineEnergy_all
    (hlb : m = Hdr.LB_LINE →
      vecOkB (T.E_Photo_arr Z.toNat) (T.CS_Photo_arr Z.toNat) (T.CS_Photo_arr2 Z.toNat) (T.NE_Photo Z.toNat) = true ∧
      edgeOrderB T Z = true) : NoAbort (Gen.LineEnergy T Z m error) :=
  noabort_of_contract (C03.contract_LineEnergy_all T Z m error he hlb)

omit he in
/-- non-vacuity: the hypotheses hold on the synthetic element of C10b, with an empty slot and with `NULL` -/
example : NoAbort (Gen.LineEnergy (C10.lbWit 4) 1 Hdr.LB_LINE Slot.empty) ∧
    NoAbort (Gen.LineEnergy (C10.lbWit 4) 1 Hdr.LB_LINE Slot.null) :=
  ⟨no_ub_LineEnergy_LB _ _ Slot.empty rfl (C10.lbWit_shape 4) (C10.lbWit_order 4),
   no_ub_LineEnergy_LB _ _ Slot.null rfl (C10.lbWit_shape 4) (C10.lbWit_order 4)⟩

end C04
end Xrl
