import Xrl.Props.C03
import Xrl.Props.C08f
/-!
# C03 (continued) — the calling contract for the Kissel cascade family (C08)

Separate from C03b.lean because the specification modules of C08 (Spec/Cascade2: `Spec.vacancy`) and of C09
(Spec/JumpRatio: `Spec.vacancy`) cannot be imported into one file.

* the 32 vacancy-production functions `P<shell>_{pure,rad_cascade,auger_cascade,full_cascade}_kissel`
  (xrf_cross_sections_aux.c), under the hypotheses of `C08.vacancy_spec_*`: the shell's own `CS_Photo_Partial` call
  (through the same slot) meets an expectation `own` that is a claim (`hna`), never the value 0 (`hnz`) and, for the
  variants that read the precomputed constants, a value only for an element inside the table (`hZ`);
  the inner-shell arguments `PK … PM4` are arbitrary reals;
* the 20 shell / line fluorescence cross sections `CS[b]_Fluor{Shell,Line}_Kissel[_<variant>]`, under `C08.OwnOK`
  (for every sub-shell `t` and every non-full slot, `CS_Photo_Partial(Z, t, E)` meets `own t`; never `.any`, never the
  value 0).  The side condition `hM` of the line theorems ("the ten intra-M macros carry no radiative rate", false for
  the shipped data) is NOT needed for the contract: on those macros the code fails whatever the tables hold
  (`C08.fluorline_intraM_rejected_*`), which is one of the two outcomes the contract allows.
-/
namespace Xrl
namespace C03
open Spec

set_option linter.unusedVariables false

theorem toBarnW_ne_any {w : ℝ} {x : Expect ℝ} (h : x ≠ .any) : toBarnW w x ≠ .any := by
  cases x <;> simp_all [toBarnW]

/-- inner-shell values given as a list `[PK, PL1, PL2, PL3, PM1, PM2, PM3, PM4]` (a prefix of it) -/
noncomputable def pk (a : List ℝ) : Int → ℝ := fun i => a.getD i.toNat 0

/-! ## the 32 vacancy-production functions -/

section vacancy
variable (T : Tables ℝ) (Z : Int) (E : ℝ) (error : Slot) (own : Expect ℝ)

theorem contract_PL1_pure_kissel (hown : Meets (Gen.CS_Photo_Partial T Z 1 E error) error own) (hna : own ≠ .any) :
    Contract (Gen.PL1_pure_kissel T Z E error) error :=
  contract_of_meets (C08.vacancy_spec_L1_none T Z E (pk []) error own hown hna) (C08.vacancy_ne_any hna)
theorem contract_PL1_rad_cascade_kissel (PK : ℝ) (hown : Meets (Gen.CS_Photo_Partial T Z 1 E error) error own) (hna : own ≠ .any) (hnz : ∀ o, own = .value o → o ≠ 0) :
    Contract (Gen.PL1_rad_cascade_kissel T Z E PK error) error :=
  contract_of_meets (C08.vacancy_spec_L1_rad T Z E (pk [PK]) error own hown hna hnz) (C08.vacancy_ne_any hna)
theorem contract_PL1_auger_cascade_kissel (PK : ℝ) (hown : Meets (Gen.CS_Photo_Partial T Z 1 E error) error own) (hna : own ≠ .any) (hnz : ∀ o, own = .value o → o ≠ 0) (hZ : ∀ o, own = .value o → 0 ≤ Z ∧ Z ≤ 120) :
    Contract (Gen.PL1_auger_cascade_kissel T Z E PK error) error :=
  contract_of_meets (C08.vacancy_spec_L1_auger T Z E (pk [PK]) error own hown hna hnz hZ) (C08.vacancy_ne_any hna)
theorem contract_PL1_full_cascade_kissel (PK : ℝ) (hown : Meets (Gen.CS_Photo_Partial T Z 1 E error) error own) (hna : own ≠ .any) (hnz : ∀ o, own = .value o → o ≠ 0) (hZ : ∀ o, own = .value o → 0 ≤ Z ∧ Z ≤ 120) :
    Contract (Gen.PL1_full_cascade_kissel T Z E PK error) error :=
  contract_of_meets (C08.vacancy_spec_L1_full T Z E (pk [PK]) error own hown hna hnz hZ) (C08.vacancy_ne_any hna)
theorem contract_PL2_pure_kissel (PL1 : ℝ) (hown : Meets (Gen.CS_Photo_Partial T Z 2 E error) error own) (hna : own ≠ .any) (hnz : ∀ o, own = .value o → o ≠ 0) :
    Contract (Gen.PL2_pure_kissel T Z E PL1 error) error :=
  contract_of_meets (C08.vacancy_spec_L2_none T Z E (pk [0, PL1]) error own hown hna hnz) (C08.vacancy_ne_any hna)
theorem contract_PL2_rad_cascade_kissel (PK PL1 : ℝ) (hown : Meets (Gen.CS_Photo_Partial T Z 2 E error) error own) (hna : own ≠ .any) (hnz : ∀ o, own = .value o → o ≠ 0) :
    Contract (Gen.PL2_rad_cascade_kissel T Z E PK PL1 error) error :=
  contract_of_meets (C08.vacancy_spec_L2_rad T Z E (pk [PK, PL1]) error own hown hna hnz) (C08.vacancy_ne_any hna)
theorem contract_PL2_auger_cascade_kissel (PK PL1 : ℝ) (hown : Meets (Gen.CS_Photo_Partial T Z 2 E error) error own) (hna : own ≠ .any) (hnz : ∀ o, own = .value o → o ≠ 0) (hZ : ∀ o, own = .value o → 0 ≤ Z ∧ Z ≤ 120) :
    Contract (Gen.PL2_auger_cascade_kissel T Z E PK PL1 error) error :=
  contract_of_meets (C08.vacancy_spec_L2_auger T Z E (pk [PK, PL1]) error own hown hna hnz hZ) (C08.vacancy_ne_any hna)
theorem contract_PL2_full_cascade_kissel (PK PL1 : ℝ) (hown : Meets (Gen.CS_Photo_Partial T Z 2 E error) error own) (hna : own ≠ .any) (hnz : ∀ o, own = .value o → o ≠ 0) (hZ : ∀ o, own = .value o → 0 ≤ Z ∧ Z ≤ 120) :
    Contract (Gen.PL2_full_cascade_kissel T Z E PK PL1 error) error :=
  contract_of_meets (C08.vacancy_spec_L2_full T Z E (pk [PK, PL1]) error own hown hna hnz hZ) (C08.vacancy_ne_any hna)
theorem contract_PL3_pure_kissel (PL1 PL2 : ℝ) (hown : Meets (Gen.CS_Photo_Partial T Z 3 E error) error own) (hna : own ≠ .any) (hnz : ∀ o, own = .value o → o ≠ 0) :
    Contract (Gen.PL3_pure_kissel T Z E PL1 PL2 error) error :=
  contract_of_meets (C08.vacancy_spec_L3_none T Z E (pk [0, PL1, PL2]) error own hown hna hnz) (C08.vacancy_ne_any hna)
theorem contract_PL3_rad_cascade_kissel (PK PL1 PL2 : ℝ) (hown : Meets (Gen.CS_Photo_Partial T Z 3 E error) error own) (hna : own ≠ .any) (hnz : ∀ o, own = .value o → o ≠ 0) :
    Contract (Gen.PL3_rad_cascade_kissel T Z E PK PL1 PL2 error) error :=
  contract_of_meets (C08.vacancy_spec_L3_rad T Z E (pk [PK, PL1, PL2]) error own hown hna hnz) (C08.vacancy_ne_any hna)
theorem contract_PL3_auger_cascade_kissel (PK PL1 PL2 : ℝ) (hown : Meets (Gen.CS_Photo_Partial T Z 3 E error) error own) (hna : own ≠ .any) (hnz : ∀ o, own = .value o → o ≠ 0) (hZ : ∀ o, own = .value o → 0 ≤ Z ∧ Z ≤ 120) :
    Contract (Gen.PL3_auger_cascade_kissel T Z E PK PL1 PL2 error) error :=
  contract_of_meets (C08.vacancy_spec_L3_auger T Z E (pk [PK, PL1, PL2]) error own hown hna hnz hZ) (C08.vacancy_ne_any hna)
theorem contract_PL3_full_cascade_kissel (PK PL1 PL2 : ℝ) (hown : Meets (Gen.CS_Photo_Partial T Z 3 E error) error own) (hna : own ≠ .any) (hnz : ∀ o, own = .value o → o ≠ 0) (hZ : ∀ o, own = .value o → 0 ≤ Z ∧ Z ≤ 120) :
    Contract (Gen.PL3_full_cascade_kissel T Z E PK PL1 PL2 error) error :=
  contract_of_meets (C08.vacancy_spec_L3_full T Z E (pk [PK, PL1, PL2]) error own hown hna hnz hZ) (C08.vacancy_ne_any hna)
theorem contract_PM1_pure_kissel (hown : Meets (Gen.CS_Photo_Partial T Z 4 E error) error own) (hna : own ≠ .any) :
    Contract (Gen.PM1_pure_kissel T Z E error) error :=
  contract_of_meets (C08.vacancy_spec_M1_none T Z E (pk []) error own hown hna) (C08.vacancy_ne_any hna)
theorem contract_PM1_rad_cascade_kissel (PK PL1 PL2 PL3 : ℝ) (hown : Meets (Gen.CS_Photo_Partial T Z 4 E error) error own) (hna : own ≠ .any) (hnz : ∀ o, own = .value o → o ≠ 0) :
    Contract (Gen.PM1_rad_cascade_kissel T Z E PK PL1 PL2 PL3 error) error :=
  contract_of_meets (C08.vacancy_spec_M1_rad T Z E (pk [PK, PL1, PL2, PL3]) error own hown hna hnz) (C08.vacancy_ne_any hna)
theorem contract_PM1_auger_cascade_kissel (PK PL1 PL2 PL3 : ℝ) (hown : Meets (Gen.CS_Photo_Partial T Z 4 E error) error own) (hna : own ≠ .any) (hnz : ∀ o, own = .value o → o ≠ 0) (hZ : ∀ o, own = .value o → 0 ≤ Z ∧ Z ≤ 120) :
    Contract (Gen.PM1_auger_cascade_kissel T Z E PK PL1 PL2 PL3 error) error :=
  contract_of_meets (C08.vacancy_spec_M1_auger T Z E (pk [PK, PL1, PL2, PL3]) error own hown hna hnz hZ) (C08.vacancy_ne_any hna)
theorem contract_PM1_full_cascade_kissel (PK PL1 PL2 PL3 : ℝ) (hown : Meets (Gen.CS_Photo_Partial T Z 4 E error) error own) (hna : own ≠ .any) (hnz : ∀ o, own = .value o → o ≠ 0) (hZ : ∀ o, own = .value o → 0 ≤ Z ∧ Z ≤ 120) :
    Contract (Gen.PM1_full_cascade_kissel T Z E PK PL1 PL2 PL3 error) error :=
  contract_of_meets (C08.vacancy_spec_M1_full T Z E (pk [PK, PL1, PL2, PL3]) error own hown hna hnz hZ) (C08.vacancy_ne_any hna)
theorem contract_PM2_pure_kissel (PM1 : ℝ) (hown : Meets (Gen.CS_Photo_Partial T Z 5 E error) error own) (hna : own ≠ .any) (hnz : ∀ o, own = .value o → o ≠ 0) :
    Contract (Gen.PM2_pure_kissel T Z E PM1 error) error :=
  contract_of_meets (C08.vacancy_spec_M2_none T Z E (pk [0, 0, 0, 0, PM1]) error own hown hna hnz) (C08.vacancy_ne_any hna)
theorem contract_PM2_rad_cascade_kissel (PK PL1 PL2 PL3 PM1 : ℝ) (hown : Meets (Gen.CS_Photo_Partial T Z 5 E error) error own) (hna : own ≠ .any) (hnz : ∀ o, own = .value o → o ≠ 0) :
    Contract (Gen.PM2_rad_cascade_kissel T Z E PK PL1 PL2 PL3 PM1 error) error :=
  contract_of_meets (C08.vacancy_spec_M2_rad T Z E (pk [PK, PL1, PL2, PL3, PM1]) error own hown hna hnz) (C08.vacancy_ne_any hna)
theorem contract_PM2_auger_cascade_kissel (PK PL1 PL2 PL3 PM1 : ℝ) (hown : Meets (Gen.CS_Photo_Partial T Z 5 E error) error own) (hna : own ≠ .any) (hnz : ∀ o, own = .value o → o ≠ 0) (hZ : ∀ o, own = .value o → 0 ≤ Z ∧ Z ≤ 120) :
    Contract (Gen.PM2_auger_cascade_kissel T Z E PK PL1 PL2 PL3 PM1 error) error :=
  contract_of_meets (C08.vacancy_spec_M2_auger T Z E (pk [PK, PL1, PL2, PL3, PM1]) error own hown hna hnz hZ) (C08.vacancy_ne_any hna)
theorem contract_PM2_full_cascade_kissel (PK PL1 PL2 PL3 PM1 : ℝ) (hown : Meets (Gen.CS_Photo_Partial T Z 5 E error) error own) (hna : own ≠ .any) (hnz : ∀ o, own = .value o → o ≠ 0) (hZ : ∀ o, own = .value o → 0 ≤ Z ∧ Z ≤ 120) :
    Contract (Gen.PM2_full_cascade_kissel T Z E PK PL1 PL2 PL3 PM1 error) error :=
  contract_of_meets (C08.vacancy_spec_M2_full T Z E (pk [PK, PL1, PL2, PL3, PM1]) error own hown hna hnz hZ) (C08.vacancy_ne_any hna)
theorem contract_PM3_pure_kissel (PM1 PM2 : ℝ) (hown : Meets (Gen.CS_Photo_Partial T Z 6 E error) error own) (hna : own ≠ .any) (hnz : ∀ o, own = .value o → o ≠ 0) :
    Contract (Gen.PM3_pure_kissel T Z E PM1 PM2 error) error :=
  contract_of_meets (C08.vacancy_spec_M3_none T Z E (pk [0, 0, 0, 0, PM1, PM2]) error own hown hna hnz) (C08.vacancy_ne_any hna)
theorem contract_PM3_rad_cascade_kissel (PK PL1 PL2 PL3 PM1 PM2 : ℝ) (hown : Meets (Gen.CS_Photo_Partial T Z 6 E error) error own) (hna : own ≠ .any) (hnz : ∀ o, own = .value o → o ≠ 0) :
    Contract (Gen.PM3_rad_cascade_kissel T Z E PK PL1 PL2 PL3 PM1 PM2 error) error :=
  contract_of_meets (C08.vacancy_spec_M3_rad T Z E (pk [PK, PL1, PL2, PL3, PM1, PM2]) error own hown hna hnz) (C08.vacancy_ne_any hna)
theorem contract_PM3_auger_cascade_kissel (PK PL1 PL2 PL3 PM1 PM2 : ℝ) (hown : Meets (Gen.CS_Photo_Partial T Z 6 E error) error own) (hna : own ≠ .any) (hnz : ∀ o, own = .value o → o ≠ 0) (hZ : ∀ o, own = .value o → 0 ≤ Z ∧ Z ≤ 120) :
    Contract (Gen.PM3_auger_cascade_kissel T Z E PK PL1 PL2 PL3 PM1 PM2 error) error :=
  contract_of_meets (C08.vacancy_spec_M3_auger T Z E (pk [PK, PL1, PL2, PL3, PM1, PM2]) error own hown hna hnz hZ) (C08.vacancy_ne_any hna)
theorem contract_PM3_full_cascade_kissel (PK PL1 PL2 PL3 PM1 PM2 : ℝ) (hown : Meets (Gen.CS_Photo_Partial T Z 6 E error) error own) (hna : own ≠ .any) (hnz : ∀ o, own = .value o → o ≠ 0) (hZ : ∀ o, own = .value o → 0 ≤ Z ∧ Z ≤ 120) :
    Contract (Gen.PM3_full_cascade_kissel T Z E PK PL1 PL2 PL3 PM1 PM2 error) error :=
  contract_of_meets (C08.vacancy_spec_M3_full T Z E (pk [PK, PL1, PL2, PL3, PM1, PM2]) error own hown hna hnz hZ) (C08.vacancy_ne_any hna)
theorem contract_PM4_pure_kissel (PM1 PM2 PM3 : ℝ) (hown : Meets (Gen.CS_Photo_Partial T Z 7 E error) error own) (hna : own ≠ .any) (hnz : ∀ o, own = .value o → o ≠ 0) :
    Contract (Gen.PM4_pure_kissel T Z E PM1 PM2 PM3 error) error :=
  contract_of_meets (C08.vacancy_spec_M4_none T Z E (pk [0, 0, 0, 0, PM1, PM2, PM3]) error own hown hna hnz) (C08.vacancy_ne_any hna)
theorem contract_PM4_rad_cascade_kissel (PK PL1 PL2 PL3 PM1 PM2 PM3 : ℝ) (hown : Meets (Gen.CS_Photo_Partial T Z 7 E error) error own) (hna : own ≠ .any) (hnz : ∀ o, own = .value o → o ≠ 0) :
    Contract (Gen.PM4_rad_cascade_kissel T Z E PK PL1 PL2 PL3 PM1 PM2 PM3 error) error :=
  contract_of_meets (C08.vacancy_spec_M4_rad T Z E (pk [PK, PL1, PL2, PL3, PM1, PM2, PM3]) error own hown hna hnz) (C08.vacancy_ne_any hna)
theorem contract_PM4_auger_cascade_kissel (PK PL1 PL2 PL3 PM1 PM2 PM3 : ℝ) (hown : Meets (Gen.CS_Photo_Partial T Z 7 E error) error own) (hna : own ≠ .any) (hnz : ∀ o, own = .value o → o ≠ 0) (hZ : ∀ o, own = .value o → 0 ≤ Z ∧ Z ≤ 120) :
    Contract (Gen.PM4_auger_cascade_kissel T Z E PK PL1 PL2 PL3 PM1 PM2 PM3 error) error :=
  contract_of_meets (C08.vacancy_spec_M4_auger T Z E (pk [PK, PL1, PL2, PL3, PM1, PM2, PM3]) error own hown hna hnz hZ) (C08.vacancy_ne_any hna)
theorem contract_PM4_full_cascade_kissel (PK PL1 PL2 PL3 PM1 PM2 PM3 : ℝ) (hown : Meets (Gen.CS_Photo_Partial T Z 7 E error) error own) (hna : own ≠ .any) (hnz : ∀ o, own = .value o → o ≠ 0) (hZ : ∀ o, own = .value o → 0 ≤ Z ∧ Z ≤ 120) :
    Contract (Gen.PM4_full_cascade_kissel T Z E PK PL1 PL2 PL3 PM1 PM2 PM3 error) error :=
  contract_of_meets (C08.vacancy_spec_M4_full T Z E (pk [PK, PL1, PL2, PL3, PM1, PM2, PM3]) error own hown hna hnz hZ) (C08.vacancy_ne_any hna)
theorem contract_PM5_pure_kissel (PM1 PM2 PM3 PM4 : ℝ) (hown : Meets (Gen.CS_Photo_Partial T Z 8 E error) error own) (hna : own ≠ .any) (hnz : ∀ o, own = .value o → o ≠ 0) :
    Contract (Gen.PM5_pure_kissel T Z E PM1 PM2 PM3 PM4 error) error :=
  contract_of_meets (C08.vacancy_spec_M5_none T Z E (pk [0, 0, 0, 0, PM1, PM2, PM3, PM4]) error own hown hna hnz) (C08.vacancy_ne_any hna)
theorem contract_PM5_rad_cascade_kissel (PK PL1 PL2 PL3 PM1 PM2 PM3 PM4 : ℝ) (hown : Meets (Gen.CS_Photo_Partial T Z 8 E error) error own) (hna : own ≠ .any) (hnz : ∀ o, own = .value o → o ≠ 0) :
    Contract (Gen.PM5_rad_cascade_kissel T Z E PK PL1 PL2 PL3 PM1 PM2 PM3 PM4 error) error :=
  contract_of_meets (C08.vacancy_spec_M5_rad T Z E (pk [PK, PL1, PL2, PL3, PM1, PM2, PM3, PM4]) error own hown hna hnz) (C08.vacancy_ne_any hna)
theorem contract_PM5_auger_cascade_kissel (PK PL1 PL2 PL3 PM1 PM2 PM3 PM4 : ℝ) (hown : Meets (Gen.CS_Photo_Partial T Z 8 E error) error own) (hna : own ≠ .any) (hnz : ∀ o, own = .value o → o ≠ 0) (hZ : ∀ o, own = .value o → 0 ≤ Z ∧ Z ≤ 120) :
    Contract (Gen.PM5_auger_cascade_kissel T Z E PK PL1 PL2 PL3 PM1 PM2 PM3 PM4 error) error :=
  contract_of_meets (C08.vacancy_spec_M5_auger T Z E (pk [PK, PL1, PL2, PL3, PM1, PM2, PM3, PM4]) error own hown hna hnz hZ) (C08.vacancy_ne_any hna)
theorem contract_PM5_full_cascade_kissel (PK PL1 PL2 PL3 PM1 PM2 PM3 PM4 : ℝ) (hown : Meets (Gen.CS_Photo_Partial T Z 8 E error) error own) (hna : own ≠ .any) (hnz : ∀ o, own = .value o → o ≠ 0) (hZ : ∀ o, own = .value o → 0 ≤ Z ∧ Z ≤ 120) :
    Contract (Gen.PM5_full_cascade_kissel T Z E PK PL1 PL2 PL3 PM1 PM2 PM3 PM4 error) error :=
  contract_of_meets (C08.vacancy_spec_M5_full T Z E (pk [PK, PL1, PL2, PL3, PM1, PM2, PM3, PM4]) error own hown hna hnz hZ) (C08.vacancy_ne_any hna)

end vacancy

/-! ## shell and line fluorescence cross sections, cm²/g and barn/atom -/

section fluor
variable (T : Tables ℝ) (Z shell line : Int) (E : ℝ) (error : Slot) (he : error.isFull = false)
  (own : Int → Expect ℝ) (ho : C08.OwnOK T Z E own)
include he ho

theorem contract_CS_FluorShell_Kissel_no_Cascade : Contract (Gen.CS_FluorShell_Kissel_no_Cascade T Z shell E error) error :=
  contract_of_meets (C08.fluorshell_spec_none T Z E error own shell he ho) (C08.fluorShell_ne_any T Z E ho.ne_any shell)
theorem contract_CSb_FluorShell_Kissel_no_Cascade : Contract (Gen.CSb_FluorShell_Kissel_no_Cascade T Z shell E error) error :=
  contract_of_meets (C08.barn_twin_shell_none T Z E error shell own he ho)
    (toBarnW_ne_any (C08.fluorShell_ne_any T Z E ho.ne_any shell))
theorem contract_CS_FluorLine_Kissel_no_Cascade : Contract (Gen.CS_FluorLine_Kissel_no_Cascade T Z line E error) error := by
  by_cases hl : line ∈ C08.intraM
  · exact Or.inr (C08.fluorline_intraM_rejected_none T Z E error line he hl)
  · exact contract_of_meets (C08.fluorline_spec_none T Z E error line own he ho (fun h => absurd h hl))
      (C08.fluorLine_ne_any T Z E own ho.ne_any line)
theorem contract_CSb_FluorLine_Kissel_no_Cascade : Contract (Gen.CSb_FluorLine_Kissel_no_Cascade T Z line E error) error := by
  by_cases hl : line ∈ C08.intraM
  · unfold Gen.CSb_FluorLine_Kissel_no_Cascade
    exact contract_of_meets (C08.barn_twin_kissel T Z error (Gen.CS_FluorLine_Kissel_no_Cascade T Z line E) .fails
      (C08.fluorline_intraM_rejected_none T Z E error line he hl) (fun _ h => by cases h)) (by simp [toBarnW])
  · exact contract_of_meets (C08.barn_twin_line_none T Z E error line own he ho (fun h => absurd h hl))
      (toBarnW_ne_any (C08.fluorLine_ne_any T Z E own ho.ne_any line))

theorem contract_CS_FluorShell_Kissel_Radiative_Cascade : Contract (Gen.CS_FluorShell_Kissel_Radiative_Cascade T Z shell E error) error :=
  contract_of_meets (C08.fluorshell_spec_rad T Z E error own shell he ho) (C08.fluorShell_ne_any T Z E ho.ne_any shell)
theorem contract_CSb_FluorShell_Kissel_Radiative_Cascade : Contract (Gen.CSb_FluorShell_Kissel_Radiative_Cascade T Z shell E error) error :=
  contract_of_meets (C08.barn_twin_shell_rad T Z E error shell own he ho)
    (toBarnW_ne_any (C08.fluorShell_ne_any T Z E ho.ne_any shell))
theorem contract_CS_FluorLine_Kissel_Radiative_Cascade : Contract (Gen.CS_FluorLine_Kissel_Radiative_Cascade T Z line E error) error := by
  by_cases hl : line ∈ C08.intraM
  · exact Or.inr (C08.fluorline_intraM_rejected_rad T Z E error line he hl)
  · exact contract_of_meets (C08.fluorline_spec_rad T Z E error line own he ho (fun h => absurd h hl))
      (C08.fluorLine_ne_any T Z E own ho.ne_any line)
theorem contract_CSb_FluorLine_Kissel_Radiative_Cascade : Contract (Gen.CSb_FluorLine_Kissel_Radiative_Cascade T Z line E error) error := by
  by_cases hl : line ∈ C08.intraM
  · unfold Gen.CSb_FluorLine_Kissel_Radiative_Cascade
    exact contract_of_meets (C08.barn_twin_kissel T Z error (Gen.CS_FluorLine_Kissel_Radiative_Cascade T Z line E) .fails
      (C08.fluorline_intraM_rejected_rad T Z E error line he hl) (fun _ h => by cases h)) (by simp [toBarnW])
  · exact contract_of_meets (C08.barn_twin_line_rad T Z E error line own he ho (fun h => absurd h hl))
      (toBarnW_ne_any (C08.fluorLine_ne_any T Z E own ho.ne_any line))

theorem contract_CS_FluorShell_Kissel_Nonradiative_Cascade : Contract (Gen.CS_FluorShell_Kissel_Nonradiative_Cascade T Z shell E error) error :=
  contract_of_meets (C08.fluorshell_spec_auger T Z E error own shell he ho) (C08.fluorShell_ne_any T Z E ho.ne_any shell)
theorem contract_CSb_FluorShell_Kissel_Nonradiative_Cascade : Contract (Gen.CSb_FluorShell_Kissel_Nonradiative_Cascade T Z shell E error) error :=
  contract_of_meets (C08.barn_twin_shell_auger T Z E error shell own he ho)
    (toBarnW_ne_any (C08.fluorShell_ne_any T Z E ho.ne_any shell))
theorem contract_CS_FluorLine_Kissel_Nonradiative_Cascade : Contract (Gen.CS_FluorLine_Kissel_Nonradiative_Cascade T Z line E error) error := by
  by_cases hl : line ∈ C08.intraM
  · exact Or.inr (C08.fluorline_intraM_rejected_auger T Z E error line he hl)
  · exact contract_of_meets (C08.fluorline_spec_auger T Z E error line own he ho (fun h => absurd h hl))
      (C08.fluorLine_ne_any T Z E own ho.ne_any line)
theorem contract_CSb_FluorLine_Kissel_Nonradiative_Cascade : Contract (Gen.CSb_FluorLine_Kissel_Nonradiative_Cascade T Z line E error) error := by
  by_cases hl : line ∈ C08.intraM
  · unfold Gen.CSb_FluorLine_Kissel_Nonradiative_Cascade
    exact contract_of_meets (C08.barn_twin_kissel T Z error (Gen.CS_FluorLine_Kissel_Nonradiative_Cascade T Z line E) .fails
      (C08.fluorline_intraM_rejected_auger T Z E error line he hl) (fun _ h => by cases h)) (by simp [toBarnW])
  · exact contract_of_meets (C08.barn_twin_line_auger T Z E error line own he ho (fun h => absurd h hl))
      (toBarnW_ne_any (C08.fluorLine_ne_any T Z E own ho.ne_any line))

theorem contract_CS_FluorShell_Kissel_Cascade : Contract (Gen.CS_FluorShell_Kissel_Cascade T Z shell E error) error :=
  contract_of_meets (C08.fluorshell_spec_full T Z E error own shell he ho) (C08.fluorShell_ne_any T Z E ho.ne_any shell)
theorem contract_CSb_FluorShell_Kissel_Cascade : Contract (Gen.CSb_FluorShell_Kissel_Cascade T Z shell E error) error :=
  contract_of_meets (C08.barn_twin_shell_full T Z E error shell own he ho)
    (toBarnW_ne_any (C08.fluorShell_ne_any T Z E ho.ne_any shell))
theorem contract_CS_FluorLine_Kissel_Cascade : Contract (Gen.CS_FluorLine_Kissel_Cascade T Z line E error) error := by
  by_cases hl : line ∈ C08.intraM
  · exact Or.inr (C08.fluorline_intraM_rejected_full T Z E error line he hl)
  · exact contract_of_meets (C08.fluorline_spec_full T Z E error line own he ho (fun h => absurd h hl))
      (C08.fluorLine_ne_any T Z E own ho.ne_any line)
theorem contract_CSb_FluorLine_Kissel_Cascade : Contract (Gen.CSb_FluorLine_Kissel_Cascade T Z line E error) error := by
  by_cases hl : line ∈ C08.intraM
  · unfold Gen.CSb_FluorLine_Kissel_Cascade
    exact contract_of_meets (C08.barn_twin_kissel T Z error (Gen.CS_FluorLine_Kissel_Cascade T Z line E) .fails
      (C08.fluorline_intraM_rejected_full T Z E error line he hl) (fun _ h => by cases h)) (by simp [toBarnW])
  · exact contract_of_meets (C08.barn_twin_line_full T Z E error line own he ho (fun h => absurd h hl))
      (toBarnW_ne_any (C08.fluorLine_ne_any T Z E own ho.ne_any line))

/-! the un-suffixed entry points are the full-cascade functions -/

theorem contract_CS_FluorShell_Kissel : Contract (Gen.CS_FluorShell_Kissel T Z shell E error) error :=
  contract_of_meets (C08.fluorshell_spec T Z E error own shell he ho) (C08.fluorShell_ne_any T Z E ho.ne_any shell)
theorem contract_CSb_FluorShell_Kissel : Contract (Gen.CSb_FluorShell_Kissel T Z shell E error) error :=
  contract_of_meets (C08.barn_twin_shell T Z E error shell own he ho)
    (toBarnW_ne_any (C08.fluorShell_ne_any T Z E ho.ne_any shell))
theorem contract_CS_FluorLine_Kissel : Contract (Gen.CS_FluorLine_Kissel T Z line E error) error := by
  rw [C08.unsuffixed_is_full_line]
  exact contract_CS_FluorLine_Kissel_Cascade T Z line E error he own ho
theorem contract_CSb_FluorLine_Kissel : Contract (Gen.CSb_FluorLine_Kissel T Z line E error) error := by
  by_cases hl : line ∈ C08.intraM
  · unfold Gen.CSb_FluorLine_Kissel
    exact contract_of_meets (C08.barn_twin_kissel T Z error (Gen.CS_FluorLine_Kissel_Cascade T Z line E) .fails
      (C08.fluorline_intraM_rejected_full T Z E error line he hl) (fun _ h => by cases h)) (by simp [toBarnW])
  · exact contract_of_meets (C08.barn_twin_line T Z E error line own he ho (fun h => absurd h hl))
      (toBarnW_ne_any (C08.fluorLine_ne_any T Z E own ho.ne_any line))

end fluor

/-! ## "passing no error slot changes nothing but the reporting" (shell and line functions) -/

theorem null_slot_of_meets {f : Slot → M (ℝ × Slot)} {x : Expect ℝ}
    (h : ∀ error : Slot, error.isFull = false → Meets (f error) error x) (hx : x ≠ .any) :
    ∃ v s, f Slot.null = Except.ok (v, Slot.null) ∧ f Slot.empty = Except.ok (v, s) :=
  null_slot_same_value (h Slot.null rfl) (h Slot.empty rfl) hx

section nullslot
variable (T : Tables ℝ) (Z shell line : Int) (E : ℝ) (own : Int → Expect ℝ) (ho : C08.OwnOK T Z E own)
include ho

theorem null_slot_CS_FluorShell_Kissel_no_Cascade : ∃ v s, Gen.CS_FluorShell_Kissel_no_Cascade T Z shell E Slot.null = Except.ok (v, Slot.null) ∧ Gen.CS_FluorShell_Kissel_no_Cascade T Z shell E Slot.empty = Except.ok (v, s) :=
  null_slot_of_meets (f := Gen.CS_FluorShell_Kissel_no_Cascade T Z shell E) (fun e he => C08.fluorshell_spec_none T Z E e own shell he ho)
    (C08.fluorShell_ne_any T Z E ho.ne_any shell)
theorem null_slot_CSb_FluorShell_Kissel_no_Cascade : ∃ v s, Gen.CSb_FluorShell_Kissel_no_Cascade T Z shell E Slot.null = Except.ok (v, Slot.null) ∧ Gen.CSb_FluorShell_Kissel_no_Cascade T Z shell E Slot.empty = Except.ok (v, s) :=
  null_slot_of_meets (f := Gen.CSb_FluorShell_Kissel_no_Cascade T Z shell E) (fun e he => C08.barn_twin_shell_none T Z E e shell own he ho)
    (toBarnW_ne_any (C08.fluorShell_ne_any T Z E ho.ne_any shell))
theorem null_slot_CS_FluorLine_Kissel_no_Cascade : ∃ v s, Gen.CS_FluorLine_Kissel_no_Cascade T Z line E Slot.null = Except.ok (v, Slot.null) ∧ Gen.CS_FluorLine_Kissel_no_Cascade T Z line E Slot.empty = Except.ok (v, s) := by
  by_cases hl : line ∈ C08.intraM
  · exact null_slot_of_meets (f := Gen.CS_FluorLine_Kissel_no_Cascade T Z line E) (x := .fails)
      (fun e he => C08.fluorline_intraM_rejected_none T Z E e line he hl) (by simp)
  · exact null_slot_of_meets (f := Gen.CS_FluorLine_Kissel_no_Cascade T Z line E)
      (fun e he => C08.fluorline_spec_none T Z E e line own he ho (fun h => absurd h hl))
      (C08.fluorLine_ne_any T Z E own ho.ne_any line)
theorem null_slot_CSb_FluorLine_Kissel_no_Cascade : ∃ v s, Gen.CSb_FluorLine_Kissel_no_Cascade T Z line E Slot.null = Except.ok (v, Slot.null) ∧ Gen.CSb_FluorLine_Kissel_no_Cascade T Z line E Slot.empty = Except.ok (v, s) := by
  by_cases hl : line ∈ C08.intraM
  · exact null_slot_of_meets (f := Gen.CSb_FluorLine_Kissel_no_Cascade T Z line E) (x := toBarnW (T.AtomicWeight_arr Z.toNat) .fails)
      (fun e he => by
        unfold Gen.CSb_FluorLine_Kissel_no_Cascade
        exact C08.barn_twin_kissel T Z e (Gen.CS_FluorLine_Kissel_no_Cascade T Z line E) .fails
          (C08.fluorline_intraM_rejected_none T Z E e line he hl) (fun _ h => by cases h)) (by simp [toBarnW])
  · exact null_slot_of_meets (f := Gen.CSb_FluorLine_Kissel_no_Cascade T Z line E)
      (fun e he => C08.barn_twin_line_none T Z E e line own he ho (fun h => absurd h hl))
      (toBarnW_ne_any (C08.fluorLine_ne_any T Z E own ho.ne_any line))
theorem null_slot_CS_FluorShell_Kissel_Radiative_Cascade : ∃ v s, Gen.CS_FluorShell_Kissel_Radiative_Cascade T Z shell E Slot.null = Except.ok (v, Slot.null) ∧ Gen.CS_FluorShell_Kissel_Radiative_Cascade T Z shell E Slot.empty = Except.ok (v, s) :=
  null_slot_of_meets (f := Gen.CS_FluorShell_Kissel_Radiative_Cascade T Z shell E) (fun e he => C08.fluorshell_spec_rad T Z E e own shell he ho)
    (C08.fluorShell_ne_any T Z E ho.ne_any shell)
theorem null_slot_CSb_FluorShell_Kissel_Radiative_Cascade : ∃ v s, Gen.CSb_FluorShell_Kissel_Radiative_Cascade T Z shell E Slot.null = Except.ok (v, Slot.null) ∧ Gen.CSb_FluorShell_Kissel_Radiative_Cascade T Z shell E Slot.empty = Except.ok (v, s) :=
  null_slot_of_meets (f := Gen.CSb_FluorShell_Kissel_Radiative_Cascade T Z shell E) (fun e he => C08.barn_twin_shell_rad T Z E e shell own he ho)
    (toBarnW_ne_any (C08.fluorShell_ne_any T Z E ho.ne_any shell))
theorem null_slot_CS_FluorLine_Kissel_Radiative_Cascade : ∃ v s, Gen.CS_FluorLine_Kissel_Radiative_Cascade T Z line E Slot.null = Except.ok (v, Slot.null) ∧ Gen.CS_FluorLine_Kissel_Radiative_Cascade T Z line E Slot.empty = Except.ok (v, s) := by
  by_cases hl : line ∈ C08.intraM
  · exact null_slot_of_meets (f := Gen.CS_FluorLine_Kissel_Radiative_Cascade T Z line E) (x := .fails)
      (fun e he => C08.fluorline_intraM_rejected_rad T Z E e line he hl) (by simp)
  · exact null_slot_of_meets (f := Gen.CS_FluorLine_Kissel_Radiative_Cascade T Z line E)
      (fun e he => C08.fluorline_spec_rad T Z E e line own he ho (fun h => absurd h hl))
      (C08.fluorLine_ne_any T Z E own ho.ne_any line)
theorem null_slot_CSb_FluorLine_Kissel_Radiative_Cascade : ∃ v s, Gen.CSb_FluorLine_Kissel_Radiative_Cascade T Z line E Slot.null = Except.ok (v, Slot.null) ∧ Gen.CSb_FluorLine_Kissel_Radiative_Cascade T Z line E Slot.empty = Except.ok (v, s) := by
  by_cases hl : line ∈ C08.intraM
  · exact null_slot_of_meets (f := Gen.CSb_FluorLine_Kissel_Radiative_Cascade T Z line E) (x := toBarnW (T.AtomicWeight_arr Z.toNat) .fails)
      (fun e he => by
        unfold Gen.CSb_FluorLine_Kissel_Radiative_Cascade
        exact C08.barn_twin_kissel T Z e (Gen.CS_FluorLine_Kissel_Radiative_Cascade T Z line E) .fails
          (C08.fluorline_intraM_rejected_rad T Z E e line he hl) (fun _ h => by cases h)) (by simp [toBarnW])
  · exact null_slot_of_meets (f := Gen.CSb_FluorLine_Kissel_Radiative_Cascade T Z line E)
      (fun e he => C08.barn_twin_line_rad T Z E e line own he ho (fun h => absurd h hl))
      (toBarnW_ne_any (C08.fluorLine_ne_any T Z E own ho.ne_any line))
theorem null_slot_CS_FluorShell_Kissel_Nonradiative_Cascade : ∃ v s, Gen.CS_FluorShell_Kissel_Nonradiative_Cascade T Z shell E Slot.null = Except.ok (v, Slot.null) ∧ Gen.CS_FluorShell_Kissel_Nonradiative_Cascade T Z shell E Slot.empty = Except.ok (v, s) :=
  null_slot_of_meets (f := Gen.CS_FluorShell_Kissel_Nonradiative_Cascade T Z shell E) (fun e he => C08.fluorshell_spec_auger T Z E e own shell he ho)
    (C08.fluorShell_ne_any T Z E ho.ne_any shell)
theorem null_slot_CSb_FluorShell_Kissel_Nonradiative_Cascade : ∃ v s, Gen.CSb_FluorShell_Kissel_Nonradiative_Cascade T Z shell E Slot.null = Except.ok (v, Slot.null) ∧ Gen.CSb_FluorShell_Kissel_Nonradiative_Cascade T Z shell E Slot.empty = Except.ok (v, s) :=
  null_slot_of_meets (f := Gen.CSb_FluorShell_Kissel_Nonradiative_Cascade T Z shell E) (fun e he => C08.barn_twin_shell_auger T Z E e shell own he ho)
    (toBarnW_ne_any (C08.fluorShell_ne_any T Z E ho.ne_any shell))
theorem null_slot_CS_FluorLine_Kissel_Nonradiative_Cascade : ∃ v s, Gen.CS_FluorLine_Kissel_Nonradiative_Cascade T Z line E Slot.null = Except.ok (v, Slot.null) ∧ Gen.CS_FluorLine_Kissel_Nonradiative_Cascade T Z line E Slot.empty = Except.ok (v, s) := by
  by_cases hl : line ∈ C08.intraM
  · exact null_slot_of_meets (f := Gen.CS_FluorLine_Kissel_Nonradiative_Cascade T Z line E) (x := .fails)
      (fun e he => C08.fluorline_intraM_rejected_auger T Z E e line he hl) (by simp)
  · exact null_slot_of_meets (f := Gen.CS_FluorLine_Kissel_Nonradiative_Cascade T Z line E)
      (fun e he => C08.fluorline_spec_auger T Z E e line own he ho (fun h => absurd h hl))
      (C08.fluorLine_ne_any T Z E own ho.ne_any line)
theorem null_slot_CSb_FluorLine_Kissel_Nonradiative_Cascade : ∃ v s, Gen.CSb_FluorLine_Kissel_Nonradiative_Cascade T Z line E Slot.null = Except.ok (v, Slot.null) ∧ Gen.CSb_FluorLine_Kissel_Nonradiative_Cascade T Z line E Slot.empty = Except.ok (v, s) := by
  by_cases hl : line ∈ C08.intraM
  · exact null_slot_of_meets (f := Gen.CSb_FluorLine_Kissel_Nonradiative_Cascade T Z line E) (x := toBarnW (T.AtomicWeight_arr Z.toNat) .fails)
      (fun e he => by
        unfold Gen.CSb_FluorLine_Kissel_Nonradiative_Cascade
        exact C08.barn_twin_kissel T Z e (Gen.CS_FluorLine_Kissel_Nonradiative_Cascade T Z line E) .fails
          (C08.fluorline_intraM_rejected_auger T Z E e line he hl) (fun _ h => by cases h)) (by simp [toBarnW])
  · exact null_slot_of_meets (f := Gen.CSb_FluorLine_Kissel_Nonradiative_Cascade T Z line E)
      (fun e he => C08.barn_twin_line_auger T Z E e line own he ho (fun h => absurd h hl))
      (toBarnW_ne_any (C08.fluorLine_ne_any T Z E own ho.ne_any line))
theorem null_slot_CS_FluorShell_Kissel_Cascade : ∃ v s, Gen.CS_FluorShell_Kissel_Cascade T Z shell E Slot.null = Except.ok (v, Slot.null) ∧ Gen.CS_FluorShell_Kissel_Cascade T Z shell E Slot.empty = Except.ok (v, s) :=
  null_slot_of_meets (f := Gen.CS_FluorShell_Kissel_Cascade T Z shell E) (fun e he => C08.fluorshell_spec_full T Z E e own shell he ho)
    (C08.fluorShell_ne_any T Z E ho.ne_any shell)
theorem null_slot_CSb_FluorShell_Kissel_Cascade : ∃ v s, Gen.CSb_FluorShell_Kissel_Cascade T Z shell E Slot.null = Except.ok (v, Slot.null) ∧ Gen.CSb_FluorShell_Kissel_Cascade T Z shell E Slot.empty = Except.ok (v, s) :=
  null_slot_of_meets (f := Gen.CSb_FluorShell_Kissel_Cascade T Z shell E) (fun e he => C08.barn_twin_shell_full T Z E e shell own he ho)
    (toBarnW_ne_any (C08.fluorShell_ne_any T Z E ho.ne_any shell))
theorem null_slot_CS_FluorLine_Kissel_Cascade : ∃ v s, Gen.CS_FluorLine_Kissel_Cascade T Z line E Slot.null = Except.ok (v, Slot.null) ∧ Gen.CS_FluorLine_Kissel_Cascade T Z line E Slot.empty = Except.ok (v, s) := by
  by_cases hl : line ∈ C08.intraM
  · exact null_slot_of_meets (f := Gen.CS_FluorLine_Kissel_Cascade T Z line E) (x := .fails)
      (fun e he => C08.fluorline_intraM_rejected_full T Z E e line he hl) (by simp)
  · exact null_slot_of_meets (f := Gen.CS_FluorLine_Kissel_Cascade T Z line E)
      (fun e he => C08.fluorline_spec_full T Z E e line own he ho (fun h => absurd h hl))
      (C08.fluorLine_ne_any T Z E own ho.ne_any line)
theorem null_slot_CSb_FluorLine_Kissel_Cascade : ∃ v s, Gen.CSb_FluorLine_Kissel_Cascade T Z line E Slot.null = Except.ok (v, Slot.null) ∧ Gen.CSb_FluorLine_Kissel_Cascade T Z line E Slot.empty = Except.ok (v, s) := by
  by_cases hl : line ∈ C08.intraM
  · exact null_slot_of_meets (f := Gen.CSb_FluorLine_Kissel_Cascade T Z line E) (x := toBarnW (T.AtomicWeight_arr Z.toNat) .fails)
      (fun e he => by
        unfold Gen.CSb_FluorLine_Kissel_Cascade
        exact C08.barn_twin_kissel T Z e (Gen.CS_FluorLine_Kissel_Cascade T Z line E) .fails
          (C08.fluorline_intraM_rejected_full T Z E e line he hl) (fun _ h => by cases h)) (by simp [toBarnW])
  · exact null_slot_of_meets (f := Gen.CSb_FluorLine_Kissel_Cascade T Z line E)
      (fun e he => C08.barn_twin_line_full T Z E e line own he ho (fun h => absurd h hl))
      (toBarnW_ne_any (C08.fluorLine_ne_any T Z E own ho.ne_any line))
theorem null_slot_CS_FluorShell_Kissel : ∃ v s, Gen.CS_FluorShell_Kissel T Z shell E Slot.null = Except.ok (v, Slot.null) ∧ Gen.CS_FluorShell_Kissel T Z shell E Slot.empty = Except.ok (v, s) :=
  null_slot_of_meets (f := Gen.CS_FluorShell_Kissel T Z shell E) (fun e he => C08.fluorshell_spec T Z E e own shell he ho)
    (C08.fluorShell_ne_any T Z E ho.ne_any shell)
theorem null_slot_CSb_FluorShell_Kissel : ∃ v s, Gen.CSb_FluorShell_Kissel T Z shell E Slot.null = Except.ok (v, Slot.null) ∧ Gen.CSb_FluorShell_Kissel T Z shell E Slot.empty = Except.ok (v, s) :=
  null_slot_of_meets (f := Gen.CSb_FluorShell_Kissel T Z shell E) (fun e he => C08.barn_twin_shell T Z E e shell own he ho)
    (toBarnW_ne_any (C08.fluorShell_ne_any T Z E ho.ne_any shell))
theorem null_slot_CS_FluorLine_Kissel : ∃ v s, Gen.CS_FluorLine_Kissel T Z line E Slot.null = Except.ok (v, Slot.null) ∧ Gen.CS_FluorLine_Kissel T Z line E Slot.empty = Except.ok (v, s) := by
  simp only [C08.unsuffixed_is_full_line]
  exact null_slot_CS_FluorLine_Kissel_Cascade T Z line E own ho
theorem null_slot_CSb_FluorLine_Kissel : ∃ v s, Gen.CSb_FluorLine_Kissel T Z line E Slot.null = Except.ok (v, Slot.null) ∧ Gen.CSb_FluorLine_Kissel T Z line E Slot.empty = Except.ok (v, s) := by
  by_cases hl : line ∈ C08.intraM
  · exact null_slot_of_meets (f := Gen.CSb_FluorLine_Kissel T Z line E) (x := toBarnW (T.AtomicWeight_arr Z.toNat) .fails)
      (fun e he => by
        unfold Gen.CSb_FluorLine_Kissel
        exact C08.barn_twin_kissel T Z e (Gen.CS_FluorLine_Kissel_Cascade T Z line E) .fails
          (C08.fluorline_intraM_rejected_full T Z E e line he hl) (fun _ h => by cases h)) (by simp [toBarnW])
  · exact null_slot_of_meets (f := Gen.CSb_FluorLine_Kissel T Z line E)
      (fun e he => C08.barn_twin_line T Z E e line own he ho (fun h => absurd h hl))
      (toBarnW_ne_any (C08.fluorLine_ne_any T Z E own ho.ne_any line))

end nullslot

end C03
end Xrl
