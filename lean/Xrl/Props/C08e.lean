import Xrl.Props.C08d
import Xrl.Lemmas.Loops
/-!
# C08 — part 2d: relations between the variants, barn twins, the emptied Kissel table

* `k_variants_equal_*` : the four variants are the same function on the K shell and on the lines of the K shell;
* `unsuffixed_is_full_*` (C08c/C08d) : `CS_Fluor{Line,Shell}_Kissel` = the `_Cascade` functions;
* `barn_twin_*` : every `CSb_Fluor{Line,Shell}_Kissel*` is its cm²/g twin × `AtomicWeight_arr[Z]` / N_A, the weight read
  directly from the table (no availability check, no division by the weight);
  `cs_photo_partial_twin` : the one division by the weight of this family — `CS_Photo_Partial` = barn value × occupancy
  × N_A / `AtomicWeight_arr[Z]`, the outcome `nf` (x/0) when that weight is 0;
* `empty_table_fails_*` : with the Kissel table emptied (`data/kissel_pe.dat` of this tree has 0 bytes, so `prdata`
  leaves every `Electron_Config_Kissel[Z][shell]` at the initial −9999) every call of the family fails with an error.
-/
namespace Xrl
namespace C08
open Spec

set_option linter.unusedSimpArgs false
set_option linter.unusedVariables false
set_option maxRecDepth 16384

variable (T : Tables ℝ) (Z : Int) (E : ℝ) (error : Slot) (line shell : Int) (own : Int → Expect ℝ)

/-! ## K shell: the four variants coincide -/

theorem k_variants_equal_shell_none :
    Gen.CS_FluorShell_Kissel_no_Cascade T Z 0 E error = Gen.CS_FluorShell_Kissel_Cascade T Z 0 E error := by
  unfold Gen.CS_FluorShell_Kissel_no_Cascade Gen.CS_FluorShell_Kissel_Cascade
  simp only [↓reduceIte]

theorem k_variants_equal_shell_rad :
    Gen.CS_FluorShell_Kissel_Radiative_Cascade T Z 0 E error = Gen.CS_FluorShell_Kissel_Cascade T Z 0 E error := by
  unfold Gen.CS_FluorShell_Kissel_Radiative_Cascade Gen.CS_FluorShell_Kissel_Cascade
  simp only [↓reduceIte]

theorem k_variants_equal_shell_auger :
    Gen.CS_FluorShell_Kissel_Nonradiative_Cascade T Z 0 E error = Gen.CS_FluorShell_Kissel_Cascade T Z 0 E error := by
  unfold Gen.CS_FluorShell_Kissel_Nonradiative_Cascade Gen.CS_FluorShell_Kissel_Cascade
  simp only [↓reduceIte]

omit T Z E error line shell own in
theorem range9 : List.range 9 = [0, 1, 2, 3, 4, 5, 6, 7, 8] := by decide

omit T Z E error shell own in
theorem codeIdx_K (h : -29 ≤ line ∧ line ≤ 1) : codeIdx line = some 0 := by
  unfold codeIdx
  rw [range9]
  have : inMap line 0 = true := by
    simp only [inMap, Static.line_mappings_line_lower, Static.line_mappings_line_upper,
      Static.line_mappings_line_lower_list, Static.line_mappings_line_upper_list, List.getD_cons_zero,
      Bool.and_eq_true, decide_eq_true_eq]
    omega
  simp only [List.find?, this]

omit T Z E error shell own in
/-- the lines of the K shell (by name) are the macros −29 … 1 (`KP5 … KL1`, K-alpha, K-beta) -/
theorem lineShell_K (h : lineShellK line = some 0) : -29 ≤ line ∧ line ≤ 1 := by
  rw [lineShell_eq] at h
  cases hf : List.find? (inSpec line) (List.range 9) with
  | none => rw [hf] at h; cases h
  | some k =>
    rw [hf] at h
    simp only [Option.map] at h
    have hk : k = 0 := by injection h with h; exact_mod_cast h
    subst hk
    have := List.find?_some hf
    simpa [inSpec, lineRanges] using this

/-- the lines of the K shell: `CS_FluorLine_Kissel_no_Cascade` is `CS_FluorLine_Kissel_Cascade` -/
theorem k_variants_equal_line_none (h : lineShellK line = some 0) :
    Gen.CS_FluorLine_Kissel_no_Cascade T Z line E error = Gen.CS_FluorLine_Kissel_Cascade T Z line E error := by
  have hk := codeIdx_K line (lineShell_K line h)
  unfold Gen.CS_FluorLine_Kissel_no_Cascade Gen.CS_FluorLine_Kissel_Cascade FUEL
  rw [show (6 : Nat) = 5 + 1 from rfl, lineFn_none, lineFn_full, lineFn_eq, lineFn_eq]
  simp only [hk]
  have : Static.line_mappings_shell 0 = 0 := rfl
  simp only [this, k_variants_equal_shell_none]

/-- the lines of the K shell: `CS_FluorLine_Kissel_Radiative_Cascade` is `CS_FluorLine_Kissel_Cascade` -/
theorem k_variants_equal_line_rad (h : lineShellK line = some 0) :
    Gen.CS_FluorLine_Kissel_Radiative_Cascade T Z line E error = Gen.CS_FluorLine_Kissel_Cascade T Z line E error := by
  have hk := codeIdx_K line (lineShell_K line h)
  unfold Gen.CS_FluorLine_Kissel_Radiative_Cascade Gen.CS_FluorLine_Kissel_Cascade FUEL
  rw [show (6 : Nat) = 5 + 1 from rfl, lineFn_rad, lineFn_full, lineFn_eq, lineFn_eq]
  simp only [hk]
  have : Static.line_mappings_shell 0 = 0 := rfl
  simp only [this, k_variants_equal_shell_rad]

/-- the lines of the K shell: `CS_FluorLine_Kissel_Nonradiative_Cascade` is `CS_FluorLine_Kissel_Cascade` -/
theorem k_variants_equal_line_auger (h : lineShellK line = some 0) :
    Gen.CS_FluorLine_Kissel_Nonradiative_Cascade T Z line E error = Gen.CS_FluorLine_Kissel_Cascade T Z line E error := by
  have hk := codeIdx_K line (lineShell_K line h)
  unfold Gen.CS_FluorLine_Kissel_Nonradiative_Cascade Gen.CS_FluorLine_Kissel_Cascade FUEL
  rw [show (6 : Nat) = 5 + 1 from rfl, lineFn_auger, lineFn_full, lineFn_eq, lineFn_eq]
  simp only [hk]
  have : Static.line_mappings_shell 0 = 0 := rfl
  simp only [this, k_variants_equal_shell_auger]

/-- the specification agrees: on the K shell the variant does not enter -/
theorem k_variants_equal_spec (v v' : Variant) : fluorShell T Z 0 E v own = fluorShell T Z 0 E v' own := by
  unfold fluorShell
  simp only [vacancy_K]

theorem k_variants_equal_spec_line (v v' : Variant) (h : lineShellK line = some 0) :
    fluorLine T Z line E v own = fluorLine T Z line E v' own := by
  have h3 : line ≠ Hdr.LB_LINE := by
    have := lineShell_K line h; simp only [Hdr.LB_LINE]; omega
  unfold fluorLine fluorLine1
  simp only [h3, if_false, h, k_variants_equal_spec T Z E own v v']

/-! ## barn twins -/

/-- the shape of every `CSb_Fluor*_Kissel*`: call the cm²/g twin through the caller's slot, multiply by the weight read
directly from `AtomicWeight_arr`, divide by N_A.  No error is added: a weight ≤ 0 is used as it stands. -/
theorem barn_twin_kissel (f : Slot → M (ℝ × Slot)) (x : Expect ℝ)
    (hf : Meets (f error) error x) (hZ : ∀ v, x = .value v → 1 ≤ Z ∧ Z ≤ 120) :
    Meets (do
        let r_1 ← f error
        if deq r_1.1 (0.0 : ℝ) then pure ((0.0 : ℝ), r_1.2)
        else do
          let a_2 ← rd1 "AtomicWeight_arr" 121 T.AtomicWeight_arr Z
          pure (((r_1.1 * a_2) / (0.602214129 : ℝ)), r_1.2)) error
      (toBarnW (T.AtomicWeight_arr Z.toNat) x) := by
  rcases Meets.cases hf with ⟨v, hx, rf⟩ | ⟨hx, e, h1, h2, rf⟩ | hany
  · have hb : 0 ≤ Z ∧ Z < 121 := by have := hZ v hx; omega
    subst hx
    simp only [rf, bind_ok, pure_eq_ok, deq_real, zero_lit, rd1_weight _ _ hb, toBarnW, Hdr.AVOGNUM, Meets, Returns]
    by_cases h0 : v = 0
    · simp [h0]
    · simp [h0]
  · subst hx
    simp only [rf, bind_ok, pure_eq_ok, deq_real, zero_lit, if_true, toBarnW, Meets]
    exact fails_of_eq h1 h2 rfl
  · subst hany; trivial

theorem fluorShell_value_Z {v : Variant} {a : ℝ} (h : fluorShell T Z shell E v own = .value a) : 1 ≤ Z ∧ Z ≤ 120 := by
  by_cases hz : zOk Z = false
  · simp [fluorShell, hz] at h
  · simp only [zOk, Hdr.ZMAX, Bool.not_eq_false] at hz; exact of_decide_eq_true hz

theorem fluorLine_value_Z {v : Variant} {a : ℝ} (h : fluorLine T Z line E v own = .value a) : 1 ≤ Z ∧ Z ≤ 120 := by
  by_cases hz : zOk Z = false
  · simp [fluorLine, fluorLine1, hz] at h
  · simp only [zOk, Hdr.ZMAX, Bool.not_eq_false] at hz; exact of_decide_eq_true hz

theorem barn_twin_shell_none (he : error.isFull = false) (ho : OwnOK T Z E own) :
    Meets (Gen.CSb_FluorShell_Kissel_no_Cascade T Z shell E error) error
      (toBarnW (T.AtomicWeight_arr Z.toNat) (fluorShell T Z shell E .none own)) := by
  unfold Gen.CSb_FluorShell_Kissel_no_Cascade
  exact barn_twin_kissel T Z error (Gen.CS_FluorShell_Kissel_no_Cascade T Z shell E) _
    (fluorshell_spec_none T Z E error own shell he ho) (fun a h => fluorShell_value_Z T Z E shell own h)

theorem barn_twin_line_none (he : error.isFull = false) (ho : OwnOK T Z E own)
    (hM : line ∈ intraM → Spec.RadRate T Z line = .fails) :
    Meets (Gen.CSb_FluorLine_Kissel_no_Cascade T Z line E error) error
      (toBarnW (T.AtomicWeight_arr Z.toNat) (fluorLine T Z line E .none own)) := by
  unfold Gen.CSb_FluorLine_Kissel_no_Cascade
  exact barn_twin_kissel T Z error (Gen.CS_FluorLine_Kissel_no_Cascade T Z line E) _
    (fluorline_spec_none T Z E error line own he ho hM) (fun a h => fluorLine_value_Z T Z E line own h)

theorem barn_twin_shell_rad (he : error.isFull = false) (ho : OwnOK T Z E own) :
    Meets (Gen.CSb_FluorShell_Kissel_Radiative_Cascade T Z shell E error) error
      (toBarnW (T.AtomicWeight_arr Z.toNat) (fluorShell T Z shell E .rad own)) := by
  unfold Gen.CSb_FluorShell_Kissel_Radiative_Cascade
  exact barn_twin_kissel T Z error (Gen.CS_FluorShell_Kissel_Radiative_Cascade T Z shell E) _
    (fluorshell_spec_rad T Z E error own shell he ho) (fun a h => fluorShell_value_Z T Z E shell own h)

theorem barn_twin_line_rad (he : error.isFull = false) (ho : OwnOK T Z E own)
    (hM : line ∈ intraM → Spec.RadRate T Z line = .fails) :
    Meets (Gen.CSb_FluorLine_Kissel_Radiative_Cascade T Z line E error) error
      (toBarnW (T.AtomicWeight_arr Z.toNat) (fluorLine T Z line E .rad own)) := by
  unfold Gen.CSb_FluorLine_Kissel_Radiative_Cascade
  exact barn_twin_kissel T Z error (Gen.CS_FluorLine_Kissel_Radiative_Cascade T Z line E) _
    (fluorline_spec_rad T Z E error line own he ho hM) (fun a h => fluorLine_value_Z T Z E line own h)

theorem barn_twin_shell_auger (he : error.isFull = false) (ho : OwnOK T Z E own) :
    Meets (Gen.CSb_FluorShell_Kissel_Nonradiative_Cascade T Z shell E error) error
      (toBarnW (T.AtomicWeight_arr Z.toNat) (fluorShell T Z shell E .auger own)) := by
  unfold Gen.CSb_FluorShell_Kissel_Nonradiative_Cascade
  exact barn_twin_kissel T Z error (Gen.CS_FluorShell_Kissel_Nonradiative_Cascade T Z shell E) _
    (fluorshell_spec_auger T Z E error own shell he ho) (fun a h => fluorShell_value_Z T Z E shell own h)

theorem barn_twin_line_auger (he : error.isFull = false) (ho : OwnOK T Z E own)
    (hM : line ∈ intraM → Spec.RadRate T Z line = .fails) :
    Meets (Gen.CSb_FluorLine_Kissel_Nonradiative_Cascade T Z line E error) error
      (toBarnW (T.AtomicWeight_arr Z.toNat) (fluorLine T Z line E .auger own)) := by
  unfold Gen.CSb_FluorLine_Kissel_Nonradiative_Cascade
  exact barn_twin_kissel T Z error (Gen.CS_FluorLine_Kissel_Nonradiative_Cascade T Z line E) _
    (fluorline_spec_auger T Z E error line own he ho hM) (fun a h => fluorLine_value_Z T Z E line own h)

theorem barn_twin_shell_full (he : error.isFull = false) (ho : OwnOK T Z E own) :
    Meets (Gen.CSb_FluorShell_Kissel_Cascade T Z shell E error) error
      (toBarnW (T.AtomicWeight_arr Z.toNat) (fluorShell T Z shell E .full own)) := by
  unfold Gen.CSb_FluorShell_Kissel_Cascade
  exact barn_twin_kissel T Z error (Gen.CS_FluorShell_Kissel_Cascade T Z shell E) _
    (fluorshell_spec_full T Z E error own shell he ho) (fun a h => fluorShell_value_Z T Z E shell own h)

theorem barn_twin_line_full (he : error.isFull = false) (ho : OwnOK T Z E own)
    (hM : line ∈ intraM → Spec.RadRate T Z line = .fails) :
    Meets (Gen.CSb_FluorLine_Kissel_Cascade T Z line E error) error
      (toBarnW (T.AtomicWeight_arr Z.toNat) (fluorLine T Z line E .full own)) := by
  unfold Gen.CSb_FluorLine_Kissel_Cascade
  exact barn_twin_kissel T Z error (Gen.CS_FluorLine_Kissel_Cascade T Z line E) _
    (fluorline_spec_full T Z E error line own he ho hM) (fun a h => fluorLine_value_Z T Z E line own h)

theorem barn_twin_shell (he : error.isFull = false) (ho : OwnOK T Z E own) :
    Meets (Gen.CSb_FluorShell_Kissel T Z shell E error) error
      (toBarnW (T.AtomicWeight_arr Z.toNat) (fluorShell T Z shell E .full own)) := by
  unfold Gen.CSb_FluorShell_Kissel
  exact barn_twin_kissel T Z error (Gen.CS_FluorShell_Kissel_Cascade T Z shell E) _
    (fluorshell_spec_full T Z E error own shell he ho) (fun a h => fluorShell_value_Z T Z E shell own h)

theorem barn_twin_line (he : error.isFull = false) (ho : OwnOK T Z E own)
    (hM : line ∈ intraM → Spec.RadRate T Z line = .fails) :
    Meets (Gen.CSb_FluorLine_Kissel T Z line E error) error
      (toBarnW (T.AtomicWeight_arr Z.toNat) (fluorLine T Z line E .full own)) := by
  unfold Gen.CSb_FluorLine_Kissel
  exact barn_twin_kissel T Z error (Gen.CS_FluorLine_Kissel_Cascade T Z line E) _
    (fluorline_spec_full T Z E error line own he ho hM) (fun a h => fluorLine_value_Z T Z E line own h)

/-- `CS_Photo_Partial` from `CSb_Photo_Partial`: barn/electron × occupancy × N_A / atomic weight, the weight read
directly from `AtomicWeight_arr`; a weight equal to 0 is a division by zero (model outcome `nf`), not an error -/
theorem cs_photo_partial_twin (b : ℝ) (hb : Gen.CSb_Photo_Partial T Z shell E error = Except.ok (b, error)) (hb0 : b ≠ 0)
    (hZ : 0 ≤ Z ∧ Z < 121) (hs : 0 ≤ shell ∧ shell < 31) :
    Gen.CS_Photo_Partial T Z shell E error =
      (if T.AtomicWeight_arr Z.toNat = 0 then Except.error (Abort.nf "div0")
       else Except.ok (b * T.Electron_Config_Kissel Z.toNat shell.toNat * (0.602214129 : ℝ) / T.AtomicWeight_arr Z.toNat, error)) := by
  unfold Gen.CS_Photo_Partial
  have r2 : rd2 "Electron_Config_Kissel" 121 31 T.Electron_Config_Kissel Z shell =
      Except.ok (T.Electron_Config_Kissel Z.toNat shell.toNat) := by
    unfold rd2; rw [if_pos (by push_cast; omega)]; rfl
  simp only [hb, bind_ok, pure_eq_ok, deq_real, zero_lit, hb0, if_false, r2, rd1_weight _ _ hZ, ddiv]
  split_ifs <;> rfl

theorem cs_photo_partial_fails (he : error.isFull = false) (h : Fails (Gen.CSb_Photo_Partial T Z shell E error) error) :
    Fails (Gen.CS_Photo_Partial T Z shell E error) error := by
  obtain ⟨e, h1, h2, h3⟩ := h
  unfold Gen.CS_Photo_Partial
  simp only [h3, bind_ok, pure_eq_ok, deq_real, if_true]
  exact ⟨e, h1, h2, rfl⟩

/-! ## the emptied Kissel table -/

/-- what an empty `data/kissel_pe.dat` leaves in the tables: every occupancy at the initial value −9999 -/
def KisselEmptied (T : Tables ℝ) : Prop := ∀ i j, T.Electron_Config_Kissel i j = -9999

/-- all that the theorems use: no (element, sub-shell) is occupied -/
def NoKisselOccupancy (T : Tables ℝ) : Prop := ∀ i j, T.Electron_Config_Kissel i j < (1.0e-6 : ℝ)

omit Z E error line shell own in
theorem KisselEmptied.noOccupancy (h : KisselEmptied T) : NoKisselOccupancy T := by
  intro i j; rw [h i j]; norm_num

theorem empty_table_fails_CSb_Photo_Partial (he : error.isFull = false) (hT : NoKisselOccupancy T) :
    Fails (Gen.CSb_Photo_Partial T Z shell E error) error := by
  unfold Gen.CSb_Photo_Partial
  by_cases hZ : Z < 1 ∨ Z > 120
  · simp only [hZ, ↓reduceIte, setErr_notFull he, bind_ok, pure_eq_ok]; exact fails_mk' (by decide) (by decide)
  · by_cases hs : shell < 0 ∨ shell ≥ 31
    · simp only [hZ, hs, ↓reduceIte, setErr_notFull he, bind_ok, pure_eq_ok]; exact fails_mk' (by decide) (by decide)
    · by_cases hE : E ≤ (0.0 : ℝ)
      · simp only [hZ, hs, hE, ↓reduceIte, setErr_notFull he, bind_ok, pure_eq_ok]; exact fails_mk' (by decide) (by decide)
      · have r2 : rd2 "Electron_Config_Kissel" 121 31 T.Electron_Config_Kissel Z shell =
            Except.ok (T.Electron_Config_Kissel Z.toNat shell.toNat) := by
          unfold rd2; rw [if_pos (by push_cast; omega)]; rfl
        have hc := hT Z.toNat shell.toNat
        simp only [hZ, hs, hE, ↓reduceIte, r2, bind_ok, pure_eq_ok, hc, decide_true]
        split_ifs <;> simp only [bind_ok, pure_eq_ok, ↓reduceIte, setErr_notFull he] <;> exact fails_mk' (by decide) (by decide)

theorem empty_table_fails_CS_Photo_Partial (he : error.isFull = false) (hT : NoKisselOccupancy T) :
    Fails (Gen.CS_Photo_Partial T Z shell E error) error :=
  cs_photo_partial_fails T Z E error shell he (empty_table_fails_CSb_Photo_Partial T Z E error shell he hT)

/-- with the emptied table the assumptions of the shell and line theorems hold, every own cross section failing -/
theorem ownOK_empty (hT : NoKisselOccupancy T) : OwnOK T Z E (fun _ => .fails) where
  meets := fun t error he => empty_table_fails_CS_Photo_Partial T Z E error t he hT
  ne_any := fun _ => by simp
  ne_zero := fun _ _ h => by cases h

omit error line in
theorem fluorShell_empty (v : Variant) : fluorShell T Z shell E v (fun _ => .fails) = .fails := by
  unfold fluorShell withYield
  split_ifs <;> try rfl
  split <;> rfl

omit error in
theorem fluorLine1_empty (v : Variant) : fluorLine1 T Z line E v (fun _ => .fails) = .fails := by
  have hv : ∀ x : Expect ℝ, lineValue x (.fails : Expect ℝ) = .fails := by intro x; cases x <;> rfl
  unfold fluorLine1
  simp only [fluorShell_empty, hv]
  by_cases h1 : zOk Z = false
  · simp [h1]
  · by_cases h2 : E ≤ (0.0 : ℝ)
    · simp [h1, h2]
    · simp only [h1, h2, if_false]
      cases lineShellK line <;> simp

omit error in
theorem fluorLine_empty (v : Variant) : fluorLine T Z line E v (fun _ => .fails) = .fails := by
  unfold fluorLine
  simp only [fluorLine1_empty, valOr0]
  split_ifs with h1 h2 h3 h4 <;> try rfl
  exfalso; apply h4
  rw [deq_real]
  simp only [lbMembers_eq, Static.LB_LINE_MACROS_list, List.foldl]
  norm_num

theorem empty_table_fails_shell_none (he : error.isFull = false) (hT : NoKisselOccupancy T) :
    Fails (Gen.CS_FluorShell_Kissel_no_Cascade T Z shell E error) error := by
  have := fluorshell_spec_none T Z E error _ shell he (ownOK_empty T Z E hT)
  rwa [fluorShell_empty] at this

theorem empty_table_fails_line_none (he : error.isFull = false) (hT : NoKisselOccupancy T) :
    Fails (Gen.CS_FluorLine_Kissel_no_Cascade T Z line E error) error := by
  have := fluorline_spec_none' T Z E error line _ he (ownOK_empty T Z E hT) (fun _ => fluorLine1_empty T Z E line .none)
  rwa [fluorLine_empty] at this

theorem empty_table_fails_barn_shell_none (he : error.isFull = false) (hT : NoKisselOccupancy T) :
    Fails (Gen.CSb_FluorShell_Kissel_no_Cascade T Z shell E error) error := by
  have := barn_twin_kissel T Z error (Gen.CS_FluorShell_Kissel_no_Cascade T Z shell E) .fails
    (empty_table_fails_shell_none T Z E error shell he hT) (fun _ h => by cases h)
  unfold Gen.CSb_FluorShell_Kissel_no_Cascade; exact this

theorem empty_table_fails_barn_line_none (he : error.isFull = false) (hT : NoKisselOccupancy T) :
    Fails (Gen.CSb_FluorLine_Kissel_no_Cascade T Z line E error) error := by
  have := barn_twin_kissel T Z error (Gen.CS_FluorLine_Kissel_no_Cascade T Z line E) .fails
    (empty_table_fails_line_none T Z E error line he hT) (fun _ h => by cases h)
  unfold Gen.CSb_FluorLine_Kissel_no_Cascade; exact this

theorem empty_table_fails_shell_rad (he : error.isFull = false) (hT : NoKisselOccupancy T) :
    Fails (Gen.CS_FluorShell_Kissel_Radiative_Cascade T Z shell E error) error := by
  have := fluorshell_spec_rad T Z E error _ shell he (ownOK_empty T Z E hT)
  rwa [fluorShell_empty] at this

theorem empty_table_fails_line_rad (he : error.isFull = false) (hT : NoKisselOccupancy T) :
    Fails (Gen.CS_FluorLine_Kissel_Radiative_Cascade T Z line E error) error := by
  have := fluorline_spec_rad' T Z E error line _ he (ownOK_empty T Z E hT) (fun _ => fluorLine1_empty T Z E line .rad)
  rwa [fluorLine_empty] at this

theorem empty_table_fails_barn_shell_rad (he : error.isFull = false) (hT : NoKisselOccupancy T) :
    Fails (Gen.CSb_FluorShell_Kissel_Radiative_Cascade T Z shell E error) error := by
  have := barn_twin_kissel T Z error (Gen.CS_FluorShell_Kissel_Radiative_Cascade T Z shell E) .fails
    (empty_table_fails_shell_rad T Z E error shell he hT) (fun _ h => by cases h)
  unfold Gen.CSb_FluorShell_Kissel_Radiative_Cascade; exact this

theorem empty_table_fails_barn_line_rad (he : error.isFull = false) (hT : NoKisselOccupancy T) :
    Fails (Gen.CSb_FluorLine_Kissel_Radiative_Cascade T Z line E error) error := by
  have := barn_twin_kissel T Z error (Gen.CS_FluorLine_Kissel_Radiative_Cascade T Z line E) .fails
    (empty_table_fails_line_rad T Z E error line he hT) (fun _ h => by cases h)
  unfold Gen.CSb_FluorLine_Kissel_Radiative_Cascade; exact this

theorem empty_table_fails_shell_auger (he : error.isFull = false) (hT : NoKisselOccupancy T) :
    Fails (Gen.CS_FluorShell_Kissel_Nonradiative_Cascade T Z shell E error) error := by
  have := fluorshell_spec_auger T Z E error _ shell he (ownOK_empty T Z E hT)
  rwa [fluorShell_empty] at this

theorem empty_table_fails_line_auger (he : error.isFull = false) (hT : NoKisselOccupancy T) :
    Fails (Gen.CS_FluorLine_Kissel_Nonradiative_Cascade T Z line E error) error := by
  have := fluorline_spec_auger' T Z E error line _ he (ownOK_empty T Z E hT) (fun _ => fluorLine1_empty T Z E line .auger)
  rwa [fluorLine_empty] at this

theorem empty_table_fails_barn_shell_auger (he : error.isFull = false) (hT : NoKisselOccupancy T) :
    Fails (Gen.CSb_FluorShell_Kissel_Nonradiative_Cascade T Z shell E error) error := by
  have := barn_twin_kissel T Z error (Gen.CS_FluorShell_Kissel_Nonradiative_Cascade T Z shell E) .fails
    (empty_table_fails_shell_auger T Z E error shell he hT) (fun _ h => by cases h)
  unfold Gen.CSb_FluorShell_Kissel_Nonradiative_Cascade; exact this

theorem empty_table_fails_barn_line_auger (he : error.isFull = false) (hT : NoKisselOccupancy T) :
    Fails (Gen.CSb_FluorLine_Kissel_Nonradiative_Cascade T Z line E error) error := by
  have := barn_twin_kissel T Z error (Gen.CS_FluorLine_Kissel_Nonradiative_Cascade T Z line E) .fails
    (empty_table_fails_line_auger T Z E error line he hT) (fun _ h => by cases h)
  unfold Gen.CSb_FluorLine_Kissel_Nonradiative_Cascade; exact this

theorem empty_table_fails_shell_full (he : error.isFull = false) (hT : NoKisselOccupancy T) :
    Fails (Gen.CS_FluorShell_Kissel_Cascade T Z shell E error) error := by
  have := fluorshell_spec_full T Z E error _ shell he (ownOK_empty T Z E hT)
  rwa [fluorShell_empty] at this

theorem empty_table_fails_line_full (he : error.isFull = false) (hT : NoKisselOccupancy T) :
    Fails (Gen.CS_FluorLine_Kissel_Cascade T Z line E error) error := by
  have := fluorline_spec_full' T Z E error line _ he (ownOK_empty T Z E hT) (fun _ => fluorLine1_empty T Z E line .full)
  rwa [fluorLine_empty] at this

theorem empty_table_fails_barn_shell_full (he : error.isFull = false) (hT : NoKisselOccupancy T) :
    Fails (Gen.CSb_FluorShell_Kissel_Cascade T Z shell E error) error := by
  have := barn_twin_kissel T Z error (Gen.CS_FluorShell_Kissel_Cascade T Z shell E) .fails
    (empty_table_fails_shell_full T Z E error shell he hT) (fun _ h => by cases h)
  unfold Gen.CSb_FluorShell_Kissel_Cascade; exact this

theorem empty_table_fails_barn_line_full (he : error.isFull = false) (hT : NoKisselOccupancy T) :
    Fails (Gen.CSb_FluorLine_Kissel_Cascade T Z line E error) error := by
  have := barn_twin_kissel T Z error (Gen.CS_FluorLine_Kissel_Cascade T Z line E) .fails
    (empty_table_fails_line_full T Z E error line he hT) (fun _ h => by cases h)
  unfold Gen.CSb_FluorLine_Kissel_Cascade; exact this

theorem empty_table_fails_shell (he : error.isFull = false) (hT : NoKisselOccupancy T) :
    Fails (Gen.CS_FluorShell_Kissel T Z shell E error) error := by
  rw [unsuffixed_is_full_shell]; exact empty_table_fails_shell_full T Z E error shell he hT

theorem empty_table_fails_line (he : error.isFull = false) (hT : NoKisselOccupancy T) :
    Fails (Gen.CS_FluorLine_Kissel T Z line E error) error := by
  rw [unsuffixed_is_full_line]; exact empty_table_fails_line_full T Z E error line he hT

theorem empty_table_fails_barn_shell (he : error.isFull = false) (hT : NoKisselOccupancy T) :
    Fails (Gen.CSb_FluorShell_Kissel T Z shell E error) error := by
  have := barn_twin_kissel T Z error (Gen.CS_FluorShell_Kissel_Cascade T Z shell E) .fails
    (empty_table_fails_shell_full T Z E error shell he hT) (fun _ h => by cases h)
  unfold Gen.CSb_FluorShell_Kissel; exact this

theorem empty_table_fails_barn_line (he : error.isFull = false) (hT : NoKisselOccupancy T) :
    Fails (Gen.CSb_FluorLine_Kissel T Z line E error) error := by
  have := barn_twin_kissel T Z error (Gen.CS_FluorLine_Kissel_Cascade T Z line E) .fails
    (empty_table_fails_line_full T Z E error line he hT) (fun _ h => by cases h)
  unfold Gen.CSb_FluorLine_Kissel; exact this

/-! ## the other entry points of kissel_pe.c on the emptied table -/

theorem foldlM_pure {σ : Type} (ks : List Nat) (f : σ → Nat → M σ) (h : ∀ k ∈ ks, ∀ s, f s k = Except.ok s) (s0 : σ) :
    ks.foldlM f s0 = Except.ok s0 := by
  induction ks generalizing s0 with
  | nil => rfl
  | cons k ks ih =>
    simp only [List.foldlM_cons, h k (List.mem_cons_self ..), bind_ok]
    exact ih (fun k' hk' => h k' (List.mem_cons_of_mem _ hk')) s0

theorem empty_table_fails_CSb_Photo_Total (he : error.isFull = false) (hT : NoKisselOccupancy T) :
    Fails (Gen.CSb_Photo_Total T Z E error) error := by
  unfold Gen.CSb_Photo_Total
  by_cases hZ : Z < 1 ∨ Z > 120
  · simp only [hZ, ↓reduceIte, bind_ok, pure_eq_ok, setErr_notFull he]; exact fails_mk' (by decide) (by decide)
  · have hb : 0 ≤ Z ∧ Z < 121 := by omega
    simp only [hZ, ↓reduceIte, rd1_weight _ _ hb, bind_ok, pure_eq_ok]
    split_ifs with h1 h2
    · simp only [setErr_notFull he, bind_ok]; exact fails_mk' (by decide) (by decide)
    · simp only [setErr_notFull he, bind_ok]; exact fails_mk' (by decide) (by decide)
    · have hloop : loopM (0 : Int) 31 (0.0 : ℝ) (fun shell st_3_in => do
            let a_4 ← rd2 "Electron_Config_Kissel" 121 31 T.Electron_Config_Kissel Z shell
            if (1.0e-6 : ℝ) < a_4 then do
              let r_5 ← Gen.CSb_Photo_Partial T Z shell E Slot.null
              let a_6 ← rd2 "Electron_Config_Kissel" 121 31 T.Electron_Config_Kissel Z shell
              Except.ok (st_3_in + r_5.1 * a_6)
            else Except.ok st_3_in) = Except.ok (0.0 : ℝ) := by
        rw [loopM_unroll]
        apply foldlM_pure
        intro k hk s
        have hk' : k < 31 := by simpa using List.mem_range.1 hk
        have r2 : rd2 "Electron_Config_Kissel" 121 31 T.Electron_Config_Kissel Z (0 + (k : Int)) =
            Except.ok (T.Electron_Config_Kissel Z.toNat (0 + (k : Int)).toNat) := by
          unfold rd2; rw [if_pos (by push_cast; omega)]; rfl
        have hc : ¬ (1.0e-6 : ℝ) < T.Electron_Config_Kissel Z.toNat (0 + (k : Int)).toNat :=
          not_lt.2 (hT _ _).le
        simp only [r2, bind_ok, hc, if_false, pure_eq_ok]
      simp only [hloop, bind_ok, deq_real, eq_self, if_true, setErr_notFull he]
      exact fails_mk' (by decide) (by decide)

theorem empty_table_fails_CS_Photo_Total (he : error.isFull = false) (hT : NoKisselOccupancy T) :
    Fails (Gen.CS_Photo_Total T Z E error) error := by
  obtain ⟨e, h1, h2, h3⟩ := empty_table_fails_CSb_Photo_Total T Z E error he hT
  unfold Gen.CS_Photo_Total
  simp only [h3, bind_ok, pure_eq_ok, deq_real, if_true]
  exact ⟨e, h1, h2, rfl⟩

theorem empty_table_fails_CS_Total_Kissel (he : error.isFull = false) (hT : NoKisselOccupancy T) :
    Fails (Gen.CS_Total_Kissel T Z E error) error := by
  obtain ⟨e, h1, h2, h3⟩ := empty_table_fails_CS_Photo_Total T Z E error he hT
  unfold Gen.CS_Total_Kissel
  by_cases hZ : Z < 1 ∨ Z > 120
  · simp only [hZ, ↓reduceIte, bind_ok, pure_eq_ok, setErr_notFull he]; exact fails_mk' (by decide) (by decide)
  · have hb : 0 ≤ Z ∧ Z < 121 := by omega
    simp only [hZ, ↓reduceIte, rd1_weight _ _ hb, bind_ok, pure_eq_ok]
    by_cases c1 : T.NE_Photo_Total_Kissel Z.toNat < 0
    · simp only [c1, decide_true, ↓reduceIte, bind_ok, setErr_notFull he]; exact fails_mk' (by decide) (by decide)
    · by_cases c2 : T.NE_Rayl Z.toNat < 0
      · simp only [c1, c2, decide_true, decide_false, Bool.false_eq_true, ↓reduceIte, bind_ok, setErr_notFull he]
        exact fails_mk' (by decide) (by decide)
      · by_cases c3 : T.NE_Compt Z.toNat < 0
        · simp only [c1, c2, c3, decide_true, decide_false, Bool.false_eq_true, ↓reduceIte, bind_ok, setErr_notFull he]
          exact fails_mk' (by decide) (by decide)
        · simp only [c1, c2, c3, decide_false, Bool.false_eq_true, ↓reduceIte, bind_ok]
          by_cases hE : E ≤ (0.0 : ℝ)
          · simp only [hE, ↓reduceIte, bind_ok, setErr_notFull he]; exact fails_mk' (by decide) (by decide)
          · have r3 : List.range 3 = [0, 1, 2] := by decide
            simp only [hE, loopCtlM, Int.sub_zero, Int.reduceToNat, r3, loopCtlGo, Nat.cast_zero, Int.add_zero, ↓reduceIte, h3, bind_ok,
              deq_real, eq_self, if_true, pure_eq_ok]
            exact ⟨e, h1, h2, rfl⟩

theorem empty_table_fails_CSb_Total_Kissel (he : error.isFull = false) (hT : NoKisselOccupancy T) :
    Fails (Gen.CSb_Total_Kissel T Z E error) error := by
  have := barn_twin_kissel T Z error (Gen.CS_Total_Kissel T Z E) .fails
    (empty_table_fails_CS_Total_Kissel T Z E error he hT) (fun _ h => by cases h)
  unfold Gen.CSb_Total_Kissel; exact this

/-- `ElectronConfig` reports "invalid shell" for every sub-shell of the emptied table -/
theorem empty_table_fails_ElectronConfig (he : error.isFull = false) (hT : KisselEmptied T) :
    Fails (Gen.ElectronConfig T Z shell error) error := by
  unfold Gen.ElectronConfig
  by_cases hZ : Z < 1 ∨ Z > 120
  · simp only [hZ, ↓reduceIte, bind_ok, pure_eq_ok, setErr_notFull he]; exact fails_mk' (by decide) (by decide)
  · by_cases hs : shell < 0 ∨ shell ≥ 31
    · simp only [hZ, hs, ↓reduceIte, bind_ok, pure_eq_ok, setErr_notFull he]; exact fails_mk' (by decide) (by decide)
    · have r2 : rd2 "Electron_Config_Kissel" 121 31 T.Electron_Config_Kissel Z shell =
          Except.ok (T.Electron_Config_Kissel Z.toNat shell.toNat) := by
        unfold rd2; rw [if_pos (by push_cast; omega)]; rfl
      have hc : T.Electron_Config_Kissel Z.toNat shell.toNat ≤ (0.0 : ℝ) := by rw [hT]; norm_num
      simp only [hZ, hs, ↓reduceIte, r2, bind_ok, hc, pure_eq_ok, setErr_notFull he]
      exact fails_mk' (by decide) (by decide)

end C08
end Xrl
