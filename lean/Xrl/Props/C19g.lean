/-
  C19, ownership half: the objects the Java port hands out share no mutable part with the library's catalogue entries.

  `Xrl.JGen.copyCtorFields` / `lookupReturns` are extracted from java/*.java on every run (tools/jobjects.py); the theorems are decided on
  the tables, `Xrl.JHeap` gives the field kinds their meaning (`allocCopy_independent`, `copyObj_independent`, `shareRef_aliases`).
  The tables are tied to the compiled classes by the history sessions of ./check C19 (every returned object is edited in every public
  mutable part found by reflection and every dependent call is asked again) and by comparing the field lists with java.lang.reflect.
-/
import Xrl.JCore.JHeap
import Xrl.JGen.Objects

namespace Xrl
namespace C19
open Xrl.JHeap

/-- every field of every public copy constructor leaves the copy independent of the original: arrays of primitives are allocated and
    copied, arrays of objects are allocated and filled with copies (or with shared elements of an immutable class), the rest are
    primitives and Strings.  `atom = cs.atom` / `Elements = cd.Elements` make this false. -/
theorem copy_ctors_independent : ∀ f ∈ JGen.copyCtorFields, f.independent = true := by decide

/-- no field is forgotten by a copy constructor: for every class with one, the rows of the table are the declared fields, in order -/
theorem copy_ctors_cover_fields :
    ∀ c ∈ JGen.copyCtorClasses, ((JGen.copyCtorFields.filter (fun f => f.cls == c)).map (·.field)) =
      ((JGen.dataClassFields.filter (fun p => p.1 == c)).flatMap (·.2)) := by decide

/-- every object-returning public static method of Xraylib.java returns, at every `return`, an object made for the caller
    (a construction, a fresh array, an immutable String, or the fresh result of an instance method) — never an entry of a catalogue -/
theorem lookups_hand_out_fresh : ∀ r ∈ JGen.lookupReturns, r.owner = "Xraylib" → handsOutFresh JGen.lookupReturns r = true := by decide

/-- the instance methods of the data classes return constructions, fresh arrays, Strings or the object's own public arrays -/
theorem instance_methods_return_own_or_fresh : ∀ r ∈ JGen.lookupReturns, r.owner ≠ "Xraylib" →
    (r.kind = Ret.ownField ∨ r.kind = Ret.freshObject ∨ r.kind = Ret.freshArray ∨ r.kind = Ret.immutable ∨ r.kind.isDelegated = true) := by decide

/-- what `copy_ctors_independent` buys, on the heap of arrays: when the copy constructor gives every array field a fresh copy
    (`hfresh`) of an allocated array (`halloc`), then whatever the caller writes (`i`, `v`) into ANY array `a` of the object it was
    handed, EVERY array of the library's entry reads as it did before the copy was made -/
theorem handed_out_copy_is_the_callers (fs : List (Bool × Nat)) (h : Heap) (hfresh : ∀ p ∈ fs, p.1 = true) (halloc : ∀ p ∈ fs, p.2 < h.next)
    (a : Nat) (ha : a ∈ (h.copyObj fs).2) (p : Bool × Nat) (hp : p ∈ fs) (i : Nat) (v : Int) :
    (((h.copyObj fs).1).write a i v).cells p.2 = h.cells p.2 :=
  copyObj_independent fs h hfresh halloc a ha p hp i v

-- non-vacuity of `handed_out_copy_is_the_callers`: an entry with two arrays (Elements, massFractions), both copied; the copy has two arrays
example : let h : Heap := { cells := fun k => if k = 0 then [1, 8] else [11, 89], next := 2 }
    (∀ p ∈ [(true, 0), (true, 1)], p.1 = true) ∧ (∀ p ∈ [(true, 0), (true, 1)], p.2 < h.next) ∧ (h.copyObj [(true, 0), (true, 1)]).2 = [2, 3] := by
  decide

/-- the full-strength statement without `hfresh` is false: a field initialised by `f = p.f` makes a caller's write visible in the entry -/
theorem handed_out_copy_shared_field_full_fails :
    ¬ (∀ (fs : List (Bool × Nat)) (h : Heap), (∀ p ∈ fs, p.2 < h.next) → ∀ a ∈ (h.copyObj fs).2, ∀ p ∈ fs, ∀ (i : Nat) (v : Int),
        (((h.copyObj fs).1).write a i v).cells p.2 = h.cells p.2) := by
  intro hall
  have := hall [(false, 0)] { cells := fun _ => [0], next := 1 } (by decide) 0 (by decide) (false, 0) (by decide) 0 1
  simp [Heap.copyObj, Heap.write] at this

-- non-vacuity: the tables are not empty, array fields and object arrays occur, a delegated lookup occurs
example : (JGen.copyCtorFields.filter (·.isArray)).length ≥ 7 := by decide
example : (JGen.copyCtorFields.filter (·.elemIsObject)).length ≥ 1 := by decide
example : (JGen.lookupReturns.filter (fun r => r.owner == "Xraylib")).length ≥ 14 := by decide
example : (JGen.lookupReturns.filter (fun r => r.owner == "Xraylib" && r.kind.isDelegated)).length ≥ 1 := by decide
-- the predicate is not trivially true: the two seeded constructors are rejected
example : ({ cls := "Crystal_Struct", field := "atom", type := "Crystal_Atom[]", isArray := true, elemIsObject := true, elemImmutable := true, init := Init.shared } : CtorField).independent = false := by decide
example : ({ cls := "compoundDataNIST", field := "Elements", type := "int[]", isArray := true, elemIsObject := false, elemImmutable := true, init := Init.shared } : CtorField).independent = false := by decide
example : handsOutFresh [] { owner := "Xraylib", method := "GetCompoundDataNISTByIndex", ret := "compoundDataNIST", kind := Ret.entry } = false := by decide

end C19
end Xrl
