import Xrl.Props.C08c
import Xrl.Lemmas.Loops
/-!
# C08 — part 2c: line fluorescence cross sections `CS_FluorLine_Kissel{_no_Cascade,_Radiative_Cascade,_Nonradiative_Cascade,_Cascade,}`

The four generated functions are instances of one text (`CS_FLUORLINE_BODY(base)`): `lineFn` is that text with the two
calls depending on `base` abstracted, and each generated function is *definitionally* `lineFn` of its own shell
function and of itself (`lineFn_<variant>`, by `rfl`).  Everything is then proved once, about `lineFn`:

* `lineFn_eq`   : the loop over `line_mappings` is a search for the first range containing the line;
* `lineShell_code` : outside the ten intra-M macros (`intraM`) the ranges of `line_mappings` designate the sub-shell
  the line's NAME designates (`Spec.lineShellK`, ranges derived from `Hdr.macros_LINE`);
* `fluorline_spec_<variant>` : the generated function meets `Spec.fluorLine`: rate × shell value for single lines,
  K-alpha, K-beta (K shell) and L-alpha (L3); L-beta = Σ of its 13 members, each evaluated without error slot;
  error for every other macro value.

DISCREPANCY (reported, the specification is not bent): `line_mappings` ends the M1…M4 ranges at `M<i>N1_LINE`, so
the ten lines `M1M2 … M4M5` are rejected as "Invalid line" although their names designate the sub-shells M1…M4 and
radrate.dat gives them rates (the L ranges do contain `L1L2`, `L1L3`, `L2L3`).  The theorems hold for these macros
only when the specified value is itself an error (e.g. the line has no rate): hypothesis `hM`;
`fluorline_intraM_rejected` states what the code does there; `fluorline_spec_stmt` is the statement without `hM`.
-/
namespace Xrl
namespace C08
open Spec

set_option linter.unusedSimpArgs false
set_option linter.unusedVariables false
set_option maxRecDepth 16384


section mirror
variable {α : Type} [Add α] [Sub α] [Mul α] [Div α] [Neg α] [LT α] [LE α] [OfScientific α]
  [DecidableLT α] [DecidableLE α] [XNum α]

/-- body of the `line_mappings` loop of `CS_FLUORLINE_BODY(base)`, `shellFn s error` standing for
`CS_FluorShell_Kissel_<base>(Z, s, E, error)` -/
def lineBody (shellFn : Int → Slot → M (α × Slot)) (T : Tables α) (Z : Int) (line : Int) :
    Int → Slot → M (Ctl (α × Slot) Slot) := fun i st_1_in => do
              let error := st_1_in
              let s_2 ← rd1 "line_mappings" 9 Static.line_mappings_line_lower i
              let c_4 ← (if (line ≥ s_2) then (do let s_3 ← rd1 "line_mappings" 9 Static.line_mappings_line_upper i; pure (decide (line ≤ s_3))) else pure false)
              if (c_4 = true) then
                let Factor := (0.0 : α)
                let rr := (0.0 : α)
                let r_5 ← Gen.RadRate T Z line error
                let error := r_5.2
                let rr := r_5.1
                if (deq rr (0.0 : α)) then
                  pure (Ctl.ret ((0.0 : α), error))
                else
                  let s_6 ← rd1 "line_mappings" 9 Static.line_mappings_shell i
                  let r_7 ← shellFn s_6 error
                  let error := r_7.2
                  let Factor := r_7.1
                  if (deq Factor (0.0 : α)) then
                    pure (Ctl.ret ((0.0 : α), error))
                  else
                    pure (Ctl.ret ((Factor * rr), error))
              else
                pure (Ctl.next error)

/-- the `LB_LINE` branch: sum of the member lines, `recFn m` standing for `CS_FluorLine_Kissel_<base>(Z, m, E, NULL)` -/
def lbBranch (recFn : Int → M (α × Slot)) (error : Slot) : M (α × Slot) := do
                  let rv := (0.0 : α)
                  let st_10 ← loopM (0 : Int) (13 : Int) rv (fun i st_10_in => do
                      let rv := st_10_in
                      let s_11 ← rd1 "LB_LINE_MACROS" 13 Static.LB_LINE_MACROS i
                      let r_12 ← recFn s_11
                      let rv := (rv + r_12.1)
                      pure rv
                    )
                  let rv := st_10
                  let i := (if (0 : Int) ≤ (13 : Int) then (13 : Int) else (0 : Int))
                  let j_13 ← (if (deq rv (0.0 : α)) then (do
                      let error ← setErr error 1 "The excitation energy too low to excite the shell"
                      pure error
                    ) else (do
                      pure error
                    ))
                  let error := j_13
                  pure (rv, error)

/-- rate, then shell value, then the product (`Factor * rr`) -/
def lineTail (shellFn : Slot → M (α × Slot)) (T : Tables α) (Z : Int) (line : Int) (error : Slot) : M (α × Slot) := do
                let r_8 ← Gen.RadRate T Z line error
                let error := r_8.2
                let rr := r_8.1
                if (deq rr (0.0 : α)) then
                  pure ((0.0 : α), error)
                else
                  let r_9 ← shellFn error
                  let error := r_9.2
                  let Factor := r_9.1
                  if (deq Factor (0.0 : α)) then
                    pure ((0.0 : α), error)
                  else
                    pure ((Factor * rr), error)

/-- `CS_FLUORLINE_BODY(base)` with the two calls that depend on `base` abstracted.
A copy of the generated text; `lineFn_<variant>` prove each generated function equal to it by `rfl`. -/
def lineFn (shellFn : Int → Slot → M (α × Slot)) (recFn : Int → M (α × Slot))
    (T : Tables α) (Z : Int) (line : Int) (E : α) (error : Slot) : M (α × Slot) := do
      let i := (0 : Int)
      if ((Z < (1 : Int)) ∨ (Z > (120 : Int))) then
        let error ← setErr error 1 "Z out of range"
        pure ((0.0 : α), error)
      else
        if (E ≤ (0.0 : α)) then
          let error ← setErr error 1 "Energy must be strictly positive"
          pure ((0.0 : α), error)
        else
          let st_1 ← loopCtlM (0 : Int) (9 : Int) error (lineBody shellFn T Z line)
          match st_1 with
          | Sum.inl st_1_r => pure st_1_r
          | Sum.inr st_1_s => do
              let error := st_1_s
              let i := (if (0 : Int) ≤ (9 : Int) then (9 : Int) else (0 : Int))
              if (line = (2 : Int)) then
                lineTail (shellFn (3 : Int)) T Z line error
              else
                if (line = (3 : Int)) then
                  lbBranch recFn error
                else
                  let error ← setErr error 1 "Invalid line for this atomic number"
                  pure ((0.0 : α), error)
end mirror

variable (T : Tables ℝ) (Z : Int) (E : ℝ) (error : Slot) (line : Int)

theorem lineFn_full (f : Nat) : Gen.CS_FluorLine_Kissel_Cascade_fuel (f + 1) T Z line E error =
    lineFn (fun s err => Gen.CS_FluorShell_Kissel_Cascade T Z s E err)
      (fun m => Gen.CS_FluorLine_Kissel_Cascade_fuel f T Z m E Slot.null) T Z line E error := by
  rw [Gen.CS_FluorLine_Kissel_Cascade_fuel]; rfl
theorem lineFn_auger (f : Nat) : Gen.CS_FluorLine_Kissel_Nonradiative_Cascade_fuel (f + 1) T Z line E error =
    lineFn (fun s err => Gen.CS_FluorShell_Kissel_Nonradiative_Cascade T Z s E err)
      (fun m => Gen.CS_FluorLine_Kissel_Nonradiative_Cascade_fuel f T Z m E Slot.null) T Z line E error := by
  rw [Gen.CS_FluorLine_Kissel_Nonradiative_Cascade_fuel]; rfl
theorem lineFn_rad (f : Nat) : Gen.CS_FluorLine_Kissel_Radiative_Cascade_fuel (f + 1) T Z line E error =
    lineFn (fun s err => Gen.CS_FluorShell_Kissel_Radiative_Cascade T Z s E err)
      (fun m => Gen.CS_FluorLine_Kissel_Radiative_Cascade_fuel f T Z m E Slot.null) T Z line E error := by
  rw [Gen.CS_FluorLine_Kissel_Radiative_Cascade_fuel]; rfl
theorem lineFn_none (f : Nat) : Gen.CS_FluorLine_Kissel_no_Cascade_fuel (f + 1) T Z line E error =
    lineFn (fun s err => Gen.CS_FluorShell_Kissel_no_Cascade T Z s E err)
      (fun m => Gen.CS_FluorLine_Kissel_no_Cascade_fuel f T Z m E Slot.null) T Z line E error := by
  rw [Gen.CS_FluorLine_Kissel_no_Cascade_fuel]; rfl

variable (shellFn : Int → Slot → M (ℝ × Slot)) (recFn : Int → M (ℝ × Slot))

/-- is `line` inside the `k`-th range of `line_mappings` -/
def inMap (line : Int) (k : Nat) : Bool :=
  decide (Static.line_mappings_line_lower k ≤ line) && decide (line ≤ Static.line_mappings_line_upper k)

theorem rd1_nat {β : Type} (name : String) (f : Nat → β) (k : Nat) (h : k < 9) :
    rd1 name 9 f (0 + (k : Int)) = Except.ok (f k) := by
  unfold rd1; rw [if_pos (by omega)]; simp

theorem body_next (k : Nat) (hk : k < 9) (s : Slot) (h : inMap line k = false) :
    lineBody shellFn T Z line (0 + (k : Int)) s = Except.ok (Ctl.next s) := by
  unfold lineBody
  simp only [rd1_nat _ _ k hk, bind_ok, pure_eq_ok]
  unfold inMap at h
  by_cases h1 : line ≥ Static.line_mappings_line_lower k
  · have h2 : ¬ line ≤ Static.line_mappings_line_upper k := by
      intro h2; simp [ge_iff_le.1 h1, h2] at h
    simp only [h1, h2, if_true, bind_ok, decide_false, Bool.false_eq_true, if_false]
  · simp only [h1, if_false, bind_ok, Bool.false_eq_true]

theorem body_hit (k : Nat) (hk : k < 9) (s : Slot) (h : inMap line k = true) :
    lineBody shellFn T Z line (0 + (k : Int)) s =
      (lineTail (shellFn (Static.line_mappings_shell k)) T Z line s) >>= fun r => Except.ok (Ctl.ret r) := by
  unfold lineBody lineTail
  simp only [rd1_nat _ _ k hk, bind_ok, pure_eq_ok]
  unfold inMap at h
  simp only [Bool.and_eq_true, decide_eq_true_eq] at h
  have h1 : line ≥ Static.line_mappings_line_lower k := h.1
  simp only [h1, h.2, if_true, bind_ok, decide_true]
  cases Gen.RadRate T Z line s with
  | error e => rfl
  | ok r =>
    simp only [bind_ok]
    split_ifs
    · rfl
    · cases shellFn _ r.2 with
      | error e => rfl
      | ok r7 =>
        simp only [bind_ok]
        split_ifs <;> rfl

/-- the mapping loop: the first range containing the line decides; otherwise the loop falls through -/
theorem loop_find (ks : List Nat) (hks : ∀ k ∈ ks, k < 9) (s : Slot) :
    loopCtlGo 0 (lineBody shellFn T Z line) ks s =
      (match ks.find? (inMap line) with
       | some k => (lineTail (shellFn (Static.line_mappings_shell k)) T Z line s) >>= fun r => Except.ok (Sum.inl r)
       | none => Except.ok (Sum.inr s)) := by
  induction ks with
  | nil => rfl
  | cons k ks ih =>
    have hk := hks k (List.mem_cons_self ..)
    by_cases h : inMap line k = true
    · simp only [loopCtlGo, body_hit T Z line shellFn k hk s h, List.find?, h]
      cases lineTail (shellFn (Static.line_mappings_shell k)) T Z line s <;> rfl
    · have h' : inMap line k = false := by simpa using h
      simp only [loopCtlGo, body_next T Z line shellFn k hk s h', List.find?, h', bind_ok]
      exact ih (fun k' hk' => hks k' (List.mem_cons_of_mem _ hk'))

/-- index of the `line_mappings` range containing the line -/
def codeIdx (line : Int) : Option Nat := (List.range 9).find? (inMap line)

/-- the whole of `CS_FLUORLINE_BODY`, the loop replaced by the search -/
theorem lineFn_eq :
    lineFn shellFn recFn T Z line E error =
      (if Z < 1 ∨ Z > 120 then do let error ← setErr error 1 "Z out of range"; pure ((0.0 : ℝ), error)
       else if E ≤ (0.0 : ℝ) then do let error ← setErr error 1 "Energy must be strictly positive"; pure ((0.0 : ℝ), error)
       else match codeIdx line with
        | some k => lineTail (shellFn (Static.line_mappings_shell k)) T Z line error
        | none =>
          if line = 2 then lineTail (shellFn 3) T Z line error
          else if line = 3 then lbBranch recFn error
          else do let error ← setErr error 1 "Invalid line for this atomic number"; pure ((0.0 : ℝ), error)) := by
  unfold lineFn
  by_cases hZ : Z < 1 ∨ Z > 120
  · simp only [hZ, if_true]
  · by_cases hE : E ≤ (0.0 : ℝ)
    · simp only [hZ, hE, if_true, if_false]
    · simp only [hZ, hE, if_false]
      have : loopCtlM 0 9 error (lineBody shellFn T Z line) = loopCtlGo 0 (lineBody shellFn T Z line) (List.range 9) error := rfl
      rw [this, loop_find T Z line shellFn (List.range 9) (fun k hk => List.mem_range.1 hk) error]
      unfold codeIdx
      cases List.find? (inMap line) (List.range 9) with
      | some k =>
        simp only []
        cases lineTail (shellFn (Static.line_mappings_shell k)) T Z line error <;> rfl
      | none => rfl

/-! ## specification level -/

omit T Z E error line shellFn recFn in
theorem radRate_ne_any (T : Tables ℝ) (Z line : Int) : Spec.RadRate T Z line ≠ .any := by
  unfold Spec.RadRate singleRate; simp only []; split_ifs <;> simp

omit E error shellFn recFn in
theorem radRate_value_ne_zero {r : ℝ} (h : Spec.RadRate T Z line = .value r) : r ≠ 0 := by
  unfold Spec.RadRate singleRate at h
  simp only [deq_real] at h
  split_ifs at h with h1 h2 h3 h4 h5 h6 h7 h8 h9 <;> injection h with h <;> subst h
  · rw [zero_lit] at h3; exact h3
  · rw [zero_lit] at h5; intro h0; apply h5; right; norm_num; linarith
  · rw [zero_lit] at h7; exact h7
  · have := h9.2.2; rw [zero_lit] at this; exact this.ne'

/-- rate through the caller's slot, shell value through the caller's slot, product -/
theorem lineTail_spec (he : error.isFull = false) (sf : Slot → M (ℝ × Slot)) (xs : Expect ℝ)
    (hs : Meets (sf error) error xs) :
    Meets (lineTail sf T Z line error) error (lineValue (Spec.RadRate T Z line) xs) := by
  have mR := C10.rad_rate_spec T Z error he line
  unfold lineTail
  rcases Meets.cases mR with ⟨r, hr, rr⟩ | ⟨hr, e, h1, h2, rr⟩ | hany
  · have rne := radRate_value_ne_zero T Z line hr
    simp only [hr, rr, bind_ok, pure_eq_ok, deq_real, zero_lit, rne, if_false]
    rcases Meets.cases hs with ⟨p, rfl, hp⟩ | ⟨rfl, e, h1, h2, hp⟩ | rfl
    · simp only [hp, bind_ok, lineValue, Meets, Returns]
      by_cases h0 : p = 0
      · simp [h0]
      · simp [h0]
    · simp only [hp, bind_ok, lineValue, Meets, if_true]
      exact fails_of_eq h1 h2 rfl
    · trivial
  · simp only [hr, rr, bind_ok, pure_eq_ok, deq_real, zero_lit, if_true, lineValue, Meets]
    exact fails_of_eq h1 h2 rfl
  · exact absurd hany (radRate_ne_any T Z line)

/-- the line macros between two M sub-shells: named like M lines, but outside the ranges of `line_mappings` -/
def intraM : List Int := [-114, -115, -116, -117, -137, -138, -139, -159, -160, -181]

def inSpec (line : Int) (k : Nat) : Bool :=
  decide ((lineRanges.getD k (0, 0, 0)).2.1 ≤ line) && decide (line ≤ (lineRanges.getD k (0, 0, 0)).2.2)

omit T Z E error shellFn recFn in
theorem lineShell_eq : lineShellK line = ((List.range 9).find? (inSpec line)).map (fun k => (k : Int)) := by
  unfold lineShellK
  have : lineRanges = (List.range 9).map (fun k => lineRanges.getD k (0, 0, 0)) := by decide
  rw [this, List.find?_map, Option.map_map]
  show Option.map _ (List.find? (inSpec line) (List.range 9)) = _
  cases h : List.find? (inSpec line) (List.range 9) with
  | none => rfl
  | some k =>
    have hk := List.mem_range.1 (List.mem_of_find?_eq_some h)
    have : k = 0 ∨ k = 1 ∨ k = 2 ∨ k = 3 ∨ k = 4 ∨ k = 5 ∨ k = 6 ∨ k = 7 ∨ k = 8 := by omega
    rcases this with h | h | h | h | h | h | h | h | h <;> subst h <;> rfl

omit T Z E error shellFn recFn in
theorem inSpec_eq_inMap (hl : line ∉ intraM) (k : Nat) (hk : k ∈ List.range 9) : inSpec line k = inMap line k := by
  have hk := List.mem_range.1 hk
  simp only [intraM, List.mem_cons, List.not_mem_nil, or_false, not_or] at hl
  have : k = 0 ∨ k = 1 ∨ k = 2 ∨ k = 3 ∨ k = 4 ∨ k = 5 ∨ k = 6 ∨ k = 7 ∨ k = 8 := by omega
  rcases this with h | h | h | h | h | h | h | h | h <;> subst h <;>
    simp only [inSpec, inMap, lineRanges, Static.line_mappings_line_lower, Static.line_mappings_line_upper,
      Static.line_mappings_line_lower_list, Static.line_mappings_line_upper_list, List.getD_cons_zero, List.getD_cons_succ] <;>
    rw [Bool.eq_iff_iff] <;> simp only [Bool.and_eq_true, decide_eq_true_eq] <;> omega

omit T Z E error shellFn recFn in
/-- outside the ten intra-M macros the code's ranges and the name-derived ranges designate the same sub-shell -/
theorem lineShell_code (hl : line ∉ intraM) :
    lineShellK line = (codeIdx line).map (fun k => Static.line_mappings_shell k) := by
  rw [lineShell_eq, codeIdx, List.find?_congr (inSpec_eq_inMap line hl)]
  cases h : List.find? (inMap line) (List.range 9) with
  | none => rfl
  | some k =>
    have hk := List.mem_range.1 (List.mem_of_find?_eq_some h)
    have : k = 0 ∨ k = 1 ∨ k = 2 ∨ k = 3 ∨ k = 4 ∨ k = 5 ∨ k = 6 ∨ k = 7 ∨ k = 8 := by omega
    rcases this with h | h | h | h | h | h | h | h | h <;> subst h <;> rfl

omit T Z E error shellFn recFn in
theorem intraM_code (hl : line ∈ intraM) : codeIdx line = none ∧ line ≠ 2 ∧ line ≠ 3 ∧ (lineShellK line).isSome = true := by
  simp only [intraM, List.mem_cons, List.not_mem_nil, or_false] at hl
  rcases hl with h | h | h | h | h | h | h | h | h | h <;> subst h <;> decide

omit T Z E error shellFn recFn in
theorem codeIdx_LA_LB : codeIdx 2 = none ∧ codeIdx 3 = none ∧ lineShellK 2 = none ∧ lineShellK 3 = none := by decide

omit T Z E error shellFn recFn in
theorem codeIdx_none_spec (hl : line ∉ intraM) (h : codeIdx line = none) : lineShellK line = none := by
  rw [lineShell_code line hl, h]; rfl

omit T Z E error shellFn recFn in
theorem codeIdx_some_spec (hl : line ∉ intraM) {k : Nat} (h : codeIdx line = some k) :
    lineShellK line = some (Static.line_mappings_shell k) := by
  rw [lineShell_code line hl, h]; rfl

theorem fluorShell_ne_any {v : Variant} {own : Int → Expect ℝ} (hna : ∀ t, own t ≠ .any) (s : Int) :
    fluorShell T Z s E v own ≠ .any := by
  unfold fluorShell withYield
  split_ifs <;> try simp
  split
  · have := @vacancy_ne_any T Z s v (innerP T Z v own s.toNat) (own s) (hna s)
    revert this
    cases vacancyProd T Z s v (innerP T Z v own s.toNat) (own s) <;> simp [scaleBy]
  · simp

theorem lineValue_ne_any {a b : Expect ℝ} (hb : b ≠ .any) : lineValue a b ≠ .any := by
  cases a <;> cases b <;> simp_all [lineValue]

theorem fluorLine1_ne_any {v : Variant} {own : Int → Expect ℝ} (hna : ∀ t, own t ≠ .any) :
    fluorLine1 T Z line E v own ≠ .any := by
  unfold fluorLine1
  by_cases h1 : zOk Z = false
  · simp [h1]
  · by_cases h2 : E ≤ (0.0 : ℝ)
    · simp [h1, h2]
    · simp only [h1, h2, if_false]
      cases lineShellK line with
      | some s => exact lineValue_ne_any (fluorShell_ne_any T Z E hna _)
      | none =>
        simp only []
        by_cases h3 : line = Hdr.LA_LINE
        · simp only [h3, if_true]; exact lineValue_ne_any (fluorShell_ne_any T Z E hna _)
        · simp [h3]

/-- every macro value except L-beta: rate × shell value for the sub-shell the line's NAME designates, K-alpha and
K-beta included; L-alpha through L3; an error otherwise.  The ten intra-M macros, which `line_mappings` leaves out,
are rejected as invalid lines: there the theorem needs the specified value to be an error as well (`hM`). -/
theorem lineFn_spec1 (he : error.isFull = false) (v : Variant) (own : Int → Expect ℝ)
    (hshell : ∀ s, Meets (shellFn s error) error (fluorShell T Z s E v own))
    (h3 : line ≠ 3) (hM : line ∈ intraM → fluorLine1 T Z line E v own = .fails) :
    Meets (lineFn shellFn recFn T Z line E error) error (fluorLine1 T Z line E v own) := by
  rw [lineFn_eq]
  by_cases hl : line ∈ intraM
  · obtain ⟨c1, c2, c3, c4⟩ := intraM_code line hl
    rw [hM hl]
    simp only [c1, c2, c3, ↓reduceIte, setErr_notFull he, bind_ok, pure_eq_ok, Meets]
    split_ifs <;> exact fails_mk' (by decide) (by decide)
  · unfold fluorLine1 zOk
    simp only [Hdr.ZMAX, Hdr.LA_LINE, Hdr.L3_SHELL]
    by_cases hZ1 : Z < 1 ∨ Z > 120
    · have : ¬ (1 ≤ Z ∧ Z ≤ 120) := by omega
      simp only [hZ1, this, ↓reduceIte, decide_false, setErr_notFull he, bind_ok, pure_eq_ok, Meets]
      exact fails_mk' (by decide) (by decide)
    · have hZ2 : 1 ≤ Z ∧ Z ≤ 120 := by omega
      by_cases hE : E ≤ (0.0 : ℝ)
      · simp only [hZ1, hZ2, hE, and_self, ↓reduceIte, decide_true, Bool.true_eq_false, setErr_notFull he, bind_ok, pure_eq_ok, Meets]
        exact fails_mk' (by decide) (by decide)
      · simp only [hZ1, hZ2, hE, and_self, ↓reduceIte, decide_true, Bool.true_eq_false]
        cases hc : codeIdx line with
        | some k =>
          simp only [codeIdx_some_spec line hl hc]
          exact lineTail_spec T Z error line he _ _ (hshell _)
        | none =>
          simp only [codeIdx_none_spec line hl hc]
          by_cases h2 : line = 2
          · simp only [h2, ↓reduceIte]
            exact lineTail_spec T Z error 2 he _ _ (hshell _)
          · simp only [h2, h3, ↓reduceIte, setErr_notFull he, bind_ok, pure_eq_ok, Meets]
            exact fails_mk' (by decide) (by decide)

/-- what the code does for the ten intra-M macros: an error, whatever the tables hold -/
theorem lineFn_intraM (he : error.isFull = false) (hl : line ∈ intraM) :
    Fails (lineFn shellFn recFn T Z line E error) error := by
  rw [lineFn_eq]
  obtain ⟨c1, c2, c3, c4⟩ := intraM_code line hl
  simp only [c1, c2, c3, ↓reduceIte, setErr_notFull he, bind_ok, pure_eq_ok]
  split_ifs <;> exact fails_mk' (by decide) (by decide)

/-- with a radiative rate missing, the specified line value is an error -/
theorem fluorLine1_fails_of_rate {v : Variant} {own : Int → Expect ℝ} (hl : line ∈ intraM)
    (h : Spec.RadRate T Z line = .fails) : fluorLine1 T Z line E v own = .fails := by
  obtain ⟨c1, c2, c3, c4⟩ := intraM_code line hl
  obtain ⟨s, hs⟩ := Option.isSome_iff_exists.1 c4
  unfold fluorLine1
  simp only [hs, h, lineValue]
  split_ifs <;> rfl

omit T Z E error line shellFn recFn in
theorem range13 : List.range 13 = [0, 1, 2, 3, 4, 5, 6, 7, 8, 9, 10, 11, 12] := by decide
theorem lb_rd_0 : rd1 "LB_LINE_MACROS" 13 Static.LB_LINE_MACROS (0 + 0) = Except.ok (-63) := by rfl
theorem lb_rd_1 : rd1 "LB_LINE_MACROS" 13 Static.LB_LINE_MACROS (0 + 1) = Except.ok (-95) := by rfl
theorem lb_rd_2 : rd1 "LB_LINE_MACROS" 13 Static.LB_LINE_MACROS (0 + 2) = Except.ok (-34) := by rfl
theorem lb_rd_3 : rd1 "LB_LINE_MACROS" 13 Static.LB_LINE_MACROS (0 + 3) = Except.ok (-33) := by rfl
theorem lb_rd_4 : rd1 "LB_LINE_MACROS" 13 Static.LB_LINE_MACROS (0 + 4) = Except.ok (-102) := by rfl
theorem lb_rd_5 : rd1 "LB_LINE_MACROS" 13 Static.LB_LINE_MACROS (0 + 5) = Except.ok (-91) := by rfl
theorem lb_rd_6 : rd1 "LB_LINE_MACROS" 13 Static.LB_LINE_MACROS (0 + 6) = Except.ok (-98) := by rfl
theorem lb_rd_7 : rd1 "LB_LINE_MACROS" 13 Static.LB_LINE_MACROS (0 + 7) = Except.ok (-36) := by rfl
theorem lb_rd_8 : rd1 "LB_LINE_MACROS" 13 Static.LB_LINE_MACROS (0 + 8) = Except.ok (-35) := by rfl
theorem lb_rd_9 : rd1 "LB_LINE_MACROS" 13 Static.LB_LINE_MACROS (0 + 9) = Except.ok (-94) := by rfl
theorem lb_rd_10 : rd1 "LB_LINE_MACROS" 13 Static.LB_LINE_MACROS (0 + 10) = Except.ok (-62) := by rfl
theorem lb_rd_11 : rd1 "LB_LINE_MACROS" 13 Static.LB_LINE_MACROS (0 + 11) = Except.ok (-96) := by rfl
theorem lb_rd_12 : rd1 "LB_LINE_MACROS" 13 Static.LB_LINE_MACROS (0 + 12) = Except.ok (-97) := by rfl

omit T Z E line shellFn in
/-- the L-beta branch: the member lines are evaluated without an error slot and summed; an all-zero sum is the error
"excitation energy too low" -/
theorem lbBranch_spec (he : error.isFull = false) (g : Int → ℝ)
    (hrec : ∀ m ∈ Static.LB_LINE_MACROS_list, recFn m = Except.ok (g m, Slot.null)) :
    Meets (lbBranch recFn error) error
      (if deq (lbMembersK.foldl (fun acc m => acc + g m) (0.0 : ℝ)) (0.0 : ℝ) then .fails
       else .value (lbMembersK.foldl (fun acc m => acc + g m) (0.0 : ℝ))) := by
  have h0 := hrec (-63) (by decide)
  have h1 := hrec (-95) (by decide)
  have h2 := hrec (-34) (by decide)
  have h3 := hrec (-33) (by decide)
  have h4 := hrec (-102) (by decide)
  have h5 := hrec (-91) (by decide)
  have h6 := hrec (-98) (by decide)
  have h7 := hrec (-36) (by decide)
  have h8 := hrec (-35) (by decide)
  have h9 := hrec (-94) (by decide)
  have h10 := hrec (-62) (by decide)
  have h11 := hrec (-96) (by decide)
  have h12 := hrec (-97) (by decide)
  unfold lbBranch
  simp only [loopM_unroll, Int.sub_zero, Int.reduceToNat, range13, List.foldlM, Nat.cast_ofNat, Nat.cast_zero, Nat.cast_one,
    lb_rd_0, lb_rd_1, lb_rd_2, lb_rd_3, lb_rd_4, lb_rd_5, lb_rd_6, lb_rd_7, lb_rd_8, lb_rd_9, lb_rd_10, lb_rd_11, lb_rd_12, h0, h1, h2, h3, h4, h5, h6, h7, h8, h9, h10, h11, h12, bind_ok, pure_eq_ok]
  rw [lbMembers_eq]
  simp only [Static.LB_LINE_MACROS_list, List.foldl]
  split_ifs with h0
  · simp only [setErr_notFull he, bind_ok, Meets]
    rw [deq_real] at h0
    rw [h0]
    exact fails_mk' (by decide) (by decide)
  · simp only [bind_ok, Meets, Returns]

omit T Z E error line shellFn recFn in
theorem lb_member_ok : ∀ m ∈ Static.LB_LINE_MACROS_list, m ≠ 3 ∧ m ∉ intraM := by decide

/-- L-beta: the sum over the 13 members, each evaluated without an error slot -/
theorem lineFn_specLB (he : error.isFull = false) (v : Variant) (own : Int → Expect ℝ)
    (hrec : ∀ m ∈ Static.LB_LINE_MACROS_list, recFn m = Except.ok (valOr0 (fluorLine1 T Z m E v own), Slot.null)) :
    Meets (lineFn shellFn recFn T Z 3 E error) error (fluorLine T Z 3 E v own) := by
  rw [lineFn_eq]
  unfold fluorLine zOk
  simp only [Hdr.ZMAX, Hdr.LB_LINE, if_true]
  by_cases hZ1 : Z < 1 ∨ Z > 120
  · have : ¬ (1 ≤ Z ∧ Z ≤ 120) := by omega
    simp only [hZ1, this, ↓reduceIte, decide_false, setErr_notFull he, bind_ok, pure_eq_ok, Meets]
    exact fails_mk' (by decide) (by decide)
  · have hZ2 : 1 ≤ Z ∧ Z ≤ 120 := by omega
    by_cases hE : E ≤ (0.0 : ℝ)
    · simp only [hZ1, hZ2, hE, and_self, ↓reduceIte, decide_true, Bool.true_eq_false, setErr_notFull he, bind_ok, pure_eq_ok, Meets]
      exact fails_mk' (by decide) (by decide)
    · simp only [hZ1, hZ2, hE, and_self, ↓reduceIte, decide_true, Bool.true_eq_false, codeIdx_LA_LB.2.1, Int.reduceEq]
      exact lbBranch_spec error recFn he _ hrec

variable (own : Int → Expect ℝ)

theorem line1_none (f : Nat) (he : error.isFull = false) (ho : OwnOK T Z E own) (h3 : line ≠ 3)
    (hM : line ∈ intraM → fluorLine1 T Z line E .none own = .fails) :
    Meets (Gen.CS_FluorLine_Kissel_no_Cascade_fuel (f + 1) T Z line E error) error (fluorLine1 T Z line E .none own) := by
  rw [lineFn_none]
  exact lineFn_spec1 T Z E error line _ _ he .none own (fun s => fluorshell_spec_none T Z E error own s he ho) h3 hM

/-- `CS_FluorLine_Kissel_no_Cascade`, weakest side condition: on the ten intra-M macros the specified value is an error -/
theorem fluorline_spec_none' (he : error.isFull = false) (ho : OwnOK T Z E own)
    (hM : line ∈ intraM → fluorLine1 T Z line E .none own = .fails) :
    Meets (Gen.CS_FluorLine_Kissel_no_Cascade T Z line E error) error (fluorLine T Z line E .none own) := by
  unfold Gen.CS_FluorLine_Kissel_no_Cascade FUEL
  by_cases h3 : line = 3
  · subst h3
    rw [show (6 : Nat) = 5 + 1 from rfl, lineFn_none]
    refine lineFn_specLB T Z E error _ _ he .none own (fun m hm => ?_)
    obtain ⟨m3, mM⟩ := lb_member_ok m hm
    exact C10.meets_null (line1_none T Z E Slot.null m own 4 rfl ho m3 (fun h => absurd h mM)) (fluorLine1_ne_any T Z E m ho.ne_any)
  · have : fluorLine T Z line E .none own = fluorLine1 T Z line E .none own := by
      unfold fluorLine; simp only [Hdr.LB_LINE, h3, if_false]
    rw [this]
    exact line1_none T Z E error line own 5 he ho h3 hM

/-- `CS_FluorLine_Kissel_no_Cascade`: single lines, K-alpha, K-beta, L-alpha = rate × shell value (sub-shell from the line's NAME);
L-beta = Σ of its 13 members; every other macro value is an invalid line.  Side condition: the ten intra-M macros
carry no radiative rate (false for the shipped radrate.dat — see the discrepancy note above). -/
theorem fluorline_spec_none (he : error.isFull = false) (ho : OwnOK T Z E own)
    (hM : line ∈ intraM → Spec.RadRate T Z line = .fails) :
    Meets (Gen.CS_FluorLine_Kissel_no_Cascade T Z line E error) error (fluorLine T Z line E .none own) :=
  fluorline_spec_none' T Z E error line own he ho (fun hl => fluorLine1_fails_of_rate T Z E line hl (hM hl))

/-- `CS_FluorLine_Kissel_no_Cascade` rejects the ten intra-M macros, whatever the tables hold -/
theorem fluorline_intraM_rejected_none (he : error.isFull = false) (hl : line ∈ intraM) :
    Fails (Gen.CS_FluorLine_Kissel_no_Cascade T Z line E error) error := by
  unfold Gen.CS_FluorLine_Kissel_no_Cascade FUEL
  rw [show (6 : Nat) = 5 + 1 from rfl, lineFn_none]
  exact lineFn_intraM T Z E error line _ _ he hl

theorem line1_rad (f : Nat) (he : error.isFull = false) (ho : OwnOK T Z E own) (h3 : line ≠ 3)
    (hM : line ∈ intraM → fluorLine1 T Z line E .rad own = .fails) :
    Meets (Gen.CS_FluorLine_Kissel_Radiative_Cascade_fuel (f + 1) T Z line E error) error (fluorLine1 T Z line E .rad own) := by
  rw [lineFn_rad]
  exact lineFn_spec1 T Z E error line _ _ he .rad own (fun s => fluorshell_spec_rad T Z E error own s he ho) h3 hM

/-- `CS_FluorLine_Kissel_Radiative_Cascade`, weakest side condition: on the ten intra-M macros the specified value is an error -/
theorem fluorline_spec_rad' (he : error.isFull = false) (ho : OwnOK T Z E own)
    (hM : line ∈ intraM → fluorLine1 T Z line E .rad own = .fails) :
    Meets (Gen.CS_FluorLine_Kissel_Radiative_Cascade T Z line E error) error (fluorLine T Z line E .rad own) := by
  unfold Gen.CS_FluorLine_Kissel_Radiative_Cascade FUEL
  by_cases h3 : line = 3
  · subst h3
    rw [show (6 : Nat) = 5 + 1 from rfl, lineFn_rad]
    refine lineFn_specLB T Z E error _ _ he .rad own (fun m hm => ?_)
    obtain ⟨m3, mM⟩ := lb_member_ok m hm
    exact C10.meets_null (line1_rad T Z E Slot.null m own 4 rfl ho m3 (fun h => absurd h mM)) (fluorLine1_ne_any T Z E m ho.ne_any)
  · have : fluorLine T Z line E .rad own = fluorLine1 T Z line E .rad own := by
      unfold fluorLine; simp only [Hdr.LB_LINE, h3, if_false]
    rw [this]
    exact line1_rad T Z E error line own 5 he ho h3 hM

/-- `CS_FluorLine_Kissel_Radiative_Cascade`: single lines, K-alpha, K-beta, L-alpha = rate × shell value (sub-shell from the line's NAME);
L-beta = Σ of its 13 members; every other macro value is an invalid line.  Side condition: the ten intra-M macros
carry no radiative rate (false for the shipped radrate.dat — see the discrepancy note above). -/
theorem fluorline_spec_rad (he : error.isFull = false) (ho : OwnOK T Z E own)
    (hM : line ∈ intraM → Spec.RadRate T Z line = .fails) :
    Meets (Gen.CS_FluorLine_Kissel_Radiative_Cascade T Z line E error) error (fluorLine T Z line E .rad own) :=
  fluorline_spec_rad' T Z E error line own he ho (fun hl => fluorLine1_fails_of_rate T Z E line hl (hM hl))

/-- `CS_FluorLine_Kissel_Radiative_Cascade` rejects the ten intra-M macros, whatever the tables hold -/
theorem fluorline_intraM_rejected_rad (he : error.isFull = false) (hl : line ∈ intraM) :
    Fails (Gen.CS_FluorLine_Kissel_Radiative_Cascade T Z line E error) error := by
  unfold Gen.CS_FluorLine_Kissel_Radiative_Cascade FUEL
  rw [show (6 : Nat) = 5 + 1 from rfl, lineFn_rad]
  exact lineFn_intraM T Z E error line _ _ he hl

theorem line1_auger (f : Nat) (he : error.isFull = false) (ho : OwnOK T Z E own) (h3 : line ≠ 3)
    (hM : line ∈ intraM → fluorLine1 T Z line E .auger own = .fails) :
    Meets (Gen.CS_FluorLine_Kissel_Nonradiative_Cascade_fuel (f + 1) T Z line E error) error (fluorLine1 T Z line E .auger own) := by
  rw [lineFn_auger]
  exact lineFn_spec1 T Z E error line _ _ he .auger own (fun s => fluorshell_spec_auger T Z E error own s he ho) h3 hM

/-- `CS_FluorLine_Kissel_Nonradiative_Cascade`, weakest side condition: on the ten intra-M macros the specified value is an error -/
theorem fluorline_spec_auger' (he : error.isFull = false) (ho : OwnOK T Z E own)
    (hM : line ∈ intraM → fluorLine1 T Z line E .auger own = .fails) :
    Meets (Gen.CS_FluorLine_Kissel_Nonradiative_Cascade T Z line E error) error (fluorLine T Z line E .auger own) := by
  unfold Gen.CS_FluorLine_Kissel_Nonradiative_Cascade FUEL
  by_cases h3 : line = 3
  · subst h3
    rw [show (6 : Nat) = 5 + 1 from rfl, lineFn_auger]
    refine lineFn_specLB T Z E error _ _ he .auger own (fun m hm => ?_)
    obtain ⟨m3, mM⟩ := lb_member_ok m hm
    exact C10.meets_null (line1_auger T Z E Slot.null m own 4 rfl ho m3 (fun h => absurd h mM)) (fluorLine1_ne_any T Z E m ho.ne_any)
  · have : fluorLine T Z line E .auger own = fluorLine1 T Z line E .auger own := by
      unfold fluorLine; simp only [Hdr.LB_LINE, h3, if_false]
    rw [this]
    exact line1_auger T Z E error line own 5 he ho h3 hM

/-- `CS_FluorLine_Kissel_Nonradiative_Cascade`: single lines, K-alpha, K-beta, L-alpha = rate × shell value (sub-shell from the line's NAME);
L-beta = Σ of its 13 members; every other macro value is an invalid line.  Side condition: the ten intra-M macros
carry no radiative rate (false for the shipped radrate.dat — see the discrepancy note above). -/
theorem fluorline_spec_auger (he : error.isFull = false) (ho : OwnOK T Z E own)
    (hM : line ∈ intraM → Spec.RadRate T Z line = .fails) :
    Meets (Gen.CS_FluorLine_Kissel_Nonradiative_Cascade T Z line E error) error (fluorLine T Z line E .auger own) :=
  fluorline_spec_auger' T Z E error line own he ho (fun hl => fluorLine1_fails_of_rate T Z E line hl (hM hl))

/-- `CS_FluorLine_Kissel_Nonradiative_Cascade` rejects the ten intra-M macros, whatever the tables hold -/
theorem fluorline_intraM_rejected_auger (he : error.isFull = false) (hl : line ∈ intraM) :
    Fails (Gen.CS_FluorLine_Kissel_Nonradiative_Cascade T Z line E error) error := by
  unfold Gen.CS_FluorLine_Kissel_Nonradiative_Cascade FUEL
  rw [show (6 : Nat) = 5 + 1 from rfl, lineFn_auger]
  exact lineFn_intraM T Z E error line _ _ he hl

theorem line1_full (f : Nat) (he : error.isFull = false) (ho : OwnOK T Z E own) (h3 : line ≠ 3)
    (hM : line ∈ intraM → fluorLine1 T Z line E .full own = .fails) :
    Meets (Gen.CS_FluorLine_Kissel_Cascade_fuel (f + 1) T Z line E error) error (fluorLine1 T Z line E .full own) := by
  rw [lineFn_full]
  exact lineFn_spec1 T Z E error line _ _ he .full own (fun s => fluorshell_spec_full T Z E error own s he ho) h3 hM

/-- `CS_FluorLine_Kissel_Cascade`, weakest side condition: on the ten intra-M macros the specified value is an error -/
theorem fluorline_spec_full' (he : error.isFull = false) (ho : OwnOK T Z E own)
    (hM : line ∈ intraM → fluorLine1 T Z line E .full own = .fails) :
    Meets (Gen.CS_FluorLine_Kissel_Cascade T Z line E error) error (fluorLine T Z line E .full own) := by
  unfold Gen.CS_FluorLine_Kissel_Cascade FUEL
  by_cases h3 : line = 3
  · subst h3
    rw [show (6 : Nat) = 5 + 1 from rfl, lineFn_full]
    refine lineFn_specLB T Z E error _ _ he .full own (fun m hm => ?_)
    obtain ⟨m3, mM⟩ := lb_member_ok m hm
    exact C10.meets_null (line1_full T Z E Slot.null m own 4 rfl ho m3 (fun h => absurd h mM)) (fluorLine1_ne_any T Z E m ho.ne_any)
  · have : fluorLine T Z line E .full own = fluorLine1 T Z line E .full own := by
      unfold fluorLine; simp only [Hdr.LB_LINE, h3, if_false]
    rw [this]
    exact line1_full T Z E error line own 5 he ho h3 hM

/-- `CS_FluorLine_Kissel_Cascade`: single lines, K-alpha, K-beta, L-alpha = rate × shell value (sub-shell from the line's NAME);
L-beta = Σ of its 13 members; every other macro value is an invalid line.  Side condition: the ten intra-M macros
carry no radiative rate (false for the shipped radrate.dat — see the discrepancy note above). -/
theorem fluorline_spec_full (he : error.isFull = false) (ho : OwnOK T Z E own)
    (hM : line ∈ intraM → Spec.RadRate T Z line = .fails) :
    Meets (Gen.CS_FluorLine_Kissel_Cascade T Z line E error) error (fluorLine T Z line E .full own) :=
  fluorline_spec_full' T Z E error line own he ho (fun hl => fluorLine1_fails_of_rate T Z E line hl (hM hl))

/-- `CS_FluorLine_Kissel_Cascade` rejects the ten intra-M macros, whatever the tables hold -/
theorem fluorline_intraM_rejected_full (he : error.isFull = false) (hl : line ∈ intraM) :
    Fails (Gen.CS_FluorLine_Kissel_Cascade T Z line E error) error := by
  unfold Gen.CS_FluorLine_Kissel_Cascade FUEL
  rw [show (6 : Nat) = 5 + 1 from rfl, lineFn_full]
  exact lineFn_intraM T Z E error line _ _ he hl

/-- the un-suffixed line function is the full-cascade one -/
theorem unsuffixed_is_full_line :
    Gen.CS_FluorLine_Kissel T Z line E error = Gen.CS_FluorLine_Kissel_Cascade T Z line E error := by
  unfold Gen.CS_FluorLine_Kissel
  cases Gen.CS_FluorLine_Kissel_Cascade T Z line E error <;> rfl

theorem fluorline_spec (he : error.isFull = false) (ho : OwnOK T Z E own)
    (hM : line ∈ intraM → Spec.RadRate T Z line = .fails) :
    Meets (Gen.CS_FluorLine_Kissel T Z line E error) error (fluorLine T Z line E .full own) := by
  rw [unsuffixed_is_full_line]; exact fluorline_spec_full T Z E error line own he ho hM

/-- the generated line function of a variant -/
noncomputable def lineGen : Variant → Tables ℝ → Int → Int → ℝ → Slot → M (ℝ × Slot)
  | .none => Gen.CS_FluorLine_Kissel_no_Cascade
  | .rad => Gen.CS_FluorLine_Kissel_Radiative_Cascade
  | .auger => Gen.CS_FluorLine_Kissel_Nonradiative_Cascade
  | .full => Gen.CS_FluorLine_Kissel_Cascade

/-- the line theorem WITHOUT the side condition on the intra-M macros: not provable for the current code — by
`fluorline_intraM_rejected_*` the code fails on `M1M2 … M4M5` while the specification gives shell value × rate
whenever the line has a rate and the M sub-shell can be excited -/
def fluorline_spec_stmt : Prop :=
  ∀ (T : Tables ℝ) (Z : Int) (E : ℝ) (error : Slot) (line : Int) (own : Int → Expect ℝ) (v : Variant),
    error.isFull = false → OwnOK T Z E own →
    Meets (lineGen v T Z line E error) error (fluorLine T Z line E v own)

/-- what is proved of `fluorline_spec_stmt`: everything outside the ten intra-M macros -/
theorem fluorline_spec_partial (v : Variant) (he : error.isFull = false) (ho : OwnOK T Z E own) (hl : line ∉ intraM) :
    Meets (lineGen v T Z line E error) error (fluorLine T Z line E v own) := by
  cases v
  · exact fluorline_spec_none T Z E error line own he ho (fun h => absurd h hl)
  · exact fluorline_spec_rad T Z E error line own he ho (fun h => absurd h hl)
  · exact fluorline_spec_auger T Z E error line own he ho (fun h => absurd h hl)
  · exact fluorline_spec_full T Z E error line own he ho (fun h => absurd h hl)

/-! ## `line_mappings` against the name-derived ranges -/

/-- the nine ranges of `line_mappings` (src/kissel_pe.c) as (sub-shell, lowest, highest line macro) -/
def codeRanges : List (Int × Int × Int) :=
  (List.range 9).map (fun i => (Static.line_mappings_shell i, Static.line_mappings_line_lower i, Static.line_mappings_line_upper i))

/-- the ranges of K, L1, L2, L3 and M5 are the name-derived ones; those of M1…M4 stop at `M<i>N1_LINE`
(−118, −140, −161, −182) instead of the last line named after the sub-shell (`M1M2` = −114, `M2M3` = −137, `M3M4` = −159,
`M4M5` = −181) -/
theorem codeRanges_eq : codeRanges =
    [(0, -29, 1), (1, -58, -30), (2, -85, -59), (3, -113, -86), (4, -136, -118), (5, -158, -140), (6, -180, -161),
     (7, -200, -182), (8, -219, -201)] := by decide

theorem codeRanges_agree_KLM5 : ∀ i ∈ [0, 1, 2, 3, 8], codeRanges.getD i (0, 0, 0) = lineRanges.getD i (0, 0, 0) := by decide

/-- the 9 ranges are NOT all equal to the ones derived from the line macro names -/
theorem codeRanges_ne_names : codeRanges ≠ lineRangesOfNames := by
  rw [lineRanges_from_names]; decide

/-- the difference is exactly the ten intra-M macros -/
theorem codeRanges_missing : ∀ l ∈ (List.range 223).map (fun k => (3 : Int) - (k : Int)),
    ((lineShellK l).isSome = true ∧ codeIdx l = none) ↔ l ∈ intraM := by decide

end C08
end Xrl
